#!/usr/bin/env python3
"""Generates /verif/seeded/SUMMARY.md from /verif/seeded/*/meta.json."""
import json, glob, os

notes = json.load(open("/verif/seeded/NOTES.json")) if os.path.exists("/verif/seeded/NOTES.json") else {}
rows = []
for f in sorted(glob.glob("/verif/seeded/*/meta.json")):
    m = json.load(open(f))
    v = m.get("verified_by_me", {})
    chk = v.get("check") or {}
    classes = []
    for l in chk.get("lines", []):
        if "class=" in l:
            classes.append(l.split("class=")[1].strip().strip('"')[:70])
        elif l.startswith("INCONCLUSIVE"):
            classes.append("INCONCLUSIVE")
    outcome = "caught" if chk.get("exit") == 1 else ("MISSED" if chk.get("exit") == 0 else "inconclusive")
    name = os.path.basename(os.path.dirname(f))
    if name in notes and outcome != "caught":
        outcome = "not a violation (note)"
    rows.append((os.path.basename(os.path.dirname(f)), m.get("property"), (m.get("title") or "")[:90],
                 (m.get("needs_to_manifest") or "")[:160].replace("\n", " "),
                 "yes" if v.get("confirmed") else "NO", outcome, "; ".join(classes[:3])))

out = ["# Seeded changes (blind sub-agents) and what the checks report",
       "",
       "Each change was produced by a sub-agent that saw only the property text and a scratch worktree;",
       "`confirmed` = re-verified by tools/verify_seed.py (applies, builds, pinned stable tests of the touched",
       "packages pass, demonstration fails with the change and passes without). `outcome` = exit of the",
       "registered quick command with the patch applied to /repo (1 = VIOLATION reported).",
       "",
       "| id | property | change | needs to manifest | confirmed | outcome | violation classes |",
       "|---|---|---|---|---|---|---|"]
for r in rows:
    out.append("| " + " | ".join(x.replace("|", "/") for x in r) + " |")
n = len(rows)
caught = sum(1 for r in rows if r[5] == "caught")
notv = sum(1 for r in rows if r[5].startswith("not a violation"))
out += ["", "%d seeded changes, %d caught at the quick tier, %d judged not to violate the statement, %d missed." % (n, caught, notv, n - caught - notv)]
if notes:
    out += ["", "## Notes"] + ["* **%s**: %s" % (k, v) for k, v in sorted(notes.items())]
open("/verif/seeded/SUMMARY.md", "w").write("\n".join(out) + "\n")
print("\n".join(out[-3:]))

#!/usr/bin/env python3
"""tools/verify_seed.py <seed_out_dir> <Cxx> <name>

Independent confirmation of one seeded change produced by a blind sub-agent, in a scratch
git worktree of /repo (never in /repo itself):
  1. patch.diff applies to a clean checkout of /repo HEAD and the tree builds
  2. the affected packages' existing tests pass with the change (same command as without)
  3. the demonstration fails with the change
  4. the demonstration passes without the change
Then (5) the registered check of the property is run against /repo with the patch applied
(git apply ... ; ./check ; git checkout -- .) at quick tier, and the outcome is recorded.
Everything is copied to /verif/seeded/<name>/ (patch.diff, demo, meta.json with what was run).
"""
import json, os, shutil, subprocess, sys, glob, re

ENV = dict(os.environ, GOFLAGS="-mod=mod", GOPROXY="off", GOSUMDB="off", GOTOOLCHAIN="local")


def run(cmd, cwd, timeout=900):
    try:
        p = subprocess.run(cmd, cwd=cwd, shell=True, env=ENV, capture_output=True, text=True, timeout=timeout)
        return p.returncode, (p.stdout + p.stderr)[-4000:]
    except subprocess.TimeoutExpired:
        return 124, "TIMEOUT"


def pkgs_of(patch):
    pk = set()
    for l in open(patch):
        m = re.match(r"\+\+\+ b/(.+)/[^/]+\.go", l)
        if m:
            pk.add("./" + m.group(1) + "/")
    return sorted(pk)


def main():
    src, pid, name = sys.argv[1], sys.argv[2], sys.argv[3]
    tier = sys.argv[4] if len(sys.argv) > 4 else "quick"
    meta = json.load(open(os.path.join(src, "meta.json")))
    patch = os.path.join(src, "patch.diff")
    wt = "/tmp/vs_" + name
    subprocess.run("git -C /repo worktree remove --force %s" % wt, shell=True, capture_output=True)
    shutil.rmtree(wt, ignore_errors=True)
    subprocess.run("git -C /repo worktree prune", shell=True)
    assert subprocess.run("git -C /repo worktree add --detach %s HEAD" % wt, shell=True, capture_output=True).returncode == 0
    res = {"property": pid, "name": name}
    try:
        # demo placement
        demo_test = os.path.join(src, "demo_test.go")
        demo_dir = os.path.join(src, "demo")
        pk = pkgs_of(patch)
        res["affected_packages"] = pk

        def place_demo():
            if os.path.exists(demo_test):
                # into the package named by the file's package clause / first affected package
                target = meta.get("demo_package") or pk[0]
                txt = open(demo_test).read()
                m = re.search(r"(?m)^//\s*(?:run|Run).*?(\./[\w/]+)", txt)
                tdir = os.path.join(wt, target)
                # find package whose name matches the package clause
                pm = re.search(r"(?m)^package (\w+)", txt)
                if pm:
                    want = pm.group(1).replace("_test", "")
                    found = False
                    for cand in pk:
                        if os.path.basename(cand.rstrip("/")) == want:
                            tdir = os.path.join(wt, cand)
                            found = True
                    if not found:
                        # the demo lives in another package than the one patched: locate it by name,
                        # preferring directories near the patched ones
                        cands = [d for d, _, fs in os.walk(wt) if os.path.basename(d) == want and any(f.endswith(".go") for f in fs)]
                        cands.sort(key=lambda d: (0 if any(d.startswith(os.path.join(wt, c.strip("./").split("/")[0])) for c in pk) else 1, len(d)))
                        if cands:
                            tdir = cands[0]
                shutil.copy(demo_test, os.path.join(tdir, "zz_seed_demo_test.go"))
                return "go test -count=1 -run 'Demo|Seed|Test' -timeout 120s ./%s/ 2>&1 | tail -30; exit ${PIPESTATUS[0]}" % os.path.relpath(tdir, wt), tdir
            elif os.path.isdir(demo_dir):
                d = os.path.join(wt, "zz_seed_demo")
                shutil.copytree(demo_dir, d)
                return "go run ./zz_seed_demo/", None
            raise SystemExit("no demo found")

        def demo_cmd_for(placed_cmd, tdir):
            if tdir is not None:
                # run only the demo's tests
                txt = open(os.path.join(tdir, "zz_seed_demo_test.go")).read()
                names = re.findall(r"(?m)^func (Test\w+)\(", txt)
                rel = os.path.relpath(tdir, wt)
                return "go test -count=1 -run '^(%s)$' -timeout 120s ./%s/" % ("|".join(names), rel)
            return placed_cmd

        # 4. demo without the change
        cmd, tdir = place_demo()
        cmd = demo_cmd_for(cmd, tdir)
        res["demo_cmd"] = cmd
        rc0, out0 = run("bash -c \"%s\"" % cmd.replace('"', '\\"'), wt, 300)
        res["demo_without_change"] = {"exit": rc0, "tail": out0[-600:]}
        # 1. apply
        rc, out = run("git apply %s && go build ./... && go vet %s" % (patch, " ".join(pk)), wt, 600)
        res["applies_and_builds"] = rc == 0
        if rc != 0:
            res["apply_output"] = out[-1500:]
        # 3. demo with the change (repeat 3x; any failure counts, record all)
        fails = []
        for i in range(3):
            rc1, out1 = run("bash -c \"%s\"" % cmd.replace('"', '\\"'), wt, 300)
            fails.append(rc1)
        res["demo_with_change"] = {"exits": fails, "tail": out1[-600:]}
        # 2. existing tests with the change (demo removed)
        if tdir is not None:
            os.remove(os.path.join(tdir, "zz_seed_demo_test.go"))
        else:
            shutil.rmtree(os.path.join(wt, "zz_seed_demo"), ignore_errors=True)
        # the pinned suite = the stable_pass list of /root/.vp/BASELINE.json; every stable test of the
        # affected packages must still pass (tests that already fail/hang at baseline are ignored)
        stable = json.load(open("/root/.vp/BASELINE.json"))["stable_pass"]
        pkgnames = ["github.com/pinealctx/neptune/" + x.strip("./") for x in pk]
        want = [t for t in stable if t.split("::")[0] in pkgnames]
        names = sorted(set(t.split("::")[1].split("/")[0] for t in want))
        if names:
            tcmd = "go test -json -vet=off -count=1 -timeout 25m -run '^(%s)$' %s" % ("|".join(names), " ".join(pk))
            p = subprocess.run(tcmd, cwd=wt, shell=True, env=ENV, capture_output=True, text=True, timeout=1800)
        else:
            tcmd = "(no test of these packages is in the pinned stable suite; go build + go vet only)"
            p = subprocess.run("true", shell=True, capture_output=True, text=True)
        passed = set()
        for l in p.stdout.splitlines():
            try:
                e = json.loads(l)
            except Exception:
                continue
            if e.get("Action") == "pass" and e.get("Test"):
                passed.add(e["Package"] + "::" + e["Test"])
        missing = [t for t in want if t not in passed]
        rc2 = 0 if not missing else 1
        res["existing_tests_cmd"] = tcmd + "   (judged on the stable_pass tests of BASELINE.json for these packages)"
        res["existing_tests_with_change"] = {"exit": rc2, "stable_tests_of_packages": len(want), "not_passing": missing[:10]}
        res["confirmed"] = bool(res["applies_and_builds"] and rc0 == 0 and any(f != 0 for f in fails) and rc2 == 0)
    finally:
        subprocess.run("git -C /repo worktree remove --force %s" % wt, shell=True, capture_output=True)
        shutil.rmtree(wt, ignore_errors=True)
    # 5. our check against /repo with the patch applied
    if res.get("applies_and_builds"):
        st = subprocess.run("git -C /repo status --porcelain", shell=True, capture_output=True, text=True).stdout
        assert st.strip() == "", "/repo dirty"
        subprocess.run("git -C /repo apply %s" % patch, shell=True, check=True)
        ev = "/verif/evidence/%s.json" % pid
        evsave = open(ev).read() if os.path.exists(ev) else None
        try:
            p = subprocess.run("/verif/check %s %s" % (pid, tier), shell=True, capture_output=True, text=True, timeout=3600, cwd="/verif")
            lines = [l for l in p.stdout.splitlines() if l.startswith(("VIOLATION", "INCONCLUSIVE", "KNOWN-FINDING"))]
            res["check"] = {"cmd": "./check %s %s" % (pid, tier), "exit": p.returncode, "lines": [l[:300] for l in lines[:8]]}
        finally:
            subprocess.run("git -C /repo checkout -- . && git -C /repo clean -fdq", shell=True)
            # the evidence file must describe the unchanged tree: put the committed one back
            if evsave is not None:
                open(ev, "w").write(evsave)
    dst = os.path.join("/verif/seeded", name)
    os.makedirs(dst, exist_ok=True)
    shutil.copy(patch, os.path.join(dst, "patch.diff"))
    if os.path.exists(os.path.join(src, "demo_test.go")):
        shutil.copy(os.path.join(src, "demo_test.go"), os.path.join(dst, "demo_test.go"))
    if os.path.isdir(os.path.join(src, "demo")):
        shutil.rmtree(os.path.join(dst, "demo"), ignore_errors=True)
        shutil.copytree(os.path.join(src, "demo"), os.path.join(dst, "demo"))
    out_meta = {
        "property": pid,
        "title": meta.get("title"),
        "what_it_breaks": meta.get("what_it_breaks"),
        "needs_to_manifest": meta.get("needs_to_manifest"),
        "files_touched": meta.get("files_touched"),
        "author": "blind sub-agent (given only the property text and a scratch worktree)",
        "verified_by_me": res,
    }
    json.dump(out_meta, open(os.path.join(dst, "meta.json"), "w"), indent=1)
    print(json.dumps({k: res.get(k) for k in ("name", "confirmed", "applies_and_builds")}), json.dumps(res.get("check")))
    print("  demo without:", res.get("demo_without_change", {}).get("exit"), " with:", res.get("demo_with_change", {}).get("exits"), " tests:", res.get("existing_tests_with_change", {}).get("exit"))


main()

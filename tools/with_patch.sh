#!/bin/bash
# tools/with_patch.sh <patch.diff> <command...>
# Applies a patch to /repo's working tree, runs the command, and always restores the tree.
# Refuses to run when /repo has uncommitted changes.
set -u
patch="$1"; shift
if [ -n "$(git -C /repo status --porcelain)" ]; then echo "/repo is dirty; refusing" >&2; exit 9; fi
if ! git -C /repo apply "$patch"; then echo "patch does not apply" >&2; exit 9; fi
"$@"; rc=$?
git -C /repo checkout -- . && git -C /repo clean -fdq
exit $rc

#!/bin/bash
# tools/with_patch.sh <patch.diff> <command...>
# Applies a patch to /repo's working tree, runs the command, and always restores the tree.
# Refuses to run when /repo has uncommitted changes.
set -u
patch="$1"; shift
if [ -n "$(git -C /repo status --porcelain)" ]; then echo "/repo is dirty; refusing" >&2; exit 9; fi
if ! git -C /repo apply "$patch"; then echo "patch does not apply" >&2; exit 9; fi
cp -r /verif/evidence /tmp/.evidence_save.$$
"$@"; rc=$?
git -C /repo checkout -- . && git -C /repo clean -fdq
# evidence files must describe the unchanged tree: restore them
cp /tmp/.evidence_save.$$/*.json /verif/evidence/ 2>/dev/null; rm -rf /tmp/.evidence_save.$$
exit $rc

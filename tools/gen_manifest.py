#!/usr/bin/env python3
"""Generates /verif/MANIFEST.json from the table below (run from anywhere)."""
import json, os, subprocess

ROOT = os.path.dirname(os.path.dirname(os.path.abspath(__file__)))

# property -> (category, technique, level text, level note, design_ref)
P = {
 "C01": ("exploration", "controlled-schedule runtime monitor (goroutine-quiescence cuts) checked online against a FIFO-semaphore model set; race detector + occupancy/canary stress",
         "Seed-generated schedules of acquire/release/cancel and simultaneous bursts are executed against the real semaphore maps (single, modulo, xxhash) with a quiescent cut after every step; at each cut the observed set of admitted/failed/pending callers must match one of the FIFO model states still consistent with the history, idle keys must have no entry, and a final drain must leave nothing pending. Parallel stress rounds under -race use occupancy counters and plain canary variables ordered only by the lock. Held = on the executions produced; not a proof over all interleavings.",
         "Trusted: the 40-line FIFO model, the quiescence detector's reading of runtime.Stack wait reasons, the Go race detector. Hooks: semap.VerifKeyState/VerifEntries (read-only).", "3/C01"),
 "C02": ("exploration", "controlled-schedule runtime monitor with invariant oracles at quiescent cuts; race detector + occupancy/canary stress",
         "Schedules of Lock/RLock/Locks/RLocks/unlock over all four locker types and both shardings with a quiescent cut after every step: exclusion per key, reader sharing, independence of unrelated keys, exact drain (no dead-lock for ordered duplicate-free multi-key calls), no per-key state left; stress rounds under -race with occupancy counters and canaries.",
         "Trusted: quiescence detector, race detector. Hooks: VerifEntries/VerifKeyCounts/VerifShard (read-only). Admission order is not judged (Go's RWMutex decides it).", "3/C02"),
 "C03": ("exploration", "lock-step reference model (sorted slice) + structural invariant walk after every mutation; race detector on clone/wrapper concurrency",
         "Random operation histories on btree.BTree (degrees 2..32) and the locked wrapper compared step by step with a sorted-slice model, every scan from every pivot with filters and limits, VerifCheck() structural walk after every mutation, clone isolation programs, and concurrent clone/wrapper rounds under -race.",
         "Trusted: the sorted-slice model, the invariant walker (hook VerifCheck), race detector.", "3/C03"),
 "C04": ("exploration", "lock-step ideal-LRU reference model + porcupine linearizability checking of recorded concurrent histories; race detector",
         "Sequential histories compared after every step with a slice-based ideal LRU (keys order, sizes, evictions, removed values) for cache.LRUCache, tiny.LRUCache and per shard for the wide variants; short concurrent histories recorded at the client boundary and checked by porcupine against the same model; stress under -race.",
         "Trusted: the ideal-LRU model, porcupine v1.3.0, race detector.", "3/C04"),
 "C05": ("exploration", "lock-step reference model under a virtual clock (hook) + differential run against a fake redis; race detector for one-shot reads",
         "Random Set/Get/Remove/Clear/tick programs under a scripted clock compared with an eager-expiry map model (eviction judged permissively, bound judged strictly); the same programs against the redis-backed cache over an in-memory redis with the same virtual clock must agree; racing remove-after-get readers under -race.",
         "Trusted: the TTL model, the fake redis (documented SET NX/KEEPTTL/GETDEL/EXPIRE semantics), race detector. Hook: cache.VerifSetNow.", "3/C05"),
 "C06": ("exploration", "online monotonicity monitor under scripted clocks (hook) + recorded-history checker for concurrent callers; race detector",
         "Every id is checked against the previous one (strictly greater, node field, timestamp not before the clock reading) over scripted clock trajectories (stalls, backward and forward jumps, >4096 calls per ms, restarts) in all layouts; concurrent callers are recorded and checked for uniqueness and real-time order; MonoNode under the real monotonic clock; UnixNanoID under arbitrary ts sequences.",
         "Trusted: the monitor (previous id in hand), logical clock of the recorder, race detector. Hooks: snowflake.VerifSetNow/VerifSetConfig.", "3/C06"),
 "C07": ("exploration", "generated-input monitor with an independent big-integer oracle",
         "Ids generated over the whole timestamp width with boundary bias in all six layouts and several epochs: field split/recombine, order, 24-character date form round trip, and id ranges for time intervals are compared with independent arithmetic.",
         "Trusted: the independent oracle (math/big, time package). Hook: snowflake.VerifSetConfig.", "3/C07"),
 "C08": ("exploration", "lock-step reference model ([1024]bool) over generated bitmaps, every iterator body, every sparse threshold (hook)",
         "Random and structured bitmaps; Set/Unset in all widths with hostile indices; set algebra; all 18 iterator bodies and the GetN wrappers with hostile n/pos/add, destination sentinel check; each case repeated under several sparse thresholds with identical results required.",
         "Trusted: the boolean-array model. Hook: bitmap1024.VerifSetSparseMagic.", "3/C08"),
 "C09": ("exploration", "round-trip and decoder-robustness monitor over generated bitmaps, byte strings and integers against a set model",
         "Marshal/Unmarshal round trips biased to the sparse/dense boundary, Unmarshal of arbitrary and mutated byte strings under recover (error or exactly the denoted set), BigU32 and U32BitTip construction/iteration/membership against integer arithmetic.",
         "Trusted: the set model and integer arithmetic.", "3/C09"),
 "C10": ("exploration", "round-trip monitor + differential monitor (stream reader vs buffer reader vs encoding/binary) over generated streams, truncations and chunkings",
         "Typed write sequences read back; every truncation point and random bytes through every reader under recover; the same bytes through ReaderX with six chunkings of the source must decode exactly as BufferX.",
         "Trusted: encoding/binary as independent decoder; chunking readers of the harness.", "3/C10"),
 "C11": ("exploration", "lock-step differential monitor against the toolchain's bytes.Buffer",
         "Random programs of the 18 operations with hostile sizes, runes and arguments are applied to tex.Buffer and bytes.Buffer; results, errors, panics and unread contents are compared after every step; ReWrite and NewSizedBuffer against a byte-slice model.",
         "Trusted: bytes.Buffer of the building toolchain (go1.23) as the specification.", "3/C11"),
 "C12": ("exploration", "lock-step reference models (list queues) + porcupine linearizability checking of recorded producer/consumer histories",
         "Non-blocking operation sequences on all six queue types compared with list models after every call (values, errors, conservation); concurrent histories recorded at the client boundary checked by porcupine and by a no-loss/no-dup/order checker.",
         "Trusted: the list models, porcupine, race detector.", "3/C12"),
 "C13": ("exploration", "controlled-schedule runtime monitor: parked consumers vs model at quiescent cuts; priq wait-channel invariant monitor; stress under -race",
         "k consumers are parked, then adds/prior adds/close are issued singly and in bursts; at each quiescent cut the number of returned consumers and their items must equal the model's; after close nobody is parked. PriQueue: wait channel readable whenever non-empty and no signal outstanding; producer/consumer stress ending in a quiescence check.",
         "Trusted: quiescence detector, list models, race detector. Unbounded 'eventually' is restated as 'not parked at a quiescent fixed point'.", "3/C13"),
 "C14": ("exploration", "controlled-schedule runtime monitor with recorded start/end events per lane; occupancy/canary stress under -race",
         "Gate programs on line, mline, runner queue and proc channel: acceptance order known by construction, callee start/end events recorded with lane identity; oracle: at most once, serial per lane, acceptance order, own result or own context error, routing by hash incl. MinInt, Stop semantics, lane goroutines gone.",
         "Trusted: quiescence detector, recorder, race detector.", "3/C14"),
 "C15": ("exploration", "fault-injecting store seam + coherence probe after every operation; recorded per-key store order; gate programs; race detector",
         "Sequential streams over all seven operations with seed-determined callback failures and a coherence probe (cache value equals store value whenever the load callback is not consulted); concurrent callers with per-key occupancy and issue-order checks; gate programs for acceptance order.",
         "Trusted: the faulty in-memory store (fails without side effect), the probe, race detector.", "3/C15"),
 "C16": ("exploration", "controlled-schedule monitor over an in-memory net.Conn with virtual deadlines; goroutine/exit/close accounting at quiescent cuts; loop-back server monitor",
         "All single terminating events, ordered pairs and bursts with queued sends over fake connections: exactly one OnExit, connection closed, no session goroutine left, count restored, flush before local close; real loop-back server for the max-connection bound.",
         "Trusted: the fake conn, quiescence detector, race detector; the loop-back part runs under real time with an inconclusive watchdog.", "3/C16"),
 "C17": ("exploration", "generated-input monitor with independent index computation + lock-step differential (sharded vs unsharded containers)",
         "Index range/determinism/equality with an independent computation for 12 shard counts and 18 key kinds; partition monotone and total at every boundary; identical operation streams on sharded and unsharded map, LRU, key locker and semaphore map.",
         "Trusted: independent modulo / xxhash+big-integer boundary computation.", "3/C17"),
 "C18": ("fault_enumeration", "exhaustive fault enumeration through a recording database/sql driver seam; event-log oracle",
         "Every step list of length 0..4 over {ok, error, panic(string), panic(error)} combined with begin/commit/rollback failing or not is executed through gorm on a recording fake driver; the event log must show exactly one finish, commit iff all steps succeeded, no step after the first failure, and the specified result.",
         "Trusted: the fake SQL driver's event log; gorm's MySQL dialector with a supplied connection.", "3/C18"),
 "C19": ("exploration", "lock-step reference model over generated send/verify histories in always/never time regimes; alphabet coverage monitor",
         "Random histories of send/verify (right/wrong code, hash, phone) in all configuration regimes against a small model; code length and alphabet coverage over thousands of generated codes.",
         "Trusted: the vcode model; fake SMS sender.", "3/C19"),
 "C20": ("exploration", "round-trip monitor + grammar-generated token monitor with a math/big denotation oracle (direct, encoding/json, jsoniter paths)",
         "Encoder output decodes to the original value for every type over extremes; tokens generated from the property's grammar must either fail or decode to exactly the denoted value.",
         "Trusted: math/big denotation of tokens.", "3/C20"),
}

# properties whose check is built and claimed
CLAIMED = ["C%02d" % i for i in range(1, 21)]

def main():
    checks = []
    na = []
    for pid in sorted(P):
        cat, tech, text, note, ref = P[pid]
        if pid in CLAIMED:
            checks.append({
                "property_id": pid,
                "quick_cmd": "./check %s quick" % pid,
                "thorough_cmd": "./check %s thorough" % pid,
                "evidence_file": "/verif/evidence/%s.json" % pid,
                "replay_cmd_template": "./check %s --replay {path}" % pid,
                "engine": "verifrun",
                "level_claimed": {"category": cat, "text": text, "design_ref": "DESIGN.md section " + ref},
                "level_note": note,
                "technique": tech,
            })
        else:
            na.append({"property_id": pid, "reason": "check not built yet (in progress); not claimed until its monitor runs silently on the unchanged tree"})
    hooks = subprocess.run(["git", "-C", "/repo", "log", "--format=%H %s"], capture_output=True, text=True).stdout.splitlines()
    hook_commits = [l.split()[0] for l in hooks if "verif hooks:" in l]
    m = {
        "version": 1,
        "setup_cmd": "./setup.sh",
        "hooks": {
            "guard": "verif",
            "enable": "go build -tags verif (the harness module /verif/harness replaces github.com/pinealctx/neptune with /repo, so every ./check rebuilds /repo's working tree with the tag on)",
            "baseline_off_cmd": "cd /repo && GOFLAGS=-mod=mod GOPROXY=off GOSUMDB=off go test -mod=mod -json -vet=off -count=1 -timeout 25m ./...",
            "source_commits": hook_commits,
            "add_only": True,
        },
        "engines": [
            {"name": "verifrun", "path": "/verif/harness", "serves_properties": sorted(CLAIMED),
             "kind_free_text": "Go harness (module verifh): parent/child runner, goroutine-quiescence scheduler, history recorder + porcupine, reference models, fault seams; one binary per property built by ./check from /repo's working tree"},
        ],
        "checks": checks,
        "not_applicable": na,
        "notes": "Technique family: runtime monitoring and sanitizers. Exit 0 = held on what was observed, 1 = VIOLATION, 3 = INCONCLUSIVE (build failure, watchdog, coverage floor missed). known_findings.json lists repaired (fixed:) and recorded (known) defects.",
    }
    with open(os.path.join(ROOT, "MANIFEST.json"), "w") as f:
        json.dump(m, f, indent=1)
        f.write("\n")

main()

#!/usr/bin/env python3
"""Prints the as-built table of kinds (name, quick cases, thorough cases) per property from the harness source."""
import re, glob, json, os
rows = []
for d in sorted(glob.glob("/verif/harness/props/c??")):
    pid = os.path.basename(d).upper()
    src = "".join(open(f).read() for f in sorted(glob.glob(d + "/*.go")))
    kinds = re.findall(r'\{Name:\s*"([^"]+)",\s*Quick:\s*(\d+),\s*Thorough:\s*(\d+)(?:,\s*Repeat:\s*(\d+))?', src)
    race = pid in ("C01","C02","C03","C04","C05","C06","C12","C13","C14","C15","C16")
    ev = "/verif/evidence/%s.json" % pid
    wall = ""
    if os.path.exists(ev):
        e = json.load(open(ev))
        wall = "%.0f s" % e.get("wall_seconds", e.get("coverage", {}).get("wall_seconds", 0)) if isinstance(e.get("wall_seconds", None), (int, float)) else ""
    ks = "; ".join("%s %s/%s%s" % (n, q, t, (" ×%s" % rp) if rp else "") for n, q, t, rp in kinds)
    rows.append("| %s | %s | %s |" % (pid, "race" if race else "plain", ks))
print("| property | build | kinds: quick cases / thorough cases (×n = schedule repetitions per case) |")
print("|---|---|---|")
print("\n".join(rows))

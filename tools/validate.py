#!/usr/bin/env python3
"""Validates MANIFEST.json and evidence/*.json against the schemas in /root/.vp."""
import json, glob, sys
try:
    import jsonschema
except ImportError:
    sys.path.insert(0, "/opt/veriftools/pyvenv/lib/python3.11/site-packages")
    import jsonschema
ok = True
m = json.load(open("/verif/MANIFEST.json"))
try:
    jsonschema.validate(m, json.load(open("/root/.vp/MANIFEST.schema.json")))
    print("MANIFEST ok: %d properties claimed, %d not applicable" % (len(m.get("properties", m.get("checks", []))), len(m.get("not_applicable", []))))
except Exception as e:
    ok = False
    print("MANIFEST INVALID:", str(e)[:300])
es = json.load(open("/root/.vp/EVIDENCE.schema.json"))
for f in sorted(glob.glob("/verif/evidence/*.json")):
    try:
        e = json.load(open(f))
        jsonschema.validate(e, es)
        cov = e.get("coverage", {})
        print(f.split("/")[-1], e.get("tier"), "seed", e.get("seed"), cov.get("verdict"), "evals", cov.get("evaluations"), "inconcl", cov.get("inconclusive_cases"))
    except Exception as ex:
        ok = False
        print(f, "INVALID:", str(ex)[:300])
sys.exit(0 if ok else 1)

#!/bin/bash
# tools/integrate.sh cNN : copy a builder workspace's check into /verif/harness and list its fixes
set -e
n="$1"; ws="/tmp/ws_$n"
rm -rf /verif/harness/props/$n /verif/harness/cmd/$n
cp -r "$ws/harness/props/$n" /verif/harness/props/$n
cp -r "$ws/harness/cmd/$n" /verif/harness/cmd/$n
mkdir -p /verif/mutants/$n
cp "$ws"/mutants/*.diff /verif/mutants/$n/ 2>/dev/null || true
echo "--- go.mod diff"; diff <(sed "s#$ws/repo#/repo#" "$ws/harness/go.mod") /verif/harness/go.mod || true
echo "--- fixes"; ls "$ws/fixes/" 2>/dev/null

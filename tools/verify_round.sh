#!/bin/bash
# verify_round.sh <round> <Cxx>: runs tools/verify_seed.py on the three outputs of one blind seeding agent
export GOFLAGS=-mod=mod GOPROXY=off GOSUMDB=off GOTOOLCHAIN=local
r="$1"; P="$2"; lp="$(echo "$P" | tr 'A-Z' 'a-z')"
for i in 1 2 3; do
  if [ -f /tmp/seed${r}_${lp}/out/$i/patch.diff ]; then
    python3 /verif/tools/verify_seed.py /tmp/seed${r}_${lp}/out/$i $P $P-r${r}s$i 2>&1 | tail -2 | cut -c1-420
  else echo "no output $i"; fi
done

#!/usr/bin/env python3
"""tools/recheck_seeds.py [-j N] [Cxx ...]

Re-runs the registered quick check of every kept seeded change (/verif/seeded/<name>/patch.diff)
against the *current* checks, to make sure later strengthening did not lose an earlier catch.
Works on scratch copies only: each worker has its own copy of /verif (harness + check script) and its
own git worktree of /repo under /tmp/recheck/w<i>/, so /repo and /verif/evidence are not touched.
Updates verified_by_me.check in each meta.json and prints the changes that are not reported."""
import json, os, subprocess, sys, glob, shutil, multiprocessing

ENV = dict(os.environ, GOFLAGS="-mod=mod", GOPROXY="off", GOSUMDB="off", GOTOOLCHAIN="local")
BASE = "/tmp/recheck"


def sh(cmd, **kw):
    return subprocess.run(cmd, shell=True, capture_output=True, text=True, env=ENV, **kw)


def worker(args):
    i, names = args
    w = "%s/w%d" % (BASE, i)
    os.makedirs(w, exist_ok=True)
    sh("git -C /repo worktree add --detach %s/repo HEAD" % w)
    os.makedirs(w + "/verif", exist_ok=True)
    for item in ("harness", "check", "known_findings.json"):
        sh("cp -r /verif/%s %s/verif/" % (item, w))
    os.makedirs(w + "/verif/evidence", exist_ok=True)
    out = []
    for name in names:
        d = "/verif/seeded/" + name
        pid = json.load(open(d + "/meta.json"))["property"]
        ap = sh("git -C %s/repo apply %s/patch.diff" % (w, d))
        if ap.returncode != 0:
            out.append((name, {"cmd": "./check %s quick" % pid, "exit": -1, "lines": ["patch does not apply: " + ap.stderr[:200]]}))
            continue
        try:
            env = dict(ENV, VERIF_REPO=w + "/repo")
            p = subprocess.run("./check %s quick" % pid, shell=True, capture_output=True, text=True, env=env, cwd=w + "/verif", timeout=3600)
            lines = [l.replace(w, "") for l in p.stdout.splitlines() if l.startswith(("VIOLATION", "INCONCLUSIVE", "KNOWN-FINDING"))]
            out.append((name, {"cmd": "./check %s quick" % pid, "exit": p.returncode, "lines": [l[:300] for l in lines[:8]]}))
        except subprocess.TimeoutExpired:
            out.append((name, {"cmd": "./check %s quick" % pid, "exit": 124, "lines": ["TIMEOUT"]}))
        finally:
            sh("git -C %s/repo checkout -- . && git -C %s/repo clean -fdq" % (w, w))
        print(name, out[-1][1]["exit"], flush=True)
    sh("git -C /repo worktree remove --force %s/repo" % w)
    shutil.rmtree(w, ignore_errors=True)
    return out


def main():
    args = sys.argv[1:]
    j = 4
    if args[:1] == ["-j"]:
        j = int(args[1])
        args = args[2:]
    names = sorted(os.path.basename(os.path.dirname(f)) for f in glob.glob("/verif/seeded/*/meta.json"))
    if args:
        names = [n for n in names if n.split("-")[0] in args]
    shutil.rmtree(BASE, ignore_errors=True)
    os.makedirs(BASE, exist_ok=True)
    # keep the seeds of one property on one worker (the binary is rebuilt per patch anyway)
    shares = [[] for _ in range(j)]
    byprop = {}
    for n in names:
        byprop.setdefault(n.split("-")[0], []).append(n)
    for k, (p, ns) in enumerate(sorted(byprop.items(), key=lambda x: -len(x[1]))):
        shares[k % j] += ns
    head = sh("git -C /verif rev-parse --short HEAD").stdout.strip()
    with multiprocessing.Pool(j) as pool:
        results = pool.map(worker, list(enumerate(shares)))
    bad = []
    for res in results:
        for name, chk in res:
            f = "/verif/seeded/%s/meta.json" % name
            m = json.load(open(f))
            chk["rechecked_at_verif_commit"] = head
            m.setdefault("verified_by_me", {})["check"] = chk
            json.dump(m, open(f, "w"), indent=1)
            if chk["exit"] != 1:
                bad.append((name, chk["exit"], chk["lines"][:1]))
    sh("git -C /repo worktree prune")
    shutil.rmtree(BASE, ignore_errors=True)
    print("%d seeded changes rechecked at %s, %d not reported:" % (len(names), head, len(bad)))
    for b in bad:
        print("  ", b)


main()

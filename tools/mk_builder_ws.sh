#!/bin/bash
# tools/mk_builder_ws.sh <name>  -> /tmp/ws_<name>/{repo (git worktree of /repo HEAD), harness (copy), check}
set -e
n="$1"; ws="/tmp/ws_$n"
rm -rf "$ws"; mkdir -p "$ws"
git -C /repo worktree prune
git -C /repo worktree add --detach "$ws/repo" HEAD >/dev/null 2>&1
cp -r /verif/harness "$ws/harness"
sed -i "s#=> /repo#=> $ws/repo#" "$ws/harness/go.mod"
cp /verif/check "$ws/check"
cp /verif/known_findings.json "$ws/known_findings.json"
echo "$ws"

#!/usr/bin/env python3
"""Prepares the workspace of one blind seeding agent: /tmp/seed<round>_<cNN>/ with its own git
worktree of /repo and PROMPT.txt (property text + list of changes already produced, nothing
from /verif).   usage: mk_seed_round.py <round> <Cxx> [<Cxx> ...]"""
import json, glob, os, subprocess, sys

rnd = sys.argv[1]
props = {}
for line in open("/verif/properties.jsonl"):
    p = json.loads(line)
    props[p["id"]] = p

ARCH = ("state that survives across calls or instances (package-level variables, pools, caches, memoisation); "
        "aliasing / retention of returned or passed slices and pointers; error-path handling (what happens on the failure branch, "
        "partial effects before an error is returned); resource lifecycle (double release, release on the wrong path, never released); "
        "arithmetic at type boundaries (narrowing conversions, signedness, overflow in size/offset/index computations); a condition that "
        "is correct for each site alone but inconsistent between two sites (writer vs reader, single-key vs multi-key, constructor vs "
        "method, one variant of a type family vs its siblings); ordering of two adjacent statements around a lock, a channel operation or "
        "a callback; a fast path / special case that skips a step the general path performs; behaviour that depends on a configuration "
        "option the default never exercises; idempotence (calling Close/Stop/Release twice, re-entrancy); an API entry point of the "
        "anchored files that is rarely used (a sibling constructor, a convenience wrapper, a variant with a different element width) "
        "and is changed alone; a second-order effect that only shows after a specific earlier history (after growth, after wrap-around, "
        "after an error, after a Reset/Clear)")

for pid in sys.argv[2:]:
    p = props[pid]
    d = "/tmp/seed%s_%s" % (rnd, pid.lower())
    os.makedirs(d + "/out", exist_ok=True)
    if not os.path.isdir(d + "/repo"):
        subprocess.check_call(["git", "-C", "/repo", "worktree", "add", "--detach", d + "/repo", "HEAD"],
                              stdout=subprocess.DEVNULL, stderr=subprocess.DEVNULL)
    done = []
    for f in sorted(glob.glob("/verif/seeded/%s-*/meta.json" % pid)):
        m = json.load(open(f))
        done.append("  - %s — needs: %s" % ((m.get("title") or "")[:170], (m.get("needs_to_manifest") or "")[:150].replace("\n", " ")))
    files = ", ".join(p["anchors"]["files"])
    prompt = f"""You are a software engineer helping to evaluate a verification tool. Work ONLY inside {d}/ . Do not read or touch /verif or /repo (the directory {d}/repo is your own git worktree of the Go library pinealctx/neptune — a "golang busybox": bitmaps, byte codecs, caches, B-tree, snowflake ids, actor queues, TCP session wrapper, helpers). There is no network. Every shell call needs:
  export GOFLAGS=-mod=mod GOPROXY=off GOSUMDB=off GOTOOLCHAIN=local
(toolchain go1.23; wrap anything that might hang in `timeout`).

Here is a semantic property that the library is supposed to satisfy (it holds on the current tree):

--- PROPERTY {pid}: {p['title']}
{p['statement']}
Quantified over: {p['quantifier']['text']}
Relevant source files: {files}
---

Your task: produce THREE different, realistic code changes to the library (each a separate small patch against the unmodified worktree, using different mechanisms / different places) that BREAK this property while the code still compiles and the package's existing tests still pass (`go test -count=1 ./<affected package>/` must pass with your change exactly as it passes without it; do not edit or delete tests; ignore tests that already fail or hang on the unmodified tree — check that first). Think of the kind of bug a maintainer could plausibly introduce in a refactoring, optimisation or "small fix" — not sabotage that any use would expose at once. Prefer changes that need something SPECIFIC to manifest: a particular interleaving of goroutines, a fault or cancellation at a particular point, a multi-step sequence of operations, an unusual input (boundary value, extreme integer, empty/huge size), a particular configuration, or two cooperating sites that each look fine alone. The three changes should differ in what they need in order to manifest. The change must contradict the property AS STATED (quote the clause it breaks); behaviour the statement leaves open (misuse it excludes, choices it does not fix) does not count.

For each change i = 1,2,3 write into {d}/out/i/ :
  - patch.diff   : `git diff` of your change against the unmodified worktree (must apply with `git apply` on a clean checkout; touch only non-test files of the library; do not touch files named verif_hooks.go)
  - demo_test.go or demo/main.go : a demonstration (a Go test file to drop into the affected package, or a small main program in its own directory importing the library) that FAILS (non-zero exit / test failure, within 60 s, deterministic or at least failing in >= 9 of 10 runs) with the change applied and PASSES without it. Say in a comment at the top how to run it from the worktree root.
  - meta.json    : {{"property": "{pid}", "title": short name of the change, "what_it_breaks": which clause of the property, "needs_to_manifest": what specific input/schedule/fault/sequence/configuration is needed, "files_touched": [...], "existing_tests_cmd": the go test command you ran for the affected package(s), "existing_tests_pass_with_change": true/false, "demo_cmd": how to run the demo, "demo_fails_with_change": true/false, "demo_passes_without_change": true/false}}
Verify all of that yourself by actually running the commands (apply patch → package tests → demo fails; revert → demo passes). Leave the worktree clean (git checkout -- . ; remove demo files from it) when you finish. Your final message: a short summary of the three changes (one paragraph each) and any that you could not make work.

IMPORTANT — this is round {rnd}. Other engineers already produced the changes listed below for this property; do NOT repeat them or close variants of them (same site with a different constant, same mechanism moved to a sibling type). Find genuinely different ways in which the property can be broken. Ideas for under-explored archetypes (use the ones that fit this code): {ARCH}.
Already produced (avoid):
""" + "\n".join(done) + """
Keep your final message short (under 500 words) and keep every intermediate message short.
Do not use `git stash` (the stash is shared between worktrees); use `git apply` / `git checkout -- .` only. Some packages' full test runs hang or fail on the unmodified tree (syncx/pipe/mux, syncx/pipe/mq, syncx/keylock, stcp, bitmap1024's TestBit64_Iter, store/gormx needs MySQL, ds/tree TestBtreeNoLock, syncx/pipe/async TestRunnerQ_Call is load-sensitive): check the unmodified behaviour first and compare like with like (use -run / -skip to leave out tests that already fail or hang).
"""
    open(d + "/PROMPT.txt", "w").write(prompt)
    print(d, len(done), "earlier changes listed")

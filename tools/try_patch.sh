#!/bin/bash
# tools/try_patch.sh <patch.diff> <Cxx> [quick|thorough]
# Runs the current check of <Cxx> against a scratch copy of /repo HEAD with the patch applied
# (neither /repo nor /verif/evidence is touched); prints the verdict lines.
export GOFLAGS=-mod=mod GOPROXY=off GOSUMDB=off GOTOOLCHAIN=local
patch="$1"; [ "$patch" != "-" ] && patch="$(readlink -f "$1")"; P="$2"; mode="${3:-quick}"   # patch "-" = unchanged tree
w="/tmp/try.$$"; mkdir -p "$w/repo" "$w/verif/evidence"
git -C /repo archive HEAD | tar -x -C "$w/repo"
if [ "$patch" != "-" ] && ! (cd "$w/repo" && git init -q . && git apply "$patch"); then echo "patch does not apply"; rm -rf "$w"; exit 9; fi
cp -r /verif/harness /verif/check /verif/known_findings.json "$w/verif/"
(cd "$w/verif" && VERIF_REPO="$w/repo" ./check "$P" "$mode" 2>&1 | grep -E "^(VIOLATION|INCONCLUSIVE|KNOWN|C[0-9]+ )" | cut -c1-400 | head -8)
rm -rf "$w"

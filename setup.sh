#!/bin/bash
# Builds every property binary once (plain or -race as ./check would) to warm the Go build cache.
# Offline: uses only the module cache and /repo.
ROOT="$(cd "$(dirname "$0")" && pwd)"
export GOFLAGS=-mod=mod GOPROXY=off GOSUMDB=off GOTOOLCHAIN=local
mkdir -p "$ROOT/.bin" "$ROOT/.work" "$ROOT/evidence"
cd "$ROOT/harness" || exit 1
rc=0
for d in cmd/*/; do
  id="$(basename "$d")"
  uid="$(echo "$id" | tr 'a-z' 'A-Z')"
  RACE=""
  case "$uid" in C01|C02|C03|C04|C05|C06|C12|C13|C14|C15|C16) RACE="-race";; esac
  go build -tags verif $RACE -o "$ROOT/.bin/$id" "./cmd/$id" || rc=1
done
exit $rc

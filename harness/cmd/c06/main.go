package main

import (
	"verifh/engine"
	"verifh/props/c06"
)

func main() { engine.Main(c06.Prop) }

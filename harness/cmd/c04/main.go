package main

import (
	"verifh/engine"
	"verifh/props/c04"
)

func main() { engine.Main(c04.Prop) }

package main

import (
	"verifh/engine"
	"verifh/props/c18"
)

func main() { engine.Main(c18.Prop) }

package main

import (
	"verifh/engine"
	"verifh/props/c17"
)

func main() { engine.Main(c17.Prop) }

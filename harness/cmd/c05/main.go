package main

import (
	"verifh/engine"
	"verifh/props/c05"
)

func main() { engine.Main(c05.Prop) }

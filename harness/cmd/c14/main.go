package main

import (
	"verifh/engine"
	"verifh/props/c14"
)

func main() { engine.Main(c14.Prop) }

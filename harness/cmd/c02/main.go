package main

import (
	"verifh/engine"
	"verifh/props/c02"
)

func main() { engine.Main(c02.Prop) }

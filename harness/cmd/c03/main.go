package main

import (
	"verifh/engine"
	"verifh/props/c03"
)

func main() { engine.Main(c03.Prop) }

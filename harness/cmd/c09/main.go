package main

import (
	"verifh/engine"
	"verifh/props/c09"
)

func main() { engine.Main(c09.Prop) }

package main

import (
	"verifh/engine"
	"verifh/props/c13"
)

func main() { engine.Main(c13.Prop) }

package main

import (
	"verifh/engine"
	"verifh/props/c08"
)

func main() { engine.Main(c08.Prop) }

package main

import (
	"verifh/engine"
	"verifh/props/c07"
)

func main() { engine.Main(c07.Prop) }

package main

import (
	"verifh/engine"
	"verifh/props/c20"
)

func main() { engine.Main(c20.Prop) }

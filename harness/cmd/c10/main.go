package main

import (
	"verifh/engine"
	"verifh/props/c10"
)

func main() { engine.Main(c10.Prop) }

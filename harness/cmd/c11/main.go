package main

import (
	"verifh/engine"
	"verifh/props/c11"
)

func main() { engine.Main(c11.Prop) }

package main

import (
	"verifh/engine"
	"verifh/props/c01"
)

func main() { engine.Main(c01.Prop) }

package main

import (
	"verifh/engine"
	"verifh/props/c19"
)

func main() { engine.Main(c19.Prop) }

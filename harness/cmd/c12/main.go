package main

import (
	"verifh/engine"
	"verifh/props/c12"
)

func main() { engine.Main(c12.Prop) }

package main

import (
	"verifh/engine"
	"verifh/props/c16"
)

func main() { engine.Main(c16.Prop) }

package main

import (
	"verifh/engine"
	"verifh/props/c15"
)

func main() { engine.Main(c15.Prop) }

package engine

import (
	"bytes"
	"runtime"
	"strconv"
	"strings"
	"time"
)

// Quiescer detects quiescent fixed points of a timer-free execution: every goroutine
// created after the baseline is either gone or parked in a stable wait state.
type Quiescer struct {
	base  map[int64]bool
	buf   []byte
	Polls int64
	Waits int64
}

// G is one goroutine of a snapshot.
type G struct {
	ID    int64
	State string
	Stack string
}

var stableStates = map[string]bool{
	"chan receive":            true,
	"chan send":               true,
	"select":                  true,
	"sync.Cond.Wait":          true,
	"sync.Mutex.Lock":         true,
	"sync.RWMutex.RLock":      true,
	"sync.RWMutex.Lock":       true,
	"sync.WaitGroup.Wait":     true,
	"chan receive (nil chan)": true,
	"chan send (nil chan)":    true,
	"select (no cases)":       true,
}

// NewQuiescer takes the baseline: every goroutine existing now (including the caller,
// which becomes the driver) is ignored from here on.
func NewQuiescer() *Quiescer {
	q := &Quiescer{base: map[int64]bool{}, buf: make([]byte, 1<<16)}
	for _, g := range q.snapshotAll() {
		q.base[g.ID] = true
	}
	return q
}

func (q *Quiescer) dump() []byte {
	for {
		n := runtime.Stack(q.buf, true)
		if n < len(q.buf) {
			return q.buf[:n]
		}
		q.buf = make([]byte, 2*len(q.buf))
	}
}

func runtimeStackAll(buf []byte) int { return runtime.Stack(buf, true) }

func parseDump(d []byte) []G {
	var out []G
	for _, blk := range bytes.Split(d, []byte("\n\n")) {
		if !bytes.HasPrefix(blk, []byte("goroutine ")) {
			continue
		}
		nl := bytes.IndexByte(blk, '\n')
		hdr := blk
		if nl >= 0 {
			hdr = blk[:nl]
		}
		// goroutine 18 [chan receive, 2 minutes]:
		rest := hdr[len("goroutine "):]
		sp := bytes.IndexByte(rest, ' ')
		if sp < 0 {
			continue
		}
		id, err := strconv.ParseInt(string(rest[:sp]), 10, 64)
		if err != nil {
			continue
		}
		lb := bytes.IndexByte(rest, '[')
		rb := bytes.LastIndexByte(rest, ']')
		state := ""
		if lb >= 0 && rb > lb {
			state = string(rest[lb+1 : rb])
			if c := strings.IndexByte(state, ','); c >= 0 {
				state = state[:c]
			}
		}
		out = append(out, G{ID: id, State: state, Stack: string(blk)})
	}
	return out
}

func (q *Quiescer) snapshotAll() []G { return parseDump(q.dump()) }

// Snapshot returns the goroutines created after the baseline.
func (q *Quiescer) Snapshot() []G {
	all := q.snapshotAll()
	out := all[:0]
	for _, g := range all {
		if !q.base[g.ID] {
			out = append(out, g)
		}
	}
	return out
}

// Wait polls until a quiescent snapshot is seen. It returns false (inconclusive) when
// the poll bound or the generous wall-clock guard is exhausted.
func (q *Quiescer) Wait() bool {
	q.Waits++
	deadline := time.Now().Add(60 * time.Second)
	for i := 0; i < 400000; i++ {
		// let runnable goroutines make progress first
		for j := 0; j < 3; j++ {
			runtime.Gosched()
		}
		q.Polls++
		if q.quietOnce() {
			// confirm on a second snapshot: a fixed point does not change
			runtime.Gosched()
			q.Polls++
			if q.quietOnce() {
				return true
			}
		}
		if i > 200 {
			time.Sleep(20 * time.Microsecond)
		}
		if i > 2000 {
			time.Sleep(200 * time.Microsecond)
			if time.Now().After(deadline) {
				return false
			}
		}
	}
	return false
}

// IsQuiet takes one snapshot and reports whether every post-baseline goroutine is
// parked in a stable wait state (or gone).
func (q *Quiescer) IsQuiet() bool {
	q.Polls++
	if !q.quietOnce() {
		return false
	}
	runtime.Gosched()
	return q.quietOnce()
}

// stable reports whether a goroutine is parked in a wait state that only another
// goroutine's action can end. "semacquire" is also the wait reason of runtime-internal
// semaphores (worldsema, gcsema: a goroutine starting a GC cycle blocks there while this
// very snapshot stops the world), so it only counts when it is a WaitGroup.Wait (go1.23
// parks WaitGroup waiters with that reason).
func stable(g G) bool {
	if stableStates[g.State] {
		return true
	}
	if g.State == "semacquire" && strings.Contains(g.Stack, "sync.(*WaitGroup).Wait(") {
		return true
	}
	return false
}

func (q *Quiescer) quietOnce() bool {
	for _, g := range q.Snapshot() {
		if !stable(g) {
			return false
		}
	}
	return true
}

// CountStacks returns how many post-baseline goroutines have substr in their stack.
func (q *Quiescer) CountStacks(substr string) int {
	n := 0
	for _, g := range q.Snapshot() {
		if strings.Contains(g.Stack, substr) {
			n++
		}
	}
	return n
}

// Live returns the number of post-baseline goroutines.
func (q *Quiescer) Live() int { return len(q.Snapshot()) }

// Describe renders the post-baseline goroutines briefly (for witnesses).
func (q *Quiescer) Describe() []string {
	var out []string
	for _, g := range q.Snapshot() {
		lines := strings.Split(g.Stack, "\n")
		top := ""
		for _, l := range lines[1:] {
			if strings.Contains(l, "neptune") && !strings.HasPrefix(l, "\t") {
				top = strings.TrimSpace(l)
				break
			}
		}
		out = append(out, "g"+strconv.FormatInt(g.ID, 10)+" ["+g.State+"] "+top)
	}
	return out
}

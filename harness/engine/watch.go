package engine

import (
	"fmt"
	"strings"
	"time"
)

// driverWatch is the child's dead-lock monitor for calls the driver makes itself. The
// driver goroutine (goroutine 1) only ever calls operations that must not block (release,
// unlock, close, Stop, Send ...). If it is found parked in a stable wait state *inside a
// neptune frame*, with every other goroutine parked too, on four consecutive snapshots two
// seconds apart with an unchanged stack, the process is dead-locked in a call that must
// return: that is reported as a violation of the running case (class
// "driver-call-deadlock") instead of leaving it to the watchdog.
func (c *Ctx) driverWatch(t0 time.Time) {
	buf := make([]byte, 1<<20)
	same := 0
	last := ""
	for {
		time.Sleep(2 * time.Second)
		d := parseDump(dumpAll(&buf))
		var drv *G
		quiet := true
		for i := range d {
			g := &d[i]
			if g.ID == 1 {
				drv = g
				continue
			}
			if strings.Contains(g.Stack, "engine.(*Ctx).driverWatch") {
				continue
			}
			if stable(*g) {
				continue
			}
			// unrelated daemons (timers, pollers of imported libraries) may sleep or poll; anything
			// running neptune or harness code must be parked
			idle := g.State == "IO wait" || g.State == "sleep" || g.State == "syscall"
			if !idle || strings.Contains(g.Stack, "github.com/pinealctx/neptune/") || strings.Contains(g.Stack, "verifh/props/") {
				quiet = false
			}
		}
		if drv == nil || !quiet || !stable(*drv) || !blockedInNeptune(drv.Stack) {
			same, last = 0, ""
			continue
		}
		if drv.Stack == last {
			same++
		} else {
			same, last = 1, drv.Stack
		}
		if same < 4 {
			continue
		}
		c.mu.Lock()
		k := c.curK
		c.mu.Unlock()
		if k != nil {
			st := drv.Stack
			if len(st) > 2500 {
				st = st[:2500]
			}
			k.Fail("driver-call-deadlock", "a call that must not block never returned: the driver is parked in %s with every other goroutine parked as well (fixed point, unchanged for 8 s)\n%s", topNeptuneFrame(drv.Stack), st)
		}
		c.finish(t0)
	}
}

func dumpAll(buf *[]byte) []byte {
	for {
		n := runtimeStackAll(*buf)
		if n < len(*buf) {
			return (*buf)[:n]
		}
		*buf = make([]byte, 2*len(*buf))
	}
}

// blockedInNeptune: the driver is somewhere beneath a call into neptune (possibly inside a
// callback neptune invoked on the driver's goroutine).
func blockedInNeptune(stack string) bool {
	for _, l := range strings.Split(stack, "\n")[1:] {
		if strings.HasPrefix(l, "github.com/pinealctx/neptune/") {
			return true
		}
	}
	return false
}

func topNeptuneFrame(stack string) string {
	for _, l := range strings.Split(stack, "\n")[1:] {
		if strings.HasPrefix(l, "github.com/pinealctx/neptune/") {
			if i := strings.LastIndex(l, "("); i > 0 {
				return l[:i]
			}
			return l
		}
	}
	return fmt.Sprint("(unknown frame)")
}

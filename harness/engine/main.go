package engine

import (
	"bufio"
	"encoding/binary"
	"encoding/json"
	"flag"
	"fmt"
	"os"
	"os/exec"
	"path/filepath"
	"regexp"
	"sort"
	"strconv"
	"strings"
	"sync"
	"time"
)

// Root returns the verification root directory (VERIF_ROOT, default /verif).
func Root() string {
	if r := os.Getenv("VERIF_ROOT"); r != "" {
		return r
	}
	return "/verif"
}

func envSeed() int64 {
	if s := os.Getenv("VERIF_SEED"); s != "" {
		if v, err := strconv.ParseInt(s, 10, 64); err == nil {
			return v
		}
	}
	return 1
}

// Main is the entry point of every cmd/<id> binary.
//
//	<bin> quick|thorough          parent: spawn children, merge, evidence, verdict
//	<bin> --replay <file>         re-execute the case recorded in a replay file
//	<bin> --child ...             internal
func Main(p *Prop) {
	if len(os.Args) >= 2 && os.Args[1] == "--child" {
		childMain(p, os.Args[2:])
		return
	}
	if len(os.Args) >= 3 && os.Args[1] == "--replay" {
		os.Exit(replayMain(p, os.Args[2]))
	}
	tier := "quick"
	if len(os.Args) >= 2 {
		tier = os.Args[1]
	}
	if t := os.Getenv("VERIF_TIER"); t != "" && len(os.Args) < 2 {
		tier = t
	}
	if tier != "quick" && tier != "thorough" {
		fmt.Fprintf(os.Stderr, "usage: %s quick|thorough|--replay <file>\n", os.Args[0])
		os.Exit(2)
	}
	os.Exit(parentMain(p, tier, envSeed()))
}

func childMain(p *Prop, args []string) {
	fs := flag.NewFlagSet("child", flag.ExitOnError)
	tier := fs.String("tier", "quick", "")
	seed := fs.Int64("seed", 1, "")
	shard := fs.Int("shard", 0, "")
	nshards := fs.Int("nshards", 1, "")
	out := fs.String("out", "", "")
	fs.Parse(args)
	c := newCtx(p, *tier, *seed, *shard, *nshards)
	c.outPath = *out
	if f, err := os.Create(*out + ".progress"); err == nil {
		c.progress = f
	}
	t0 := time.Now()
	go c.driverWatch(t0)
	c.runAll()
	c.finish(t0)
}

// finish writes the child's result files and exits.
func (c *Ctx) finish(t0 time.Time) {
	out := &c.outPath
	res := c.result(time.Since(t0).Seconds())
	ds := c.distinctSorted()
	buf := make([]byte, 8*len(ds))
	for i, h := range ds {
		binary.LittleEndian.PutUint64(buf[8*i:], h)
	}
	if err := os.WriteFile(*out+".distinct", buf, 0o644); err != nil {
		fmt.Fprintln(os.Stderr, "write distinct:", err)
		os.Exit(4)
	}
	if err := writeJSON(*out, res); err != nil {
		fmt.Fprintln(os.Stderr, "write result:", err)
		os.Exit(4)
	}
	os.Exit(0)
}

type replayFile struct {
	Property string    `json:"property"`
	Tier     string    `json:"tier"`
	Seed     int64     `json:"seed"`
	V        Violation `json:"violation"`
	Log      string    `json:"log,omitempty"`
}

func replayMain(p *Prop, path string) int {
	b, err := os.ReadFile(path)
	if err != nil {
		fmt.Fprintln(os.Stderr, err)
		return 2
	}
	var rf replayFile
	if err := json.Unmarshal(b, &rf); err != nil {
		fmt.Fprintln(os.Stderr, err)
		return 2
	}
	var kd *Kind
	for i := range p.Kinds {
		if p.Kinds[i].Name == rf.V.Kind {
			kd = &p.Kinds[i]
		}
	}
	if kd == nil {
		fmt.Printf("replay: kind %q is not a replayable case (process-level witness: see %s)\n", rf.V.Kind, rf.Log)
		return 2
	}
	c := newCtx(p, rf.Tier, rf.Seed, 0, 1)
	c.Replay = true
	if p.Setup != nil {
		p.Setup(c)
	}
	rep := kd.Repeat
	if rep < 1 {
		rep = 1
	}
	for i := 0; i < rep; i++ {
		c.runCase(kd, rf.V.CaseSeed)
	}
	res := c.result(0)
	if res.NViol > 0 {
		for _, v := range res.Violations {
			fmt.Printf("replay reproduced: class=%s detail=%s\n", v.Class, v.Detail)
			for _, l := range v.Trace {
				fmt.Println("   ", l)
			}
			break
		}
		fmt.Printf("VIOLATION property=%s replay=%s\n", p.ID, path)
		return 1
	}
	fmt.Printf("replay: case ran %d time(s) without violation (race reports, if any, are on stderr)\n", rep)
	return 0
}

type knownEntry struct {
	Status   string `json:"status"` // "known" or "fixed"
	Property string `json:"property"`
	Class    string `json:"class"`
	Commit   string `json:"commit,omitempty"`
	What     string `json:"what"`
}

func loadKnown() []knownEntry {
	b, err := os.ReadFile(filepath.Join(Root(), "known_findings.json"))
	if err != nil {
		return nil
	}
	var f struct {
		Findings []knownEntry `json:"findings"`
	}
	if json.Unmarshal(b, &f) != nil {
		return nil
	}
	return f.Findings
}

var raceFrameRe = regexp.MustCompile(`^\s+((?:github\.com/pinealctx/neptune/|verifh/)\S+)\(\)\s*$`)

// parseRaceLog returns one key per report block: the pair of outermost neptune (or
// harness) frames of the first two stacks.
func parseRaceLog(path string) (keys []string, blocks []string) {
	f, err := os.Open(path)
	if err != nil {
		return nil, nil
	}
	defer f.Close()
	sc := bufio.NewScanner(f)
	sc.Buffer(make([]byte, 1<<20), 1<<24)
	var cur []string
	flush := func() {
		if len(cur) == 0 {
			return
		}
		// split into stacks by blank lines / headers
		var stacks [][]string
		var st []string
		for _, l := range cur {
			t := strings.TrimSpace(l)
			if t == "" || strings.HasSuffix(t, ":") && !strings.HasPrefix(l, "  ") && !strings.HasPrefix(l, "\t") {
				if len(st) > 0 {
					stacks = append(stacks, st)
				}
				st = nil
				continue
			}
			st = append(st, l)
		}
		if len(st) > 0 {
			stacks = append(stacks, st)
		}
		var outer []string
		for _, s := range stacks {
			if len(outer) == 2 {
				break
			}
			// first neptune frame from the top (innermost neptune function = the access site)
			found := ""
			for _, l := range s {
				if m := raceFrameRe.FindStringSubmatch(l); m != nil {
					if strings.HasPrefix(m[1], "github.com/pinealctx/neptune/") {
						found = m[1]
						break
					}
					if found == "" {
						found = m[1]
					}
				}
			}
			if found != "" {
				outer = append(outer, found)
			}
		}
		sort.Strings(outer)
		keys = append(keys, strings.Join(outer, "|"))
		blocks = append(blocks, strings.Join(cur, "\n"))
		cur = nil
	}
	in := false
	for sc.Scan() {
		l := sc.Text()
		if strings.Contains(l, "WARNING: DATA RACE") {
			flush()
			in = true
			cur = append(cur, l)
			continue
		}
		if in {
			if strings.HasPrefix(l, "==================") {
				if len(cur) > 1 {
					flush()
					in = false
				}
				continue
			}
			cur = append(cur, l)
		}
	}
	flush()
	return
}

func parentMain(p *Prop, tier string, seed int64) int {
	t0 := time.Now()
	root := Root()
	work := filepath.Join(root, ".work", p.ID)
	os.RemoveAll(work)
	os.MkdirAll(work, 0o755)
	os.MkdirAll(filepath.Join(root, "evidence"), 0o755)
	self, err := os.Executable()
	if err != nil {
		fmt.Println("INCONCLUSIVE property=" + p.ID + " cannot find own executable")
		return 3
	}
	nshards := p.ShardsQuick
	wd := p.WatchdogQuick
	if tier == "thorough" {
		nshards = p.ShardsThorough
		wd = p.WatchdogThorough
	}
	if nshards <= 0 {
		if tier == "thorough" {
			nshards = 16
		} else {
			nshards = 4
		}
	}
	if wd <= 0 {
		if tier == "thorough" {
			wd = 90 * time.Minute
		} else {
			wd = 15 * time.Minute
		}
	}
	if v := os.Getenv("VERIF_WATCHDOG_S"); v != "" {
		if n, err := strconv.Atoi(v); err == nil && n > 0 {
			wd = time.Duration(n) * time.Second
		}
	}
	type childOut struct {
		exit int
		res  *childResult
		dist []uint64
		log  string
	}
	outs := make([]childOut, nshards)
	var wg sync.WaitGroup
	for i := 0; i < nshards; i++ {
		wg.Add(1)
		go func(i int) {
			defer wg.Done()
			out := filepath.Join(work, fmt.Sprintf("res.%d.json", i))
			logp := filepath.Join(work, fmt.Sprintf("log.%d.txt", i))
			lf, _ := os.Create(logp)
			defer lf.Close()
			cmd := exec.Command("timeout", "-s", "QUIT", "-k", "20", fmt.Sprintf("%d", int(wd.Seconds())),
				self, "--child", "--tier", tier, "--seed", fmt.Sprint(seed), "--shard", fmt.Sprint(i),
				"--nshards", fmt.Sprint(nshards), "--out", out)
			cmd.Stdout = lf
			cmd.Stderr = lf
			cmd.Env = append(os.Environ(),
				"GORACE=halt_on_error=0 log_path="+filepath.Join(work, fmt.Sprintf("race.%d", i)),
				"GOTRACEBACK=all")
			err := cmd.Run()
			ec := 0
			if err != nil {
				if ee, ok := err.(*exec.ExitError); ok {
					ec = ee.ExitCode()
					if ec < 0 {
						ec = 137
					}
				} else {
					ec = 127
				}
			}
			outs[i].exit = ec
			outs[i].log = logp
			if b, err := os.ReadFile(out); err == nil {
				var r childResult
				if json.Unmarshal(b, &r) == nil {
					outs[i].res = &r
				}
			}
			if b, err := os.ReadFile(out + ".distinct"); err == nil {
				d := make([]uint64, len(b)/8)
				for j := range d {
					d[j] = binary.LittleEndian.Uint64(b[8*j:])
				}
				outs[i].dist = d
			}
		}(i)
	}
	wg.Wait()

	// merge
	var evals, inconcl, nviol int64
	counters := map[string]int64{}
	inconclWhy := map[string]int64{}
	observed := map[string]map[uint64]struct{}{}
	var allDistinct []uint64 // union by sort + unique (8 bytes per hash instead of a map entry)
	var samples []any
	perKindSamples := map[string]int{}
	var viols []Violation
	watchdogs := 0
	for i := range outs {
		o := &outs[i]
		if o.res != nil {
			evals += o.res.Evals
			inconcl += o.res.Inconcl
			nviol += o.res.NViol
			for k, v := range o.res.Counters {
				if strings.HasPrefix(k, "max:") {
					if v > counters[k] {
						counters[k] = v
					}
				} else {
					counters[k] += v
				}
			}
			for k, v := range o.res.InconclWhy {
				inconclWhy[k] += v
			}
			kinds := make([]string, 0, len(o.res.Samples))
			for k := range o.res.Samples {
				kinds = append(kinds, k)
			}
			sort.Strings(kinds)
			for _, k := range kinds {
				for _, s := range o.res.Samples[k] {
					if perKindSamples[k] < 2 {
						perKindSamples[k]++
						samples = append(samples, s)
					}
				}
			}
			viols = append(viols, o.res.Violations...)
			allDistinct = append(allDistinct, o.dist...)
			o.dist = nil
			for name, l := range o.res.Sets {
				m := observed[name]
				if m == nil {
					m = map[uint64]struct{}{}
					observed[name] = m
				}
				for _, h := range l {
					m[h] = struct{}{}
				}
			}
		}
		if o.res != nil {
			// the child completed its case list (exit 66 = race reports, counted from the logs below)
			continue
		}
		// abnormal child
		prog, _ := os.ReadFile(filepath.Join(work, fmt.Sprintf("res.%d.json.progress", i)))
		cur := strings.TrimSpace(string(prog))
		if o.exit == 124 || o.exit == 137 {
			watchdogs++
			inconcl++
			inconclWhy["watchdog expired in case "+cur]++
			continue
		}
		// process-fatal event: attribute to the case that was running
		kind, cs := "process", uint64(0)
		if f := strings.Fields(cur); len(f) == 2 {
			kind = f[0]
			cs, _ = strconv.ParseUint(f[1], 10, 64)
		}
		tail := tailOf(o.log, 6000)
		cls := "process-fatal"
		if m := regexp.MustCompile(`(?m)^(fatal error: .*|panic: .*)$`).FindString(tail); m != "" {
			cls = "process-fatal:" + m
		}
		nviol++
		viols = append(viols, Violation{Class: cls, Kind: kind, CaseSeed: cs,
			Detail: fmt.Sprintf("child %d exited %d while running %s; log tail:\n%s", i, o.exit, cur, tail)})
	}
	sort.Slice(allDistinct, func(i, j int) bool { return allDistinct[i] < allDistinct[j] })
	nDistinct := 0
	for i, h := range allDistinct {
		if i == 0 || h != allDistinct[i-1] {
			nDistinct++
		}
	}
	allDistinct = nil
	// race reports
	raceBlocks := 0
	raceDistinct := map[string]string{}
	rl, _ := filepath.Glob(filepath.Join(work, "race.*"))
	sort.Strings(rl)
	for _, f := range rl {
		keys, blocks := parseRaceLog(f)
		raceBlocks += len(keys)
		for j, k := range keys {
			if _, ok := raceDistinct[k]; !ok {
				raceDistinct[k] = blocks[j]
			}
		}
	}
	rkeys := make([]string, 0, len(raceDistinct))
	for k := range raceDistinct {
		rkeys = append(rkeys, k)
	}
	sort.Strings(rkeys)
	for _, k := range rkeys {
		nviol++
		b := raceDistinct[k]
		if len(b) > 8000 {
			b = b[:8000]
		}
		viols = append(viols, Violation{Class: "race:" + k, Kind: "race-detector", Detail: b})
	}
	counters["race_report_blocks"] = int64(raceBlocks)
	counters["race_report_distinct_pairs"] = int64(len(raceDistinct))

	// known findings
	known := loadKnown()
	os.MkdirAll(filepath.Join(root, "replays"), 0o755)
	seenClass := map[string]bool{}
	var lines []string
	unknownViol := 0
	knownPrinted := map[string]bool{}
	for _, v := range viols {
		matched := false
		for _, ke := range known {
			if ke.Status == "known" && ke.Property == p.ID && ke.Class != "" && strings.HasPrefix(v.Class, ke.Class) {
				matched = true
				if !knownPrinted[ke.Class] {
					knownPrinted[ke.Class] = true
					lines = append(lines, fmt.Sprintf("KNOWN-FINDING: property=%s %s", p.ID, ke.What))
				}
				break
			}
		}
		if matched {
			continue
		}
		unknownViol++
		if seenClass[v.Class] {
			continue
		}
		seenClass[v.Class] = true
		name := fmt.Sprintf("%s-%d-%s-%d.json", p.ID, seed, sanitize(v.Kind), v.CaseSeed)
		if v.Kind == "race-detector" {
			name = fmt.Sprintf("%s-%d-race-%x.json", p.ID, seed, HashStr(v.Class))
		}
		rp := filepath.Join(root, "replays", name)
		writeJSON(rp, replayFile{Property: p.ID, Tier: tier, Seed: seed, V: v})
		lines = append(lines, fmt.Sprintf("VIOLATION property=%s replay=%s class=%q", p.ID, rp, v.Class))
	}

	// floors
	var floorMiss []string
	fk := make([]string, 0, len(p.Floors))
	for k := range p.Floors {
		fk = append(fk, k)
	}
	sort.Strings(fk)
	for _, k := range fk {
		if counters[k] < p.Floors[k] {
			floorMiss = append(floorMiss, fmt.Sprintf("%s=%d<%d", k, counters[k], p.Floors[k]))
		}
	}
	lostTooMany := evals > 0 && inconcl*20 > evals+inconcl
	incon := len(floorMiss) > 0 || watchdogs > 0 || lostTooMany || evals == 0 || nDistinct < 2

	// evidence
	level := p.Level
	if level == "" {
		level = "exploration"
	}
	if len(samples) == 0 {
		samples = append(samples, "no non-trivial case was produced by this run")
	}
	cov := map[string]any{
		"evaluations":         evals,
		"distinct_nontrivial": nDistinct,
		"rule":                p.Rule,
		"samples":             samples,
		"counters":            counters,
		"inconclusive_cases":  inconcl,
		"inconclusive_why":    inconclWhy,
		"children":            nshards,
		"floors":              p.Floors,
		"floors_missed":       floorMiss,
	}
	if len(observed) > 0 {
		od := map[string]int{}
		for name, m := range observed {
			od[name] = len(m)
		}
		cov["observed_distinct"] = od
	}
	if p.Exhaustive {
		cov["exhaustive"] = true
	}
	verdict := "held on what was observed"
	if unknownViol > 0 {
		verdict = "violated"
	} else if incon {
		verdict = "inconclusive"
	}
	cov["verdict"] = verdict
	ev := map[string]any{
		"property_id": p.ID,
		"tier":        tier,
		"seed":        seed,
		"level":       level,
		"coverage":    cov,
		"assumptions": p.Assumptions,
		"wall_s":      time.Since(t0).Seconds(),
		"violations":  unknownViol,
	}
	if err := writeJSON(filepath.Join(root, "evidence", p.ID+".json"), ev); err != nil {
		fmt.Println("cannot write evidence:", err)
	}
	for _, l := range lines {
		fmt.Println(l)
	}
	ck := make([]string, 0, len(counters))
	for k := range counters {
		ck = append(ck, k)
	}
	sort.Strings(ck)
	var sb strings.Builder
	for _, k := range ck {
		fmt.Fprintf(&sb, " %s=%d", k, counters[k])
	}
	fmt.Printf("%s %s seed=%d: %s; evaluations=%d distinct_nontrivial=%d inconclusive_cases=%d wall=%.1fs\n  observed:%s\n",
		p.ID, tier, seed, verdict, evals, nDistinct, inconcl, time.Since(t0).Seconds(), sb.String())
	if unknownViol > 0 {
		return 1
	}
	if incon {
		fmt.Printf("INCONCLUSIVE property=%s floors_missed=%v watchdogs=%d inconclusive_cases=%d why=%v\n", p.ID, floorMiss, watchdogs, inconcl, inconclWhy)
		return 3
	}
	return 0
}

func sanitize(s string) string {
	return strings.Map(func(r rune) rune {
		if r >= 'a' && r <= 'z' || r >= 'A' && r <= 'Z' || r >= '0' && r <= '9' || r == '-' || r == '_' {
			return r
		}
		return '_'
	}, s)
}

func tailOf(path string, n int) string {
	b, err := os.ReadFile(path)
	if err != nil {
		return ""
	}
	// prefer the region around the first fatal/panic line
	s := string(b)
	if i := strings.Index(s, "fatal error:"); i >= 0 {
		s = s[i:]
	} else if i := strings.Index(s, "panic:"); i >= 0 {
		s = s[i:]
	} else if len(s) > n {
		return s[len(s)-n:]
	}
	if len(s) > n {
		s = s[:n]
	}
	return s
}

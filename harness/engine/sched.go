package engine

import (
	"fmt"
	"sync"
	"sync/atomic"
)

// Op is one possibly-blocking operation run in its own goroutine by a Driver.
type Op struct {
	ID   int
	Name string

	mu     sync.Mutex
	done   bool
	res    any
	callTS int64
	retTS  int64
	panicV any
}

// Done reports whether the operation has returned (read under the op's mutex, so it
// is a proper happens-before edge for the race detector).
func (o *Op) Done() bool { o.mu.Lock(); defer o.mu.Unlock(); return o.done }

// Result returns the operation's result (valid when Done).
func (o *Op) Result() any { o.mu.Lock(); defer o.mu.Unlock(); return o.res }

// Panic returns the recovered panic value of the op, if any.
func (o *Op) Panic() any { o.mu.Lock(); defer o.mu.Unlock(); return o.panicV }

// Times returns the logical call/return stamps.
func (o *Op) Times() (int64, int64) { o.mu.Lock(); defer o.mu.Unlock(); return o.callTS, o.retTS }

// Driver runs controlled schedules: Spawn + Quiesce after every step.
type Driver struct {
	Q     *Quiescer
	K     *Case
	clock atomic.Int64
	ops   []*Op
	wg    sync.WaitGroup
	Lost  bool // a Quiesce failed: the case is inconclusive
}

// NewDriver creates a driver for one case.
func NewDriver(q *Quiescer, k *Case) *Driver { return &Driver{Q: q, K: k} }

// Tick returns the next logical time stamp.
func (d *Driver) Tick() int64 { return d.clock.Add(1) }

// Spawn starts f in its own goroutine; it does not wait.
func (d *Driver) Spawn(name string, f func() any) *Op {
	op := &Op{ID: len(d.ops), Name: name}
	d.ops = append(d.ops, op)
	op.callTS = d.Tick()
	d.wg.Add(1)
	go func() {
		defer d.wg.Done()
		var r any
		var pv any
		func() {
			defer func() {
				if x := recover(); x != nil {
					pv = x
				}
			}()
			r = f()
		}()
		ts := d.Tick()
		op.mu.Lock()
		op.res, op.done, op.retTS, op.panicV = r, true, ts, pv
		op.mu.Unlock()
	}()
	return op
}

// Quiesce waits for a quiescent fixed point. On failure the case is marked lost.
func (d *Driver) Quiesce() bool {
	if d.Lost {
		return false
	}
	if !d.Q.Wait() {
		d.Lost = true
		d.K.Inconclusive("quiescence not reached")
		return false
	}
	return true
}

// Ops returns all operations spawned so far.
func (d *Driver) Ops() []*Op { return d.ops }

// Pending returns the operations that have not returned.
func (d *Driver) Pending() []*Op {
	var out []*Op
	for _, o := range d.ops {
		if !o.Done() {
			out = append(out, o)
		}
	}
	return out
}

// PendingNames renders the pending ops.
func (d *Driver) PendingNames() string {
	s := ""
	for _, o := range d.Pending() {
		s += fmt.Sprintf("#%d:%s ", o.ID, o.Name)
	}
	return s
}

// Join waits for every spawned op (call only when the model says all must return and
// Quiesce confirmed nothing is pending, or after releasing everything).
func (d *Driver) Join() { d.wg.Wait() }

// Package engine is the shared runner of the neptune runtime monitors: it turns a
// property definition (a list of case kinds, each a deterministic function of a
// per-case seed) into a parent/child process tree, merges what the children observed,
// applies the known-findings file and writes the evidence file.
package engine

import (
	"encoding/binary"
	"encoding/json"
	"fmt"
	"hash/fnv"
	"math/rand"
	"os"
	"runtime/debug"
	"sort"
	"strings"
	"sync"
	"time"
)

// Kind is one family of cases of a property. Fn must be a pure function of the case
// (its PRNG) and the code under test; verdicts are raised through Case.Fail.
type Kind struct {
	Name string
	// Quick/Thorough are total case counts (over all shards) per tier.
	Quick, Thorough int
	// Repeat is how often a replay re-executes the case (stress kinds: 20).
	Repeat int
	Fn     func(k *Case)
}

// Prop describes one property check.
type Prop struct {
	ID          string
	Level       string // evidence level (exploration / fault_enumeration)
	Rule        string // how cases are generated and what makes one non-trivial
	Assumptions []string
	Kinds       []Kind
	// ShardsQuick/ShardsThorough = number of child processes (default 4 / 16).
	ShardsQuick, ShardsThorough int
	// Watchdog per child (generous wall-clock guard; expiry is inconclusive).
	WatchdogQuick, WatchdogThorough time.Duration
	// Floors: merged counters that must reach the given value, else INCONCLUSIVE.
	Floors map[string]int64
	// Exhaustive marks evidence as a complete enumeration (C18).
	Exhaustive bool
	// Setup runs once per child before any case (e.g. take the quiescence baseline).
	Setup func(c *Ctx)
}

// Violation is one refuting observation.
type Violation struct {
	Class    string   `json:"class"`
	Kind     string   `json:"kind"`
	CaseSeed uint64   `json:"case_seed"`
	Detail   string   `json:"detail"`
	Trace    []string `json:"trace,omitempty"`
}

// Ctx is the per-child run state; all methods are safe for concurrent use.
type Ctx struct {
	Prop    *Prop
	Tier    string
	Seed    int64
	Shard   int
	NShards int
	Replay  bool

	mu         sync.Mutex
	evals      int64
	distinct   map[uint64]struct{}
	samples    map[string][]any
	counters   map[string]int64
	violations []Violation
	nviol      int64
	kindViol   int64
	perClass   map[string]int
	inconcl    int64
	inconclWhy map[string]int64
	sets       map[string]map[uint64]struct{} // named sets of observed states (exact union across children)
	curCase    string
	curK       *Case
	progress   *os.File
	outPath    string
}

const maxDistinct = 3 << 20 // per child; beyond it distinct counting is conservative (stops adding)
const maxViolationsKept = 300
const abortAfterInconclusive = 12

const abortAfterViolations = 200

func newCtx(p *Prop, tier string, seed int64, shard, nshards int) *Ctx {
	return &Ctx{Prop: p, Tier: tier, Seed: seed, Shard: shard, NShards: nshards,
		distinct: map[uint64]struct{}{}, samples: map[string][]any{}, counters: map[string]int64{},
		inconclWhy: map[string]int64{}}
}

// Thorough reports whether this is the thorough tier.
func (c *Ctx) Thorough() bool { return c.Tier == "thorough" }

// Count adds n to a named coverage counter.
func (c *Ctx) Count(name string, n int64) {
	c.mu.Lock()
	c.counters[name] += n
	c.mu.Unlock()
}

// Max keeps the maximum of a named gauge.
func (c *Ctx) Max(name string, v int64) {
	c.mu.Lock()
	if v > c.counters["max:"+name] {
		c.counters["max:"+name] = v
	}
	c.mu.Unlock()
}

// Observe adds a hash to a named set of observed things (model states, interleaving
// signatures ...); the parent reports the exact cardinality of the union over all children
// as coverage.observed_distinct[<set>].
func (c *Ctx) Observe(set string, h uint64) {
	c.mu.Lock()
	if c.sets == nil {
		c.sets = map[string]map[uint64]struct{}{}
	}
	m := c.sets[set]
	if m == nil {
		m = map[uint64]struct{}{}
		c.sets[set] = m
	}
	if len(m) < 1<<20 {
		m[h] = struct{}{}
	}
	c.mu.Unlock()
}

// ObserveStr is Observe over a string.
func (c *Ctx) ObserveStr(set, s string) { c.Observe(set, HashStr(s)) }

func (c *Ctx) addDistinct(h uint64) {
	c.mu.Lock()
	if len(c.distinct) < maxDistinct {
		c.distinct[h] = struct{}{}
	}
	c.mu.Unlock()
}

func (c *Ctx) addSample(kind string, v any) {
	c.mu.Lock()
	if len(c.samples[kind]) < 2 {
		c.samples[kind] = append(c.samples[kind], v)
	}
	c.mu.Unlock()
}

func (c *Ctx) wantSample(kind string) bool {
	c.mu.Lock()
	defer c.mu.Unlock()
	return len(c.samples[kind]) < 2
}

func (c *Ctx) violate(v Violation) {
	c.mu.Lock()
	c.nviol++
	c.kindViol++
	if c.perClass == nil {
		c.perClass = map[string]int{}
	}
	c.perClass[v.Class]++
	// keep the first few witnesses of every class (a frequent class must not hide a rare one)
	if c.perClass[v.Class] <= 3 && len(c.violations) < maxViolationsKept {
		c.violations = append(c.violations, v)
	}
	c.mu.Unlock()
	fmt.Fprintf(os.Stderr, "violation class=%s kind=%s case=%d detail=%s\n", v.Class, v.Kind, v.CaseSeed, v.Detail)
}

func (c *Ctx) inconclusive(why string) {
	c.mu.Lock()
	c.inconcl++
	c.inconclWhy[why]++
	c.mu.Unlock()
}

// Case is one execution of a kind.
type Case struct {
	C    *Ctx
	R    *rand.Rand
	Kind string
	Seed uint64

	mu         sync.Mutex
	trace      []string
	nontrivial bool
	failed     bool
	evals      int64
	ownDist    bool
	quiet      bool
}

// Logf appends a line to the case's program/trace text (witness, sample, distinct hash).
func (k *Case) Logf(format string, a ...any) {
	k.mu.Lock()
	if len(k.trace) < 400 {
		k.trace = append(k.trace, fmt.Sprintf(format, a...))
	}
	k.mu.Unlock()
}

// Trace returns a copy of the trace so far.
func (k *Case) Trace() []string {
	k.mu.Lock()
	defer k.mu.Unlock()
	return append([]string(nil), k.trace...)
}

// Nontrivial marks the case as non-trivial by the property's rule.
func (k *Case) Nontrivial() { k.mu.Lock(); k.nontrivial = true; k.mu.Unlock() }

// Distinct registers a distinct non-trivial sub-input by hash (instead of the trace hash).
func (k *Case) Distinct(h uint64) {
	k.mu.Lock()
	k.ownDist = true
	k.mu.Unlock()
	k.C.addDistinct(h)
}

// DistinctBytes is Distinct over a byte string.
func (k *Case) DistinctBytes(b []byte) { k.Distinct(Hash64(b)) }

// Evals adds n to the number of evaluations (a case counts 1 by default).
func (k *Case) Evals(n int64) { k.mu.Lock(); k.evals += n; k.mu.Unlock() }

// Count adds to a coverage counter.
func (k *Case) Count(name string, n int64) { k.C.Count(name, n) }

// Fail records a violation; class identifies the witness class for known-findings.
func (k *Case) Fail(class string, format string, a ...any) {
	k.mu.Lock()
	k.failed = true
	tr := append([]string(nil), k.trace...)
	k.mu.Unlock()
	k.C.violate(Violation{Class: class, Kind: k.Kind, CaseSeed: k.Seed, Detail: fmt.Sprintf(format, a...), Trace: tr})
}

// Failed reports whether Fail was called for this case.
func (k *Case) Failed() bool { k.mu.Lock(); defer k.mu.Unlock(); return k.failed }

// Inconclusive marks this case as inconclusive (never a violation).
func (k *Case) Inconclusive(why string) { k.C.inconclusive(why) }

// Hash64 is FNV-1a over b.
func Hash64(b []byte) uint64 { h := fnv.New64a(); h.Write(b); return h.Sum64() }

// HashStr is FNV-1a over s.
func HashStr(s string) uint64 { h := fnv.New64a(); h.Write([]byte(s)); return h.Sum64() }

func splitmix(x uint64) uint64 {
	x += 0x9e3779b97f4a7c15
	x = (x ^ (x >> 30)) * 0xbf58476d1ce4e5b9
	x = (x ^ (x >> 27)) * 0x94d049bb133111eb
	return x ^ (x >> 31)
}

// CaseSeed derives the per-case seed.
func CaseSeed(seed int64, kind string, index int) uint64 {
	return splitmix(splitmix(uint64(seed))^HashStr(kind)) ^ splitmix(uint64(index)+1)
}

// runCase executes one case with panic capture.
func (c *Ctx) runCase(kd *Kind, cs uint64) {
	k := &Case{C: c, R: rand.New(rand.NewSource(int64(cs))), Kind: kd.Name, Seed: cs, evals: 0}
	c.mu.Lock()
	c.curCase = fmt.Sprintf("%s/%d", kd.Name, cs)
	c.curK = k
	if c.progress != nil {
		var b [8]byte
		binary.LittleEndian.PutUint64(b[:], cs)
		c.progress.WriteAt([]byte(fmt.Sprintf("%-24s %020d\n", kd.Name, cs)), 0)
	}
	c.mu.Unlock()
	func() {
		defer func() {
			if r := recover(); r != nil {
				st := string(debug.Stack())
				if len(st) > 3000 {
					st = st[:3000]
				}
				k.Fail("panic", "panic in case: %v\n%s", r, st)
			}
		}()
		kd.Fn(k)
	}()
	k.mu.Lock()
	ev := k.evals
	if ev == 0 {
		ev = 1
	}
	nt, own := k.nontrivial, k.ownDist
	k.mu.Unlock()
	c.mu.Lock()
	c.evals += ev
	c.mu.Unlock()
	if nt && !own {
		c.addDistinct(HashStr(strings.Join(k.trace, "\n")))
	}
	if nt && c.wantSample(kd.Name) {
		tr := k.Trace()
		if len(tr) > 40 {
			tr = append(tr[:40], fmt.Sprintf("... (%d more lines)", len(k.trace)-40))
		}
		c.addSample(kd.Name, map[string]any{"kind": kd.Name, "case_seed": cs, "trace": tr})
	}
}

func (c *Ctx) runAll() {
	if c.Prop.Setup != nil {
		c.Prop.Setup(c)
	}
	for i := range c.Prop.Kinds {
		kd := &c.Prop.Kinds[i]
		n := kd.Quick
		if c.Thorough() {
			n = kd.Thorough
		}
		c.mu.Lock()
		inconclAtStart := c.inconcl
		c.mu.Unlock()
		for idx := c.Shard; idx < n; idx += c.NShards {
			c.runCase(kd, CaseSeed(c.Seed, kd.Name, idx))
			c.mu.Lock()
			stop := c.kindViol >= abortAfterViolations
			tooManyInconcl := c.inconcl-inconclAtStart >= abortAfterInconclusive
			c.mu.Unlock()
			if tooManyInconcl {
				// every inconclusive case has waited out a generous bound; the run cannot end
				// "held" any more, so the remaining cases of this kind would only cost time
				fmt.Fprintf(os.Stderr, "skipping the rest of kind %s after %d inconclusive cases\n", kd.Name, abortAfterInconclusive)
				break
			}
			if stop {
				// the tree is violating; more cases of this kind add nothing and leaked goroutines
				// of failed cases make every further quiescence poll slower
				fmt.Fprintf(os.Stderr, "skipping the rest of kind %s after %d violations\n", kd.Name, abortAfterViolations)
				break
			}
		}
		c.mu.Lock()
		c.kindViol = 0
		c.mu.Unlock()
	}
}

// childResult is what a child writes for its parent.
type childResult struct {
	Sets       map[string][]uint64 `json:"sets,omitempty"`
	Evals      int64               `json:"evals"`
	Counters   map[string]int64    `json:"counters"`
	Samples    map[string][]any    `json:"samples"`
	Violations []Violation         `json:"violations"`
	NViol      int64               `json:"nviol"`
	Inconcl    int64               `json:"inconclusive"`
	InconclWhy map[string]int64    `json:"inconclusive_why"`
	WallS      float64             `json:"wall_s"`
}

func (c *Ctx) result(wall float64) *childResult {
	c.mu.Lock()
	defer c.mu.Unlock()
	sets := map[string][]uint64{}
	for name, m := range c.sets {
		l := make([]uint64, 0, len(m))
		for h := range m {
			l = append(l, h)
		}
		sets[name] = l
	}
	return &childResult{Sets: sets, Evals: c.evals, Counters: c.counters, Samples: c.samples, Violations: c.violations,
		NViol: c.nviol, Inconcl: c.inconcl, InconclWhy: c.inconclWhy, WallS: wall}
}

func (c *Ctx) distinctSorted() []uint64 {
	c.mu.Lock()
	defer c.mu.Unlock()
	out := make([]uint64, 0, len(c.distinct))
	for h := range c.distinct {
		out = append(out, h)
	}
	sort.Slice(out, func(i, j int) bool { return out[i] < out[j] })
	return out
}

func writeJSON(path string, v any) error {
	b, err := json.MarshalIndent(v, "", " ")
	if err != nil {
		return err
	}
	tmp := path + ".tmp"
	if err := os.WriteFile(tmp, b, 0o644); err != nil {
		return err
	}
	return os.Rename(tmp, path)
}

module verifh

go 1.21

require (
	github.com/anishathalye/porcupine v1.3.0
	github.com/cespare/xxhash/v2 v2.2.0
	github.com/go-sql-driver/mysql v1.7.1
	github.com/pinealctx/neptune v0.0.0
	github.com/redis/go-redis/v9 v9.0.4
	go.uber.org/zap v1.24.0
	google.golang.org/grpc v1.55.0
	gorm.io/driver/mysql v1.5.1
	gorm.io/gorm v1.25.1
)

require (
	github.com/dgryski/go-rendezvous v0.0.0-20200823014737-9f7001d12a5f // indirect
	github.com/eapache/queue v1.1.0 // indirect
	github.com/golang/protobuf v1.5.3 // indirect
	github.com/golang/snappy v0.0.4 // indirect
	github.com/jinzhu/inflection v1.0.0 // indirect
	github.com/jinzhu/now v1.1.5 // indirect
	github.com/json-iterator/go v1.1.12 // indirect
	github.com/modern-go/concurrent v0.0.0-20180228061459-e0a39a4cb421 // indirect
	github.com/modern-go/reflect2 v1.0.2 // indirect
	github.com/satori/go.uuid v1.2.0 // indirect
	go.uber.org/atomic v1.11.0 // indirect
	go.uber.org/multierr v1.6.0 // indirect
	golang.org/x/crypto v0.9.0 // indirect
	golang.org/x/exp v0.0.0-20230522175609-2e198f4a06a1 // indirect
	google.golang.org/genproto v0.0.0-20230410155749-daa745c078e1 // indirect
	google.golang.org/protobuf v1.30.0 // indirect
	gopkg.in/natefinch/lumberjack.v2 v2.2.1 // indirect
)

replace github.com/pinealctx/neptune => /repo

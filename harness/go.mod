module verifh

go 1.21

require (
	github.com/anishathalye/porcupine v1.3.0
	github.com/pinealctx/neptune v0.0.0
)

require github.com/cespare/xxhash/v2 v2.2.0 // indirect

replace github.com/pinealctx/neptune => /repo

package c08

import (
	"fmt"
	"math"
	"math/rand"
	"strings"

	"verifh/engine"

	"github.com/pinealctx/neptune/bitmap1024"
)

// observe64 / observe1024 read the membership of a bitmap. The API has no Has/Get, so
// the set is observed through the forward "give me up to all" wrapper (judged on its own
// by the iteration kinds); the bit layout is never assumed.
func observe64(w bitmap1024.Bit64) []int {
	s := w.GetNAsI8(64)
	out := make([]int, len(s))
	for i, v := range s {
		out[i] = int(v)
	}
	return out
}

func observe1024(b bitmap1024.Bit1024) []int {
	s := b.GetNAsI32(1024)
	out := make([]int, len(s))
	for i, v := range s {
		out[i] = int(v)
	}
	return out
}

func clone1024(b bitmap1024.Bit1024) bitmap1024.Bit1024 {
	return append(bitmap1024.Bit1024(nil), b...)
}

// ------------------------------------------------------------------ set64

var edgeBytes = []byte{0, 1, 31, 32, 62, 63, 64, 65, 127, 128, 129, 191, 192, 254, 255}

func set64Case(k *engine.Case) {
	t := tally{}
	defer func() {
		for n, v := range t {
			k.Count(n, v)
		}
	}()
	r := k.R
	m, tag := genWord(r)
	if r.Intn(3) == 0 {
		m, tag = set64{}, "empty"
	}
	w := build64(&m)
	k.Logf("Bit64 program; start shape=%s members=%s", tag, fmtSet(m.members()))
	nops := 40 + r.Intn(60)
	changed, ignored := false, false
	for s := 0; s < nops; s++ {
		var i byte
		switch r.Intn(6) {
		case 0:
			i = edgeBytes[r.Intn(len(edgeBytes))]
		case 1:
			i = byte(r.Intn(256))
		case 2:
			i = byte(64 + r.Intn(192))
		default:
			i = byte(r.Intn(64))
		}
		set := r.Intn(2) == 0
		before := m
		op := "Unset"
		if set {
			op = "Set"
		}
		if p, st := catch(func() {
			if set {
				w.Set(i)
			} else {
				w.Unset(i)
			}
		}); p != nil {
			k.Logf("%d: %s(%d) PANICKED: %v", s, op, i, p)
			k.Fail("panic", "Bit64.%s(%d) panicked: %v\n%s", op, i, p, st)
			return
		}
		in := i <= 63
		if in {
			m[i] = set
			t.add("b64_"+strings.ToLower(op)+"_inrange", 1)
			if before != m {
				changed = true
				t.add("b64_"+strings.ToLower(op)+"_changes_membership", 1)
			} else {
				t.add("b64_"+strings.ToLower(op)+"_idempotent", 1)
			}
		} else {
			ignored = true
			t.add("b64_"+strings.ToLower(op)+"_outofrange", 1)
		}
		want := m.members()
		got := observe64(w)
		k.Evals(1)
		if !sameInts(got, want) {
			k.Logf("%d: %s(%d) -> members %s, model %s (before: %s)", s, op, i, fmtSet(got), fmtSet(want), fmtSet(before.members()))
			cls := "set-membership"
			if !in {
				cls = "out-of-range-not-ignored"
			}
			k.Fail(cls, "Bit64.%s(%d) on %s gave %s, expected %s", op, i, fmtSet(before.members()), fmtSet(got), fmtSet(want))
			return
		}
		l, nl, full := w.Len(), w.NLen(), w.Full()
		k.Evals(3)
		t.add("b64_len_checks", 1)
		if full {
			t.add("b64_full_true", 1)
		}
		if l != len(want) || nl != 64-len(want) || full != (len(want) == 64) {
			k.Logf("%d: %s(%d) -> members %s Len=%d NLen=%d Full=%v; model Len=%d NLen=%d Full=%v", s, op, i, fmtSet(got), l, nl, full, len(want), 64-len(want), len(want) == 64)
			k.Fail("len-mismatch", "Bit64 %s: Len=%d NLen=%d Full=%v, expected %d/%d/%v", fmtSet(want), l, nl, full, len(want), 64-len(want), len(want) == 64)
			return
		}
		note := ""
		if !in {
			note = " (out of range: ignored)"
		}
		k.Logf("%d: %s(%d)%s -> %s Len=%d NLen=%d", s, op, i, note, fmtSetShort(got), l, nl)
	}
	// fill to full / drain to empty: Full and the Len shortcut
	if r.Intn(4) == 0 {
		for i := 0; i < 64; i++ {
			w.Set(byte(i))
		}
		k.Evals(3)
		if !w.Full() || w.Len() != 64 || w.NLen() != 0 {
			k.Fail("len-mismatch", "Bit64 after Set(0..63): Full=%v Len=%d NLen=%d", w.Full(), w.Len(), w.NLen())
			return
		}
		t.add("b64_full_true", 1)
		k.Logf("Set(0..63) -> Full=true Len=64 NLen=0")
	}
	if changed && ignored {
		k.Nontrivial()
		t.add("set64_nontrivial_programs", 1)
	}
	t.add("set64_programs", 1)
}

// ------------------------------------------------------------------ set1024

var edgeIdx = []int32{-1, 0, 1, 62, 63, 64, 65, 127, 128, 959, 960, 1022, 1023, 1024, 1025, 1086, 1087, 1088,
	-62, -63, -64, -65, -127, -128, -1023, -1024, -1025, 2047, 2048, 32767, 32768, -32768, -32769, 65535, 65536, 65537, 66559,
	-65536, 100000, -100000, math.MaxInt32, math.MinInt32, math.MaxInt32 - 63, math.MinInt32 + 63, math.MinInt32 + 64}

func genIndex32(r *rand.Rand, m *set1024) int32 {
	switch r.Intn(12) {
	case 0, 1, 2:
		return int32(r.Intn(1024))
	case 3:
		// an existing member (Unset that changes something; idempotent Set)
		if mem := m.members(); len(mem) > 0 {
			return int32(mem[r.Intn(len(mem))])
		}
		return int32(r.Intn(1024))
	case 4, 5:
		return edgeIdx[r.Intn(len(edgeIdx))]
	case 6:
		return int32(r.Intn(200001)) - 100000
	case 7:
		return -int32(r.Intn(130)) - 1
	case 8:
		return 1024 + int32(r.Intn(130))
	case 9:
		return 64*int32(r.Intn(60)-20) - int32(r.Intn(2))
	case 10:
		// aliases of in-range indices modulo 2^16 / 2^10 (must be ignored)
		return int32(r.Intn(1024)) + []int32{1024, 65536, -65536, 1 << 20, -1024, 1 << 30}[r.Intn(6)]
	default:
		return int32(r.Uint32())
	}
}

func set1024Case(k *engine.Case) {
	t := tally{}
	defer func() {
		for n, v := range t {
			k.Count(n, v)
		}
	}()
	r := k.R
	var m set1024
	tag := "empty"
	if r.Intn(3) != 0 {
		m, tag = gen1024(r)
	}
	b := build1024(&m, r.Intn(2) == 0)
	k.Logf("Bit1024 program; start shape=%s members=%s", tag, fmtSetShort(m.members()))
	if got := observe1024(b); !sameInts(got, m.members()) {
		k.Logf("building the start bitmap by Set of every member gave %s", fmtSet(got))
		k.Fail("set-membership", "bitmap built by setting %s has members %s", fmtSet(m.members()), fmtSet(got))
		return
	}
	nops := 40 + r.Intn(60)
	changed, ignored := false, false
	for s := 0; s < nops; s++ {
		idx := genIndex32(r, &m)
		wide := r.Intn(2) == 0
		if !wide && (idx < math.MinInt16 || idx > math.MaxInt16) {
			// SetI16 takes an int16: draw inside its own range instead of truncating
			switch r.Intn(3) {
			case 0:
				idx = int32(int16(r.Uint32()))
			case 1:
				idx = []int32{math.MinInt16, math.MaxInt16, math.MinInt16 + 1, math.MaxInt16 - 63}[r.Intn(4)]
			default:
				wide = true
			}
		}
		set := r.Intn(2) == 0
		op := "Unset"
		if set {
			op = "Set"
		}
		if wide {
			op += "I32"
		} else {
			op += "I16"
		}
		before := m
		if p, st := catch(func() {
			switch {
			case set && wide:
				b.SetI32(idx)
			case set:
				b.SetI16(int16(idx))
			case wide:
				b.UnsetI32(idx)
			default:
				b.UnsetI16(int16(idx))
			}
		}); p != nil {
			k.Logf("%d: %s(%d) PANICKED: %v", s, op, idx, p)
			k.Fail("panic", "Bit1024.%s(%d) panicked: %v\n%s", op, idx, p, st)
			return
		}
		in := idx >= 0 && idx <= 1023
		lop := strings.ToLower(op)
		switch {
		case in:
			m[idx] = set
			t.add("b1024_"+lop+"_inrange", 1)
			if before != m {
				changed = true
				t.add("b1024_"+lop+"_changes_membership", 1)
			} else {
				t.add("b1024_"+lop+"_idempotent", 1)
			}
		case idx < 0:
			ignored = true
			t.add("b1024_"+lop+"_negative", 1)
			if idx > -64 {
				t.add("b1024_negative_in_word0_quotient", 1) // i/64 == 0 for -63..-1
			}
		default:
			ignored = true
			t.add("b1024_"+lop+"_ge1024", 1)
		}
		want := m.members()
		got := observe1024(b)
		k.Evals(1)
		if !sameInts(got, want) {
			k.Logf("%d: %s(%d) -> members %s, model %s (before: %s)", s, op, idx, fmtSet(got), fmtSet(want), fmtSet(before.members()))
			cls := "set-membership"
			if !in {
				cls = "out-of-range-not-ignored"
			}
			k.Fail(cls, "Bit1024.%s(%d) on %s gave %s, expected %s", op, idx, fmtSet(before.members()), fmtSet(got), fmtSet(want))
			return
		}
		l, nl := b.Len(), b.NLen()
		k.Evals(2)
		t.add("b1024_len_checks", 1)
		if l != len(want) || nl != 1024-len(want) {
			k.Logf("%d: %s(%d) -> members %s Len=%d NLen=%d; model Len=%d NLen=%d", s, op, idx, fmtSet(got), l, nl, len(want), 1024-len(want))
			k.Fail("len-mismatch", "Bit1024 %s: Len=%d NLen=%d, expected %d/%d", fmtSet(want), l, nl, len(want), 1024-len(want))
			return
		}
		note := ""
		if !in {
			note = " (out of range: ignored)"
		}
		k.Logf("%d: %s(%d)%s -> %s Len=%d NLen=%d", s, op, idx, note, fmtSetShort(got), l, nl)
	}
	if changed && ignored {
		k.Nontrivial()
		t.add("set1024_nontrivial_programs", 1)
	}
	t.add("set1024_programs", 1)
}

// ------------------------------------------------------------------ algebra

const algebraBatch = 6

// related draws the second operand in a chosen relation to the first.
func related(r *rand.Rand, a *set1024) (b set1024, relShort, rel string) {
	switch r.Intn(11) {
	case 9, 10:
		// same popcount, different content: one member moved to a free slot, inside its
		// word (same per-word popcounts) or anywhere
		b = *a
		mem := a.members()
		if len(mem) == 0 || len(mem) == 1024 {
			return b, "equal", "equal"
		}
		from := mem[r.Intn(len(mem))]
		lo, hi := 0, 1024
		if r.Intn(2) == 0 {
			lo, hi = from&^63, from&^63+64
		}
		var free []int
		for i := lo; i < hi; i++ {
			if !a[i] {
				free = append(free, i)
			}
		}
		if len(free) == 0 {
			return b, "equal", "equal"
		}
		to := free[r.Intn(len(free))]
		b[from], b[to] = false, true
		return b, "moved_bit", fmt.Sprintf("one_member_moved(%d->%d)", from, to)
	case 0:
		return *a, "equal", "equal"
	case 1, 2:
		b = *a
		i := []int{0, 1023, 63, 64, 960, 959, r.Intn(1024), 960 + r.Intn(64)}[r.Intn(8)]
		b[i] = !b[i]
		return b, "one_bit", fmt.Sprintf("differs_in_one_bit(%d)", i)
	case 3:
		b = *a
		for i := range b {
			if b[i] && r.Intn(2) == 0 {
				b[i] = false
			}
		}
		return b, "subset", "subset"
	case 4:
		for i := range b {
			b[i] = !a[i]
		}
		return b, "complement", "complement"
	case 5:
		for i := range b {
			b[i] = !a[i] && r.Intn(2) == 0
		}
		return b, "disjoint", "disjoint"
	default:
		b, t := gen1024(r)
		return b, "independent", "independent_" + t
	}
}

func algebraCase(k *engine.Case) {
	t := tally{}
	defer func() {
		for n, v := range t {
			k.Count(n, v)
		}
	}()
	r := k.R
	for pi := 0; pi < algebraBatch; pi++ {
		ma, tagA := gen1024(r)
		mb, relShort, rel := related(r, &ma)
		if r.Intn(2) == 0 {
			ma, mb = mb, ma
			rel += "_swapped"
		}
		a0 := build1024(&ma, r.Intn(2) == 0)
		b0 := build1024(&mb, r.Intn(2) == 0)
		memA, memB := ma.members(), mb.members()
		k.Logf("#%d a=%s (%s, Len %d)", pi, fmtSetShort(memA), tagA, len(memA))
		k.Logf("    b=%s (%s, Len %d)", fmtSetShort(memB), rel, len(memB))
		var and, or, notA, nor set1024
		for i := range ma {
			and[i] = ma[i] && mb[i]
			or[i] = ma[i] || mb[i]
			notA[i] = !ma[i]
			nor[i] = !(ma[i] || mb[i])
		}
		type bin struct {
			name string
			cls  string
			f    func(x, y bitmap1024.Bit1024) bitmap1024.Bit1024
			want *set1024
		}
		ops := []bin{
			{"a.And(b)", "and", func(x, y bitmap1024.Bit1024) bitmap1024.Bit1024 { return x.And(y) }, &and},
			{"b.And(a)", "and", func(x, y bitmap1024.Bit1024) bitmap1024.Bit1024 { return y.And(x) }, &and},
			{"a.Or(b)", "or", func(x, y bitmap1024.Bit1024) bitmap1024.Bit1024 { return x.Or(y) }, &or},
			{"b.Or(a)", "or", func(x, y bitmap1024.Bit1024) bitmap1024.Bit1024 { return y.Or(x) }, &or},
			{"a.Reverse()", "reverse", func(x, y bitmap1024.Bit1024) bitmap1024.Bit1024 { return x.Reverse() }, &notA},
			{"a.OrThenReverse(b)", "orthenreverse", func(x, y bitmap1024.Bit1024) bitmap1024.Bit1024 { return x.OrThenReverse(y) }, &nor},
			{"b.OrThenReverse(a)", "orthenreverse", func(x, y bitmap1024.Bit1024) bitmap1024.Bit1024 { return y.OrThenReverse(x) }, &nor},
		}
		for _, o := range ops {
			// every operation gets fresh copies of the operands: no verdict depends on
			// whether an operation mutates its receiver
			x, y := clone1024(a0), clone1024(b0)
			var res bitmap1024.Bit1024
			if p, st := catch(func() { res = o.f(x, y) }); p != nil {
				k.Logf("    %s PANICKED: %v", o.name, p)
				k.Fail("panic", "%s panicked: %v\n%s", o.name, p, st)
				return
			}
			want := o.want.members()
			got := observe1024(res)
			k.Evals(1)
			t.add("algebra_"+o.cls, 1)
			if !sameInts(got, want) {
				k.Logf("    %s -> %s, model %s", o.name, fmtSet(got), fmtSet(want))
				k.Fail("algebra-"+o.cls, "%s with a=%s b=%s gave %s, expected %s", o.name, fmtSet(memA), fmtSet(memB), fmtSet(got), fmtSet(want))
				return
			}
			if l, nl := res.Len(), res.NLen(); l != len(want) || nl != 1024-len(want) {
				k.Logf("    %s -> %s Len=%d NLen=%d, model %d/%d", o.name, fmtSet(got), l, nl, len(want), 1024-len(want))
				k.Fail("len-mismatch", "%s = %s: Len=%d NLen=%d, expected %d/%d", o.name, fmtSet(want), l, nl, len(want), 1024-len(want))
				return
			}
			k.Evals(2)
			k.Logf("    %s -> %s Len=%d", o.name, fmtSetShort(got), len(got))
			// the result is a set of its own: changing the membership of one index in it
			// changes exactly that index of exactly that bitmap (not of an operand), and a
			// later change of an operand does not reach the result
			flip := int16(r.Intn(1024))
			wasIn := o.want[flip]
			if wasIn {
				res.UnsetI16(flip)
			} else {
				res.SetI16(flip)
			}
			gx, gy := observe1024(x), observe1024(y)
			k.Evals(2)
			t.add("algebra_independent", 1)
			if !sameInts(gx, memA) || !sameInts(gy, memB) {
				k.Logf("    after flipping %d in the result of %s: a=%s b=%s", flip, o.name, fmtSet(gx), fmtSet(gy))
				k.Fail("algebra-result-aliases-operand", "%s with a=%s b=%s: flipping index %d in the result changed an operand: a=%s b=%s", o.name, fmtSet(memA), fmtSet(memB), flip, fmtSet(gx), fmtSet(gy))
				return
			}
			wantRes := *o.want
			wantRes[flip] = !wasIn
			flip2 := int16(r.Intn(1024))
			for oi, op := range []bitmap1024.Bit1024{x, y} {
				if []bool{ma[flip2], mb[flip2]}[oi] {
					op.UnsetI16(flip2)
				} else {
					op.SetI16(flip2)
				}
			}
			if got2 := observe1024(res); !sameInts(got2, wantRes.members()) {
				k.Logf("    after flipping %d in both operands of %s: result=%s, model %s", flip2, o.name, fmtSet(got2), fmtSet(wantRes.members()))
				k.Fail("algebra-result-aliases-operand", "%s with a=%s b=%s: after flipping %d in the result and then %d in the operands the result reads %s, expected %s", o.name, fmtSet(memA), fmtSet(memB), flip, flip2, fmtSet(got2), fmtSet(wantRes.members()))
				return
			}
			k.Evals(1)
		}
		// Equal
		wantEq := ma == mb
		type eq struct {
			name string
			f    func(x, y bitmap1024.Bit1024) bool
			want bool
		}
		eqs := []eq{
			{"a.Equal(b)", func(x, y bitmap1024.Bit1024) bool { return x.Equal(y) }, wantEq},
			{"b.Equal(a)", func(x, y bitmap1024.Bit1024) bool { return y.Equal(x) }, wantEq},
			{"a.Equal(copy of a)", func(x, y bitmap1024.Bit1024) bool { return x.Equal(clone1024(x)) }, true},
			{"a.Equal(a.Reverse().Reverse())", func(x, y bitmap1024.Bit1024) bool { return x.Equal(x.Reverse().Reverse()) }, true},
			{"a.Equal(a.Reverse())", func(x, y bitmap1024.Bit1024) bool { return x.Equal(x.Reverse()) }, false},
			{"a.And(b).Equal(a)  [b superset of a?]", func(x, y bitmap1024.Bit1024) bool { return x.And(y).Equal(x) }, and == ma},
			{"a.Or(b).Equal(a)  [b subset of a?]", func(x, y bitmap1024.Bit1024) bool { return x.Or(y).Equal(x) }, or == ma},
		}
		for _, e := range eqs {
			x, y := clone1024(a0), clone1024(b0)
			var res bool
			if p, st := catch(func() { res = e.f(x, y) }); p != nil {
				k.Logf("    %s PANICKED: %v", e.name, p)
				k.Fail("panic", "%s panicked: %v\n%s", e.name, p, st)
				return
			}
			k.Evals(1)
			if res {
				t.add("algebra_equal_true", 1)
			} else {
				t.add("algebra_equal_false", 1)
			}
			if res != e.want {
				k.Logf("    %s -> %v, model %v", e.name, res, e.want)
				k.Fail("algebra-equal", "%s with a=%s b=%s returned %v, expected %v", e.name, fmtSet(memA), fmtSet(memB), res, e.want)
				return
			}
			k.Logf("    %s -> %v", e.name, res)
		}
		if !wantEq {
			// how far apart are unequal operands: a single differing bit is the hard case
			d, where := 0, -1
			for i := range ma {
				if ma[i] != mb[i] {
					d++
					where = i
				}
			}
			if len(memA) == len(memB) {
				t.add("algebra_unequal_same_len", 1)
				same := true
				for i := 0; i < 16; i++ {
					wa, wb := ma.word(i), mb.word(i)
					if len(wa.members()) != len(wb.members()) {
						same = false
					}
				}
				if same {
					t.add("algebra_unequal_same_word_popcounts", 1)
				}
			}
			if d == 1 {
				t.add("algebra_unequal_by_one_bit", 1)
				if where >= 960 {
					t.add("algebra_unequal_only_in_last_word", 1)
				}
				if where < 64 {
					t.add("algebra_unequal_only_in_first_word", 1)
				}
			}
		}

		// the 64-bit layer on one word pair
		wi := r.Intn(16)
		wa, wb := ma.word(wi), mb.word(wi)
		if r.Intn(3) == 0 {
			wa, _ = genWord(r)
			wb, _ = genWord(r)
		}
		xa, xb := build64(&wa), build64(&wb)
		var wand, wor, wnot set64
		for i := range wa {
			wand[i] = wa[i] && wb[i]
			wor[i] = wa[i] || wb[i]
			wnot[i] = !wa[i]
		}
		for _, o := range []struct {
			name string
			res  func() bitmap1024.Bit64
			want *set64
		}{
			{"Bit64 x.And(y)", func() bitmap1024.Bit64 { return xa.And(xb) }, &wand},
			{"Bit64 y.And(x)", func() bitmap1024.Bit64 { return xb.And(xa) }, &wand},
			{"Bit64 x.Or(y)", func() bitmap1024.Bit64 { return xa.Or(xb) }, &wor},
			{"Bit64 y.Or(x)", func() bitmap1024.Bit64 { return xb.Or(xa) }, &wor},
			{"Bit64 x.Reverse()", func() bitmap1024.Bit64 { return xa.Reverse() }, &wnot},
		} {
			res := o.res()
			want := o.want.members()
			got := observe64(res)
			k.Evals(1)
			t.add("algebra_bit64_ops", 1)
			if !sameInts(got, want) || res.Len() != len(want) || res.NLen() != 64-len(want) || res.Full() != (len(want) == 64) {
				k.Logf("    %s with x=%s y=%s -> %s Len=%d NLen=%d Full=%v, model %s", o.name, fmtSet(wa.members()), fmtSet(wb.members()), fmtSet(got), res.Len(), res.NLen(), res.Full(), fmtSet(want))
				k.Fail("algebra-bit64", "%s with x=%s y=%s gave %s (Len=%d NLen=%d Full=%v), expected %s", o.name, fmtSet(wa.members()), fmtSet(wb.members()), fmtSet(got), res.Len(), res.NLen(), res.Full(), fmtSet(want))
				return
			}
		}
		k.Logf("    Bit64 layer x=%s y=%s: And/Or/Reverse/Len/NLen/Full equal the model", fmtSet(wa.members()), fmtSet(wb.members()))

		t.add("algebra_pairs", 1)
		t.add("algebra_rel_"+relShort, 1)
		if len(memA) > 0 && len(memB) > 0 {
			// non-trivial: both operands non-empty
			k.Nontrivial()
			var sb strings.Builder
			sb.WriteString("algebra/")
			for _, wd := range a0 {
				fmt.Fprintf(&sb, "%016x", uint64(wd))
			}
			for _, wd := range b0 {
				fmt.Fprintf(&sb, "%016x", uint64(wd))
			}
			k.Distinct(engine.HashStr(sb.String()))
			t.add("algebra_nontrivial_pairs", 1)
		}
	}
}

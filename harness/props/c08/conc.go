package c08

import (
	"fmt"
	"runtime"
	"sync"

	"verifh/engine"

	"github.com/pinealctx/neptune/bitmap1024"
)

// concIterCase: iteration is a read-only operation on a value; several goroutines that
// iterate their *own* bitmaps at the same time must each get exactly their own bitmap's
// members (an iterator that keeps intermediate results in package-level state returns other
// callers' members). Expected results are computed from the model before the goroutines start.
func concIterCase(k *engine.Case) {
	r := k.R
	old := runtime.GOMAXPROCS([]int{2, 4, 8, 16}[r.Intn(4)])
	defer runtime.GOMAXPROCS(old)
	workers := 2 + r.Intn(7)
	rounds := 150
	k.Logf("%d goroutines iterate their own bitmaps concurrently, %d rounds each (all widths, both directions, Bit64 and Bit1024)", workers, rounds)
	k.Nontrivial()
	type job struct {
		m64   set64
		m1024 set1024
		w     bitmap1024.Bit64
		b     bitmap1024.Bit1024
	}
	jobs := make([]job, workers)
	for i := range jobs {
		jobs[i].m64, _ = genWord(r)
		jobs[i].m1024, _ = gen1024(r)
		jobs[i].w = build64(&jobs[i].m64)
		jobs[i].b = build1024(&jobs[i].m1024, i%2 == 0)
	}
	var mu sync.Mutex
	var firstBad string
	bad := 0
	report := func(s string) {
		mu.Lock()
		bad++
		if firstBad == "" {
			firstBad = s
		}
		mu.Unlock()
	}
	start := make(chan struct{})
	var wg sync.WaitGroup
	for i := range jobs {
		j := &jobs[i]
		wg.Add(1)
		go func() {
			defer wg.Done()
			mem64, mem1024 := j.m64.members(), j.m1024.members()
			e64i16, e64i16r := expected[int16](mem64, false, 64, 0), expected[int16](mem64, true, 64, 0)
			e64i32, e64i64r := expected[int32](mem64, false, 64, 0), expected[int64](mem64, true, 64, 0)
			e64i8 := expected[int8](mem64, false, 64, 0)
			eI16, eI16r := expected[int16](mem1024, false, 1024, 0), expected[int16](mem1024, true, 1024, 0)
			eI32, eI32r := expected[int32](mem1024, false, 1024, 0), expected[int32](mem1024, true, 1024, 0)
			eI64, eI64r := expected[int64](mem1024, false, 1024, 0), expected[int64](mem1024, true, 1024, 0)
			<-start
			for n := 0; n < rounds; n++ {
				if !same(j.w.GetNAsI16(64), e64i16) {
					report("Bit64.GetNAsI16")
				}
				if !same(j.w.RGetNAsI16(64), e64i16r) {
					report("Bit64.RGetNAsI16")
				}
				if !same(j.w.GetNAsI32(64), e64i32) {
					report("Bit64.GetNAsI32")
				}
				if !same(j.w.RGetNAsI64(64), e64i64r) {
					report("Bit64.RGetNAsI64")
				}
				if !same(j.w.GetNAsI8(64), e64i8) {
					report("Bit64.GetNAsI8")
				}
				if !same(j.b.GetNAsI16(1024), eI16) {
					report("Bit1024.GetNAsI16")
				}
				if !same(j.b.RGetNAsI16(1024), eI16r) {
					report("Bit1024.RGetNAsI16")
				}
				if !same(j.b.GetNAsI32(1024), eI32) {
					report("Bit1024.GetNAsI32")
				}
				if !same(j.b.RGetNAsI32(1024), eI32r) {
					report("Bit1024.RGetNAsI32")
				}
				if !same(j.b.GetNAsI64(1024), eI64) {
					report("Bit1024.GetNAsI64")
				}
				if !same(j.b.RGetNAsI64(1024), eI64r) {
					report("Bit1024.RGetNAsI64")
				}
			}
		}()
	}
	close(start)
	wg.Wait()
	k.Evals(int64(workers * rounds * 11))
	k.Count("conc_iterations", int64(workers*rounds*11))
	if bad > 0 {
		k.Fail("concurrent-iteration", "%d of %d iterations run by goroutines on their own (unshared, unmodified) bitmaps returned something else than that bitmap's members; first: %s", bad, workers*rounds*11, firstBad)
	}
}

func same[T elem](got, want []T) bool {
	if len(got) != len(want) {
		return false
	}
	for i := range got {
		if got[i] != want[i] {
			return false
		}
	}
	return true
}

var _ = fmt.Sprint

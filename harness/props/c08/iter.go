package c08

import (
	"fmt"
	"math"
	"math/rand"
	"runtime/debug"
	"strings"
	"unsafe"

	"verifh/engine"

	"github.com/pinealctx/neptune/bitmap1024"
)

type elem interface {
	int8 | int16 | int32 | uint32 | int64
}

// expected is the oracle of the iterator clause: the first min(n, Len) members in
// ascending (descending) order, each offset by add in the element type (wrap-around is
// the specified arithmetic). Negative n yields nothing.
func expected[T elem](members []int, reverse bool, n int, add T) []T {
	cnt := len(members)
	if n < cnt {
		cnt = n
	}
	if cnt < 0 {
		cnt = 0
	}
	out := make([]T, cnt)
	for i := range out {
		m := members[i]
		if reverse {
			m = members[len(members)-1-i]
		}
		out[i] = T(m) + add
	}
	return out
}

// randAdd draws the offset: 0, ±1, values that make member+add wrap around in T, or any.
func randAdd[T elem](r *rand.Rand) T {
	var z T
	bitsT := uint(unsafe.Sizeof(z)) * 8
	switch r.Intn(8) {
	case 0:
		return 0
	case 1:
		return T(1)
	case 2:
		var m1 T
		m1--
		return m1 // -1 (all ones for uint32)
	case 3:
		// just below the signed maximum: member+add crosses it
		return T(uint64(1)<<(bitsT-1) - 1 - uint64(r.Intn(1100)))
	case 4:
		// just below 2^bits: crosses the unsigned wrap / -1 -> 0 for signed
		return T(uint64(1)<<(bitsT-1)<<1 - 1 - uint64(r.Intn(1100)))
	case 5:
		return T(uint64(1) << (bitsT - 1)) // signed minimum
	default:
		return T(r.Uint64())
	}
}

// runner is one pre-drawn call (routine + arguments + expected outcome) that is executed
// once per threshold.
type runner interface {
	run(th int32) bool
	describe() string
	key() string
	nArg() int
}

type icall[T elem] struct {
	k       *engine.Case
	name    string
	fn      func([]T, int, T, int) int
	pos     int
	add     T
	n       int
	slack   int
	want    []T
	sent    T
	memLen  int
	reverse bool
	buf     []T
}

func (c *icall[T]) key() string { return c.name }
func (c *icall[T]) nArg() int   { return c.n }
func (c *icall[T]) describe() string {
	return fmt.Sprintf("%s(dst[len=%d, prefilled with %d], pos=%d, add=%d, n=%d)", c.name, c.pos+len(c.want)+c.slack, c.sent, c.pos, c.add, c.n)
}

// window renders dst around index at (first difference) without dumping 1000 elements.
func window[T elem](s []T, at int) string {
	lo, hi := at-6, at+7
	if lo < 0 {
		lo = 0
	}
	if hi > len(s) {
		hi = len(s)
	}
	var sb strings.Builder
	if lo > 0 {
		fmt.Fprintf(&sb, "...[%d:] ", lo)
	}
	fmt.Fprintf(&sb, "%v", s[lo:hi])
	if hi < len(s) {
		fmt.Fprintf(&sb, " ...(len %d)", len(s))
	}
	return sb.String()
}

func catch(f func()) (p any, stack string) {
	defer func() {
		if r := recover(); r != nil {
			p = r
			stack = string(debug.Stack())
			if len(stack) > 2500 {
				stack = stack[:2500]
			}
		}
	}()
	f()
	return nil, ""
}

func (c *icall[T]) run(th int32) bool {
	k := c.k
	if c.buf == nil {
		c.buf = make([]T, c.pos+len(c.want)+c.slack)
	}
	dst := c.buf // fresh sentinel fill for every threshold
	for i := range dst {
		dst[i] = c.sent
	}
	var got int
	if p, st := catch(func() { got = c.fn(dst, c.pos, c.add, c.n) }); p != nil {
		k.Logf("threshold=%d: %s PANICKED: %v", th, c.describe(), p)
		k.Fail("panic", "threshold=%d %s panicked (destination is long enough for pos+min(n,Len)=%d+%d): %v\n%s", th, c.describe(), c.pos, len(c.want), p, st)
		return false
	}
	cnt := len(c.want)
	if c.n < 0 && got == c.n {
		// the statement's "returns min(n, Len)" read literally for a negative n; the
		// natural reading is 0. Both are accepted as long as nothing is written.
		got = 0
	}
	if got != cnt {
		k.Logf("threshold=%d: %s -> returned %d, model: min(n,Len=%d)=%d; dst=%s", th, c.describe(), got, c.memLen, cnt, window(dst, c.pos))
		k.Fail("iter-count", "threshold=%d %s returned %d, expected min(n,Len)=%d (Len=%d)", th, c.describe(), got, cnt, c.memLen)
		return false
	}
	for i := 0; i < c.pos; i++ {
		if dst[i] != c.sent {
			k.Logf("threshold=%d: %s -> %d; dst[%d]=%d before pos was overwritten: %s", th, c.describe(), got, i, dst[i], window(dst, i))
			k.Fail("iter-outside-write", "threshold=%d %s wrote dst[%d]=%d before pos", th, c.describe(), i, dst[i])
			return false
		}
	}
	for i, w := range c.want {
		if dst[c.pos+i] != w {
			full := make([]T, len(dst))
			for j := range full {
				full[j] = c.sent
			}
			copy(full[c.pos:], c.want)
			k.Logf("threshold=%d: %s -> %d; dst[%d]=%d, model %d", th, c.describe(), got, c.pos+i, dst[c.pos+i], w)
			k.Logf("    observed %s", window(dst, c.pos+i))
			k.Logf("    model    %s", window(full, c.pos+i))
			k.Fail("iter-content", "threshold=%d %s: dst[%d]=%d, expected %d (member #%d in %s order + add)", th, c.describe(), c.pos+i, dst[c.pos+i], w, i, dirName(c.reverse))
			return false
		}
	}
	for i := c.pos + cnt; i < len(dst); i++ {
		if dst[i] != c.sent {
			k.Logf("threshold=%d: %s -> %d; dst[%d]=%d past pos+count was overwritten: %s", th, c.describe(), got, i, dst[i], window(dst, i))
			k.Fail("iter-outside-write", "threshold=%d %s wrote dst[%d]=%d past pos+count=%d", th, c.describe(), i, dst[i], c.pos+cnt)
			return false
		}
	}
	return true
}

func dirName(rev bool) string {
	if rev {
		return "descending"
	}
	return "ascending"
}

func mkIter[T elem](k *engine.Case, name string, fn func([]T, int, T, int) int, members []int, reverse bool, pos, n int) runner {
	add := randAdd[T](k.R)
	c := &icall[T]{k: k, name: name, fn: fn, pos: pos, add: add, n: n, reverse: reverse, memLen: len(members)}
	c.want = expected(members, reverse, n, add)
	c.sent = add - 1 // never equals member+add for a member in [0,1023]
	c.slack = []int{0, 0, 1, 3}[k.R.Intn(4)]
	return c
}

// gcall is a GetN/RGetN wrapper call (pos 0, add 0, n >= 0).
type gcall[T elem] struct {
	k       *engine.Case
	name    string
	fn      func(int) []T
	n       int
	want    []T
	memLen  int
	reverse bool
}

func (c *gcall[T]) key() string      { return c.name }
func (c *gcall[T]) nArg() int        { return c.n }
func (c *gcall[T]) describe() string { return fmt.Sprintf("%s(%d)", c.name, c.n) }

func (c *gcall[T]) run(th int32) bool {
	k := c.k
	var got []T
	if p, st := catch(func() { got = c.fn(c.n) }); p != nil {
		k.Logf("threshold=%d: %s PANICKED: %v", th, c.describe(), p)
		k.Fail("panic", "threshold=%d %s panicked: %v\n%s", th, c.describe(), p, st)
		return false
	}
	if len(got) != len(c.want) {
		k.Logf("threshold=%d: %s -> %d elements %s, model: min(n,Len=%d)=%d", th, c.describe(), len(got), window(got, 0), c.memLen, len(c.want))
		k.Fail("getn-count", "threshold=%d %s returned %d elements, expected min(n,Len)=%d (Len=%d)", th, c.describe(), len(got), len(c.want), c.memLen)
		return false
	}
	for i, w := range c.want {
		if got[i] != w {
			k.Logf("threshold=%d: %s -> [%d]=%d, model %d", th, c.describe(), i, got[i], w)
			k.Logf("    observed %s", window(got, i))
			k.Logf("    model    %s", window(c.want, i))
			k.Fail("getn-content", "threshold=%d %s: element %d is %d, expected %d (%s order)", th, c.describe(), i, got[i], w, dirName(c.reverse))
			return false
		}
	}
	return true
}

func mkGetN[T elem](k *engine.Case, name string, fn func(int) []T, members []int, reverse bool, n int) runner {
	return &gcall[T]{k: k, name: name, fn: fn, n: n, reverse: reverse, memLen: len(members), want: expected[T](members, reverse, n, 0)}
}

// nValues is the design's n set {-3,0,1,Len-1,Len,Len+1,2000} plus extras, deduplicated.
func nValues(L int, extra ...int) []int {
	cand := append([]int{-3, 0, 1, L - 1, L, L + 1, 2000}, extra...)
	seen := map[int]bool{}
	out := cand[:0:0]
	for _, n := range cand {
		if !seen[n] {
			seen[n] = true
			out = append(out, n)
		}
	}
	return out
}

func nClass(n, L int) string {
	switch {
	case n < 0:
		return "n_negative"
	case n == 0:
		return "n_zero"
	case n < L:
		return "n_lt_len"
	case n == L:
		return "n_eq_len"
	default:
		return "n_gt_len"
	}
}

var positions = []int{0, 1, 7}

// build64 constructs the Bit64 through the API under test (Set), so the model needs no
// assumption about the bit layout.
func build64(m *set64) (w bitmap1024.Bit64) {
	for i, b := range m {
		if b {
			w.Set(byte(i))
		}
	}
	return
}

// build1024 makes the bitmap of a model set. Two thirds through the setters; otherwise (chosen
// by the set's content) by loading its serialized form into a fresh bitmap or by storing the 16
// words directly - a bitmap is its 16 words, however they got there.
func build1024(m *set1024, useI32 bool) bitmap1024.Bit1024 {
	b := bitmap1024.NewBit1024()
	n := 0
	for _, x := range m {
		if x {
			n++
		}
	}
	switch (n + int(b2i(m[0])) + 2*int(b2i(m[1023]))) % 6 {
	case 0: // dense or sparse encoding through Unmarshal
		var buf []byte
		if n >= 64 {
			buf = make([]byte, 128)
			for i, x := range m {
				if x {
					buf[i/8] |= 1 << (uint(i) % 8)
				}
			}
		} else {
			for i, x := range m {
				if x {
					buf = append(buf, byte(i), byte(i>>8))
				}
			}
		}
		if err := b.Unmarshal(buf); err != nil {
			panic("harness: Unmarshal of a well-formed encoding failed: " + err.Error())
		}
		return b
	case 1: // direct word stores
		for i, x := range m {
			if x {
				b[i/64] |= bitmap1024.Bit64(1) << (uint(i) % 64)
			}
		}
		return b
	}
	for i, x := range m {
		if x {
			if useI32 {
				b.SetI32(int32(i))
			} else {
				b.SetI16(int16(i))
			}
		}
	}
	return b
}

// ------------------------------------------------------------------ iter64

const iter64Batch = 12

func iter64Case(k *engine.Case) {
	t := tally{}
	defer func() {
		bitmap1024.VerifSetSparseMagic(defaultMagic)
		for n, v := range t {
			k.Count(n, v)
		}
	}()
	r := k.R
	for bi := 0; bi < iter64Batch; bi++ {
		m, tag := genWord(r)
		mem := m.members()
		L := len(mem)
		w := build64(&m)
		t.add("w64_shape_"+tag, 1)

		extra := []int{}
		if L > 3 {
			extra = append(extra, 2+r.Intn(L-2))
		}
		if r.Intn(4) == 0 {
			extra = append(extra, []int{math.MinInt, math.MaxInt, math.MaxInt32, math.MinInt32}[r.Intn(4)])
		}
		ns := nValues(L, extra...)
		var calls []runner
		for _, n := range ns {
			for _, pos := range positions {
				calls = append(calls,
					mkIter(k, "Bit64.IterAsI8", w.IterAsI8, mem, false, pos, n),
					mkIter(k, "Bit64.IterAsI16", w.IterAsI16, mem, false, pos, n),
					mkIter(k, "Bit64.IterAsI32", w.IterAsI32, mem, false, pos, n),
					mkIter(k, "Bit64.IterAsU32", w.IterAsU32, mem, false, pos, n),
					mkIter(k, "Bit64.IterAsI64", w.IterAsI64, mem, false, pos, n),
					mkIter(k, "Bit64.RIterAsI8", w.RIterAsI8, mem, true, pos, n),
					mkIter(k, "Bit64.RIterAsI16", w.RIterAsI16, mem, true, pos, n),
					mkIter(k, "Bit64.RIterAsI32", w.RIterAsI32, mem, true, pos, n),
					mkIter(k, "Bit64.RIterAsU32", w.RIterAsU32, mem, true, pos, n),
					mkIter(k, "Bit64.RIterAsI64", w.RIterAsI64, mem, true, pos, n),
				)
			}
			if n >= 0 && n <= 4096 { // GetN domain: n >= 0 (negative n is a makeslice panic of the wrapper)
				calls = append(calls,
					mkGetN(k, "Bit64.GetNAsI8", w.GetNAsI8, mem, false, n),
					mkGetN(k, "Bit64.GetNAsI16", w.GetNAsI16, mem, false, n),
					mkGetN(k, "Bit64.GetNAsI32", w.GetNAsI32, mem, false, n),
					mkGetN(k, "Bit64.GetNAsI64", w.GetNAsI64, mem, false, n),
					mkGetN(k, "Bit64.RGetNAsI8", w.RGetNAsI8, mem, true, n),
					mkGetN(k, "Bit64.RGetNAsI16", w.RGetNAsI16, mem, true, n),
					mkGetN(k, "Bit64.RGetNAsI32", w.RGetNAsI32, mem, true, n),
					mkGetN(k, "Bit64.RGetNAsI64", w.RGetNAsI64, mem, true, n),
				)
			}
		}
		ths := append(append([]int32(nil), fixedThresholds...), extraThreshold(r))
		k.Logf("#%d Bit64 %#016x shape=%s members=%s Len=%d; n in %v, pos in %v", bi, uint64(w), tag, fmtSetShort(mem), L, ns, positions)
		nBranch := map[string]int64{}
		for _, th := range ths {
			bitmap1024.VerifSetSparseMagic(th)
			branch := ".sparse"
			if L == 0 {
				branch = ".empty"
			} else if L > int(th) {
				branch = ".dense"
			}
			for _, c := range calls {
				if !c.run(th) {
					k.Logf("    (bitmap %#016x members=%s Len=%d, traversal branch for this threshold:%s)", uint64(w), fmtSet(mem), L, branch)
					k.Evals(1)
					return
				}
			}
			nBranch[branch]++
			k.Evals(int64(len(calls)))
			t.add("iter64_calls", int64(len(calls)))
		}
		for _, c := range calls {
			for br, cnt := range nBranch {
				t.add(c.key()+br, cnt)
			}
			t.add(nClass(c.nArg(), L), int64(len(ths)))
		}
		t.add("iter64_bitmaps", 1)
		t.add("iter64_threshold_runs", int64(len(ths)))
		ex := calls[r.Intn(len(calls))]
		k.Logf("    %d calls x thresholds %v: every count and destination equals the model; e.g. %s -> %s", len(calls), ths, ex.describe(), example(ex))
		if L >= 2 {
			// non-trivial: at least two members, so order and truncation are observable
			k.Nontrivial()
			k.Distinct(engine.HashStr(fmt.Sprintf("iter64/%016x", uint64(w))))
			t.add("iter64_nontrivial_bitmaps", 1)
		}
	}
}

// example renders the model outcome of a call for the trace (it was just confirmed).
func example(c runner) string {
	switch x := c.(type) {
	case *icall[int8]:
		return fmt.Sprintf("%d %s", len(x.want), window(x.want, 0))
	case *icall[int16]:
		return fmt.Sprintf("%d %s", len(x.want), window(x.want, 0))
	case *icall[int32]:
		return fmt.Sprintf("%d %s", len(x.want), window(x.want, 0))
	case *icall[uint32]:
		return fmt.Sprintf("%d %s", len(x.want), window(x.want, 0))
	case *icall[int64]:
		return fmt.Sprintf("%d %s", len(x.want), window(x.want, 0))
	case *gcall[int8]:
		return window(x.want, 0)
	case *gcall[int16]:
		return window(x.want, 0)
	case *gcall[int32]:
		return window(x.want, 0)
	case *gcall[int64]:
		return window(x.want, 0)
	}
	return "?"
}

// ------------------------------------------------------------------ iter1024

const iter1024Batch = 2

func iter1024Case(k *engine.Case) {
	t := tally{}
	defer func() {
		bitmap1024.VerifSetSparseMagic(defaultMagic)
		for n, v := range t {
			k.Count(n, v)
		}
	}()
	r := k.R
	for bi := 0; bi < iter1024Batch; bi++ {
		m, tag := gen1024(r)
		mem := m.members()
		L := len(mem)
		useI32 := r.Intn(2) == 0
		b := build1024(&m, useI32)
		t.add("b1024_shape_"+tag, 1)
		if l, nl := b.Len(), b.NLen(); l != L || nl != 1024-L {
			k.Fail("len-mismatch", "Bit1024 %s: Len=%d NLen=%d, expected %d/%d", fmtSet(mem), l, nl, L, 1024-L)
			return
		}

		// per-word popcounts: n that ends exactly at / one around a word boundary of the
		// forward and of the reverse chain (cursor/left bookkeeping)
		var pc [16]int
		nonEmpty := 0
		for i := 0; i < 16; i++ {
			wd := m.word(i)
			pc[i] = len(wd.members())
			if pc[i] > 0 {
				nonEmpty++
			}
		}
		extra := []int{}
		if L > 0 {
			j := r.Intn(16)
			cf, cr := 0, 0
			for i := 0; i <= j; i++ {
				cf += pc[i]
				cr += pc[15-i]
			}
			extra = append(extra, cf, cf+1, cr-1, cr)
		}
		if L > 3 {
			extra = append(extra, 2+r.Intn(L-2))
		}
		if r.Intn(4) == 0 {
			extra = append(extra, []int{math.MinInt, math.MaxInt, math.MaxInt32, math.MinInt32}[r.Intn(4)])
		}
		ns := nValues(L, extra...)
		var calls []runner
		for _, n := range ns {
			for _, pos := range positions {
				calls = append(calls,
					mkIter(k, "Bit1024.IterAsI16", b.IterAsI16, mem, false, pos, n),
					mkIter(k, "Bit1024.IterAsI32", b.IterAsI32, mem, false, pos, n),
					mkIter(k, "Bit1024.IterAsU32", b.IterAsU32, mem, false, pos, n),
					mkIter(k, "Bit1024.IterAsI64", b.IterAsI64, mem, false, pos, n),
					mkIter(k, "Bit1024.RIterAsI16", b.RIterAsI16, mem, true, pos, n),
					mkIter(k, "Bit1024.RIterAsI32", b.RIterAsI32, mem, true, pos, n),
					mkIter(k, "Bit1024.RIterAsU32", b.RIterAsU32, mem, true, pos, n),
					mkIter(k, "Bit1024.RIterAsI64", b.RIterAsI64, mem, true, pos, n),
				)
			}
			if n >= 0 && n <= 4096 {
				calls = append(calls,
					mkGetN(k, "Bit1024.GetNAsI16", b.GetNAsI16, mem, false, n),
					mkGetN(k, "Bit1024.GetNAsI32", b.GetNAsI32, mem, false, n),
					mkGetN(k, "Bit1024.GetNAsI64", b.GetNAsI64, mem, false, n),
					mkGetN(k, "Bit1024.RGetNAsI16", b.RGetNAsI16, mem, true, n),
					mkGetN(k, "Bit1024.RGetNAsI32", b.RGetNAsI32, mem, true, n),
					mkGetN(k, "Bit1024.RGetNAsI64", b.RGetNAsI64, mem, true, n),
				)
			}
		}
		ths := append(append([]int32(nil), fixedThresholds...), extraThreshold(r))
		setter := "SetI16"
		if useI32 {
			setter = "SetI32"
		}
		k.Logf("#%d Bit1024 built with %s shape=%s members=%s Len=%d non-empty words=%d; n in %v, pos in %v", bi, setter, tag, fmtSetShort(mem), L, nonEmpty, ns, positions)
		for _, th := range ths {
			bitmap1024.VerifSetSparseMagic(th)
			dense, sparse := 0, 0
			for i := 0; i < 16; i++ {
				if pc[i] == 0 {
					continue
				}
				if pc[i] > int(th) {
					dense++
				} else {
					sparse++
				}
			}
			for _, c := range calls {
				if !c.run(th) {
					k.Logf("    (bitmap members=%s Len=%d; per-word popcounts %v; at this threshold %d words take the dense and %d the sparse traversal)", fmtSet(mem), L, pc, dense, sparse)
					k.Evals(1)
					return
				}
			}
			k.Evals(int64(len(calls)))
			t.add("iter1024_calls", int64(len(calls)))
			t.add("iter1024_words_dense", int64(dense))
			t.add("iter1024_words_sparse", int64(sparse))
			if dense > 0 && sparse > 0 {
				t.add("iter1024_mixed_branch_runs", 1)
			}
		}
		for _, c := range calls {
			t.add(c.key(), int64(len(ths)))
			t.add(nClass(c.nArg(), L), int64(len(ths)))
		}
		t.add("iter1024_bitmaps", 1)
		t.add("iter1024_threshold_runs", int64(len(ths)))
		ex := calls[r.Intn(len(calls))]
		k.Logf("    %d calls x thresholds %v: every count and destination equals the model; e.g. %s -> %s", len(calls), ths, ex.describe(), example(ex))
		if L >= 2 {
			k.Nontrivial()
			var sb strings.Builder
			sb.WriteString("iter1024/")
			for _, wd := range b {
				fmt.Fprintf(&sb, "%016x", uint64(wd))
			}
			k.Distinct(engine.HashStr(sb.String()))
			t.add("iter1024_nontrivial_bitmaps", 1)
			if nonEmpty >= 2 {
				t.add("iter1024_multiword_bitmaps", 1)
			}
		}
	}
}

func b2i(x bool) int {
	if x {
		return 1
	}
	return 0
}

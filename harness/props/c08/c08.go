// Package c08 monitors bitmap1024: a Bit64 / Bit1024 behaves as a set of integers
// (Set/Unset with out-of-range indices ignored, Len/NLen, And/Or/Reverse/OrThenReverse/
// Equal) and every iterator, in every width and direction, writes exactly the first
// min(n, Len) members in order, offset by add, from position pos, returns that count and
// does so independently of the sparse/dense traversal threshold. The oracle is a
// [64]bool / [1024]bool model.
package c08

import (
	"verifh/engine"
)

// Prop is the C08 check.
var Prop = &engine.Prop{
	ID:    "C08",
	Level: "exploration",
	Rule: "seed-generated structured bitmaps (empty, full, single bit, popcount at/one below/one above each sparse threshold, bits 0/63 and 64k-1/64k, " +
		"runs across words, few populated words, sparse/dense/uniform random) are built through Set and compared with a boolean-array model. " +
		"Kinds iter64/iter1024: every iterator (Bit64 {I8,I16,I32,U32,I64}x{Iter,RIter}, Bit1024 {I16,I32,U32,I64}x{Iter,RIter}) and every GetN/RGetN wrapper is called with " +
		"n in {-3,0,1,Len-1,Len,Len+1,2000, a random n, n at a word boundary of the chain, sometimes Min/MaxInt}, pos in {0,1,7}, a random add (wrap-around biased), " +
		"a sentinel-prefilled destination, and the same calls are repeated under sparse thresholds {-1,0,1,8,9,10,63,64}+1 random. " +
		"Kinds set64/set1024: programs of 40-100 Set/Unset in all widths with indices in [-100000,100000] plus extremes, membership/Len/NLen(/Full) checked after every step. " +
		"Kind algebra: operand pairs in chosen relations (equal, one differing bit, one member moved, subset, complement, disjoint, independent) through And/Or/Reverse/OrThenReverse/Equal on both layers. " +
		"evaluations = results of calls of the code under test that were compared with the model (one iterator call under one threshold = 1). " +
		"distinct_nontrivial = distinct bitmaps with Len>=2 pushed through the full iterator matrix (iter kinds), distinct operand pairs with both sides non-empty (algebra), " +
		"distinct program texts containing both a membership-changing and an ignored out-of-range step (set kinds)",
	Assumptions: []string{
		"the API has no Has/Get: membership of a bitmap produced by Set/Unset/And/Or/Reverse/OrThenReverse is observed through the package's own forward wrapper (GetNAsI8(64) / GetNAsI32(1024)), which the iteration kinds judge on its own; the bit layout of the words is never assumed",
		"domain: Bit1024 values have exactly 16 words (NewBit1024); the destination is long enough for pos+min(n,Len) (sometimes exactly that long); GetN/RGetN wrappers are called with 0 <= n <= 4096",
		"member+add wraps around in the element type (two's complement) - the specified arithmetic",
		"bitmap1024.VerifSetSparseMagic (build tag verif) is the only writer of the threshold and cases of one child run sequentially",
		"operands of And/Or/... are fresh copies for every call: whether an operation leaves its receiver untouched is not judged",
	},
	ShardsQuick: 4, ShardsThorough: 16,
	Kinds: []engine.Kind{
		{Name: "iter64", Quick: 450, Thorough: 67500, Fn: iter64Case},
		{Name: "iter1024", Quick: 400, Thorough: 60000, Fn: iter1024Case},
		{Name: "set64", Quick: 1000, Thorough: 150000, Fn: set64Case},
		{Name: "set1024", Quick: 2000, Thorough: 300000, Fn: set1024Case},
		{Name: "algebra", Quick: 1000, Thorough: 150000, Fn: algebraCase},
		{Name: "conc-iter", Quick: 120, Thorough: 6000, Fn: concIterCase},
	},
	Floors: floors(),
}

func floors() map[string]int64 {
	f := map[string]int64{
		"iter64_bitmaps":                      1000,
		"iter64_nontrivial_bitmaps":           500,
		"iter1024_bitmaps":                    200,
		"iter1024_multiword_bitmaps":          100,
		"iter1024_mixed_branch_runs":          100,
		"iter1024_words_dense":                1000,
		"iter1024_words_sparse":               1000,
		"n_negative":                          1000,
		"n_zero":                              1000,
		"n_lt_len":                            1000,
		"n_eq_len":                            1000,
		"n_gt_len":                            1000,
		"b64_set_inrange":                     1000,
		"b64_set_outofrange":                  1000,
		"b64_unset_inrange":                   1000,
		"b64_unset_outofrange":                1000,
		"b64_unset_changes_membership":        500,
		"b64_full_true":                       20,
		"b1024_negative_in_word0_quotient":    200,
		"algebra_and":                         1000,
		"algebra_or":                          1000,
		"algebra_reverse":                     500,
		"algebra_orthenreverse":               1000,
		"algebra_equal_true":                  500,
		"algebra_equal_false":                 500,
		"algebra_unequal_by_one_bit":          100,
		"algebra_unequal_only_in_last_word":   20,
		"algebra_unequal_same_word_popcounts": 50,
		"algebra_bit64_ops":                   1000,
	}
	for _, op := range []string{"seti16", "seti32", "unseti16", "unseti32"} {
		f["b1024_"+op+"_inrange"] = 500
		f["b1024_"+op+"_negative"] = 200
		f["b1024_"+op+"_ge1024"] = 200
	}
	for _, w := range []string{"I8", "I16", "I32", "U32", "I64"} {
		for _, d := range []string{"Iter", "RIter"} {
			f["Bit64."+d+"As"+w+".dense"] = 1000
			f["Bit64."+d+"As"+w+".sparse"] = 1000
			if w != "I8" {
				f["Bit1024."+d+"As"+w] = 1000
			}
		}
		if w != "U32" {
			f["Bit64.GetNAs"+w+".dense"] = 200
			f["Bit64.GetNAs"+w+".sparse"] = 200
			f["Bit64.RGetNAs"+w+".dense"] = 200
			f["Bit64.RGetNAs"+w+".sparse"] = 200
			if w != "I8" {
				f["Bit1024.GetNAs"+w] = 200
				f["Bit1024.RGetNAs"+w] = 200
			}
		}
	}
	return f
}

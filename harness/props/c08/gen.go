package c08

import (
	"fmt"
	"math"
	"math/rand"
	"strings"
)

// fixedThresholds are the sparse/dense thresholds every iteration input is run under
// (design section); one more value is drawn per bitmap from extraThreshold.
var fixedThresholds = []int32{-1, 0, 1, 8, 9, 10, 63, 64}

const defaultMagic int32 = 9

func extraThreshold(r *rand.Rand) int32 {
	switch r.Intn(6) {
	case 0:
		return math.MinInt32
	case 1:
		return math.MaxInt32
	case 2:
		return 65 + int32(r.Intn(1000))
	case 3:
		return -2 - int32(r.Intn(1000))
	default:
		return int32(r.Intn(63)) + 2 // 2..64
	}
}

// set64 / set1024 are the boolean-array models.
type set64 [64]bool
type set1024 [1024]bool

func (s *set64) members() []int {
	out := make([]int, 0, 64)
	for i, b := range s {
		if b {
			out = append(out, i)
		}
	}
	return out
}

func (s *set1024) members() []int {
	out := make([]int, 0, 64)
	for i, b := range s {
		if b {
			out = append(out, i)
		}
	}
	return out
}

func (s *set1024) word(i int) (w set64) {
	copy(w[:], s[i*64:i*64+64])
	return
}

func (s *set1024) setWord(i int, w set64) { copy(s[i*64:i*64+64], w[:]) }

// popcounts the generator aims at: at, one below and one above every fixed threshold.
var edgePop = []int{0, 1, 2, 7, 8, 9, 10, 11, 62, 63, 64}

func randK(r *rand.Rand, k int) (w set64) {
	if k > 64 {
		k = 64
	}
	p := r.Perm(64)
	for _, i := range p[:k] {
		w[i] = true
	}
	return
}

// genWord draws one 64-bit set with the boundary bias of the design: empty, full, single
// bit, popcount at/around the thresholds, bits 0 and 63, dense runs, sparse and dense
// random fills. The returned tag names the shape (coverage counter).
func genWord(r *rand.Rand) (w set64, tag string) {
	switch r.Intn(16) {
	case 0:
		return w, "empty"
	case 1:
		for i := range w {
			w[i] = true
		}
		return w, "full"
	case 2:
		i := []int{0, 63, 1, 62, r.Intn(64), r.Intn(64)}[r.Intn(6)]
		w[i] = true
		return w, "single"
	case 3, 4, 5, 6:
		return randK(r, edgePop[r.Intn(len(edgePop))]), "edge_popcount"
	case 7:
		a := r.Intn(64)
		b := a + 1 + r.Intn(64-a)
		for i := a; i < b; i++ {
			w[i] = true
		}
		return w, "run"
	case 8:
		w = randK(r, r.Intn(12))
		w[0], w[63] = true, true
		return w, "ends"
	case 9:
		for i := range w {
			w[i] = true
		}
		for j := 1 + r.Intn(4); j > 0; j-- {
			w[[]int{0, 63, r.Intn(64), r.Intn(64)}[r.Intn(4)]] = false
		}
		return w, "nearly_full"
	case 10, 11:
		return randK(r, r.Intn(65)), "random_popcount"
	case 12:
		x := r.Uint64() & r.Uint64() & r.Uint64()
		for i := range w {
			w[i] = x>>uint(i)&1 == 1
		}
		return w, "sparse_random"
	case 13:
		x := r.Uint64() | r.Uint64() | r.Uint64()
		for i := range w {
			w[i] = x>>uint(i)&1 == 1
		}
		return w, "dense_random"
	default:
		x := r.Uint64()
		for i := range w {
			w[i] = x>>uint(i)&1 == 1
		}
		return w, "uniform"
	}
}

// gen1024 draws one 1024-bit set: independent structured words, mostly-empty bitmaps,
// bits at word boundaries, runs crossing words, every word at an edge popcount.
func gen1024(r *rand.Rand) (s set1024, tag string) {
	switch r.Intn(14) {
	case 0:
		return s, "empty"
	case 1:
		for i := range s {
			s[i] = true
		}
		return s, "full"
	case 2:
		k := r.Intn(17)
		i := 64*k - r.Intn(2)
		if i < 0 {
			i = 0
		}
		if i > 1023 {
			i = 1023
		}
		s[i] = true
		return s, "single_at_word_boundary"
	case 3:
		for j := 1 + r.Intn(4); j > 0; j-- {
			k := 1 + r.Intn(15)
			s[64*k-1] = true
			s[64*k] = true
		}
		return s, "boundary_pairs"
	case 4, 5:
		// few non-empty words, the rest empty: exercises skipping and the cursor/left chain
		for j := 1 + r.Intn(3); j > 0; j-- {
			w, _ := genWord(r)
			s.setWord(r.Intn(16), w)
		}
		return s, "few_words"
	case 6:
		a := r.Intn(1024)
		b := a + 1 + r.Intn(1024-a)
		for i := a; i < b; i++ {
			s[i] = true
		}
		return s, "run_across_words"
	case 7:
		p := edgePop[r.Intn(len(edgePop))]
		for i := 0; i < 16; i++ {
			q := p + r.Intn(3) - 1
			if q < 0 {
				q = 0
			}
			s.setWord(i, randK(r, q))
		}
		return s, "all_words_edge_popcount"
	case 8:
		// only the first and/or the last word populated
		if r.Intn(3) != 0 {
			w, _ := genWord(r)
			s.setWord(0, w)
		}
		if r.Intn(3) != 0 {
			w, _ := genWord(r)
			s.setWord(15, w)
		}
		s[[]int{0, 1023}[r.Intn(2)]] = true
		return s, "first_last_word"
	case 9:
		for i := range s {
			s[i] = true
		}
		for j := 1 + r.Intn(5); j > 0; j-- {
			s[[]int{0, 1023, 63, 64, r.Intn(1024)}[r.Intn(5)]] = false
		}
		return s, "nearly_full"
	case 10:
		for j := r.Intn(64); j > 0; j-- {
			s[r.Intn(1024)] = true
		}
		return s, "scattered_lt64"
	default:
		for i := 0; i < 16; i++ {
			w, _ := genWord(r)
			s.setWord(i, w)
		}
		return s, "structured_words"
	}
}

// fmtSet prints a member list as compressed ranges: {0-10,63,64,1016-1023}.
func fmtSet(m []int) string {
	var sb strings.Builder
	sb.WriteByte('{')
	for i := 0; i < len(m); {
		j := i
		for j+1 < len(m) && m[j+1] == m[j]+1 {
			j++
		}
		if sb.Len() > 1 {
			sb.WriteByte(',')
		}
		if j == i {
			fmt.Fprintf(&sb, "%d", m[i])
		} else {
			fmt.Fprintf(&sb, "%d-%d", m[i], m[j])
		}
		i = j + 1
	}
	sb.WriteByte('}')
	return sb.String()
}

// fmtSetShort is fmtSet capped for the routine (non-failing) trace lines.
func fmtSetShort(m []int) string {
	s := fmtSet(m)
	if len(s) > 200 {
		return fmt.Sprintf("%s...,%d} (Len %d)", s[:180], m[len(m)-1], len(m))
	}
	return s
}

func sameInts(a, b []int) bool {
	if len(a) != len(b) {
		return false
	}
	for i := range a {
		if a[i] != b[i] {
			return false
		}
	}
	return true
}

// tally collects coverage counters locally and flushes them once per case.
type tally map[string]int64

func (t tally) add(name string, n int64) { t[name] += n }

package c17

import (
	"fmt"
	"math"
	"math/big"
	"math/rand"
	"sync"

	"github.com/cespare/xxhash/v2"
	"github.com/pinealctx/neptune/remap"
)

// ---------------------------------------------------------------- key types of the harness

// hitID implements remap.HitGroup only (supported on the modulo route only).
type hitID uint64

func (h hitID) Hit() uint64 { return uint64(h) }

// hitPair implements remap.HitGroup only; Hit mixes both fields and wraps around 2^64.
type hitPair struct {
	A int32
	B string
}

func (h hitPair) Hit() uint64 { return uint64(int64(h.A))*0x9E3779B97F4A7C15 + uint64(len(h.B)) }

// bsKey implements remap.Bs only (hash route; the modulo route falls through to it).
type bsKey struct{ S string }

func (b bsKey) ToBytes() []byte { return []byte(b.S) }

// bsArr implements remap.Bs only.
type bsArr [6]byte

func (b bsArr) ToBytes() []byte { return append([]byte(nil), b[:]...) }

// dualKey implements both: modulo route = Hit, hash route = ToBytes.
type dualKey struct {
	ID uint64
	S  string
}

func (d dualKey) Hit() uint64     { return d.ID }
func (d dualKey) ToBytes() []byte { return []byte(d.S) }

// ---------------------------------------------------------------- key descriptor + model

type keyT struct {
	v    interface{}
	kind string
	repr string

	isInt  bool
	neg    bool   // signed integer with a negative value
	sext   uint64 // uint64(v): two's complement, sign-extended to 64 bits
	zext   uint64 // the value's own-width bit pattern, zero-extended
	sval   int64  // the signed value (signed kinds)
	hasHit bool
	hit    uint64
	// hash route
	hashable bool   // supported by the hash route (integers, strings, byte slices, Bs)
	bytes    []byte // the bytes hashed for string / []byte / Bs (integers: nil)
	hasBytes bool
	cmp      bool // comparable (usable as a container key)
}

var intKinds = []string{"uint8", "int8", "int16", "uint16", "int32", "uint32", "int64", "uint64", "int", "uint"}

func widthOf(kind string) (bits uint, signed bool) {
	switch kind {
	case "uint8":
		return 8, false
	case "int8":
		return 8, true
	case "int16":
		return 16, true
	case "uint16":
		return 16, false
	case "int32":
		return 32, true
	case "uint32":
		return 32, false
	case "int64", "int":
		return 64, true
	}
	return 64, false
}

// mkInt builds the integer key of the given kind whose bit pattern is raw truncated to
// the kind's width.
func mkInt(kind string, raw uint64) keyT {
	bits, signed := widthOf(kind)
	var mask uint64 = math.MaxUint64
	if bits < 64 {
		mask = (uint64(1) << bits) - 1
	}
	z := raw & mask
	k := keyT{kind: kind, isInt: true, hashable: true, cmp: true, zext: z}
	if signed {
		var s int64
		switch bits {
		case 8:
			s = int64(int8(z))
		case 16:
			s = int64(int16(z))
		case 32:
			s = int64(int32(z))
		default:
			s = int64(z)
		}
		k.sval = s
		k.neg = s < 0
		k.sext = uint64(s)
		k.repr = fmt.Sprintf("%s(%d)", kind, s)
	} else {
		k.sext = z
		k.repr = fmt.Sprintf("%s(%d)", kind, z)
	}
	switch kind {
	case "uint8":
		k.v = uint8(z)
	case "int8":
		k.v = int8(z)
	case "int16":
		k.v = int16(z)
	case "uint16":
		k.v = uint16(z)
	case "int32":
		k.v = int32(z)
	case "uint32":
		k.v = uint32(z)
	case "int64":
		k.v = int64(z)
	case "uint64":
		k.v = z
	case "int":
		k.v = int(int64(z))
	case "uint":
		k.v = uint(z)
	}
	return k
}

func mkString(s string) keyT {
	return keyT{v: s, kind: "string", repr: fmt.Sprintf("string(%q)", clip(s)), hashable: true, bytes: []byte(s), hasBytes: true, cmp: true}
}

func mkBytes(b []byte) keyT {
	return keyT{v: b, kind: "bytes", repr: fmt.Sprintf("[]byte(%q)", clip(string(b))), hashable: true, bytes: append([]byte(nil), b...), hasBytes: true}
}

func mkHitID(x uint64) keyT {
	return keyT{v: hitID(x), kind: "hitID", repr: fmt.Sprintf("hitID(%d)", x), hasHit: true, hit: x, cmp: true}
}

func mkHitPair(a int32, b string) keyT {
	p := hitPair{a, b}
	return keyT{v: p, kind: "hitPair", repr: fmt.Sprintf("hitPair{%d,%q}", a, clip(b)), hasHit: true, hit: p.Hit(), cmp: true}
}

func mkBsKey(s string) keyT {
	return keyT{v: bsKey{s}, kind: "bsKey", repr: fmt.Sprintf("bsKey{%q}", clip(s)), hashable: true, bytes: []byte(s), hasBytes: true, cmp: true}
}

func mkBsArr(b [6]byte) keyT {
	return keyT{v: bsArr(b), kind: "bsArr", repr: fmt.Sprintf("bsArr{%x}", b[:]), hashable: true, bytes: append([]byte(nil), b[:]...), hasBytes: true, cmp: true}
}

func mkDual(id uint64, s string) keyT {
	return keyT{v: dualKey{id, s}, kind: "dualKey", repr: fmt.Sprintf("dualKey{%d,%q}", id, clip(s)), hasHit: true, hit: id, hashable: true, bytes: []byte(s), hasBytes: true, cmp: true}
}

func clip(s string) string {
	if len(s) > 24 {
		return s[:24] + fmt.Sprintf("…(+%d)", len(s)-24)
	}
	return s
}

// modelShard is the index of the first boundary >= h of the even partition of the
// 64-bit range into n parts (boundaries y, 2y, …, (n-1)y, 2^64-1 with y = (2^64-1)/n),
// computed arithmetically, i.e. without any table or search.
func modelShard(h uint64, n uint64) int {
	y := uint64(math.MaxUint64) / n
	q, r := h/y, h%y
	i := q
	if r == 0 && q > 0 {
		i = q - 1
	}
	if i > n-1 {
		i = n - 1
	}
	return int(i)
}

// bigBoundaries computes the n boundaries with math/big.
func bigBoundaries(n uint64) []uint64 {
	max := new(big.Int).SetUint64(math.MaxUint64)
	y := new(big.Int).Div(max, new(big.Int).SetUint64(n))
	out := make([]uint64, n)
	t := new(big.Int)
	for i := uint64(0); i < n; i++ {
		t.Mul(y, new(big.Int).SetUint64(i+1))
		if !t.IsUint64() {
			panic("harness: model boundary exceeds 64 bits")
		}
		out[i] = t.Uint64()
	}
	out[n-1] = math.MaxUint64
	return out
}

// firstGE: index of the first boundary >= h (own binary search; n if none).
func firstGE(b []uint64, h uint64) int {
	lo, hi := 0, len(b)
	for lo < hi {
		m := lo + (hi-lo)/2
		if b[m] < h {
			lo = m + 1
		} else {
			hi = m
		}
	}
	return lo
}

// simpleWant returns the set of acceptable modulo-route indices of key for n shards and
// whether the expectation is by the hash route (then the set is empty and hashWant
// applies).
func (k *keyT) simpleWant(n uint64) (want []int, viaHash bool) {
	switch {
	case k.isInt && !k.neg:
		return []int{int(k.sext % n)}, false
	case k.isInt:
		// "modulo shards" of a negative value is ambiguous in the statement: accept the
		// 64-bit two's complement reading (what the code does), the own-width unsigned
		// reading and the mathematical (floored) modulo.
		m := k.sval % int64(n)
		if m < 0 {
			m += int64(n)
		}
		return uniq([]int{int(k.sext % n), int(k.zext % n), int(m)}), false
	case k.hasHit:
		return []int{int(k.hit % n)}, false
	}
	return nil, true
}

func uniq(a []int) []int {
	out := a[:0]
	for _, x := range a {
		dup := false
		for _, y := range out {
			if x == y {
				dup = true
			}
		}
		if !dup {
			out = append(out, x)
		}
	}
	return out
}

func inSet(x int, s []int) bool {
	for _, y := range s {
		if x == y {
			return true
		}
	}
	return false
}

// hashOf is the independent hash of a string / byte slice / Bs key.
func (k *keyT) hashOf() uint64 { return xxhash.Sum64(k.bytes) }

// ---------------------------------------------------------------- shard counts

var listedShards = []uint64{1, 2, 3, 4, 7, 8, 64, 73, 100, 211, 1024, 65537}

var (
	rmMu    sync.Mutex
	rmCache = map[uint64]*remap.ReMap{}
)

func isListed(n uint64) bool {
	for _, x := range listedShards {
		if x == n {
			return true
		}
	}
	return false
}

// getReMap returns the ReMap for n shards (cached for the listed counts: a ReMap is
// immutable after construction).
func getReMap(n uint64) *remap.ReMap {
	if !isListed(n) {
		return remap.NewReMap(remap.WithPrime(n))
	}
	rmMu.Lock()
	defer rmMu.Unlock()
	r, ok := rmCache[n]
	if !ok {
		r = remap.NewReMap(remap.WithPrime(n))
		rmCache[n] = r
	}
	return r
}

// pickShards: the listed counts most of the time, otherwise a random count.
func pickShards(r *rand.Rand) uint64 {
	switch x := r.Intn(100); {
	case x < 72:
		return listedShards[r.Intn(len(listedShards))]
	case x < 94:
		return uint64(1 + r.Intn(300))
	default:
		return uint64(301 + r.Intn(4700))
	}
}

// pickContainerShards: shard count of a sharded container (0 = constructor default, 73).
func pickContainerShards(r *rand.Rand) uint64 {
	switch x := r.Intn(100); {
	case x < 8:
		return 0
	case x < 70:
		return listedShards[r.Intn(len(listedShards)-2)] // up to 211
	case x < 74:
		return 1024
	default:
		return uint64(1 + r.Intn(40))
	}
}

// ---------------------------------------------------------------- generators

var strLens = []int{0, 1, 2, 3, 4, 5, 7, 8, 9, 15, 16, 17, 31, 32, 33, 63, 64, 65, 100, 257}

func genString(r *rand.Rand) string {
	var n int
	if r.Intn(3) == 0 {
		n = strLens[r.Intn(len(strLens))]
	} else {
		n = r.Intn(20)
	}
	b := make([]byte, n)
	if r.Intn(2) == 0 {
		for i := range b {
			b[i] = byte('a' + r.Intn(26))
		}
	} else {
		r.Read(b)
	}
	return string(b)
}

// genRaw: a 64-bit pattern with the boundary bias of the design: zero, ±1, the extremes
// of every width, values around the shard count and its multiples, negatives of those.
func genRaw(r *rand.Rand, n uint64) uint64 {
	switch r.Intn(16) {
	case 0:
		return 0
	case 1:
		return 1
	case 2:
		return math.MaxUint64 // -1 / the unsigned maximum of any width
	case 3: // signed minimum / maximum of a width, ±1
		w := []uint{8, 16, 32, 64}[r.Intn(4)]
		return (uint64(1) << (w - 1)) + uint64(r.Intn(3)) - 1
	case 4: // unsigned maximum of a width, ±1
		w := []uint{8, 16, 32}[r.Intn(3)]
		return (uint64(1) << w) + uint64(r.Intn(3)) - 2
	case 5:
		return n - 1
	case 6:
		return n + uint64(r.Intn(2))
	case 7: // around a multiple of n
		q := uint64(r.Intn(1 << 20))
		return q*n + uint64(r.Intn(3)) - 1
	case 8: // negative of a small value around n
		return -(n + uint64(r.Intn(3)) - 1)
	case 9: // negative small
		return -uint64(1 + r.Intn(1000))
	case 10: // small
		return uint64(r.Intn(int(4*n) + 4))
	case 11: // large 64-bit with the top bit set
		return r.Uint64() | 1<<63
	case 12: // just below 2^63 / 2^64
		return math.MaxUint64>>uint(r.Intn(2)) - uint64(r.Intn(5))
	}
	return r.Uint64() >> uint(r.Intn(64))
}

func genIntKey(r *rand.Rand, n uint64) keyT {
	return mkInt(intKinds[r.Intn(len(intKinds))], genRaw(r, n))
}

// genKey draws a key of any supported kind. comparableOnly excludes byte slices;
// hashRoute excludes the kinds that implement HitGroup only.
func genKey(r *rand.Rand, n uint64, comparableOnly, hashRoute bool) keyT {
	for {
		switch x := r.Intn(20); {
		case x < 9:
			return genIntKey(r, n)
		case x < 12:
			return mkString(genString(r))
		case x < 14:
			if comparableOnly {
				continue
			}
			if b := []byte(genString(r)); len(b) > 0 || r.Intn(2) == 0 {
				return mkBytes(b)
			}
			return mkBytes(nil) // a nil slice is a byte slice too
		case x < 15:
			if hashRoute {
				continue
			}
			return mkHitID(genRaw(r, n))
		case x < 16:
			if hashRoute {
				continue
			}
			return mkHitPair(int32(genRaw(r, n)), genString(r))
		case x < 17:
			return mkBsKey(genString(r))
		case x < 18:
			var a [6]byte
			r.Read(a[:])
			return mkBsArr(a)
		default:
			return mkDual(genRaw(r, n), genString(r))
		}
	}
}

// genHash: a 64-bit hash value biased to the partition boundaries of n.
func genHash(r *rand.Rand, n uint64) uint64 {
	y := uint64(math.MaxUint64) / n
	switch r.Intn(8) {
	case 0:
		return uint64(r.Intn(3))
	case 1:
		return math.MaxUint64 - uint64(r.Intn(3))
	case 2, 3, 4: // around a boundary (including the one below the forced last boundary)
		var i uint64
		switch r.Intn(4) {
		case 0:
			i = 1
		case 1:
			i = n
		case 2:
			i = n - 1
			if i == 0 {
				i = 1
			}
		default:
			i = 1 + uint64(r.Int63n(int64(n)))
		}
		return y*i + uint64(r.Intn(3)) - 1
	}
	return r.Uint64()
}

// edgeString searches a short string whose hash-route shard (by the model) is `want`.
func edgeString(r *rand.Rand, n uint64, want int, tries int) (string, bool) {
	base := r.Intn(1 << 30)
	for j := 0; j < tries; j++ {
		s := fmt.Sprintf("e%d-%d", base, j)
		if modelShard(xxhash.Sum64String(s), n) == want {
			return s, true
		}
	}
	return "", false
}

package c17

import (
	"context"
	"fmt"
	"math/rand"

	"verifh/engine"

	"github.com/pinealctx/neptune/remap"
	"github.com/pinealctx/neptune/syncx/keylock"
	"github.com/pinealctx/neptune/syncx/semap"
)

// ---------------------------------------------------------------- key lockers

// lockAPI abstracts the four locker implementations (K = interface{} for the untyped ones).
type lockAPI[K comparable] struct {
	lock, unlock, rlock, runlock     func(K)
	locks, unlocks, rlocks, runlocks func([]K) // nil: no multi-key operations
	counts                           func(K) (int, int, bool)
	entries                          func() int
}

type lockSt struct {
	r int
	w bool
}

type lockKey[K comparable] struct {
	key  K
	repr string
}

// lockDrive runs one never-blocking lock/unlock program on the sharded and the unsharded
// locker and compares the per-key reader/writer counts and the number of entries kept
// after every step.
func lockDrive[K comparable](k *engine.Case, name string, grp, single lockAPI[K], pool []lockKey[K]) {
	r := k.R
	st := make([]lockSt, len(pool))
	// check compares the observable state of key i; false = stop the case
	check := func(i int, when string) bool {
		gr, gw, gp := grp.counts(pool[i].key)
		sr, sw, sp := single.counts(pool[i].key)
		if gr != sr || gw != sw || gp != sp {
			k.Logf("%s: key %s sharded (readers=%d writers=%d present=%v) unsharded (readers=%d writers=%d present=%v)", when, pool[i].repr, gr, gw, gp, sr, sw, sp)
			k.Fail("lock-state", "%s: %s key %s: sharded locker holds (readers=%d writers=%d present=%v), unsharded (readers=%d writers=%d present=%v)",
				name, when, pool[i].repr, gr, gw, gp, sr, sw, sp)
			return false
		}
		mw := 0
		if st[i].w {
			mw = 1
		}
		if sr != st[i].r || sw != mw || sp != (st[i].r > 0 || st[i].w) {
			// the unsharded locker itself deviates from the harness model: not this
			// property's subject, and continuing could block
			k.Inconclusive("unsharded key locker deviates from the harness model")
			return false
		}
		return true
	}
	entries := func(when string) bool {
		ge, se := grp.entries(), single.entries()
		if ge != se {
			k.Logf("%s: entries sharded=%d unsharded=%d", when, ge, se)
			k.Fail("lock-state", "%s: %s: sharded locker keeps %d entries, unsharded %d", name, when, ge, se)
			return false
		}
		return true
	}
	sel := func(pred func(lockSt) bool) []int {
		var out []int
		for i := range st {
			if pred(st[i]) {
				out = append(out, i)
			}
		}
		return out
	}
	subset := func(c []int, max int) []int {
		r.Shuffle(len(c), func(a, b int) { c[a], c[b] = c[b], c[a] })
		m := 1 + r.Intn(max)
		if m > len(c) {
			m = len(c)
		}
		return c[:m]
	}
	keysOf := func(ix []int) ([]K, string) {
		ks := make([]K, len(ix))
		s := ""
		for j, i := range ix {
			ks[j] = pool[i].key
			if j > 0 {
				s += ","
			}
			s += pool[i].repr
		}
		return ks, s
	}
	free := func(s lockSt) bool { return s.r == 0 && !s.w }
	noW := func(s lockSt) bool { return !s.w }
	hasW := func(s lockSt) bool { return s.w }
	hasR := func(s lockSt) bool { return s.r > 0 }
	multi := grp.locks != nil
	nops := 30 + r.Intn(70)
	step := func(op int) bool {
		switch op {
		case 0: // Lock
			c := sel(free)
			if len(c) == 0 {
				return true
			}
			i := c[r.Intn(len(c))]
			if !check(i, "before Lock") {
				return false
			}
			grp.lock(pool[i].key)
			single.lock(pool[i].key)
			st[i].w = true
			k.Logf("Lock(%s)", pool[i].repr)
			k.Count("lock_lock", 1)
			return check(i, "after Lock")
		case 1: // RLock (possibly beside other readers)
			c := sel(noW)
			if len(c) == 0 {
				return true
			}
			i := c[r.Intn(len(c))]
			if !check(i, "before RLock") {
				return false
			}
			grp.rlock(pool[i].key)
			single.rlock(pool[i].key)
			st[i].r++
			if st[i].r > 1 {
				k.Count("lock_shared_readers", 1)
			}
			k.Logf("RLock(%s)", pool[i].repr)
			k.Count("lock_rlock", 1)
			return check(i, "after RLock")
		case 2: // Unlock
			c := sel(hasW)
			if len(c) == 0 {
				return true
			}
			i := c[r.Intn(len(c))]
			grp.unlock(pool[i].key)
			single.unlock(pool[i].key)
			st[i].w = false
			k.Logf("Unlock(%s)", pool[i].repr)
			k.Count("lock_unlock", 1)
			return check(i, "after Unlock")
		case 3: // RUnlock
			c := sel(hasR)
			if len(c) == 0 {
				return true
			}
			i := c[r.Intn(len(c))]
			grp.runlock(pool[i].key)
			single.runlock(pool[i].key)
			st[i].r--
			k.Logf("RUnlock(%s)", pool[i].repr)
			k.Count("lock_runlock", 1)
			return check(i, "after RUnlock")
		case 4, 5: // Locks / RLocks on distinct keys
			if !multi {
				return true
			}
			pred, nm := free, "Locks"
			if op == 5 {
				pred, nm = noW, "RLocks"
			}
			c := sel(pred)
			if len(c) == 0 {
				return true
			}
			ix := subset(c, 5)
			if op == 5 && r.Intn(3) == 0 {
				// a read lock may be taken several times by one call: the unsharded locker
				// counts every occurrence of a repeated key, so must the sharded one
				ix = append([]int(nil), ix...)
				for n := 1 + r.Intn(2); n > 0; n-- {
					ix = append(ix, ix[r.Intn(len(ix))])
				}
				r.Shuffle(len(ix), func(a, b int) { ix[a], ix[b] = ix[b], ix[a] })
				k.Count("lock_multi_acquire_repeated_key", 1)
			}
			for _, i := range ix {
				if !check(i, "before "+nm) {
					return false
				}
			}
			ks, s := keysOf(ix)
			if op == 4 {
				grp.locks(ks)
				single.locks(ks)
			} else {
				grp.rlocks(ks)
				single.rlocks(ks)
			}
			for _, i := range ix {
				if op == 4 {
					st[i].w = true
				} else {
					st[i].r++
				}
			}
			k.Logf("%s([%s])", nm, s)
			k.Count("lock_multi_acquire", 1)
			if len(ix) > 1 {
				k.Count("lock_multi_acquire_several_keys", 1)
			}
			for _, i := range ix {
				if !check(i, "after "+nm) {
					return false
				}
			}
			return true
		default: // Unlocks / RUnlocks (any set of held keys, not necessarily one Locks set)
			if !multi {
				return true
			}
			pred, nm := hasW, "Unlocks"
			if op == 7 {
				pred, nm = hasR, "RUnlocks"
			}
			c := sel(pred)
			if len(c) == 0 {
				return true
			}
			ix := subset(c, 5)
			if op == 7 && r.Intn(3) == 0 {
				// release a key as often as it is read-held in one call
				ix = append([]int(nil), ix...)
				for _, i := range ix[:len(ix):len(ix)] {
					if st[i].r >= 2 && r.Intn(2) == 0 {
						ix = append(ix, i)
						k.Count("lock_multi_release_repeated_key", 1)
					}
				}
			}
			ks, s := keysOf(ix)
			if op == 6 {
				grp.unlocks(ks)
				single.unlocks(ks)
			} else {
				grp.runlocks(ks)
				single.runlocks(ks)
			}
			for _, i := range ix {
				if op == 6 {
					st[i].w = false
				} else {
					st[i].r--
				}
			}
			k.Logf("%s([%s])", nm, s)
			k.Count("lock_multi_release", 1)
			for _, i := range ix {
				if !check(i, "after "+nm) {
					return false
				}
			}
			return true
		}
	}
	for i := 0; i < nops; i++ {
		op := r.Intn(8)
		if !multi {
			op = r.Intn(4)
		}
		if !step(op) || !entries(fmt.Sprintf("after step %d", i)) {
			return
		}
	}
	// release everything still held (single-key calls), then nothing may be left over
	// in one and not the other
	for i := range st {
		for st[i].r > 0 {
			grp.runlock(pool[i].key)
			single.runlock(pool[i].key)
			st[i].r--
		}
		if st[i].w {
			grp.unlock(pool[i].key)
			single.unlock(pool[i].key)
			st[i].w = false
		}
		if !check(i, "after final release") {
			return
		}
	}
	k.Logf("released everything: entries sharded=%d unsharded=%d", grp.entries(), single.entries())
	if !entries("after final release") {
		return
	}
	k.Count("lock_cases", 1)
	k.Count("lock_ops", int64(nops))
}

// accountPool records shard coverage of a lock/semaphore key pool (observed routing).
func accountPool(k *engine.Case, tag string, rt route, shardOf func(i int) int, n int) {
	shards := map[int]bool{}
	for i := 0; i < n; i++ {
		s := shardOf(i)
		shards[s] = true
		if rt.eff() > 1 && s == int(rt.eff())-1 {
			k.Count(tag+"_last_shard_key", 1)
		}
	}
	if len(shards) >= 2 {
		k.Count(tag+"_cases_multi_shard", 1)
		k.Nontrivial()
	}
}

func untypedLockCase(k *engine.Case, rt route) {
	var g keylock.Locker
	if rt.xhash {
		g = keylock.NewXHashKeyLockeGrp(rt.opts()...)
	} else {
		g = keylock.NewKeyLockeGrp(rt.opts()...)
	}
	grp, ok := g.(*keylock.KeyLockerGrp)
	if !ok {
		k.Inconclusive("keylock group constructor returned an unknown type")
		return
	}
	single := keylock.NewKeyLockerInstance()
	name := "KeyLockerGrp " + rt.String()
	k.Logf("%s vs KeyLocker", name)
	kp := genPool(k, rt, 3+k.R.Intn(10), "lock")
	pool := make([]lockKey[interface{}], len(kp))
	for i := range kp {
		pool[i] = lockKey[interface{}]{kp[i].v, kp[i].repr}
	}
	lockDrive[interface{}](k, name,
		lockAPI[interface{}]{lock: grp.Lock, unlock: grp.Unlock, rlock: grp.RLock, runlock: grp.RUnlock, counts: grp.VerifKeyCounts, entries: grp.VerifEntries},
		lockAPI[interface{}]{lock: single.Lock, unlock: single.Unlock, rlock: single.RLock, runlock: single.RUnlock, counts: single.VerifKeyCounts, entries: single.VerifEntries},
		pool)
	k.Count("lock_cases_untyped", 1)
}

func typedLockCase[T comparable](k *engine.Case, rt route, tname string, gen func(r *rand.Rand, n uint64) T) {
	var g keylock.TLocker[T]
	if rt.xhash {
		g = keylock.NewTXHashTKeyLockeGrp[T](rt.opts()...)
	} else {
		g = keylock.NewTKeyLockeGrp[T](rt.opts()...)
	}
	grp, ok := g.(*keylock.TKeyLockerGrp[T])
	if !ok {
		k.Inconclusive("typed keylock group constructor returned an unknown type")
		return
	}
	single := keylock.NewTKeyLockerInstance[T]()
	name := fmt.Sprintf("TKeyLockerGrp[%s] %s", tname, rt)
	k.Logf("%s vs TKeyLocker", name)
	want := 3 + k.R.Intn(10)
	seen := map[T]bool{}
	var pool []lockKey[T]
	for tries := 0; len(pool) < want && tries < 20*want; tries++ {
		key := gen(k.R, rt.eff())
		if !seen[key] {
			seen[key] = true
			pool = append(pool, lockKey[T]{key, tname + "(" + plain(fmt.Sprint(key)) + ")"})
		}
	}
	accountPool(k, "lock", rt, func(i int) int { return grp.VerifShard(pool[i].key) }, len(pool))
	lockDrive[T](k, name,
		lockAPI[T]{lock: grp.Lock, unlock: grp.Unlock, rlock: grp.RLock, runlock: grp.RUnlock,
			locks: grp.Locks, unlocks: grp.Unlocks, rlocks: grp.RLocks, runlocks: grp.RUnlocks,
			counts: grp.VerifKeyCounts, entries: grp.VerifEntries},
		lockAPI[T]{lock: single.Lock, unlock: single.Unlock, rlock: single.RLock, runlock: single.RUnlock,
			locks: single.Locks, unlocks: single.Unlocks, rlocks: single.RLocks, runlocks: single.RUnlocks,
			counts: single.VerifKeyCounts, entries: single.VerifEntries},
		pool)
	k.Count("lock_cases_typed_"+tname, 1)
}

func keyLockCase(k *engine.Case) {
	r := k.R
	rt := pickRoute(r)
	switch r.Intn(9) {
	case 0, 1, 2:
		untypedLockCase(k, rt)
	case 3:
		typedLockCase[int](k, rt, "int", func(r *rand.Rand, n uint64) int { return int(int64(genRaw(r, n))) })
	case 4:
		typedLockCase[int64](k, rt, "int64", func(r *rand.Rand, n uint64) int64 { return int64(genRaw(r, n)) })
	case 5:
		typedLockCase[uint16](k, rt, "uint16", func(r *rand.Rand, n uint64) uint16 { return uint16(genRaw(r, n)) })
	case 6:
		typedLockCase[string](k, rt, "string", func(r *rand.Rand, n uint64) string { return genString(r) })
	case 7:
		if rt.xhash { // a HitGroup-only type is supported on the modulo route only
			typedLockCase[bsKey](k, rt, "bsKey", func(r *rand.Rand, n uint64) bsKey { return bsKey{genString(r)} })
		} else {
			typedLockCase[hitID](k, rt, "hitID", func(r *rand.Rand, n uint64) hitID { return hitID(genRaw(r, n)) })
		}
	default:
		typedLockCase[dualKey](k, rt, "dualKey", func(r *rand.Rand, n uint64) dualKey { return dualKey{genRaw(r, n), genString(r)} })
	}
}

// ---------------------------------------------------------------- semaphore maps

type semHold struct {
	key    int
	write  bool
	ww, sw *semap.Weighted
}

func semapCase(k *engine.Case) {
	r := k.R
	rt := pickRoute(r)
	ratio := []int{1, 2, 3, 10}[r.Intn(4)]
	opts := []semap.Option{semap.WithRwRatio(ratio)}
	if rt.n != 0 {
		opts = append(opts, semap.WithPrime(rt.n))
	}
	var wide semap.SemMapper
	if rt.xhash {
		wide = semap.NewWideXHashSemMap(opts...)
	} else {
		wide = semap.NewWideSemMap(opts...)
	}
	single := semap.NewSemMap(semap.WithRwRatio(ratio))
	name := fmt.Sprintf("WideSemMap %s rwRatio=%d", rt, ratio)
	k.Logf("%s vs SemMap", name)
	pool := genPool(k, rt, 3+r.Intn(8), "sem")
	held := make([]int, len(pool)) // tokens held per key by the harness model
	var holds []semHold
	cancelled, cancel := context.WithCancel(context.Background())
	cancel()
	state := func(i int, when string) bool {
		wh, ww, wp := semap.VerifKeyState(wide, pool[i].v)
		sh, sw, sp := semap.VerifKeyState(single, pool[i].v)
		if wh != sh || ww != sw || wp != sp {
			k.Logf("%s: key %s sharded (held=%d waiters=%d present=%v) unsharded (held=%d waiters=%d present=%v)", when, pool[i].repr, wh, ww, wp, sh, sw, sp)
			k.Fail("sem-state", "%s: %s key %s: sharded map has (held=%d waiters=%d present=%v), unsharded (held=%d waiters=%d present=%v)",
				name, when, pool[i].repr, wh, ww, wp, sh, sw, sp)
			return false
		}
		we, se := semap.VerifEntries(wide), semap.VerifEntries(single)
		if we != se {
			k.Logf("%s: entries sharded=%d unsharded=%d", when, we, se)
			k.Fail("sem-state", "%s: %s: sharded map keeps %d entries, unsharded %d", name, when, we, se)
			return false
		}
		return true
	}
	nops := 30 + r.Intn(70)
	for step := 0; step < nops; step++ {
		switch x := r.Intn(10); {
		case x < 6: // acquire
			i := r.Intn(len(pool))
			write := r.Intn(3) == 0
			need := 1
			if write {
				need = ratio
			}
			fits := ratio-held[i] >= need
			// a blocking acquire is only issued when both maps visibly have room; with an
			// already cancelled context the call never blocks and serves as try-acquire
			ctx, cname := cancelled, "cancelled-ctx"
			if fits && r.Intn(2) == 0 {
				wh, ww, _ := semap.VerifKeyState(wide, pool[i].v)
				sh, sw, _ := semap.VerifKeyState(single, pool[i].v)
				if ww == 0 && sw == 0 && ratio-wh >= need && ratio-sh >= need {
					ctx, cname = context.Background(), "background-ctx"
					k.Count("sem_blocking_acquire_with_room", 1)
				}
			}
			var ww, sw *semap.Weighted
			var werr, serr error
			op := "AcquireRead"
			if write {
				op = "AcquireWrite"
				ww, werr = wide.AcquireWrite(ctx, pool[i].v)
				sw, serr = single.AcquireWrite(ctx, pool[i].v)
			} else {
				ww, werr = wide.AcquireRead(ctx, pool[i].v)
				sw, serr = single.AcquireRead(ctx, pool[i].v)
			}
			k.Logf("%s(%s,%s) wide err=%v single err=%v", op, cname, pool[i].repr, werr, serr)
			if (werr == nil) != (serr == nil) || (werr != nil && werr.Error() != serr.Error()) {
				k.Fail("container-answer", "%s: %s(%s, %s) with %d tokens held: sharded err=%v, unsharded err=%v", name, op, cname, pool[i].repr, held[i], werr, serr)
				return
			}
			if (ww == nil) != (sw == nil) {
				k.Fail("container-answer", "%s: %s(%s): sharded token nil=%v, unsharded token nil=%v", name, op, pool[i].repr, ww == nil, sw == nil)
				return
			}
			if serr == nil {
				held[i] += need
				holds = append(holds, semHold{i, write, ww, sw})
				k.Count("sem_granted", 1)
				if held[i] > need {
					k.Count("sem_granted_beside_holder", 1)
				}
			} else {
				k.Count("sem_try_denied", 1)
			}
			if !state(i, "after "+op) {
				return
			}
		default: // release
			if len(holds) == 0 {
				continue
			}
			j := r.Intn(len(holds))
			h := holds[j]
			holds = append(holds[:j], holds[j+1:]...)
			if h.write {
				wide.ReleaseWrite(pool[h.key].v, h.ww)
				single.ReleaseWrite(pool[h.key].v, h.sw)
				held[h.key] -= ratio
				k.Logf("ReleaseWrite(%s)", pool[h.key].repr)
			} else {
				wide.ReleaseRead(pool[h.key].v, h.ww)
				single.ReleaseRead(pool[h.key].v, h.sw)
				held[h.key]--
				k.Logf("ReleaseRead(%s)", pool[h.key].repr)
			}
			k.Count("sem_release", 1)
			if held[h.key] == 0 {
				k.Count("sem_release_to_empty", 1)
			}
			if !state(h.key, "after release") {
				return
			}
		}
	}
	for _, h := range holds {
		if h.write {
			wide.ReleaseWrite(pool[h.key].v, h.ww)
			single.ReleaseWrite(pool[h.key].v, h.sw)
		} else {
			wide.ReleaseRead(pool[h.key].v, h.ww)
			single.ReleaseRead(pool[h.key].v, h.sw)
		}
	}
	for i := range pool {
		if !state(i, "after final release") {
			return
		}
	}
	k.Logf("released everything: entries sharded=%d unsharded=%d", semap.VerifEntries(wide), semap.VerifEntries(single))
	k.Count("sem_cases", 1)
	k.Count("sem_ops", int64(nops))
}

var _ = remap.DefaultPrime

// plain renders a key value for the trace: as is when printable ASCII, quoted otherwise.
func plain(s string) string {
	for i := 0; i < len(s); i++ {
		if s[i] < 0x20 || s[i] > 0x7e {
			return fmt.Sprintf("%q", clip(s))
		}
	}
	return clip(s)
}

// Package c17 monitors shard routing (remap) and the equivalence of the sharded
// containers built on it with their unsharded counterparts.
package c17

import (
	"time"

	"verifh/engine"
)

// Prop is the C17 check.
var Prop = &engine.Prop{
	ID:    "C17",
	Level: "exploration",
	Rule: "index/partition cases: one shard count (the 12 listed counts, else random 1..5000) and a seed-generated batch of keys of every supported kind " +
		"(10 integer kinds biased to 0, +-1, width extremes, values around multiples of the shard count and their negatives; strings and byte slices of " +
		"lengths around 0/4/8/16/32/64; HitGroup and Bs implementers) or of hash values biased to the partition boundaries; an input (shard count, key, route) " +
		"is non-trivial when the shard count is > 1; distinct = distinct (shard count, key) inputs. " +
		"container cases: one random operation stream applied to the sharded and the unsharded structure; non-trivial when the keys of the stream fall into " +
		">= 2 shards; distinct = distinct program texts with their observed answers",
	Assumptions: []string{
		"github.com/cespare/xxhash/v2 (Sum64/Sum64String) is the trusted xxhash implementation",
		"math/big and uint64 division are trusted for the independent boundary computation; the even partition is y,2y,..,(n-1)y,2^64-1 with y = floor((2^64-1)/n) (property anchors)",
		"shard counts >= 1 that fit in memory (largest exercised: 65537 for routing, 1024 for containers)",
		"supported type is per route: modulo route = integers, HitGroup, and everything the hash route accepts; hash route = integers, strings, byte slices, Bs; container keys are comparable",
		"modulo route, negative integers: 64-bit two's complement, own-width unsigned and mathematical modulo readings are all accepted",
		"LRU capacity is chosen so that no shard ever evicts (per-shard capacity is C04's subject); lock and semaphore programs never block (a blocking acquire is issued only when both structures visibly have room)",
		"Hit() and ToBytes() of the key types used are pure functions of the key value",
	},
	ShardsQuick: 4, ShardsThorough: 16,
	WatchdogQuick: 5 * time.Minute, WatchdogThorough: 135 * time.Minute,
	Setup: func(c *engine.Ctx) { Q = engine.NewQuiescer() },
	Kinds: []engine.Kind{
		{Name: "index", Quick: 2400, Thorough: 216000, Fn: indexCase},
		{Name: "partition", Quick: 400, Thorough: 36000, Fn: partitionCase},
		{Name: "widemap", Quick: 5000, Thorough: 750000, Fn: wideMapCase},
		{Name: "widelru", Quick: 5000, Thorough: 750000, Fn: wideLRUCase},
		{Name: "keylock", Quick: 5000, Thorough: 750000, Fn: keyLockCase},
		{Name: "semap", Quick: 5000, Thorough: 750000, Fn: semapCase},
		{Name: "conc-fresh", Quick: 600, Thorough: 40000, Fn: concFreshCase},
		{Name: "lock-order", Quick: 400, Thorough: 16000, Fn: lockOrderCase},
		{Name: "conc-overwrite", Quick: 60, Thorough: 2400, Fn: concOverwriteCase},
		{Name: "conc-remap", Quick: 60, Thorough: 2400, Fn: concRemapCase},
	},
	Floors: map[string]int64{
		// routing
		"idx_negative_int":         500,
		"idx_int_extreme":          200,
		"idx_mod_last_shard":       100,
		"idx_hash_last_shard":      50,
		"idx_hit_ge_2p63":          50,
		"idx_bytes_ge_32":          100,
		"idx_bytes_empty":          20,
		"idx_kind_hash":            1000,
		"idx_kind_hitPair":         100,
		"idx_kind_bsArr":           100,
		"idx_kind_dualKey":         100,
		"idx_concurrent_batches":   500,
		"idx_random_count_cases":   100,
		"idx_shards_1":             20,
		"idx_shards_8":             20,
		"idx_shards_73":            20,
		"idx_shards_100":           20,
		"idx_shards_65537":         20,
		"part_boundaries_bisected": 1000,
		"part_boundary_probes":     3000,
		"part_cases_65537":         3,
		// containers
		"map_get_hit":                     1000,
		"map_delete_present":              300,
		"map_last_shard_key":              100,
		"map_cases_multi_shard":           300,
		"lru_read_hit":                    1000,
		"lru_delete_present":              300,
		"lru_last_shard_key":              100,
		"lru_cases_tiny":                  100,
		"lru_cases_cache":                 100,
		"lock_shared_readers":             300,
		"lock_multi_acquire_several_keys": 100,
		"lock_multi_release":              100,
		"lock_last_shard_key":             50,
		"lock_cases_untyped":              100,
		"sem_try_denied":                  300,
		"sem_granted_beside_holder":       100,
		"sem_blocking_acquire_with_room":  300,
		"sem_release_to_empty":            300,
		"sem_last_shard_key":              50,
	},
}

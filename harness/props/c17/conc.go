package c17

import (
	"fmt"
	"runtime"
	"sync"
	"sync/atomic"

	"verifh/engine"

	"github.com/pinealctx/neptune/cache"
	"github.com/pinealctx/neptune/cache/tiny"
	"github.com/pinealctx/neptune/remap"
)

// concFreshCase: "a sharded container answers every request exactly as the unsharded one
// would" also for callers that write to a fresh container at the same time: every Set that
// returned must be visible afterwards (the unsharded map and LRUs are thread-safe, so a
// sharded one that loses concurrent first writes answers differently). Writers use disjoint
// keys, so the expected final content is independent of the interleaving.
func concFreshCase(k *engine.Case) {
	r := k.R
	rounds := 60
	writers := 2 + r.Intn(7)
	perWriter := 1 + r.Intn(4)
	old := runtime.GOMAXPROCS([]int{2, 4, 8, 16}[r.Intn(4)])
	defer runtime.GOMAXPROCS(old)
	kindSel := r.Intn(3)
	rt := route{n: []uint64{1, 2, 3, 7, 16, 73}[r.Intn(6)], xhash: r.Intn(2) == 0}
	names := []string{"cache.WideMap", "cache.WideLRUCache", "tiny.WideLRUCache"}
	k.Logf("%s shards=%d xhash=%v writers=%d keys/writer=%d rounds=%d", names[kindSel], rt.n, rt.xhash, writers, perWriter, rounds)
	k.Nontrivial()
	lost := 0
	var first string
	for round := 0; round < rounds; round++ {
		var set func(key interface{}, id int)
		var get func(key interface{}) (interface{}, bool)
		var exist func(key interface{}) bool
		switch kindSel {
		case 0:
			var m cache.MapFacade
			if rt.xhash {
				m = cache.NewWideXHashMap(rt.opts()...)
			} else {
				m = cache.NewWideMap(rt.opts()...)
			}
			set = func(key interface{}, id int) { m.Set(key, id) }
			get, exist = m.Get, m.Exist
		case 1:
			var c cache.LRUFacade
			if rt.xhash {
				c = cache.NewWideXHashLRUCache(1<<40, rt.opts()...)
			} else {
				c = cache.NeWideLRUCache(1<<40, rt.opts()...)
			}
			a := cacheAPI(c)
			set = func(key interface{}, id int) { a.set(key, id, 1) }
			get, exist = a.get, a.exist
		default:
			var c tiny.LRU
			if rt.xhash {
				c = tiny.NewWideXHashLRU(1<<40, rt.opts()...)
			} else {
				c = tiny.NeWideLRU(1<<40, rt.opts()...)
			}
			a := tinyAPI(c)
			set = func(key interface{}, id int) { a.set(key, id, 1) }
			get, exist = a.get, a.exist
		}
		start := make(chan struct{})
		var wg sync.WaitGroup
		base := round * 1000
		for w := 0; w < writers; w++ {
			w := w
			wg.Add(1)
			go func() {
				defer wg.Done()
				<-start
				for i := 0; i < perWriter; i++ {
					key := base + w*perWriter + i
					set(key, key)
				}
			}()
		}
		close(start)
		wg.Wait()
		for i := 0; i < writers*perWriter; i++ {
			key := base + i
			v, ok := get(key)
			ex := exist(key)
			good := ok && ex
			if good {
				switch x := v.(type) {
				case int:
					good = x == key
				case lval:
					good = x.id == key
				}
			}
			if !good {
				lost++
				if first == "" {
					first = fmt.Sprintf("round %d: Set(%d) returned, afterwards Get = (%v, %v), Exist = %v", round, key, v, ok, ex)
				}
			}
		}
		k.Count("conc_fresh_writes_checked", int64(writers*perWriter))
	}
	k.Evals(int64(rounds))
	if lost > 0 {
		k.Fail("concurrent-write-lost", "%s (shards=%d, xhash=%v): %d writes by concurrent callers to a fresh container were lost; %s", names[kindSel], rt.n, rt.xhash, lost, first)
	}
}

// concOverwriteCase: a key that is only ever overwritten is always present. Writers keep
// overwriting a few keys of a sharded map / LRU (with capacity to spare) while readers look
// them up; on the unsharded structures an overwrite happens under one lock hold, so no reader
// can find the key missing - the sharded ones have to answer the same.
func concOverwriteCase(k *engine.Case) {
	r := k.R
	old := runtime.GOMAXPROCS([]int{2, 4, 8, 16}[r.Intn(4)])
	defer runtime.GOMAXPROCS(old)
	kindSel := r.Intn(3)
	rt := route{n: []uint64{1, 2, 3, 7, 73}[r.Intn(5)], xhash: r.Intn(2) == 0}
	names := []string{"cache.WideMap", "cache.WideLRUCache", "tiny.WideLRUCache"}
	var set func(key interface{}, id int)
	var probes []func(key interface{}) bool
	switch kindSel {
	case 0:
		var m cache.MapFacade
		if rt.xhash {
			m = cache.NewWideXHashMap(rt.opts()...)
		} else {
			m = cache.NewWideMap(rt.opts()...)
		}
		set = func(key interface{}, id int) { m.Set(key, id) }
		probes = []func(key interface{}) bool{
			func(key interface{}) bool { _, ok := m.Get(key); return ok },
			m.Exist,
		}
	case 1:
		var c cache.LRUFacade
		if rt.xhash {
			c = cache.NewWideXHashLRUCache(1<<40, rt.opts()...)
		} else {
			c = cache.NeWideLRUCache(1<<40, rt.opts()...)
		}
		set = func(key interface{}, id int) { c.Set(key, lval{id, 1}) }
		probes = []func(key interface{}) bool{
			func(key interface{}) bool { _, ok := c.Get(key); return ok },
			func(key interface{}) bool { _, ok := c.Peek(key); return ok },
			c.Exist,
		}
	default:
		var c tiny.LRU
		if rt.xhash {
			c = tiny.NewWideXHashLRU(1<<40, rt.opts()...)
		} else {
			c = tiny.NeWideLRU(1<<40, rt.opts()...)
		}
		set = func(key interface{}, id int) { c.Set(key, lval{id, 1}) }
		probes = []func(key interface{}) bool{
			func(key interface{}) bool { _, ok := c.Get(key); return ok },
			func(key interface{}) bool { _, ok := c.Peek(key); return ok },
			c.Exist,
		}
	}
	keys := []interface{}{"hot", 7, int64(-3)}
	for _, key := range keys {
		set(key, 0)
	}
	writers, readers, iters := 2, 4, 4000
	k.Logf("%s shards=%d xhash=%v: %d writers overwrite %d keys %d times each, %d readers look them up", names[kindSel], rt.n, rt.xhash, writers, len(keys), iters, readers)
	k.Nontrivial()
	var wg sync.WaitGroup
	var stop, misses atomicInt
	var firstMu sync.Mutex
	first := ""
	for w := 0; w < writers; w++ {
		w := w
		wg.Add(1)
		go func() {
			defer wg.Done()
			for i := 1; i <= iters; i++ {
				set(keys[i%len(keys)], w*iters+i)
			}
			stop.add(1)
		}()
	}
	for rd := 0; rd < readers; rd++ {
		rd := rd
		wg.Add(1)
		go func() {
			defer wg.Done()
			for i := 0; stop.load() < int64(writers); i++ {
				key := keys[(i+rd)%len(keys)]
				if !probes[i%len(probes)](key) {
					misses.add(1)
					firstMu.Lock()
					if first == "" {
						first = fmt.Sprintf("probe %d of key %v", i%len(probes), key)
					}
					firstMu.Unlock()
				}
			}
		}()
	}
	wg.Wait()
	k.Evals(int64(writers * iters))
	k.Count("conc_overwrite_writes", int64(writers*iters))
	if n := misses.load(); n > 0 {
		k.Fail("container-answer", "%s shards=%d xhash=%v: %d look-ups of keys that were set before and are only ever overwritten reported them missing (first: %s); the unsharded structure overwrites under one lock hold", names[kindSel], rt.n, rt.xhash, n, first)
	}
}

type atomicInt struct {
	mu sync.Mutex
	v  int64
}

func (a *atomicInt) add(d int64) { a.mu.Lock(); a.v += d; a.mu.Unlock() }
func (a *atomicInt) load() int64 { a.mu.Lock(); defer a.mu.Unlock(); return a.v }

// concRemapCase: "the computed shard index is deterministic" also for the very first lookups
// on a fresh ReMap made by several goroutines at the same moment. A large shard count makes
// whatever a ReMap sets up on first use take long enough to be observed half done. The expected
// indices come from the independent partition model (and a second ReMap used by one goroutine).
func concRemapCase(k *engine.Case) {
	r := k.R
	n := []uint64{65537, 262147, 1000003, 100003, 1024}[r.Intn(5)]
	workers := 4 + r.Intn(9)
	old := runtime.GOMAXPROCS(16)
	defer runtime.GOMAXPROCS(old)
	const per = 24
	hashes := make([][]uint64, workers)
	for w := range hashes {
		for i := 0; i < per; i++ {
			hashes[w] = append(hashes[w], genHash(r, n))
		}
	}
	k.Logf("fresh ReMap with %d shards: %d goroutines make its first %d SearchIndex lookups each at the same moment", n, workers, per)
	k.Nontrivial()
	calm := remap.NewReMap(remap.WithPrime(n))
	fresh := remap.NewReMap(remap.WithPrime(n))
	got := make([][]int, workers)
	start := make(chan struct{})
	var wg sync.WaitGroup
	var panicked atomic.Value
	for w := 0; w < workers; w++ {
		w := w
		got[w] = make([]int, per)
		wg.Add(1)
		go func() {
			defer wg.Done()
			defer func() {
				if p := recover(); p != nil {
					panicked.Store(fmt.Sprint(p))
				}
			}()
			<-start
			for i, h := range hashes[w] {
				got[w][i] = fresh.SearchIndex(h)
			}
		}()
	}
	close(start)
	wg.Wait()
	k.Evals(int64(workers * per))
	if p, ok := panicked.Load().(string); ok {
		k.Fail("panic", "ReMap(%d shards): concurrent first SearchIndex lookups panicked: %s", n, p)
		return
	}
	for w := range hashes {
		for i, h := range hashes[w] {
			want := modelShard(h, n)
			alone := calm.SearchIndex(h)
			if got[w][i] != want || alone != want {
				k.Fail("index-unstable", "ReMap(%d shards): SearchIndex(%#x) returned %d when it was among the first lookups of a fresh ReMap made by %d goroutines at once; a ReMap used by one goroutine returns %d, the partition model %d", n, h, got[w][i], workers, alone, want)
				return
			}
		}
	}
	k.Count("conc_remap_cases", 1)
	k.Count("conc_remap_lookups", int64(workers*per))
}

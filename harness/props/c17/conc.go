package c17

import (
	"fmt"
	"runtime"
	"sync"

	"verifh/engine"

	"github.com/pinealctx/neptune/cache"
	"github.com/pinealctx/neptune/cache/tiny"
)

// concFreshCase: "a sharded container answers every request exactly as the unsharded one
// would" also for callers that write to a fresh container at the same time: every Set that
// returned must be visible afterwards (the unsharded map and LRUs are thread-safe, so a
// sharded one that loses concurrent first writes answers differently). Writers use disjoint
// keys, so the expected final content is independent of the interleaving.
func concFreshCase(k *engine.Case) {
	r := k.R
	rounds := 60
	writers := 2 + r.Intn(7)
	perWriter := 1 + r.Intn(4)
	old := runtime.GOMAXPROCS([]int{2, 4, 8, 16}[r.Intn(4)])
	defer runtime.GOMAXPROCS(old)
	kindSel := r.Intn(3)
	rt := route{n: []uint64{1, 2, 3, 7, 16, 73}[r.Intn(6)], xhash: r.Intn(2) == 0}
	names := []string{"cache.WideMap", "cache.WideLRUCache", "tiny.WideLRUCache"}
	k.Logf("%s shards=%d xhash=%v writers=%d keys/writer=%d rounds=%d", names[kindSel], rt.n, rt.xhash, writers, perWriter, rounds)
	k.Nontrivial()
	lost := 0
	var first string
	for round := 0; round < rounds; round++ {
		var set func(key interface{}, id int)
		var get func(key interface{}) (interface{}, bool)
		var exist func(key interface{}) bool
		switch kindSel {
		case 0:
			var m cache.MapFacade
			if rt.xhash {
				m = cache.NewWideXHashMap(rt.opts()...)
			} else {
				m = cache.NewWideMap(rt.opts()...)
			}
			set = func(key interface{}, id int) { m.Set(key, id) }
			get, exist = m.Get, m.Exist
		case 1:
			var c cache.LRUFacade
			if rt.xhash {
				c = cache.NewWideXHashLRUCache(1<<40, rt.opts()...)
			} else {
				c = cache.NeWideLRUCache(1<<40, rt.opts()...)
			}
			a := cacheAPI(c)
			set = func(key interface{}, id int) { a.set(key, id, 1) }
			get, exist = a.get, a.exist
		default:
			var c tiny.LRU
			if rt.xhash {
				c = tiny.NewWideXHashLRU(1<<40, rt.opts()...)
			} else {
				c = tiny.NeWideLRU(1<<40, rt.opts()...)
			}
			a := tinyAPI(c)
			set = func(key interface{}, id int) { a.set(key, id, 1) }
			get, exist = a.get, a.exist
		}
		start := make(chan struct{})
		var wg sync.WaitGroup
		base := round * 1000
		for w := 0; w < writers; w++ {
			w := w
			wg.Add(1)
			go func() {
				defer wg.Done()
				<-start
				for i := 0; i < perWriter; i++ {
					key := base + w*perWriter + i
					set(key, key)
				}
			}()
		}
		close(start)
		wg.Wait()
		for i := 0; i < writers*perWriter; i++ {
			key := base + i
			v, ok := get(key)
			ex := exist(key)
			good := ok && ex
			if good {
				switch x := v.(type) {
				case int:
					good = x == key
				case lval:
					good = x.id == key
				}
			}
			if !good {
				lost++
				if first == "" {
					first = fmt.Sprintf("round %d: Set(%d) returned, afterwards Get = (%v, %v), Exist = %v", round, key, v, ok, ex)
				}
			}
		}
		k.Count("conc_fresh_writes_checked", int64(writers*perWriter))
	}
	k.Evals(int64(rounds))
	if lost > 0 {
		k.Fail("concurrent-write-lost", "%s (shards=%d, xhash=%v): %d writes by concurrent callers to a fresh container were lost; %s", names[kindSel], rt.n, rt.xhash, lost, first)
	}
}

package c17

import (
	"fmt"
	"sort"

	"verifh/engine"

	"github.com/pinealctx/neptune/remap"
	"github.com/pinealctx/neptune/syncx/keylock"
)

// Q detects parked goroutines (kind lock-order).
var Q *engine.Quiescer

// lockOrderCase: multi-key requests whose lists respect one global key order never dead-lock
// on the unsharded locker; the sharded locker has to answer them the same way, whatever order
// it takes the shards in. A helper holds one key; a request for a long list and a request for
// a short list that share keys are issued (both park); the helper releases; both requests must
// be granted and released. Keys are chosen so that the key order and the shard order of the
// shared keys differ, and the same schedule is run on the unsharded TKeyLocker.
func lockOrderCase(k *engine.Case) {
	r := k.R
	p := []uint64{2, 3, 5, 7, 73}[r.Intn(5)]
	xhash := r.Intn(3) == 0
	var g keylock.TLocker[int]
	if xhash {
		g = keylock.NewTXHashTKeyLockeGrp[int](remap.WithPrime(p))
	} else {
		g = keylock.NewTKeyLockeGrp[int](remap.WithPrime(p))
	}
	grp, ok := g.(*keylock.TKeyLockerGrp[int])
	if !ok {
		k.Inconclusive("typed keylock group constructor returned an unknown type")
		return
	}
	single := keylock.NewTKeyLockerInstance[int]()
	// 4-6 distinct keys, among them a pair a < b with shard(a) > shard(b)
	var keys []int
	found := false
	for tries := 0; tries < 200 && !found; tries++ {
		keys = keys[:0]
		seen := map[int]bool{}
		for len(keys) < 4+r.Intn(3) {
			x := r.Intn(400)
			if !seen[x] {
				seen[x] = true
				keys = append(keys, x)
			}
		}
		sort.Ints(keys)
		for i := 0; i+1 < len(keys) && !found; i++ {
			if grp.VerifShard(keys[i]) > grp.VerifShard(keys[i+1]) {
				// move the pair to the front of the list
				keys[0], keys[i] = keys[i], keys[0]
				keys[1], keys[i+1] = keys[i+1], keys[1]
				rest := keys[2:]
				sort.Ints(rest)
				found = true
			}
		}
	}
	if !found {
		k.Count("lock_order_no_inverted_pair", 1)
		return
	}
	a, b := keys[0], keys[1]
	// lists in ascending key order (the global order all callers respect)
	short := []int{a, b}
	long := append([]int(nil), keys...)
	sort.Ints(long)
	heldKey := []int{a, b}[r.Intn(2)]
	unrelated := []int{401 + r.Intn(200), 700 + r.Intn(200)}
	if r.Intn(3) == 0 {
		unrelated = append(unrelated, 1000+r.Intn(50))
	}
	longFirst := r.Intn(2) == 0
	read := r.Intn(4) == 0
	k.Logf("shards=%d xhash=%v: helper holds %d; %s; short list %v, long list %v (shards %v); reads=%v", p, xhash, heldKey,
		map[bool]string{true: "long list first, then short", false: "short list first, then long"}[longFirst], short, long, shardsOf(grp, long), read)
	k.Nontrivial()
	for _, tgt := range []struct {
		name string
		l    keylock.TLocker[int]
	}{{"unsharded TKeyLocker", single}, {fmt.Sprintf("TKeyLockerGrp (%d shards, xhash=%v)", p, xhash), grp}} {
		d := engine.NewDriver(Q, k)
		l := tgt.l
		l.Lock(heldKey)
		take := func(ks []int) func() any {
			return func() any {
				if read {
					l.RLocks(ks)
					l.RUnlocks(ks)
				} else {
					l.Locks(ks)
					l.Unlocks(ks)
				}
				return nil
			}
		}
		first, second := short, long
		if longFirst {
			first, second = long, short
		}
		o1 := d.Spawn(fmt.Sprintf("Locks(%v)", first), take(first))
		if !d.Quiesce() {
			l.Unlock(heldKey)
			return
		}
		o2 := d.Spawn(fmt.Sprintf("Locks(%v)", second), take(second))
		if !d.Quiesce() {
			l.Unlock(heldKey)
			return
		}
		if o1.Done() || o2.Done() {
			k.Fail("lock-state", "%s: key %d is write-held by a helper, yet a multi-key request containing it was granted (lists %v / %v)", tgt.name, heldKey, first, second)
			l.Unlock(heldKey)
			return
		}
		// a third request for keys nobody holds or waits for is granted at once by the unsharded
		// locker, whatever else is waiting
		o3 := d.Spawn(fmt.Sprintf("Locks(%v)", unrelated), take(unrelated))
		if !d.Quiesce() {
			l.Unlock(heldKey)
			return
		}
		k.Evals(1)
		if !o3.Done() {
			k.Fail("lock-blocked-by-unrelated", "%s: key %d is held and two multi-key requests (%v, %v) wait for it; a multi-key request for %v - keys nobody holds or waits for - is not granted: %v", tgt.name, heldKey, first, second, unrelated, Q.Describe())
			l.Unlock(heldKey)
			return
		}
		l.Unlock(heldKey)
		if !d.Quiesce() {
			return
		}
		k.Evals(1)
		if !o1.Done() || !o2.Done() {
			k.Fail("lock-deadlock", "%s: two multi-key requests with lists in ascending key order (%v and %v) were waiting for key %d; after the helper released it they are dead-locked (granted: first=%v second=%v): %v", tgt.name, first, second, heldKey, o1.Done(), o2.Done(), Q.Describe())
			return
		}
		if e := entriesOf(l); e != 0 {
			k.Fail("lock-state", "%s: everything released, %d per-key entries left", tgt.name, e)
			return
		}
	}
	k.Count("lock_order_cases", 1)
}

func shardsOf(g *keylock.TKeyLockerGrp[int], ks []int) []int {
	out := make([]int, len(ks))
	for i, x := range ks {
		out[i] = g.VerifShard(x)
	}
	return out
}

func entriesOf(l keylock.TLocker[int]) int {
	if e, ok := l.(interface{ VerifEntries() int }); ok {
		return e.VerifEntries()
	}
	return 0
}

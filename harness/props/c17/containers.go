package c17

import (
	"fmt"
	"math"
	"math/rand"

	"verifh/engine"

	"github.com/pinealctx/neptune/cache"
	"github.com/pinealctx/neptune/cache/tiny"
	"github.com/pinealctx/neptune/remap"
)

// route describes how a sharded container under test was configured.
type route struct {
	n     uint64 // 0 = constructor default
	xhash bool
}

func (rt route) eff() uint64 {
	if rt.n == 0 {
		return remap.DefaultPrime
	}
	return rt.n
}

func (rt route) opts() []remap.Option {
	if rt.n == 0 {
		return nil
	}
	return []remap.Option{remap.WithPrime(rt.n)}
}

func (rt route) String() string {
	s := "modulo"
	if rt.xhash {
		s = "xxhash"
	}
	if rt.n == 0 {
		return s + "/default"
	}
	return fmt.Sprintf("%s/%d", s, rt.n)
}

func pickRoute(r *rand.Rand) route {
	return route{n: pickContainerShards(r), xhash: r.Intn(2) == 0}
}

// modelRouteShard is the shard the independent computation assigns (negative integers on
// the modulo route: the two's complement reading; used for coverage accounting only).
func modelRouteShard(key *keyT, rt route) int {
	n := rt.eff()
	if !rt.xhash {
		if w, viaHash := key.simpleWant(n); !viaHash {
			return w[0]
		}
	}
	if key.hasBytes {
		return modelShard(key.hashOf(), n)
	}
	return modelShard(remap.XXHash(key.v), n)
}

// genPool draws size distinct comparable keys supported on the route, biased to keys of
// the first and the last shard.
func genPool(k *engine.Case, rt route, size int, tag string) []keyT {
	r := k.R
	n := rt.eff()
	seen := map[interface{}]bool{}
	var pool []keyT
	add := func(key keyT) {
		if !seen[key.v] {
			seen[key.v] = true
			pool = append(pool, key)
		}
	}
	// edge keys: last / first shard on this route
	if rt.xhash || r.Intn(2) == 0 {
		for _, want := range []int{int(n) - 1, 0} {
			if s, ok := edgeString(r, n, want, int(8*n)+8); ok {
				if r.Intn(2) == 0 {
					add(mkString(s))
				} else {
					add(mkBsKey(s))
				}
			}
		}
	}
	if !rt.xhash {
		add(mkInt(intKinds[r.Intn(len(intKinds))], n-1))
		add(mkInt("int64", -(n + 1))) // negative: 2^64-(n+1)
		add(mkHitID(uint64(r.Intn(1<<20))*n + n - 1))
	}
	for tries := 0; len(pool) < size && tries < 20*size; tries++ {
		add(genKey(r, n, true, rt.xhash))
	}
	shards := map[int]bool{}
	for i := range pool {
		s := modelRouteShard(&pool[i], rt)
		shards[s] = true
		if n > 1 && s == int(n)-1 {
			k.Count(tag+"_last_shard_key", 1)
		}
		if n > 1 && s == 0 {
			k.Count(tag+"_first_shard_key", 1)
		}
		if pool[i].neg {
			k.Count(tag+"_negative_key", 1)
		}
		k.Count(tag+"_keykind_"+pool[i].kind, 1)
	}
	if len(shards) >= 2 {
		k.Count(tag+"_cases_multi_shard", 1)
		k.Nontrivial()
	}
	return pool
}

func pickKey(r *rand.Rand, pool []keyT, rt route) keyT {
	if r.Intn(12) == 0 {
		return genKey(r, rt.eff(), true, rt.xhash) // mostly absent
	}
	return pool[r.Intn(len(pool))]
}

// ---------------------------------------------------------------- WideMap vs Map

func wideMapCase(k *engine.Case) {
	r := k.R
	rt := pickRoute(r)
	var wide cache.MapFacade
	if rt.xhash {
		wide = cache.NewWideXHashMap(rt.opts()...)
	} else {
		wide = cache.NewWideMap(rt.opts()...)
	}
	single := cache.NewSingleMap()
	k.Logf("WideMap %s vs Map", rt)
	pool := genPool(k, rt, 4+r.Intn(20), "map")
	nops := 30 + r.Intn(90)
	val := 0
	// a map stores any value: in one case of four the values are slices (not comparable with ==)
	boxed := r.Intn(4) == 0
	if boxed {
		k.Count("map_cases_with_slice_values", 1)
	}
	box := func(v int) interface{} {
		if boxed {
			return []int{v}
		}
		return v
	}
	for i := 0; i < nops; i++ {
		key := pickKey(r, pool, rt)
		switch x := r.Intn(10); {
		case x < 4:
			val++
			if r.Intn(6) == 0 {
				// a map stores any value, also the untyped nil (a tombstone / negative entry):
				// the key is then present with the value nil
				wide.Set(key.v, nil)
				single.Set(key.v, nil)
				k.Logf("Set(%s,<nil>)", key.repr)
				k.Count("map_set_nil_value", 1)
			} else {
				wide.Set(key.v, box(val))
				single.Set(key.v, box(val))
				k.Logf("Set(%s,%d)", key.repr, val)
			}
			k.Count("map_set", 1)
		case x < 7:
			wv, wok := wide.Get(key.v)
			sv, sok := single.Get(key.v)
			k.Logf("Get(%s) wide=(%v,%v) single=(%v,%v)", key.repr, wv, wok, sv, sok)
			if wok != sok || !sameVal(wv, sv) {
				k.Fail("container-answer", "%s: Get(%s) sharded = (%v,%v), unsharded = (%v,%v)", rt, key.repr, wv, wok, sv, sok)
				return
			}
			if sok {
				k.Count("map_get_hit", 1)
			} else {
				k.Count("map_get_miss", 1)
			}
		case x < 8:
			we, se := wide.Exist(key.v), single.Exist(key.v)
			k.Logf("Exist(%s) wide=%v single=%v", key.repr, we, se)
			if we != se {
				k.Fail("container-answer", "%s: Exist(%s) sharded = %v, unsharded = %v", rt, key.repr, we, se)
				return
			}
			k.Count("map_exist", 1)
		default:
			if single.Exist(key.v) {
				k.Count("map_delete_present", 1)
			} else {
				k.Count("map_delete_absent", 1)
			}
			wide.Delete(key.v)
			single.Delete(key.v)
			k.Logf("Delete(%s)", key.repr)
		}
	}
	for i := range pool {
		wv, wok := wide.Get(pool[i].v)
		sv, sok := single.Get(pool[i].v)
		we, se := wide.Exist(pool[i].v), single.Exist(pool[i].v)
		if wok != sok || !sameVal(wv, sv) || we != se {
			k.Logf("final Get(%s) wide=(%v,%v) single=(%v,%v) Exist wide=%v single=%v", pool[i].repr, wv, wok, sv, sok, we, se)
			k.Fail("container-answer", "%s: final sweep, key %s: sharded Get=(%v,%v) Exist=%v, unsharded Get=(%v,%v) Exist=%v",
				rt, pool[i].repr, wv, wok, we, sv, sok, se)
			return
		}
	}
	k.Count("map_cases", 1)
	k.Count("map_ops", int64(nops))
}

// sameVal compares stored values (ints, or one-element int slices).
func sameVal(a, b interface{}) bool {
	as, aok := a.([]int)
	bs, bok := b.([]int)
	if aok || bok {
		return aok && bok && len(as) == 1 && len(bs) == 1 && as[0] == bs[0]
	}
	return a == b
}

// ---------------------------------------------------------------- wide LRUs vs single LRU

type lval struct{ id, sz int }

func (v lval) Size() int { return v.sz }

// lruAPI abstracts cache.LRUFacade and tiny.LRU.
type lruAPI struct {
	get, peek func(key interface{}) (interface{}, bool)
	exist     func(key interface{}) bool
	set       func(key interface{}, id, sz int)
	del       func(key interface{}) bool
}

func cacheAPI(c cache.LRUFacade) lruAPI {
	conv := func(v cache.Value, ok bool) (interface{}, bool) {
		if v == nil {
			return nil, ok
		}
		return v, ok
	}
	return lruAPI{
		get:   func(key interface{}) (interface{}, bool) { return conv(c.Get(key)) },
		peek:  func(key interface{}) (interface{}, bool) { return conv(c.Peek(key)) },
		exist: c.Exist,
		set:   func(key interface{}, id, sz int) { c.Set(key, lval{id, sz}) },
		del:   c.Delete,
	}
}

func tinyAPI(c tiny.LRU) lruAPI {
	return lruAPI{get: c.Get, peek: c.Peek, exist: c.Exist,
		set: func(key interface{}, id, sz int) {
			if sz < 0 {
				c.Set(key, nil) // the tiny caches take any value, also the untyped nil
				return
			}
			c.Set(key, lval{id, sz})
		}, del: c.Delete}
}

func wideLRUCase(k *engine.Case) {
	r := k.R
	rt := pickRoute(r)
	useTiny := r.Intn(2) == 0
	// capacity large enough never to evict: every shard gets capacity/n+1 >= 4096, the
	// stream inserts at most 150 entries of size <= 8 (eviction is C04's subject)
	capacity := int64(rt.eff())*4096 + int64(r.Intn(1000))
	if r.Intn(4) == 0 {
		capacity = 1<<50 + int64(r.Intn(1000))
	}
	if r.Intn(9) == 0 {
		// "unlimited": capacities at the top of int64, with any number of shards
		capacity = math.MaxInt64 - []int64{0, 0, 1, 2, int64(r.Intn(200)), int64(r.Intn(5000))}[r.Intn(6)]
		k.Count("lru_cases_capacity_near_maxint64", 1)
	}
	singleCap := capacity
	tight := false
	if r.Intn(7) == 0 {
		// one shard, tight capacity: the sharded cache is then one LRU of capacity/1+1, and every
		// answer (including which entry an insertion evicts) must equal the unsharded cache of
		// that capacity - recency handling of the wrapper (Exist/Peek must not refresh) shows here
		rt.n = 1
		tight = true
		capacity = int64(1 + r.Intn(8))
		if r.Intn(2) == 0 {
			// room for a dozen entries or two: entries read long before the shard fills up
			capacity = []int64{9, 12, 16, 20, 31, 40}[r.Intn(6)]
		}
		singleCap = capacity + 1
		k.Count("lru_cases_one_shard_tight", 1)
	}
	multi := false
	if !tight && r.Intn(7) == 0 {
		// a few shards, tight capacity per shard: the sharded cache is then rt.n unsharded LRUs
		// of capacity/n+1 each, and every answer must equal that of the key's own LRU
		tight, multi = true, true
		rt.n = uint64(2 + r.Intn(3))
		per := int64(2 + r.Intn(18))
		capacity = (per-1)*int64(rt.n) + int64(r.Intn(int(rt.n)))
		singleCap = per
		k.Count("lru_cases_few_shards_tight", 1)
	}
	roomy := tight && singleCap > 9
	var wide, single lruAPI
	name := "cache.WideLRUCache"
	if useTiny {
		name = "tiny.WideLRUCache"
		if rt.xhash {
			wide = tinyAPI(tiny.NewWideXHashLRU(capacity, rt.opts()...))
		} else {
			wide = tinyAPI(tiny.NeWideLRU(capacity, rt.opts()...))
		}
		single = tinyAPI(tiny.NewSingleLRUCache(singleCap))
		k.Count("lru_cases_tiny", 1)
	} else {
		if rt.xhash {
			wide = cacheAPI(cache.NewWideXHashLRUCache(capacity, rt.opts()...))
		} else {
			wide = cacheAPI(cache.NeWideLRUCache(capacity, rt.opts()...))
		}
		single = cacheAPI(cache.NewSingleLRUCache(singleCap))
		k.Count("lru_cases_cache", 1)
	}
	shardOf := map[interface{}]int{}
	if multi {
		singles := make([]lruAPI, rt.n)
		for i := range singles {
			if useTiny {
				singles[i] = tinyAPI(tiny.NewSingleLRUCache(singleCap))
			} else {
				singles[i] = cacheAPI(cache.NewSingleLRUCache(singleCap))
			}
		}
		single = lruAPI{
			get:   func(key interface{}) (interface{}, bool) { return singles[shardOf[key]].get(key) },
			peek:  func(key interface{}) (interface{}, bool) { return singles[shardOf[key]].peek(key) },
			exist: func(key interface{}) bool { return singles[shardOf[key]].exist(key) },
			set:   func(key interface{}, id, sz int) { singles[shardOf[key]].set(key, id, sz) },
			del:   func(key interface{}) bool { return singles[shardOf[key]].del(key) },
		}
	}
	k.Logf("%s %s capacity=%d vs single LRU (one of capacity %d per shard: %v)", name, rt, capacity, singleCap, multi)
	if r.Intn(8) == 0 {
		// a capacity below the number of shards (every shard still gets capacity/n+1 >= 1):
		// one key alive at a time, so nothing is ever evicted and every answer is determined
		small := int64(1 + r.Intn(int(rt.eff())+1))
		var w lruAPI
		switch {
		case useTiny && rt.xhash:
			w = tinyAPI(tiny.NewWideXHashLRU(small, rt.opts()...))
		case useTiny:
			w = tinyAPI(tiny.NeWideLRU(small, rt.opts()...))
		case rt.xhash:
			w = cacheAPI(cache.NewWideXHashLRUCache(small, rt.opts()...))
		default:
			w = cacheAPI(cache.NeWideLRUCache(small, rt.opts()...))
		}
		k.Logf("(first: the same wide cache with capacity %d, below its %d shards, one key at a time)", small, rt.eff())
		k.Count("lru_cases_capacity_below_shards", 1)
		kp := genPool(k, rt, 6+r.Intn(20), "lru")
		for i := range kp {
			w.set(kp[i].v, i+1, 1)
			v, ok := w.get(kp[i].v)
			if !ok || !w.exist(kp[i].v) {
				k.Fail("container-answer", "%s %s capacity=%d: Set(%s) on the empty cache, then Get = (%v,%v), Exist = %v; an unsharded LRU of any capacity >= 1 holds the entry", name, rt, small, kp[i].repr, v, ok, w.exist(kp[i].v))
				return
			}
			if !w.del(kp[i].v) || w.exist(kp[i].v) {
				k.Fail("container-answer", "%s %s capacity=%d: Delete(%s) of the only entry failed or left it", name, rt, small, kp[i].repr)
				return
			}
		}
	}
	pool := genPool(k, rt, 4+r.Intn(20), "lru")
	nops := 30 + r.Intn(120)
	if roomy {
		pool = genPool(k, rt, int(singleCap)*int(rt.eff())+2+r.Intn(12), "lru")
		nops = (120 + r.Intn(200)) * int(rt.eff())
	}
	ambiguous := func(key *keyT) bool { return multi && !rt.xhash && key.isInt && key.neg }
	if multi {
		kept := pool[:0]
		for i := range pool {
			if !ambiguous(&pool[i]) {
				shardOf[pool[i].v] = modelRouteShard(&pool[i], rt)
				kept = append(kept, pool[i])
			}
		}
		pool = kept
		if len(pool) == 0 {
			return
		}
	}
	val := 0
	for i := 0; i < nops; i++ {
		key := pickKey(r, pool, rt)
		if ambiguous(&key) {
			continue // "modulo shards" of a negative integer has more than one reading
		}
		if multi {
			shardOf[key.v] = modelRouteShard(&key, rt)
		}
		switch x := r.Intn(12); {
		case x < 4:
			val++
			sz := r.Intn(9)
			if roomy && r.Intn(5) > 0 {
				sz = 1 + r.Intn(2)
			}
			if useTiny && r.Intn(8) == 0 {
				sz = -1 // stores the untyped nil
				k.Count("lru_set_nil_value", 1)
			}
			wide.set(key.v, val, sz)
			single.set(key.v, val, sz)
			k.Logf("Set(%s,{%d,size %d})", key.repr, val, sz)
			k.Count("lru_set", 1)
		case x < 8:
			op, wf, sf := "Get", wide.get, single.get
			if x >= 6 {
				op, wf, sf = "Peek", wide.peek, single.peek
			}
			wv, wok := wf(key.v)
			sv, sok := sf(key.v)
			k.Logf("%s(%s) wide=(%v,%v) single=(%v,%v)", op, key.repr, wv, wok, sv, sok)
			if wok != sok || wv != sv {
				k.Fail("container-answer", "%s %s: %s(%s) sharded = (%v,%v), unsharded = (%v,%v)", name, rt, op, key.repr, wv, wok, sv, sok)
				return
			}
			if sok {
				k.Count("lru_read_hit", 1)
			} else {
				k.Count("lru_read_miss", 1)
			}
		case x < 9:
			we, se := wide.exist(key.v), single.exist(key.v)
			k.Logf("Exist(%s) wide=%v single=%v", key.repr, we, se)
			if we != se {
				k.Fail("container-answer", "%s %s: Exist(%s) sharded = %v, unsharded = %v", name, rt, key.repr, we, se)
				return
			}
			k.Count("lru_exist", 1)
		default:
			wd, sd := wide.del(key.v), single.del(key.v)
			k.Logf("Delete(%s) wide=%v single=%v", key.repr, wd, sd)
			if wd != sd {
				k.Fail("container-answer", "%s %s: Delete(%s) sharded = %v, unsharded = %v", name, rt, key.repr, wd, sd)
				return
			}
			if sd {
				k.Count("lru_delete_present", 1)
			} else {
				k.Count("lru_delete_absent", 1)
			}
		}
	}
	for i := range pool {
		wv, wok := wide.peek(pool[i].v)
		sv, sok := single.peek(pool[i].v)
		we, se := wide.exist(pool[i].v), single.exist(pool[i].v)
		if wok != sok || wv != sv || we != se {
			k.Logf("final Peek(%s) wide=(%v,%v) single=(%v,%v) Exist wide=%v single=%v", pool[i].repr, wv, wok, sv, sok, we, se)
			k.Fail("container-answer", "%s %s: final sweep, key %s: sharded Peek=(%v,%v) Exist=%v, unsharded Peek=(%v,%v) Exist=%v",
				name, rt, pool[i].repr, wv, wok, we, sv, sok, se)
			return
		}
	}
	k.Count("lru_cases", 1)
	k.Count("lru_ops", int64(nops))
}

package c17

import (
	"fmt"
	"math"
	"sort"
	"sync"

	"verifh/engine"

	"github.com/pinealctx/neptune/remap"
)

const idxBatch = 48

type idxObs struct {
	simple int
	xhash  int // -1 when the key is not used on the hash route
}

// observe computes the indices of all keys once; a panic is reported as a string.
func observe(rm *remap.ReMap, keys []keyT) (out []idxObs, panicked string) {
	defer func() {
		if r := recover(); r != nil {
			panicked = fmt.Sprint(r)
		}
	}()
	out = make([]idxObs, len(keys))
	for i := range keys {
		out[i].simple = rm.SimpleIndex(keys[i].v)
		out[i].xhash = -1
		if keys[i].hashable {
			out[i].xhash = rm.XHashIndex(keys[i].v)
		}
	}
	return out, ""
}

// indexCase: one shard count, a batch of keys of every supported kind; both routes.
func indexCase(k *engine.Case) {
	r := k.R
	n := pickShards(r)
	rm := getReMap(n)
	k.Logf("shards=%d (Numbs=%d)", n, rm.Numbs())
	if rm.Numbs() != n {
		k.Fail("shard-count", "NewReMap(WithPrime(%d)).Numbs() = %d", n, rm.Numbs())
		return
	}
	if isListed(n) {
		k.Count("idx_listed_count_cases", 1)
		k.Count(fmt.Sprintf("idx_shards_%d", n), 1)
	} else {
		k.Count("idx_random_count_cases", 1)
	}
	keys := make([]keyT, idxBatch)
	for i := range keys {
		keys[i] = genKey(r, n, false, false)
	}
	var evals int64
	obs := make([]idxObs, len(keys))
	for i := range keys {
		key := &keys[i]
		o := idxObs{xhash: -1}
		// ---- modulo route
		s1 := rm.SimpleIndex(key.v)
		s2 := rm.SimpleIndex(key.v)
		o.simple = s1
		evals++
		want, viaHash := key.simpleWant(n)
		var hwant = -1
		if key.hasBytes {
			hwant = modelShard(key.hashOf(), n)
		}
		if viaHash {
			want = []int{hwant}
			k.Count("idx_simple_falls_to_hash", 1)
		}
		line := fmt.Sprintf("%s simple=%d want=%v", key.repr, s1, want)
		if s1 != s2 {
			k.Logf("%s", line)
			k.Fail("nondeterministic", "shards=%d SimpleIndex(%s) = %d then %d", n, key.repr, s1, s2)
		}
		if s1 < 0 || uint64(s1) >= n {
			k.Logf("%s", line)
			k.Fail("range", "shards=%d SimpleIndex(%s) = %d outside [0,%d)", n, key.repr, s1, n)
		} else if !inSet(s1, want) {
			k.Logf("%s", line)
			k.Fail("index-mismatch", "shards=%d SimpleIndex(%s) = %d, independent computation gives %v", n, key.repr, s1, want)
		}
		// ---- hash route
		if key.hashable {
			if r.Intn(4) == 0 {
				// a caller builds a composite key on top of the key's bytes; whatever it appends
				// must not change how keys hash afterwards
				if p := tryDo(func() { _ = append(remap.ToBytes(key.v), 0xA5, 0x5A, 0xA5, 0x5A) }); p == nil {
					k.Count("idx_tobytes_appended", 1)
				}
			}
			x1 := rm.XHashIndex(key.v)
			x2 := rm.XHashIndex(key.v)
			o.xhash = x1
			evals++
			h := remap.XXHash(key.v)
			si := rm.SearchIndex(h)
			line += fmt.Sprintf(" xhash=%d hash=%#x search=%d", x1, h, si)
			if x1 != x2 {
				k.Logf("%s", line)
				k.Fail("nondeterministic", "shards=%d XHashIndex(%s) = %d then %d", n, key.repr, x1, x2)
			}
			if x1 < 0 || uint64(x1) >= n {
				k.Logf("%s", line)
				k.Fail("range", "shards=%d XHashIndex(%s) = %d outside [0,%d)", n, key.repr, x1, n)
			} else {
				if key.hasBytes {
					line += fmt.Sprintf(" want=%d", hwant)
					if x1 != hwant {
						k.Logf("%s", line)
						k.Fail("index-mismatch", "shards=%d XHashIndex(%s) = %d, xxhash %#x belongs to part %d of the even partition",
							n, key.repr, x1, key.hashOf(), hwant)
					}
				}
				// the key's hash value must map to exactly one shard whichever way it is asked
				if x1 != si || si != modelShard(h, n) {
					k.Logf("%s", line)
					k.Fail("hash-two-shards", "shards=%d XHashIndex(%s) = %d but SearchIndex(XXHash = %#x) = %d (partition model %d)",
						n, key.repr, x1, h, si, modelShard(h, n))
				}
			}
			if x1 == int(n)-1 && n > 1 {
				k.Count("idx_hash_last_shard", 1)
			}
			if x1 == 0 && n > 1 {
				k.Count("idx_hash_first_shard", 1)
			}
		}
		obs[i] = o
		k.Logf("%s", line)
		// ---- coverage
		k.Count("idx_kind_"+key.kind, 1)
		if key.neg {
			k.Count("idx_negative_int", 1)
			if len(want) > 1 {
				k.Count("idx_negative_readings_differ", 1)
			}
		}
		if key.isInt && (key.sext == math.MaxUint64 || key.sext == 1<<63 || key.sext == 1<<63-1 || key.sext == 0) {
			k.Count("idx_int_extreme", 1)
		}
		if key.hasHit && key.hit >= 1<<63 {
			k.Count("idx_hit_ge_2p63", 1)
		}
		if key.hasBytes && len(key.bytes) >= 32 {
			k.Count("idx_bytes_ge_32", 1)
		}
		if key.hasBytes && len(key.bytes) == 0 {
			k.Count("idx_bytes_empty", 1)
		}
		if s1 == int(n)-1 && n > 1 && !viaHash {
			k.Count("idx_mod_last_shard", 1)
		}
		if n > 1 {
			k.Distinct(engine.HashStr(fmt.Sprintf("i|%d|%s", n, key.repr)))
		}
	}
	// ---- raw hash values through SearchIndex (boundary biased)
	for j := 0; j < 16; j++ {
		h := genHash(r, n)
		a, b := rm.SearchIndex(h), rm.SearchIndex(h)
		evals++
		w := modelShard(h, n)
		k.Logf("hash(%#x) search=%d want=%d", h, a, w)
		if a != b {
			k.Fail("nondeterministic", "shards=%d SearchIndex(%#x) = %d then %d", n, h, a, b)
		}
		if a < 0 || uint64(a) >= n {
			k.Fail("range", "shards=%d SearchIndex(%#x) = %d outside [0,%d)", n, h, a, n)
		} else if a != w {
			k.Fail("index-mismatch", "shards=%d SearchIndex(%#x) = %d, first boundary >= h is number %d", n, h, a, w)
		}
		k.Count("idx_kind_hash", 1)
		if n > 1 {
			k.Distinct(engine.HashStr(fmt.Sprintf("h|%d|%x", n, h)))
		}
	}
	// ---- determinism across goroutines: two goroutines, released together, recompute the
	// whole batch several times each while the other one does the same
	const rounds = 4
	var wg sync.WaitGroup
	var res [2][rounds][]idxObs
	var pan [2]string
	start := make(chan struct{})
	for g := 0; g < 2; g++ {
		wg.Add(1)
		go func(g int) {
			defer wg.Done()
			<-start
			for rd := 0; rd < rounds && pan[g] == ""; rd++ {
				res[g][rd], pan[g] = observe(rm, keys)
			}
		}(g)
	}
	close(start)
	wg.Wait()
	for g := 0; g < 2; g++ {
		if pan[g] != "" {
			k.Fail("panic", "shards=%d goroutine %d recomputing the batch panicked: %s", n, g, pan[g])
			continue
		}
	scan:
		for rd := 0; rd < rounds; rd++ {
			for i := range keys {
				if got := res[g][rd][i]; got != obs[i] {
					k.Logf("goroutine %d round %d: %s simple=%d xhash=%d, caller saw simple=%d xhash=%d", g, rd, keys[i].repr, got.simple, got.xhash, obs[i].simple, obs[i].xhash)
					k.Fail("nondeterministic", "shards=%d key %s: goroutine %d got (simple %d, xhash %d) while another goroutine computed indices, the caller alone got (simple %d, xhash %d)",
						n, keys[i].repr, g, got.simple, got.xhash, obs[i].simple, obs[i].xhash)
					break scan
				}
			}
		}
	}
	k.Count("idx_concurrent_batches", 1)
	k.Evals(evals)
	if n > 1 {
		k.Nontrivial()
	}
}

// partitionCase: one shard count; the partition is observed through SearchIndex only
// (the boundaries are discovered by bisection) and compared with the math/big model.
func partitionCase(k *engine.Case) {
	r := k.R
	n := pickShards(r)
	rm := getReMap(n)
	B := bigBoundaries(n)
	k.Logf("shards=%d", n)
	// harness self-check: the arithmetic and the table model agree on this case's values
	selfCheck := func(h uint64) bool {
		if modelShard(h, n) != firstGE(B, h) {
			k.Inconclusive(fmt.Sprintf("harness models disagree for n=%d", n))
			return false
		}
		return true
	}
	// which boundaries to look at
	var idx []int
	if n <= 96 {
		for i := 0; i < int(n); i++ {
			idx = append(idx, i)
		}
	} else {
		seen := map[int]bool{}
		add := func(i int) {
			if i >= 0 && i < int(n) && !seen[i] {
				seen[i] = true
				idx = append(idx, i)
			}
		}
		for _, i := range []int{0, 1, 2, int(n) - 3, int(n) - 2, int(n) - 1} {
			add(i)
		}
		for j := 0; j < 64; j++ {
			add(r.Intn(int(n)))
		}
		sort.Ints(idx)
	}
	var evals int64
	// evals counts the probes that are compared with an expected value (bisection steps
	// are only range-checked and not counted)
	search := func(h uint64) (int, bool) {
		a := rm.SearchIndex(h)
		if a < 0 || uint64(a) >= n {
			k.Fail("range", "shards=%d SearchIndex(%#x) = %d outside [0,%d)", n, h, a, n)
			return a, false
		}
		return a, true
	}
	// ends of the range
	evals += 2
	if a, ok := search(0); ok && a != 0 {
		k.Fail("partition-cover", "shards=%d SearchIndex(0) = %d, the lowest hash value is not in the first part", n, a)
	}
	if a, ok := search(math.MaxUint64); ok && a != int(n)-1 {
		k.Fail("partition-cover", "shards=%d SearchIndex(2^64-1) = %d, want the last part %d (the partition must be monotone up to the top of the range)", n, a, n-1)
	}
	prevObs := uint64(0)
	havePrev := false
	prevIdx := -2
	for _, i := range idx {
		// observed upper end of part i: the largest x with SearchIndex(x) <= i (bisection,
		// valid under monotonicity, which is checked separately below)
		lo, hi := uint64(0), uint64(math.MaxUint64) // invariant: answer in [lo,hi]
		okAll := true
		if a, ok := search(hi); !ok {
			okAll = false
		} else if a > i {
			for lo < hi {
				m := lo + (hi-lo)/2 + 1
				a, ok := search(m)
				if !ok {
					okAll = false
					break
				}
				if a <= i {
					lo = m
				} else {
					hi = m - 1
				}
			}
		} else {
			lo = hi
		}
		if !okAll {
			return
		}
		ob := lo
		evals++
		k.Logf("part %d: observed upper boundary %#x, model %#x", i, ob, B[i])
		k.Count("part_boundaries_bisected", 1)
		if a, ok := search(ob); ok && a != i {
			k.Fail("partition-cover", "shards=%d part %d is empty: largest x with SearchIndex(x) <= %d is %#x and maps to %d", n, i, i, ob, a)
		}
		if havePrev && prevIdx == i-1 && ob <= prevObs {
			k.Fail("partition-boundary", "shards=%d boundaries not strictly ascending: part %d ends at %#x, part %d at %#x", n, i-1, prevObs, i, ob)
		}
		if i == int(n)-1 && ob != math.MaxUint64 {
			k.Fail("partition-boundary", "shards=%d last boundary observed at %#x, want 2^64-1", n, ob)
		}
		if ob != B[i] {
			k.Fail("partition-boundary", "shards=%d part %d ends at %#x, the math/big computation gives %#x", n, i, ob, B[i])
		}
		prevObs, havePrev, prevIdx = ob, true, i
		// b-1, b, b+1 around the model boundary
		for d := -1; d <= 1; d++ {
			h := B[i] + uint64(d)
			if d == 1 && B[i] == math.MaxUint64 || d == -1 && B[i] == 0 {
				continue
			}
			if !selfCheck(h) {
				return
			}
			w := firstGE(B, h)
			a, ok := search(h)
			if !ok {
				return
			}
			k.Count("part_boundary_probes", 1)
			evals++
			if a != w {
				k.Logf("boundary %d (%#x) %+d: search=%d want=%d", i, B[i], d, a, w)
				k.Fail("partition-boundary", "shards=%d SearchIndex(boundary[%d]%+d = %#x) = %d, want %d", n, i, d, h, a, w)
			}
			if n > 1 {
				k.Distinct(engine.HashStr(fmt.Sprintf("h|%d|%x", n, h)))
			}
		}
	}
	// monotone over a sorted sample of boundary-biased and random hash values
	hs := make([]uint64, 0, 64)
	for j := 0; j < 64; j++ {
		hs = append(hs, genHash(r, n))
	}
	sort.Slice(hs, func(a, b int) bool { return hs[a] < hs[b] })
	last, lastH := 0, uint64(0)
	for j, h := range hs {
		a, ok := search(h)
		if !ok {
			return
		}
		evals++
		b := rm.SearchIndex(h)
		if a != b {
			k.Fail("nondeterministic", "shards=%d SearchIndex(%#x) = %d then %d", n, h, a, b)
		}
		if j > 0 && a < last {
			k.Logf("%#x -> %d, %#x -> %d", lastH, last, h, a)
			k.Fail("partition-nonmonotone", "shards=%d SearchIndex(%#x) = %d but SearchIndex(%#x) = %d", n, lastH, last, h, a)
		}
		if !selfCheck(h) {
			return
		}
		if w := firstGE(B, h); a != w {
			k.Fail("index-mismatch", "shards=%d SearchIndex(%#x) = %d, first math/big boundary >= h is number %d", n, h, a, w)
		}
		last, lastH = a, h
		if n > 1 {
			k.Distinct(engine.HashStr(fmt.Sprintf("h|%d|%x", n, h)))
		}
	}
	k.Count("part_monotone_samples", int64(len(hs)))
	k.Count("part_cases", 1)
	if n == 65537 {
		k.Count("part_cases_65537", 1)
	}
	k.Evals(evals)
	if n > 1 {
		k.Nontrivial()
	}
}

func tryDo(f func()) (p any) {
	defer func() { p = recover() }()
	f()
	return nil
}

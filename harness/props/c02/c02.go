// Package c02 monitors the key lockers: per-key RW exclusion, reader sharing, key
// independence, dead-lock freedom of ordered multi-key calls, and reclaim.
package c02

import (
	"fmt"
	"math"
	"runtime"
	"sort"
	"strings"
	"sync"
	"sync/atomic"
	"time"

	"verifh/engine"

	"github.com/pinealctx/neptune/remap"
	"github.com/pinealctx/neptune/syncx/keylock"
)

var Q *engine.Quiescer
var sink atomic.Int64

// Prop is the C02 check.
var Prop = &engine.Prop{
	ID:    "C02",
	Level: "exploration",
	Rule: "cases are seed-generated controlled schedules (spawn Lock/RLock/Locks/RLocks, unlock, simultaneous bursts; a quiescent cut after every step) over all four locker types and both shardings, " +
		"judged by invariants at each cut (exclusion, reader sharing, independence) and an exact drain, plus parallel stress rounds with occupancy counters and race canaries; " +
		"a schedule is non-trivial when some call had to wait; distinct = distinct program texts including observed outcomes",
	Assumptions: []string{
		"a quiescent goroutine snapshot of a timer-free execution is a fixed point",
		"multi-key calls use duplicate-free sub-sequences of one global key order (the property's domain)",
		"admission order among waiters is not judged (sync.RWMutex decides it)",
	},
	ShardsQuick: 8, ShardsThorough: 16,
	Setup: func(c *engine.Ctx) { Q = engine.NewQuiescer() },
	Kinds: []engine.Kind{
		{Name: "sched", Quick: 12000, Thorough: 800000, Fn: schedCase},
		{Name: "stress", Quick: 16, Thorough: 960, Repeat: 20, Fn: stressCase},
		{Name: "many-holders", Quick: 24, Thorough: 480, Fn: manyHoldersCase},
		{Name: "many-keys", Quick: 60, Thorough: 2400, Fn: manyKeysCase},
		{Name: "footprint", Quick: 8, Thorough: 64, Fn: footprintCase},
	},
	Floors: map[string]int64{
		"pending_observations": 500,
		"multi_key_pending":    20,
		"long_key_lists":       20,
		"reader_sharing":       50,
		"drain_steps":          500,
		"stress_sections":      1000,
	},
}

// locker adapts every locker type to int keys.
type locker interface {
	Name() string
	Multi() bool
	Lock(k int)
	Unlock(k int)
	RLock(k int)
	RUnlock(k int)
	Locks(ks []int)
	Unlocks(ks []int)
	RLocks(ks []int)
	RUnlocks(ks []int)
	Entries() int
}

type anyLocker struct {
	name  string
	l     keylock.Locker
	ent   func() int
	str   bool
	mixed bool
}

// mixedKey maps model key k to an interface{} key whose dynamic type depends on k: model keys
// 0..10 are the number 0 in eleven types, 11..21 the number 1, 22.. the "all ones" pattern
// (-1 / MaxUint); model keys from 33 on are plain ints. As interface{} values they are all
// different keys.
func mixedKey(k int) interface{} {
	if k >= 33 {
		return k // beyond the 33 typed keys: plain ints (different from 0, 1, -1)
	}
	v := k / 11
	ones := v >= 2
	switch k % 11 {
	case 0:
		if ones {
			return int(-1)
		}
		return int(v)
	case 1:
		if ones {
			return int64(-1)
		}
		return int64(v)
	case 2:
		if ones {
			return uint64(math.MaxUint64)
		}
		return uint64(v)
	case 3:
		if ones {
			return int32(-1)
		}
		return int32(v)
	case 4:
		if ones {
			return uint32(math.MaxUint32)
		}
		return uint32(v)
	case 5:
		if ones {
			return uint(math.MaxUint)
		}
		return uint(v)
	case 6:
		if ones {
			return int16(-1)
		}
		return int16(v)
	case 7:
		if ones {
			return uint16(math.MaxUint16)
		}
		return uint16(v)
	case 8:
		if ones {
			return int8(-1)
		}
		return int8(v)
	case 9:
		if ones {
			return byte(255)
		}
		return byte(v)
	}
	return fmt.Sprint(v)
}

func (a *anyLocker) key(k int) interface{} {
	if a.mixed {
		return mixedKey(k)
	}
	if a.str {
		return fmt.Sprintf("k%d", k)
	}
	return k
}
func (a *anyLocker) Name() string      { return a.name }
func (a *anyLocker) Multi() bool       { return false }
func (a *anyLocker) Lock(k int)        { a.l.Lock(a.key(k)) }
func (a *anyLocker) Unlock(k int)      { a.l.Unlock(a.key(k)) }
func (a *anyLocker) RLock(k int)       { a.l.RLock(a.key(k)) }
func (a *anyLocker) RUnlock(k int)     { a.l.RUnlock(a.key(k)) }
func (a *anyLocker) Locks(ks []int)    { panic("no multi") }
func (a *anyLocker) Unlocks(ks []int)  { panic("no multi") }
func (a *anyLocker) RLocks(ks []int)   { panic("no multi") }
func (a *anyLocker) RUnlocks(ks []int) { panic("no multi") }
func (a *anyLocker) Entries() int      { return a.ent() }

type tLocker[T comparable] struct {
	name  string
	l     keylock.TLocker[T]
	ent   func() int
	conv  func(int) T
	bmu   sync.Mutex
	inUse map[*int][]T
	free  map[int][][]T
}

// ks converts a key list. Multi-key callers commonly reuse one buffer for successive lists,
// so the adapter does the same: the slice handed to Locks/RLocks comes from a pool keyed by the
// model list's identity and goes back to the pool when the matching Unlocks/RUnlocks returned;
// the next list of that length then reuses the backing array with new contents.
func (a *tLocker[T]) ks(ks []int) []T {
	if len(ks) == 0 {
		if ks == nil {
			return nil
		}
		return []T{}
	}
	a.bmu.Lock()
	defer a.bmu.Unlock()
	if a.inUse == nil {
		a.inUse = map[*int][]T{}
		a.free = map[int][][]T{}
	}
	id := &ks[0]
	if b, ok := a.inUse[id]; ok {
		return b
	}
	var out []T
	if fl := a.free[len(ks)]; len(fl) > 0 {
		out = fl[len(fl)-1]
		a.free[len(ks)] = fl[:len(fl)-1]
	} else {
		out = make([]T, len(ks))
	}
	for i, k := range ks {
		out[i] = a.conv(k)
	}
	a.inUse[id] = out
	return out
}

func (a *tLocker[T]) recycle(ks []int) {
	if len(ks) == 0 {
		return
	}
	a.bmu.Lock()
	defer a.bmu.Unlock()
	id := &ks[0]
	if b, ok := a.inUse[id]; ok {
		delete(a.inUse, id)
		a.free[len(ks)] = append(a.free[len(ks)], b)
	}
}
func (a *tLocker[T]) Name() string      { return a.name }
func (a *tLocker[T]) Multi() bool       { return true }
func (a *tLocker[T]) Lock(k int)        { a.l.Lock(a.conv(k)) }
func (a *tLocker[T]) Unlock(k int)      { a.l.Unlock(a.conv(k)) }
func (a *tLocker[T]) RLock(k int)       { a.l.RLock(a.conv(k)) }
func (a *tLocker[T]) RUnlock(k int)     { a.l.RUnlock(a.conv(k)) }
func (a *tLocker[T]) Locks(ks []int)    { a.l.Locks(a.ks(ks)) }
func (a *tLocker[T]) Unlocks(ks []int)  { a.l.Unlocks(a.ks(ks)); a.recycle(ks) }
func (a *tLocker[T]) RLocks(ks []int)   { a.l.RLocks(a.ks(ks)) }
func (a *tLocker[T]) RUnlocks(ks []int) { a.l.RUnlocks(a.ks(ks)); a.recycle(ks) }
func (a *tLocker[T]) Entries() int      { return a.ent() }

type entCounter interface{ VerifEntries() int }

func mkAny(name string, l keylock.Locker, str bool) locker {
	return &anyLocker{name: name, l: l, str: str, ent: l.(entCounter).VerifEntries}
}

func mkT[T comparable](name string, l keylock.TLocker[T], conv func(int) T) locker {
	return &tLocker[T]{name: name, l: l, conv: conv, ent: l.(entCounter).VerifEntries}
}

var primes = []uint64{1, 2, 3, 5, 73, 73, 37, 61, 64, 127, 1009, 1031, 4099}

func mkMixed(name string, l keylock.Locker) locker {
	return &anyLocker{name: name, l: l, mixed: true, ent: l.(entCounter).VerifEntries}
}

func intKey(k int) int                                   { return k * 7919 } // spread over the shards of every group size
func strKey(k int) string                                { return fmt.Sprintf("key-%d", k) }
func i64Key(k int) int64                                 { return int64(k) - 2 } // includes negative keys
func u32Key(k int) uint32                                { return uint32(k) * 1000003 }
func pick[T any](r interface{ Intn(int) int }, xs []T) T { return xs[r.Intn(len(xs))] }

func newLocker(r interface{ Intn(int) int }) locker {
	p := pick(r, primes)
	switch r.Intn(15) {
	case 12:
		return mkMixed("KeyLocker[mixed key types]", keylock.NewKeyLocker())
	case 13:
		return mkMixed(fmt.Sprintf("KeyLockerGrp/mod%d[mixed key types]", p), keylock.NewKeyLockeGrp(remap.WithPrime(p)))
	case 14:
		return mkMixed(fmt.Sprintf("KeyLockerGrp/xxh%d[mixed key types]", p), keylock.NewXHashKeyLockeGrp(remap.WithPrime(p)))
	case 0:
		return mkAny("KeyLocker[int]", keylock.NewKeyLocker(), false)
	case 1:
		return mkAny("KeyLocker[string]", keylock.NewKeyLocker(), true)
	case 2:
		return mkAny(fmt.Sprintf("KeyLockerGrp/mod%d[int]", p), keylock.NewKeyLockeGrp(remap.WithPrime(p)), false)
	case 3:
		return mkAny(fmt.Sprintf("KeyLockerGrp/xxh%d[string]", p), keylock.NewXHashKeyLockeGrp(remap.WithPrime(p)), true)
	case 4:
		return mkT[int]("TKeyLocker[int]", keylock.NewTKeyLocker[int](), intKey)
	case 5:
		return mkT[string]("TKeyLocker[string]", keylock.NewTKeyLocker[string](), strKey)
	case 6:
		return mkT[int](fmt.Sprintf("TKeyLockerGrp/mod%d[int]", p), keylock.NewTKeyLockeGrp[int](remap.WithPrime(p)), intKey)
	case 7:
		return mkT[int](fmt.Sprintf("TKeyLockerGrp/xxh%d[int]", p), keylock.NewTXHashTKeyLockeGrp[int](remap.WithPrime(p)), intKey)
	case 8:
		return mkT[string](fmt.Sprintf("TKeyLockerGrp/xxh%d[string]", p), keylock.NewTXHashTKeyLockeGrp[string](remap.WithPrime(p)), strKey)
	case 9:
		return mkT[int64](fmt.Sprintf("TKeyLockerGrp/mod%d[int64]", p), keylock.NewTKeyLockeGrp[int64](remap.WithPrime(p)), i64Key)
	case 10:
		return mkT[uint32](fmt.Sprintf("TKeyLockerGrp/mod%d[uint32]", p), keylock.NewTKeyLockeGrp[uint32](remap.WithPrime(p)), u32Key)
	default:
		return mkT[string](fmt.Sprintf("TKeyLockerGrp/mod%d[string]", p), keylock.NewTKeyLockeGrp[string](remap.WithPrime(p)), strKey)
	}
}

type lop struct {
	id       int
	write    bool
	keys     []int
	multi    bool
	op       *engine.Op
	unlocked bool
}

func (o *lop) name() string {
	m := "RLock"
	if o.write {
		m = "Lock"
	}
	if o.multi {
		return fmt.Sprintf("%ss(%v)", m, o.keys)
	}
	return fmt.Sprintf("%s(%d)", m, o.keys[0])
}

func (o *lop) mentions(k int) bool {
	for _, x := range o.keys {
		if x == k {
			return true
		}
	}
	return false
}

const nkeys = 24 // universe; most cases use only the first 4 (hot) keys

func schedCase(k *engine.Case) {
	r := k.R
	l := newLocker(r)
	const hot = 4
	long := l.Multi() && r.Intn(4) == 0 // some cases use long multi-key lists over the whole universe
	k.Logf("locker=%s long-lists=%v", l.Name(), long)
	d := engine.NewDriver(Q, k)
	var ops []*lop

	state := func(o *lop) string {
		if !o.op.Done() {
			return "pending"
		}
		if o.unlocked {
			return "unlocked"
		}
		return "held"
	}
	describe := func() string {
		var p []string
		for _, o := range ops {
			p = append(p, fmt.Sprintf("#%d:%s=%s", o.id, o.name(), state(o)))
		}
		return strings.Join(p, " ")
	}
	holders := func() []*lop {
		var out []*lop
		for _, o := range ops {
			if state(o) == "held" {
				out = append(out, o)
			}
		}
		return out
	}
	pendings := func() []*lop {
		var out []*lop
		for _, o := range ops {
			if state(o) == "pending" {
				out = append(out, o)
			}
		}
		return out
	}
	doLock := func(o *lop) {
		switch {
		case o.multi && o.write:
			l.Locks(o.keys)
		case o.multi:
			l.RLocks(o.keys)
		case o.write:
			l.Lock(o.keys[0])
		default:
			l.RLock(o.keys[0])
		}
	}
	doUnlock := func(o *lop) {
		switch {
		case o.multi && o.write:
			l.Unlocks(o.keys)
		case o.multi:
			l.RUnlocks(o.keys)
		case o.write:
			l.Unlock(o.keys[0])
		default:
			l.RUnlock(o.keys[0])
		}
	}
	newOp := func() *lop {
		o := &lop{id: len(ops)}
		c := r.Intn(100)
		o.write = c < 45
		if l.Multi() && r.Intn(100) < 40 {
			o.multi = true
			if long && r.Intn(2) == 0 {
				// long list (13-20 keys): a sub-sequence of the global order 0<1<...<23
				n := 13 + r.Intn(8)
				pick := r.Perm(nkeys)[:n]
				sort.Ints(pick)
				o.keys = pick
				k.Count("long_key_lists", 1)
			} else {
				n := 2 + r.Intn(2)
				// sub-sequence of the global order over the hot keys 0<1<2<3
				for len(o.keys) < n {
					o.keys = o.keys[:0]
					for x := 0; x < hot; x++ {
						if r.Intn(2) == 0 {
							o.keys = append(o.keys, x)
						}
					}
				}
			}
		} else if long && r.Intn(3) == 0 {
			o.keys = []int{r.Intn(nkeys)}
		} else {
			o.keys = []int{r.Intn(hot)}
		}
		ops = append(ops, o)
		return o
	}
	launch := func(o *lop, gate <-chan struct{}) {
		o.op = d.Spawn(o.name(), func() any {
			if gate != nil {
				<-gate
			}
			doLock(o)
			return nil
		})
	}
	cleanup := func() {
		// best effort: release everything that is held so goroutines can end
		for i := 0; i < 50; i++ {
			hs := holders()
			if len(hs) == 0 {
				break
			}
			poisoned := false
			for _, o := range hs {
				func() {
					defer func() {
						if recover() != nil {
							poisoned = true // the table mutex may be left locked: give up
						}
					}()
					o.unlocked = true
					doUnlock(o)
				}()
				if poisoned {
					return
				}
			}
			Q.Wait()
		}
	}

	check := func(what string) bool {
		hs, ps := holders(), pendings()
		// (i) exclusion
		for key := 0; key < nkeys; key++ {
			w, rd := 0, 0
			for _, o := range hs {
				if o.mentions(key) {
					if o.write {
						w++
					} else {
						rd++
					}
				}
			}
			if w > 1 || (w == 1 && rd > 0) {
				k.Fail("exclusion", "after %s: key %d is held by %d writer(s) and %d reader(s): %s", what, key, w, rd, describe())
				return false
			}
			if rd >= 2 {
				k.Count("reader_sharing", 1)
			}
		}
		// (ii)/(iii) a pending call needs a reason
		for _, p := range ps {
			k.Count("pending_observations", 1)
			if p.multi {
				k.Count("multi_key_pending", 1)
			}
			reason := false
			for _, key := range p.keys {
				for _, o := range ops {
					if o == p || !o.mentions(key) {
						continue
					}
					st := state(o)
					if st == "unlocked" {
						continue
					}
					if p.write {
						// a writer may wait for any other holder or pending call on the key
						reason = true
					} else if o.write {
						// a reader may wait only for a writer (holding or pending)
						reason = true
					}
				}
			}
			if !reason {
				cls := "independence"
				if !p.write {
					cls = "reader-sharing"
				}
				k.Fail(cls, "after %s: #%d %s is blocked although no other call that could exclude it holds or awaits any of its keys: %s", what, p.id, p.name(), describe())
				return false
			}
		}
		if len(hs) == 0 && len(ps) == 0 {
			if n := l.Entries(); n != 0 {
				k.Fail("residue", "after %s: every lock is released and nobody waits, but the locker keeps %d per-key entrie(s): %s", what, n, describe())
				return false
			}
			k.Count("residue_checks", 1)
		}
		return true
	}

	nsteps := 4 + r.Intn(12)
	ok := true
	for s := 0; s < nsteps && ok; s++ {
		hs := holders()
		c := r.Intn(100)
		switch {
		case c < 55 || len(hs) == 0:
			o := newOp()
			k.Logf("step %d: spawn #%d %s", s, o.id, o.name())
			launch(o, nil)
		case c < 85:
			o := hs[r.Intn(len(hs))]
			k.Logf("step %d: unlock #%d", s, o.id)
			o.unlocked = true
			doUnlock(o)
		default:
			// burst: an unlock racing with one or two new calls
			gate := make(chan struct{})
			var wg sync.WaitGroup
			o := hs[r.Intn(len(hs))]
			names := []string{fmt.Sprintf("unlock #%d", o.id)}
			o.unlocked = true
			wg.Add(1)
			go func() { defer wg.Done(); <-gate; doUnlock(o) }()
			for b := 0; b < 1+r.Intn(2); b++ {
				n := newOp()
				names = append(names, fmt.Sprintf("spawn #%d %s", n.id, n.name()))
				launch(n, gate)
			}
			k.Logf("step %d: burst{%s}", s, strings.Join(names, " || "))
			k.Count("burst_steps", 1)
			Q.Wait()
			close(gate)
			wg.Wait()
		}
		if !d.Quiesce() {
			cleanup()
			return
		}
		k.Logf("        -> %s", describe())
		if len(pendings()) > 0 {
			k.Nontrivial()
		}
		ok = check(fmt.Sprintf("step %d", s))
		k.Count("quiescent_cuts", 1)
		{
			// abstract lock state: per hot key (readers held, writer held, pending readers, pending writers)
			var sb strings.Builder
			for key := 0; key < hot; key++ {
				var rh, wh, rp, wp int
				for _, o := range ops {
					if !o.mentions(key) {
						continue
					}
					switch st := state(o); {
					case st == "held" && o.write:
						wh++
					case st == "held":
						rh++
					case st == "pending" && o.write:
						wp++
					case st == "pending":
						rp++
					}
				}
				fmt.Fprintf(&sb, "%d%d%d%d ", rh, wh, rp, wp)
			}
			k.C.ObserveStr("abstract_lock_states", sb.String())
		}
	}
	if !ok {
		cleanup()
		return
	}
	// drain: unlock every holder one at a time; everything pending must get through
	for ok {
		hs := holders()
		if len(hs) == 0 {
			break
		}
		o := hs[r.Intn(len(hs))]
		k.Logf("drain: unlock #%d", o.id)
		o.unlocked = true
		doUnlock(o)
		if !d.Quiesce() {
			cleanup()
			return
		}
		k.Logf("        -> %s", describe())
		k.Count("drain_steps", 1)
		ok = check(fmt.Sprintf("drain unlock #%d", o.id))
	}
	if !ok {
		cleanup()
		return
	}
	if ps := pendings(); len(ps) > 0 {
		k.Fail("deadlock", "every granted lock has been released but %d call(s) are still blocked at a quiescent fixed point: %s; %v", len(ps), describe(), Q.Describe())
		return
	}
	d.Join()
	if n := l.Entries(); n != 0 {
		k.Fail("residue", "everything released, but the locker keeps %d per-key entrie(s)", n)
	}
}

// ---------------------------------------------------------------- stress

func stressCase(k *engine.Case) {
	r := k.R
	l := newLocker(r)
	workers := []int{4, 8, 12, 16}[r.Intn(4)]
	procs := []int{2, 4, 16}[r.Intn(3)]
	sections := 1500
	old := runtime.GOMAXPROCS(procs)
	defer runtime.GOMAXPROCS(old)
	k.Logf("stress locker=%s workers=%d gomaxprocs=%d sections/worker=%d", l.Name(), workers, procs, sections)
	k.Nontrivial()

	var readers, writers [nkeys]atomic.Int64
	var canary [nkeys]int
	var conflicts, maxReaders, total, multiSections, longSections atomic.Int64
	longLists := l.Multi() && r.Intn(2) == 0
	d := engine.NewDriver(Q, k)
	seeds := make([]int64, workers)
	for i := range seeds {
		seeds[i] = r.Int63()
	}
	multi := l.Multi()
	for w := 0; w < workers; w++ {
		w := w
		d.Spawn(fmt.Sprintf("worker%d", w), func() any {
			x := uint64(seeds[w]) | 1
			next := func() uint64 { x ^= x << 13; x ^= x >> 7; x ^= x << 17; return x }
			sum := 0
			defer func() { sink.Add(int64(sum)) }()
			for i := 0; i < sections; i++ {
				write := next()%3 == 0
				var keys []int
				if multi && next()%3 == 0 {
					width := 4
					if longLists && next()%2 == 0 {
						width = nkeys
					}
					for len(keys) < 2 {
						keys = keys[:0]
						m := next()
						if width == nkeys {
							m |= next() << 7 // dense: 13+ keys are common
						}
						for b := 0; b < width; b++ {
							if m&(1<<b) != 0 {
								keys = append(keys, b)
							}
						}
					}
					if len(keys) > 12 {
						longSections.Add(1)
					}
					multiSections.Add(1)
					if write {
						l.Locks(keys)
					} else {
						l.RLocks(keys)
					}
				} else {
					keys = []int{int(next() % 4)}
					if write {
						l.Lock(keys[0])
					} else {
						l.RLock(keys[0])
					}
				}
				y := int(next() % 3)
				for _, key := range keys {
					if write {
						if writers[key].Add(1) != 1 || readers[key].Load() != 0 {
							conflicts.Add(1)
						}
						canary[key]++
					} else {
						n := readers[key].Add(1)
						if writers[key].Load() != 0 {
							conflicts.Add(1)
						}
						for {
							o := maxReaders.Load()
							if n <= o || maxReaders.CompareAndSwap(o, n) {
								break
							}
						}
						sum += canary[key]
					}
				}
				for j := 0; j < y; j++ {
					runtime.Gosched()
				}
				for _, key := range keys {
					if write {
						canary[key]++
						writers[key].Add(-1)
					} else {
						sum += canary[key]
						readers[key].Add(-1)
					}
				}
				if len(keys) > 1 {
					if write {
						l.Unlocks(keys)
					} else {
						l.RUnlocks(keys)
					}
				} else if write {
					l.Unlock(keys[0])
				} else {
					l.RUnlock(keys[0])
				}
				total.Add(1)
			}
			return nil
		})
	}
	deadline := time.Now().Add(10 * time.Minute)
	for len(d.Pending()) > 0 {
		if time.Now().After(deadline) {
			k.Inconclusive("stress round watchdog")
			return
		}
		time.Sleep(5 * time.Millisecond)
		if Q.IsQuiet() && len(d.Pending()) > 0 {
			time.Sleep(10 * time.Millisecond)
			if Q.IsQuiet() && len(d.Pending()) > 0 {
				k.Fail("deadlock", "stress: %d worker(s) blocked forever at a quiescent fixed point: %s; %v", len(d.Pending()), d.PendingNames(), Q.Describe())
				return
			}
		}
	}
	d.Join()
	k.Count("stress_sections", total.Load())
	k.Count("stress_multi_key_sections", multiSections.Load())
	k.Count("stress_long_list_sections", longSections.Load())
	k.C.Max("stress_reader_concurrency", maxReaders.Load())
	k.Logf("sections=%d multi=%d max concurrent readers=%d conflicts=%d", total.Load(), multiSections.Load(), maxReaders.Load(), conflicts.Load())
	if c := conflicts.Load(); c > 0 {
		k.Fail("exclusion", "stress: %d occupancy conflicts (a writer inside together with another holder)", c)
	}
	if n := l.Entries(); n != 0 {
		k.Fail("residue", "stress: everything released, but the locker keeps %d per-key entrie(s)", n)
	}
}

// ---------------------------------------------------------------- very many holders of one key

// manyHoldersCase: tens of thousands of read locks on one key (more than fit a 16-bit
// counter), one of them released, then a writer arrives: it must wait until the last reader
// has left, and afterwards nothing may be left in the locker.
func manyHoldersCase(k *engine.Case) {
	r := k.R
	l := newLocker(r)
	n := []int{300, 40000, 65537, 65600, 70000, 131100}[r.Intn(6)]
	key := r.Intn(4)
	k.Logf("locker=%s: %d read locks on key %d, one released, then a writer", l.Name(), n, key)
	k.Nontrivial()
	k.C.Max("holders_of_one_key", int64(n))
	d := engine.NewDriver(Q, k)
	for i := 0; i < n; i++ {
		l.RLock(key)
	}
	l.RUnlock(key)
	w := d.Spawn("Lock", func() any { l.Lock(key); return nil })
	if !d.Quiesce() {
		return
	}
	if w.Done() {
		k.Fail("exclusion", "%d goroutine-independent read locks are held on key %d (%d taken, 1 released) and a writer was admitted beside them", n-1, key, n)
		return
	}
	other := d.Spawn("Lock(other key)", func() any { l.Lock(key + 5); l.Unlock(key + 5); return nil })
	if !d.Quiesce() {
		return
	}
	if !other.Done() {
		k.Fail("independence", "a lock on an unrelated key is blocked while key %d has %d readers and a waiting writer", key, n-1)
		return
	}
	for i := 0; i < n-1; i++ {
		l.RUnlock(key)
	}
	if !d.Quiesce() {
		return
	}
	if !w.Done() {
		k.Fail("deadlock", "all %d read locks on key %d were released but the waiting writer is still blocked: %v", n, key, Q.Describe())
		return
	}
	l.Unlock(key)
	d.Join()
	if e := l.Entries(); e != 0 {
		k.Fail("residue", "everything released, but the locker keeps %d per-key entrie(s)", e)
	}
	k.Count("many_holder_rounds", 1)
}

// manyKeysCase: a burst of more than a thousand keys held at the same time and released again
// while one hot key stays held. However the locker manages its table across such a burst, the
// hot key stays held: a conflicting request for it waits, a compatible one is admitted, other
// keys stay independent, and when everything is released nothing is kept.
func manyKeysCase(k *engine.Case) {
	r := k.R
	l := newLocker(r)
	n := 1025 + r.Intn(3000)
	hotWrite := r.Intn(3) == 0
	multi := l.Multi() && r.Intn(2) == 0
	const hot = 0
	k.Logf("locker=%s: hot key held (write=%v), burst of %d other keys locked%s and released", l.Name(), hotWrite, n, map[bool]string{true: " (multi-key calls)", false: ""}[multi])
	k.Nontrivial()
	k.C.Max("keys_held_at_once", int64(n+1))
	d := engine.NewDriver(Q, k)
	if l.Multi() && r.Intn(2) == 0 {
		// a multi-key call with no keys (a duplicate-free list like any other) takes and
		// releases nothing
		for _, empty := range [][]int{nil, {}} {
			l.Locks(empty)
			l.Unlocks(empty)
			l.RLocks(empty)
			l.RUnlocks(empty)
		}
		k.Count("empty_multi_key_calls", 1)
		if e := l.Entries(); e != 0 {
			k.Fail("residue", "multi-key calls with empty lists left %d per-key entries", e)
			return
		}
	}
	if hotWrite {
		l.Lock(hot)
	} else {
		l.RLock(hot)
	}
	burst := func(write bool) bool {
		if multi {
			for from := 1; from <= n; from += 400 {
				to := from + 400
				if to > n+1 {
					to = n + 1
				}
				ks := make([]int, 0, to-from)
				for i := from; i < to; i++ {
					ks = append(ks, i)
				}
				if write {
					l.Locks(ks)
					defer l.Unlocks(ks)
				} else {
					l.RLocks(ks)
					defer l.RUnlocks(ks)
				}
			}
		} else {
			for i := 1; i <= n; i++ {
				if write {
					l.Lock(i)
					defer l.Unlock(i)
				} else {
					l.RLock(i)
					defer l.RUnlock(i)
				}
			}
		}
		if e := l.Entries(); e != n+1 {
			k.Fail("residue", "%d keys are held at once but the locker reports %d per-key entries", n+1, e)
			return false
		}
		return true
	}
	for round, rounds := 0, 1+r.Intn(2); round < rounds; round++ {
		if !burst(r.Intn(3) > 0) {
			return
		}
		if e := l.Entries(); e != 1 {
			k.Fail("residue", "the burst of %d keys was released, only the hot key is held, but the locker keeps %d per-key entries", n, e)
			return
		}
	}
	// the hot key is still held
	w := d.Spawn("Lock(hot)", func() any { l.Lock(hot); return nil })
	if !d.Quiesce() {
		return
	}
	if w.Done() {
		k.Fail("exclusion", "key %d has been held (write=%v) since before a burst of %d other keys was locked and released; a writer asking for it afterwards was admitted beside the holder", hot, hotWrite, n)
		return
	}
	other := d.Spawn("Lock(other key)", func() any { l.Lock(n + 7); l.Unlock(n + 7); return nil })
	if !d.Quiesce() {
		return
	}
	if !other.Done() {
		k.Fail("independence", "a lock on an unrelated key is blocked while the hot key has a holder and a waiting writer")
		return
	}
	if hotWrite {
		l.Unlock(hot)
	} else {
		l.RUnlock(hot)
	}
	if !d.Quiesce() {
		return
	}
	if !w.Done() {
		k.Fail("deadlock", "the hot key was released but the waiting writer is still blocked: %v", Q.Describe())
		return
	}
	l.Unlock(hot)
	d.Join()
	if e := l.Entries(); e != 0 {
		k.Fail("residue", "everything released, but the locker keeps %d per-key entrie(s)", e)
	}
	k.Count("many_keys_rounds", 1)
}

// footprintCase: "when every lock has been released the locker retains no per-key state" -
// also state the entry tables do not show. A hundred thousand distinct keys are locked and
// released (string keys, 40 bytes each); afterwards, with the locker still referenced and the
// garbage collected, the live heap may not have grown by an amount that scales with the number
// of keys: the bound is 3 MiB, while keeping anything per key costs at least 100 000 x (key +
// bookkeeping) >= 6 MiB. The unchanged lockers end a few tens of KiB above where they started.
func footprintCase(k *engine.Case) {
	r := k.R
	var l keylock.TLocker[string]
	name := ""
	p := pick(r, []uint64{1, 3, 73})
	switch r.Intn(3) {
	case 0:
		l, name = keylock.NewTKeyLocker[string](), "TKeyLocker[string]"
	case 1:
		l, name = keylock.NewTKeyLockeGrp[string](remap.WithPrime(p)), fmt.Sprintf("TKeyLockerGrp/mod%d[string]", p)
	default:
		l, name = keylock.NewTXHashTKeyLockeGrp[string](remap.WithPrime(p)), fmt.Sprintf("TKeyLockerGrp/xxh%d[string]", p)
	}
	var al keylock.Locker
	if r.Intn(2) == 0 {
		l = nil
		switch r.Intn(3) {
		case 0:
			al, name = keylock.NewKeyLocker(), "KeyLocker"
		case 1:
			al, name = keylock.NewKeyLockeGrp(remap.WithPrime(p)), fmt.Sprintf("KeyLockerGrp/mod%d", p)
		default:
			al, name = keylock.NewXHashKeyLockeGrp(remap.WithPrime(p)), fmt.Sprintf("KeyLockerGrp/xxh%d", p)
		}
	}
	const n = 100000
	k.Logf("locker=%s: %d distinct string keys locked and released one after the other; live heap before / after", name, n)
	k.Nontrivial()
	heap := func() uint64 {
		var ms runtime.MemStats
		runtime.GC()
		runtime.GC()
		runtime.ReadMemStats(&ms)
		return ms.HeapAlloc
	}
	before := heap()
	for i := 0; i < n; i++ {
		key := fmt.Sprintf("footprint-key-%08d-%016x", i, uint64(i)*0x9e3779b97f4a7c15)
		if l != nil {
			if i%3 == 0 {
				l.RLock(key)
				l.RUnlock(key)
			} else {
				l.Lock(key)
				l.Unlock(key)
			}
		} else {
			if i%3 == 0 {
				al.RLock(key)
				al.RUnlock(key)
			} else {
				al.Lock(key)
				al.Unlock(key)
			}
		}
	}
	after := heap()
	runtime.KeepAlive(l)
	runtime.KeepAlive(al)
	grown := int64(after) - int64(before)
	k.Evals(1)
	k.Count("footprint_cases", 1)
	k.C.Max("footprint_heap_growth_bytes", grown)
	k.Logf("live heap %d -> %d bytes (%+d)", before, after, grown)
	if grown > 3<<20 {
		k.Fail("residue", "%s: after %d distinct keys were locked and released, the live heap is %d bytes above where it started (more than 3 MiB): something is kept per key", name, n, grown)
	}
}

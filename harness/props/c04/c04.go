// Package c04 monitors the LRU caches (cache.LRUCache, cache/tiny.LRUCache and their
// sharded "wide" variants) for equivalence with an ideal LRU of the same capacity.
package c04

import (
	"verifh/engine"
)

// Prop is the C04 check.
var Prop = &engine.Prop{
	ID:    "C04",
	Level: "exploration",
	Rule: "a case is one history: (seq-lru, seq-tiny) a seed-generated program of 20-119 calls of Set/SetIfAbsent/SetAndGetRemoved/Get/Peek/Exist/Delete/Clear/SetCapacity on a fresh cache " +
		"(capacities 0-12 and math.MaxInt64, 2-15 keys of mixed dynamic types, item sizes 0-5 and items as large as / larger than the capacity; 40 % of the calls aim at an entry that is present, half of those at the least recent one) compared in lock step with a slice-based ideal LRU: every result, and Keys/Items/Stats/Length/Size/Capacity/Evictions after every call; " +
		"(wide) the same for the four sharded constructors through their interface (1-100 shards, total capacity such that a shard holds 1-4 units, and math.MaxInt64), against one ideal LRU of capacity total/shards+1 per shard with the shard computed independently and keys chosen so that several share a shard, contents probed with Exist/Peek for every key after every call; " +
		"(lin) 3-4 concurrent clients x 5-8 calls (all methods plus Keys/Items/Stats as observers) on 3 keys with capacity 2, recorded with one atomic clock and checked for linearizability w.r.t. the ideal LRU with porcupine; " +
		"(stress) parallel rounds of 4-8 workers for the race detector with interleaving-independent invariants: exact eviction accounting when every insert is a SetAndGetRemoved, size <= capacity in every Stats snapshot while SetCapacity churns, values only under their own key, no duplicate keys, at-rest accounting, and a counting bound on how soon a just-used entry may be evicted. " +
		"A sequential history is non-trivial when at least one eviction happened, a concurrent one always; distinct = distinct history texts (program + observed results, no time stamps)",
	Assumptions: []string{
		"the slice-based ideal LRU (model.go, 150 lines) is the specification: front = most recent; after each mutation drop from the back while summed size > capacity (an item larger than the capacity therefore flushes the cache and is dropped itself)",
		"SetIfAbsent on a present key refreshes recency (it is a use of the entry); Delete and Clear are not evictions and leave the eviction counter alone",
		"on a miss only the ok flag of Get/Peek is compared, not the value",
		"item sizes >= 0 and small enough that their sum does not overflow int64, capacities 0..math.MaxInt64, comparable keys, Size() constant per value (the property's domain)",
		"the shard of a key is uint64(v) mod n for integers and HitGroup on the modulo route, else xxhash64 into n equal slices of the uint64 range (computed without remap); the ideal per-shard capacity total/n+1 is taken in unbounded integers",
		"stress-recency: a used entry is most recent at the call's linearization point, so with unit items and a fixed capacity C at least C other inserting/refreshing calls must take effect before it can be evicted; calls are counted before invocation and after return with atomic counters",
		"porcupine v1.3.0 decides linearizability; its Unknown verdict is inconclusive",
		"the Go race detector reports races only on executed interleavings",
	},
	ShardsQuick: 8, ShardsThorough: 16,
	Setup: func(c *engine.Ctx) { Q = engine.NewQuiescer() },
	Kinds: []engine.Kind{
		{Name: "seq-lru", Quick: 4000, Thorough: 200000, Fn: seqLRUCase},
		{Name: "seq-tiny", Quick: 2000, Thorough: 100000, Fn: seqTinyCase},
		{Name: "wide", Quick: 2000, Thorough: 100000, Fn: wideCase},
		{Name: "lin", Quick: 2000, Thorough: 100000, Fn: linCase},
		{Name: "gated-size", Quick: 1200, Thorough: 60000, Fn: gatedSizeCase},
		{Name: "size-poll", Quick: 16, Thorough: 320, Fn: sizePollCase},
		{Name: "stress", Quick: 160, Thorough: 4000, Repeat: 20, Fn: stressCase},
	},
	Floors: map[string]int64{
		"lru_histories_with_eviction":             500,
		"lru_oversize_item_flushes_nonempty":      50,
		"lru_inplace_growth_evicting":             50,
		"lru_setcap_shrink_multi":                 50,
		"lru_sagr_multi_removed":                  50,
		"lru_setifabsent_refresh_moves":           50,
		"lru_peek_of_non_front":                   50,
		"lru_zero_size_item":                      50,
		"tiny_histories_with_eviction":            200,
		"tiny_sagr_removed_nonempty":              50,
		"tiny_setcap_shrink_multi":                20,
		"wide_histories_with_eviction":            200,
		"wide_xxhash_histories_with_eviction":     50,
		"wide_multishard_histories_with_eviction": 50,
		"lin_histories":                           1000,
		"lin_histories_with_overlap":              100,
		"stress_ops":                              50000,
		"stress_rounds_capacity_churn":            4,
		"stress_rounds_recency":                   4,
		"stress_recency_pairs_judged":             1000,
		"wide_capacity_maxint64_one_shard":        5,
		"stress_rounds_exact_eviction_accounting": 4,
	},
}

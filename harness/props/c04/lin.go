package c04

import (
	"fmt"
	"runtime"
	"sort"
	"strings"
	"sync"
	"sync/atomic"
	"time"

	"verifh/engine"

	"github.com/anishathalye/porcupine"
	"github.com/pinealctx/neptune/cache"
	"github.com/pinealctx/neptune/cache/tiny"
	"github.com/pinealctx/neptune/remap"
)

// linIn is one recorded invocation.
type linIn struct {
	op    int
	key   int
	v     *val
	cap   int64
	yield bool // yield between taking the call stamp and invoking (widens the interval)
}

func (in linIn) String() string {
	switch in.op {
	case opSet, opSetIfAbsent, opSAGR:
		return fmt.Sprintf("%s(%d,%s)", opNames[in.op], in.key, in.v)
	case opGet, opPeek, opExist, opDelete:
		return fmt.Sprintf("%s(%d)", opNames[in.op], in.key)
	case opSetCap:
		return fmt.Sprintf("SetCapacity(%d)", in.cap)
	case opKeys:
		if in.cap == 1 {
			return "Keys()"
		}
		return "Items()"
	}
	return opNames[in.op] + "()"
}

// linState is an immutable model state for porcupine; key is its canonical encoding.
type linState struct {
	m   *ideal
	key string
}

func vOK(v *val, ok bool) string {
	if !ok {
		return "miss"
	}
	return v.String()
}

// applyLin applies the invocation to the model (mutating it) and returns the output
// an ideal LRU gives, in the same rendering as runLin.
func applyLin(m *ideal, in linIn) string {
	switch in.op {
	case opSet:
		m.set(in.key, in.v)
		return ""
	case opSetIfAbsent:
		m.setIfAbsent(in.key, in.v)
		return ""
	case opSAGR:
		rem, _ := m.set(in.key, in.v)
		return valsStr(rem)
	case opGet:
		return vOK(m.get(in.key))
	case opPeek:
		return vOK(m.peek(in.key))
	case opExist:
		return fmt.Sprint(m.exist(in.key))
	case opDelete:
		return fmt.Sprint(m.del(in.key))
	case opClear:
		m.clear()
		return ""
	case opSetCap:
		m.setCap(in.cap)
		return ""
	case opKeys:
		var sb strings.Builder
		for _, e := range m.ents {
			if in.cap == 1 {
				fmt.Fprintf(&sb, "%v ", e.key)
			} else {
				fmt.Fprintf(&sb, "%v=%s ", e.key, e.v)
			}
		}
		return sb.String()
	case opStats:
		return fmt.Sprintf("len=%d size=%d cap=%d ev=%d", len(m.ents), m.size, m.cap, m.evictions)
	}
	panic("unknown op")
}

// runLinFull executes the invocation on a full cache.
func runLinFull(s sut, in linIn) string {
	switch in.op {
	case opSet:
		s.Set(in.key, in.v)
		return ""
	case opSetIfAbsent:
		s.SetIfAbsent(in.key, in.v)
		return ""
	case opSAGR:
		return valsStr(s.SetAndGetRemoved(in.key, in.v))
	case opGet:
		return vOK(s.Get(in.key))
	case opPeek:
		return vOK(s.Peek(in.key))
	case opExist:
		return fmt.Sprint(s.Exist(in.key))
	case opDelete:
		return fmt.Sprint(s.Delete(in.key))
	case opClear:
		s.Clear()
		return ""
	case opSetCap:
		s.SetCapacity(in.cap)
		return ""
	case opKeys:
		// Keys() / Items() are each one atomic snapshot in recency order
		var sb strings.Builder
		if in.cap == 1 {
			for _, x := range s.Keys() {
				fmt.Fprintf(&sb, "%v ", x)
			}
			return sb.String()
		}
		for _, e := range s.Items() {
			fmt.Fprintf(&sb, "%v=%s ", e.key, e.v)
		}
		return sb.String()
	case opStats:
		l, sz, c, e := s.Stats()
		return fmt.Sprintf("len=%d size=%d cap=%d ev=%d", l, sz, c, e)
	}
	panic("unknown op")
}

func runLinSmall(s small, in linIn) string {
	switch in.op {
	case opSet:
		s.Set(in.key, in.v)
		return ""
	case opGet:
		return vOK(s.Get(in.key))
	case opPeek:
		return vOK(s.Peek(in.key))
	case opExist:
		return fmt.Sprint(s.Exist(in.key))
	case opDelete:
		return fmt.Sprint(s.Delete(in.key))
	}
	panic("op not offered by the wide variants")
}

func linModel(cap0 int64, unit bool) porcupine.Model {
	return porcupine.Model{
		Init: func() interface{} {
			m := newIdeal(cap0, unit)
			return linState{m, m.enc()}
		},
		Step: func(state, input, output interface{}) (bool, interface{}) {
			st := state.(linState)
			n := st.m.clone()
			want := applyLin(n, input.(linIn))
			if want != output.(string) {
				return false, state
			}
			return true, linState{n, n.enc()}
		},
		Equal: func(a, b interface{}) bool { return a.(linState).key == b.(linState).key },
		DescribeOperation: func(in, out interface{}) string {
			return fmt.Sprintf("%s -> %s", in.(linIn), out.(string))
		},
	}
}

var linClock atomic.Int64

// linTarget is one fresh cache of the chosen variant.
type linTarget struct {
	full sut
	sm   small
}

func (t linTarget) run(in linIn) string {
	if t.sm != nil {
		return runLinSmall(t.sm, in)
	}
	return runLinFull(t.full, in)
}

// genLinProg draws one client's program. wide = only the five interface methods.
func genLinProg(k *engine.Case, client, n int, wide, yields bool) []linIn {
	r := k.R
	var prog []linIn
	for i := 0; i < n; i++ {
		in := linIn{key: r.Intn(3), yield: yields && r.Intn(2) == 0}
		if wide {
			switch x := r.Intn(100); {
			case x < 45:
				in.op = opSet
			case x < 70:
				in.op = opGet
			case x < 80:
				in.op = opPeek
			case x < 90:
				in.op = opExist
			default:
				in.op = opDelete
			}
		} else {
			switch x := r.Intn(100); {
			case x < 20:
				in.op = opSet
			case x < 28:
				in.op = opSetIfAbsent
			case x < 42:
				in.op = opSAGR
			case x < 56:
				in.op = opGet
			case x < 62:
				in.op = opPeek
			case x < 66:
				in.op = opExist
			case x < 74:
				in.op = opDelete
			case x < 76:
				in.op = opClear
			case x < 81:
				in.op = opSetCap
				in.cap = r.Int63n(4)
			case x < 91:
				in.op = opKeys
				in.cap = r.Int63n(2) // 1 = Keys(), 0 = Items()
			default:
				in.op = opStats
			}
		}
		if in.op == opSet || in.op == opSetIfAbsent || in.op == opSAGR {
			sz := 1
			switch x := r.Intn(10); {
			case x == 0:
				sz = 0
			case x < 3:
				sz = 2
			case x == 3:
				sz = 3 // larger than the whole capacity
			}
			in.v = &val{id: client*100 + i, sz: sz}
		}
		prog = append(prog, in)
	}
	return prog
}

// linCase: 3-4 clients x 5-8 operations on 3 keys, capacity 2, recorded with one atomic
// logical clock and checked for linearizability against the ideal LRU. Clients start
// behind a barrier, yield between operations and (half of the operations) between
// taking the call stamp and invoking, so that the recorded intervals overlap whatever
// the machine load is. (Real contention on the mutex is the stress kind's business: a
// variant with spin barriers and no yields was tried and overlapped in only 13-19 % of
// the histories on a loaded machine, so it was dropped.)
func linCase(k *engine.Case) {
	r := k.R
	nclients := 3 + r.Intn(2)
	variant := r.Intn(8) // 0-2 lru, 3-5 tiny, 6 wide lru (1 shard), 7 wide tiny (1 shard)
	alt := r.Intn(2) == 0
	unit := variant >= 3 && variant != 6
	wide := variant >= 6
	cap0 := int64(2)
	name := [...]string{"lru", "lru", "lru", "tiny", "tiny", "tiny", "wide-lru", "wide-tiny"}[variant]
	mk := func() linTarget {
		switch {
		case variant < 3:
			return linTarget{full: lruSut{cache.NewLRUCache(cap0)}}
		case variant < 6:
			return linTarget{full: tinySut{tiny.NewLRUCache(cap0)}}
		case variant == 6:
			// one shard of capacity 1/1+1 = 2
			if alt {
				return linTarget{sm: facadeSmall{cache.NeWideLRUCache(1, remap.WithPrime(1))}}
			}
			return linTarget{sm: facadeSmall{cache.NewWideXHashLRUCache(1, remap.WithPrime(1))}}
		default:
			if alt {
				return linTarget{sm: tinySmall{tiny.NeWideLRU(1, remap.WithPrime(1))}}
			}
			return linTarget{sm: tinySmall{tiny.NewWideXHashLRU(1, remap.WithPrime(1))}}
		}
	}
	const hot = false
	const rounds = 1
	targets := make([]linTarget, rounds)
	progs := make([][][]linIn, rounds) // [round][client]
	hists := make([][][]porcupine.Operation, rounds)
	for rd := 0; rd < rounds; rd++ {
		targets[rd] = mk()
		progs[rd] = make([][]linIn, nclients)
		hists[rd] = make([][]porcupine.Operation, nclients)
		for c := 0; c < nclients; c++ {
			progs[rd][c] = genLinProg(k, c, 5+r.Intn(4), wide, !hot)
		}
	}
	var panicked atomic.Bool
	var ready, done sync.WaitGroup
	start := make(chan struct{})
	ready.Add(nclients)
	done.Add(nclients)
	for c := 0; c < nclients; c++ {
		c := c
		go func() {
			defer done.Done()
			ready.Done()
			<-start
			for rd := 0; rd < rounds; rd++ {
				t := targets[rd]
				h := make([]porcupine.Operation, 0, len(progs[rd][c]))
				for _, in := range progs[rd][c] {
					call := linClock.Add(1)
					if in.yield {
						runtime.Gosched()
					}
					var out string
					func() {
						defer func() {
							if p := recover(); p != nil {
								out = fmt.Sprintf("PANIC: %v", p)
								panicked.Store(true)
							}
						}()
						out = t.run(in)
					}()
					ret := linClock.Add(1)
					h = append(h, porcupine.Operation{ClientId: c, Input: in, Call: call, Output: out, Return: ret})
					if !hot {
						runtime.Gosched()
					}
				}
				hists[rd][c] = h
			}
		}()
	}
	ready.Wait()
	close(start)
	done.Wait()

	k.Nontrivial()
	k.Logf("%s capacity=2 clients=%d (call..return stamps relative to the first call)", name, nclients)
	model := linModel(cap0, unit)
	for rd := 0; rd < rounds; rd++ {
		var all []porcupine.Operation
		for _, h := range hists[rd] {
			all = append(all, h...)
		}
		sort.Slice(all, func(i, j int) bool { return all[i].Call < all[j].Call })
		base := all[0].Call
		overl := 0
		for i := range all {
			for j := range all {
				if all[i].ClientId != all[j].ClientId && all[i].Call < all[j].Return && all[j].Call < all[i].Return {
					overl++
					break
				}
			}
		}
		// identity of a history = variant + invocations in call order + observed outputs (no stamps)
		var id strings.Builder
		id.WriteString(name)
		var lines []string
		for _, o := range all {
			lines = append(lines, fmt.Sprintf("c%d %s -> %q  [%d..%d]", o.ClientId, o.Input.(linIn), o.Output.(string), o.Call-base, o.Return-base))
			fmt.Fprintf(&id, "|c%d %s -> %s", o.ClientId, o.Input.(linIn), o.Output.(string))
		}
		k.Distinct(engine.HashStr(id.String()))
		k.Count("lin_histories", 1)
		k.Count("lin_histories_"+name, 1)
		k.Count("lin_ops", int64(len(all)))
		k.Count("lin_ops_overlapping_another_client", int64(overl))
		if overl > 0 {
			k.Count("lin_histories_with_overlap", 1)
		}
		logIt := func() {
			for _, l := range lines {
				k.Logf("%s", l)
			}
		}
		if rd == 0 {
			logIt()
		}
		if panicked.Load() {
			for _, o := range all {
				if strings.HasPrefix(o.Output.(string), "PANIC") {
					if rd != 0 {
						logIt()
					}
					k.Fail("panic", "%s: %s panicked in a concurrent history: %s", name, o.Input.(linIn), o.Output.(string))
					return
				}
			}
			continue
		}
		switch porcupine.CheckOperationsTimeout(model, all, 60*time.Second) {
		case porcupine.Ok:
			k.Count("lin_ok", 1)
		case porcupine.Unknown:
			k.Inconclusive("porcupine timeout")
		default:
			if rd != 0 {
				logIt()
			}
			k.Fail("linearizability:"+name, "history of %d clients on %s (capacity 2, 3 keys) has no linearization that an ideal LRU could produce", nclients, name)
			return
		}
	}
}

package c04

import (
	"encoding/binary"
	"fmt"
	"math"
	"math/rand"
	"reflect"
	"runtime/debug"

	"verifh/engine"

	"github.com/cespare/xxhash/v2"
	"github.com/pinealctx/neptune/cache"
	"github.com/pinealctx/neptune/cache/tiny"
	"github.com/pinealctx/neptune/remap"
)

// hitKey routes itself (remap.HitGroup) - modulo route only.
type hitKey struct {
	H   uint64
	Tag int
}

func (h hitKey) Hit() uint64 { return h.H }

// bsKey provides its own bytes (remap.Bs) - hashed on both routes.
type bsKey struct{ S string }

func (b bsKey) ToBytes() []byte { return []byte(b.S) }

// indepIndex computes the shard of a key without using remap: integers (and HitGroup)
// go by uint64(v) mod n on the modulo route; everything else is hashed with xxhash64 and
// lands in the first of n equal slices of the uint64 range whose upper bound is >= h.
func indepIndex(key interface{}, n uint64, xhash bool) int {
	rv := reflect.ValueOf(key)
	if !xhash {
		switch rv.Kind() {
		case reflect.Int, reflect.Int8, reflect.Int16, reflect.Int32, reflect.Int64:
			return int(uint64(rv.Int()) % n)
		case reflect.Uint, reflect.Uint8, reflect.Uint16, reflect.Uint32, reflect.Uint64:
			return int(rv.Uint() % n)
		}
		if h, ok := key.(hitKey); ok {
			return int(h.H % n)
		}
	}
	var b []byte
	switch rv.Kind() {
	case reflect.String:
		b = []byte(rv.String())
	case reflect.Int8:
		b = []byte{byte(rv.Int())}
	case reflect.Uint8:
		b = []byte{byte(rv.Uint())}
	case reflect.Int16:
		b = binary.LittleEndian.AppendUint16(nil, uint16(rv.Int()))
	case reflect.Uint16:
		b = binary.LittleEndian.AppendUint16(nil, uint16(rv.Uint()))
	case reflect.Int32:
		b = binary.LittleEndian.AppendUint32(nil, uint32(rv.Int()))
	case reflect.Uint32:
		b = binary.LittleEndian.AppendUint32(nil, uint32(rv.Uint()))
	case reflect.Int64, reflect.Int:
		b = binary.LittleEndian.AppendUint64(nil, uint64(rv.Int()))
	case reflect.Uint64, reflect.Uint:
		b = binary.LittleEndian.AppendUint64(nil, rv.Uint())
	default:
		b = []byte(key.(bsKey).S)
	}
	h := xxhash.Sum64(b)
	if h == 0 {
		return 0
	}
	y := uint64(math.MaxUint64) / n
	i := (h - 1) / y // smallest i with y*(i+1) >= h
	if i >= n-1 {
		return int(n - 1)
	}
	return int(i)
}

// candidate keys of every supported dynamic type around the multiples of n, so that on
// the modulo route many of them share a shard.
func wideCandidates(r *rand.Rand, n uint64, xhash bool) []interface{} {
	var out []interface{}
	base := r.Intn(50)
	for j := 0; j < 6; j++ {
		for b := 0; b < 3; b++ {
			v := base + b + j*int(n)
			switch r.Intn(8) {
			case 0:
				out = append(out, v)
			case 1:
				out = append(out, int64(v))
			case 2:
				out = append(out, uint32(v))
			case 3:
				out = append(out, -v) // negative ints route by their two's complement
			case 4:
				out = append(out, uint64(v))
			case 5:
				out = append(out, int32(-v))
			case 6:
				if !xhash {
					out = append(out, hitKey{uint64(v), j})
				} else {
					out = append(out, bsKey{fmt.Sprintf("bs%d", v)})
				}
			default:
				out = append(out, uint16(v))
			}
		}
	}
	out = append(out, uint8(r.Intn(256)), int8(r.Intn(256)-128), int16(-r.Intn(3000)), uint(r.Intn(1000)))
	nstr := 40
	if n > 8 {
		nstr = 400
	}
	for j := 0; j < nstr; j++ {
		out = append(out, fmt.Sprintf("s%d-%d", base, j))
	}
	// duplicates (same dynamic type and value) would be one key
	seen := map[interface{}]bool{}
	uniq := out[:0]
	for _, x := range out {
		if !seen[x] {
			seen[x] = true
			uniq = append(uniq, x)
		}
	}
	return uniq
}

// wideUniverse picks up to ~14 keys so that a few shards receive several keys each.
func wideUniverse(r *rand.Rand, n uint64, xhash bool) (keys []interface{}, idx []int) {
	cands := wideCandidates(r, n, xhash)
	by := map[int][]interface{}{}
	var order []int
	for _, c := range cands {
		i := indepIndex(c, n, xhash)
		if _, ok := by[i]; !ok {
			order = append(order, i)
		}
		by[i] = append(by[i], c)
	}
	// crowded shards first (deterministic: order of first appearance breaks ties)
	crowded := append([]int(nil), order...)
	for i := 1; i < len(crowded); i++ {
		for j := i; j > 0 && len(by[crowded[j]]) > len(by[crowded[j-1]]); j-- {
			crowded[j], crowded[j-1] = crowded[j-1], crowded[j]
		}
	}
	nsh := 1 + r.Intn(3)
	for s := 0; s < nsh && s < len(crowded); s++ {
		ks := by[crowded[s]]
		r.Shuffle(len(ks), func(i, j int) { ks[i], ks[j] = ks[j], ks[i] })
		take := 3 + r.Intn(4)
		if take > len(ks) {
			take = len(ks)
		}
		for _, x := range ks[:take] {
			keys = append(keys, x)
			idx = append(idx, crowded[s])
		}
	}
	// a few loners in other shards
	for s := nsh; s < len(crowded) && s < nsh+2; s++ {
		keys = append(keys, by[crowded[s]][0])
		idx = append(idx, crowded[s])
	}
	return
}

func wideOpIndex(x int) int {
	switch {
	case x < 45:
		return 0
	case x < 70:
		return 1
	case x < 80:
		return 2
	case x < 88:
		return 3
	}
	return 4
}

// shortStack is the panicking stack cut to a readable size.
func shortStack() string {
	st := string(debug.Stack())
	if len(st) > 2500 {
		st = st[:2500]
	}
	return st
}

var widePrimes = []uint64{1, 1, 2, 3, 4, 7, 8, 73, 100}

func wideCase(k *engine.Case) {
	r := k.R
	n := widePrimes[r.Intn(len(widePrimes))]
	xhash := r.Intn(2) == 0
	unit := r.Intn(2) == 0
	// total capacity such that the per-shard capacity total/n+1 is 1..4 (the +1 means a
	// shard can never have capacity 0)
	total := int64(n)*r.Int63n(4) + r.Int63n(int64(n))
	if r.Intn(10) == 0 {
		total = 0
	}
	per := total/int64(n) + 1
	if r.Intn(12) == 0 {
		// the largest capacity there is (the usual way to say "unlimited"): the ideal
		// per-shard capacity total/n+1 is computed without wrapping around
		total = math.MaxInt64 - int64(r.Intn(2))
		per = total / int64(n)
		if per < math.MaxInt64 {
			per++
		}
		k.Count("wide_capacity_maxint64", 1)
		if n == 1 {
			k.Count("wide_capacity_maxint64_one_shard", 1)
		}
	}
	keys, kidx := wideUniverse(r, n, xhash)
	var s small
	name := ""
	switch {
	case unit && xhash:
		s, name = tinySmall{tiny.NewWideXHashLRU(total, remap.WithPrime(n))}, "tiny.NewWideXHashLRU"
	case unit:
		s, name = tinySmall{tiny.NeWideLRU(total, remap.WithPrime(n))}, "tiny.NeWideLRU"
	case xhash:
		s, name = facadeSmall{cache.NewWideXHashLRUCache(total, remap.WithPrime(n))}, "cache.NewWideXHashLRUCache"
	default:
		s, name = facadeSmall{cache.NeWideLRUCache(total, remap.WithPrime(n))}, "cache.NeWideLRUCache"
	}
	if n == 73 && r.Intn(2) == 0 {
		// the default shard count
		switch {
		case unit && xhash:
			s = tinySmall{tiny.NewWideXHashLRU(total)}
		case unit:
			s = tinySmall{tiny.NeWideLRU(total)}
		case xhash:
			s = facadeSmall{cache.NewWideXHashLRUCache(total)}
		default:
			s = facadeSmall{cache.NeWideLRUCache(total)}
		}
		name += "(default prime)"
	}
	prefix := "wide"
	shards := make([]*ideal, n)
	for i := range shards {
		shards[i] = newIdeal(per, unit)
	}
	ks := ""
	for i, x := range keys {
		ks += fmt.Sprintf(" %s@%d", keyStr(x), kidx[i])
	}
	k.Logf("%s shards=%d capacity=%d (per shard %d) keys(key@shard):%s", name, n, total, per, ks)
	nops := 30 + r.Intn(90)
	heavy := r.Intn(3) == 0
	nextID := 0
	bad := false
	fail := func(class, format string, a ...interface{}) {
		if !bad {
			bad = true
			k.Fail(prefix+":"+class, format, a...)
		}
	}
	inflight := ""
	defer func() {
		if p := recover(); p != nil {
			k.Logf("%-36s <- panicked", inflight)
			k.Fail("panic", "%s (%d shards, capacity %d): %s panicked: %v\n%s", name, n, total, inflight, p, shortStack())
		}
	}()
	for i := 0; i < nops && !bad; i++ {
		j := r.Intn(len(keys))
		key, m := keys[j], shards[kidx[j]]
		desc := ""
		x := r.Intn(100)
		inflight = fmt.Sprintf("%s(%s)", [...]string{"Set", "Get", "Peek", "Exist", "Delete"}[wideOpIndex(x)], keyStr(key))
		switch {
		case x < 45:
			nextID++
			v := &val{id: nextID, sz: pickSize(r, per, heavy)}
			if unit && r.Intn(25) == 0 {
				v = nilVal
			}
			desc = fmt.Sprintf("Set(%s,%s)", keyStr(key), v)
			inflight = desc
			s.Set(key, v)
			rem, existed := m.set(key, v)
			if len(rem) > 0 {
				k.Count("wide_set_evicting", 1)
				if existed {
					k.Count("wide_inplace_growth_evicting", 1)
				}
				if !unit && int64(v.sz) > per {
					k.Count("wide_oversize_item", 1)
				}
			}
		case x < 70:
			gv, gok := s.Get(key)
			idx := m.find(key)
			wv, wok := m.get(key)
			desc = fmt.Sprintf("Get(%s) -> %s,%v", keyStr(key), gv, gok)
			if gok != wok || (wok && gv != wv) {
				k.Logf("%s", desc)
				fail("result-Get", "%s: %s, per-shard ideal LRU gives %s,%v (shard %d holds %s)", name, desc, wv, wok, kidx[j], m.keysStr())
			}
			if idx > 0 {
				k.Count("wide_get_refresh_moves", 1)
			}
		case x < 80:
			gv, gok := s.Peek(key)
			wv, wok := m.peek(key)
			desc = fmt.Sprintf("Peek(%s) -> %s,%v", keyStr(key), gv, gok)
			if gok != wok || (wok && gv != wv) {
				k.Logf("%s", desc)
				fail("result-Peek", "%s: %s, per-shard ideal LRU gives %s,%v", name, desc, wv, wok)
			}
			if m.find(key) > 0 {
				k.Count("wide_peek_of_non_front", 1)
			}
		case x < 88:
			g := s.Exist(key)
			w := m.exist(key)
			desc = fmt.Sprintf("Exist(%s) -> %v", keyStr(key), g)
			if g != w {
				k.Logf("%s", desc)
				fail("result-Exist", "%s: %s, per-shard ideal LRU gives %v", name, desc, w)
			}
			if m.find(key) > 0 {
				k.Count("wide_exist_of_non_front", 1)
			}
		default:
			g := s.Delete(key)
			w := m.del(key)
			desc = fmt.Sprintf("Delete(%s) -> %v", keyStr(key), g)
			if g != w {
				k.Logf("%s", desc)
				fail("result-Delete", "%s: %s, per-shard ideal LRU gives %v", name, desc, w)
			}
		}
		if bad {
			break
		}
		// full content comparison through the non-refreshing readers
		inflight = "Exist/Peek probe after " + desc
		for q, kk := range keys {
			mm := shards[kidx[q]]
			wv, wok := mm.peek(kk)
			if g := s.Exist(kk); g != wok {
				k.Logf("%s", desc)
				fail("content", "%s: after %s Exist(%s)=%v but the ideal LRU of shard %d (capacity %d) holds %s", name, desc, keyStr(kk), g, kidx[q], per, mm.keysStr())
				break
			}
			if gv, gok := s.Peek(kk); gok != wok || (wok && gv != wv) {
				k.Logf("%s", desc)
				fail("content", "%s: after %s Peek(%s)=%s,%v but the ideal LRU of shard %d (capacity %d) holds %s", name, desc, keyStr(kk), gv, gok, kidx[q], per, mm.keysStr())
				break
			}
		}
		k.Logf("%-36s shard %d: %s size=%d/%d", desc, kidx[j], m.keysStr(), m.size, m.cap)
		k.Count("wide_steps", 1)
	}
	var ev int64
	for _, m := range shards {
		ev += m.evictions
		if m.size > m.cap {
			panic("model broken")
		}
	}
	if ev > 0 {
		k.Nontrivial()
		k.Count("wide_evictions", ev)
		k.Count("wide_histories_with_eviction", 1)
		if xhash {
			k.Count("wide_xxhash_histories_with_eviction", 1)
		} else {
			k.Count("wide_modulo_histories_with_eviction", 1)
		}
		if n > 1 {
			k.Count("wide_multishard_histories_with_eviction", 1)
		}
	}
	k.Count("wide_histories", 1)
}

package c04

import (
	"fmt"
	"strings"
)

// val is the value type stored in the caches under test. Its identity (pointer) is what
// is compared; Size() is constant for the life of the value.
type val struct {
	id   int
	sz   int
	gate *sizeGate // kind gated-size only: the first Size() call parks until the harness opens the gate
}

// Size implements cache.Value.
func (v *val) Size() int {
	if v.gate != nil {
		v.gate.enter()
	}
	return v.sz
}

func (v *val) String() string {
	if v == nil {
		return "nil"
	}
	if v == nilVal {
		return "<nil-value>"
	}
	if v == foreignVal {
		return "<foreign>"
	}
	return fmt.Sprintf("v%d/%d", v.id, v.sz)
}

// nilVal stands for "the untyped nil stored as a value" (tiny caches accept any value);
// foreignVal stands for something that was never stored by the harness.
var nilVal = &val{id: -1}
var foreignVal = &val{id: -2}

type ment struct {
	key  interface{}
	v    *val
	size int64
}

// ideal is the reference LRU: a slice, front (index 0) = most recently used; after every
// mutation it drops entries from the back while the summed size exceeds the capacity.
// unit = every entry weighs 1 (tiny variant).
type ideal struct {
	ents      []ment
	cap       int64
	size      int64
	evictions int64
	unit      bool
}

func newIdeal(capacity int64, unit bool) *ideal { return &ideal{cap: capacity, unit: unit} }

func (m *ideal) clone() *ideal {
	n := *m
	n.ents = append([]ment(nil), m.ents...)
	return &n
}

func (m *ideal) find(key interface{}) int {
	for i := range m.ents {
		if m.ents[i].key == key {
			return i
		}
	}
	return -1
}

func (m *ideal) weight(v *val) int64 {
	if m.unit {
		return 1
	}
	return int64(v.sz)
}

func (m *ideal) toFront(i int) {
	e := m.ents[i]
	copy(m.ents[1:i+1], m.ents[:i])
	m.ents[0] = e
}

func (m *ideal) pushFront(e ment) {
	m.ents = append(m.ents, ment{})
	copy(m.ents[1:], m.ents)
	m.ents[0] = e
}

// shrink evicts from the back while size > cap and returns the evicted values in
// eviction order (least recently used first).
func (m *ideal) shrink() (removed []*val) {
	for m.size > m.cap && len(m.ents) > 0 {
		e := m.ents[len(m.ents)-1]
		m.ents = m.ents[:len(m.ents)-1]
		m.size -= e.size
		m.evictions++
		removed = append(removed, e.v)
	}
	return removed
}

// set = Set / SetAndGetRemoved. existed reports update-in-place.
func (m *ideal) set(key interface{}, v *val) (removed []*val, existed bool) {
	w := m.weight(v)
	if i := m.find(key); i >= 0 {
		m.size += w - m.ents[i].size
		m.ents[i].v = v
		m.ents[i].size = w
		m.toFront(i)
		return m.shrink(), true
	}
	m.pushFront(ment{key, v, w})
	m.size += w
	return m.shrink(), false
}

func (m *ideal) setIfAbsent(key interface{}, v *val) (removed []*val, existed bool) {
	if i := m.find(key); i >= 0 {
		m.toFront(i)
		return nil, true
	}
	r, _ := m.set(key, v)
	return r, false
}

func (m *ideal) get(key interface{}) (*val, bool) {
	if i := m.find(key); i >= 0 {
		v := m.ents[i].v
		m.toFront(i)
		return v, true
	}
	return nil, false
}

func (m *ideal) peek(key interface{}) (*val, bool) {
	if i := m.find(key); i >= 0 {
		return m.ents[i].v, true
	}
	return nil, false
}

func (m *ideal) exist(key interface{}) bool { return m.find(key) >= 0 }

func (m *ideal) del(key interface{}) bool {
	i := m.find(key)
	if i < 0 {
		return false
	}
	m.size -= m.ents[i].size
	m.ents = append(m.ents[:i], m.ents[i+1:]...)
	return true
}

func (m *ideal) clear() {
	m.ents = m.ents[:0]
	m.size = 0
}

func (m *ideal) setCap(c int64) (removed []*val) {
	m.cap = c
	return m.shrink()
}

func keyStr(k interface{}) string {
	switch v := k.(type) {
	case string:
		return fmt.Sprintf("%q", v)
	case int:
		return fmt.Sprintf("%d", v)
	default:
		return fmt.Sprintf("%T(%v)", k, k)
	}
}

func (m *ideal) keysStr() string {
	var sb strings.Builder
	sb.WriteByte('[')
	for i, e := range m.ents {
		if i > 0 {
			sb.WriteByte(' ')
		}
		sb.WriteString(keyStr(e.key))
		sb.WriteByte('=')
		sb.WriteString(e.v.String())
	}
	sb.WriteByte(']')
	return sb.String()
}

// enc is a canonical encoding of the whole state (porcupine state identity).
func (m *ideal) enc() string {
	return fmt.Sprintf("%s c=%d s=%d e=%d", m.keysStr(), m.cap, m.size, m.evictions)
}

func valsStr(vs []*val) string {
	var sb strings.Builder
	sb.WriteByte('[')
	for i, v := range vs {
		if i > 0 {
			sb.WriteByte(' ')
		}
		sb.WriteString(v.String())
	}
	sb.WriteByte(']')
	return sb.String()
}

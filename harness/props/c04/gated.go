package c04

import (
	"fmt"
	"sync"
	"sync/atomic"

	"verifh/engine"

	"github.com/pinealctx/neptune/cache"
)

// Q detects parked goroutines (kind gated-size).
var Q *engine.Quiescer

// sizeGate parks the first Size() call on a value until the harness opens it: the cache is
// then stopped in the middle of one write, wherever it measures the value (with or without
// its lock held), and a second operation is issued against it.
type sizeGate struct {
	armed   atomic.Bool
	entered atomic.Bool
	ch      chan struct{}
}

func (g *sizeGate) enter() {
	if g.armed.CompareAndSwap(true, false) {
		g.entered.Store(true)
		<-g.ch
	}
}

// gatedSizeCase: two operations, the first one stopped inside its value's Size() call. The
// results of both and the state afterwards must be those of the ideal cache executing the two
// operations in one of the two possible orders ("also when operations are issued
// concurrently") - a deterministic stand-in for the race window of a write that measures its
// value outside the lock and then inserts without looking again.
func gatedSizeCase(k *engine.Case) {
	r := k.R
	capacity := int64(3 + r.Intn(10))
	c := cache.NewLRUCache(capacity)
	s := lruSut{c}
	m := newIdeal(capacity, false)
	nextID := 0
	newVal := func(sz int) *val { nextID++; return &val{id: nextID, sz: sz} }
	for i, n := 0, r.Intn(6); i < n; i++ {
		in := linIn{op: opSet, key: r.Intn(4), v: newVal(1 + r.Intn(4))}
		runLinFull(s, in)
		applyLin(m, in)
	}
	k.Logf("cache.LRUCache capacity %d, before: %s", capacity, runLinFull(s, linIn{op: opKeys}))
	g := &sizeGate{ch: make(chan struct{})}
	g.armed.Store(true)
	a := linIn{op: []int{opSet, opSetIfAbsent, opSAGR}[r.Intn(3)], key: r.Intn(4), v: newVal(1 + r.Intn(5))}
	a.v.gate = g
	b := linIn{op: []int{opSet, opSetIfAbsent, opSetIfAbsent, opSAGR, opGet, opPeek, opExist, opDelete, opStats, opKeys}[r.Intn(10)], key: r.Intn(4)}
	if r.Intn(2) == 0 {
		b.key = a.key
	}
	if b.op <= opSAGR {
		b.v = newVal(1 + r.Intn(5))
	}
	d := engine.NewDriver(Q, k)
	opA := d.Spawn("A:"+a.String(), func() any { return runLinFull(s, a) })
	if !d.Quiesce() {
		close(g.ch)
		return
	}
	opB := d.Spawn("B:"+b.String(), func() any { return runLinFull(s, b) })
	if !d.Quiesce() {
		close(g.ch)
		return
	}
	bEarly := opB.Done()
	close(g.ch)
	if !d.Quiesce() {
		return
	}
	if !opA.Done() || !opB.Done() {
		k.Fail("gated:stuck", "A=%s (stopped inside Size()) and B=%s: after Size() returned, done(A)=%v done(B)=%v", a, b, opA.Done(), opB.Done())
		return
	}
	if pa, pb := opA.Panic(), opB.Panic(); pa != nil || pb != nil {
		k.Fail("gated:panic", "A=%s panicked: %v; B=%s panicked: %v", a, pa, b, pb)
		return
	}
	outA, outB := opA.Result().(string), opB.Result().(string)
	final := runLinFull(s, linIn{op: opKeys}) + " | " + runLinFull(s, linIn{op: opStats})
	k.Evals(1)
	k.Count("gated_cases", 1)
	if g.entered.Load() {
		k.Nontrivial()
		k.Count("gated_stopped_inside_size", 1)
		if bEarly {
			k.Count("gated_second_op_completed_meanwhile", 1)
		} else {
			k.Count("gated_second_op_waited", 1)
		}
	}
	k.Logf("A=%s -> %q   B=%s -> %q (B finished while A was inside Size(): %v)   after: %s", a, outA, b, outB, bEarly, final)
	var tried []string
	for _, order := range [][2]linIn{{a, b}, {b, a}} {
		mm := m.clone()
		o1 := applyLin(mm, order[0])
		o2 := applyLin(mm, order[1])
		wantA, wantB := o1, o2
		if order[0].v != a.v || order[0].op != a.op {
			wantA, wantB = o2, o1
		}
		wantFinal := applyLin(mm, linIn{op: opKeys}) + " | " + applyLin(mm, linIn{op: opStats})
		if wantA == outA && wantB == outB && wantFinal == final {
			k.Count("gated_explained_by_an_order", 1)
			return
		}
		tried = append(tried, fmt.Sprintf("[%s then %s: A->%q B->%q after: %s]", order[0], order[1], wantA, wantB, wantFinal))
	}
	k.Fail("gated:not-serializable", "A=%s was stopped inside its value's Size(), B=%s was issued meanwhile. Observed A->%q B->%q, afterwards %s. The ideal cache gives %v", a, b, outA, outB, final, tried)
}

// sizePollCase: "the summed item size never exceeds the capacity after an operation returns ...
// also when operations are issued concurrently": a cache filled with many small items receives
// one item as large as its whole capacity (the Set has to evict everything - a long critical
// section) while other goroutines keep reading Size(), Length() and Stats(). No reading may
// exceed the capacity, and Size never disagrees with what Length allows.
func sizePollCase(k *engine.Case) {
	r := k.R
	n := 20000 + r.Intn(30000)
	c := cache.NewLRUCache(int64(n))
	for i := 0; i < n; i++ {
		c.Set(i, &val{id: i, sz: 1})
	}
	k.Logf("cache.LRUCache capacity %d holding %d items of size 1; one Set of an item of size %d while 3 goroutines poll Size / Length / Stats", n, n, n)
	k.Nontrivial()
	var stop atomic.Bool
	var worst atomic.Int64
	var polls atomic.Int64
	var wg sync.WaitGroup
	for p := 0; p < 3; p++ {
		p := p
		wg.Add(1)
		go func() {
			defer wg.Done()
			for !stop.Load() {
				var sz int64
				switch p {
				case 0:
					sz = c.Size()
				case 1:
					_, sz, _, _ = c.Stats()
				default:
					sz = c.Size()
					if l := c.Length(); l > int64(n) {
						sz = l + int64(n) // more entries than can fit
					}
				}
				polls.Add(1)
				for {
					w := worst.Load()
					if sz <= w || worst.CompareAndSwap(w, sz) {
						break
					}
				}
			}
		}()
	}
	for round := 0; round < 6; round++ {
		c.Set("big", &val{id: -7, sz: n})
		for i := 0; i < n; i++ {
			c.Set(i, &val{id: i, sz: 1})
		}
	}
	stop.Store(true)
	wg.Wait()
	// one evaluation per case: the number of readings depends on the speed of the machine and
	// is reported as a counter only
	k.Evals(1)
	k.Count("size_poll_readings", polls.Load())
	if w := worst.Load(); w > int64(n) {
		k.Fail("stress:size-over-capacity", "capacity %d: a concurrent reader saw a size of %d while one Set was evicting", n, w)
	}
}

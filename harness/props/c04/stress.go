package c04

import (
	"fmt"
	"runtime"
	"runtime/debug"
	"sync"

	"verifh/engine"

	"github.com/pinealctx/neptune/cache"
	"github.com/pinealctx/neptune/cache/tiny"
	"github.com/pinealctx/neptune/remap"
)

const stressKeyBits = 6 // value ids carry the key index in their low bits

// stressCase is the E2 round: parallel workers hammer one cache with every method so
// that the race detector sees all pairs of methods; the verdicts raised here are
// invariants that hold in every interleaving of a linearizable LRU.
func stressCase(k *engine.Case) {
	r := k.R
	variant := r.Intn(6) // 0,1 lru  2,3 tiny  4 wide lru  5 wide tiny
	workers := []int{4, 6, 8}[r.Intn(3)]
	procs := []int{2, 4, 8, 16}[r.Intn(4)]
	nops := 1200
	nkeys := 4 + r.Intn(8)
	mode := r.Intn(4) // 0 exact eviction accounting, 1 mix of everything, 2 capacity churn, 3 recency
	if mode == 3 && variant < 4 {
		recencyRound(k, variant >= 2, workers, procs)
		return
	}
	sagrOnly := mode == 0 // only SetAndGetRemoved inserts: every eviction is reported to a caller
	capacity := int64(2 + r.Intn(5))
	var full sut
	var sm small
	unit := false
	name := ""
	switch variant {
	case 0, 1:
		full, name = lruSut{cache.NewLRUCache(capacity)}, "lru"
	case 2, 3:
		full, name, unit = tinySut{tiny.NewLRUCache(capacity)}, "tiny", true
	default:
		p := []uint64{1, 3, 73}[r.Intn(3)]
		xh := r.Intn(2) == 0
		unit = variant == 5
		switch {
		case unit && xh:
			sm = tinySmall{tiny.NewWideXHashLRU(capacity, remap.WithPrime(p))}
		case unit:
			sm = tinySmall{tiny.NeWideLRU(capacity, remap.WithPrime(p))}
		case xh:
			sm = facadeSmall{cache.NewWideXHashLRUCache(capacity, remap.WithPrime(p))}
		default:
			sm = facadeSmall{cache.NeWideLRUCache(capacity, remap.WithPrime(p))}
		}
		name = fmt.Sprintf("wide(unit=%v xxhash=%v shards=%d)", unit, xh, p)
	}
	old := runtime.GOMAXPROCS(procs)
	defer runtime.GOMAXPROCS(old)
	k.Logf("stress %s capacity=%d keys=%d workers=%d gomaxprocs=%d ops/worker=%d sagrOnly=%v", name, capacity, nkeys, workers, procs, nops, sagrOnly)
	k.Nontrivial()

	var mu sync.Mutex // guards the verdict fields below
	var firstClass, firstMsg string
	report := func(class, format string, a ...interface{}) {
		mu.Lock()
		if firstClass == "" {
			firstClass, firstMsg = class, fmt.Sprintf(format, a...)
		}
		mu.Unlock()
	}
	removed := make([][]*val, workers)
	seeds := make([]uint64, workers)
	for i := range seeds {
		seeds[i] = r.Uint64() | 1
	}
	capFixed := sagrOnly || r.Intn(2) == 0
	// churn: a round of little else than SetCapacity up/down, inserts and Stats, so that a
	// resize that is not one atomic step (size above capacity visible in between) is seen
	churn := mode == 2 && sm == nil
	if churn {
		capFixed = false
		nops = 3000
	}
	k.Logf("capacity fixed=%v churn=%v", capFixed, churn)
	var wg sync.WaitGroup
	start := make(chan struct{})
	for w := 0; w < workers; w++ {
		w := w
		wg.Add(1)
		go func() {
			defer wg.Done()
			x := seeds[w]
			next := func() uint64 { x ^= x << 13; x ^= x >> 7; x ^= x << 17; return x }
			checkVal := func(op string, ki int, v *val, ok bool) {
				if !ok {
					return
				}
				if v == nil || v == foreignVal || v == nilVal || v.id&(1<<stressKeyBits-1) != ki {
					report("stress:wrong-value", "%s: %s(key %d) returned %s, a value that was never stored under that key", name, op, ki, v)
				}
			}
			lastEv := int64(-1)
			defer func() {
				if p := recover(); p != nil {
					report("panic", "%s: panic in a concurrent caller: %v\n%s", name, p, debug.Stack())
				}
			}()
			<-start
			for i := 0; i < nops; i++ {
				ki := int(next() % uint64(nkeys))
				sz := 1
				if !unit {
					sz = int(next() % 4)
				}
				v := &val{id: ((w*nops+i)<<stressKeyBits | ki), sz: sz}
				op := next() % 100
				if sm != nil {
					switch {
					case op < 40:
						sm.Set(ki, v)
					case op < 65:
						gv, ok := sm.Get(ki)
						checkVal("Get", ki, gv, ok)
					case op < 80:
						gv, ok := sm.Peek(ki)
						checkVal("Peek", ki, gv, ok)
					case op < 90:
						sm.Exist(ki)
					default:
						sm.Delete(ki)
					}
					continue
				}
				s := full
				if churn {
					switch {
					case op < 25:
						s.SetCapacity(int64(next() % 3))
					case op < 35:
						s.SetCapacity(int64(4 + next()%8))
					case op < 60:
						s.Set(ki, v)
					case op < 65:
						removed[w] = append(removed[w], s.SetAndGetRemoved(ki, v)...)
					default:
						l, size, c, _ := s.Stats()
						if size > c {
							report("stress:size-exceeds-capacity", "%s: Stats() = length %d size %d capacity %d: size above capacity while SetCapacity calls are in flight", name, l, size, c)
						}
						if unit && size != l {
							report("stress:size-length", "%s: Stats() = length %d size %d (every entry weighs 1)", name, l, size)
						}
					}
					if next()%4 == 0 {
						runtime.Gosched() // de-phase the workers
					}
					continue
				}
				switch {
				case op < 14:
					if sagrOnly {
						removed[w] = append(removed[w], s.SetAndGetRemoved(ki, v)...)
					} else {
						s.Set(ki, v)
					}
				case op < 20:
					if sagrOnly {
						removed[w] = append(removed[w], s.SetAndGetRemoved(ki, v)...)
					} else {
						s.SetIfAbsent(ki, v)
					}
				case op < 36:
					removed[w] = append(removed[w], s.SetAndGetRemoved(ki, v)...)
				case op < 50:
					gv, ok := s.Get(ki)
					checkVal("Get", ki, gv, ok)
				case op < 58:
					gv, ok := s.Peek(ki)
					checkVal("Peek", ki, gv, ok)
				case op < 63:
					s.Exist(ki)
				case op < 72:
					s.Delete(ki)
				case op < 73:
					if !sagrOnly {
						s.Clear()
					}
				case op < 77:
					if !capFixed {
						s.SetCapacity(int64(next() % 8))
					}
				case op < 82:
					ks := s.Keys()
					for a := range ks {
						for b := a + 1; b < len(ks); b++ {
							if ks[a] == ks[b] {
								report("stress:duplicate-key", "%s: Keys() lists key %v twice: %v", name, ks[a], ks)
							}
						}
					}
				case op < 86:
					for _, it := range s.Items() {
						if kk, ok := it.key.(int); ok {
							checkVal("Items", kk, it.v, true)
						}
					}
				case op < 92:
					l, size, c, e := s.Stats()
					if size > c {
						report("stress:size-exceeds-capacity", "%s: Stats() = length %d size %d capacity %d: size above capacity", name, l, size, c)
					}
					if unit && size != l {
						report("stress:size-length", "%s: Stats() = length %d size %d (every entry weighs 1)", name, l, size)
					}
					if l < 0 || size < 0 || (capFixed && c != capacity) {
						report("stress:stats", "%s: Stats() = length %d size %d capacity %d", name, l, size, c)
					}
					if e < lastEv {
						report("stress:evictions-decreased", "%s: evictions went from %d to %d", name, lastEv, e)
					}
					lastEv = e
				case op < 94:
					if e := s.Evictions(); e < lastEv {
						report("stress:evictions-decreased", "%s: evictions went from %d to %d", name, lastEv, e)
					} else {
						lastEv = e
					}
				case op < 96:
					if capFixed {
						if sz := s.Size(); sz > capacity {
							report("stress:size-exceeds-capacity", "%s: Size() = %d with capacity %d", name, sz, capacity)
						}
					} else {
						s.Size()
					}
				case op < 98:
					if l := s.Length(); l < 0 || l > int64(nkeys) {
						report("stress:length", "%s: Length() = %d with %d keys in use", name, l, nkeys)
					}
				default:
					s.Capacity()
				}
			}
		}()
	}
	close(start)
	wg.Wait()
	k.Count("stress_rounds", 1)
	if churn {
		k.Count("stress_rounds_capacity_churn", 1)
	}
	k.Count("stress_ops", int64(workers*nops))

	// final, single-threaded accounting
	if sm != nil {
		for ki := 0; ki < nkeys; ki++ {
			ex := sm.Exist(ki)
			pv, pok := sm.Peek(ki)
			if ex != pok {
				report("stress:final-accounting", "%s: at rest Exist(%d)=%v but Peek ok=%v", name, ki, ex, pok)
			}
			if pok && (pv == nil || pv == foreignVal || pv.id&(1<<stressKeyBits-1) != ki) {
				report("stress:wrong-value", "%s: at rest Peek(%d) = %s", name, ki, pv)
			}
		}
	} else {
		s := full
		items := s.Items()
		keys := s.Keys()
		l, size, c, e := s.Stats()
		var sum int64
		present := map[*val]bool{}
		seen := map[interface{}]bool{}
		for i, it := range items {
			if seen[it.key] {
				report("stress:duplicate-key", "%s: at rest Items() lists key %v twice", name, it.key)
			}
			seen[it.key] = true
			if i >= len(keys) || keys[i] != it.key {
				report("stress:final-accounting", "%s: at rest Keys()=%v disagrees with Items()", name, keys)
			}
			if it.v == nil || it.v == foreignVal {
				report("stress:wrong-value", "%s: at rest Items() holds %s", name, it.v)
				continue
			}
			present[it.v] = true
			if unit {
				sum++
			} else {
				sum += int64(it.v.sz)
			}
			if !s.Exist(it.key) {
				report("stress:final-accounting", "%s: at rest key %v is listed but Exist says no", name, it.key)
			}
		}
		if int64(len(items)) != l || len(keys) != len(items) || sum != size || size > c {
			report("stress:final-accounting", "%s: at rest Stats length=%d size=%d capacity=%d but Items() has %d entries weighing %d, Keys() %d", name, l, size, c, len(items), sum, len(keys))
		}
		dup := map[*val]bool{}
		var nrem int64
		for _, rs := range removed {
			for _, v := range rs {
				nrem++
				if v == nil || v == foreignVal {
					report("stress:wrong-value", "%s: SetAndGetRemoved reported %s", name, v)
					continue
				}
				if dup[v] {
					report("stress:removed-twice", "%s: value %s was reported as removed twice", name, v)
				}
				dup[v] = true
				if present[v] {
					report("stress:removed-but-present", "%s: value %s was reported as removed and is still in the cache", name, v)
				}
			}
		}
		if sagrOnly && nrem != e {
			report("stress:removed-count", "%s: all inserts went through SetAndGetRemoved, which reported %d removed values in total, but Evictions()=%d", name, nrem, e)
		}
		if nrem > e {
			report("stress:removed-count", "%s: %d values reported as removed but Evictions()=%d", name, nrem, e)
		}
		k.Count("stress_removed_values", nrem)
		k.Count("stress_evictions", e)
		if sagrOnly {
			k.Count("stress_rounds_exact_eviction_accounting", 1)
		}
	}
	mu.Lock()
	cl, msg := firstClass, firstMsg
	mu.Unlock()
	if cl != "" {
		k.Fail(cl, "%s", msg)
	}
}

package c04

import (
	"github.com/pinealctx/neptune/cache"
	"github.com/pinealctx/neptune/cache/tiny"
)

type kv struct {
	key interface{}
	v   *val
}

// sut adapts cache.LRUCache and tiny.LRUCache to one shape (values are *val).
type sut interface {
	Name() string
	Unit() bool
	Set(k interface{}, v *val)
	SetIfAbsent(k interface{}, v *val)
	SetAndGetRemoved(k interface{}, v *val) []*val
	Get(k interface{}) (*val, bool)
	Peek(k interface{}) (*val, bool)
	Exist(k interface{}) bool
	Delete(k interface{}) bool
	Clear()
	SetCapacity(c int64)
	Keys() []interface{}
	Items() []kv
	Stats() (length, size, capacity, evictions int64)
	Length() int64
	Size() int64
	Capacity() int64
	Evictions() int64
}

// small is the part shared with the wide variants (cache.LRUFacade / tiny.LRU).
type small interface {
	Set(k interface{}, v *val)
	Get(k interface{}) (*val, bool)
	Peek(k interface{}) (*val, bool)
	Exist(k interface{}) bool
	Delete(k interface{}) bool
}

func fromValue(v cache.Value) *val {
	if v == nil {
		return nil
	}
	if x, ok := v.(*val); ok {
		return x
	}
	return foreignVal
}

func fromAny(v interface{}) *val {
	if v == nil {
		return nilVal
	}
	if x, ok := v.(*val); ok {
		return x
	}
	return foreignVal
}

func toAny(v *val) interface{} {
	if v == nilVal {
		return nil
	}
	return v
}

// ---- cache.LRUCache

type lruSut struct{ c *cache.LRUCache }

func (s lruSut) Name() string                      { return "lru" }
func (s lruSut) Unit() bool                        { return false }
func (s lruSut) Set(k interface{}, v *val)         { s.c.Set(k, v) }
func (s lruSut) SetIfAbsent(k interface{}, v *val) { s.c.SetIfAbsent(k, v) }
func (s lruSut) SetAndGetRemoved(k interface{}, v *val) []*val {
	r := s.c.SetAndGetRemoved(k, v)
	out := make([]*val, len(r))
	for i, x := range r {
		out[i] = fromValue(x)
	}
	return out
}
func (s lruSut) Get(k interface{}) (*val, bool) {
	v, ok := s.c.Get(k)
	return fromValue(v), ok
}
func (s lruSut) Peek(k interface{}) (*val, bool) {
	v, ok := s.c.Peek(k)
	return fromValue(v), ok
}
func (s lruSut) Exist(k interface{}) bool  { return s.c.Exist(k) }
func (s lruSut) Delete(k interface{}) bool { return s.c.Delete(k) }
func (s lruSut) Clear()                    { s.c.Clear() }
func (s lruSut) SetCapacity(c int64)       { s.c.SetCapacity(c) }
func (s lruSut) Keys() []interface{}       { return s.c.Keys() }
func (s lruSut) Items() []kv {
	it := s.c.Items()
	out := make([]kv, len(it))
	for i, x := range it {
		out[i] = kv{x.Key, fromValue(x.Value)}
	}
	return out
}
func (s lruSut) Stats() (int64, int64, int64, int64) { return s.c.Stats() }
func (s lruSut) Length() int64                       { return s.c.Length() }
func (s lruSut) Size() int64                         { return s.c.Size() }
func (s lruSut) Capacity() int64                     { return s.c.Capacity() }
func (s lruSut) Evictions() int64                    { return s.c.Evictions() }

// ---- tiny.LRUCache

type tinySut struct{ c *tiny.LRUCache }

func (s tinySut) Name() string                      { return "tiny" }
func (s tinySut) Unit() bool                        { return true }
func (s tinySut) Set(k interface{}, v *val)         { s.c.Set(k, toAny(v)) }
func (s tinySut) SetIfAbsent(k interface{}, v *val) { s.c.SetIfAbsent(k, toAny(v)) }
func (s tinySut) SetAndGetRemoved(k interface{}, v *val) []*val {
	r := s.c.SetAndGetRemoved(k, toAny(v))
	out := make([]*val, len(r))
	for i, x := range r {
		out[i] = fromAny(x)
	}
	return out
}
func (s tinySut) Get(k interface{}) (*val, bool) {
	v, ok := s.c.Get(k)
	if !ok && v == nil {
		return nil, false
	}
	return fromAny(v), ok
}
func (s tinySut) Peek(k interface{}) (*val, bool) {
	v, ok := s.c.Peek(k)
	if !ok && v == nil {
		return nil, false
	}
	return fromAny(v), ok
}
func (s tinySut) Exist(k interface{}) bool  { return s.c.Exist(k) }
func (s tinySut) Delete(k interface{}) bool { return s.c.Delete(k) }
func (s tinySut) Clear()                    { s.c.Clear() }
func (s tinySut) SetCapacity(c int64)       { s.c.SetCapacity(c) }
func (s tinySut) Keys() []interface{}       { return s.c.Keys() }
func (s tinySut) Items() []kv {
	it := s.c.Items()
	out := make([]kv, len(it))
	for i, x := range it {
		out[i] = kv{x.Key, fromAny(x.Value)}
	}
	return out
}
func (s tinySut) Stats() (int64, int64, int64, int64) { return s.c.Stats() }
func (s tinySut) Length() int64                       { return s.c.Length() }
func (s tinySut) Size() int64                         { return s.c.Size() }
func (s tinySut) Capacity() int64                     { return s.c.Capacity() }
func (s tinySut) Evictions() int64                    { return s.c.Evictions() }

// ---- wide variants (interface only)

type facadeSmall struct{ c cache.LRUFacade }

func (s facadeSmall) Set(k interface{}, v *val) { s.c.Set(k, v) }
func (s facadeSmall) Get(k interface{}) (*val, bool) {
	v, ok := s.c.Get(k)
	return fromValue(v), ok
}
func (s facadeSmall) Peek(k interface{}) (*val, bool) {
	v, ok := s.c.Peek(k)
	return fromValue(v), ok
}
func (s facadeSmall) Exist(k interface{}) bool  { return s.c.Exist(k) }
func (s facadeSmall) Delete(k interface{}) bool { return s.c.Delete(k) }

type tinySmall struct{ c tiny.LRU }

func (s tinySmall) Set(k interface{}, v *val) { s.c.Set(k, toAny(v)) }
func (s tinySmall) Get(k interface{}) (*val, bool) {
	v, ok := s.c.Get(k)
	if !ok && v == nil {
		return nil, false
	}
	return fromAny(v), ok
}
func (s tinySmall) Peek(k interface{}) (*val, bool) {
	v, ok := s.c.Peek(k)
	if !ok && v == nil {
		return nil, false
	}
	return fromAny(v), ok
}
func (s tinySmall) Exist(k interface{}) bool  { return s.c.Exist(k) }
func (s tinySmall) Delete(k interface{}) bool { return s.c.Delete(k) }

package c04

import (
	"fmt"
	"math"
	"math/rand"

	"verifh/engine"

	"github.com/pinealctx/neptune/cache"
	"github.com/pinealctx/neptune/cache/tiny"
)

type pairKey struct {
	A int
	B string
}

// keyPool returns n distinct comparable keys of mixed dynamic types; several of them
// print alike (1, int64(1), "1") but are different map keys.
func keyPool(r *rand.Rand, n int) []interface{} {
	all := []interface{}{
		0, 1, 2, 3, -1, int64(1), uint8(1), int32(-1), uint64(1 << 63), "", "1", "a", "key-with-a-longer-text",
		pairKey{1, "x"}, pairKey{1, "y"}, [2]int{1, 2}, true, false, 1.5, 'x', struct{}{},
	}
	if r.Intn(3) == 0 {
		// plain small ints only (the common use)
		all = []interface{}{0, 1, 2, 3, 4, 5, 6, 7, 8, 9}
	}
	r.Shuffle(len(all), func(i, j int) { all[i], all[j] = all[j], all[i] })
	if n > len(all) {
		n = len(all)
	}
	return all[:n]
}

// seqChecker holds one lock-step comparison of a cache against the ideal LRU.
type seqChecker struct {
	k      *engine.Case
	s      sut
	m      *ideal
	prefix string
	bad    bool
}

func (c *seqChecker) fail(class, format string, a ...interface{}) {
	if c.bad {
		return
	}
	c.bad = true
	c.k.Fail(c.prefix+":"+class, format, a...)
}

// observe compares every read-only view with the model (and asserts the capacity bound).
func (c *seqChecker) observe(after string) {
	s, m := c.s, c.m
	keys := s.Keys()
	okKeys := len(keys) == len(m.ents)
	if okKeys {
		for i := range keys {
			if keys[i] != m.ents[i].key {
				okKeys = false
				break
			}
		}
	}
	if !okKeys {
		got := "["
		for i, x := range keys {
			if i > 0 {
				got += " "
			}
			got += keyStr(x)
		}
		got += "]"
		cls := "keys-order"
		if len(keys) != len(m.ents) {
			cls = "keys-content"
		} else {
			// same multiset? then it is purely an order problem
			for _, x := range keys {
				if m.find(x) < 0 {
					cls = "keys-content"
				}
			}
		}
		c.fail(cls, "after %s: Keys()=%s, ideal LRU (most recent first) holds %s", after, got, m.keysStr())
		return
	}
	items := s.Items()
	if len(items) != len(m.ents) {
		c.fail("items", "after %s: Items() has %d entries, ideal LRU %s", after, len(items), m.keysStr())
		return
	}
	for i := range items {
		if items[i].key != m.ents[i].key || items[i].v != m.ents[i].v {
			c.fail("items", "after %s: Items()[%d]=%s=%s, ideal LRU %s", after, i, keyStr(items[i].key), items[i].v, m.keysStr())
			return
		}
	}
	l, sz, cp, ev := s.Stats()
	if l != int64(len(m.ents)) {
		c.fail("stats-length", "after %s: Stats length=%d, ideal %d (%s)", after, l, len(m.ents), m.keysStr())
		return
	}
	if sz != m.size {
		c.fail("stats-size", "after %s: Stats size=%d, ideal %d (%s)", after, sz, m.size, m.keysStr())
		return
	}
	if cp != m.cap {
		c.fail("stats-capacity", "after %s: Stats capacity=%d, ideal %d", after, cp, m.cap)
		return
	}
	if ev != m.evictions {
		c.fail("stats-evictions", "after %s: Stats evictions=%d, ideal %d", after, ev, m.evictions)
		return
	}
	if sz > cp {
		c.fail("size-exceeds-capacity", "after %s: size=%d > capacity=%d", after, sz, cp)
		return
	}
	if a, b, cc, d := s.Length(), s.Size(), s.Capacity(), s.Evictions(); a != l || b != sz || cc != cp || d != ev {
		c.fail("stats-accessors", "after %s: Length/Size/Capacity/Evictions = %d/%d/%d/%d but Stats = %d/%d/%d/%d", after, a, b, cc, d, l, sz, cp, ev)
	}
}

func sameVals(a, b []*val) bool {
	if len(a) != len(b) {
		return false
	}
	for i := range a {
		if a[i] != b[i] {
			return false
		}
	}
	return true
}

const (
	opSet = iota
	opSetIfAbsent
	opSAGR
	opGet
	opPeek
	opExist
	opDelete
	opClear
	opSetCap
	// observers (only generated in the concurrent kinds; the sequential kinds observe after every step)
	opKeys
	opStats
	nOps
)

var opNames = [...]string{"Set", "SetIfAbsent", "SetAndGetRemoved", "Get", "Peek", "Exist", "Delete", "Clear", "SetCapacity", "Keys", "Stats"}

// pickOp draws an operation with the sequential weights.
func pickOp(r *rand.Rand) int {
	x := r.Intn(100)
	switch {
	case x < 22:
		return opSet
	case x < 32:
		return opSetIfAbsent
	case x < 48:
		return opSAGR
	case x < 68:
		return opGet
	case x < 78:
		return opPeek
	case x < 85:
		return opExist
	case x < 92:
		return opDelete
	case x < 93:
		return opClear
	default:
		return opSetCap
	}
}

// pickSize: item sizes 0-5 with boundary bias, and now and then an item that fills the
// cache exactly or is larger than the whole (current) capacity. heavy selects the
// profile with many large items (the cache is flushed often); the light profile keeps
// several entries alive so that recency order matters.
func pickSize(r *rand.Rand, capNow int64, heavy bool) int {
	x := r.Intn(100)
	if capNow > 1<<20 {
		// "unlimited" capacity (MaxInt64 boundary): nothing can be larger; stay at 0-5
		capNow = int64(r.Intn(5))
	}
	if heavy {
		switch {
		case x < 10:
			return 0
		case x < 45:
			return 1
		case x < 85:
			return 2 + r.Intn(4)
		case x < 90:
			return int(capNow)
		default:
			return int(capNow) + 1 + r.Intn(3)
		}
	}
	switch {
	case x < 8:
		return 0
	case x < 70:
		return 1
	case x < 90:
		return 2
	case x < 95:
		return 3 + r.Intn(3)
	case x < 97:
		return int(capNow)
	default:
		return int(capNow) + 1 + r.Intn(3)
	}
}

func pickCap(r *rand.Rand) int64 {
	if r.Intn(40) == 0 {
		// the largest capacity there is (the usual way to say "unlimited")
		return math.MaxInt64 - int64(r.Intn(2))
	}
	switch x := r.Intn(20); {
	case x < 1:
		return 0
	case x < 4:
		return 1 + r.Int63n(2)
	case x < 12:
		return 3 + r.Int63n(5)
	default:
		return 8 + r.Int63n(5)
	}
}

func seqLRUCase(k *engine.Case)  { seqCase(k, false) }
func seqTinyCase(k *engine.Case) { seqCase(k, true) }

// seqCase: one random program on a fresh cache, compared step by step.
func seqCase(k *engine.Case, unit bool) {
	r := k.R
	cap0 := pickCap(r)
	nkeys := 2 + r.Intn(9)
	if !unit && r.Intn(4) == 0 {
		nkeys = 8 + r.Intn(8)
	}
	keys := keyPool(r, nkeys)
	nops := 20 + r.Intn(100)
	heavy := r.Intn(3) == 0
	var s sut
	if unit {
		if r.Intn(2) == 0 {
			s = tinySut{tiny.NewLRUCache(cap0)}
		} else {
			s = tinySut{tiny.NewSingleLRUCache(cap0).(*tiny.LRUCache)}
		}
	} else {
		if r.Intn(2) == 0 {
			s = lruSut{cache.NewLRUCache(cap0)}
		} else {
			s = lruSut{cache.NewSingleLRUCache(cap0).(*cache.LRUCache)}
		}
	}
	c := &seqChecker{k: k, s: s, m: newIdeal(cap0, unit), prefix: s.Name()}
	// a bystander: in half of the cases a second cache of the same type (roomy, never evicting)
	// is used between the steps with the same keys, checked against a plain map. Caches are
	// independent: whatever travels between instances shows in the lock-step comparison of the
	// cache under test or here. (Own PRNG: the program of the cache under test stays what the
	// case seed determines.)
	rb := rand.New(rand.NewSource(int64(k.Seed ^ 0x5bd1e9955bd1e995)))
	var by sut
	byM := map[interface{}]*val{}
	if rb.Intn(2) == 0 {
		switch {
		case unit:
			by = tinySut{tiny.NewLRUCache(1 << 40)}
		default:
			by = lruSut{cache.NewLRUCache(1 << 40)}
		}
		k.Count(c.prefix+"_histories_with_bystander", 1)
	}
	byID := 1 << 20
	poke := func() {
		if by == nil || c.bad || rb.Intn(3) != 0 {
			return
		}
		key := keys[rb.Intn(len(keys))]
		what := ""
		switch x := rb.Intn(8); {
		case x < 4:
			byID++
			v := &val{id: byID, sz: 1 + rb.Intn(3)}
			by.Set(key, v)
			byM[key] = v
			what = fmt.Sprintf("Set(%s,%s)", keyStr(key), v)
		case x < 6:
			g := by.Delete(key)
			_, w := byM[key]
			delete(byM, key)
			what = fmt.Sprintf("Delete(%s) -> %v", keyStr(key), g)
			if g != w {
				c.fail("bystander", "second cache of the same type (capacity 2^40): %s, a map gives %v", what, w)
				return
			}
		case x < 7:
			_, _ = by.Get(key)
			what = fmt.Sprintf("Get(%s)", keyStr(key))
		default:
			by.Clear()
			byM = map[interface{}]*val{}
			what = "Clear()"
		}
		probe := keys[rb.Intn(len(keys))]
		gv, gok := by.Peek(probe)
		wv, wok := byM[probe]
		k.Logf("   (second cache: %s; Peek(%s) -> %s,%v; Length %d)", what, keyStr(probe), gv, gok, by.Length())
		k.Count(c.prefix+"_bystander_steps", 1)
		if gok != wok || (wok && gv != wv) || by.Length() != int64(len(byM)) {
			c.fail("bystander", "second cache of the same type (capacity 2^40, never full) after %s: Peek(%s) = %s,%v and Length() = %d; a map gives %s,%v and %d entries",
				what, keyStr(probe), gv, gok, by.Length(), wv, wok, len(byM))
		}
	}
	if cap0 > 1<<60 {
		k.Count(c.prefix+"_constructed_with_maxint64", 1)
	}
	k.Logf("%s capacity=%d keys=%d ops=%d heavy-items=%v", s.Name(), cap0, len(keys), nops, heavy)
	c.observe("construction")
	nextID := 0
	newVal := func() *val {
		nextID++
		if unit {
			if r.Intn(25) == 0 {
				return nilVal
			}
			return &val{id: nextID, sz: r.Intn(7)} // Size() is irrelevant for tiny
		}
		return &val{id: nextID, sz: pickSize(r, c.m.cap, heavy)}
	}
	evBefore := int64(0)
	inflight := ""
	defer func() {
		if p := recover(); p != nil {
			k.Logf("%-40s <- panicked", inflight)
			k.Fail("panic", "%s (ideal state %s): %s panicked: %v\n%s", c.prefix, c.m.enc(), inflight, p, shortStack())
		}
	}()
	for i := 0; i < nops && !c.bad; i++ {
		poke()
		if c.bad {
			break
		}
		op := pickOp(r)
		key := keys[r.Intn(len(keys))]
		m := c.m
		if n := len(m.ents); n > 0 && op != opDelete && r.Intn(5) < 2 {
			// aim at an entry that is present; half of the time the least recently used one
			if r.Intn(2) == 0 {
				key = m.ents[n-1].key
			} else {
				key = m.ents[r.Intn(n)].key
			}
		}
		inflight = fmt.Sprintf("%s(%s)", opNames[op], keyStr(key))
		var desc string
		switch op {
		case opSet, opSAGR, opSetIfAbsent:
			v := newVal()
			idx := m.find(key)
			var oldSize int64 = -1
			if idx >= 0 {
				oldSize = m.ents[idx].size
			}
			if !unit && idx >= 0 && op != opSetIfAbsent && r.Intn(6) == 0 && m.ents[idx].v != nilVal {
				// the cached object itself has grown or shrunk and is stored again under its key
				// (what counts is the size it has at the time of this Set)
				old := m.ents[idx].v
				old.sz = v.sz
				v = old
				k.Count("lru_same_object_resized_and_set_again", 1)
			}
			lenBefore := len(m.ents)
			var want []*val
			var existed bool
			desc = fmt.Sprintf("%s(%s,%s)", opNames[op], keyStr(key), v)
			inflight = desc
			switch op {
			case opSet:
				s.Set(key, v)
				want, existed = m.set(key, v)
			case opSetIfAbsent:
				s.SetIfAbsent(key, v)
				want, existed = m.setIfAbsent(key, v)
				if existed {
					k.Count(c.prefix+"_setifabsent_existing", 1)
					if idx > 0 {
						k.Count(c.prefix+"_setifabsent_refresh_moves", 1)
					}
				}
			case opSAGR:
				got := s.SetAndGetRemoved(key, v)
				want, existed = m.set(key, v)
				desc += " -> " + valsStr(got)
				if !sameVals(got, want) {
					k.Logf("%s", desc)
					c.fail("removed-values", "%s returned %s, ideal LRU evicts %s (least recent first)", desc, valsStr(got), valsStr(want))
				}
				if len(want) >= 2 {
					k.Count(c.prefix+"_sagr_multi_removed", 1)
				}
				if len(want) >= 1 {
					k.Count(c.prefix+"_sagr_removed_nonempty", 1)
				}
			}
			if len(want) > 0 {
				if existed && op != opSetIfAbsent {
					k.Count(c.prefix+"_inplace_growth_evicting", 1)
				}
				if !unit && int64(v.sz) > m.cap && (op != opSetIfAbsent || !existed) {
					k.Count(c.prefix+"_oversize_item", 1)
					if lenBefore > 0 {
						k.Count(c.prefix+"_oversize_item_flushes_nonempty", 1)
					}
				}
			}
			if existed && op != opSetIfAbsent && !unit {
				switch {
				case int64(v.sz) > oldSize:
					k.Count("lru_inplace_growth", 1)
				case int64(v.sz) < oldSize:
					k.Count("lru_inplace_shrink", 1)
				}
			}
			if !unit && v.sz == 0 {
				k.Count("lru_zero_size_item", 1)
			}
		case opGet:
			gv, gok := s.Get(key)
			idx := m.find(key)
			wv, wok := m.get(key)
			desc = fmt.Sprintf("Get(%s) -> %s,%v", keyStr(key), gv, gok)
			if gok != wok || (wok && gv != wv) {
				k.Logf("%s", desc)
				c.fail("result-Get", "%s, ideal LRU gives %s,%v", desc, wv, wok)
			}
			if idx > 0 {
				k.Count(c.prefix+"_get_refresh_moves", 1)
			}
			if !wok {
				k.Count(c.prefix+"_get_miss", 1)
			} else {
				k.Count(c.prefix+"_get_hit", 1)
			}
		case opPeek:
			gv, gok := s.Peek(key)
			wv, wok := m.peek(key)
			desc = fmt.Sprintf("Peek(%s) -> %s,%v", keyStr(key), gv, gok)
			if gok != wok || (wok && gv != wv) {
				k.Logf("%s", desc)
				c.fail("result-Peek", "%s, ideal LRU gives %s,%v", desc, wv, wok)
			}
			if m.find(key) > 0 {
				k.Count(c.prefix+"_peek_of_non_front", 1)
			}
		case opExist:
			g := s.Exist(key)
			w := m.exist(key)
			desc = fmt.Sprintf("Exist(%s) -> %v", keyStr(key), g)
			if g != w {
				k.Logf("%s", desc)
				c.fail("result-Exist", "%s, ideal LRU gives %v", desc, w)
			}
			if m.find(key) > 0 {
				k.Count(c.prefix+"_exist_of_non_front", 1)
			}
		case opDelete:
			g := s.Delete(key)
			w := m.del(key)
			desc = fmt.Sprintf("Delete(%s) -> %v", keyStr(key), g)
			if g != w {
				k.Logf("%s", desc)
				c.fail("result-Delete", "%s, ideal LRU gives %v", desc, w)
			}
			if w {
				k.Count(c.prefix+"_delete_hit", 1)
			}
		case opClear:
			if len(m.ents) > 0 {
				k.Count(c.prefix+"_clear_nonempty", 1)
			}
			s.Clear()
			m.clear()
			desc = "Clear()"
		case opSetCap:
			nc := pickCap(r)
			if r.Intn(4) == 0 && m.size > 0 {
				// aim at a shrink just below the current size (evicts one entry or a few)
				if nc = m.size - 1 - r.Int63n(4); nc < 0 {
					nc = 0
				}
			}
			desc = fmt.Sprintf("SetCapacity(%d)", nc)
			inflight = desc
			old := m.cap
			s.SetCapacity(nc)
			rem := m.setCap(nc)
			if nc > 1<<60 {
				k.Count(c.prefix+"_setcap_maxint64", 1)
			}
			switch {
			case nc > old:
				k.Count(c.prefix+"_setcap_up", 1)
			case nc < old:
				k.Count(c.prefix+"_setcap_down", 1)
			}
			if len(rem) >= 2 {
				k.Count(c.prefix+"_setcap_shrink_multi", 1)
			}
			if len(rem) >= 1 {
				k.Count(c.prefix+"_setcap_shrink_evicting", 1)
			}
		}
		if c.bad {
			break
		}
		inflight = "Keys/Items/Stats after " + desc
		c.observe(desc)
		k.Logf("%-40s keys=%s size=%d/%d ev=%d", desc, m.keysStr(), m.size, m.cap, m.evictions)
		k.Count(c.prefix+"_steps", 1)
		k.C.Max(c.prefix+"_length", int64(len(m.ents)))
		if len(m.ents) >= 3 {
			k.Count(c.prefix+"_steps_with_3plus_entries", 1)
		}
		k.Count(c.prefix+"_op_"+opNames[op], 1)
	}
	if c.m.evictions > evBefore {
		k.Nontrivial()
		k.Count(c.prefix+"_evictions", c.m.evictions)
		k.Count(c.prefix+"_histories_with_eviction", 1)
	}
	k.Count(c.prefix+"_histories", 1)
}

package c04

import (
	"fmt"
	"runtime"
	"runtime/debug"
	"sync"
	"sync/atomic"

	"verifh/engine"

	"github.com/pinealctx/neptune/cache"
	"github.com/pinealctx/neptune/cache/tiny"
)

// recencyRound is a stress round that judges recency under real contention without a
// full linearizability search. All items weigh 1, the capacity C is fixed, nothing is
// deleted. A worker uses a key (Get that hits, or Set) and immediately asks Exist for it.
// In an ideal LRU the used entry is the most recent one at the call's linearization
// point; it can only be evicted after at least C further calls that insert or refresh
// (C-1 entries must get ahead of it and one more insert must need the room). The harness
// counts every refreshing/inserting call before its invocation (started) and after its
// return (finished): the calls that can linearize between the use and the Exist are at
// most started(after Exist returned) - finished(before the use was invoked) - 1 (the use
// itself). If that number is below C and Exist says no, no linearizable LRU explains it.
// The bound is a pure counting argument: load only makes it weaker, never wrong.
func recencyRound(k *engine.Case, unit bool, workers, procs int) {
	r := k.R
	capacity := int64(8 + r.Intn(9))
	nkeys := int(2*capacity) + r.Intn(int(capacity))
	nops := 8000
	var s sut
	if unit {
		s = tinySut{tiny.NewLRUCache(capacity)}
	} else {
		s = lruSut{cache.NewLRUCache(capacity)}
	}
	name := s.Name()
	old := runtime.GOMAXPROCS(procs)
	defer runtime.GOMAXPROCS(old)
	k.Logf("stress-recency %s capacity=%d (items weigh 1) keys=%d workers=%d gomaxprocs=%d ops/worker=%d", name, capacity, nkeys, workers, procs, nops)
	k.Nontrivial()

	var mu sync.Mutex
	var firstClass, firstMsg string
	report := func(class, format string, a ...interface{}) {
		mu.Lock()
		if firstClass == "" {
			firstClass, firstMsg = class, fmt.Sprintf(format, a...)
		}
		mu.Unlock()
	}
	var started, finished atomic.Int64
	var judged, pairs, slack atomic.Int64
	seeds := make([]uint64, workers)
	for i := range seeds {
		seeds[i] = r.Uint64() | 1
	}
	var wg sync.WaitGroup
	start := make(chan struct{})
	for w := 0; w < workers; w++ {
		w := w
		wg.Add(1)
		go func() {
			defer wg.Done()
			defer func() {
				if p := recover(); p != nil {
					report("panic", "%s: panic in a concurrent caller: %v\n%s", name, p, debug.Stack())
				}
			}()
			x := seeds[w]
			next := func() uint64 { x ^= x << 13; x ^= x >> 7; x ^= x << 17; return x }
			<-start
			for i := 0; i < nops; i++ {
				ki := int(next() % uint64(nkeys))
				v := &val{id: ((w*nops+i)<<stressKeyBits | ki), sz: 1}
				op := next() % 100
				switch {
				case op < 50:
					started.Add(1)
					switch next() % 4 {
					case 0:
						s.SetIfAbsent(ki, v)
					case 1:
						s.SetAndGetRemoved(ki, v)
					default:
						s.Set(ki, v)
					}
					finished.Add(1)
				case op < 62:
					started.Add(1)
					s.Get(ki)
					finished.Add(1)
				case op < 70:
					if next()%2 == 0 {
						s.Peek(ki)
					} else {
						s.Exist(ki)
					}
				default:
					// use-then-ask pair
					useSet := op >= 92
					kk := ki
					if !useSet {
						ks := s.Keys()
						if len(ks) == 0 {
							continue
						}
						if next()%4 == 0 {
							kk, _ = ks[next()%uint64(len(ks))].(int)
						} else {
							kk, _ = ks[len(ks)-1].(int) // the least recently used entry
						}
					}
					f0 := finished.Load()
					started.Add(1)
					used := true
					if useSet {
						s.Set(kk, &val{id: ((w*nops+i)<<stressKeyBits | kk), sz: 1})
					} else {
						_, used = s.Get(kk)
					}
					finished.Add(1)
					if !used {
						continue
					}
					var present bool
					if next()%2 == 0 {
						present = s.Exist(kk)
					} else {
						_, present = s.Peek(kk)
					}
					between := started.Load() - f0 - 1
					pairs.Add(1)
					if between < capacity {
						judged.Add(1)
						if !present {
							what := "Get hit"
							if useSet {
								what = "Set"
							}
							report("stress:recently-used-entry-evicted", "%s capacity %d, all items weigh 1, no Delete/Clear/SetCapacity: %s on key %d, then the same caller's Exist/Peek says absent, although at most %d other inserting/refreshing calls (< capacity) can have taken effect in between", name, capacity, what, kk, between)
						}
					} else {
						slack.Add(1)
					}
				}
				if next()%4 == 0 {
					runtime.Gosched() // de-phase the workers
				}
			}
		}()
	}
	close(start)
	wg.Wait()
	k.Count("stress_rounds", 1)
	k.Count("stress_rounds_recency", 1)
	k.Count("stress_ops", int64(workers*nops))
	k.Count("stress_recency_pairs", pairs.Load())
	k.Count("stress_recency_pairs_judged", judged.Load())
	k.Count("stress_recency_pairs_too_much_traffic_between", slack.Load())
	l, size, c, _ := s.Stats()
	if ks := s.Keys(); int64(len(ks)) != l || size != l || size > c || c != capacity {
		report("stress:final-accounting", "%s: at rest Stats length=%d size=%d capacity=%d, Keys() has %d", name, l, size, c, len(ks))
	}
	mu.Lock()
	cl, msg := firstClass, firstMsg
	mu.Unlock()
	if cl != "" {
		k.Fail(cl, "%s", msg)
	}
}

// Package c01 monitors the semaphore map: per-key reader/writer exclusion, FIFO
// hand-off, cancellation and absence of residue.
package c01

import (
	"context"
	"fmt"
	"math"
	"runtime"
	"strings"
	"sync"
	"sync/atomic"
	"time"

	"verifh/engine"

	"github.com/pinealctx/neptune/syncx/semap"
)

var Q *engine.Quiescer

var sink atomic.Int64

// Prop is the C01 check.
var Prop = &engine.Prop{
	ID:    "C01",
	Level: "exploration",
	Rule: "cases are seed-generated controlled schedules (spawn acquire / release / cancel / simultaneous bursts, a quiescent cut after every step) " +
		"checked against the set of FIFO-semaphore model states consistent with what was observed, plus parallel stress rounds with occupancy counters and race canaries; " +
		"a schedule is non-trivial when some acquire had to wait; distinct = distinct program texts (including observed outcomes)",
	Assumptions: []string{
		"a quiescent goroutine snapshot of a timer-free execution is a fixed point (runtime.Stack wait reasons of go1.23)",
		"rwRatio >= 1 (the property's domain)",
		"the FIFO semaphore model (40 lines) is the specification of admission order",
		"the Go race detector reports races only on executed interleavings",
	},
	ShardsQuick: 8, ShardsThorough: 16,
	Setup: func(c *engine.Ctx) { Q = engine.NewQuiescer() },
	Kinds: []engine.Kind{
		{Name: "sched", Quick: 12000, Thorough: 800000, Fn: schedCase},
		{Name: "stress", Quick: 16, Thorough: 960, Repeat: 20, Fn: stressCase},
		{Name: "many-keys", Quick: 40, Thorough: 1600, Fn: manyKeysCase},
	},
	Floors: map[string]int64{
		"queued_arrivals":      200,
		"waiter_behind_waiter": 20,
		"head_cancel":          10,
		"batch_admission":      3,
		"burst_steps":          50,
		"stress_sections":      1000,
	},
}

type mapKind struct {
	name string
	mk   func(ratio int) semap.SemMapper
	// fixed > 0: the constructor is called without a ratio option, the map has this (documented
	// default) ratio whatever is asked for
	fixed int
}

// ratioOf is the ratio a map of this kind has when the case asked for ratio.
func (m mapKind) ratioOf(ratio int) int {
	if m.fixed > 0 {
		return m.fixed
	}
	return ratio
}

func mapKinds() []mapKind {
	var out []mapKind
	out = append(out, mapKind{name: "single", mk: func(r int) semap.SemMapper { return semap.NewSemMap(semap.WithRwRatio(r)) }})
	// built without any option: the documented defaults (ratio 10, 73 shards)
	out = append(out, mapKind{name: "single-no-options", mk: func(int) semap.SemMapper { return semap.NewSemMap() }, fixed: semap.DefaultRWRatio})
	out = append(out, mapKind{name: "wide-mod-no-options", mk: func(int) semap.SemMapper { return semap.NewWideSemMap() }, fixed: semap.DefaultRWRatio})
	out = append(out, mapKind{name: "wide-xxh-prime-only", mk: func(int) semap.SemMapper { return semap.NewWideXHashSemMap(semap.WithPrime(3)) }, fixed: semap.DefaultRWRatio})
	for _, p := range []uint64{1, 2, 3, 73} {
		p := p
		out = append(out, mapKind{name: fmt.Sprintf("wide-mod-%d", p), mk: func(r int) semap.SemMapper {
			return semap.NewWideSemMap(semap.WithRwRatio(r), semap.WithPrime(p))
		}})
		out = append(out, mapKind{name: fmt.Sprintf("wide-xxh-%d", p), mk: func(r int) semap.SemMapper {
			return semap.NewWideXHashSemMap(semap.WithRwRatio(r), semap.WithPrime(p))
		}})
	}
	return out
}

// ---------------------------------------------------------------- model

const (
	stPending = iota
	stHolder
	stFailed
	stReleased
	stUnborn
)

type mstate struct {
	size   int
	cur    []int   // per key
	queue  [][]int // per key: op ids in arrival order
	status []int8  // per op
}

func (s *mstate) clone() *mstate {
	n := &mstate{size: s.size, cur: append([]int(nil), s.cur...), status: append([]int8(nil), s.status...)}
	n.queue = make([][]int, len(s.queue))
	for i, q := range s.queue {
		n.queue[i] = append([]int(nil), q...)
	}
	return n
}

func (s *mstate) key() string {
	var sb strings.Builder
	for k := range s.cur {
		fmt.Fprintf(&sb, "%d:%v;", s.cur[k], s.queue[k])
	}
	fmt.Fprintf(&sb, "%v", s.status)
	return sb.String()
}

type acq struct {
	id     int
	key    int
	n      int
	write  bool
	pre    bool // context cancelled before the call
	ctx    context.Context
	cancel context.CancelFunc
	op     *engine.Op
	w      *semap.Weighted
}

type action struct {
	typ string // arrive, release, cancel
	a   *acq
}

func (s *mstate) admit(k int, ops []*acq) {
	for len(s.queue[k]) > 0 {
		h := ops[s.queue[k][0]]
		if s.size-s.cur[k] < h.n {
			return
		}
		s.cur[k] += h.n
		s.queue[k] = s.queue[k][1:]
		s.status[h.id] = stHolder
	}
}

// apply returns the successor states of one atomic action.
func (s *mstate) apply(ac action, ops []*acq) []*mstate {
	a := ac.a
	switch ac.typ {
	case "arrive":
		n := s.clone()
		fits := n.size-n.cur[a.key] >= a.n && len(n.queue[a.key]) == 0
		if !a.pre {
			if fits {
				n.cur[a.key] += a.n
				n.status[a.id] = stHolder
			} else {
				n.queue[a.key] = append(n.queue[a.key], a.id)
				n.status[a.id] = stPending
			}
			return []*mstate{n}
		}
		// context already done: "may still succeed without blocking" when it fits
		n.status[a.id] = stFailed
		if fits {
			g := s.clone()
			g.cur[a.key] += a.n
			g.status[a.id] = stHolder
			return []*mstate{n, g}
		}
		return []*mstate{n}
	case "release":
		n := s.clone()
		if n.status[a.id] != stHolder {
			return nil // not applicable in this order
		}
		n.cur[a.key] -= a.n
		n.status[a.id] = stReleased
		n.admit(a.key, ops)
		return []*mstate{n}
	case "cancel":
		n := s.clone()
		if n.status[a.id] == stPending {
			q := n.queue[a.key]
			for i, id := range q {
				if id == a.id {
					n.queue[a.key] = append(append([]int(nil), q[:i]...), q[i+1:]...)
					break
				}
			}
			n.status[a.id] = stFailed
			n.admit(a.key, ops)
		}
		return []*mstate{n}
	}
	panic("bad action")
}

func permutations(n int) [][]int {
	if n == 1 {
		return [][]int{{0}}
	}
	var out [][]int
	var rec func(cur []int, used []bool)
	rec = func(cur []int, used []bool) {
		if len(cur) == n {
			out = append(out, append([]int(nil), cur...))
			return
		}
		for i := 0; i < n; i++ {
			if !used[i] {
				used[i] = true
				rec(append(cur, i), used)
				used[i] = false
			}
		}
	}
	rec(nil, make([]bool, n))
	return out
}

func step(cands []*mstate, acts []action, ops []*acq) []*mstate {
	seen := map[string]bool{}
	var out []*mstate
	for _, s := range cands {
		for _, perm := range permutations(len(acts)) {
			cur := []*mstate{s}
			for _, i := range perm {
				var next []*mstate
				for _, c := range cur {
					next = append(next, c.apply(acts[i], ops)...)
				}
				cur = next
			}
			for _, c := range cur {
				k := c.key()
				if !seen[k] {
					seen[k] = true
					out = append(out, c)
				}
			}
		}
	}
	return out
}

// observed status of an op: pending / ok / err
func obs(a *acq) int8 {
	if a.op == nil {
		return stUnborn
	}
	if !a.op.Done() {
		return stPending
	}
	if a.op.Result() == nil {
		return stHolder
	}
	return stFailed
}

func matches(s *mstate, ops []*acq) bool {
	for _, a := range ops {
		o := obs(a)
		m := s.status[a.id]
		switch m {
		case stPending:
			if o != stPending {
				return false
			}
		case stHolder, stReleased:
			if o != stHolder {
				return false
			}
		case stFailed:
			if o != stFailed {
				return false
			}
		}
	}
	return true
}

func describe(ops []*acq, released map[int]bool) string {
	var parts []string
	for _, a := range ops {
		st := "pending"
		switch obs(a) {
		case stHolder:
			st = "ok"
			if released[a.id] {
				st = "ok,released"
			}
		case stFailed:
			st = fmt.Sprintf("err(%v)", a.op.Result())
		}
		parts = append(parts, fmt.Sprintf("#%d=%s", a.id, st))
	}
	return strings.Join(parts, " ")
}

func opName(a *acq) string {
	m := "R"
	if a.write {
		m = "W"
	}
	p := ""
	if a.pre {
		p = ",ctx-already-cancelled"
	}
	return fmt.Sprintf("Acquire%s(k%d%s)", m, a.key, p)
}

// ---------------------------------------------------------------- controlled schedules

func schedCase(k *engine.Case) {
	r := k.R
	kinds := mapKinds()
	mkd := kinds[r.Intn(len(kinds))]
	ratio := []int{1, 2, 3, 10}[r.Intn(4)]
	if r.Intn(12) == 0 {
		// "every rwRatio >= 1": also ratios near the top of int (token arithmetic must not overflow)
		ratio = []int{math.MaxInt, math.MaxInt - 1, math.MaxInt/2 + 2, math.MaxInt/2 + 1, math.MaxInt32, 1 << 40}[r.Intn(6)]
		k.Count("extreme_ratio_cases", 1)
	}
	nkeys := 1 + r.Intn(3)
	if r.Intn(3) == 0 {
		nkeys = 1
	}
	useStr := r.Intn(4) == 0
	// keys of every integer width (the key is an interface{}: int32(4) and int(4) are two keys)
	typed := !useStr && r.Intn(3) == 0
	keyOf := func(i int) interface{} {
		if useStr {
			return fmt.Sprintf("key-%d", i)
		}
		if typed {
			switch i % 6 {
			case 0:
				return int32(i * 2)
			case 1:
				return uint64(i * 2)
			case 2:
				return int8(i * 2)
			case 3:
				return uint16(i * 2)
			case 4:
				return int64(i * 2)
			default:
				return uint32(i * 2)
			}
		}
		return i * 2
	}
	ratio = mkd.ratioOf(ratio)
	m := mkd.mk(ratio)
	k.Logf("map=%s ratio=%d keys=%d strkeys=%v sized-integer-keys=%v", mkd.name, ratio, nkeys, useStr, typed)
	d := engine.NewDriver(Q, k)

	var ops []*acq
	released := map[int]bool{}
	model := &mstate{size: ratio, cur: make([]int, nkeys), queue: make([][]int, nkeys)}
	cands := []*mstate{model}

	newAcq := func(pre bool) *acq {
		a := &acq{id: len(ops), key: r.Intn(nkeys), write: r.Intn(5) < 2, pre: pre}
		a.n = 1
		if a.write {
			a.n = ratio
		}
		a.ctx, a.cancel = context.WithCancel(context.Background())
		if pre {
			a.cancel()
		}
		ops = append(ops, a)
		for _, c := range cands {
			c.status = append(c.status, stUnborn)
		}
		return a
	}
	launch := func(a *acq, gate <-chan struct{}) {
		a.op = d.Spawn(opName(a), func() any {
			if gate != nil {
				<-gate
			}
			var w *semap.Weighted
			var err error
			if a.write {
				w, err = m.AcquireWrite(a.ctx, keyOf(a.key))
			} else {
				w, err = m.AcquireRead(a.ctx, keyOf(a.key))
			}
			if err != nil {
				if w != nil {
					return fmt.Errorf("error %v together with a non-nil semaphore", err)
				}
				return err
			}
			a.w = w // published through the op's mutex (Done/Result)
			return nil
		})
	}
	doRelease := func(a *acq) {
		if a.write {
			m.ReleaseWrite(keyOf(a.key), a.w)
		} else {
			m.ReleaseRead(keyOf(a.key), a.w)
		}
	}
	holders := func() []*acq {
		var out []*acq
		for _, a := range ops {
			if obs(a) == stHolder && !released[a.id] {
				out = append(out, a)
			}
		}
		return out
	}
	pendings := func() []*acq {
		var out []*acq
		for _, a := range ops {
			if obs(a) == stPending {
				out = append(out, a)
			}
		}
		return out
	}
	cleanup := func() {
		for _, a := range ops {
			a.cancel()
		}
		Q.Wait()
		for _, a := range holders() {
			poisoned := false
			func() {
				defer func() {
					if recover() != nil {
						poisoned = true
					}
				}()
				released[a.id] = true
				doRelease(a)
			}()
			if poisoned {
				return
			}
		}
		Q.Wait()
	}

	// check is run at every quiescent cut
	check := func(what string) bool {
		// direct exclusion clause, independent of the model
		for key := 0; key < nkeys; key++ {
			tokens, writers, readers := 0, 0, 0
			for _, a := range holders() {
				if a.key == key {
					tokens += a.n
					if a.write {
						writers++
					} else {
						readers++
					}
				}
			}
			if writers > 1 || (writers == 1 && readers > 0) || readers > ratio {
				k.Fail("exclusion", "after %s: key k%d has %d writer(s) and %d reader(s) inside (ratio %d): %s", what, key, writers, readers, ratio, describe(ops, released))
				return false
			}
			_ = tokens
		}
		var keep []*mstate
		for _, c := range cands {
			if matches(c, ops) {
				keep = append(keep, c)
			}
		}
		if len(keep) == 0 {
			var exp []string
			for _, c := range cands {
				exp = append(exp, c.key())
			}
			cls := "fifo-model-mismatch"
			if len(pendings()) > 0 && len(holders()) == 0 {
				cls = "stuck-waiter"
			}
			k.Fail(cls, "after %s: observed %s matches none of the %d model outcome(s) %v", what, describe(ops, released), len(cands), exp)
			return false
		}
		cands = keep
		// residue clause: no holder and no waiter for a key => no entry
		for key := 0; key < nkeys; key++ {
			idle := true
			for _, c := range cands {
				if c.cur[key] != 0 || len(c.queue[key]) != 0 {
					idle = false
				}
			}
			held, waiters, present := semap.VerifKeyState(m, keyOf(key))
			if idle && present {
				k.Fail("residue", "after %s: nobody holds or awaits k%d but the map keeps an entry (held=%d waiters=%d)", what, key, held, waiters)
				return false
			}
			if len(cands) == 1 && (held != cands[0].cur[key] || waiters != len(cands[0].queue[key])) {
				k.Count("diag_hidden_counter_mismatch", 1)
			}
		}
		return true
	}

	nsteps := 4 + r.Intn(12)
	ok := true
	bystanders := r.Intn(3) == 0
	for s := 0; s < nsteps && ok; s++ {
		if bystanders && r.Intn(3) == 0 {
			// another map of another ratio is built (and used once) in the same process: maps
			// are independent instances, this must not change anything for the map under test
			bk := kinds[r.Intn(len(kinds))]
			br := []int{1, 2, 5, 7, 100}[r.Intn(5)]
			bm := bk.mk(br)
			if w, err := bm.AcquireRead(context.Background(), "bystander"); err == nil {
				bm.ReleaseRead("bystander", w)
			}
			k.Logf("step %d: (a second map %s with ratio %d is built and used once)", s, bk.name, br)
			k.Count("bystander_maps", 1)
		}
		hs, ps := holders(), pendings()
		var acts []action
		choice := r.Intn(100)
		switch {
		case choice < 45 || (len(hs) == 0 && len(ps) == 0):
			a := newAcq(r.Intn(100) < 12)
			acts = []action{{"arrive", a}}
			k.Logf("step %d: spawn #%d %s", s, a.id, opName(a))
			launch(a, nil)
		case choice < 65 && len(hs) > 0:
			a := hs[r.Intn(len(hs))]
			acts = []action{{"release", a}}
			k.Logf("step %d: release #%d", s, a.id)
			released[a.id] = true
			doRelease(a)
		case choice < 80 && len(ps) > 0:
			a := ps[r.Intn(len(ps))]
			acts = []action{{"cancel", a}}
			k.Logf("step %d: cancel #%d", s, a.id)
			for _, c := range cands {
				if len(c.queue[a.key]) > 0 && c.queue[a.key][0] == a.id && len(c.queue[a.key]) > 1 {
					k.Count("head_cancel", 1)
					break
				}
			}
			a.cancel()
		case choice < 84 && len(hs) > 0:
			a := hs[r.Intn(len(hs))]
			acts = []action{{"cancel", a}}
			k.Logf("step %d: cancel context of holder #%d (no effect expected)", s, a.id)
			a.cancel()
		default:
			// burst: 2-3 simultaneous actions
			nb := 2 + r.Intn(2)
			gate := make(chan struct{})
			var wg sync.WaitGroup
			var names []string
			usedH, usedP := map[int]bool{}, map[int]bool{}
			for b := 0; b < nb; b++ {
				t := r.Intn(3)
				if t == 0 && len(hs) > len(usedH) {
					var a *acq
					for _, x := range hs {
						if !usedH[x.id] {
							a = x
							break
						}
					}
					usedH[a.id] = true
					acts = append(acts, action{"release", a})
					names = append(names, fmt.Sprintf("release #%d", a.id))
					released[a.id] = true
					wg.Add(1)
					go func() { defer wg.Done(); <-gate; doRelease(a) }()
				} else if t == 1 && len(ps) > len(usedP) {
					var a *acq
					for _, x := range ps {
						if !usedP[x.id] {
							a = x
							break
						}
					}
					usedP[a.id] = true
					acts = append(acts, action{"cancel", a})
					names = append(names, fmt.Sprintf("cancel #%d", a.id))
					wg.Add(1)
					go func() { defer wg.Done(); <-gate; a.cancel() }()
				} else {
					a := newAcq(false)
					acts = append(acts, action{"arrive", a})
					names = append(names, fmt.Sprintf("spawn #%d %s", a.id, opName(a)))
					launch(a, gate)
				}
			}
			k.Logf("step %d: burst{%s}", s, strings.Join(names, " || "))
			k.Count("burst_steps", 1)
			Q.Wait() // everyone parked at the gate
			close(gate)
			wg.Wait()
		}
		cands = step(cands, acts, ops)
		if !d.Quiesce() {
			cleanup()
			return
		}
		k.Logf("        -> %s", describe(ops, released))
		// coverage accounting
		for _, ac := range acts {
			if ac.typ == "arrive" && obs(ac.a) == stPending {
				k.Count("queued_arrivals", 1)
				k.Nontrivial()
				for _, c := range cands {
					if len(c.queue[ac.a.key]) > 1 {
						k.Count("waiter_behind_waiter", 1)
						break
					}
				}
			}
			if ac.typ == "cancel" && ac.a.ctx.Err() != nil && obs(ac.a) == stHolder && len(acts) > 1 {
				k.Count("cancel_lost_to_grant", 1)
			}
		}
		if len(acts) == 1 && acts[0].typ == "release" && len(holders()) >= len(hs)+1 {
			k.Count("batch_admission", 1)
		}
		ok = check(fmt.Sprintf("step %d", s))
		k.Count("quiescent_cuts", 1)
		k.C.Max("model_candidates", int64(len(cands)))
		for _, c := range cands {
			// abstract model state: per key the tokens held and the queue as R/W letters
			var sb strings.Builder
			fmt.Fprintf(&sb, "ratio=%d", ratio)
			for key := range c.cur {
				fmt.Fprintf(&sb, " k%d:%d[", key, c.cur[key])
				for _, id := range c.queue[key] {
					if ops[id].write {
						sb.WriteByte('W')
					} else {
						sb.WriteByte('R')
					}
				}
				sb.WriteByte(']')
			}
			k.C.ObserveStr("abstract_model_states", sb.String())
		}
		if len(acts) > 1 {
			var sig []string
			for _, ac := range acts {
				sig = append(sig, fmt.Sprintf("%s->%d", ac.typ, obs(ac.a)))
			}
			k.C.ObserveStr("burst_outcome_signatures", strings.Join(sig, ","))
		}
	}
	if !ok {
		cleanup()
		return
	}
	// drain: release every holder, one at a time
	for ok {
		hs := holders()
		if len(hs) == 0 {
			break
		}
		before := len(hs)
		a := hs[r.Intn(len(hs))]
		k.Logf("drain: release #%d", a.id)
		released[a.id] = true
		doRelease(a)
		cands = step(cands, []action{{"release", a}}, ops)
		if !d.Quiesce() {
			cleanup()
			return
		}
		k.Logf("        -> %s", describe(ops, released))
		if len(holders()) >= before+1 {
			k.Count("batch_admission", 1)
		}
		ok = check("drain release #" + fmt.Sprint(a.id))
	}
	if !ok {
		cleanup()
		return
	}
	if ps := pendings(); len(ps) > 0 {
		k.Fail("stuck-waiter", "every holder has released but %d acquire(s) are still pending at a quiescent fixed point: %s", len(ps), describe(ops, released))
		cleanup()
		return
	}
	if n := semap.VerifEntries(m); n != 0 {
		k.Fail("residue", "all released, nobody waits, but the container keeps %d entrie(s)", n)
	}
	for _, a := range ops {
		a.cancel()
	}
	d.Join()
}

// ---------------------------------------------------------------- stress

func stressCase(k *engine.Case) {
	r := k.R
	kinds := mapKinds()
	mkd := kinds[r.Intn(len(kinds))]
	ratio := []int{1, 2, 3, 10}[r.Intn(4)]
	workers := []int{4, 8, 12, 16}[r.Intn(4)]
	procs := []int{2, 4, 16}[r.Intn(3)]
	sections := 1500
	const nkeys = 2
	ratio = mkd.ratioOf(ratio)
	m := mkd.mk(ratio)
	old := runtime.GOMAXPROCS(procs)
	defer runtime.GOMAXPROCS(old)
	k.Logf("stress map=%s ratio=%d workers=%d gomaxprocs=%d sections/worker=%d", mkd.name, ratio, workers, procs, sections)
	k.Nontrivial()

	var readers, writers [nkeys]atomic.Int64
	var canary [nkeys]int // plain: ordered only by the lock under test
	var conflicts, maxReaders, cancelled, granted, errWithSem atomic.Int64
	cancelCh := make(chan context.CancelFunc, 1024)
	var cwg sync.WaitGroup
	for i := 0; i < 2; i++ {
		cwg.Add(1)
		go func() {
			defer cwg.Done()
			for c := range cancelCh {
				c()
			}
		}()
	}
	d := engine.NewDriver(Q, k)
	seeds := make([]int64, workers)
	for i := range seeds {
		seeds[i] = r.Int63()
	}
	for w := 0; w < workers; w++ {
		w := w
		d.Spawn(fmt.Sprintf("worker%d", w), func() any {
			x := uint64(seeds[w]) | 1
			next := func() uint64 { x ^= x << 13; x ^= x >> 7; x ^= x << 17; return x }
			sum := 0
			defer func() { sink.Add(int64(sum)) }()
			for i := 0; i < sections; i++ {
				key := int(next() % nkeys)
				write := next()%4 == 0
				ctx, cancel := context.WithCancel(context.Background())
				if next()%10 == 0 {
					cancelCh <- cancel
				}
				var sem *semap.Weighted
				var err error
				if write {
					sem, err = m.AcquireWrite(ctx, key)
				} else {
					sem, err = m.AcquireRead(ctx, key)
				}
				if err != nil {
					if sem != nil {
						errWithSem.Add(1)
					}
					cancelled.Add(1)
					cancel()
					continue
				}
				granted.Add(1)
				y := int(next() % 3)
				if write {
					if writers[key].Add(1) != 1 || readers[key].Load() != 0 {
						conflicts.Add(1)
					}
					canary[key]++
					for j := 0; j < y; j++ {
						runtime.Gosched()
					}
					canary[key]++
					writers[key].Add(-1)
					m.ReleaseWrite(key, sem)
				} else {
					n := readers[key].Add(1)
					if n > int64(ratio) || writers[key].Load() != 0 {
						conflicts.Add(1)
					}
					for {
						o := maxReaders.Load()
						if n <= o || maxReaders.CompareAndSwap(o, n) {
							break
						}
					}
					sum += canary[key]
					for j := 0; j < y; j++ {
						runtime.Gosched()
					}
					sum += canary[key]
					readers[key].Add(-1)
					m.ReleaseRead(key, sem)
				}
				cancel()
			}
			return nil
		})
	}
	// wait: either everybody finished or the system is stuck at a fixed point
	deadline := time.Now().Add(10 * time.Minute)
	for len(d.Pending()) > 0 {
		if time.Now().After(deadline) {
			k.Inconclusive("stress round watchdog")
			return
		}
		time.Sleep(5 * time.Millisecond)
		if Q.IsQuiet() && len(d.Pending()) > 0 {
			time.Sleep(10 * time.Millisecond)
			if Q.IsQuiet() && len(d.Pending()) > 0 {
				k.Fail("stuck-waiter", "stress: %d worker(s) parked forever at a quiescent fixed point: %s; %v", len(d.Pending()), d.PendingNames(), Q.Describe())
				return
			}
		}
	}
	close(cancelCh)
	cwg.Wait()
	d.Join()
	k.Count("stress_sections", granted.Load())
	k.Count("stress_cancelled_acquires", cancelled.Load())
	k.C.Max("stress_reader_concurrency", maxReaders.Load())
	k.Logf("granted=%d cancelled=%d max concurrent readers=%d conflicts=%d", granted.Load(), cancelled.Load(), maxReaders.Load(), conflicts.Load())
	if c := conflicts.Load(); c > 0 {
		k.Fail("exclusion", "stress: %d occupancy conflicts (writer with company or more than %d readers inside)", c, ratio)
	}
	if e := errWithSem.Load(); e > 0 {
		k.Fail("failed-acquire-holds", "stress: %d failed acquires returned a semaphore", e)
	}
	if n := semap.VerifEntries(m); n != 0 {
		k.Fail("residue", "stress: all released, nobody waits, but the container keeps %d entrie(s)", n)
	}
}

// manyKeysCase: thousands of keys pass through one map (every first acquire of a key creates
// its entry, the last release drops it). Whatever housekeeping the container does along the
// way, every key that is held stays held: while a writer (or rwRatio readers) hold a key, a
// further request for it - issued with a context that is already over, so that it can only be
// served at once or fail - must fail, and when everything is released nothing is kept.
func manyKeysCase(k *engine.Case) {
	r := k.R
	kinds := mapKinds()
	mkd := kinds[r.Intn(len(kinds))]
	ratio := []int{1, 2, 3, 10}[r.Intn(4)]
	ratio = mkd.ratioOf(ratio)
	m := mkd.mk(ratio)
	n := 4200 + r.Intn(5000)
	keep := 1 + r.Intn(40) // this many keys stay held at any time (window)
	k.Logf("map=%s ratio=%d: %d keys acquired one after the other, %d held at a time", mkd.name, ratio, n, keep)
	k.Nontrivial()
	dead, cancel := context.WithCancel(context.Background())
	cancel()
	type held struct {
		key   int
		write bool
		ws    []*semap.Weighted
	}
	var window []held
	release := func(h held) {
		for _, w := range h.ws {
			if h.write {
				m.ReleaseWrite(h.key, w)
			} else {
				m.ReleaseRead(h.key, w)
			}
		}
	}
	probe := func(h held, when string) bool {
		// the key is fully held: a writer, or rwRatio readers
		if w, err := m.AcquireWrite(dead, h.key); err == nil {
			k.Fail("exclusion", "key %d is held (%s, taken %s) and a second writer was admitted beside the holder(s); map=%s ratio=%d, %d keys created so far", h.key, map[bool]string{true: "one writer", false: fmt.Sprintf("%d readers", len(h.ws))}[h.write], when, mkd.name, ratio, h.key+1)
			m.ReleaseWrite(h.key, w)
			return false
		}
		if w, err := m.AcquireRead(dead, h.key); err == nil {
			k.Fail("exclusion", "key %d is held (%s, taken %s) and a further reader was admitted beside the holder(s); map=%s ratio=%d, %d keys created so far", h.key, map[bool]string{true: "one writer", false: fmt.Sprintf("%d readers", len(h.ws))}[h.write], when, mkd.name, ratio, h.key+1)
			m.ReleaseRead(h.key, w)
			return false
		}
		return true
	}
	for i := 0; i < n; i++ {
		h := held{key: i, write: r.Intn(2) == 0}
		cnt := 1
		if !h.write {
			cnt = ratio
		}
		for j := 0; j < cnt; j++ {
			var w *semap.Weighted
			var err error
			if h.write {
				w, err = m.AcquireWrite(context.Background(), h.key)
			} else {
				w, err = m.AcquireRead(context.Background(), h.key)
			}
			if err != nil {
				k.Fail("acquire-failed", "acquire #%d of a fresh key %d failed: %v", j, h.key, err)
				return
			}
			h.ws = append(h.ws, w)
		}
		k.Evals(1)
		if !probe(h, "just now") {
			return
		}
		window = append(window, h)
		if len(window) > keep {
			old := window[0]
			window = window[1:]
			if !probe(old, fmt.Sprintf("%d keys ago", keep)) {
				return
			}
			release(old)
		}
	}
	for _, h := range window {
		if !probe(h, "earlier") {
			return
		}
		release(h)
	}
	if e := semap.VerifEntries(m); e != 0 {
		k.Fail("residue", "all %d keys were released but the map keeps %d entries", n, e)
		return
	}
	k.Count("many_keys_cases", 1)
	k.Count("many_keys_entries_created", int64(n))
}

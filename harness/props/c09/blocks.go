package c09

import (
	"fmt"
	"math"
	"math/rand"
	"strings"

	"github.com/pinealctx/neptune/bitmap1024"

	"verifh/engine"
)

const (
	maxBig = int64(1)<<42 - 1025 // 4398046510079, "the max value" of bigu32.go
	p32    = int64(1) << 32
	p42    = int64(1) << 42
)

func inBigRange(v int64) bool { return v >= 0 && v <= maxBig }

var edgeBits = []int64{0, 1, 62, 63, 64, 65, 511, 512, 959, 960, 1022, 1023}

var bigStarts = []int64{0, 1, 2, 3, 1<<22 - 2, 1<<22 - 1, 1 << 22, 1<<22 + 1, 1<<22 + 5, 1 << 23, 1<<31 - 1, 1 << 31, 1<<31 + 1,
	1<<32 - 4, 1<<32 - 3, 1<<32 - 2}

func pickBigStart(r *rand.Rand) int64 {
	switch p := r.Intn(10); {
	case p < 3:
		return bigStarts[r.Intn(len(bigStarts))]
	case p < 5:
		return int64(r.Intn(1 << 22)) // integers below 2^32
	case p < 6:
		return int64(r.Intn(4096))
	default:
		return 1<<22 + r.Int63n(1<<32-1-1<<22) // integers >= 2^32, start <= 2^32-2
	}
}

func pickBit(r *rand.Rand) int64 {
	if r.Intn(3) == 0 {
		return edgeBits[r.Intn(len(edgeBits))]
	}
	return int64(r.Intn(1024))
}

// genBig draws the integer a 64-bit block is built from.
func genBig(r *rand.Rand) int64 {
	switch p := r.Intn(100); {
	case p < 8:
		return []int64{0, 1, 1023, 1024, 1025, p32 - 1, p32, p32 + 5, p32 + 1023, p32 + 1024, maxBig, maxBig - 1, maxBig - 1023, maxBig - 1024}[r.Intn(14)]
	case p < 60:
		return pickBigStart(r)*1024 + pickBit(r)
	case p < 70:
		return r.Int63n(maxBig + 1)
	case p < 76:
		return r.Int63n(p32)
	case p < 84: // just outside / far outside, above
		return []int64{maxBig + 1, maxBig + 2, maxBig + 1024, p42 - 1, p42, p42 + 5, p42 + 1024, 2 * p42, 1 << 43, 1 << 52, 1<<62 + 5,
			math.MaxInt64, math.MaxInt64 - 1023, maxBig + 1 + r.Int63n(1<<20), p42 + r.Int63n(p42)}[r.Intn(15)]
	case p < 88:
		return maxBig + 1 + r.Int63n(math.MaxInt64-maxBig-1)
	case p < 96: // negative
		return []int64{-1, -2, -1023, -1024, -1025, -p32, -p32 - 5, -p42, -p42 + 5, math.MinInt64, math.MinInt64 + 1, -1 - r.Int63n(1<<20), -1 - r.Int63n(math.MaxInt64)}[r.Intn(13)]
	default:
		return r.Int63()
	}
}

// followBig draws a further integer for the block of v.
func followBig(r *rand.Rand, v int64) int64 {
	base := v &^ 1023
	switch p := r.Intn(100); {
	case p < 50:
		return base + pickBit(r)
	case p < 56:
		return v + int64(r.Intn(5)) - 2
	case p < 68: // neighbouring blocks
		return []int64{v + 1024, v - 1024, base - 1, base + 1024, base - 1024 + pickBit(r), base + 1024 + pickBit(r), base + 2048}[r.Intn(7)]
	case p < 82: // same low bits, other block: 2^32 / 2^42 apart
		return []int64{v + p32, v - p32, v + p42, v - p42, v + 2*p42, v + 2*p32, v ^ (1 << 41), v ^ (1 << 32), base + p42 + pickBit(r), -v, v | 1<<62, v + 1<<52}[r.Intn(12)]
	case p < 90:
		return genBig(r)
	default:
		return pickBigStart(r)*1024 + pickBit(r)
	}
}

// blk is a block under test together with its model.
type blk struct {
	t      string // "bigu32" / "u32tip"
	base   int64  // first integer of the block
	m      set    // accepted integers (bit = integer - base)
	get    func(n int, rev bool) []int64
	iterAt func(s int, pos, n int, rev bool) (cnt int, out []int64) // low-level Iter into a slice of s elements
	// result slices exactly as GetN / RGetN returned them (not copied) with a copy taken at
	// once: a result the caller keeps must not change when the block is iterated again
	h64 []held64
	h32 []held32
}

type held64 struct{ s, cp []int64 }
type held32 struct{ s, cp []uint32 }

func (b *blk) hold64(s []int64) []int64 {
	if len(b.h64) < 16 && len(s) > 0 {
		b.h64 = append(b.h64, held64{s, append([]int64(nil), s...)})
	}
	return s
}

func (b *blk) hold32(s []uint32) []uint32 {
	if len(b.h32) < 16 && len(s) > 0 {
		b.h32 = append(b.h32, held32{s, append([]uint32(nil), s...)})
	}
	return s
}

// heldIntact re-reads every kept result.
func (b *blk) heldIntact(k *engine.Case, when string) bool {
	for i, h := range b.h64 {
		if !eq64(h.s, h.cp) {
			k.Logf("  %s: kept result #%d was %v and now reads %v", when, i, h.cp, h.s)
			fail(k, b.t+"-retained-result-changed", "%s block base=%d members=%s: a slice returned by GetN/RGetN earlier (%s) reads %s %s", b.t, b.base, &b.m, show64(h.cp), show64(h.s), when)
			return false
		}
	}
	for i, h := range b.h32 {
		same := len(h.s) == len(h.cp)
		for j := 0; same && j < len(h.s); j++ {
			same = h.s[j] == h.cp[j]
		}
		if !same {
			k.Logf("  %s: kept result #%d was %v and now reads %v", when, i, h.cp, h.s)
			fail(k, b.t+"-retained-result-changed", "%s block base=%d members=%s: a slice returned by GetN/RGetN earlier (%v) reads %v %s", b.t, b.base, &b.m, h.cp, h.s, when)
			return false
		}
	}
	k.Count(b.t+".retained_results_checked", int64(len(b.h64)+len(b.h32)))
	return true
}

func (b *blk) expect(n int, rev bool) []int64 {
	mem := b.m.asc()
	n = min(n, len(mem))
	out := make([]int64, 0, n)
	for i := 0; i < n; i++ {
		if rev {
			out = append(out, b.base+int64(mem[len(mem)-1-i]))
		} else {
			out = append(out, b.base+int64(mem[i]))
		}
	}
	return out
}

func eq64(a, b []int64) bool {
	if len(a) != len(b) {
		return false
	}
	for i := range a {
		if a[i] != b[i] {
			return false
		}
	}
	return true
}

func show64(a []int64) string {
	if len(a) <= 10 {
		return fmt.Sprint(a)
	}
	return fmt.Sprintf("[%d %d %d %d .. %d %d %d](%d values)", a[0], a[1], a[2], a[3], a[len(a)-3], a[len(a)-2], a[len(a)-1], len(a))
}

func dirName(rev bool) string {
	if rev {
		return "reverse"
	}
	return "forward"
}

// checkIter compares one iteration with the model. what names the step for the trace.
func (b *blk) checkIter(k *engine.Case, what string, n int, rev, lowLevel bool, pos int) bool {
	var got []int64
	call := ""
	p := try(func() {
		if lowLevel {
			cnt, s := b.iterAt(pos+n, pos, n, rev)
			if cnt < 0 || pos+cnt > len(s) {
				panic(fmt.Sprintf("iterator returned count %d for a slice of %d at pos %d", cnt, len(s), pos))
			}
			got = s[pos : pos+cnt]
			call = fmt.Sprintf("%sIter(s[%d], pos=%d, n=%d)", map[bool]string{false: "", true: "R"}[rev], pos+n, pos, n)
		} else {
			got = b.get(n, rev)
			call = fmt.Sprintf("%sGetN(%d)", map[bool]string{false: "", true: "R"}[rev], n)
		}
	})
	if p != nil {
		k.Logf("  %s: %s iteration n=%d of block base=%d members=%s PANIC %v", what, dirName(rev), n, b.base, &b.m, p)
		fail(k, "panic", "%s: %s iteration (n=%d, lowLevel=%v, pos=%d) of block base=%d members=%s panicked: %v", b.t, dirName(rev), n, lowLevel, pos, b.base, &b.m, p)
		return false
	}
	if !b.heldIntact(k, "after "+call) {
		return false
	}
	want := b.expect(n, rev)
	total := b.m.count()
	k.Count(b.t+".iterations", 1)
	if total > 1 && n > 1 {
		k.Count(b.t+".iter_"+dirName(rev)+"_multi", 1)
	}
	if n < total {
		k.Count(b.t+".iter_truncated_by_n", 1)
	}
	if lowLevel {
		k.Count(b.t+".iter_low_level", 1)
	}
	if eq64(got, want) {
		k.Logf("  %s: %s -> %s ok", what, call, show64(got))
		return true
	}
	k.Logf("  %s: %s -> %v, want %v (block base=%d members=%s)", what, call, got, want, b.base, &b.m)
	class := b.t + "-iter"
	switch {
	case total == 1:
		class = b.t + "-roundtrip"
	case eq64(got, b.expect(n, !rev)):
		class = b.t + "-direction"
	}
	fail(k, class, "%s block base=%d (start %d) members=%s: %s gives %s, want %s (%s = %s)", b.t, b.base, b.base/1024, &b.m, call,
		show64(got), show64(want), dirName(rev), map[bool]string{false: "ascending", true: "descending"}[rev])
	return false
}

// exercise runs the common part of both block kinds once the block exists with its
// first member: further integers, iterations, persist round trip.
func (b *blk) exercise(k *engine.Case, follow []int64, member func(w int64) bool, why func(w int64) string,
	set func(w int64) error, bulk []int64, persist func() (func(n int, rev bool) []int64, error)) {
	r := k.R
	// the single integer must come back, both directions
	for _, rev := range []bool{false, true} {
		if !b.checkIter(k, "single", []int{1, 3, 1024}[r.Intn(3)], rev, false, 0) {
			return
		}
	}
	var sb strings.Builder
	for _, w := range follow {
		var err error
		if p := try(func() { err = set(w) }); p != nil {
			k.Logf("  set(%d) PANIC %v", w, p)
			fail(k, "panic", "%s: Set(%d) on block base=%d panicked: %v", b.t, w, b.base, p)
			return
		}
		mem := member(w)
		switch {
		case mem && err != nil:
			k.Logf("  set(%d) -> error %v, but %d belongs to block [%d,%d]", w, err, w, b.base, b.base+1023)
			fail(k, b.t+"-refused-member", "%s block base=%d refused %d, which belongs to it: %v", b.t, b.base, w, err)
			return
		case !mem && err == nil:
			k.Logf("  set(%d) -> accepted, but %d does not belong to block [%d,%d] (%s)", w, w, b.base, b.base+1023, why(w))
			fail(k, b.t+"-accepted-foreign", "%s block base=%d (start %d) accepted %d, which is not in [%d,%d] (%s)", b.t, b.base, b.base/1024, w, b.base, b.base+1023, why(w))
			return
		case mem:
			b.m.add(int(w - b.base))
			k.Count(b.t+".set_accepted", 1)
			fmt.Fprintf(&sb, " %d:ok", w)
		default:
			k.Count(b.t+".set_refused", 1)
			k.Count(b.t+".set_refused_"+why(w), 1)
			fmt.Fprintf(&sb, " %d:refused(%s)", w, why(w))
		}
	}
	if len(follow) > 0 {
		k.Logf("  set:%s", sb.String())
	}
	if len(bulk) > 0 {
		for _, w := range bulk {
			var err error
			if p := try(func() { err = set(w) }); p != nil || err != nil {
				k.Logf("  bulk set(%d) -> %v %v", w, err, p)
				if p != nil {
					fail(k, "panic", "%s: Set(%d) on block base=%d panicked: %v", b.t, w, b.base, p)
				} else {
					fail(k, b.t+"-refused-member", "%s block base=%d refused %d, which belongs to it: %v", b.t, b.base, w, err)
				}
				return
			}
			b.m.add(int(w - b.base))
		}
		k.Count(b.t+".bulk_filled_blocks", 1)
		k.Logf("  bulk: %d more integers of the block set; members now %s", len(bulk), &b.m)
	}
	total := b.m.count()
	k.C.Max(b.t+".block_members", int64(total))
	for _, rev := range []bool{false, true} {
		for _, n := range iterCounts(r, total, 2) {
			low := r.Intn(4) == 0
			pos := 0
			if low {
				pos = r.Intn(5)
			}
			if !b.checkIter(k, "iterate", n, rev, low, pos) {
				return
			}
		}
	}
	// persist: Marshal the block's bitmap, rebuild the block from (start, bytes)
	if persist != nil {
		get, err := persist()
		if err != nil {
			if pe, ok := err.(panicErr); ok {
				fail(k, "panic", "%s: persisting block base=%d members=%s panicked: %v", b.t, b.base, &b.m, pe.v)
			} else {
				k.Logf("  persist -> error %v", err)
				fail(k, b.t+"-persist", "%s block base=%d members=%s: FromData(start, Marshal()) failed: %v", b.t, b.base, &b.m, err)
			}
			return
		}
		c := *b
		c.get = get
		k.Count(b.t+".persist_roundtrip", 1)
		for _, rev := range []bool{false, true} {
			if !c.checkIter(k, "reloaded", 1024, rev, false, 0) {
				return
			}
		}
	}
}

type panicErr struct{ v any }

func (p panicErr) Error() string { return fmt.Sprint("panic: ", p.v) }

func bulkBits(r *rand.Rand, base int64) []int64 {
	if r.Intn(100) >= 14 {
		return nil
	}
	n := []int{8, 20, 63, 64, 65, 200, 1000, 1024}[r.Intn(8)]
	if n >= 1024 {
		out := make([]int64, 1024)
		for i := range out {
			out[i] = base + int64(i)
		}
		return out
	}
	out := make([]int64, 0, n)
	if r.Intn(2) == 0 { // a dense run (words with more than 9 members)
		a := r.Intn(1024)
		for i := 0; i < n; i++ {
			out = append(out, base+int64((a+i)%1024))
		}
		return out
	}
	for _, i := range r.Perm(1024)[:n] {
		out = append(out, base+int64(i))
	}
	return out
}

// ---------------------------------------------------------------- BigU32

func bigCase(k *engine.Case) {
	begin(k)
	for it := 0; it < batch; it++ {
		bigOne(k)
		if caseFailed {
			return
		}
	}
}

func to64(u []uint32) []int64 {
	if u == nil {
		return nil
	}
	out := make([]int64, len(u))
	for i, x := range u {
		out[i] = int64(x)
	}
	return out
}

func bigOne(k *engine.Case) {
	r := k.R
	v := genBig(r)
	nf := r.Intn(7)
	follow := make([]int64, nf)
	for i := range follow {
		follow[i] = followBig(r, v)
	}
	bulk := bulkBits(r, v&^1023)
	doPersist := r.Intn(3) == 0

	k.Evals(1)
	k.Nontrivial()
	k.Count("bigu32.inputs", 1)
	hw := []uint64{uint64(v), uint64(len(bulk))}
	for _, w := range follow {
		hw = append(hw, uint64(w))
	}
	if len(bulk) > 0 {
		hw = append(hw, uint64(bulk[0]), uint64(bulk[len(bulk)-1]))
	}
	k.Distinct(hashInput('b', hw...))

	var (
		x   *bitmap1024.BigU32
		err error
	)
	if p := try(func() { x, err = bitmap1024.NewBigU32FromI64(v) }); p != nil {
		k.Logf("NewBigU32FromI64(%d) PANIC %v", v, p)
		if inBigRange(v) {
			fail(k, "panic", "NewBigU32FromI64(%d) panicked: %v", v, p)
		} else {
			fail(k, "panic", "NewBigU32FromI64(%d) (outside the documented range: must be refused, not panic) panicked: %v", v, p)
		}
		return
	}
	if !inBigRange(v) {
		if err == nil {
			k.Logf("NewBigU32FromI64(%d) -> accepted, but the documented range is [0,%d]", v, maxBig)
			fail(k, "bigu32-accepted-out-of-range", "NewBigU32FromI64(%d) accepted an integer outside [0, 2^32*1024-1025]", v)
			return
		}
		if v < 0 {
			k.Count("bigu32.refused_negative", 1)
		} else {
			k.Count("bigu32.refused_above", 1)
		}
		k.Logf("NewBigU32FromI64(%d) -> refused (out of range): %v", v, err)
		return
	}
	if err != nil || x == nil {
		k.Logf("NewBigU32FromI64(%d) -> error %v, but %d is inside [0,%d]", v, err, v, maxBig)
		fail(k, "bigu32-refused-in-range", "NewBigU32FromI64(%d) refused an integer of the documented range: %v", v, err)
		return
	}
	k.Count("bigu32.in_range", 1)
	if v >= p32 {
		k.Count("bigu32.ge_2p32", 1)
	} else {
		k.Count("bigu32.lt_2p32", 1)
	}
	if v == maxBig {
		k.Count("bigu32.max_value", 1)
	}
	if b := v & 1023; b == 0 || b == 1023 {
		k.Count("bigu32.block_edge", 1)
	}
	k.Logf("NewBigU32FromI64(%d) ok: start=%d bit=%d", v, v>>10, v&1023)

	b := &blk{t: "bigu32", base: v &^ 1023}
	b.m.add(int(v & 1023))
	b.get = func(n int, rev bool) []int64 {
		if rev {
			return b.hold64(x.RGetNAsI64(n))
		}
		return b.hold64(x.GetNAsI64(n))
	}
	b.iterAt = func(sz, pos, n int, rev bool) (int, []int64) {
		s := make([]int64, sz)
		if rev {
			return x.RIterAsI64(s, pos, n), s
		}
		return x.IterAsI64(s, pos, n), s
	}
	member := func(w int64) bool { return inBigRange(w) && w&^1023 == b.base }
	why := func(w int64) string {
		switch {
		case !inBigRange(w):
			return "out_of_range"
		case (w-v)%p32 == 0:
			return "alias" // other block, same low 32 bits
		}
		return "other_block"
	}
	var persist func() (func(n int, rev bool) []int64, error)
	if doPersist {
		persist = func() (get func(n int, rev bool) []int64, err error) {
			if p := try(func() {
				buf := x.B1024.Marshal()
				var y *bitmap1024.BigU32
				y, err = bitmap1024.NewBigU32FromData(x.Start, buf)
				if err == nil {
					get = func(n int, rev bool) []int64 {
						if rev {
							return y.RGetNAsI64(n)
						}
						return y.GetNAsI64(n)
					}
				}
			}); p != nil {
				return nil, panicErr{p}
			}
			return get, err
		}
	}
	b.exercise(k, follow, member, why, x.SetI64, bulk, persist)
}

// ---------------------------------------------------------------- U32BitTip

func genTip(r *rand.Rand) uint32 {
	switch p := r.Intn(100); {
	case p < 12:
		return []uint32{0, 1, 1023, 1024, 1025, 2047, 2048, 0x7fff, 0x8000, 0xffff, 0x10000, 1<<31 - 1, 1 << 31, 1<<31 + 1,
			math.MaxUint32, math.MaxUint32 - 1, math.MaxUint32 - 1023, math.MaxUint32 - 1024}[r.Intn(18)]
	case p < 50:
		st := uint32(r.Intn(1 << 22))
		if r.Intn(3) == 0 {
			st = []uint32{0, 1, 2, 31, 32, 63, 64, 1<<21 - 1, 1 << 21, 1<<22 - 2, 1<<22 - 1}[r.Intn(11)]
		}
		return st*1024 + uint32(pickBit(r))
	default:
		return r.Uint32()
	}
}

func followTip(r *rand.Rand, v uint32) uint32 {
	base := v &^ 1023
	switch p := r.Intn(100); {
	case p < 52:
		return base + uint32(pickBit(r))
	case p < 58:
		return v + uint32(r.Intn(5)) - 2
	case p < 72:
		return []uint32{v + 1024, v - 1024, base - 1, base + 1024, base - 1024 + uint32(pickBit(r)), base + 1024 + uint32(pickBit(r))}[r.Intn(6)]
	case p < 84:
		return []uint32{v ^ (1 << 31), v ^ (1 << 22), v ^ (1 << 10), v ^ (1 << 16), v + 1<<22, ^v, v & 1023, v >> 10}[r.Intn(8)]
	default:
		return genTip(r)
	}
}

func tipCase(k *engine.Case) {
	begin(k)
	for it := 0; it < batch; it++ {
		tipOne(k)
		if caseFailed {
			return
		}
	}
}

func tipOne(k *engine.Case) {
	r := k.R
	v := genTip(r)
	nf := r.Intn(7)
	follow := make([]int64, nf)
	for i := range follow {
		follow[i] = int64(followTip(r, v))
	}
	bulk := bulkBits(r, int64(v&^1023))
	doPersist := r.Intn(3) == 0

	k.Evals(1)
	k.Nontrivial()
	k.Count("u32tip.inputs", 1)
	hw := []uint64{uint64(v), uint64(len(bulk))}
	for _, w := range follow {
		hw = append(hw, uint64(w))
	}
	if len(bulk) > 0 {
		hw = append(hw, uint64(bulk[0]), uint64(bulk[len(bulk)-1]))
	}
	k.Distinct(hashInput('t', hw...))

	var x *bitmap1024.U32BitTip
	if p := try(func() { x = bitmap1024.NewU32BitTipFromU32(v) }); p != nil || x == nil {
		k.Logf("NewU32BitTipFromU32(%d) PANIC %v", v, p)
		fail(k, "panic", "NewU32BitTipFromU32(%d) panicked / returned nil: %v", v, p)
		return
	}
	switch {
	case v == math.MaxUint32:
		k.Count("u32tip.max_u32", 1)
	case v == 0:
		k.Count("u32tip.zero", 1)
	}
	if v >= 1<<31 {
		k.Count("u32tip.ge_2p31", 1)
	}
	if b := v & 1023; b == 0 || b == 1023 {
		k.Count("u32tip.block_edge", 1)
	}
	k.Logf("NewU32BitTipFromU32(%d): start=%d bit=%d", v, v>>10, v&1023)

	b := &blk{t: "u32tip", base: int64(v &^ 1023)}
	b.m.add(int(v & 1023))
	b.get = func(n int, rev bool) []int64 {
		if rev {
			return to64(b.hold32(x.RGetNAsU32(n)))
		}
		return to64(b.hold32(x.GetNAsU32(n)))
	}
	b.iterAt = func(sz, pos, n int, rev bool) (int, []int64) {
		s := make([]uint32, sz)
		var c int
		if rev {
			c = x.RIterAsU32(s, pos, n)
		} else {
			c = x.IterAsU32(s, pos, n)
		}
		return c, to64(s)
	}
	member := func(w int64) bool { return w&^1023 == b.base }
	why := func(w int64) string { return "other_block" }
	set := func(w int64) error { return x.SetU32(uint32(w)) }
	var persist func() (func(n int, rev bool) []int64, error)
	if doPersist {
		persist = func() (get func(n int, rev bool) []int64, err error) {
			if p := try(func() {
				buf := x.B1024.Marshal()
				var y *bitmap1024.U32BitTip
				y, err = bitmap1024.NewU32BitTipFromData(x.Start, buf)
				if err == nil {
					get = func(n int, rev bool) []int64 {
						if rev {
							return to64(y.RGetNAsU32(n))
						}
						return to64(y.GetNAsU32(n))
					}
				}
			}); p != nil {
				return nil, panicErr{p}
			}
			return get, err
		}
	}
	b.exercise(k, follow, member, why, set, bulk, persist)
}

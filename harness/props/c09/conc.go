package c09

import (
	"fmt"
	"runtime"
	"sync"

	"github.com/pinealctx/neptune/bitmap1024"

	"verifh/engine"
)

// concMarshalCase: Marshal and Unmarshal work on values. Goroutines that serialize and
// deserialize their *own* (unshared, unmodified) bitmaps at the same time must each get
// their own bitmap back: a codec that keeps intermediate results in shared scratch space
// (package-level buffers, pools released too early) hands one caller another caller's
// members. Single-goroutine kinds never see that. Expected sets come from the model and
// are fixed before the goroutines start; the verdict is read after they have all finished.
func concMarshalCase(k *engine.Case) {
	begin(k)
	r := k.R
	old := runtime.GOMAXPROCS([]int{2, 4, 8, 16}[r.Intn(4)])
	defer runtime.GOMAXPROCS(old)
	workers := 8 + r.Intn(41)
	rounds := 300
	type job struct {
		s     set
		route int
		start uint32
	}
	jobs := make([]job, workers)
	sparse := 0
	for i := range jobs {
		// mostly sparse sets of different sizes: the sparse encoding is where members are
		// collected before they are written out
		switch r.Intn(5) {
		case 0:
			jobs[i].s = genSet(r)
		case 1:
			jobs[i].s = randomMembers(r, 63)
		default:
			jobs[i].s = randomMembers(r, 1+r.Intn(63))
		}
		if n := jobs[i].s.count(); n > 0 && n < 64 {
			sparse++
		}
		jobs[i].route = r.Intn(3)
		jobs[i].start = uint32(r.Intn(int(bitmap1024.MaxU32TipStart) + 1))
	}
	k.Logf("%d goroutines (%d with a sparse set) marshal + unmarshal their own bitmaps, %d rounds each", workers, sparse, rounds)
	k.Nontrivial()
	for i := range jobs {
		k.Distinct(hashInput('c', jobs[i].s[:]...))
	}
	var mu sync.Mutex
	var firstBad string
	bad := 0
	report := func(f string, a ...any) {
		mu.Lock()
		bad++
		if firstBad == "" {
			firstBad = fmt.Sprintf(f, a...)
		}
		mu.Unlock()
	}
	startCh := make(chan struct{})
	var wg sync.WaitGroup
	for i := range jobs {
		j := &jobs[i]
		wg.Add(1)
		go func() {
			defer wg.Done()
			defer func() {
				if p := recover(); p != nil {
					report("panic: %v", p)
				}
			}()
			b := j.s.bitmap()
			<-startCh
			for n := 0; n < rounds; n++ {
				buf := b.Marshal()
				var fresh bitmap1024.Bit1024
				var err error
				switch j.route {
				case 0:
					fresh = bitmap1024.NewBit1024()
					err = fresh.Unmarshal(buf)
				case 1:
					var x *bitmap1024.BigU32
					if x, err = bitmap1024.NewBigU32FromData(j.start, buf); err == nil {
						fresh = x.B1024
					}
				default:
					var x *bitmap1024.U32BitTip
					if x, err = bitmap1024.NewU32BitTipFromData(j.start, buf); err == nil {
						fresh = x.B1024
					}
				}
				if err != nil {
					report("round %d: decoding the %d bytes Marshal produced for %s failed: %v (bytes %s)", n, len(buf), &j.s, err, hexs(buf))
					return
				}
				got, ok := readBitmap(fresh)
				if !ok || got != j.s {
					report("round %d: Unmarshal(Marshal(%s)) gave %s (bytes %s)", n, &j.s, &got, hexs(buf))
					return
				}
				if cur, ok := readBitmap(b); !ok || cur != j.s {
					report("round %d: the source bitmap %s changed to %s", n, &j.s, &cur)
					return
				}
			}
		}()
	}
	close(startCh)
	wg.Wait()
	k.Evals(int64(workers * rounds))
	k.Count("conc.roundtrips", int64(workers*rounds))
	k.Count("conc.goroutines", int64(workers))
	k.Count("conc.sparse_sets", int64(sparse))
	if bad > 0 {
		k.Logf("%d goroutines reported a wrong round trip; first: %s", bad, firstBad)
		fail(k, "concurrent-roundtrip", "%d of %d goroutines, each marshalling and unmarshalling its own unshared bitmap, got something else back; first: %s", bad, workers, firstBad)
	}
}

package c09

import (
	"fmt"
	"math/rand"
	"strings"

	"github.com/pinealctx/neptune/bitmap1024"

	"verifh/engine"
)

// lblock is the model of one block of a list.
type lblock struct {
	start int64
	m     set
}

// genBlockSet: how many members a list block has.
func genBlockSet(r *rand.Rand) set {
	switch p := r.Intn(100); {
	case p < 10:
		return set{}
	case p < 30:
		return randomMembers(r, 1)
	case p < 60:
		return randomMembers(r, 2+r.Intn(12))
	case p < 75:
		var s set
		a := r.Intn(1024)
		for i, l := a, 2+r.Intn(90); i < a+l && i < 1024; i++ {
			s.add(i)
		}
		return s
	case p < 90:
		return genSet(r)
	default:
		return randomMembers(r, []int{63, 64, 65, 1023, 1024}[r.Intn(5)])
	}
}

func listCase(k *engine.Case) {
	begin(k)
	for it := 0; it < batch; it++ {
		listOne(k)
		if caseFailed {
			return
		}
	}
}

func listOne(k *engine.Case) {
	r := k.R
	big := r.Intn(2) == 0
	t := "u32tips"
	if big {
		t = "bigu32s"
	}
	nb := r.Intn(7)
	if r.Intn(3) == 0 {
		nb = 2 + r.Intn(3)
	}
	// distinct starts, in generation order (not sorted: the property is silent about
	// the order across blocks)
	var blocks []lblock
	used := map[int64]bool{}
	for len(blocks) < nb {
		var st int64
		if big {
			st = pickBigStart(r)
		} else {
			st = int64(genTip(r) >> 10)
		}
		if len(blocks) > 0 && r.Intn(3) == 0 { // neighbours of an earlier block
			st = blocks[r.Intn(len(blocks))].start + int64(r.Intn(3)) - 1
			if st < 0 {
				st = 0
			}
			if big && st > 1<<32-2 {
				st = 1<<32 - 2
			}
			if !big && st > 1<<22-1 {
				st = 1<<22 - 1
			}
		}
		if used[st] {
			continue
		}
		used[st] = true
		blocks = append(blocks, lblock{start: st, m: genBlockSet(r)})
	}
	total := 0
	hw := []uint64{uint64(nb)}
	for i := range blocks {
		total += blocks[i].m.count()
		hw = append(hw, uint64(blocks[i].start))
		hw = append(hw, blocks[i].m[:]...)
	}
	// counts: boundaries of the whole list and of the per-block prefixes
	ns := iterCounts(r, total, 2)
	if len(blocks) > 0 {
		c := 0
		for _, b := range blocks[:1+r.Intn(len(blocks))] {
			c += b.m.count()
		}
		ns = append(ns, c+r.Intn(3)-1)
		if ns[len(ns)-1] < 0 {
			ns[len(ns)-1] = 0
		}
	}
	for _, n := range ns {
		hw = append(hw, uint64(n))
	}

	k.Evals(1)
	k.Count("lists.inputs", 1)
	tag := byte('L')
	if big {
		k.Count("lists.big_lists", 1)
	} else {
		tag = 'T'
		k.Count("lists.tip_lists", 1)
	}
	if total > 0 {
		k.Nontrivial()
		k.Distinct(hashInput(tag, hw...))
	}
	nonEmpty := 0
	var desc strings.Builder
	for _, b := range blocks {
		if b.m.count() > 0 {
			nonEmpty++
		} else {
			k.Count("lists.empty_block", 1)
		}
		if big && b.start >= 1<<22 {
			k.Count("lists.big_block_ge_2p22", 1)
		}
		fmt.Fprintf(&desc, " {start=%d members=%s}", b.start, &b.m)
	}
	if nonEmpty > 1 {
		k.Count("lists.multi_block", 1)
	}
	if nb == 0 {
		k.Count("lists.empty_list", 1)
	}
	k.Logf("%s list of %d blocks, %d members:%s", t, nb, total, desc.String())

	// build the neptune list: every block through the public constructors / setters
	var (
		bl bitmap1024.BigU32s
		tl bitmap1024.U32BitTips
	)
	var buildErr string
	if p := try(func() {
		for _, b := range blocks {
			mem := b.m.asc()
			if big {
				var x *bitmap1024.BigU32
				if len(mem) == 0 {
					x = bitmap1024.NewBigU32()
					x.Start = uint32(b.start)
				} else {
					var err error
					x, err = bitmap1024.NewBigU32FromI64(b.start*1024 + int64(mem[0]))
					if err != nil {
						buildErr = fmt.Sprintf("NewBigU32FromI64(%d): %v", b.start*1024+int64(mem[0]), err)
						return
					}
					for _, m := range mem[1:] {
						if err = x.SetI64(b.start*1024 + int64(m)); err != nil {
							buildErr = fmt.Sprintf("SetI64(%d) on start %d: %v", b.start*1024+int64(m), b.start, err)
							return
						}
					}
				}
				bl = append(bl, x)
			} else {
				var x *bitmap1024.U32BitTip
				if len(mem) == 0 {
					x = bitmap1024.NewU32BitTip()
					x.Start = uint32(b.start)
				} else {
					x = bitmap1024.NewU32BitTipFromU32(uint32(b.start*1024 + int64(mem[0])))
					for _, m := range mem[1:] {
						if err := x.SetU32(uint32(b.start*1024 + int64(m))); err != nil {
							buildErr = fmt.Sprintf("SetU32(%d) on start %d: %v", b.start*1024+int64(m), b.start, err)
							return
						}
					}
				}
				tl = append(tl, x)
			}
		}
	}); p != nil {
		fail(k, "panic", "building %s list%s panicked: %v", t, desc.String(), p)
		return
	}
	if buildErr != "" {
		k.Logf("  build: %s", buildErr)
		fail(k, t+"-build", "building a block from integers of one block failed: %s", buildErr)
		return
	}

	for _, n := range ns {
		for _, rev := range []bool{false, true} {
			var got []int64
			call := fmt.Sprintf("%s.%sGetN(%d)", t, map[bool]string{false: "", true: "R"}[rev], n)
			if p := try(func() {
				switch {
				case big && rev:
					got = bl.RGetNAsI64(n)
				case big:
					got = bl.GetNAsI64(n)
				case rev:
					got = to64(tl.RGetNAsU32(n))
				default:
					got = to64(tl.GetNAsU32(n))
				}
			}); p != nil {
				k.Logf("  %s PANIC %v", call, p)
				fail(k, "panic", "%s on%s panicked: %v", call, desc.String(), p)
				return
			}
			k.Count("lists.iterations", 1)
			if n < total {
				k.Count("lists.truncated_by_n", 1)
			} else {
				k.Count("lists.complete", 1)
			}
			if class, msg := judgeList(blocks, got, n, total, rev); class != "" {
				k.Logf("  %s -> %v: %s", call, got, msg)
				fail(k, t+"-"+class, "%s on%s gives %s: %s", call, desc.String(), show64(got), msg)
				return
			}
			k.Logf("  %s -> %s ok", call, show64(got))
		}
	}
}

// judgeList demands only what the statement gives for the list forms: count =
// min(n,total); every value is a member of one of the blocks; the values of one block
// form one contiguous stretch of the result, strictly ascending (forward) or strictly
// descending (reverse). The order of the blocks is not judged.
func judgeList(blocks []lblock, got []int64, n, total int, rev bool) (class, msg string) {
	if want := min(n, total); len(got) != want {
		return "count", fmt.Sprintf("%d values, want min(n=%d, total=%d) = %d", len(got), n, total, want)
	}
	idx := map[int64]int{}
	for i, b := range blocks {
		idx[b.start] = i
	}
	closed := make([]bool, len(blocks))
	cur := -1
	var prev int64
	for i, v := range got {
		bi, ok := idx[v>>10]
		if v < 0 || !ok || !blocks[bi].m.has(int(v&1023)) {
			return "nonmember", fmt.Sprintf("value #%d = %d is not a member of any block", i, v)
		}
		if bi != cur {
			if cur >= 0 {
				closed[cur] = true
			}
			if closed[bi] {
				return "not-contiguous", fmt.Sprintf("value #%d = %d returns to block start=%d after another block's values", i, v, blocks[bi].start)
			}
			cur = bi
		} else if (!rev && v <= prev) || (rev && v >= prev) {
			return "direction", fmt.Sprintf("within block start=%d value #%d = %d follows %d in %s iteration", blocks[bi].start, i, v, prev, dirName(rev))
		}
		prev = v
	}
	return "", ""
}

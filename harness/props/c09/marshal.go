package c09

import (
	"bytes"
	"fmt"

	"github.com/pinealctx/neptune/bitmap1024"

	"verifh/engine"
)

// marshalCase: clause 1 — Unmarshal(Marshal(b)) into a fresh bitmap == b.
func marshalCase(k *engine.Case) {
	begin(k)
	for it := 0; it < batch; it++ {
		s := genSet(k.R)
		route := k.R.Intn(4) // how the bytes get back into a fresh bitmap
		start := uint32(k.R.Intn(int(bitmap1024.MaxU32TipStart) + 1))
		marshalOne(k, &s, route, start)
		if caseFailed {
			return
		}
	}
}

func marshalOne(k *engine.Case, s *set, route int, start uint32) {
	n := s.count()
	k.Evals(1)
	k.Count("marshal.inputs", 1)
	if n > 0 {
		k.Nontrivial()
		k.Distinct(hashInput('m', s[:]...))
	}
	switch n {
	case 0, 1, 62, 63, 64, 65, 1023, 1024:
		k.Count(fmt.Sprintf("marshal.count_%d", n), 1)
	default:
		if n < 64 {
			k.Count("marshal.count_other_lt64", 1)
		} else {
			k.Count("marshal.count_other_ge64", 1)
		}
	}

	b := s.bitmap()
	var buf []byte
	if p := try(func() { buf = b.Marshal() }); p != nil {
		k.Logf("marshal set=%s words=%s", s, s.words())
		fail(k, "panic", "Marshal panicked: %v (set %s)", p, s)
		return
	}
	enc := "sparse"
	switch {
	case len(buf) == 0:
		enc = "empty"
	case len(buf) == 128:
		enc = "dense"
	}
	k.Count("marshal.enc_"+enc, 1)
	if enc == "sparse" && s.has(1023) {
		k.Count("marshal.sparse_with_member_1023", 1)
	}
	if enc == "sparse" && s.has(0) {
		k.Count("marshal.sparse_with_member_0", 1)
	}
	if (n > 0 && n < 64) != (enc == "sparse") || (n == 0) != (enc == "empty") {
		// informational only: the property asks for the round trip, not for the choice
		k.Count("marshal.enc_choice_differs_from_description", 1)
	}
	k.Logf("marshal set=%s -> %d bytes (%s) %s", s, len(buf), enc, shortHex(buf))

	// The bytes produced by Marshal must denote the bitmap (consequence of clause 1 +
	// clause 2: Unmarshal yields the denoted set, and that set has to be the bitmap).
	if d, ok, why := denote(buf); !ok {
		k.Logf("  words=%s bytes=%s", s.words(), hexs(buf))
		fail(k, "marshal-denotation", "Marshal of %s produced %d bytes that denote no set (%s)", s, len(buf), why)
		return
	} else if d != *s {
		k.Logf("  words=%s bytes=%s denote=%s", s.words(), hexs(buf), &d)
		fail(k, "marshal-denotation", "Marshal of %s produced bytes denoting %s", s, &d)
		return
	}

	// back into a fresh bitmap
	var (
		fresh bitmap1024.Bit1024
		err   error
		via   string
	)
	kept := append([]byte(nil), buf...)
	p := try(func() {
		switch route {
		case 0, 1:
			via = "fresh.Unmarshal"
			fresh = bitmap1024.NewBit1024()
			err = fresh.Unmarshal(buf)
		case 2:
			via = fmt.Sprintf("NewBigU32FromData(%d)", start)
			var x *bitmap1024.BigU32
			x, err = bitmap1024.NewBigU32FromData(start, buf)
			if x != nil {
				fresh = x.B1024
			}
		default:
			via = fmt.Sprintf("NewU32BitTipFromData(%d)", start)
			var x *bitmap1024.U32BitTip
			x, err = bitmap1024.NewU32BitTipFromData(start, buf)
			if x != nil {
				fresh = x.B1024
			}
		}
	})
	k.Count("marshal.route_"+[]string{"unmarshal", "unmarshal", "bigu32_fromdata", "u32tip_fromdata"}[route], 1)
	if p != nil {
		k.Logf("  words=%s bytes=%s", s.words(), hexs(kept))
		fail(k, "panic", "%s panicked on Marshal output of %s: %v", via, s, p)
		return
	}
	if err != nil {
		k.Logf("  words=%s bytes=%s -> %s error %v", s.words(), hexs(kept), via, err)
		fail(k, "roundtrip-error", "%s refused the %d bytes Marshal produced for %s: %v", via, len(kept), s, err)
		return
	}
	got, ok := readBitmap(fresh)
	if !ok || got != *s {
		k.Logf("  words=%s bytes=%s -> %s gives %s words=%s", s.words(), hexs(kept), via, &got, got.words())
		fail(k, "roundtrip-mismatch", "%s of Marshal(%s) gives %s", via, s, &got)
		return
	}
	if !bytes.Equal(kept, buf) {
		k.Count("marshal.unmarshal_modified_input", 1) // informational
	}
	k.Logf("  %s ok, equal", via)
	k.Count("marshal.roundtrip_ok", 1)

	// The serialized bytes are a value of their own: changing the source bitmap after Marshal
	// must not change what the earlier bytes decode to, and writing into the bytes must not
	// change the source bitmap (an encoding that is a view of the live words breaks both).
	if n > 0 && n < 1024 {
		b2 := s.bitmap()
		var out []byte
		if p := try(func() { out = b2.Marshal() }); p != nil || len(out) == 0 {
			return
		}
		snapshot := append([]byte(nil), out...)
		// mutate the source: clear one member, set one non-member
		var clr, set int16 = -1, -1
		for i := 0; i < 1024; i++ {
			if clr < 0 && s.has(i) {
				clr = int16(i)
			}
			if set < 0 && !s.has(i) {
				set = int16(i)
			}
		}
		b2.UnsetI16(clr)
		b2.SetI16(set)
		k.Count("marshal.mutated_after_marshal", 1)
		if !bytes.Equal(out, snapshot) {
			fail(k, "marshal-aliases-bitmap", "Marshal(%s) returned bytes that changed when the source bitmap was modified afterwards (member %d cleared, %d set): the %s encoding is a view of the live bitmap", s, clr, set, enc)
			return
		}
		fresh2 := bitmap1024.NewBit1024()
		if err := fresh2.Unmarshal(out); err == nil {
			if got2, ok := readBitmap(fresh2); ok && got2 != *s {
				fail(k, "marshal-aliases-bitmap", "bytes marshalled from %s decode to %s after the source bitmap was modified", s, &got2)
				return
			}
		}
		// and the other way round
		b3 := s.bitmap()
		var out3 []byte
		if p := try(func() { out3 = b3.Marshal() }); p == nil && len(out3) > 0 {
			for i := range out3 {
				out3[i] ^= 0xff
			}
			if got3, ok := readBitmap(b3); ok && got3 != *s {
				fail(k, "marshal-aliases-bitmap", "writing into the bytes returned by Marshal(%s) changed the bitmap itself to %s", s, &got3)
				return
			}
		}
	}
}

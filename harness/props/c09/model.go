package c09

import (
	"encoding/binary"
	"fmt"
	"math/bits"
	"math/rand"

	"github.com/pinealctx/neptune/bitmap1024"
)

// set is the reference model of a 1024-bit bitmap.
type set [16]uint64

func (s *set) add(i int)      { s[i>>6] |= 1 << (uint(i) & 63) }
func (s *set) del(i int)      { s[i>>6] &^= 1 << (uint(i) & 63) }
func (s *set) has(i int) bool { return i >= 0 && i < 1024 && s[i>>6]&(1<<(uint(i)&63)) != 0 }

func (s *set) count() int {
	c := 0
	for _, w := range s {
		c += bits.OnesCount64(w)
	}
	return c
}

// asc lists the members in ascending order.
func (s *set) asc() []int {
	out := make([]int, 0, 64)
	for i := 0; i < 1024; i++ {
		if s.has(i) {
			out = append(out, i)
		}
	}
	return out
}

// bitmap builds the neptune bitmap word by word (no setter involved).
func (s *set) bitmap() bitmap1024.Bit1024 {
	b := bitmap1024.NewBit1024()
	for i := range s {
		b[i] = bitmap1024.Bit64(s[i])
	}
	return b
}

// readBitmap reads a neptune bitmap word by word.
func readBitmap(b bitmap1024.Bit1024) (s set, ok bool) {
	if len(b) != 16 {
		return s, false
	}
	for i := range s {
		s[i] = uint64(b[i])
	}
	return s, true
}

func (s *set) String() string {
	m := s.asc()
	if len(m) <= 14 {
		return fmt.Sprintf("%d%v", len(m), m)
	}
	return fmt.Sprintf("%d[%d %d %d %d .. %d %d %d]", len(m), m[0], m[1], m[2], m[3], m[len(m)-3], m[len(m)-2], m[len(m)-1])
}

func (s *set) words() string {
	return fmt.Sprintf("%016x", s[:])
}

// encode is the canonical encoding as the property describes it: nothing for the empty
// set, 2 little-endian bytes per member (ascending) below 64 members, else 128 bytes.
// Used only to GENERATE byte strings; the oracle never compares Marshal output with it.
func encode(s *set) []byte {
	n := s.count()
	if n == 0 {
		return nil
	}
	if n < 64 {
		buf := make([]byte, 0, 2*n)
		for _, m := range s.asc() {
			buf = binary.LittleEndian.AppendUint16(buf, uint16(m))
		}
		return buf
	}
	buf := make([]byte, 128)
	for i, w := range s {
		binary.LittleEndian.PutUint64(buf[8*i:], w)
	}
	return buf
}

// denote is the partial function "the set a byte string denotes".
func denote(buf []byte) (s set, ok bool, why string) {
	n := len(buf)
	switch {
	case n == 0:
		return s, true, "empty"
	case n > 128:
		return s, false, "too_long"
	case n%2 != 0:
		return s, false, "odd_length"
	case n == 128:
		for i := range s {
			s[i] = binary.LittleEndian.Uint64(buf[8*i:])
		}
		return s, true, "dense"
	}
	for i := 0; i < n; i += 2 {
		e := binary.LittleEndian.Uint16(buf[i:])
		if e >= 0x8000 {
			return s, false, "elem_negative_i16"
		}
		if e > 1023 {
			return s, false, "elem_gt_1023"
		}
		s.add(int(e))
	}
	return s, true, "sparse"
}

// ---------------------------------------------------------------- set generator

var edgePos = []int{0, 1, 62, 63, 64, 65, 127, 128, 255, 256, 511, 512, 959, 960, 1022, 1023}
var edgeCounts = []int{0, 1, 2, 62, 63, 64, 65, 66, 127, 128, 1022, 1023, 1024}

// randomMembers picks n distinct positions.
func randomMembers(r *rand.Rand, n int) set {
	var s set
	if n <= 0 {
		return s
	}
	if n >= 1024 {
		for i := range s {
			s[i] = ^uint64(0)
		}
		return s
	}
	p := r.Perm(1024)
	for _, i := range p[:n] {
		s.add(i)
	}
	return s
}

// genSet draws a bitmap; the member COUNT is what decides the encoding, so it is
// biased to the boundaries the property names, and edge positions are forced in
// without changing the count.
func genSet(r *rand.Rand) set {
	var s set
	switch p := r.Intn(100); {
	case p < 40: // the named boundary counts
		s = randomMembers(r, edgeCounts[r.Intn(len(edgeCounts))])
	case p < 55: // around the sparse/dense threshold
		s = randomMembers(r, 50+r.Intn(30))
	case p < 70: // any count
		s = randomMembers(r, r.Intn(1025))
	case p < 80: // small sets
		s = randomMembers(r, r.Intn(12))
	case p < 88: // random words of varying density
		for i := range s {
			w := r.Uint64()
			switch r.Intn(4) {
			case 0:
				w &= r.Uint64() & r.Uint64()
			case 1:
				w |= r.Uint64() | r.Uint64()
			case 2:
				w = 0
			}
			s[i] = w
		}
	case p < 95: // runs
		for j := r.Intn(4) + 1; j > 0; j-- {
			a := r.Intn(1024)
			l := r.Intn(70) + 1
			for i := a; i < a+l && i < 1024; i++ {
				s.add(i)
			}
		}
	default: // only edge positions
		for j := r.Intn(6) + 1; j > 0; j-- {
			s.add(edgePos[r.Intn(len(edgePos))])
		}
	}
	// force edge positions in, keeping the count
	if c := s.count(); c > 0 && c < 1024 && r.Intn(100) < 45 {
		for j := r.Intn(3) + 1; j > 0; j-- {
			e := edgePos[r.Intn(len(edgePos))]
			if r.Intn(3) == 0 {
				e = 1023
			}
			if s.has(e) {
				continue
			}
			m := s.asc()
			s.del(m[r.Intn(len(m))])
			s.add(e)
		}
	}
	return s
}

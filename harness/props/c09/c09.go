// Package c09 is the runtime monitor of property C09 (bitmap1024: serialization and
// block-integer mapping round-trip).
//
// Kinds, one per clause of the statement (conc-marshal: clause 1 with several goroutines
// working on their own bitmaps at the same time):
//
//	marshal    Marshal -> Unmarshal into a fresh bitmap reproduces the bitmap (sparse and dense)
//	unmarshal  Unmarshal of arbitrary bytes (length 0..130): no panic; error, or exactly the denoted set
//	bigu32     64-bit block built from an integer: accept iff in the documented range, iterates back
//	           to that integer, SetI64 accepts exactly the integers of the block, forward ascending /
//	           reverse descending
//	u32tip     the same over all of uint32
//	lists      list forms: count, membership, per-block contiguity and direction
//
// The reference model is a [16]uint64 bit set with 30 lines of code (model.go).
package c09

import (
	"encoding/binary"
	"fmt"
	"math/rand"

	"github.com/pinealctx/neptune/bitmap1024"

	"verifh/engine"
)

// batch = inputs evaluated per case (a case costs ~15us of PRNG seeding on its own).
const batch = 40

var Prop = &engine.Prop{
	ID:    "C09",
	Level: "exploration",
	Rule: "every case is a batch of 40 seed-generated inputs of one clause: a bitmap (member count biased to 0,1,62,63,64,65,1024; edge positions 0,63,64,1023 forced in), " +
		"a byte string of length 0..130 (random, valid non-canonical, canonical, or a canonical encoding with one mutation), " +
		"an int64 / uint32 with up to 6 further integers aimed at the same block, the neighbouring blocks and the 2^32 / 2^42 aliases, or a list of 0..6 blocks with a count n. " +
		"An input is non-trivial when the clause is actually exercised (non-empty bitmap; non-empty byte string; integer input; non-empty list). " +
		"distinct = distinct inputs (hash of the kind and the complete generated input, including the follow-up integers and counts)",
	Assumptions: []string{
		"the reference model: a [16]uint64 bit set; bit i of the bitmap is bit i%64 of word i/64 (Bit1024 is an exported []uint64-based type and is built / read word by word, not through the setters)",
		"byte strings denote sets as the encoding is defined: empty = empty set; 128 bytes = 16 little-endian uint64 words; even length < 128 = the set of its little-endian uint16, all of which must be <= 1023; anything else (odd length, > 128 bytes, element > 1023) denotes nothing, so Unmarshal has to fail",
		"documented range of BigU32: 0 <= v <= 2^32*1024-1025 (= 4398046510079, the value named in bigu32.go); integers outside are expected to be refused",
		"iteration counts n are >= 0 and at most 1100 (a negative count is misuse: make() panics); IterAsI64 / IterAsU32 are called with a slice of at least pos+n elements",
		"an integer counts as accepted by a block when SetI64 / SetU32 returned nil; the block must afterwards iterate exactly the accepted integers",
		"the sparse/dense traversal threshold of the internal Bit64 iterator (verif hook VerifSetSparseMagic) is set per case from the case seed to 9 (default), 0 or 64; the result of an iteration must not depend on it",
	},
	ShardsQuick: 4, ShardsThorough: 16,
	Kinds: []engine.Kind{
		{Name: "cold-start", Quick: 64, Thorough: 640, Fn: coldStartCase},
		{Name: "marshal", Quick: 2400, Thorough: 240000, Fn: marshalCase},
		{Name: "unmarshal", Quick: 3000, Thorough: 300000, Fn: unmarshalCase},
		{Name: "bigu32", Quick: 2400, Thorough: 240000, Fn: bigCase},
		{Name: "u32tip", Quick: 2000, Thorough: 200000, Fn: tipCase},
		{Name: "lists", Quick: 1200, Thorough: 120000, Fn: listCase},
		{Name: "conc-marshal", Quick: 240, Thorough: 8000, Fn: concMarshalCase},
	},
	// All counters are pure functions of (seed, case counts); floors are ~1/10 of
	// what seed 1 quick reaches.
	Floors: map[string]int64{
		"cold_start.fresh_process":        1,
		"marshal.count_0":                 100,
		"marshal.count_1":                 100,
		"marshal.count_63":                100,
		"marshal.count_64":                100,
		"marshal.count_65":                100,
		"marshal.count_1024":              100,
		"marshal.enc_sparse":              1000,
		"marshal.enc_dense":               1000,
		"marshal.sparse_with_member_1023": 50,
		"unmarshal.ok_sparse":             1000,
		"unmarshal.ok_dense":              300,
		"unmarshal.ok_empty":              50,
		"unmarshal.err_odd_length":        300,
		"unmarshal.err_too_long":          300,
		"unmarshal.err_elem_gt_1023":      300,
		"unmarshal.err_elem_negative_i16": 300,
		"unmarshal.canonical_accepted":    1000,
		"unmarshal.noncanonical_accepted": 300,
		"bigu32.in_range":                 5000,
		"bigu32.ge_2p32":                  2000,
		"bigu32.lt_2p32":                  500,
		"bigu32.refused_negative":         200,
		"bigu32.refused_above":            200,
		"bigu32.max_value":                20,
		"bigu32.set_accepted":             3000,
		"bigu32.set_refused_other_block":  1000,
		"bigu32.set_refused_alias":        100,
		"bigu32.set_refused_out_of_range": 100,
		"bigu32.iter_forward_multi":       1000,
		"bigu32.iter_reverse_multi":       1000,
		"bigu32.persist_roundtrip":        500,
		"u32tip.inputs":                   5000,
		"u32tip.max_u32":                  20,
		"u32tip.set_accepted":             3000,
		"u32tip.set_refused":              1000,
		"u32tip.iter_forward_multi":       1000,
		"u32tip.iter_reverse_multi":       1000,
		"lists.big_lists":                 1000,
		"lists.tip_lists":                 1000,
		"lists.multi_block":               1000,
		"lists.truncated_by_n":            500,
		"lists.big_block_ge_2p22":         300,
	},
}

// ---------------------------------------------------------------- helpers

// try runs f and returns the recovered panic value (nil if none).
func try(f func()) (p any) {
	defer func() {
		if r := recover(); r != nil {
			p = r
		}
	}()
	f()
	return nil
}

// setMagic chooses the Bit64 traversal threshold for this case (a pure function of the
// case PRNG; every case sets it first, so replay reproduces it).
func setMagic(k *engine.Case) int32 {
	m := int32(9)
	switch p := k.R.Intn(10); {
	case p == 0:
		m = 0
	case p == 1:
		m = 64
	}
	bitmap1024.VerifSetSparseMagic(m)
	k.Logf("sparse-magic=%d", m)
	return m
}

func hashInput(tag byte, words ...uint64) uint64 {
	buf := make([]byte, 1+8*len(words))
	buf[0] = tag
	for i, w := range words {
		binary.LittleEndian.PutUint64(buf[1+8*i:], w)
	}
	return engine.Hash64(buf)
}

func hexs(b []byte) string {
	if len(b) == 0 {
		return "<empty>"
	}
	return fmt.Sprintf("%x", b)
}

func shortHex(b []byte) string {
	if len(b) <= 24 {
		return hexs(b)
	}
	return fmt.Sprintf("%x..%x", b[:16], b[len(b)-6:])
}

// iterCounts returns the iteration counts to try for a block / list of `total`
// members: boundary values plus random ones (all within 0..1100).
func iterCounts(r *rand.Rand, total, howMany int) []int {
	cand := []int{0, 1, 2, 3, total - 1, total, total + 1, total + 7, 63, 64, 65, 1023, 1024, 1025, 1100}
	out := make([]int, 0, howMany)
	for len(out) < howMany {
		var n int
		if r.Intn(3) == 0 {
			n = r.Intn(total + 12)
		} else {
			n = cand[r.Intn(len(cand))]
		}
		if n < 0 {
			n = 0
		}
		if n > 1100 {
			n = 1100
		}
		out = append(out, n)
	}
	return out
}

// The engine keeps only the first 40 violations of a child, in execution order; a
// defect that fails every case of an early kind would crowd out the witness classes of
// the later kinds. So each class is reported at most maxPerClass times per process;
// further occurrences are only counted (counter "violations_not_reported.<class>").
const maxPerClass = 4

var (
	caseFailed bool // the current case hit a violation: stop its batch
	perClass   = map[string]int{}
)

func begin(k *engine.Case) { caseFailed = false; setMagic(k) }

func fail(k *engine.Case, class, format string, a ...any) {
	caseFailed = true
	perClass[class]++
	if perClass[class] > maxPerClass {
		k.Count("violations_not_reported."+class, 1)
		return
	}
	k.Fail(class, format, a...)
}

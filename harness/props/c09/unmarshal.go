package c09

import (
	"bytes"
	"encoding/binary"
	"math/rand"

	"github.com/pinealctx/neptune/bitmap1024"

	"verifh/engine"
)

var edgeElems = []uint16{0, 1, 63, 64, 1022, 1023, 1024, 1025, 0x03ff, 0x0400, 0x07ff, 0x7fff, 0x8000, 0x8001, 0xfc00, 0xffff, 0xff03, 0x0004}
var edgeLens = []int{0, 1, 2, 3, 4, 62, 63, 64, 65, 124, 125, 126, 127, 128, 129, 130}

func randBytes(r *rand.Rand, n int) []byte {
	b := make([]byte, n)
	r.Read(b)
	return b
}

// genBytes draws a byte string of length 0..130 and names how it was made.
func genBytes(r *rand.Rand) (buf []byte, how string) {
	switch p := r.Intn(100); {
	case p < 12:
		return randBytes(r, r.Intn(131)), "random"
	case p < 20:
		return randBytes(r, edgeLens[r.Intn(len(edgeLens))]), "random-edge-length"
	case p < 35: // valid but not canonical: in-range elements in any order, duplicates allowed
		n := r.Intn(64)
		if r.Intn(4) == 0 {
			n = []int{1, 2, 62, 63}[r.Intn(4)]
		}
		for i := 0; i < n; i++ {
			e := uint16(r.Intn(1024))
			if r.Intn(6) == 0 {
				e = []uint16{0, 63, 64, 1023, 1022}[r.Intn(5)]
			}
			if i > 0 && r.Intn(8) == 0 {
				e = binary.LittleEndian.Uint16(buf[2*r.Intn(i):])
			}
			buf = binary.LittleEndian.AppendUint16(buf, e)
		}
		return buf, "in-range-elements"
	case p < 43: // 128 arbitrary bytes: always a dense encoding
		b := randBytes(r, 128)
		switch r.Intn(4) {
		case 0: // 64 in-range u16: looks sparse, is dense by length
			for i := 0; i < 64; i++ {
				binary.LittleEndian.PutUint16(b[2*i:], uint16(r.Intn(1024)))
			}
			return b, "dense-64-small-u16"
		case 1:
			for i := range b {
				b[i] &= byte(r.Intn(256))
			}
		}
		return b, "dense-random"
	case p < 60:
		s := genSet(r)
		return encode(&s), "canonical"
	}
	// one mutation of a canonical encoding
	s := genSet(r)
	if r.Intn(3) > 0 { // mostly sparse ones: that is where the validation lives
		s = randomMembers(r, 1+r.Intn(63))
		if r.Intn(4) == 0 {
			s = randomMembers(r, []int{1, 2, 61, 62, 63}[r.Intn(5)])
		}
	}
	buf = encode(&s)
	switch m := r.Intn(12); {
	case m == 0 && len(buf) > 0:
		return buf[:len(buf)-1], "canonical-minus-1-byte"
	case m == 1 && len(buf) > 2:
		return buf[:len(buf)-2], "canonical-minus-2-bytes"
	case m == 2:
		return append(buf, byte(r.Intn(256))), "canonical-plus-1-byte"
	case m == 3:
		if len(buf) <= 128 {
			return append(buf, randBytes(r, 2)...), "canonical-plus-2-random-bytes"
		}
	case m == 4:
		return append(buf, randBytes(r, 3)...), "canonical-plus-3-bytes"
	case m == 5 || m == 6:
		if len(buf) >= 2 {
			i := r.Intn(len(buf) / 2)
			e := edgeElems[r.Intn(len(edgeElems))]
			binary.LittleEndian.PutUint16(buf[2*i:], e)
			return buf, "canonical-one-element-replaced"
		}
	case m == 7:
		if len(buf) > 0 {
			i := r.Intn(len(buf))
			buf[i] ^= 1 << uint(r.Intn(8))
			return buf, "canonical-bit-flip"
		}
	case m == 8:
		if len(buf) >= 2 { // byte-swap one element (big-endian confusion)
			i := r.Intn(len(buf) / 2)
			buf[2*i], buf[2*i+1] = buf[2*i+1], buf[2*i]
			return buf, "canonical-element-byte-swapped"
		}
	case m == 9:
		if len(buf) >= 2 && len(buf) < 126 { // duplicate an element
			i := r.Intn(len(buf) / 2)
			return append(buf, buf[2*i], buf[2*i+1]), "canonical-duplicate-element"
		}
	case m == 10: // pad to just past the dense length
		target := 129 + r.Intn(2)
		for len(buf) < target {
			buf = append(buf, 0)
		}
		return buf, "canonical-zero-padded-past-128"
	case m == 11:
		if len(buf) >= 2 && len(buf) < 128 { // append an out-of-range element
			return binary.LittleEndian.AppendUint16(buf, edgeElems[r.Intn(len(edgeElems))]), "canonical-plus-edge-element"
		}
	}
	return buf, "canonical"
}

// unmarshalCase: clause 2 — Unmarshal of arbitrary bytes never panics and either
// fails or yields exactly the set the bytes denote.
func unmarshalCase(k *engine.Case) {
	begin(k)
	for it := 0; it < batch; it++ {
		buf, how := genBytes(k.R)
		if len(buf) > 130 {
			buf = buf[:130]
		}
		unmarshalOne(k, buf, how)
		if caseFailed {
			return
		}
	}
}

func unmarshalOne(k *engine.Case, buf []byte, how string) {
	unmarshalDirect(k, buf, how)
	if caseFailed {
		return
	}
	unmarshalFromData(k, buf, how)
}

// unmarshalFromData pushes the same bytes through the block constructors, which decode
// into a bitmap of their own making ("a fresh bitmap"): same verdicts as the direct route.
// Failing inputs come first in most batches, so a constructor that lets a failed decode
// leak into the next one shows as a wrong set here.
func unmarshalFromData(k *engine.Case, buf []byte, how string) {
	want, defined, why := denote(buf)
	in := append([]byte(nil), buf...)
	var bm bitmap1024.Bit1024
	var err error
	var pollute func() // writes one more member into the returned block, through the block's own API
	via := "NewBigU32FromData"
	start := uint32(k.R.Intn(1 << 22))
	tip := k.R.Intn(2) == 0
	if tip {
		via = "NewU32BitTipFromData"
	}
	if p := try(func() {
		if tip {
			var x *bitmap1024.U32BitTip
			if x, err = bitmap1024.NewU32BitTipFromData(start, in); err == nil {
				bm = x.B1024
				pollute = func() { _ = x.SetU32(start*1024 + 5) }
			}
		} else {
			var x *bitmap1024.BigU32
			if x, err = bitmap1024.NewBigU32FromData(start, in); err == nil {
				bm = x.B1024
				pollute = func() { _ = x.SetI64(int64(start)*1024 + 5) }
			}
		}
	}); p != nil {
		k.Logf("%s %s len=%d bytes=%s -> PANIC %v", via, how, len(buf), hexs(buf), p)
		fail(k, "panic", "%s panicked on %d bytes %s: %v", via, len(buf), hexs(buf), p)
		return
	}
	k.Evals(1)
	k.Count("unmarshal.fromdata_inputs", 1)
	if err != nil {
		if defined {
			b := want.bitmap()
			var canon []byte
			if p := try(func() { canon = b.Marshal() }); p == nil && bytes.Equal(canon, buf) {
				k.Logf("%s %s len=%d bytes=%s -> error %q but Marshal(%s) yields these bytes", via, how, len(buf), hexs(buf), err.Error(), &want)
				fail(k, "roundtrip-error", "%s refused %d bytes that are the Marshal output of %s: %v", via, len(buf), &want, err)
			}
		}
		k.Count("unmarshal.fromdata_err", 1)
		return
	}
	if bm == nil {
		k.Logf("%s %s len=%d -> nil bitmap without error", via, how, len(buf))
		fail(k, "unmarshal-wrong-set", "%s(%d, %d bytes) returned no error and a nil bitmap", via, start, len(buf))
		return
	}
	for i := range in {
		in[i] = 0xA5 // the caller reuses its buffer: the block must not live in it
	}
	got, ok := readBitmap(bm)
	if !defined {
		k.Logf("%s %s len=%d bytes=%s -> accepted as %s, but the bytes denote nothing (%s)", via, how, len(buf), hexs(buf), &got, why)
		fail(k, "unmarshal-accepted-"+why, "%s accepted %d bytes that denote no set (%s) and produced %s; bytes=%s", via, len(buf), why, &got, hexs(buf))
		return
	}
	if !ok || got != want {
		k.Logf("%s %s len=%d bytes=%s -> %s, denoted %s", via, how, len(buf), hexs(buf), &got, &want)
		fail(k, "unmarshal-wrong-set", "%s of %d bytes (%s encoding) gives %s, the bytes denote %s; bytes=%s", via, len(buf), why, &got, &want, hexs(buf))
		return
	}
	k.Count("unmarshal.fromdata_ok", 1)
	// every decoded block is a block of its own: the caller goes on using it (one more member),
	// which must not show in any block decoded later
	if pollute != nil {
		if p := try(pollute); p != nil {
			fail(k, "panic", "setting a member of the block %s returned panicked: %v", via, p)
		}
	}
}

func unmarshalDirect(k *engine.Case, buf []byte, how string) {
	k.Evals(1)
	k.Count("unmarshal.inputs", 1)
	k.Count("unmarshal.gen_"+how, 1)
	if len(buf) > 0 {
		k.Nontrivial()
		k.Distinct(engine.Hash64(append([]byte{'u'}, buf...)))
	}
	k.C.Max("unmarshal.length", int64(len(buf)))
	want, defined, why := denote(buf)

	in := append([]byte(nil), buf...)
	fresh := bitmap1024.NewBit1024()
	var err error
	if p := try(func() { err = fresh.Unmarshal(in) }); p != nil {
		k.Logf("unmarshal %s len=%d bytes=%s -> PANIC %v", how, len(buf), hexs(buf), p)
		fail(k, "panic", "Unmarshal panicked on %d bytes %s: %v", len(buf), hexs(buf), p)
		return
	}
	if err != nil {
		if !defined {
			k.Count("unmarshal.err_"+why, 1)
			k.Logf("unmarshal %s len=%d %s -> error %q (denotes nothing: %s)", how, len(buf), shortHex(buf), err.Error(), why)
			return
		}
		// Failing is allowed by clause 2 — unless these are exactly the bytes Marshal
		// produces for the denoted set (clause 1).
		k.Count("unmarshal.error_on_denoting_bytes", 1)
		var canon []byte
		b := want.bitmap()
		if p := try(func() { canon = b.Marshal() }); p == nil && bytes.Equal(canon, buf) {
			k.Logf("unmarshal %s len=%d bytes=%s -> error %q but Marshal(%s) yields these bytes", how, len(buf), hexs(buf), err.Error(), &want)
			fail(k, "roundtrip-error", "Unmarshal refused %d bytes that are the Marshal output of %s: %v", len(buf), &want, err)
			return
		}
		k.Logf("unmarshal %s len=%d %s -> error %q (non-canonical encoding of %s: allowed)", how, len(buf), shortHex(buf), err.Error(), &want)
		return
	}
	// accepted; the caller's bytes were only input: the caller reuses its buffer now
	if !bytes.Equal(in, buf) {
		fail(k, "unmarshal-modified-input", "Unmarshal changed the caller's bytes from %s to %s", hexs(buf), hexs(in))
		return
	}
	for i := range in {
		in[i] = 0xA5
	}
	got, ok := readBitmap(fresh)
	if !defined {
		k.Logf("unmarshal %s len=%d bytes=%s -> accepted as %s, but the bytes denote nothing (%s)", how, len(buf), hexs(buf), &got, why)
		fail(k, "unmarshal-accepted-"+why, "Unmarshal accepted %d bytes that denote no set (%s) and produced %s; bytes=%s", len(buf), why, &got, hexs(buf))
		return
	}
	if !ok || got != want {
		k.Logf("unmarshal %s len=%d bytes=%s -> %s words=%s, denoted %s words=%s", how, len(buf), hexs(buf), &got, got.words(), &want, want.words())
		fail(k, "unmarshal-wrong-set", "Unmarshal of %d bytes (%s encoding) gives %s, the bytes denote %s; bytes=%s", len(buf), why, &got, &want, hexs(buf))
		return
	}
	k.Count("unmarshal.ok_"+why, 1)
	if bytes.Equal(encode(&want), buf) {
		k.Count("unmarshal.canonical_accepted", 1)
	} else {
		k.Count("unmarshal.noncanonical_accepted", 1)
	}
	if why == "sparse" && want.has(1023) {
		k.Count("unmarshal.ok_sparse_with_1023", 1)
	}
	k.Logf("unmarshal %s len=%d %s -> ok %s = denoted (%s)", how, len(buf), shortHex(buf), &want, why)
}

package c09

import (
	"fmt"
	"sync/atomic"

	"github.com/pinealctx/neptune/bitmap1024"

	"verifh/engine"
)

var coldStartDone atomic.Bool

// coldStartCase is the first kind of the check, so its first case in every child process is
// that process's very first use of the bitmap package: decoding bytes into a fresh bitmap -
// no bit has been set through the API yet - and reading the result back through the public
// readers (Len, the ascending and descending member lists, Marshal) as well as word by word.
// Whatever the package prepares lazily must be ready for a process that starts by decoding.
// Later cases of the kind repeat the same on the warm process.
func coldStartCase(k *engine.Case) {
	cold := coldStartDone.CompareAndSwap(false, true)
	if cold {
		k.Count("cold_start.fresh_process", 1)
	} else {
		k.Count("cold_start.warm_process", 1)
	}
	caseFailed = false
	r := k.R
	n := []int{64, 65, 100, 300, 700, 1023, 1024, 64 + r.Intn(900)}[r.Intn(8)]
	mode := []int{0, 1, 2, 0, 1, 2, 0, 3}[r.Intn(8)]
	if mode == 3 {
		n = 1 + r.Intn(63) // the sparse encoding
	}
	want := randomMembers(r, n)
	buf := encode(&want)
	start := uint32(r.Intn(1 << 22))
	via := []string{"Bit1024.Unmarshal", "NewBigU32FromData", "NewU32BitTipFromData", "Bit1024.Unmarshal"}[mode]
	k.Logf("first use of the package in this process: %v; %s of the %d-byte encoding of %s", cold, via, len(buf), &want)
	k.Nontrivial()
	k.Evals(1)
	var bm bitmap1024.Bit1024
	var err error
	if p := try(func() {
		switch mode {
		case 1:
			var x *bitmap1024.BigU32
			if x, err = bitmap1024.NewBigU32FromData(start, append([]byte(nil), buf...)); err == nil {
				bm = x.B1024
			}
		case 2:
			var x *bitmap1024.U32BitTip
			if x, err = bitmap1024.NewU32BitTipFromData(start, append([]byte(nil), buf...)); err == nil {
				bm = x.B1024
			}
		default:
			bm = bitmap1024.NewBit1024()
			err = bm.Unmarshal(append([]byte(nil), buf...))
		}
	}); p != nil {
		fail(k, "panic", "%s (first use in this process: %v) panicked on the encoding of %s: %v", via, cold, &want, p)
		return
	}
	if err != nil {
		fail(k, "roundtrip-error", "%s (first use in this process: %v) refused the %d-byte encoding of %s: %v", via, cold, len(buf), &want, err)
		return
	}
	if got, ok := readBitmap(bm); !ok || got != want {
		fail(k, "wrong-set", "%s (first use in this process: %v) of the encoding of %s yields the words %s", via, cold, &want, got.words())
		return
	}
	asc := want.asc()
	var l int
	var up, down []int16
	var again []byte
	if p := try(func() {
		l = bm.Len()
		up = bm.GetNAsI16(1024)
		down = bm.RGetNAsI16(1024)
		again = bm.Marshal()
	}); p != nil {
		fail(k, "panic", "reading the bitmap decoded by %s (first use in this process: %v) panicked: %v", via, cold, p)
		return
	}
	same := l == len(asc) && len(up) == len(asc) && len(down) == len(asc)
	for i := 0; same && i < len(asc); i++ {
		same = int(up[i]) == asc[i] && int(down[i]) == asc[len(asc)-1-i]
	}
	if !same {
		fail(k, "wrong-set", "%s (first use in this process: %v) decoded the encoding of %s (words are right), but the bitmap reads back as Len()=%d, GetNAsI16(1024)=%s, RGetNAsI16(1024)=%s",
			via, cold, &want, l, clipI16(up), clipI16(down))
		return
	}
	if s2, ok, _ := denote(again); !ok || s2 != want {
		fail(k, "roundtrip-mismatch", "%s (first use in this process: %v) decoded the encoding of %s, but Marshal of the result gives %d bytes that denote %s", via, cold, &want, len(again), &s2)
		return
	}
	k.Count("cold_start.decoded_"+[]string{"dense", "dense_bigu32", "dense_u32tip", "sparse"}[mode], 1)
}

func clipI16(v []int16) string {
	if len(v) <= 12 {
		return fmt.Sprint(v)
	}
	return fmt.Sprintf("%d elements %v..%v", len(v), v[:6], v[len(v)-4:])
}

package c13

import (
	"verifh/engine"
)

// predecessorCase: queues are independent of the queues that came before them. A first queue
// is used a little and closed while empty (a session that ended); a second queue of the same
// type is created afterwards. j consumers park on the second queue, k > j items are added,
// somebody still holding the first queue pops from it (and adds to it) - that must report
// "closed" and nothing else - and k-j further consumers pop from the second queue: all k
// consumers must return with the k distinct items.
func predecessorCase(k *engine.Case) {
	r := k.R
	typ := r.Intn(5)
	mk := func() cq { return newQueue(fixedIntn(typ)) }
	old := mk()
	d := engine.NewDriver(Q, k)
	used := r.Intn(4)
	for i := 0; i < used; i++ {
		_ = old.Add(9000+i, false, false)
	}
	for i := 0; i < used; i++ {
		anyway := i%2 == 0
		o := d.Spawn("Pop on the first queue", func() any { v, ok := old.Pop(anyway); return popRes{v, ok} })
		if !d.Quiesce() {
			old.Close()
			return
		}
		if !o.Done() {
			k.Fail("lost-wakeup", "%s: %d items were pushed on a fresh queue; pop #%d sleeps beside them", old.Name(), used, i)
			old.Close()
			return
		}
		if pr := o.Result().(popRes); !pr.ok || pr.v != 9000+i {
			k.Fail("lost-item", "%s: item %d pushed on a fresh queue came back as %+v", old.Name(), 9000+i, pr)
			old.Close()
			return
		}
	}
	old.Close()
	qu := mk()
	j := r.Intn(4)
	n := j + 1 + r.Intn(5)
	pokes := 1 + r.Intn(3)
	k.Logf("queue type %s: a first queue (%d items pushed and popped) is closed while empty; second queue: %d consumers park, %d items are added, %d late calls on the first queue, %d more consumers", qu.Name(), used, j, n, pokes, n-j)
	k.Nontrivial()
	var ops []*engine.Op
	pop := func(i int) *engine.Op {
		anyway := i%2 == 0
		return d.Spawn("Pop", func() any { v, ok := qu.Pop(anyway); return popRes{v, ok} })
	}
	for i := 0; i < j; i++ {
		ops = append(ops, pop(i))
	}
	if !d.Quiesce() {
		qu.Close()
		return
	}
	for i := 0; i < n; i++ {
		if err := qu.Add(100+i, false, false); err != nil {
			k.Fail("add-refused", "%s: add #%d on the open unbounded queue was refused: %v", qu.Name(), i, err)
			qu.Close()
			return
		}
	}
	if !d.Quiesce() {
		qu.Close()
		return
	}
	// late calls on the first queue, by somebody who still holds it
	for p := 0; p < pokes; p++ {
		if r.Intn(3) == 0 {
			_ = old.Add(7000+p, false, false) // refused or dropped: the queue is closed
		}
		anyway := r.Intn(2) == 0
		ghost := d.Spawn("Pop on the first (closed) queue", func() any { v, ok := old.Pop(anyway); return popRes{v, ok} })
		if !d.Quiesce() {
			qu.Close()
			return
		}
		k.Evals(1)
		if !ghost.Done() {
			k.Fail("parked-after-close", "%s: Pop on the first queue, closed while empty, does not return", old.Name())
			qu.Close()
			return
		}
		if pr := ghost.Result().(popRes); pr.ok {
			k.Fail("item-from-other-queue", "%s: Pop on the first queue (closed while empty, nothing accepted since) returned item %d; items 100..%d were added to the second queue", old.Name(), pr.v, 100+n-1)
			qu.Close()
			return
		}
	}
	for i := j; i < n; i++ {
		ops = append(ops, pop(i))
	}
	if !d.Quiesce() {
		qu.Close()
		return
	}
	k.Evals(1)
	seen := map[int]bool{}
	done := 0
	for _, o := range ops {
		if !o.Done() {
			continue
		}
		done++
		pr := o.Result().(popRes)
		if !pr.ok || seen[pr.v] || pr.v < 100 || pr.v >= 100+n {
			k.Fail("lost-wakeup", "%s: a consumer of the second queue returned %+v after items 100..%d were added for %d consumers", qu.Name(), pr, 100+n-1, n)
			qu.Close()
			return
		}
		seen[pr.v] = true
	}
	if done != n {
		k.Fail("lost-wakeup", "%s: %d items were added to the second queue and %d consumers popped from it; only %d returned, %d sleep although as many items were added as there are consumers", qu.Name(), n, n, done, n-done)
		qu.Close()
		return
	}
	k.Count("predecessor_cases_ok", 1)
	qu.Close()
}

// fixedIntn answers every Intn with one number (to pick a queue type from newQueue).
type fixedIntn int

func (f fixedIntn) Intn(int) int { return int(f) }

// streakCase: the same hand-over many times in a row. One consumer parks, one item of a fixed
// flavour (normal, prior, control, or control and prior) is added, the consumer must return
// with it - 10 to 45 rounds on one queue, so that whatever a queue keeps about its recent
// history (turn counters, burst limits, remembered positions) gets its chance.
func streakCase(k *engine.Case) {
	r := k.R
	qu := newQueue(r)
	ctrl := qu.HasCtrl() && r.Intn(3) > 0
	prior := r.Intn(3) == 0
	rounds := 10 + r.Intn(36)
	extra := r.Intn(3) // items added beyond the one the parked consumer takes, popped before the next round
	k.Logf("queue=%s: %d rounds of {one consumer parks; %d item(s) added (ctrl=%v prior=%v); consumer returns; the rest is popped}", qu.Name(), rounds, 1+extra, ctrl, prior)
	k.Nontrivial()
	d := engine.NewDriver(Q, k)
	defer qu.Close()
	v := 100
	for round := 0; round < rounds; round++ {
		anyway := r.Intn(2) == 0
		o := d.Spawn("Pop", func() any { x, ok := qu.Pop(anyway); return popRes{x, ok} })
		if !d.Quiesce() {
			return
		}
		if o.Done() {
			k.Fail("pop-returned-on-empty", "%s round %d: Pop returned %+v from an empty open queue", qu.Name(), round, o.Result())
			return
		}
		first := v
		for i := 0; i <= extra; i++ {
			if err := qu.Add(v, ctrl, prior); err != nil {
				k.Fail("add-refused", "%s round %d: add on the open unbounded queue was refused: %v", qu.Name(), round, err)
				return
			}
			v++
		}
		if !d.Quiesce() {
			return
		}
		k.Evals(1)
		if !o.Done() {
			k.Fail("lost-wakeup", "%s: round %d of the same hand-over (ctrl=%v prior=%v): %d item(s) were added and the parked consumer sleeps beside them: %v", qu.Name(), round, ctrl, prior, 1+extra, Q.Describe())
			return
		}
		if pr := o.Result().(popRes); !pr.ok || pr.v < first || pr.v >= v {
			k.Fail("lost-wakeup", "%s round %d: the parked consumer returned %+v, items %d..%d had been added", qu.Name(), round, pr, first, v-1)
			return
		}
		for i := 0; i < extra; i++ {
			o2 := d.Spawn("Pop", func() any { x, ok := qu.Pop(anyway); return popRes{x, ok} })
			if !d.Quiesce() {
				return
			}
			if !o2.Done() {
				k.Fail("lost-wakeup", "%s round %d: %d of the %d added items are still queued, yet Pop parks", qu.Name(), round, extra-i, 1+extra)
				return
			}
		}
	}
	k.Count("streak_cases", 1)
	k.Count("streak_rounds", int64(rounds))
}

// Package c13 monitors the queues for lost wake-ups: a consumer parked in Pop must not
// stay parked at a quiescent fixed point when an item it may take exists or the queue
// is closed; the priority queue's wait channel must be readable whenever it is
// non-empty and nobody holds an unconsumed signal.
package c13

import (
	"fmt"
	"runtime"
	"sort"
	"strings"
	"sync"
	"sync/atomic"
	"time"

	"verifh/engine"

	"github.com/pinealctx/neptune/queue/priq"
	"github.com/pinealctx/neptune/queue/syncq"
	"github.com/pinealctx/neptune/syncx/pipe/async"
	"github.com/pinealctx/neptune/syncx/pipe/mq"
	"github.com/pinealctx/neptune/syncx/pipe/mux"
	"github.com/pinealctx/neptune/syncx/pipe/q"
)

var Q *engine.Quiescer

// Prop is the C13 check.
var Prop = &engine.Prop{
	ID:    "C13",
	Level: "exploration",
	Rule: "cases are seed-generated controlled schedules per queue type: park k consumers (Pop / PopAnyway), then adds, prior adds, Close / TryClose singly or as simultaneous bursts, with a quiescent cut after every step; " +
		"at each cut no consumer may be parked while an accepted item is unconsumed or the queue is closed, returned items are distinct accepted items, and a final drain accounts for every accepted item; " +
		"priority queue: sequential push/receive/pop programs with the wait-channel invariant checked after every step, and producer/consumer stress ending in a quiescence check; " +
		"non-trivial = at least one consumer was parked (or one signal was outstanding); distinct = distinct program texts with outcomes",
	Assumptions: []string{
		"a quiescent goroutine snapshot of a timer-free execution is a fixed point; 'eventually returns' is judged as 'not parked at a quiescent fixed point'",
		"SyncQueue.Push after Close is silently dropped, so pushes racing with Close are 'maybe accepted'",
	},
	ShardsQuick: 8, ShardsThorough: 16,
	Setup: func(c *engine.Ctx) { Q = engine.NewQuiescer() },
	Kinds: []engine.Kind{
		{Name: "parked", Quick: 12000, Thorough: 1200000, Fn: parkedCase},
		{Name: "priq-seq", Quick: 20000, Thorough: 1800000, Fn: priqSeqCase},
		{Name: "priq-stress", Quick: 24, Thorough: 1800, Repeat: 20, Fn: priqStressCase},
		{Name: "priq-race", Quick: 160, Thorough: 14400, Repeat: 20, Fn: priqRaceCase},
		{Name: "cond-stress", Quick: 24, Thorough: 1800, Repeat: 20, Fn: condStressCase},
		{Name: "close-race", Quick: 64, Thorough: 4800, Repeat: 20, Fn: closeRaceCase},
		{Name: "many-parked", Quick: 48, Thorough: 1900, Fn: manyParkedCase},
		{Name: "predecessor", Quick: 600, Thorough: 40000, Fn: predecessorCase},
		{Name: "streak", Quick: 400, Thorough: 24000, Fn: streakCase},
		// last: a violation of this kind leaves goroutines behind that never park
		{Name: "anyway-add", Quick: 400, Thorough: 16000, Fn: anywayCase},
	},
	Floors: map[string]int64{
		"parked_consumer_observations": 1000,
		"close_with_parked_consumers":  200,
		"close_with_2plus_parked":      50,
		"adds_with_parked_consumers":   500,
		"burst_steps":                  100,
		"priq_invariant_checks":        5000,
		"priq_stress_items":            1000,
		"priq_race_rounds":             10000,
		"close_race_rounds":            5000,
		"cond_stress_items":            1000,
	},
}

// cq adapts the condition-variable queues.
type cq interface {
	Name() string
	Add(v int, ctrl, prior bool) error // ctrl only for MQ
	Pop(anyway bool) (int, bool)       // blocking; ok=false: closed
	Close()
	TryClose() (supported bool, closed bool)
	HasCtrl() bool
	DropsAfterClose() bool // Push after Close reports nothing
}

// nilItem stands for the untyped nil interface as a queue item (every pipe queue accepts it).
const nilItem = -1

func boxItem(v int) interface{} {
	if v == nilItem {
		return nil
	}
	return v
}

func unboxItem(v interface{}) int {
	if v == nil {
		return nilItem
	}
	return v.(int)
}

type pipeQ struct{ x *q.Q }

func (p pipeQ) Name() string { return "pipe/q.Q" }
func (p pipeQ) Add(v int, ctrl, prior bool) error {
	if prior {
		return p.x.AddPriorReq(boxItem(v))
	}
	return p.x.AddReq(boxItem(v))
}
func (p pipeQ) Pop(anyway bool) (int, bool) {
	var v interface{}
	var err error
	if anyway {
		v, err = p.x.PopAnyway()
	} else {
		v, err = p.x.Pop()
	}
	if err != nil {
		return 0, false
	}
	return unboxItem(v), true
}
func (p pipeQ) Close()                 { p.x.Close() }
func (p pipeQ) TryClose() (bool, bool) { return false, false }
func (p pipeQ) HasCtrl() bool          { return false }
func (p pipeQ) DropsAfterClose() bool  { return false }

type asyncQ struct{ x *async.Q }

func (p asyncQ) Name() string { return "pipe/async.Q" }
func (p asyncQ) Add(v int, ctrl, prior bool) error {
	if prior {
		return p.x.AddPrior(boxItem(v))
	}
	return p.x.Add(boxItem(v))
}
func (p asyncQ) Pop(anyway bool) (int, bool) {
	var v interface{}
	var err error
	if anyway {
		v, err = p.x.PopAnyway()
	} else {
		v, err = p.x.Pop()
	}
	if err != nil {
		return 0, false
	}
	return unboxItem(v), true
}
func (p asyncQ) Close()                 { p.x.Close() }
func (p asyncQ) TryClose() (bool, bool) { return false, false }
func (p asyncQ) HasCtrl() bool          { return false }
func (p asyncQ) DropsAfterClose() bool  { return false }

type muxQ struct{ x *mux.Q }

func (p muxQ) Name() string { return "pipe/mux.Q" }
func (p muxQ) Add(v int, ctrl, prior bool) error {
	if prior {
		return p.x.AddPriorReq(boxItem(v))
	}
	return p.x.AddReq(boxItem(v))
}
func (p muxQ) Pop(anyway bool) (int, bool) {
	var v interface{}
	var err error
	if anyway {
		v, err = p.x.PopAnyway()
	} else {
		v, err = p.x.Pop()
	}
	if err != nil {
		return 0, false
	}
	return unboxItem(v), true
}
func (p muxQ) Close()                 { p.x.Close() }
func (p muxQ) TryClose() (bool, bool) { return false, false }
func (p muxQ) HasCtrl() bool          { return false }
func (p muxQ) DropsAfterClose() bool  { return false }

type mQ struct{ x *mq.MQ }

func (p mQ) Name() string { return "pipe/mq.MQ" }
func (p mQ) Add(v int, ctrl, prior bool) error {
	switch {
	case ctrl && prior:
		return p.x.AddPriorCtrl(boxItem(v))
	case ctrl:
		return p.x.AddCtrl(boxItem(v))
	case prior:
		return p.x.AddPriorReq(boxItem(v))
	}
	return p.x.AddReq(boxItem(v))
}
func (p mQ) Pop(anyway bool) (int, bool) {
	var v interface{}
	var err error
	if anyway {
		v, err = p.x.PopAnyway()
	} else {
		v, err = p.x.Pop()
	}
	if err != nil {
		return 0, false
	}
	return unboxItem(v), true
}
func (p mQ) Close()                 { p.x.Close() }
func (p mQ) TryClose() (bool, bool) { return true, p.x.TryClose() }
func (p mQ) HasCtrl() bool          { return true }
func (p mQ) DropsAfterClose() bool  { return false }

type syncQ struct{ x *syncq.SyncQueue }

func (p syncQ) Name() string { return "syncq.SyncQueue" }
func (p syncQ) Add(v int, ctrl, prior bool) error {
	p.x.Push(v)
	return nil
}
func (p syncQ) Pop(anyway bool) (int, bool) {
	v := p.x.Pop()
	if v == nil {
		return 0, false
	}
	return v.(int), true
}
func (p syncQ) Close()                 { p.x.Close() }
func (p syncQ) TryClose() (bool, bool) { return false, false }
func (p syncQ) HasCtrl() bool          { return false }
func (p syncQ) DropsAfterClose() bool  { return true }

func newQueue(r interface{ Intn(int) int }) cq {
	switch r.Intn(5) {
	case 0:
		return pipeQ{q.NewQ()}
	case 1:
		return asyncQ{async.NewQ(0)}
	case 2:
		return muxQ{mux.NewQ(0)}
	case 3:
		return mQ{mq.NewMQ()}
	default:
		return syncQ{syncq.NewSyncQueue()}
	}
}

type consumer struct {
	id     int
	anyway bool
	op     *engine.Op
}

type popRes struct {
	v  int
	ok bool
}

func parkedCase(k *engine.Case) {
	r := k.R
	qu := newQueue(r)
	k.Logf("queue=%s", qu.Name())
	d := engine.NewDriver(Q, k)
	var cons []*consumer
	var mu sync.Mutex
	accepted := map[int]bool{} // definitely accepted
	maybe := map[int]bool{}    // pushed while a close may already have happened (SyncQueue)
	closedDefinitely := false
	closeIssued := false
	nextVal := 1
	usedNil := false

	spawnConsumer := func(gate <-chan struct{}) *consumer {
		c := &consumer{id: len(cons), anyway: r.Intn(2) == 0}
		cons = append(cons, c)
		nm := "Pop"
		if c.anyway {
			nm = "PopAnyway"
		}
		c.op = d.Spawn(nm, func() any {
			if gate != nil {
				<-gate
			}
			v, ok := qu.Pop(c.anyway)
			return popRes{v, ok}
		})
		return c
	}
	doAdd := func(v int, ctrl, prior bool) {
		err := qu.Add(v, ctrl, prior)
		mu.Lock()
		if err == nil {
			if qu.DropsAfterClose() && closeIssued {
				maybe[v] = true
			} else {
				accepted[v] = true
			}
		}
		mu.Unlock()
	}
	parked := func() []*consumer {
		var out []*consumer
		for _, c := range cons {
			if !c.op.Done() {
				out = append(out, c)
			}
		}
		return out
	}
	describe := func() string {
		var p []string
		for _, c := range cons {
			nm := "Pop"
			if c.anyway {
				nm = "PopAnyway"
			}
			if !c.op.Done() {
				p = append(p, fmt.Sprintf("c%d:%s=parked", c.id, nm))
			} else if pr := c.op.Result().(popRes); pr.ok {
				p = append(p, fmt.Sprintf("c%d:%s=%d", c.id, nm, pr.v))
			} else {
				p = append(p, fmt.Sprintf("c%d:%s=closed", c.id, nm))
			}
		}
		return strings.Join(p, " ")
	}
	check := func(what string) bool {
		mu.Lock()
		defer mu.Unlock()
		got := map[int]bool{}
		for _, c := range cons {
			if !c.op.Done() {
				continue
			}
			if pv := c.op.Panic(); pv != nil {
				k.Fail("panic", "after %s: consumer c%d panicked: %v", what, c.id, pv)
				return false
			}
			pr := c.op.Result().(popRes)
			if !pr.ok {
				if !closeIssued {
					k.Fail("closed-result-on-open-queue", "after %s: consumer c%d was told the queue is closed, but nobody closed it: %s", what, c.id, describe())
					return false
				}
				continue
			}
			if got[pr.v] {
				k.Fail("duplicate-item", "after %s: item %d was handed to two consumers: %s", what, pr.v, describe())
				return false
			}
			got[pr.v] = true
			if !accepted[pr.v] && !maybe[pr.v] {
				k.Fail("invented-item", "after %s: consumer received %d which was never accepted: %s", what, pr.v, describe())
				return false
			}
		}
		ps := parked()
		if len(ps) > 0 {
			k.Count("parked_consumer_observations", int64(len(ps)))
		}
		if closedDefinitely && len(ps) > 0 {
			k.Fail("parked-after-close", "after %s: the queue is closed but %d consumer(s) are still parked at a quiescent fixed point: %s", what, len(ps), describe())
			return false
		}
		if !closeIssued && len(ps) > 0 {
			var rem []int
			for v := range accepted {
				if !got[v] {
					rem = append(rem, v)
				}
			}
			if len(rem) > 0 {
				sort.Ints(rem)
				k.Fail("lost-wakeup", "after %s: %d consumer(s) are parked at a quiescent fixed point although accepted item(s) %v are unconsumed: %s", what, len(ps), rem, describe())
				return false
			}
		}
		return true
	}

	if r.Intn(12) == 0 {
		// prelude: a backlog of more than a thousand items is built up and drained completely
		// (an implementation may resize or swap its storage at such a point), then the usual program
		nb := 1030 + r.Intn(300)
		for i := 0; i < nb; i++ {
			doAdd(1000000+i, false, false)
		}
		drained := 0
		for i := 0; i < nb; i++ {
			v, ok := qu.Pop(true)
			if !ok || v != 1000000+i {
				k.Fail("lost-item", "prelude: %d items added, item #%d popped as (%v, %v)", nb, i, v, ok)
				return
			}
			delete(accepted, v)
			drained++
		}
		k.Logf("prelude: %d items added and drained", drained)
		k.Count("big_backlog_preludes", 1)
	}
	nsteps := 3 + r.Intn(10)
	// bias: start by parking consumers
	prePark := 1 + r.Intn(4)
	ok := true
	for s := 0; s < nsteps && ok; s++ {
		np := len(parked())
		c := r.Intn(100)
		switch {
		case s < prePark || c < 20:
			cn := spawnConsumer(nil)
			k.Logf("step %d: spawn consumer c%d (anyway=%v)", s, cn.id, cn.anyway)
		case c < 60:
			ctrl, prior := qu.HasCtrl() && r.Intn(2) == 0, r.Intn(4) == 0
			v := nextVal
			nextVal++
			if !usedNil && !qu.DropsAfterClose() && r.Intn(6) == 0 {
				v, usedNil = nilItem, true // the untyped nil is an item like any other
				nextVal--
				k.Count("nil_items_added", 1)
			}
			k.Logf("step %d: add %d ctrl=%v prior=%v", s, v, ctrl, prior)
			if np > 0 {
				k.Count("adds_with_parked_consumers", 1)
			}
			doAdd(v, ctrl, prior)
		case c < 70:
			k.Logf("step %d: close", s)
			if np > 0 && !closeIssued {
				k.Count("close_with_parked_consumers", 1)
				if np >= 2 {
					k.Count("close_with_2plus_parked", 1)
				}
			}
			closeIssued = true
			qu.Close()
			closedDefinitely = true
		case c < 76:
			if sup, cl := qu.TryClose(); sup {
				k.Logf("step %d: tryclose -> %v", s, cl)
				if cl {
					if np > 0 && !closeIssued {
						k.Count("close_with_parked_consumers", 1)
						if np >= 2 {
							k.Count("close_with_2plus_parked", 1)
						}
						k.Count("tryclose_with_parked_consumers", 1)
					}
					closeIssued = true
					closedDefinitely = true
				}
			} else {
				k.Logf("step %d: (tryclose unsupported; no-op)", s)
			}
		default:
			// burst: several adds, maybe a close, maybe new consumers, all at once
			gate := make(chan struct{})
			var wg sync.WaitGroup
			var burstLeft atomic.Int32
			var names []string
			na := 1 + r.Intn(4)
			willClose := r.Intn(3) == 0
			if willClose {
				closeIssued = true // adds of this burst race with the close
			}
			for i := 0; i < na; i++ {
				ctrl, prior := qu.HasCtrl() && r.Intn(2) == 0, r.Intn(4) == 0
				v := nextVal
				nextVal++
				names = append(names, fmt.Sprintf("add %d ctrl=%v prior=%v", v, ctrl, prior))
				wg.Add(1)
				burstLeft.Add(1)
				go func() { defer wg.Done(); defer burstLeft.Add(-1); <-gate; doAdd(v, ctrl, prior) }()
			}
			if np > 0 {
				k.Count("adds_with_parked_consumers", int64(na))
			}
			if willClose {
				names = append(names, "close")
				if np > 0 {
					k.Count("close_with_parked_consumers", 1)
					if np >= 2 {
						k.Count("close_with_2plus_parked", 1)
					}
				}
				wg.Add(1)
				burstLeft.Add(1)
				go func() { defer wg.Done(); defer burstLeft.Add(-1); <-gate; qu.Close() }()
			}
			for i := 0; i < r.Intn(3); i++ {
				cn := spawnConsumer(gate)
				names = append(names, fmt.Sprintf("spawn consumer c%d (anyway=%v)", cn.id, cn.anyway))
			}
			k.Logf("step %d: burst{%s}", s, strings.Join(names, " || "))
			k.Count("burst_steps", 1)
			Q.Wait()
			close(gate)
			// adds and Close must return; a burst call that is still inside the queue when every
			// goroutine is parked never will
			for burstLeft.Load() > 0 {
				time.Sleep(200 * time.Microsecond)
				if Q.IsQuiet() && burstLeft.Load() > 0 {
					time.Sleep(10 * time.Millisecond)
					if Q.IsQuiet() && burstLeft.Load() > 0 {
						k.Fail("operation-stuck", "%s: %d add / close call(s) of the burst {%s} never returned (every goroutine is parked): %v", qu.Name(), burstLeft.Load(), strings.Join(names, " || "), Q.Describe())
						return
					}
				}
			}
			wg.Wait()
			if willClose {
				closedDefinitely = true
			}
		}
		if !d.Quiesce() {
			qu.Close()
			return
		}
		k.Logf("        -> %s", describe())
		if np > 0 || len(parked()) > 0 {
			k.Nontrivial()
		}
		ok = check(fmt.Sprintf("step %d", s))
		k.Count("quiescent_cuts", 1)
		{
			mu.Lock()
			rem := len(accepted)
			for _, c := range cons {
				if c.op.Done() {
					if pr, ok := c.op.Result().(popRes); ok && pr.ok && accepted[pr.v] {
						rem--
					}
				}
			}
			mu.Unlock()
			k.C.ObserveStr("abstract_queue_states", fmt.Sprintf("%s parked=%d unconsumed=%d closed=%v", qu.Name(), len(parked()), rem, closeIssued))
		}
	}
	if !ok {
		qu.Close()
		Q.Wait()
		return
	}
	// final: close, everybody must return; then drain what is left
	np := len(parked())
	if !closeIssued && np > 0 {
		k.Count("close_with_parked_consumers", 1)
		if np >= 2 {
			k.Count("close_with_2plus_parked", 1)
		}
	}
	k.Logf("final: close")
	closeIssued = true
	qu.Close()
	closedDefinitely = true
	if !d.Quiesce() {
		return
	}
	k.Logf("        -> %s", describe())
	if !check("final close") {
		return
	}
	d.Join()
	// drain the closed queue (non-blocking now) and account for every accepted item
	got := map[int]bool{}
	for _, c := range cons {
		if pr := c.op.Result().(popRes); pr.ok {
			got[pr.v] = true
		}
	}
	for i := 0; i < 1000; i++ {
		v, ok := qu.Pop(true)
		if !ok {
			break
		}
		if got[v] {
			k.Fail("duplicate-item", "drain: item %d handed out twice", v)
			return
		}
		got[v] = true
		if !accepted[v] && !maybe[v] {
			k.Fail("invented-item", "drain: item %d was never accepted", v)
			return
		}
	}
	for v := range accepted {
		if !got[v] {
			k.Fail("lost-item", "accepted item %d was neither consumed nor left in the closed queue: %s", v, describe())
			return
		}
	}
}

// ---------------------------------------------------------------- priority queue, sequential

type pent struct{ prio, id int }

func (p *pent) GetPriority() int { return p.prio }

func priqSeqCase(k *engine.Case) {
	r := k.R
	capacity := 1 + r.Intn(6)
	pq := priq.NewPriQueue(capacity)
	k.Logf("priq capacity=%d", capacity)
	outstanding := 0 // signals received and not yet followed by a Pop
	n := 6 + r.Intn(30)
	id := 0
	for s := 0; s < n; s++ {
		switch c := r.Intn(100); {
		case c < 45:
			id++
			err := pq.Push(&pent{prio: r.Intn(3), id: id})
			k.Logf("push #%d -> %v", id, err)
		case c < 70:
			select {
			case <-pq.WaitCh():
				outstanding++
				k.Logf("recv -> signal (outstanding=%d)", outstanding)
				k.Nontrivial()
			default:
				k.Logf("recv -> channel empty")
			}
		default:
			e := pq.Pop()
			if outstanding > 0 {
				outstanding--
			}
			if e == nil {
				k.Logf("pop -> nil (outstanding=%d)", outstanding)
			} else {
				k.Logf("pop -> #%d (outstanding=%d)", e.(*pent).id, outstanding)
			}
		}
		k.Count("priq_invariant_checks", 1)
		if l := pq.Len(); l > 0 && outstanding == 0 {
			k.Count("priq_nonempty_idle_states", 1)
			if len(pq.WaitCh()) != 1 {
				k.Fail("priq-channel-not-readable", "queue holds %d item(s), no call in progress, no consumer holds an unconsumed signal, but the wait channel is not readable", l)
				return
			}
		}
	}
}

// ---------------------------------------------------------------- priority queue, stress

func priqStressCase(k *engine.Case) {
	r := k.R
	capacity := []int{1, 2, 8, 64}[r.Intn(4)]
	producers := 1 + r.Intn(4)
	consumers := 1 + r.Intn(4)
	per := 400
	procs := []int{2, 4, 16}[r.Intn(3)]
	old := runtime.GOMAXPROCS(procs)
	defer runtime.GOMAXPROCS(old)
	pq := priq.NewPriQueue(capacity)
	k.Logf("priq stress capacity=%d producers=%d consumers=%d items/producer=%d gomaxprocs=%d", capacity, producers, consumers, per, procs)
	k.Nontrivial()
	d := engine.NewDriver(Q, k)
	done := make(chan struct{})
	var consumed atomic.Int64
	seen := make([]atomic.Int32, producers*per+1)
	var prodWG sync.WaitGroup
	space := make(chan struct{}, producers*per+1)
	for p := 0; p < producers; p++ {
		p := p
		prodWG.Add(1)
		d.Spawn(fmt.Sprintf("producer%d", p), func() any {
			defer prodWG.Done()
			for i := 0; i < per; i++ {
				e := &pent{prio: (p + i) % 3, id: p*per + i + 1}
				for pq.Push(e) != nil {
					<-space // full: park until a consumer has popped (no spinning, so a sleeping system is quiet)
				}
			}
			return nil
		})
	}
	for c := 0; c < consumers; c++ {
		d.Spawn(fmt.Sprintf("consumer%d", c), func() any {
			for {
				select {
				case <-pq.WaitCh():
					if e := pq.Pop(); e != nil {
						seen[e.(*pent).id].Add(1)
						consumed.Add(1)
						select {
						case space <- struct{}{}:
						default:
						}
					}
				case <-done:
					return nil
				}
			}
		})
	}
	total := int64(producers * per)
	deadline := time.Now().Add(10 * time.Minute)
	stuck := false
	for {
		time.Sleep(2 * time.Millisecond)
		if time.Now().After(deadline) {
			k.Inconclusive("priq stress watchdog")
			close(done)
			return
		}
		if Q.IsQuiet() {
			// fixed point: producers done (or spinning is impossible here: a spinning producer is runnable)
			if consumed.Load() != total {
				stuck = true
			}
			break
		}
	}
	l := pq.Len()
	close(done)
	if stuck {
		// release producers parked on a full queue
		for i := 0; i < producers*per+1; i++ {
			select {
			case space <- struct{}{}:
			default:
			}
		}
		go func() {
			for pq.Pop() != nil || len(d.Pending()) > 0 {
				select {
				case space <- struct{}{}:
				default:
				}
				runtime.Gosched()
			}
		}()
	}
	d.Join()
	k.Count("priq_stress_items", consumed.Load())
	k.Logf("consumed=%d of %d, left in queue at the fixed point=%d", consumed.Load(), total, l)
	if stuck {
		k.Fail("priq-sleeping-beside-items", "all %d consumers are parked on the wait channel at a quiescent fixed point, but only %d of %d items were consumed and Len()=%d", consumers, consumed.Load(), total, l)
		return
	}
	for i := 1; i <= int(total); i++ {
		if seen[i].Load() != 1 {
			k.Fail("priq-item-count", "item %d was popped %d times", i, seen[i].Load())
			return
		}
	}
}

// ---------------------------------------------------------------- cond queues, stress

func condStressCase(k *engine.Case) {
	r := k.R
	qu := newQueue(r)
	producers := 1 + r.Intn(4)
	consumers := 2 + r.Intn(6)
	per := 300
	procs := []int{2, 4, 16}[r.Intn(3)]
	old := runtime.GOMAXPROCS(procs)
	defer runtime.GOMAXPROCS(old)
	k.Logf("cond stress queue=%s producers=%d consumers=%d items/producer=%d gomaxprocs=%d", qu.Name(), producers, consumers, per, procs)
	k.Nontrivial()
	d := engine.NewDriver(Q, k)
	total := producers * per
	seen := make([]atomic.Int32, total+1)
	acc := make([]atomic.Int32, total+1)
	var consumed atomic.Int64
	var closing atomic.Bool
	closeAt := int64(r.Intn(total))
	var added atomic.Int64
	var once sync.Once
	for p := 0; p < producers; p++ {
		p := p
		d.Spawn(fmt.Sprintf("producer%d", p), func() any {
			for i := 0; i < per; i++ {
				v := p*per + i + 1
				wasClosing := closing.Load()
				err := qu.Add(v, qu.HasCtrl() && i%2 == 0, i%7 == 0)
				if err == nil {
					if qu.DropsAfterClose() && (wasClosing || closing.Load()) {
						acc[v].Store(2) // maybe
					} else {
						acc[v].Store(1)
					}
				}
				if added.Add(1) == closeAt {
					once.Do(func() { closing.Store(true); qu.Close() })
				}
			}
			return nil
		})
	}
	for c := 0; c < consumers; c++ {
		c := c
		d.Spawn(fmt.Sprintf("consumer%d", c), func() any {
			for {
				v, ok := qu.Pop(c%2 == 0)
				if !ok {
					return nil
				}
				seen[v].Add(1)
				consumed.Add(1)
			}
		})
	}
	deadline := time.Now().Add(10 * time.Minute)
	closedByDriver := false
	for {
		time.Sleep(2 * time.Millisecond)
		if time.Now().After(deadline) {
			k.Inconclusive("cond stress watchdog")
			qu.Close()
			return
		}
		if !Q.IsQuiet() {
			continue
		}
		if len(d.Pending()) == 0 {
			break
		}
		// fixed point with parked goroutines
		if closing.Load() || closedByDriver {
			k.Fail("parked-after-close", "stress: the queue is closed but %d goroutine(s) are parked forever: %s", len(d.Pending()), d.PendingNames())
			return
		}
		// producers are done, queue not closed: consumers legitimately wait on an empty queue
		for v := 1; v <= total; v++ {
			if acc[v].Load() == 1 && seen[v].Load() == 0 {
				k.Fail("lost-wakeup", "stress: consumers are parked at a fixed point of an open queue although accepted item %d is unconsumed", v)
				qu.Close()
				return
			}
		}
		closedByDriver = true
		closing.Store(true)
		qu.Close()
	}
	d.Join()
	// drain the rest
	for i := 0; i < total+1; i++ {
		v, ok := qu.Pop(true)
		if !ok {
			break
		}
		seen[v].Add(1)
	}
	k.Count("cond_stress_items", consumed.Load())
	for v := 1; v <= total; v++ {
		a, s := acc[v].Load(), seen[v].Load()
		if s > 1 {
			k.Fail("duplicate-item", "stress: item %d handed out %d times", v, s)
			return
		}
		if a == 1 && s != 1 {
			k.Fail("lost-item", "stress: accepted item %d was never handed out", v)
			return
		}
		if a == 0 && s != 0 {
			k.Fail("invented-item", "stress: refused item %d was handed out", v)
			return
		}
	}
}

// ---------------------------------------------------------------- priority queue, pop/push race rounds

// priqRaceCase races one Pop (of the last entry, after receiving the signal) against one
// complete Push, thousands of times, and checks the wait-channel clause at the quiescent
// point after both calls have returned: the queue holds the pushed entry, nobody holds a
// signal, so the channel must be readable.
func priqRaceCase(k *engine.Case) {
	r := k.R
	procs := []int{2, 4, 8, 16}[r.Intn(4)]
	old := runtime.GOMAXPROCS(procs)
	defer runtime.GOMAXPROCS(old)
	rounds := 1500
	pairs := 1 + r.Intn(4)
	k.Logf("priq pop/push race: %d pair(s) x %d rounds, gomaxprocs=%d", pairs, rounds, procs)
	k.Nontrivial()
	var bad atomic.Int64
	var firstBad atomic.Value
	var wg sync.WaitGroup
	seeds := make([]uint64, pairs)
	for i := range seeds {
		seeds[i] = uint64(r.Int63()) | 1
	}
	for p := 0; p < pairs; p++ {
		p := p
		wg.Add(1)
		go func() {
			defer wg.Done()
			pq := priq.NewPriQueue(1 << 16)
			x := seeds[p]
			next := func() uint64 { x ^= x << 13; x ^= x >> 7; x ^= x << 17; return x }
			startC, startP := make(chan int, 1), make(chan int, 1)
			doneC, doneP := make(chan struct{}, 1), make(chan struct{}, 1)
			go func() { // consumer: receive the signal, pop the last entry
				for spin := range startC {
					for i := 0; i < spin; i++ {
						_ = i
					}
					<-pq.WaitCh()
					pq.Pop()
					doneC <- struct{}{}
				}
			}()
			go func() { // producer: one complete push
				id := 0
				for spin := range startP {
					for i := 0; i < spin; i++ {
						_ = i
					}
					id++
					pq.Push(&pent{prio: 1, id: id})
					doneP <- struct{}{}
				}
			}()
			for i := 0; i < rounds; i++ {
				// state: exactly one entry, signal present
				for pq.Pop() != nil {
				}
				select {
				case <-pq.WaitCh():
				default:
				}
				pq.Push(&pent{prio: 1, id: -1})
				startC <- int(next() % 64)
				startP <- int(next() % 64)
				<-doneC
				<-doneP
				// quiescent: no call in progress, the consumer followed its signal by a Pop
				if l := pq.Len(); l > 0 && len(pq.WaitCh()) != 1 {
					bad.Add(1)
					firstBad.CompareAndSwap(nil, fmt.Sprintf("pair %d round %d: Len()=%d but the wait channel is empty", p, i, l))
				}
			}
			close(startC)
			close(startP)
		}()
	}
	wg.Wait()
	k.Count("priq_race_rounds", int64(pairs*rounds))
	if n := bad.Load(); n > 0 {
		k.Fail("priq-channel-not-readable", "in %d of %d pop/push race rounds the queue ended non-empty with no call in progress and no outstanding signal, but the wait channel was not readable; first: %v", n, pairs*rounds, firstBad.Load())
	}
}

// ---------------------------------------------------------------- close racing with arriving consumers

// closeRaceCase: in every round a few consumers *enter* Pop/PopAnyway at the same moment as
// one Close (and sometimes one add) on a fresh queue. Whatever the interleaving, the queue
// ends closed, so every consumer must return; one that went to sleep just after the wake-up
// was sent (a close that does not synchronise with the waiters) stays parked. Rounds are
// joined through a WaitGroup; only when a round does not finish is the quiescence detector
// consulted: parked consumers at a fixed point are the violation, anything else keeps waiting.
func closeRaceCase(k *engine.Case) {
	r := k.R
	procs := []int{2, 4, 8, 16}[r.Intn(4)]
	old := runtime.GOMAXPROCS(procs)
	defer runtime.GOMAXPROCS(old)
	rounds := 400
	consumers := 2 + r.Intn(5)
	withAdd := r.Intn(2) == 0
	sel := r.Intn(5)
	mk := func() cq {
		switch sel {
		case 0:
			return pipeQ{q.NewQ()}
		case 1:
			return asyncQ{async.NewQ(0)}
		case 2:
			return muxQ{mux.NewQ(0)}
		case 3:
			return mQ{mq.NewMQ()}
		default:
			return syncQ{syncq.NewSyncQueue()}
		}
	}
	k.Logf("close race on %s: %d consumers enter Pop while Close%s runs, %d rounds, gomaxprocs=%d", mk().Name(), consumers, map[bool]string{true: " and one add", false: ""}[withAdd], rounds, procs)
	k.Nontrivial()
	x := uint64(r.Int63()) | 1
	next := func() uint64 { x ^= x << 13; x ^= x >> 7; x ^= x << 17; return x }
	for round := 0; round < rounds; round++ {
		qu := mk()
		start := make(chan struct{})
		var wg sync.WaitGroup
		var got atomic.Int64
		spin := func(n int) {
			for i := 0; i < n; i++ {
				_ = i
			}
		}
		for c := 0; c < consumers; c++ {
			anyway := c%2 == 0
			sp := int(next() % 300)
			wg.Add(1)
			go func() {
				defer wg.Done()
				<-start
				spin(sp)
				if _, ok := qu.Pop(anyway); ok {
					got.Add(1)
				}
			}()
		}
		spc := int(next() % 300)
		wg.Add(1)
		go func() { defer wg.Done(); <-start; spin(spc); qu.Close() }()
		if withAdd {
			spa := int(next() % 300)
			wg.Add(1)
			go func() { defer wg.Done(); <-start; spin(spa); qu.Add(7, false, false) }()
		}
		done := make(chan struct{})
		go func() { wg.Wait(); close(done) }()
		close(start)
		finished := false
		for tries := 0; !finished; tries++ {
			select {
			case <-done:
				finished = true
			case <-time.After(2 * time.Second):
				// not a verdict by itself: ask the quiescence detector
				if Q.IsQuiet() {
					time.Sleep(20 * time.Millisecond)
					if Q.IsQuiet() {
						select {
						case <-done:
							finished = true
						default:
							k.Count("close_race_rounds", int64(round))
							k.Fail("parked-after-close", "round %d: Close() returned, but consumer(s) that entered Pop at the same moment are parked for ever at a quiescent fixed point: %v", round, Q.Describe())
							return
						}
					}
				}
				if tries > 60 {
					k.Inconclusive("close-race round did not finish within the guard time")
					return
				}
			}
		}
		if got.Load() > 1 {
			k.Fail("duplicate-item", "round %d: one item was added but %d consumers received an item", round, got.Load())
			return
		}
	}
	k.Count("close_race_rounds", int64(rounds))
}

package c13

import (
	"fmt"
	"strings"
	"sync"
	"time"

	"verifh/engine"

	"github.com/pinealctx/neptune/syncx/pipe/async"
	"github.com/pinealctx/neptune/syncx/pipe/mq"
	"github.com/pinealctx/neptune/syncx/pipe/mux"
	"github.com/pinealctx/neptune/syncx/pipe/q"
)

// bq adapts the bounded pipe queues and their waiting add ("add anyway": when the queue is
// full, sleep ts and try again).
type bq struct {
	name      string
	add       func(v int) error
	addAnyway func(v int, ts time.Duration) error
	pop       func() (int, bool)
	close     func()
	frame     string // function name of the waiting add as it appears in a goroutine stack
}

func popOf(f func() (interface{}, error)) func() (int, bool) {
	return func() (int, bool) {
		v, err := f()
		if err != nil {
			return 0, false
		}
		return v.(int), true
	}
}

func newBounded(r interface{ Intn(int) int }, size int) bq {
	switch r.Intn(5) {
	case 0:
		x := q.NewQ(q.WithSize(size))
		return bq{fmt.Sprintf("pipe/q.Q(size %d)", size), func(v int) error { return x.AddReq(v) },
			func(v int, ts time.Duration) error { return x.AddReqAnyway(v, ts) }, popOf(x.PopAnyway), x.Close, "pipe/q.(*Q).AddReqAnyway"}
	case 1:
		x := async.NewQ(size)
		return bq{fmt.Sprintf("pipe/async.Q(size %d)", size), func(v int) error { return x.Add(v) },
			func(v int, ts time.Duration) error { return x.AddAnyway(v, ts) }, popOf(x.PopAnyway), x.Close, "pipe/async.(*Q).AddAnyway"}
	case 2:
		x := mux.NewQ(size)
		return bq{fmt.Sprintf("pipe/mux.Q(size %d)", size), func(v int) error { return x.AddReq(v) },
			func(v int, ts time.Duration) error { return x.AddReqAnyway(v, ts) }, popOf(x.PopAnyway), x.Close, "pipe/mux.(*Q).AddReqAnyway"}
	case 3:
		x := mq.NewMQ(mq.WithQReqSize(size), mq.WithQCtrlSize(size+5))
		return bq{fmt.Sprintf("pipe/mq.MQ(request size %d)", size), func(v int) error { return x.AddReq(v) },
			func(v int, ts time.Duration) error { return x.AddReqAnyway(v, ts) }, popOf(x.PopAnyway), x.Close, "pipe/mq.(*MQ).AddReqAnyway"}
	default:
		x := mq.NewMQ(mq.WithQCtrlSize(size), mq.WithQReqSize(size+5))
		return bq{fmt.Sprintf("pipe/mq.MQ(control size %d)", size), func(v int) error { return x.AddCtrl(v) },
			func(v int, ts time.Duration) error { return x.AddCtrlAnyway(v, ts) }, popOf(x.PopAnyway), x.Close, "pipe/mq.(*MQ).AddCtrlAnyway"}
	}
}

// anywayCase: a full bounded queue with producers inside the waiting add, then as many
// consumers as there are items. "A consumer ... returns as soon as an item it may take is
// added": every consumer must get one of the items, distinct ones, and every producer's item
// gets in once room has been made.
//
// The waiting add is a sleep-and-retry loop, so the detector of parked goroutines does not
// apply while it runs. Progress is therefore bounded in observations instead: the case is
// polled in snapshots at least a millisecond apart (the producers retry every 100 µs); it
// is a violation when, in 400 of them, some producer is asleep in its retry pause while every
// unfinished consumer sits parked on the queue's mutex - nobody that sleeps may hold that
// mutex, and with a free mutex a parked consumer is woken at once, so a correct queue shows
// this picture at most for an instant. Everything else that does not finish is inconclusive.
func anywayCase(k *engine.Case) {
	r := k.R
	size := 1 + r.Intn(3)
	b := newBounded(r, size)
	np := 1 + r.Intn(3)
	k.Logf("queue=%s: filled, %d producer(s) in the waiting add, then %d consumers", b.name, np, size+np)
	k.Nontrivial()
	for i := 0; i < size; i++ {
		if err := b.add(i); err != nil {
			k.Fail("add-refused", "%s refused add #%d of %d below its capacity: %v", b.name, i, size, err)
			return
		}
	}
	if err := b.add(99); err == nil {
		k.Fail("add-not-refused", "%s accepted an ordinary add beyond its capacity %d", b.name, size)
		return
	}
	var mu sync.Mutex
	got := map[int]int{}
	prodErr := map[int]error{}
	var wgP, wgC sync.WaitGroup
	for j := 0; j < np; j++ {
		j := j
		wgP.Add(1)
		go func() {
			defer wgP.Done()
			err := b.addAnyway(100+j, 100*time.Microsecond)
			mu.Lock()
			prodErr[j] = err
			mu.Unlock()
		}()
	}
	// give the producers time to enter their retry loop (not needed for the verdict)
	time.Sleep(time.Duration(200+r.Intn(800)) * time.Microsecond)
	nc := size + np
	for c := 0; c < nc; c++ {
		wgC.Add(1)
		go func() {
			defer wgC.Done()
			v, ok := b.pop()
			mu.Lock()
			if ok {
				got[v]++
			} else {
				got[-1]++
			}
			mu.Unlock()
		}()
	}
	done := make(chan struct{})
	go func() { wgC.Wait(); wgP.Wait(); close(done) }()
	starved, quiet := 0, 0
	finished := false
	var picture []string
poll:
	for i := 0; i < 8000; i++ {
		select {
		case <-done:
			finished = true
			break poll
		case <-time.After(time.Millisecond):
		}
		if Q.IsQuiet() {
			// nothing runs, nothing sleeps: a true fixed point with work left undone
			quiet++
			if quiet == 3 {
				picture = Q.Describe()
				break poll
			}
			continue
		}
		quiet = 0
		asleep, onMutex, otherCons := 0, 0, 0
		snap := Q.Snapshot()
		for _, g := range snap {
			switch {
			case strings.Contains(g.Stack, b.frame) && g.State == "sleep":
				asleep++
			case strings.Contains(g.Stack, ".PopAnyway("):
				if g.State == "sync.Mutex.Lock" {
					onMutex++
				} else {
					otherCons++
				}
			}
		}
		if asleep > 0 && onMutex > 0 && otherCons == 0 {
			starved++
			if starved == 400 {
				picture = Q.Describe()
				break poll
			}
		}
	}
	k.Evals(1)
	if !finished {
		if quiet >= 3 {
			mu.Lock()
			var perr error
			for _, e := range prodErr {
				if e != nil {
					perr = e
				}
			}
			returned, served := len(prodErr), 0
			for _, n := range got {
				served += n
			}
			mu.Unlock()
			if perr != nil {
				k.Fail("waiting-add-failed", "%s: a waiting add returned %v although consumers made room; consumers are left parked: %v", b.name, perr, picture)
			} else {
				k.Fail("parked-beside-items", "%s: %d of %d producers have returned nil from the waiting add and %d of %d items were handed out, yet every remaining goroutine is parked (fixed point): a consumer sleeps in Pop beside a non-empty queue: %v", b.name, returned, np, served, nc, picture)
			}
			go b.close()
			return
		}
		if starved >= 400 {
			k.Fail("consumers-starved-by-waiting-add", "%s holds %d item(s) and %d producer(s) are in the waiting add; in 400 observations at least 1 ms apart a producer was asleep in its retry pause while every unfinished consumer was parked on the queue's mutex: %v", b.name, size, np, picture)
		} else {
			k.Inconclusive(fmt.Sprintf("%s: producers/consumers did not finish within the observation bound (starved pictures: %d)", b.name, starved))
		}
		// let the goroutines go: closing may itself block on the same mutex, so do it aside
		go b.close()
		return
	}
	mu.Lock()
	defer mu.Unlock()
	for j := 0; j < np; j++ {
		if prodErr[j] != nil {
			k.Fail("waiting-add-failed", "%s: the waiting add of item %d returned %v although consumers made room", b.name, 100+j, prodErr[j])
			return
		}
	}
	if got[-1] > 0 {
		k.Fail("consumer-got-nothing", "%s: %d consumer(s) returned without an item although %d items were added for %d consumers", b.name, got[-1], nc, nc)
		return
	}
	for v, n := range got {
		if n != 1 {
			k.Fail("item-duplicated", "%s: item %d was handed to %d consumers", b.name, v, n)
			return
		}
	}
	if len(got) != nc {
		k.Fail("item-lost", "%s: %d consumers received %d distinct items", b.name, nc, len(got))
		return
	}
	b.close()
	k.Count("anyway_cases_ok", 1)
	k.Count("anyway_items", int64(nc))
}

// manyParkedCase: hundreds of consumers parked on one queue (256, 512, 1024 and their
// neighbours: counts at which a narrow waiter counter wraps). Then either the queue is closed -
// all of them return - or as many items are added - every one returns with an item of its
// own - and the queue is closed.
func manyParkedCase(k *engine.Case) {
	r := k.R
	qu := newQueue(r)
	n := []int{255, 256, 256, 257, 512, 512, 1024, 768}[r.Intn(8)]
	byClose := r.Intn(2) == 0
	k.Logf("queue=%s: %d consumers parked, released by %s", qu.Name(), n, map[bool]string{true: "Close", false: "as many adds"}[byClose])
	k.Nontrivial()
	d := engine.NewDriver(Q, k)
	ops := make([]*engine.Op, n)
	for i := range ops {
		anyway := i%2 == 0
		ops[i] = d.Spawn("Pop", func() any { v, ok := qu.Pop(anyway); return popRes{v, ok} })
	}
	if !d.Quiesce() {
		qu.Close()
		return
	}
	for i, o := range ops {
		if o.Done() {
			k.Fail("pop-returned-on-empty", "%s: consumer %d of %d returned %+v from an empty open queue", qu.Name(), i, n, o.Result())
			qu.Close()
			return
		}
	}
	if !byClose {
		for i := 0; i < n; i++ {
			if err := qu.Add(5000+i, false, false); err != nil {
				k.Fail("add-refused", "%s: add #%d on the open unbounded queue was refused: %v", qu.Name(), i, err)
				qu.Close()
				return
			}
		}
		if !d.Quiesce() {
			qu.Close()
			return
		}
		seen := map[int]bool{}
		done := 0
		for _, o := range ops {
			if !o.Done() {
				continue
			}
			done++
			pr := o.Result().(popRes)
			if !pr.ok || seen[pr.v] {
				k.Fail("lost-wakeup", "%s: a consumer returned %+v (closed marker or an item handed out twice) after %d items were added for %d parked consumers", qu.Name(), pr, n, n)
				qu.Close()
				return
			}
			seen[pr.v] = true
		}
		k.Evals(1)
		if done != n {
			k.Fail("lost-wakeup", "%s: %d consumers were parked and %d items added; only %d consumers returned, the rest sleeps beside %d items: %v", qu.Name(), n, n, done, n-done, Q.Describe()[:min(3, len(Q.Describe()))])
			qu.Close()
			return
		}
		k.Count("many_parked_released_by_adds", 1)
		qu.Close()
		return
	}
	qu.Close()
	if !d.Quiesce() {
		return
	}
	k.Evals(1)
	parked := 0
	for _, o := range ops {
		if !o.Done() {
			parked++
		}
	}
	if parked > 0 {
		k.Fail("parked-after-close", "%s: %d consumers were parked when the queue was closed; %d of them are still parked", qu.Name(), n, parked)
		return
	}
	k.Count("many_parked_released_by_close", 1)
}

package c15

import (
	"context"
	"fmt"
	"runtime"
	"sync"

	"verifh/engine"

	"github.com/pinealctx/neptune/syncx/pipe/mux"
)

// abandonCase: callers that give up (their context ends) while their operation is still queued
// behind a blocked worker, followed by fresh operations on other keys from other goroutines.
// An abandoned operation was accepted, so it may still be applied - but every accepted
// operation is applied to the store at most once, operations on one key reach the store in
// acceptance order, a fresh operation is applied exactly once and its caller gets its own
// result, and the caches stay coherent with the store (a key is cached by one worker only).
// (A group that recycles the per-call cell of an abandoned call hands the next caller a cell
// that is still sitting in the blocked worker's queue.)
func abandonCase(k *engine.Case) {
	r := k.R
	old := runtime.GOMAXPROCS([]int{1, 1, 2, 4}[r.Intn(4)])
	defer runtime.GOMAXPROCS(old)
	g := newGroupDeep(r, 64)
	st := newStore()
	keys, _ := keyPool(r)
	keyA := keys[0]
	k.Logf("group=%s gate key=%v", g.name, keyA)
	d := engine.NewDriver(Q, k)

	var mu sync.Mutex
	applied := map[int]int{}     // op id -> upsert callback invocations
	perKey := map[string][]int{} // key -> op ids in the order their upsert callback ran
	upsertOf := func(id int) mux.UpdateDataFn {
		return func(ctx context.Context, dd interface{}, e interface{}) (interface{}, error) {
			mu.Lock()
			applied[id]++
			key := dd.(datum).key
			perKey[key] = append(perKey[key], id)
			mu.Unlock()
			return st.upsert(ctx, dd, e)
		}
	}
	do := func(ctx context.Context, key mux.Hashed2Int, id int) opRes {
		v, err := g.g.DoUpsertThenRenewInCache(ctx, upsertOf(id), key, datum{key: keyStr(key), k: key, v: id})
		return opRes{v, err}
	}
	stop := func() {
		sp := d.Spawn("stop", func() any { g.stop(k); return nil })
		if d.Quiesce() && !sp.Done() {
			k.Fail("workers-not-terminated", "Stop + WaitStop did not return: %v", Q.Describe())
		}
	}

	st.mu.Lock()
	st.gate = make(chan struct{})
	st.gateCb = "upsert"
	st.mu.Unlock()
	gateOp := d.Spawn("gate-op", func() any { return do(context.Background(), keyA, 100) })
	if !d.Quiesce() {
		return
	}
	if gateOp.Done() || !st.gated.Load() {
		k.Fail("operation-stuck", "the gate operation did not reach the store's upsert callback")
		return
	}
	// operations queued behind the blocked worker, each with its own context
	type qd struct {
		id     int
		cancel context.CancelFunc
		o      *engine.Op
		gone   bool
	}
	nq := 2 + r.Intn(6)
	var queued []*qd
	for i := 0; i < nq; i++ {
		ctx, cancel := context.WithCancel(context.Background())
		q := &qd{id: 101 + i, cancel: cancel}
		q.o = d.Spawn(fmt.Sprintf("queued#%d", q.id), func() any { return do(ctx, keyA, q.id) })
		if !d.Quiesce() {
			return
		}
		if q.o.Done() {
			k.Fail("order", "upsert #%d on %v returned %+v while the worker is blocked in an earlier operation on that key", q.id, keyA, q.o.Result())
			return
		}
		queued = append(queued, q)
	}
	// some (at least one) of the waiting callers give up
	ngone := 0
	for i, q := range queued {
		if i == 0 || r.Intn(3) > 0 {
			q.cancel()
			q.gone = true
			ngone++
		}
	}
	if !d.Quiesce() {
		return
	}
	for _, q := range queued {
		if q.gone {
			if !q.o.Done() {
				k.Fail("operation-stuck", "the caller of queued upsert #%d did not return after its context was cancelled", q.id)
				return
			}
			if res := q.o.Result().(opRes); res.err == nil {
				k.Fail("wrong-result", "the caller of queued upsert #%d (context cancelled while the operation was still queued behind a blocked worker) got (%v, nil)", q.id, res.v)
				return
			}
		}
	}
	k.Logf("%d operations queued on %v, %d of their callers gave up", nq, keyA, ngone)
	k.Count("abandon_queued_ops", int64(nq))
	k.Count("abandon_callers_gone", int64(ngone))
	// fresh operations on other keys, each from its own goroutine
	type fd struct {
		id  int
		key mux.Hashed2Int
		o   *engine.Op
	}
	var fresh []*fd
	for i, nf := 0, 2+r.Intn(7); i < nf; i++ {
		f := &fd{id: 200 + i, key: keys[1+r.Intn(len(keys)-1)]}
		f.o = d.Spawn(fmt.Sprintf("fresh#%d", f.id), func() any { return do(context.Background(), f.key, f.id) })
		if !d.Quiesce() {
			return
		}
		fresh = append(fresh, f)
	}
	k.Count("abandon_fresh_ops", int64(len(fresh)))
	k.Nontrivial()
	// open the gate
	st.mu.Lock()
	close(st.gate)
	st.gate = nil
	st.mu.Unlock()
	if !d.Quiesce() {
		return
	}
	mu.Lock()
	appliedNow, perKeyNow := map[int]int{}, map[string][]int{}
	for id, n := range applied {
		appliedNow[id] = n
	}
	for key, ids := range perKey {
		perKeyNow[key] = append([]int(nil), ids...)
	}
	mu.Unlock()
	applied, perKey = appliedNow, perKeyNow // the verdicts below work on the snapshot
	k.Evals(int64(1 + nq + len(fresh)))
	for id, n := range applied {
		if n > 1 {
			k.Fail("op-applied-twice", "operation #%d was applied to the store %d times (upsert callback invocations per operation: %v)", id, n, applied)
			stop()
			return
		}
	}
	if !gateOp.Done() {
		k.Fail("operation-stuck", "the gate operation never returned after the gate was opened")
		return
	}
	for _, q := range queued {
		if !q.gone {
			if !q.o.Done() {
				k.Fail("operation-stuck", "queued upsert #%d never returned after the gate was opened: %v", q.id, Q.Describe())
				return
			}
			if res := q.o.Result().(opRes); res.err != nil || applied[q.id] != 1 {
				k.Fail("wrong-result", "queued upsert #%d (caller still waiting) returned (%v, %v) and was applied %d time(s)", q.id, res.v, res.err, applied[q.id])
				stop()
				return
			}
		}
	}
	for _, f := range fresh {
		if !f.o.Done() {
			k.Fail("operation-stuck", "fresh upsert #%d on %v never returned after the gate was opened: %v", f.id, f.key, Q.Describe())
			return
		}
		res := f.o.Result().(opRes)
		if res.err != nil || applied[f.id] != 1 {
			k.Fail("wrong-result", "fresh upsert #%d on %v returned (%v, %v) and was applied %d time(s)", f.id, f.key, res.v, res.err, applied[f.id])
			stop()
			return
		}
		if ver, ok := verOf(res.v); !ok || ver%1000 != f.id%1000 {
			k.Fail("wrong-result", "fresh upsert #%d on %v returned %v, which is not the value its own upsert stored", f.id, f.key, res.v)
			stop()
			return
		}
	}
	// acceptance order per key
	for key, ids := range perKey {
		for i := 1; i < len(ids); i++ {
			if ids[i] < ids[i-1] {
				k.Fail("order", "operations on %s reached the store in the order %v, they were accepted in increasing order of their number", key, ids)
				stop()
				return
			}
		}
	}
	// coherence, and one cache per key
	if g.spies != nil {
		for _, key := range keys {
			sv, inStore := st.value(keyStr(key))
			cv, cached, places := g.cachedValue(key)
			if !cached {
				continue
			}
			k.Count("coherence_checks_on_cached_keys", 1)
			if places > 1 {
				k.Fail("incoherent-cache", "key %v is cached by %d workers", key, places)
				stop()
				return
			}
			if !inStore || cv != sv {
				k.Fail("incoherent-cache", "after the abandoned and fresh operations: cache holds %v for %v, store holds %v (present=%v)", cv, key, sv, inStore)
				stop()
				return
			}
		}
	}
	k.Count("abandon_cases_ok", 1)
	stop()
}

func verOf(v interface{}) (int, bool) {
	switch x := v.(type) {
	case int:
		return x, true
	case wval:
		return x.Ver, true
	}
	return 0, false
}

// stopBacklogCase: worker groups are independent. A first group (built-in map cache) is
// stopped while operations are still queued behind a blocked worker; then a second group of the
// same kind is built with a store of its own, holding nothing. The second group must answer
// from its own store: a get of a key the first group handled reports not-found, and an add
// reaches the store (no duplicate rejection from a cache entry it never made).
func stopBacklogCase(k *engine.Case) {
	r := k.R
	workers := 1 + r.Intn(4)
	lru := r.Intn(3) == 0
	mk := func() *mux.WorkerGrp {
		opts := []mux.Option{mux.WithSize(workers), mux.WithDeep(64)}
		if lru {
			return mux.NewWorkGrpWithLRU(8, opts...)
		}
		return mux.NewWorkGrpWithMapCache(opts...)
	}
	keys, _ := keyPool(r)
	k.Logf("two groups of %d workers one after the other (LRU cache: %v), keys %v", workers, lru, keys)
	k.Nontrivial()
	d := engine.NewDriver(Q, k)
	g1, st1 := mk(), newStore()
	g1.Start()
	st1.mu.Lock()
	st1.gate = make(chan struct{})
	st1.gateCb = "upsert"
	st1.mu.Unlock()
	up := func(g *mux.WorkerGrp, st *store, key mux.Hashed2Int, id int) opRes {
		v, err := g.DoUpsertThenRenewInCache(context.Background(), st.upsert, key, datum{key: keyStr(key), k: key, v: id})
		return opRes{v, err}
	}
	gateOp := d.Spawn("gate-op", func() any { return up(g1, st1, keys[0], 100) })
	if !d.Quiesce() {
		return
	}
	if gateOp.Done() {
		k.Fail("operation-stuck", "the gate operation did not reach the store's upsert callback")
		return
	}
	var queued []*engine.Op
	lastID := map[string]int{keyStr(keys[0]): 100} // per key: the operation accepted last
	for i, n := 0, 2+r.Intn(6); i < n; i++ {
		key, id := keys[r.Intn(len(keys))], 101+i
		if r.Intn(2) == 0 {
			key = keys[0] // the blocked worker's key: these certainly queue up behind the gate operation
		}
		lastID[keyStr(key)] = id
		queued = append(queued, d.Spawn(fmt.Sprintf("queued#%d", id), func() any { return up(g1, st1, key, id) }))
		if !d.Quiesce() {
			return
		}
	}
	// stop with the backlog in place, then let the blocked worker go on - up to the next upsert
	// callback, which is held in turn: while it is inside the store, no other operation on its
	// key may reach the store
	// in half of the cases the group is stopped only after the backlog has been worked off, and
	// one more operation on the blocked worker's key is accepted while the first backlog
	// operation is being held inside the store (it is the last one accepted for that key)
	stopFirst := r.Intn(2) == 0
	if stopFirst {
		d.Spawn("Stop (first group)", func() any { g1.Stop(); return nil })
		if !d.Quiesce() {
			return
		}
	}
	gate2 := make(chan struct{})
	st1.mu.Lock()
	gate1 := st1.gate
	st1.gate = gate2
	st1.gated.Store(false)
	close(gate1)
	st1.mu.Unlock()
	if !d.Quiesce() {
		return
	}
	if n := st1.overl.Load(); n > 0 {
		k.Fail("store-overlap", "first group, stopped with a backlog: while one queued operation was held inside the store's upsert callback, %d other callback(s) on the same key entered the store: %v", n, Q.Describe())
		close(gate2)
		return
	}
	if !stopFirst {
		late := 199
		lastID[keyStr(keys[0])] = late
		queued = append(queued, d.Spawn(fmt.Sprintf("queued#%d (accepted while the first backlog operation is inside the store)", late), func() any { return up(g1, st1, keys[0], late) }))
		if !d.Quiesce() {
			close(gate2)
			return
		}
		k.Count("stop_backlog_late_operation", 1)
	}
	st1.mu.Lock()
	close(gate2)
	st1.gate = nil
	st1.mu.Unlock()
	if !stopFirst {
		if !d.Quiesce() {
			return
		}
		d.Spawn("Stop (first group)", func() any { g1.Stop(); return nil })
		if !d.Quiesce() {
			return
		}
	}
	ws := d.Spawn("WaitStop (first group)", func() any { g1.WaitStop(context.Background()); return nil })
	if !d.Quiesce() {
		return
	}
	if !ws.Done() || !gateOp.Done() {
		k.Fail("workers-not-terminated", "first group: after Stop with a backlog and the blocked callback released, WaitStop returned=%v, gate operation returned=%v: %v", ws.Done(), gateOp.Done(), Q.Describe())
		return
	}
	for _, q := range queued {
		if !q.Done() {
			k.Fail("operation-stuck", "first group: an operation queued before Stop never returned: %v", Q.Describe())
			return
		}
	}
	// applied in the order accepted: every accepted operation has returned, so each key holds
	// what the operation accepted last for it wrote
	for _, q := range append([]*engine.Op{gateOp}, queued...) {
		if res, ok := q.Result().(opRes); !ok || res.err != nil {
			lastID = nil // an operation was refused (the statement leaves that open): no order verdict
			break
		}
	}
	for ks, id := range lastID {
		sv, _ := st1.value(ks)
		k.Evals(1)
		if ver, ok := verOf(sv); ok && ver%1000 != id%1000 {
			k.Fail("order-violated", "first group, stopped with a backlog: every queued operation returned without error, the operation accepted last for %s carried %d, but the store ends up with the value written by the one carrying %d", ks, id%1000, ver%1000)
			return
		}
	}
	k.Count("stop_backlog_first_groups", 1)
	// the second group, with nothing in its store
	g2, st2 := mk(), newStore()
	g2.Start()
	defer func() {
		sp := d.Spawn("stop (second group)", func() any { g2.Stop(); g2.WaitStop(context.Background()); return nil })
		d.Quiesce()
		_ = sp
	}()
	for _, key := range keys {
		key := key
		op, ok := call(d, "get", func() any { v, err := g2.DoGet(context.Background(), st2.load, key); return opRes{v, err} })
		if !ok {
			k.Fail("operation-stuck", "second group: DoGet(%v) never returned", key)
			return
		}
		k.Evals(1)
		if res := op.Result().(opRes); res.err == nil {
			k.Fail("stale-cache-from-other-group", "second group (fresh, its store is empty): DoGet(%v) returned %v; the first group had handled that key before it was stopped", key, res.v)
			return
		}
	}
	for i, key := range keys {
		key, id := key, 300+i
		op, ok := call(d, "add", func() any {
			v, err := g2.DoAdd(context.Background(), st2.add, key, datum{key: keyStr(key), k: key, v: id})
			return opRes{v, err}
		})
		if !ok {
			k.Fail("operation-stuck", "second group: DoAdd(%v) never returned", key)
			return
		}
		k.Evals(1)
		res := op.Result().(opRes)
		sv, inStore := st2.value(keyStr(key))
		if res.err != nil || !inStore || res.v != sv {
			k.Fail("stale-cache-from-other-group", "second group (fresh, its store was empty): DoAdd(%v) returned (%v, %v), its store now holds %v (present=%v)", key, res.v, res.err, sv, inStore)
			return
		}
		// the key is cached now: another add is a duplicate whatever it carries - also the very
		// value that is cached (a re-sent request) - and must not reach the store
		touched := false
		again, ok := call(d, "add again", func() any {
			v, err := g2.DoAdd(context.Background(), func(ctx context.Context, dd interface{}) (interface{}, error) {
				touched = true
				return dd, nil
			}, key, res.v)
			return opRes{v, err}
		})
		if !ok {
			k.Fail("operation-stuck", "second group: the repeated DoAdd(%v) never returned", key)
			return
		}
		k.Evals(1)
		k.Count("dup_add_with_cached_value_as_payload", 1)
		if r2 := again.Result().(opRes); r2.err != mux.ErrDupKey || touched {
			k.Fail("dup-add-not-rejected", "DoAdd(%v) for a key that is cached, carrying the cached value %v itself, returned (%v, %v) (store add callback invoked: %v) instead of ErrDupKey without touching the store", key, res.v, r2.v, r2.err, touched)
			return
		}
	}
	k.Count("stop_backlog_cases_ok", 1)
}

// deepBacklogCase: a worker that has already served some operations is blocked, and 70-260
// operations on one key pile up behind it (the worker's queue has to grow while it is not at
// its starting position). They must reach the store in the order they were accepted, and the
// cache must end up with the store's value.
func deepBacklogCase(k *engine.Case) {
	r := k.R
	workers := 1 + r.Intn(3)
	gen := func() mux.CacheFacade { return mux.NewFacadeMap() }
	g := mux.NewWorkGrp(gen, mux.WithSize(workers), mux.WithDeep(400))
	g.Start()
	st := newStore()
	keys, _ := keyPool(r)
	key := keys[0]
	d := engine.NewDriver(Q, k)
	var mu sync.Mutex
	var order []int
	up := func(id int) opRes {
		v, err := g.DoUpsertThenRenewInCache(context.Background(), func(ctx context.Context, dd interface{}, e interface{}) (interface{}, error) {
			mu.Lock()
			order = append(order, id)
			mu.Unlock()
			return st.upsert(ctx, dd, e)
		}, key, datum{key: keyStr(key), k: key, v: id})
		return opRes{v, err}
	}
	// the worker serves a few operations first (its queue position moves on)
	warm := 3 + r.Intn(40)
	for i := 0; i < warm; i++ {
		if res := up(i); res.err != nil {
			k.Fail("wrong-result", "warm-up upsert #%d failed: %v", i, res.err)
			return
		}
	}
	st.mu.Lock()
	st.gate = make(chan struct{})
	st.gateCb = "upsert"
	st.mu.Unlock()
	gateOp := d.Spawn("gate-op", func() any { return up(1000) })
	if !d.Quiesce() {
		return
	}
	if gateOp.Done() {
		k.Fail("operation-stuck", "the gate operation did not block in the store's upsert callback")
		return
	}
	n := 70 + r.Intn(190)
	k.Logf("%d workers; %d operations served, then %d upserts on key %v queued one after the other behind a blocked one", workers, warm, n, key)
	k.Nontrivial()
	ops := make([]*engine.Op, n)
	for i := 0; i < n; i++ {
		id := 2000 + i
		ops[i] = d.Spawn(fmt.Sprintf("queued#%d", id), func() any { return up(id) })
		if !d.Quiesce() {
			return
		}
		if ops[i].Done() {
			k.Fail("order", "upsert #%d returned %+v while the worker is blocked in an earlier operation on the same key", id, ops[i].Result())
			return
		}
	}
	st.mu.Lock()
	close(st.gate)
	st.gate = nil
	st.mu.Unlock()
	if !d.Quiesce() {
		return
	}
	k.Evals(int64(n))
	k.Count("deep_backlog_cases", 1)
	k.Count("deep_backlog_queued_ops", int64(n))
	for i, o := range ops {
		if !o.Done() {
			k.Fail("operation-stuck", "queued upsert #%d never returned after the gate was opened", 2000+i)
			return
		}
	}
	mu.Lock()
	got := append([]int(nil), order[warm:]...)
	mu.Unlock()
	for i := 1; i < len(got); i++ {
		if got[i] <= got[i-1] {
			lo := i - 3
			if lo < 0 {
				lo = 0
			}
			hi := i + 3
			if hi > len(got) {
				hi = len(got)
			}
			k.Fail("order", "%d upserts on one key were accepted in increasing order of their number behind a blocked worker (which had served %d operations before); they reached the store as ... %v ... (position %d)", n, warm, got[lo:hi], i)
			return
		}
	}
	if len(got) != n+1 {
		k.Fail("order", "%d queued upserts + the gate operation: the store saw %d upsert callbacks", n, len(got))
		return
	}
	sp := d.Spawn("stop", func() any { g.Stop(); g.WaitStop(context.Background()); return nil })
	if d.Quiesce() && !sp.Done() {
		k.Fail("workers-not-terminated", "Stop + WaitStop did not return: %v", Q.Describe())
	}
}

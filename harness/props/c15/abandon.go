package c15

import (
	"context"
	"fmt"
	"runtime"
	"sync"

	"verifh/engine"

	"github.com/pinealctx/neptune/syncx/pipe/mux"
)

// abandonCase: callers that give up (their context ends) while their operation is still queued
// behind a blocked worker, followed by fresh operations on other keys from other goroutines.
// An abandoned operation was accepted, so it may still be applied - but every accepted
// operation is applied to the store at most once, operations on one key reach the store in
// acceptance order, a fresh operation is applied exactly once and its caller gets its own
// result, and the caches stay coherent with the store (a key is cached by one worker only).
// (A group that recycles the per-call cell of an abandoned call hands the next caller a cell
// that is still sitting in the blocked worker's queue.)
func abandonCase(k *engine.Case) {
	r := k.R
	old := runtime.GOMAXPROCS([]int{1, 1, 2, 4}[r.Intn(4)])
	defer runtime.GOMAXPROCS(old)
	g := newGroupDeep(r, 64)
	st := newStore()
	keys, _ := keyPool(r)
	keyA := keys[0]
	k.Logf("group=%s gate key=%v", g.name, keyA)
	d := engine.NewDriver(Q, k)

	var mu sync.Mutex
	applied := map[int]int{}     // op id -> upsert callback invocations
	perKey := map[string][]int{} // key -> op ids in the order their upsert callback ran
	upsertOf := func(id int) mux.UpdateDataFn {
		return func(ctx context.Context, dd interface{}, e interface{}) (interface{}, error) {
			mu.Lock()
			applied[id]++
			key := dd.(datum).key
			perKey[key] = append(perKey[key], id)
			mu.Unlock()
			return st.upsert(ctx, dd, e)
		}
	}
	do := func(ctx context.Context, key mux.Hashed2Int, id int) opRes {
		v, err := g.g.DoUpsertThenRenewInCache(ctx, upsertOf(id), key, datum{key: keyStr(key), k: key, v: id})
		return opRes{v, err}
	}
	stop := func() {
		sp := d.Spawn("stop", func() any { g.stop(k); return nil })
		if d.Quiesce() && !sp.Done() {
			k.Fail("workers-not-terminated", "Stop + WaitStop did not return: %v", Q.Describe())
		}
	}

	st.mu.Lock()
	st.gate = make(chan struct{})
	st.gateCb = "upsert"
	st.mu.Unlock()
	gateOp := d.Spawn("gate-op", func() any { return do(context.Background(), keyA, 100) })
	if !d.Quiesce() {
		return
	}
	if gateOp.Done() || !st.gated.Load() {
		k.Fail("operation-stuck", "the gate operation did not reach the store's upsert callback")
		return
	}
	// operations queued behind the blocked worker, each with its own context
	type qd struct {
		id     int
		cancel context.CancelFunc
		o      *engine.Op
		gone   bool
	}
	nq := 2 + r.Intn(6)
	var queued []*qd
	for i := 0; i < nq; i++ {
		ctx, cancel := context.WithCancel(context.Background())
		q := &qd{id: 101 + i, cancel: cancel}
		q.o = d.Spawn(fmt.Sprintf("queued#%d", q.id), func() any { return do(ctx, keyA, q.id) })
		if !d.Quiesce() {
			return
		}
		if q.o.Done() {
			k.Fail("order", "upsert #%d on %v returned %+v while the worker is blocked in an earlier operation on that key", q.id, keyA, q.o.Result())
			return
		}
		queued = append(queued, q)
	}
	// some (at least one) of the waiting callers give up
	ngone := 0
	for i, q := range queued {
		if i == 0 || r.Intn(3) > 0 {
			q.cancel()
			q.gone = true
			ngone++
		}
	}
	if !d.Quiesce() {
		return
	}
	for _, q := range queued {
		if q.gone {
			if !q.o.Done() {
				k.Fail("operation-stuck", "the caller of queued upsert #%d did not return after its context was cancelled", q.id)
				return
			}
			if res := q.o.Result().(opRes); res.err == nil {
				k.Fail("wrong-result", "the caller of queued upsert #%d (context cancelled while the operation was still queued behind a blocked worker) got (%v, nil)", q.id, res.v)
				return
			}
		}
	}
	k.Logf("%d operations queued on %v, %d of their callers gave up", nq, keyA, ngone)
	k.Count("abandon_queued_ops", int64(nq))
	k.Count("abandon_callers_gone", int64(ngone))
	// fresh operations on other keys, each from its own goroutine
	type fd struct {
		id  int
		key mux.Hashed2Int
		o   *engine.Op
	}
	var fresh []*fd
	for i, nf := 0, 2+r.Intn(7); i < nf; i++ {
		f := &fd{id: 200 + i, key: keys[1+r.Intn(len(keys)-1)]}
		f.o = d.Spawn(fmt.Sprintf("fresh#%d", f.id), func() any { return do(context.Background(), f.key, f.id) })
		if !d.Quiesce() {
			return
		}
		fresh = append(fresh, f)
	}
	k.Count("abandon_fresh_ops", int64(len(fresh)))
	k.Nontrivial()
	// open the gate
	st.mu.Lock()
	close(st.gate)
	st.gate = nil
	st.mu.Unlock()
	if !d.Quiesce() {
		return
	}
	mu.Lock()
	appliedNow, perKeyNow := map[int]int{}, map[string][]int{}
	for id, n := range applied {
		appliedNow[id] = n
	}
	for key, ids := range perKey {
		perKeyNow[key] = append([]int(nil), ids...)
	}
	mu.Unlock()
	applied, perKey = appliedNow, perKeyNow // the verdicts below work on the snapshot
	k.Evals(int64(1 + nq + len(fresh)))
	for id, n := range applied {
		if n > 1 {
			k.Fail("op-applied-twice", "operation #%d was applied to the store %d times (upsert callback invocations per operation: %v)", id, n, applied)
			stop()
			return
		}
	}
	if !gateOp.Done() {
		k.Fail("operation-stuck", "the gate operation never returned after the gate was opened")
		return
	}
	for _, q := range queued {
		if !q.gone {
			if !q.o.Done() {
				k.Fail("operation-stuck", "queued upsert #%d never returned after the gate was opened: %v", q.id, Q.Describe())
				return
			}
			if res := q.o.Result().(opRes); res.err != nil || applied[q.id] != 1 {
				k.Fail("wrong-result", "queued upsert #%d (caller still waiting) returned (%v, %v) and was applied %d time(s)", q.id, res.v, res.err, applied[q.id])
				stop()
				return
			}
		}
	}
	for _, f := range fresh {
		if !f.o.Done() {
			k.Fail("operation-stuck", "fresh upsert #%d on %v never returned after the gate was opened: %v", f.id, f.key, Q.Describe())
			return
		}
		res := f.o.Result().(opRes)
		if res.err != nil || applied[f.id] != 1 {
			k.Fail("wrong-result", "fresh upsert #%d on %v returned (%v, %v) and was applied %d time(s)", f.id, f.key, res.v, res.err, applied[f.id])
			stop()
			return
		}
		if ver, ok := verOf(res.v); !ok || ver%1000 != f.id%1000 {
			k.Fail("wrong-result", "fresh upsert #%d on %v returned %v, which is not the value its own upsert stored", f.id, f.key, res.v)
			stop()
			return
		}
	}
	// acceptance order per key
	for key, ids := range perKey {
		for i := 1; i < len(ids); i++ {
			if ids[i] < ids[i-1] {
				k.Fail("order", "operations on %s reached the store in the order %v, they were accepted in increasing order of their number", key, ids)
				stop()
				return
			}
		}
	}
	// coherence, and one cache per key
	if g.spies != nil {
		for _, key := range keys {
			sv, inStore := st.value(keyStr(key))
			cv, cached, places := g.cachedValue(key)
			if !cached {
				continue
			}
			k.Count("coherence_checks_on_cached_keys", 1)
			if places > 1 {
				k.Fail("incoherent-cache", "key %v is cached by %d workers", key, places)
				stop()
				return
			}
			if !inStore || cv != sv {
				k.Fail("incoherent-cache", "after the abandoned and fresh operations: cache holds %v for %v, store holds %v (present=%v)", cv, key, sv, inStore)
				stop()
				return
			}
		}
	}
	k.Count("abandon_cases_ok", 1)
	stop()
}

func verOf(v interface{}) (int, bool) {
	switch x := v.(type) {
	case int:
		return x, true
	case wval:
		return x.Ver, true
	}
	return 0, false
}

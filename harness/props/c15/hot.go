package c15

import (
	"context"
	"fmt"
	"runtime"
	"sync/atomic"
	"time"

	"verifh/engine"
)

// hotReadCase: one writer changes one key through the group, operation after operation, while
// several readers keep asking the group for the same key (and a second one) - DoGet answers
// from the cache on the caller's goroutine whenever it can. After each of the writer's
// operations has completed no other operation that changes the store is in flight, so a DoGet
// of the writer that is answered from the cache (its loader is not consulted) must return
// exactly what the store holds now; after a successful delete it must not be answered from the
// cache at all.
func hotReadCase(k *engine.Case) {
	r := k.R
	g := newGroup(r)
	st := newStore()
	keys, _ := keyPool(r)
	key, other := keys[r.Intn(len(keys))], keys[r.Intn(len(keys))]
	readers := []int{2, 4, 8, 12}[r.Intn(4)]
	updates := 300 + r.Intn(500)
	procs := []int{4, 8, 16}[r.Intn(3)]
	old := runtime.GOMAXPROCS(procs)
	defer runtime.GOMAXPROCS(old)
	k.Logf("hot-read group=%s key=%v readers=%d (they also read %v) writer operations=%d gomaxprocs=%d", g.name, key, readers, other, updates, procs)
	k.Nontrivial()
	d := engine.NewDriver(Q, k)
	var stop atomic.Bool
	var reads atomic.Int64
	bg := context.Background()
	for i := 0; i < readers; i++ {
		i := i
		d.Spawn(fmt.Sprintf("reader%d", i), func() any {
			for n := 0; !stop.Load(); n++ {
				kk := key
				if (n+i)%5 == 0 {
					kk = other
				}
				_, _ = g.g.DoGet(bg, st.load, kk)
				reads.Add(1)
			}
			return nil
		})
	}
	ops := []int{1, 2, 2, 2, 4, 5, 5, 6, 3}
	var verdict atomic.Value
	seed := uint64(r.Int63()) | 1
	d.Spawn("writer", func() any {
		defer stop.Store(true)
		x := seed
		next := func() uint64 { x ^= x << 13; x ^= x >> 7; x ^= x << 17; return x }
		_, _ = runOp(g, st, 4, key, 1)
		for i := 0; i < updates; i++ {
			op := ops[next()%uint64(len(ops))]
			_, err := runOp(g, st, op, key, int(next()%1000))
			// the writer's operation has completed; nothing else changes the store
			sv, inStore := st.value(keyStr(key))
			consulted := false
			v, gerr := g.g.DoGet(bg, func(ctx context.Context, kk interface{}) (interface{}, error) {
				consulted = true
				return st.load(ctx, kk)
			}, key)
			if gerr == nil && !consulted {
				k.Count("coherence_checks_on_cached_keys", 1)
				if !inStore || v != sv {
					verdict.Store(fmt.Sprintf("after the writer's operation #%d (%s, result err=%v) had completed, with %d readers calling DoGet, DoGet(%v) is answered from the cache with %v but the store holds %v (present=%v)",
						i, opNames[op], err, readers, key, v, sv, inStore))
					return nil
				}
			}
			if op == 3 && err == nil {
				k.Count("successful_delete_of_cached_key", 1)
			}
		}
		return nil
	})
	deadline := time.Now().Add(10 * time.Minute)
	for len(d.Pending()) > 0 {
		if time.Now().After(deadline) {
			stop.Store(true)
			k.Inconclusive("hot-read watchdog")
			return
		}
		time.Sleep(2 * time.Millisecond)
		if Q.IsQuiet() && len(d.Pending()) > 0 {
			time.Sleep(10 * time.Millisecond)
			if Q.IsQuiet() && len(d.Pending()) > 0 {
				stop.Store(true)
				k.Fail("operation-stuck", "hot-read: %d caller(s) blocked forever: %s", len(d.Pending()), d.PendingNames())
				return
			}
		}
	}
	d.Join()
	k.Evals(int64(updates))
	k.Count("hot_read_writer_ops", int64(updates))
	k.Count("hot_read_reader_gets", reads.Load())
	if s, ok := verdict.Load().(string); ok {
		k.Fail("incoherent-cache", "hot-read: %s", s)
		return
	}
	if st.overl.Load() > 0 {
		k.Fail("store-overlap", "hot-read: %d store callbacks overlapped another callback on the same key", st.overl.Load())
		return
	}
	sp := d.Spawn("stop", func() any { g.stop(k); return nil })
	if d.Quiesce() && !sp.Done() {
		k.Fail("workers-not-terminated", "hot-read: Stop + WaitStop did not return")
	}
}

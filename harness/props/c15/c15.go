// Package c15 monitors the mux worker group: the write-through cache stays coherent
// with the backing store under every pattern of store failures, operations on one key
// reach the store one at a time in acceptance order, a successful delete removes the
// cached entry and an add on a cached key is refused without touching the store.
package c15

import (
	"context"
	"errors"
	"fmt"
	"google.golang.org/grpc/codes"
	"google.golang.org/grpc/status"
	"math"
	"runtime"
	"strings"
	"sync"
	"sync/atomic"
	"time"

	"verifh/engine"

	"github.com/pinealctx/neptune/ulog"
	"go.uber.org/zap/zapcore"

	"github.com/pinealctx/neptune/syncx/pipe/mux"
)

var Q *engine.Quiescer

// Prop is the C15 check.
var Prop = &engine.Prop{
	ID:    "C15",
	Level: "exploration",
	Rule: "cases are seed-generated operation streams over the seven group operations against an in-memory store whose callbacks fail (without side effect) by a seed-determined pattern; after every operation the cache facades are inspected " +
		"(spy facades wrapping the real map/LRU facades, or the DoGet probe for the built-in constructors) and every cached value must equal the store's value; gate programs block a worker inside a callback and queue further operations one at a time to observe the order in which they reach the store; " +
		"parallel stress with per-key occupancy counters in the callbacks; non-trivial = at least one injected failure fired while the key was cached or an operation had to queue; distinct = distinct program texts with outcomes",
	Assumptions: []string{
		"a failing store callback has no side effect on the store (the property's fault model)",
		"keys are comparable Hashed2Int values (mux.Bytes cannot be a Go map key)",
		"the value a callback returns is the value the store now holds",
	},
	ShardsQuick: 8, ShardsThorough: 16,
	Setup: func(c *engine.Ctx) {
		// the executors log every shutdown at debug level on stdout: silence the default logger
		lg := ulog.NewSimpleLogger("error")
		lg.SetLevel(zapcore.FatalLevel)
		ulog.SetDefaultLogger(lg)
		Q = engine.NewQuiescer()
	},
	Kinds: []engine.Kind{
		{Name: "stream", Quick: 6000, Thorough: 480000, Fn: streamCase},
		{Name: "gate", Quick: 1500, Thorough: 120000, Fn: gateCase},
		{Name: "stress", Quick: 24, Thorough: 1200, Repeat: 20, Fn: stressCase},
		{Name: "abandon", Quick: 300, Thorough: 12000, Fn: abandonCase},
		{Name: "stop-backlog", Quick: 300, Thorough: 12000, Fn: stopBacklogCase},
		{Name: "deep-backlog", Quick: 40, Thorough: 1600, Fn: deepBacklogCase},
		{Name: "hot-read", Quick: 32, Thorough: 1600, Fn: hotReadCase},
	},
	Floors: map[string]int64{
		"coherence_checks_on_cached_keys": 2000,
		"failures_injected":               1000,
		"failure_while_cached":            200,
		"dup_add_on_cached_key":           100,
		"successful_delete_of_cached_key": 100,
		"lru_evictions_observed":          50,
		"gate_queued_ops":                 500,
		"stress_ops":                      2000,
		"extreme_hash_keys":               20,
	},
}

// ---------------------------------------------------------------- store seam

var errNotFound = errors.New("store: not found")

// a duplicate is reported the way a gRPC-backed store does it
var errDup = status.Error(codes.AlreadyExists, "store: duplicate")
var errInjected = errors.New("store: injected failure")

type datum struct {
	key string
	k   mux.Hashed2Int
	v   int
}

type storeEvent struct {
	op  string
	key string
	id  int // operation id
}

// wval is a weighted store value (implements cache.Value): the LRU facade accounts its Size.
type wval struct {
	Ver int
	W   int
}

func (w wval) Size() int { return w.W }

type store struct {
	mu       sync.Mutex
	weighted int // > 0: values are wval with weights 1..weighted
	nilEvery int // > 0: every nilEvery-th stored version is presented as the nil value
	m        map[string]int
	nextVer  int
	log      []storeEvent
	// failure pattern: consumed one decision per callback invocation
	failAt func(cb string) bool
	// gate: when set, the named callback invocation blocks on it
	gateCb string
	gate   chan struct{}
	gated  atomic.Bool
	inKey  map[string]*atomic.Int32
	overl  atomic.Int64
	calls  map[string]int
	curOp  atomic.Int64
	failed atomic.Int64
	// onCallbackEnd, when set, runs at the end of every callback that was not made to fail
	// (used to cancel the caller's context exactly while its store callback is running)
	onCallbackEnd atomic.Value // func()
}

func newStore() *store {
	return &store{m: map[string]int{}, nextVer: 1000, inKey: map[string]*atomic.Int32{}, calls: map[string]int{}}
}

func (s *store) enter(cb, key string) (fail bool, exit func()) {
	s.mu.Lock()
	s.calls[cb]++
	c := s.inKey[key]
	if c == nil {
		c = &atomic.Int32{}
		s.inKey[key] = c
	}
	s.log = append(s.log, storeEvent{cb, key, int(s.curOp.Load())})
	f := s.failAt != nil && s.failAt(cb)
	g := s.gate
	gcb := s.gateCb
	s.mu.Unlock()
	if c.Add(1) != 1 {
		s.overl.Add(1)
	}
	if g != nil && gcb == cb && s.gated.CompareAndSwap(false, true) {
		<-g
	}
	if f {
		s.failed.Add(1)
	}
	return f, func() {
		if !f {
			if h, ok := s.onCallbackEnd.Load().(func()); ok && h != nil {
				h()
			}
		}
		c.Add(-1)
	}
}

// wrap turns a stored version into the value the callbacks hand to the group.
func (s *store) wrap(ver int) interface{} {
	if s.nilEvery > 0 && ver/1000%s.nilEvery == 0 {
		return nil // the store's value for this version is nil: a value like any other
	}
	if s.weighted > 0 {
		return wval{Ver: ver, W: 1 + (ver/1000*7+ver)%s.weighted}
	}
	return ver
}

func (s *store) value(key string) (interface{}, bool) {
	s.mu.Lock()
	defer s.mu.Unlock()
	v, ok := s.m[key]
	if !ok {
		return nil, false
	}
	return s.wrap(v), true
}

func keyStr(k interface{}) string { return fmt.Sprintf("%T:%v", k, k) }

func (s *store) load(ctx context.Context, k interface{}) (interface{}, error) {
	key := keyStr(k)
	fail, exit := s.enter("load", key)
	defer exit()
	if fail {
		return nil, errInjected
	}
	s.mu.Lock()
	defer s.mu.Unlock()
	v, ok := s.m[key]
	if !ok {
		return nil, errNotFound
	}
	return s.wrap(v), nil
}

func (s *store) add(ctx context.Context, d interface{}) (interface{}, error) {
	dd := d.(datum)
	fail, exit := s.enter("add", dd.key)
	defer exit()
	if fail {
		return nil, errInjected
	}
	s.mu.Lock()
	defer s.mu.Unlock()
	if _, ok := s.m[dd.key]; ok {
		return nil, errDup
	}
	s.nextVer++
	s.m[dd.key] = s.nextVer*1000 + dd.v%1000
	return s.wrap(s.m[dd.key]), nil
}

func (s *store) upd(ctx context.Context, d interface{}, e interface{}) (interface{}, error) {
	dd := d.(datum)
	fail, exit := s.enter("update", dd.key)
	defer exit()
	if fail {
		return nil, errInjected
	}
	s.mu.Lock()
	defer s.mu.Unlock()
	if _, ok := s.m[dd.key]; !ok {
		return nil, errNotFound
	}
	s.nextVer++
	s.m[dd.key] = s.nextVer*1000 + dd.v%1000
	return s.wrap(s.m[dd.key]), nil
}

func (s *store) upsert(ctx context.Context, d interface{}, e interface{}) (interface{}, error) {
	dd := d.(datum)
	fail, exit := s.enter("upsert", dd.key)
	defer exit()
	if fail {
		return nil, errInjected
	}
	s.mu.Lock()
	defer s.mu.Unlock()
	s.nextVer++
	s.m[dd.key] = s.nextVer*1000 + dd.v%1000
	return s.wrap(s.m[dd.key]), nil
}

// partialRow is what upsertPartial returns when it is not handed the existing row: the columns
// it wrote, not the full stored row (which only a load shows).
type partialRow struct{ ver int }

// upsertPartial is the upsert callback of upsert-then-load: it stores like upsert, and when the
// caller has no existing row to merge with (e == nil) it returns only the partial row.
func (s *store) upsertPartial(ctx context.Context, d interface{}, e interface{}) (interface{}, error) {
	v, err := s.upsert(ctx, d, e)
	if err != nil || e != nil {
		return v, err
	}
	s.mu.Lock()
	ver := s.m[d.(datum).key]
	s.mu.Unlock()
	return partialRow{ver}, nil
}

func (s *store) del(ctx context.Context, k interface{}) error {
	key := keyStr(k)
	fail, exit := s.enter("delete", key)
	defer exit()
	if fail {
		return errInjected
	}
	s.mu.Lock()
	defer s.mu.Unlock()
	delete(s.m, key)
	return nil
}

func isNotFound(err error) bool { return err == errNotFound }

// ---------------------------------------------------------------- spy facade

type spy struct {
	inner mux.CacheFacade
}

func (s *spy) Peek(k interface{}) (interface{}, bool) { return s.inner.Peek(k) }
func (s *spy) Get(k interface{}) (interface{}, bool)  { return s.inner.Get(k) }
func (s *spy) Set(k interface{}, v interface{})       { s.inner.Set(k, v) }
func (s *spy) Delete(k interface{})                   { s.inner.Delete(k) }

type group struct {
	sequential bool // operations are issued one at a time (kind stream)
	deep       int
	g          *mux.WorkerGrp
	spies      []*spy // nil in built-in-constructor mode
	name       string
	lruCap     int
	workers    int
}

func newGroup(r interface{ Intn(int) int }) *group { return newGroupDeep(r, 64) }

func newGroupDeep(r interface{ Intn(int) int }, deep int) *group {
	workers := 1 + r.Intn(5)
	lru := r.Intn(2) == 0
	capacity := 1 + r.Intn(4)
	gr := &group{workers: workers}
	opts := []mux.Option{mux.WithSize(workers), mux.WithDeep(deep)}
	gr.deep = deep
	switch r.Intn(3) {
	case 0: // built-in constructors, observed through the DoGet probe
		if lru {
			gr.g = mux.NewWorkGrpWithLRU(int64(capacity), opts...)
			gr.name, gr.lruCap = fmt.Sprintf("NewWorkGrpWithLRU(cap=%d)", capacity), capacity
		} else {
			gr.g = mux.NewWorkGrpWithMapCache(opts...)
			gr.name = "NewWorkGrpWithMapCache"
		}
	default:
		gen := func() mux.CacheFacade {
			var in mux.CacheFacade
			if lru {
				in = mux.NewFacadeLRU(int64(capacity))
			} else {
				in = mux.NewFacadeMap()
			}
			s := &spy{inner: in}
			gr.spies = append(gr.spies, s)
			return s
		}
		gr.g = mux.NewWorkGrp(gen, opts...)
		if lru {
			gr.name, gr.lruCap = fmt.Sprintf("NewWorkGrp(spy(FacadeLRU cap=%d))", capacity), capacity
		} else {
			gr.name = "NewWorkGrp(spy(FacadeMap))"
		}
	}
	gr.name += fmt.Sprintf("/workers=%d", workers)
	gr.g.Start()
	return gr
}

func (g *group) stop(k *engine.Case) {
	g.g.Stop()
	g.g.WaitStop(context.Background())
}

// cachedValue inspects the facades directly (spy mode): is key cached anywhere, and with what?
func (g *group) cachedValue(k mux.Hashed2Int) (v interface{}, cached bool, places int) {
	for _, s := range g.spies {
		if x, ok := s.inner.Peek(k); ok {
			v, cached = x, true
			places++
		}
	}
	return
}

func keyPool(r interface{ Intn(int) int }) ([]mux.Hashed2Int, bool) {
	extreme := false
	switch r.Intn(7) {
	case 5:
		// different keys with one hashed int (same worker, same hash): one number in five key types
		n := []int{5, 0, 100, 255}[r.Intn(4)]
		return []mux.Hashed2Int{mux.Int(n), mux.Int64(int64(n)), mux.UInt(uint(n)), mux.Int16(int16(n)), mux.UInt32(uint32(n))}, false
	case 6:
		// strings whose CRC32 collides, and the number that equals their hash
		h := mux.String("plumless").HashedInt()
		return []mux.Hashed2Int{mux.String("plumless"), mux.String("buckeroo"), mux.Int(h), mux.String("k"), mux.Int64(int64(h))}, false
	case 0:
		return []mux.Hashed2Int{mux.Int(0), mux.Int(1), mux.Int(-1), mux.Int(7), mux.Int(-12345)}, false
	case 1:
		extreme = true
		return []mux.Hashed2Int{mux.Int(math.MinInt), mux.Int(math.MaxInt), mux.Int(math.MinInt + 1), mux.Int(3), mux.Int(-3)}, extreme
	case 2:
		extreme = true
		return []mux.Hashed2Int{mux.Int64(math.MinInt64), mux.Int64(-5), mux.Int64(5), mux.Int64(math.MaxInt64), mux.Int64(0)}, extreme
	case 3:
		return []mux.Hashed2Int{mux.String("a"), mux.String(""), mux.String("key-3"), mux.String("zz"), mux.String("k")}, false
	default:
		return []mux.Hashed2Int{mux.Int64CRC(1), mux.Int64CRC(-1), mux.Int64CRC(1 << 40), mux.Int64CRC(0), mux.Int64CRC(99)}, false
	}
}

var opNames = []string{"get", "add", "update", "delete", "upd-or-add", "upsert-then-load", "upsert-then-renew"}

// runOp issues one group operation (blocking until the worker replies).
func runOp(g *group, st *store, op int, k mux.Hashed2Int, v int) (interface{}, error) {
	return runOpCtx(context.Background(), g, st, op, k, v)
}

func runOpCtx(ctx context.Context, g *group, st *store, op int, k mux.Hashed2Int, v int) (interface{}, error) {
	d := datum{key: keyStr(k), k: k, v: v}
	switch op {
	case 0:
		return g.g.DoGet(ctx, st.load, k)
	case 1:
		return g.g.DoAdd(ctx, st.add, k, d)
	case 2:
		return g.g.DoUpdate(ctx, st.load, st.upd, k, d)
	case 3:
		return g.g.DoDelete(ctx, st.del, k)
	case 4:
		return g.g.DoUpdOrAddIfNull(ctx, st.load, st.upd, st.add, isNotFound, k, d)
	case 5:
		if g.sequential && g.spies != nil {
			// sequential stream with inspectable caches: when the key is not cached the worker
			// will call the upsert without an existing row, and gets the partial row back
			if _, cached, _ := g.cachedValue(k); !cached {
				return g.g.DoUpsertThenLoad(ctx, st.upsertPartial, st.load, k, d)
			}
		}
		return g.g.DoUpsertThenLoad(ctx, st.upsert, st.load, k, d)
	default:
		return g.g.DoUpsertThenRenewInCache(ctx, st.upsert, k, d)
	}
}

// call runs f in its own goroutine and reports whether it returned (false = parked
// forever at a quiescent fixed point).
func call(d *engine.Driver, name string, f func() any) (*engine.Op, bool) {
	op := d.Spawn(name, f)
	for i := 0; i < 50; i++ {
		if op.Done() {
			return op, true
		}
		runtime.Gosched()
	}
	if !d.Quiesce() {
		return op, false
	}
	return op, op.Done()
}

type opRes struct {
	v   interface{}
	err error
}

// ---------------------------------------------------------------- sequential streams

func streamCase(k *engine.Case) {
	r := k.R
	g := newGroup(r)
	g.sequential = true
	st := newStore()
	keys, extreme := keyPool(r)
	rate := []int{0, 15, 30, 50}[r.Intn(4)]
	k.Logf("group=%s keys=%v failure-rate=%d%%", g.name, keys, rate)
	if extreme {
		k.Count("extreme_hash_keys", 1)
	}
	st.failAt = func(cb string) bool { return r.Intn(100) < rate }
	if g.lruCap > 0 && r.Intn(2) == 0 {
		// weighted values: some weigh more than the whole LRU capacity
		st.weighted = g.lruCap + 2
		k.Logf("values are weighted 1..%d (LRU capacity %d)", st.weighted, g.lruCap)
		k.Count("streams_with_weighted_values", 1)
	}
	if r.Intn(4) == 0 {
		st.nilEvery = 2 + r.Intn(2)
		k.Logf("every %d-th stored version is the nil value", st.nilEvery)
		k.Count("streams_with_nil_values", 1)
	}
	d := engine.NewDriver(Q, k)
	defer func() {
		sp := d.Spawn("stop", func() any { g.stop(k); return nil })
		Q.Wait()
		_ = sp
	}()

	probe := func(what string) bool {
		// coherence of every key
		for _, key := range keys {
			ks := keyStr(key)
			sv, inStore := st.value(ks)
			if g.spies != nil {
				cv, cached, places := g.cachedValue(key)
				if places > 1 {
					k.Fail("cached-in-two-workers", "after %s: key %v is cached by %d workers", what, key, places)
					return false
				}
				if cached {
					k.Count("coherence_checks_on_cached_keys", 1)
					if !inStore || cv != sv {
						k.Fail("incoherent-cache", "after %s: cache holds %v for key %v but the store holds %v (present=%v)", what, cv, key, sv, inStore)
						return false
					}
				}
			}
		}
		return true
	}
	// DoGet probe for the built-in constructors: a hit without consulting load must equal the store
	getProbe := func(what string, key mux.Hashed2Int) bool {
		consulted := false
		ks := keyStr(key)
		op, ok := call(d, "probe", func() any {
			v, err := g.g.DoGet(context.Background(), func(ctx context.Context, kk interface{}) (interface{}, error) {
				consulted = true
				s, okk := st.value(ks)
				if !okk {
					return nil, errNotFound
				}
				return s, nil
			}, key)
			return opRes{v, err}
		})
		if !ok {
			k.Fail("operation-stuck", "after %s: DoGet probe of %v never returned", what, key)
			return false
		}
		if pv := op.Panic(); pv != nil {
			k.Fail("panic", "after %s: DoGet(%v) panicked: %v", what, key, pv)
			return false
		}
		res := op.Result().(opRes)
		sv, inStore := st.value(ks)
		if !consulted && res.err == nil {
			k.Count("coherence_checks_on_cached_keys", 1)
			if !inStore || res.v != sv {
				k.Fail("incoherent-cache", "after %s: DoGet(%v) answered %v from the cache but the store holds %v (present=%v)", what, key, res.v, sv, inStore)
				return false
			}
		}
		if consulted && res.err == nil && (!inStore || res.v != sv) {
			k.Fail("wrong-result", "after %s: DoGet(%v) returned %v, the store holds %v (present=%v)", what, key, res.v, sv, inStore)
			return false
		}
		return true
	}

	n := 8 + r.Intn(40)
	probing := true
	for i := 0; i < n; i++ {
		op := r.Intn(7)
		key := keys[r.Intn(len(keys))]
		ks := keyStr(key)
		val := r.Intn(1000)
		var cachedBefore bool
		var cvBefore interface{}
		if g.spies != nil {
			cvBefore, cachedBefore, _ = g.cachedValue(key)
		}
		_ = cvBefore
		st.mu.Lock()
		addCallsBefore := st.calls["add"]
		totalBefore := 0
		for _, c := range st.calls {
			totalBefore += c
		}
		st.mu.Unlock()
		failedBefore := st.failed.Load()
		cachedBeforeSet := map[string]bool{}
		if g.spies != nil {
			for _, kk := range keys {
				if _, c, _ := g.cachedValue(kk); c {
					cachedBeforeSet[keyStr(kk)] = true
				}
			}
		}
		st.curOp.Store(int64(i))
		// the caller's context: live, already cancelled, or cancelled while its store callback runs
		ctx, cancel := context.WithCancel(context.Background())
		ctxMode := "live"
		switch cm := r.Intn(20); {
		case cm == 0:
			ctxMode = "cancelled-before-call"
			cancel()
		case cm <= 3:
			ctxMode = "cancelled-inside-callback"
			st.onCallbackEnd.Store(func() { cancel() })
		}
		o, ok := call(d, opNames[op], func() any {
			v, err := runOpCtx(ctx, g, st, op, key, val)
			return opRes{v, err}
		})
		if ok && ctxMode != "live" {
			// the caller may have left before the worker finished: wait for the worker to park
			ok = d.Quiesce()
		}
		st.onCallbackEnd.Store(func() {})
		cancel()
		if !ok {
			k.Fail("operation-stuck", "operation %d %s(%v) never returned", i, opNames[op], key)
			return
		}
		if ctxMode != "live" {
			k.Count("ops_with_cancelled_context", 1)
		}
		if pv := o.Panic(); pv != nil {
			k.Logf("op %d: %s(%v) -> PANIC %v", i, opNames[op], key, pv)
			k.Fail("panic", "%s(%v) panicked: %v", opNames[op], key, pv)
			return
		}
		res := o.Result().(opRes)
		k.Logf("op %d: %s(%v, data=%d) ctx=%s -> (%v, %v)", i, opNames[op], key, val, ctxMode, res.v, res.err)
		ctxErr := res.err == context.Canceled
		nf := st.failed.Load() - failedBefore
		if nf > 0 {
			k.Count("failures_injected", nf)
			if cachedBefore {
				k.Count("failure_while_cached", 1)
				k.Nontrivial()
			}
		}
		sv, inStore := st.value(ks)
		// result sanity: a successful value-returning operation returns the store's value
		if res.err == nil && op != 3 {
			if !inStore || res.v != sv {
				k.Fail("wrong-result", "%s(%v) returned %v without error, but the store now holds %v (present=%v)", opNames[op], key, res.v, sv, inStore)
				return
			}
		}
		if g.spies != nil {
			// add on a cached key: duplicate, store untouched
			if op == 1 && cachedBefore {
				k.Count("dup_add_on_cached_key", 1)
				st.mu.Lock()
				total := 0
				for _, c := range st.calls {
					total += c
				}
				addCalls := st.calls["add"]
				st.mu.Unlock()
				if res.err != mux.ErrDupKey && !ctxErr {
					k.Fail("dup-add-not-rejected", "DoAdd(%v) on a cached key returned (%v, %v) instead of ErrDupKey", key, res.v, res.err)
					return
				}
				if total != totalBefore || addCalls != addCallsBefore {
					k.Fail("dup-add-touched-store", "DoAdd(%v) on a cached key invoked %d store callback(s)", key, total-totalBefore)
					return
				}
			}
			if op == 3 && res.err == nil && ctxMode == "live" {
				if cachedBefore {
					k.Count("successful_delete_of_cached_key", 1)
				}
				if _, c, _ := g.cachedValue(key); c {
					k.Fail("delete-left-cache-entry", "DoDelete(%v) succeeded but the key is still cached", key)
					return
				}
			}
			if g.lruCap > 0 {
				for _, kk := range keys {
					if kk == key {
						continue
					}
					if _, c, _ := g.cachedValue(kk); !c && cachedBeforeSet[keyStr(kk)] {
						k.Count("lru_evictions_observed", 1) // another key fell out of the LRU
					}
				}
			}
			if !probe(fmt.Sprintf("op %d %s(%v)", i, opNames[op], key)) {
				return
			}
		} else {
			if op == 3 && res.err == nil {
				// after a successful delete the key must not be answered from the cache
				consulted := false
				po, pok := call(d, "probe-after-delete", func() any {
					v, err := g.g.DoGet(context.Background(), func(ctx context.Context, kk interface{}) (interface{}, error) {
						consulted = true
						return nil, errNotFound
					}, key)
					return opRes{v, err}
				})
				if !pok {
					k.Fail("operation-stuck", "DoGet after delete never returned")
					return
				}
				if pr := po.Result().(opRes); pr.err == nil && !consulted {
					k.Fail("delete-left-cache-entry", "DoDelete(%v) succeeded but DoGet still answers %v from the cache", key, pr.v)
					return
				}
				k.Count("successful_delete_probe", 1)
			}
			// alternate probing and non-probing phases (the probe warms the cache)
			if i%6 == 0 {
				probing = !probing
			}
			if probing {
				for _, kk := range keys {
					if !getProbe(fmt.Sprintf("op %d %s(%v)", i, opNames[op], key), kk) {
						return
					}
				}
			}
		}
	}
	if st.overl.Load() > 0 {
		k.Fail("store-overlap", "%d store callbacks overlapped another callback on the same key", st.overl.Load())
	}
}

// ---------------------------------------------------------------- gate programs (acceptance order)

func gateCase(k *engine.Case) {
	r := k.R
	g := newGroupDeep(r, []int{64, 64, 1, 2, 3}[r.Intn(5)])
	st := newStore()
	keys, extreme := keyPool(r)
	if extreme {
		k.Count("extreme_hash_keys", 1)
	}
	key := keys[r.Intn(len(keys))]
	k.Logf("group=%s key=%v", g.name, key)
	d := engine.NewDriver(Q, k)
	// pre-populate so that updates reach the store
	if _, ok := call(d, "seed", func() any { runOp(g, st, 5, key, 1); return nil }); !ok {
		k.Fail("operation-stuck", "seeding upsert never returned")
		return
	}
	st.mu.Lock()
	st.gate = make(chan struct{})
	st.gateCb = []string{"update", "upsert", "delete", "load"}[r.Intn(4)]
	gcb := st.gateCb
	st.log = nil
	st.mu.Unlock()
	// the gate operation
	gop := map[string]int{"update": 2, "upsert": 6, "delete": 3, "load": 0}[gcb]
	if gcb == "load" {
		// make sure the key is not cached so that the load callback is reached: delete first
		call(d, "del", func() any {
			st.mu.Lock()
			g0 := st.gate
			st.gate = nil
			st.mu.Unlock()
			runOp(g, st, 3, key, 0)
			st.mu.Lock()
			st.gate = g0
			st.log = nil
			st.mu.Unlock()
			return nil
		})
		call(d, "reseed", func() any {
			st.mu.Lock()
			g0 := st.gate
			st.gate = nil
			st.mu.Unlock()
			g.g.DoUpsertThenRenewInCache(context.Background(), st.upsert, key, datum{key: keyStr(key), k: key, v: 2})
			st.mu.Lock()
			st.gate = g0
			st.log = nil
			st.mu.Unlock()
			return nil
		})
	}
	st.curOp.Store(100)
	first := d.Spawn("gate-op", func() any { v, err := runOp(g, st, gop, key, 5); return opRes{v, err} })
	if !d.Quiesce() {
		return
	}
	if first.Done() || !st.gated.Load() {
		// the gate callback was not reached (e.g. answered from cache): nothing to observe
		st.mu.Lock()
		close(st.gate)
		st.gate = nil
		st.mu.Unlock()
		Q.Wait()
		d.Spawn("stop", func() any { g.stop(k); return nil })
		Q.Wait()
		k.Count("gate_not_reached", 1)
		return
	}
	k.Logf("worker blocked inside the %s callback of %s(%v)", gcb, opNames[gop], key)
	// queue further store-reaching operations on the same key, one at a time
	nq := 2 + r.Intn(4)
	type qd struct {
		id int
		op int
		o  *engine.Op
	}
	var queued []qd
	for i := 0; i < nq; i++ {
		op := []int{2, 3, 5, 6}[r.Intn(4)] // update, delete, upsert-then-load, upsert-then-renew: always reach the store
		if gcb == "load" && i == 0 && r.Intn(2) == 0 {
			// an add queued behind the get that is about to cache the key: by the time the add is
			// applied the key is cached, so it must be refused as duplicate without touching the store
			op = 1
			k.Count("gate_add_behind_caching_get", 1)
		}
		id := 101 + i
		// the op id is published when the callback runs: callbacks run serially on the worker,
		// and every queued op carries its id in its data value
		st.mu.Lock()
		logBefore := len(st.log)
		st.mu.Unlock()
		o := d.Spawn(fmt.Sprintf("q%d:%s", id, opNames[op]), func() any {
			v, err := runOp(g, st, op, key, id)
			return opRes{v, err}
		})
		if !d.Quiesce() {
			return
		}
		if o.Done() {
			// only a refusal because the worker's queue is full may come back early, and a
			// refused operation must not have reached the store
			res, _ := o.Result().(opRes)
			if len(queued) >= g.deep && res.err == mux.ErrQFull {
				k.Count("gate_refused_queue_full", 1)
				st.mu.Lock()
				touched := len(st.log)
				st.mu.Unlock()
				if touched != logBefore {
					k.Fail("refused-op-touched-store", "%s(%v) was refused (queue full) but %d store callback(s) ran for it", opNames[op], key, touched-logBefore)
					return
				}
				continue
			}
			k.Fail("order", "%s(%v) returned (%v, %v) while the worker is blocked in an earlier operation on the same key", opNames[op], key, res.v, res.err)
			return
		}
		k.Logf("queued #%d %s(%v)", id, opNames[op], key)
		k.Count("gate_queued_ops", 1)
		k.Nontrivial()
		queued = append(queued, qd{id, op, o})
	}
	st.mu.Lock()
	st.log = nil
	st.mu.Unlock()
	// record the data value seen by each callback to identify the operation
	close(st.gate)
	if !d.Quiesce() {
		return
	}
	for _, q := range queued {
		if !q.o.Done() {
			k.Fail("operation-stuck", "queued %s never returned after the gate was opened: %v", opNames[q.op], Q.Describe())
			return
		}
		if q.op == 1 {
			res := q.o.Result().(opRes)
			st.mu.Lock()
			addCalls := st.calls["add"]
			st.mu.Unlock()
			if res.err != mux.ErrDupKey {
				k.Fail("dup-add-not-rejected", "DoAdd(%v) was queued behind a DoGet that cached the key; when it was applied the key was cached, but it returned (%v, %v) instead of ErrDupKey", key, res.v, res.err)
				return
			}
			if addCalls != 0 {
				k.Fail("dup-add-touched-store", "DoAdd(%v) on a key cached by the preceding DoGet invoked the store's add callback %d time(s)", key, addCalls)
				return
			}
		}
	}
	// order: the first store callback of each queued op must follow acceptance order.
	// Callbacks of one op are contiguous (the worker is serial), and each queued op's first
	// callback is of a known kind; we reconstruct the op sequence from the callback kinds.
	st.mu.Lock()
	log := append([]storeEvent(nil), st.log...)
	st.mu.Unlock()
	var kinds []string
	for _, e := range log {
		kinds = append(kinds, e.op)
	}
	// expected callback sequence given acceptance order and the actual cache/store evolution is
	// implementation-dependent in its load calls; compare the subsequence of mutating callbacks
	var got []string
	for _, e := range log {
		if e.op != "load" {
			got = append(got, e.op)
		}
	}
	var want []string
	for _, q := range queued {
		switch q.op {
		case 2:
			want = append(want, "update")
		case 3:
			want = append(want, "delete")
		case 5, 6:
			want = append(want, "upsert")
		}
	}
	// an update on a key that a previous queued delete removed fails in load (not found) and
	// never reaches the update callback: drop those from the expectation
	present := true
	if gcb == "delete" {
		present = false
	}
	var want2 []string
	for _, w := range want {
		switch w {
		case "update":
			if present {
				want2 = append(want2, w)
			}
		case "delete":
			want2 = append(want2, w)
			present = false
		case "upsert":
			want2 = append(want2, w)
			present = true
		}
	}
	k.Logf("store saw %v; acceptance order implies %v", got, want2)
	if strings.Join(got, ",") != strings.Join(want2, ",") {
		k.Fail("order", "operations queued on key %v in order %v reached the store as %v (all callbacks: %v)", key, want2, got, kinds)
		return
	}
	if st.overl.Load() > 0 {
		k.Fail("store-overlap", "%d store callbacks overlapped another callback on the same key", st.overl.Load())
		return
	}
	// final coherence
	if g.spies != nil {
		sv, inStore := st.value(keyStr(key))
		if cv, cached, _ := g.cachedValue(key); cached {
			k.Count("coherence_checks_on_cached_keys", 1)
			if !inStore || cv != sv {
				k.Fail("incoherent-cache", "after the queued operations: cache holds %v for %v, store holds %v (present=%v)", cv, key, sv, inStore)
				return
			}
		}
	}
	sp := d.Spawn("stop", func() any { g.stop(k); return nil })
	if d.Quiesce() && !sp.Done() {
		k.Fail("workers-not-terminated", "Stop + WaitStop did not return: %v", Q.Describe())
	}
}

// ---------------------------------------------------------------- stress

func stressCase(k *engine.Case) {
	r := k.R
	g := newGroup(r)
	st := newStore()
	keys, _ := keyPool(r)
	callers := []int{4, 8, 12}[r.Intn(3)]
	per := 250
	procs := []int{2, 4, 16}[r.Intn(3)]
	old := runtime.GOMAXPROCS(procs)
	defer runtime.GOMAXPROCS(old)
	rate := []int{0, 20, 40}[r.Intn(3)]
	var fcount atomic.Uint64
	fseed := uint64(r.Int63()) | 1
	st.failAt = func(cb string) bool {
		x := fcount.Add(1) * fseed
		x ^= x >> 29
		return int(x%100) < rate
	}
	k.Logf("stress group=%s callers=%d ops/caller=%d failure-rate=%d%% gomaxprocs=%d", g.name, callers, per, rate, procs)
	k.Nontrivial()
	d := engine.NewDriver(Q, k)
	seeds := make([]int64, callers)
	for i := range seeds {
		seeds[i] = r.Int63()
	}

	for w := 0; w < callers; w++ {
		w := w
		d.Spawn(fmt.Sprintf("caller%d", w), func() any {
			x := uint64(seeds[w]) | 1
			next := func() uint64 { x ^= x << 13; x ^= x >> 7; x ^= x << 17; return x }
			for i := 0; i < per; i++ {
				op := int(next() % 7)
				key := keys[next()%uint64(len(keys))]
				_, _ = runOp(g, st, op, key, int(next()%1000))
			}
			return nil
		})
	}
	deadline := time.Now().Add(10 * time.Minute)
	for len(d.Pending()) > 0 {
		if time.Now().After(deadline) {
			k.Inconclusive("stress watchdog")
			return
		}
		time.Sleep(5 * time.Millisecond)
		if Q.IsQuiet() && len(d.Pending()) > 0 {
			time.Sleep(10 * time.Millisecond)
			if Q.IsQuiet() && len(d.Pending()) > 0 {
				k.Fail("operation-stuck", "stress: %d caller(s) blocked forever: %s", len(d.Pending()), d.PendingNames())
				return
			}
		}
	}
	d.Join()
	k.Count("stress_ops", int64(callers*per))
	if st.overl.Load() > 0 {
		k.Fail("store-overlap", "stress: %d store callbacks overlapped another callback on the same key", st.overl.Load())
		return
	}
	// final coherence at quiescence
	for _, key := range keys {
		sv, inStore := st.value(keyStr(key))
		if g.spies != nil {
			if cv, cached, _ := g.cachedValue(key); cached {
				k.Count("coherence_checks_on_cached_keys", 1)
				if !inStore || cv != sv {
					k.Fail("incoherent-cache", "stress: at the end the cache holds %v for %v but the store holds %v (present=%v)", cv, key, sv, inStore)
					return
				}
			}
		} else {
			consulted := false
			v, err := g.g.DoGet(context.Background(), func(ctx context.Context, kk interface{}) (interface{}, error) {
				consulted = true
				return nil, errNotFound
			}, key)
			if err == nil && !consulted {
				k.Count("coherence_checks_on_cached_keys", 1)
				if !inStore || v != sv {
					k.Fail("incoherent-cache", "stress: at the end DoGet(%v) answers %v from the cache but the store holds %v (present=%v)", key, v, sv, inStore)
					return
				}
			}
		}
	}
	sp := d.Spawn("stop", func() any { g.stop(k); return nil })
	if d.Quiesce() && !sp.Done() {
		k.Fail("workers-not-terminated", "stress: Stop + WaitStop did not return")
	}
}

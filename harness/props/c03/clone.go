package c03

import (
	"fmt"

	"verifh/engine"

	"github.com/pinealctx/neptune/ds/tree/btree"
)

// cloneCase: a family of trees produced by Clone (and clones of clones) written
// alternately by one goroutine; every tree is compared with its own model after every
// step, so a write that leaks into a tree it was not applied to is seen at once.
func cloneCase(k *engine.Case) { solo(k, cloneHistory) }

func cloneHistory(k *engine.Case) {
	r := k.R
	deg := []int{2, 2, 3, 4, 5, 8}[r.Intn(6)]
	U := []int{12, 24, 48, 64}[r.Intn(4)]
	k.Logf("btree.New(%d), keys from [0,%d)", deg, U)
	k.Count("clone_histories", 1)
	nextOwner := uint32(0)
	mk := func(t *btree.BTree, m *model, depth int) *actor {
		a := newActor(k, fmt.Sprintf("t%d", nextOwner), t, m, r, U, deg, nextOwner)
		nextOwner++
		a.trace = true
		a.depth = depth
		return a
	}
	root := mk(btree.New(deg), &model{}, 0)
	// prefill so that the first clone shares a real node structure
	for i, n := 0, r.Intn(U+1); i < n && !root.failed; i++ {
		root.opInsert(r.Intn(U))
	}
	actors := []*actor{root}
	modes := map[*actor]int{root: r.Intn(3)}
	maxDepth := 0
	anyFailed := func() bool {
		for _, a := range actors {
			if a.failed {
				return true
			}
		}
		return false
	}
	checkAll := func(touched *actor) bool {
		for _, a := range actors {
			class := "content"
			if a != touched {
				class = "clone-isolation"
				a.count("clone_untouched_checked")
			}
			a.count("structure_walks")
			if err := a.t.VerifCheck(); err != nil {
				if a != touched {
					a.fail("clone-isolation", "structure of %s damaged by a step on %s: %v", a.name, touched.name, err)
				} else {
					a.fail("structure", "VerifCheck: %v", err)
				}
				return false
			}
			if !a.fullCompare(class) {
				return false
			}
		}
		return true
	}
	steps := 60 + r.Intn(140)
	for s := 0; s < steps && !anyFailed(); s++ {
		c := r.Intn(100)
		var touched *actor
		switch {
		case c < 9 && len(actors) < 6:
			src := actors[r.Intn(len(actors))]
			t2 := src.t.Clone()
			na := mk(t2, src.m.clone(), src.depth+1)
			na.prevH, na.prevR, na.maxH = src.prevH, src.prevR, src.maxH
			k.Logf("%s := %s.Clone() (len %d, generation %d)", na.name, src.name, src.m.len(), na.depth)
			actors = append(actors, na)
			modes[na] = r.Intn(3)
			k.Count("clones_made", 1)
			if na.depth >= 2 {
				k.Count("clone_of_clone", 1)
			}
			if na.depth > maxDepth {
				maxDepth = na.depth
			}
			if src.m.len() == 0 {
				k.Count("clone_of_empty_tree", 1)
			}
		case c < 12 && len(actors) > 1:
			i := r.Intn(len(actors))
			k.Logf("drop %s", actors[i].name)
			actors[i].flush()
			actors = append(actors[:i], actors[i+1:]...)
			k.Count("clone_dropped", 1)
		case c < 14:
			touched = actors[r.Intn(len(actors))]
			touched.opClear(r.Intn(2) == 0)
		default:
			touched = actors[r.Intn(len(actors))]
			if r.Intn(25) == 0 {
				modes[touched] = r.Intn(3)
			}
			touched.randomStep(modes[touched])
		}
		if !checkAll(touched) {
			break
		}
	}
	if !anyFailed() {
		for _, a := range actors {
			a.sweep()
		}
	}
	nt := false
	var steps2 int
	for _, a := range actors {
		if a.maxH >= 2 && a.deletes > 0 && a.nonEmptyScans > 0 {
			nt = true
		}
		steps2 += a.steps
		a.flush()
	}
	k.Count("history_steps", int64(steps2))
	k.C.Max("clone_generation", int64(maxDepth))
	if nt && nextOwner > 1 {
		k.Nontrivial()
	}
}

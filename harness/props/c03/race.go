package c03

import (
	"fmt"
	"math/rand"
	"runtime"
	"runtime/debug"
	"strings"
	"sync"
	"sync/atomic"
	"time"

	"verifh/engine"

	"github.com/pinealctx/neptune/ds/tree"
	"github.com/pinealctx/neptune/ds/tree/btree"
)

// runWorkers starts every function in its own goroutine behind a barrier and waits for
// all of them. None of the calls issued may block for ever; if the goroutine snapshot
// is quiescent (every worker parked on a lock or gone) while a worker has not finished,
// the workload is dead-locked and that is reported (class "stuck"). The pacing sleeps
// of the waiting loop influence only when that snapshot is taken, never the verdict.
func runWorkers(k *engine.Case, fns []func()) bool {
	var wg sync.WaitGroup
	var done atomic.Int32
	start := make(chan struct{})
	for i, f := range fns {
		wg.Add(1)
		go func(i int, f func()) {
			defer wg.Done()
			defer done.Add(1)
			defer func() {
				if x := recover(); x != nil {
					st := string(debug.Stack())
					if len(st) > 3000 {
						st = st[:3000]
					}
					k.Fail("panic", "panic in worker %d: %v\n%s", i, x, st)
				}
			}()
			<-start
			f()
		}(i, f)
	}
	close(start)
	quietSeen := 0
	for poll := 1; int(done.Load()) < len(fns); poll++ {
		time.Sleep(200 * time.Microsecond)
		if poll%25 != 0 || Q == nil {
			continue
		}
		if Q.IsQuiet() {
			quietSeen++
		} else {
			quietSeen = 0
		}
		if quietSeen >= 3 && int(done.Load()) < len(fns) {
			k.Fail("stuck", "%d of %d workers never returned although every goroutine is parked: %s",
				len(fns)-int(done.Load()), len(fns), strings.Join(Q.Describe(), " | "))
			return false
		}
	}
	wg.Wait()
	return true
}

// ---------------------------------------------------------------- race-clone

// raceCloneCase: a family of clones, every tree written by exactly one goroutine in
// lock step with that goroutine's private model, while the sibling trees (sharing
// nodes and the free list) are written by other goroutines; frozen trees are read by
// two goroutines at once. Legal per the package doc: "the original tree and the new
// tree can be used concurrently once the Clone call completes", reads are concurrent.
func raceCloneCase(k *engine.Case) {
	r := k.R
	deg := []int{2, 2, 3, 4, 8}[r.Intn(5)]
	U := 48 + r.Intn(100)
	k.Count("race_clone_histories", 1)
	owner := uint32(0)
	mk := func(t *btree.BTree, m *model) *actor {
		a := newActor(k, fmt.Sprintf("t%d", owner), t, m, rand.New(rand.NewSource(r.Int63())), U, deg, owner)
		owner++
		return a
	}
	base := mk(btree.New(deg), &model{})
	fill := U/3 + r.Intn(U)
	for i := 0; i < fill && !base.failed; i++ {
		base.opInsert(r.Intn(U))
	}
	k.Logf("btree.New(%d), keys [0,%d), base prefilled with %d keys (height %d)", deg, U, base.m.len(), base.prevH)
	family := []*actor{base}
	nTrees := 2 + r.Intn(4)
	for len(family) < nTrees {
		src := family[r.Intn(len(family))]
		na := mk(src.t.Clone(), src.m.clone())
		na.depth = src.depth + 1
		na.prevH, na.prevR, na.maxH = src.prevH, src.prevR, src.maxH
		k.Logf("%s := %s.Clone() (generation %d)", na.name, src.name, na.depth)
		if na.depth >= 2 {
			k.Count("clone_of_clone", 1)
		}
		family = append(family, na)
		// a few serial writes between clones so that the trees own nodes of different contexts
		for j, n := 0, r.Intn(6); j < n; j++ {
			family[r.Intn(len(family))].randomStep(modeEven)
		}
	}
	var fns []func()
	var workers []*actor
	nFrozen := 0
	for i, a := range family {
		a := a
		frozen := i > 0 && r.Intn(4) == 0
		nOps := 80 + r.Intn(160)
		mode := r.Intn(3)
		if frozen {
			nFrozen++
			// two readers on one frozen tree: each has its own actor (PRNG, log) on the shared tree and model
			for j := 0; j < 2; j++ {
				ra := newActor(k, fmt.Sprintf("%s/reader%d", a.name, j), a.t, a.m, rand.New(rand.NewSource(r.Int63())), U, deg, 0)
				ra.ro = true
				ra.prevH, ra.prevR, ra.maxH = a.prevH, a.prevR, a.maxH
				workers = append(workers, ra)
				fns = append(fns, func() {
					for s := 0; s < nOps && !ra.failed; s++ {
						ra.readStep()
						ra.count("race_clone_worker_ops")
						if s%3 == 0 {
							runtime.Gosched()
						}
					}
				})
			}
			k.Logf("%s frozen: 2 concurrent readers x %d reads", a.name, nOps)
			continue
		}
		selfClone := r.Intn(5) == 0
		k.Logf("%s: writer, %d steps, mode %d, clones itself midway: %v", a.name, nOps, mode, selfClone)
		workers = append(workers, a)
		fns = append(fns, func() {
			var twin *actor
			for s := 0; s < nOps && !a.failed; s++ {
				if selfClone && s == nOps/2 {
					// Clone by the only user of this tree; then both are written alternately by this goroutine
					twin = newActor(k, a.name+"'", a.t.Clone(), a.m.clone(), a.r, U, deg, a.owner+64)
					twin.prevH, twin.prevR, twin.maxH = a.prevH, a.prevR, a.maxH
				}
				cur := a
				if twin != nil && s%2 == 1 {
					cur = twin
				}
				cur.randomStep(mode)
				a.count("race_clone_worker_ops")
				if s%3 == 0 {
					runtime.Gosched()
				}
				if twin != nil && twin.failed {
					a.failed = true
				}
			}
			if twin != nil && !a.failed {
				twin.count("structure_walks")
				if err := twin.t.VerifCheck(); err != nil {
					twin.fail("structure", "VerifCheck: %v", err)
				}
				twin.fullCompare("clone-isolation")
				for n, v := range twin.cnt {
					a.cnt[n] += v
				}
			}
		})
	}
	ok := runWorkers(k, fns)
	if !ok {
		return
	}
	// final: every tree equals its own model (writes of the others did not leak)
	good := true
	for _, a := range family {
		if a.failed {
			good = false
			continue
		}
		a.count("structure_walks")
		if err := a.t.VerifCheck(); err != nil {
			a.fail("structure", "VerifCheck after the concurrent phase: %v", err)
			good = false
			continue
		}
		if !a.fullCompare("clone-isolation") {
			good = false
			continue
		}
		a.sweep()
		k.Logf("%s: final len %d, height %d, %d writes", a.name, a.m.len(), a.prevH, a.steps)
	}
	for _, a := range workers {
		if a.failed {
			good = false
		}
		a.flush()
	}
	for _, a := range family {
		a.flush()
	}
	k.Count("race_clone_frozen_trees", int64(nFrozen))
	k.Count("race_clone_goroutines", int64(len(fns)))
	if good {
		k.Nontrivial()
	}
}

// ---------------------------------------------------------------- race-wrapper

// rwWorld is the shared, read-only description of a race-wrapper case.
type rwWorld struct {
	w        *tree.BTree
	U        int
	nWriters int
	blocks   bool   // ownership by contiguous block (else by residue class)
	stable   *model // keys inserted before the start and never touched afterwards
	// conserve: writers only issue operations that keep the number of their keys
	// constant (replace an existing key, move a key to a free or the same key), so every
	// atomic snapshot of the tree holds exactly initCount[w] keys of writer w.
	conserve  bool
	initCount []int
}

// ownerOf maps a key to its writer; nWriters = the stable class nobody writes.
func (wd *rwWorld) ownerOf(key int) int {
	cls := wd.nWriters + 1
	if wd.blocks {
		sz := (wd.U + cls - 1) / cls
		return key / sz
	}
	return key % cls
}

// rwWorker is one goroutine of a race-wrapper case.
type rwWorker struct {
	k      *engine.Case
	wd     *rwWorld
	id     int
	writer bool
	r      *rand.Rand
	m      *model // the keys this writer owns, as it left them
	keys   []int  // owned keys
	seq    uint32
	rec    ring
	cnt    map[string]int64
	failed bool
}

func (x *rwWorker) fail(class, format string, args ...any) {
	x.failed = true
	x.k.Fail(class, "worker %d (writer=%v): %s | recent ops: %s", x.id, x.writer, fmt.Sprintf(format, args...), x.rec.String())
}

func (x *rwWorker) newItem(key int) it {
	x.seq++
	return it{k: key, p: uint32(x.id)<<24 | x.seq&0xffffff}
}

func (x *rwWorker) ownKey() int { return x.keys[x.r.Intn(len(x.keys))] }

// checkScanResult judges one wrapper scan issued while other goroutines write.
// Whatever the interleaving, the result must be strictly ordered in scan direction, on
// the right side of the pivot, pass the filter, hold at most n items, and every item
// must carry a payload issued by the owner of its key. Restricted to a key set whose
// content is known to this goroutine at the time of the call (its own keys: only it
// writes them; the stable keys: nobody writes them) the result must be exactly what
// the sorted set gives: every matching known item in scan order, up to the last
// returned item if the limit was reached, to the end otherwise.
func (x *rwWorker) checkScanResult(typ, pivot, fid, n int, got []it) {
	name := wScanNames[typ]
	f := filterOf(fid)
	asc := typ == wAscGte || typ == wAscGt
	incl := typ == wAscGte || typ == wDescLte
	desc := fmt.Sprintf("%s(pivot=%d, filter=%s, n=%d)", name, pivot, filterNames[fid], n)
	if len(got) > n {
		x.fail("conc-scan:"+name, "%s returned %d items: %s", desc, len(got), fmtItems(got))
		return
	}
	for i, v := range got {
		if v.k < 0 || v.k >= x.wd.U || int(v.p>>24) != x.wd.ownerOf(v.k) {
			x.fail("conc-scan:"+name, "%s returned %v, never stored under that key: %s", desc, v, fmtItems(got))
			return
		}
		okPivot := false
		switch {
		case asc && incl:
			okPivot = v.k >= pivot
		case asc:
			okPivot = v.k > pivot
		case incl:
			okPivot = v.k <= pivot
		default:
			okPivot = v.k < pivot
		}
		if !okPivot {
			x.fail("conc-scan:"+name, "%s returned %v on the wrong side of the pivot: %s", desc, v, fmtItems(got))
			return
		}
		if !f(v) {
			x.fail("conc-scan:"+name, "%s returned %v which the filter rejects: %s", desc, v, fmtItems(got))
			return
		}
		if i > 0 && ((asc && got[i-1].k >= v.k) || (!asc && got[i-1].k <= v.k)) {
			x.fail("conc-scan:"+name, "%s is not strictly ordered: %s", desc, fmtItems(got))
			return
		}
	}
	known := func(label string, m *model, owner int) {
		cand := wScanCandidates(m, typ, pivot)
		var want []it
		for _, c := range cand {
			if !f(c) {
				continue
			}
			if len(got) == n { // limit reached: the scan ended at the last returned item
				if n == 0 {
					break
				}
				last := got[n-1].k
				if (asc && c.k > last) || (!asc && c.k < last) {
					break
				}
			}
			want = append(want, c)
		}
		var mine []it
		for _, v := range got {
			if x.wd.ownerOf(v.k) == owner {
				mine = append(mine, v)
			}
		}
		if !sameItems(mine, want) {
			x.fail("conc-scan-known:"+name, "%s returned %s; of the %s keys it holds %s, but exactly %s are in the set at any moment of the call (keys %s)",
				desc, fmtItems(got), label, fmtItems(mine), fmtItems(want), fmtItems(m.s))
		}
	}
	known("stable", x.wd.stable, x.wd.nWriters)
	x.cnt["race_wrapper_stable_scans"]++
	if x.writer && !x.failed {
		known("own", x.m, x.id)
		x.cnt["race_wrapper_owned_scans"]++
	}
}

func (x *rwWorker) scan() {
	typ := x.r.Intn(4)
	pivot := x.r.Intn(x.wd.U+4) - 2
	fid := x.r.Intn(len(filterNames))
	var n int
	switch x.r.Intn(6) {
	case 0:
		n = 0
	case 1:
		n = 1
	case 2:
		n = 2
	case 3:
		n = 3 + x.r.Intn(8)
	default:
		n = x.wd.U + 3
	}
	got, foreign := wScanCall(x.wd.w, typ, pivot, filterOf(fid), n)
	x.rec.add(fmt.Sprintf("%s(%d,%s,n=%d)->%d items", wScanNames[typ], pivot, filterNames[fid], n, len(got)))
	x.cnt["scan_checks_concurrent:"+wScanNames[typ]]++
	if foreign {
		x.fail("conc-scan:"+wScanNames[typ], "foreign node type returned")
		return
	}
	x.checkScanResult(typ, pivot, fid, n, got)
}

// census takes one unfiltered, unlimited scan over the whole key range. A scan is one
// operation of the wrapper, so it must deliver a state some sequential history produces:
// in a conserving case every such state holds exactly the initial number of keys of each
// writer (an Update observed half-way, old key gone and new key not yet stored, does not).
func (x *rwWorker) census() {
	typ, pivot := wAscGte, -2
	if x.r.Intn(2) == 0 {
		typ, pivot = wDescLte, x.wd.U+1
	}
	n := x.wd.U + 3
	got, foreign := wScanCall(x.wd.w, typ, pivot, filterOf(0), n)
	x.rec.add(fmt.Sprintf("census %s->%d items", wScanNames[typ], len(got)))
	if foreign {
		x.fail("conc-scan:"+wScanNames[typ], "foreign node type returned")
		return
	}
	x.checkScanResult(typ, pivot, 0, n, got)
	if x.failed {
		return
	}
	x.cnt["race_wrapper_census"]++
	counts := make([]int, x.wd.nWriters+1)
	for _, v := range got {
		counts[x.wd.ownerOf(v.k)]++
	}
	for w := 0; w < x.wd.nWriters; w++ {
		if counts[w] != x.wd.initCount[w] {
			x.fail("conc-atomicity", "a whole-tree scan saw %d keys of writer %d, which holds exactly %d keys before and after each of its operations: %s",
				counts[w], w, x.wd.initCount[w], fmtItems(got))
			return
		}
	}
}

// freeOwnKey returns an own key that is not in the writer's set (ok=false: none).
func (x *rwWorker) freeOwnKey() (int, bool) {
	off := x.r.Intn(len(x.keys))
	for i := range x.keys {
		key := x.keys[(off+i)%len(x.keys)]
		if _, had := x.m.get(key); !had {
			return key, true
		}
	}
	return 0, false
}

// conservingWrite issues one operation that leaves the number of own keys unchanged.
func (x *rwWorker) conservingWrite() {
	w := x.wd.w
	x.cnt["race_wrapper_writes"]++
	if x.m.len() == 0 {
		return
	}
	present := x.m.s[x.r.Intn(x.m.len())].k
	target := present
	if k2, ok := x.freeOwnKey(); ok && x.r.Intn(4) > 0 {
		target = k2
	}
	switch c := x.r.Intn(100); {
	case c < 12:
		v := x.newItem(present)
		x.m.put(v)
		w.Insert(v)
		x.rec.add(fmt.Sprintf("Insert(%v)", v))
	case c < 75:
		v := x.newItem(target)
		x.m.del(present)
		x.m.put(v)
		got := w.Update(probe(present), v)
		x.rec.add(fmt.Sprintf("Update(%d->%v)->%v", present, v, got))
		if !got {
			x.fail("conc-retval:Update", "Update(old=%d,new=%v) returned false; only this goroutine writes that key and it was present", present, v)
		}
	case c < 85:
		if absent, ok := x.freeOwnKey(); ok {
			v := x.newItem(target)
			got := w.Update(probe(absent), v)
			x.rec.add(fmt.Sprintf("Update(%d->%v)->%v", absent, v, got))
			if got {
				x.fail("conc-retval:Update", "Update(old=%d,new=%v) returned true; only this goroutine writes that key and it was absent", absent, v)
			}
		}
	default:
		v := x.newItem(target)
		x.m.del(present)
		x.m.put(v)
		got := w.UpdateOrInsert(probe(present), v)
		x.rec.add(fmt.Sprintf("UpdateOrInsert(%d->%v)->%v", present, v, got))
		if !got {
			x.fail("conc-retval:UpdateOrInsert", "UpdateOrInsert(old=%d,new=%v) returned false; only this goroutine writes that key and it was present", present, v)
		}
	}
}

func (x *rwWorker) get() {
	var key int
	if x.writer && x.r.Intn(3) > 0 {
		key = x.ownKey()
	} else {
		key = x.r.Intn(x.wd.U)
	}
	g := x.wd.w.Get(probe(key))
	v, ok, foreign := asIt(g)
	x.rec.add(fmt.Sprintf("Get(%d)->%s", key, fmtOpt(v, ok)))
	x.cnt["race_wrapper_gets"]++
	if foreign {
		x.fail("conc-get", "Get(%d) returned a foreign type", key)
		return
	}
	own := x.wd.ownerOf(key)
	if ok && (v.k != key || int(v.p>>24) != own) {
		x.fail("conc-get", "Get(%d) returned %v, never stored under that key", key, v)
		return
	}
	var want it
	var had, judge bool
	if own == x.wd.nWriters {
		want, had = x.wd.stable.get(key)
		judge = true
	} else if x.writer && own == x.id {
		want, had = x.m.get(key)
		judge = true
	}
	if judge && (ok != had || v != want) {
		x.fail("conc-get", "Get(%d) returned %s, but only this goroutine writes that key and left it at %s", key, fmtOpt(v, ok), fmtOpt(want, had))
	}
}

func (x *rwWorker) write() {
	if x.wd.conserve {
		x.conservingWrite()
		return
	}
	w := x.wd.w
	switch c := x.r.Intn(100); {
	case c < 35:
		it := x.newItem(x.ownKey())
		x.m.put(it)
		w.Insert(it)
		x.rec.add(fmt.Sprintf("Insert(%v)", it))
	case c < 60:
		key := x.ownKey()
		_, had := x.m.del(key)
		got := w.Delete(probe(key))
		x.rec.add(fmt.Sprintf("Delete(%d)->%v", key, got))
		if got != had {
			x.fail("conc-retval:Delete", "Delete(%d) returned %v; only this goroutine writes that key and it was present: %v", key, got, had)
		}
	case c < 82:
		oldKey, it := x.ownKey(), x.newItem(x.ownKey())
		_, had := x.m.get(oldKey)
		got := w.Update(probe(oldKey), it)
		if had {
			x.m.del(oldKey)
			x.m.put(it)
		}
		x.rec.add(fmt.Sprintf("Update(%d->%v)->%v", oldKey, it, got))
		if got != had {
			x.fail("conc-retval:Update", "Update(old=%d,new=%v) returned %v; only this goroutine writes that key and it was present: %v", oldKey, it, got, had)
		}
	default:
		oldKey, it := x.ownKey(), x.newItem(x.ownKey())
		_, had := x.m.del(oldKey)
		x.m.put(it)
		got := w.UpdateOrInsert(probe(oldKey), it)
		x.rec.add(fmt.Sprintf("UpdateOrInsert(%d->%v)->%v", oldKey, it, got))
		if got != had {
			x.fail("conc-retval:UpdateOrInsert", "UpdateOrInsert(old=%d,new=%v) returned %v; only this goroutine writes that key and it was present: %v", oldKey, it, got, had)
		}
	}
	x.cnt["race_wrapper_writes"]++
}

// raceWrapperCase: one tree.BTree shared by 8 goroutines (writers with disjoint key
// sets, pure readers). Every call takes the wrapper's lock, so no call can block for
// ever and each is atomic; results are judged as described at checkScanResult.
func raceWrapperCase(k *engine.Case) {
	r := k.R
	nWriters := 3 + r.Intn(3)
	nReaders := 8 - nWriters
	U := 40 + r.Intn(120)
	wd := &rwWorld{w: tree.NewBTree(), U: U, nWriters: nWriters, blocks: r.Intn(3) == 0, stable: &model{}, conserve: r.Intn(5) < 2}
	k.Count("race_wrapper_histories", 1)
	if wd.conserve {
		k.Count("race_wrapper_conserving_histories", 1)
	}
	k.Logf("tree.NewBTree(), keys [0,%d), %d writers + %d readers, ownership by %s, conserving=%v", U, nWriters, nReaders,
		map[bool]string{true: "contiguous block", false: "residue class"}[wd.blocks], wd.conserve)
	var ws []*rwWorker
	for i := 0; i < nWriters+nReaders; i++ {
		x := &rwWorker{k: k, wd: wd, id: i, writer: i < nWriters, r: rand.New(rand.NewSource(r.Int63())), m: &model{}, cnt: map[string]int64{}}
		ws = append(ws, x)
	}
	// the stable keys (owner class nWriters) and an initial population of the writers' keys
	stableSeq := uint32(0)
	for key := 0; key < U; key++ {
		o := wd.ownerOf(key)
		switch {
		case o == nWriters:
			if r.Intn(4) > 0 {
				stableSeq++
				v := it{k: key, p: uint32(nWriters)<<24 | stableSeq}
				wd.stable.put(v)
				wd.w.Insert(v)
			}
		case o < nWriters:
			ws[o].keys = append(ws[o].keys, key)
			if r.Intn(2) == 0 {
				v := ws[o].newItem(key)
				ws[o].m.put(v)
				wd.w.Insert(v)
			}
		}
	}
	for _, x := range ws[:nWriters] {
		if len(x.keys) == 0 {
			k.Inconclusive("a writer owns no key")
			return
		}
	}
	for _, x := range ws[:nWriters] {
		wd.initCount = append(wd.initCount, x.m.len())
	}
	k.Logf("stable keys %d, initial length %d, keys per writer %v", wd.stable.len(), wd.w.VerifInner().Len(), wd.initCount)
	var fns []func()
	for _, x := range ws {
		x := x
		nOps := 100 + r.Intn(150)
		wPct := 0
		if x.writer {
			wPct = 45 + r.Intn(40)
		}
		k.Logf("worker %d writer=%v ops=%d write%%=%d keys=%d", x.id, x.writer, nOps, wPct, len(x.keys))
		fns = append(fns, func() {
			for s := 0; s < nOps && !x.failed; s++ {
				c := x.r.Intn(100)
				switch {
				case c < wPct:
					x.write()
				case c < wPct+(100-wPct)/3:
					x.get()
				case c < 99:
					if x.wd.conserve && x.r.Intn(3) == 0 {
						x.census()
					} else {
						x.scan()
					}
				default:
					if err := x.wd.w.VerifCheck(); err != nil {
						x.fail("structure", "VerifCheck under the read lock: %v", err)
					}
					x.cnt["structure_walks"]++
				}
				x.cnt["race_wrapper_ops"]++
				if s%3 == 0 {
					runtime.Gosched()
				}
			}
		})
	}
	if !runWorkers(k, fns) {
		return
	}
	// final content = stable keys + union of the writers' models
	good := true
	final := wd.stable.clone()
	for _, x := range ws {
		if x.failed {
			good = false
		}
		for _, v := range x.m.s {
			final.put(v)
		}
		for n, v := range x.cnt {
			k.Count(n, v)
		}
	}
	if good {
		inner := wd.w.VerifInner()
		k.Count("structure_walks", 1)
		if err := wd.w.VerifCheck(); err != nil {
			k.Fail("structure", "VerifCheck after the concurrent phase: %v", err)
			good = false
		}
		var got []it
		inner.Ascend(func(v btree.Item) bool { got = append(got, v.(it)); return true })
		if !sameItems(got, final.s) {
			k.Fail("conc-final-content", "after all workers returned the tree holds %s, the union of the writers' sets is %s", fmtItems(got), fmtItems(final.s))
			good = false
		}
		if inner.Len() != final.len() {
			k.Fail("len", "Len()=%d, union of the writers' sets holds %d", inner.Len(), final.len())
			good = false
		}
		h, _ := inner.VerifShape()
		k.Logf("final length %d, height %d", final.len(), h)
		k.C.Max("tree_height", int64(h))
	}
	if good {
		k.Nontrivial()
	}
}

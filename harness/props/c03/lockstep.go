package c03

import (
	"verifh/engine"

	"github.com/pinealctx/neptune/ds/tree/btree"
)

var degrees = []int{2, 2, 3, 3, 4, 5, 8, 32}

// universeFor picks the key universe: small relative to the number of operations, but
// large enough that a node of the given degree can fill up and split (degree 32 needs
// 64 keys for the first split, so its universes exceed the 64 used for small degrees).
func universeFor(k *engine.Case, deg int) int {
	opts := []int{2*deg + 2, 6*deg + 4, 64}
	if 8*deg+4 > 64 {
		opts[2] = 8*deg + 4
	}
	if deg <= 3 {
		opts = append(opts, 24, 40)
	}
	return opts[k.R.Intn(len(opts))]
}

const maxStepsPerHistory = 700

// solo runs a single-goroutine history on a worker goroutine so that a call that never
// returns (a lock left held by an earlier call) is reported as "stuck" instead of
// hanging the child: under -race the runtime's own dead-lock detector is silent.
func solo(k *engine.Case, f func(k *engine.Case)) {
	runWorkers(k, []func(){func() { f(k) }})
}

// btreeCase: one history on a btree.BTree of a random degree, in lock step.
func btreeCase(k *engine.Case) { solo(k, btreeHistory) }

func btreeHistory(k *engine.Case) {
	r := k.R
	deg := degrees[r.Intn(len(degrees))]
	U := universeFor(k, deg)
	a := newActor(k, "t", btree.New(deg), &model{}, r, U, deg, 0)
	a.trace = true
	k.Logf("btree.New(%d), keys from [0,%d)", deg, U)
	k.Count("btree_histories", 1)
	a.sweep() // every scan on the empty tree
	nph := 2 + r.Intn(4)
	for ph := 0; ph < nph && !a.failed && a.steps < maxStepsPerHistory; ph++ {
		a.phase()
		a.sweep()
	}
	finishHistory(k, a)
}

func finishHistory(k *engine.Case, a *actor) {
	if a.maxH >= 3 {
		a.count("height_ge3_histories")
	}
	if a.maxH >= 2 {
		a.count("height_ge2_histories")
	}
	k.Count("history_steps", int64(a.steps))
	a.flush()
	if a.maxH >= 2 && a.deletes > 0 && a.nonEmptyScans > 0 {
		k.Nontrivial()
	}
}

// phase runs one fill / drain / churn phase; reads and spot scans are interleaved so
// that scans see intermediate shapes, not only the shape at the end of a phase.
func (a *actor) phase() {
	r := a.r
	interleave := func() {
		if r.Intn(8) == 0 {
			a.readStep()
		}
	}
	budget := maxStepsPerHistory - a.steps
	capN := func(n int) int {
		if n > budget {
			n = budget
		}
		if n < 1 {
			n = 1
		}
		return n
	}
	switch c := r.Intn(10); c {
	case 0: // ascending run of inserts
		start := r.Intn(a.U)
		n := capN(1 + r.Intn(a.U))
		a.note("phase fill-ascending from %d x%d", start, n)
		a.count("phase_fill_ascending")
		for i := 0; i < n && !a.failed && start+i < a.U; i++ {
			a.opInsert(start + i)
			interleave()
		}
	case 1: // descending run of inserts
		start := r.Intn(a.U)
		n := capN(1 + r.Intn(a.U))
		a.note("phase fill-descending from %d x%d", start, n)
		a.count("phase_fill_descending")
		for i := 0; i < n && !a.failed && start-i >= 0; i++ {
			a.opInsert(start - i)
			interleave()
		}
	case 2: // random permutation of (part of) the universe
		perm := r.Perm(a.U)
		n := capN(1 + r.Intn(a.U))
		if r.Intn(2) == 0 {
			n = capN(a.U)
		}
		a.note("phase fill-permutation x%d", n)
		a.count("phase_fill_permutation")
		for i := 0; i < n && !a.failed; i++ {
			a.opInsert(perm[i])
			interleave()
		}
	case 3: // drain from the low end
		n := capN(1 + r.Intn(a.m.len()+1))
		if r.Intn(2) == 0 {
			n = capN(a.m.len() + 1)
		}
		byKey := r.Intn(2) == 0
		a.note("phase drain-low x%d byKey=%v", n, byKey)
		a.count("phase_drain_low")
		for i := 0; i < n && !a.failed; i++ {
			if mn, ok := a.m.min(); ok && byKey {
				a.opDelete(mn.k)
			} else {
				a.opDeleteMin()
			}
			interleave()
		}
	case 4: // drain from the high end
		n := capN(1 + r.Intn(a.m.len()+1))
		if r.Intn(2) == 0 {
			n = capN(a.m.len() + 1)
		}
		byKey := r.Intn(2) == 0
		a.note("phase drain-high x%d byKey=%v", n, byKey)
		a.count("phase_drain_high")
		for i := 0; i < n && !a.failed; i++ {
			if mx, ok := a.m.max(); ok && byKey {
				a.opDelete(mx.k)
			} else {
				a.opDeleteMax()
			}
			interleave()
		}
	case 5: // delete present keys in random order
		n := capN(1 + r.Intn(a.m.len()+1))
		if r.Intn(2) == 0 {
			n = capN(a.m.len())
		}
		a.note("phase drain-random x%d", n)
		a.count("phase_drain_random")
		for i := 0; i < n && !a.failed; i++ {
			if key, ok := a.presentKey(); ok {
				a.opDelete(key)
			} else {
				a.opDelete(r.Intn(a.U))
			}
			interleave()
		}
	case 6: // delete from the middle outwards (steals from both siblings, merges)
		n := capN(1 + r.Intn(a.m.len()+1))
		a.note("phase drain-middle x%d", n)
		a.count("phase_drain_middle")
		for i := 0; i < n && !a.failed && a.m.len() > 0; i++ {
			mid := a.m.len() / 2
			if i%2 == 1 && mid > 0 {
				mid--
			}
			a.opDelete(a.m.s[mid].k)
			interleave()
		}
	default: // churn
		mode := r.Intn(3)
		n := capN(20 + r.Intn(2*a.U+40))
		a.note("phase churn mode=%d x%d", mode, n)
		a.count("phase_churn")
		for i := 0; i < n && !a.failed; i++ {
			a.randomStep(mode)
			if i%32 == 31 {
				a.sweep()
			}
		}
		if r.Intn(12) == 0 && !a.failed {
			a.opClear(r.Intn(2) == 0)
		}
	}
}

// Package c03 monitors the B-tree of ds/tree: equivalence with a sorted set after every
// history, bounded scans from every pivot, structural balance and clone isolation; the
// concurrent kinds drive clones and the locked wrapper under the race detector.
package c03

import (
	"fmt"
	"runtime/debug"
	"sort"
	"strings"

	"verifh/engine"

	"github.com/pinealctx/neptune/ds/tree/btree"
)

// Q is the per-child quiescence detector (used only to tell "blocked for ever" from
// "still running" in the concurrent kinds).
var Q *engine.Quiescer

// Prop is the C03 check.
var Prop = &engine.Prop{
	ID:    "C03",
	Level: "exploration",
	Rule: "one evaluation = one seed-generated history (fill / drain / churn phases over a small key universe, boundary-biased keys and pivots) run in lock step " +
		"against a sorted slice of (key, unique payload): kinds btree (degree 2,3,4,5,8,32; every entry point), wrapper (tree.BTree: Insert/Update/UpdateOrInsert/Delete/Get, " +
		"filtered + limited scans), clone (families of clones written alternately), race-clone (each clone written by its own goroutine, frozen trees read concurrently) and " +
		"race-wrapper (8 goroutines on one locked wrapper, writers own disjoint key sets); after every mutating step the structural walk VerifCheck runs and results are compared; " +
		"pivot sweeps cover every pivot in [min-2, max+2]. A history is non-trivial when the tree reached height >= 2, something was deleted and a pivot scan returned items " +
		"(concurrent kinds: every worker completed its program); distinct = distinct program texts including observed outcomes",
	Assumptions: []string{
		"the sorted-slice model (about 60 lines) is the specification of an ordered set with last-writer-wins items",
		"Item.Less of the test item is a strict total order on the key; payloads do not take part in the order",
		"domain: non-nil items and pivots, non-nil filter, limit n >= 0; range scans are only issued with well-ordered bounds",
		"Update(old,new) with an absent old key leaves the tree unchanged (its doc comment); Update onto an existing new key replaces that key's item",
		"VerifCheck/VerifShape (build tag verif) read the tree without modifying it",
		"the Go race detector reports races only on executed interleavings; a quiescent goroutine snapshot of a timer-free workload is a fixed point",
	},
	ShardsQuick: 8, ShardsThorough: 16,
	Setup: func(c *engine.Ctx) {
		Q = engine.NewQuiescer()
		// a damaged (cyclic) tree makes the recursive walks run away; the trees built here are
		// at most ~10 levels deep, so fail fast at 64 MB of stack instead of the default 1 GB
		debug.SetMaxStack(64 << 20)
	},
	Kinds: []engine.Kind{
		{Name: "btree", Quick: 1600, Thorough: 48000, Fn: btreeCase},
		{Name: "int-keys", Quick: 300, Thorough: 9000, Fn: intKeysCase},
		{Name: "wrapper", Quick: 1300, Thorough: 39000, Fn: wrapperCase},
		{Name: "clone", Quick: 700, Thorough: 21000, Fn: cloneCase},
		{Name: "race-clone", Quick: 200, Thorough: 6000, Repeat: 20, Fn: raceCloneCase},
		{Name: "race-wrapper", Quick: 240, Thorough: 7200, Repeat: 20, Fn: raceWrapperCase},
	},
	Floors: map[string]int64{
		"btree_histories":            200,
		"wrapper_histories":          200,
		"clone_histories":            100,
		"structure_walks":            20000,
		"height_grew":                200,
		"height_shrank":              100,
		"height_ge3_histories":       50,
		"scan_checks:AscendGreater":  2000,
		"scan_checks:DescendLess":    2000,
		"scan_checks:AscendGt":       2000,
		"scan_checks:DescendLt":      2000,
		"pivot_present":              2000,
		"pivot_absent_inside":        2000,
		"pivot_below_min":            500,
		"pivot_above_max":            500,
		"pivot_on_empty_tree":        200,
		"limit_0":                    200,
		"limit_reached":              1000,
		"limit_beyond_len":           200,
		"filter_always_false":        500,
		"iter_stopped_early":         1000,
		"update_moved_onto_existing": 100,
		"update_absent_old":          100,
		"update_or_insert_absent":    100,
		"replace_existing":           500,
		"delete_absent":              200,
		"clone_of_clone":             50,
		"clone_untouched_checked":    5000,
		"race_clone_worker_ops":      5000,
		"race_wrapper_ops":           5000,
		"race_wrapper_owned_scans":   500,
		"race_wrapper_stable_scans":  500,
		"race_wrapper_census":        200,
	},
}

// ---------------------------------------------------------------- item

// it is the stored item: ordered by k only; p is unique per stored item so that
// "the most recently stored item" is observable.
type it struct {
	k int
	p uint32
}

func (a it) Less(b btree.Item) bool { return a.k < b.(it).k }

func (a it) String() string { return fmt.Sprintf("%d#%x", a.k, a.p) }

func fmtItems(s []it) string {
	var sb strings.Builder
	sb.WriteByte('[')
	for i, x := range s {
		if i > 0 {
			sb.WriteByte(' ')
		}
		if i >= 24 {
			fmt.Fprintf(&sb, "... %d more", len(s)-i)
			break
		}
		sb.WriteString(x.String())
	}
	sb.WriteByte(']')
	return sb.String()
}

func sameItems(a, b []it) bool {
	if len(a) != len(b) {
		return false
	}
	for i := range a {
		if a[i] != b[i] {
			return false
		}
	}
	return true
}

// asIt converts a returned btree.Item; ok=false means nil.
func asIt(x btree.Item) (v it, ok bool, foreign bool) {
	if x == nil {
		return it{}, false, false
	}
	v, isIt := x.(it)
	if !isIt {
		return it{}, false, true
	}
	return v, true, false
}

func fmtOpt(v it, ok bool) string {
	if !ok {
		return "nil"
	}
	return v.String()
}

// ---------------------------------------------------------------- model

// model is the specification: a slice sorted by key, one item per key.
type model struct{ s []it }

func (m *model) idx(k int) (int, bool) {
	i := sort.Search(len(m.s), func(i int) bool { return m.s[i].k >= k })
	return i, i < len(m.s) && m.s[i].k == k
}

func (m *model) get(k int) (it, bool) {
	if i, ok := m.idx(k); ok {
		return m.s[i], true
	}
	return it{}, false
}

func (m *model) put(x it) (old it, had bool) {
	i, ok := m.idx(x.k)
	if ok {
		old = m.s[i]
		m.s[i] = x
		return old, true
	}
	m.s = append(m.s, it{})
	copy(m.s[i+1:], m.s[i:])
	m.s[i] = x
	return it{}, false
}

func (m *model) del(k int) (old it, had bool) {
	i, ok := m.idx(k)
	if !ok {
		return it{}, false
	}
	old = m.s[i]
	m.s = append(m.s[:i], m.s[i+1:]...)
	return old, true
}

func (m *model) clone() *model { return &model{s: append([]it(nil), m.s...)} }

func (m *model) len() int { return len(m.s) }

func (m *model) min() (it, bool) {
	if len(m.s) == 0 {
		return it{}, false
	}
	return m.s[0], true
}

func (m *model) max() (it, bool) {
	if len(m.s) == 0 {
		return it{}, false
	}
	return m.s[len(m.s)-1], true
}

// scan lists, in scan order, the items an ordered set delivers for a scan in direction
// dir (+1/-1) from start (inclusive or not; hasStart=false: from the end of the set)
// up to but excluding stop (hasStop=false: to the other end).
func (m *model) scan(dir int, hasStart bool, start int, incl bool, hasStop bool, stop int) []it {
	var out []it
	if dir > 0 {
		for _, x := range m.s {
			if hasStart && (x.k < start || (!incl && x.k == start)) {
				continue
			}
			if hasStop && x.k >= stop {
				break
			}
			out = append(out, x)
		}
		return out
	}
	for i := len(m.s) - 1; i >= 0; i-- {
		x := m.s[i]
		if hasStart && (x.k > start || (!incl && x.k == start)) {
			continue
		}
		if hasStop && x.k <= stop {
			break
		}
		out = append(out, x)
	}
	return out
}

// firstN applies filter and limit to a scan-ordered candidate list.
func firstN(cand []it, f func(it) bool, n int) []it {
	var out []it
	for _, x := range cand {
		if len(out) >= n {
			break
		}
		if f(x) {
			out = append(out, x)
		}
	}
	return out
}

// ---------------------------------------------------------------- recent-op ring

// ring keeps the most recent operations of one actor (witness text for failures raised
// from worker goroutines, where the case trace only holds the program).
type ring struct {
	buf []string
	n   int
}

func (r *ring) add(s string) {
	if len(r.buf) < 24 {
		r.buf = append(r.buf, s)
	} else {
		r.buf[r.n%24] = s
	}
	r.n++
}

func (r *ring) String() string {
	if len(r.buf) < 24 {
		return strings.Join(r.buf, "; ")
	}
	var out []string
	for i := 0; i < 24; i++ {
		out = append(out, r.buf[(r.n+i)%24])
	}
	return strings.Join(out, "; ")
}

package c03

import (
	"math"
	"sort"

	"verifh/engine"

	"github.com/pinealctx/neptune/ds/tree/btree"
)

// intKeysCase: the ready-made btree.Int item type over the whole range of int (keys more than
// MaxInt apart, both ends of the range): the tree must be the sorted set of the keys, scans
// ascending / descending, Min / Max / Has / Delete as a sorted set answers.
func intKeysCase(k *engine.Case) {
	r := k.R
	t := btree.New(2 + r.Intn(6))
	set := map[int]bool{}
	edge := []int{math.MinInt, math.MinInt + 1, math.MaxInt, math.MaxInt - 1, 0, -1, 1, math.MinInt / 2, math.MaxInt / 2, math.MinInt/2 - 1, math.MaxInt/2 + 1}
	draw := func() int {
		switch r.Intn(4) {
		case 0:
			return edge[r.Intn(len(edge))]
		case 1:
			return int(r.Uint64()) // anywhere
		}
		return r.Intn(2000) - 1000
	}
	n := 20 + r.Intn(200)
	k.Nontrivial()
	for i := 0; i < n; i++ {
		x := draw()
		if r.Intn(4) == 0 {
			got := t.Delete(btree.Int(x))
			if (got != nil) != set[x] {
				k.Fail("content", "btree.Int tree: Delete(%d) returned %v, the key was present: %v", x, got, set[x])
				return
			}
			delete(set, x)
		} else {
			got := t.ReplaceOrInsert(btree.Int(x))
			if (got != nil) != set[x] {
				k.Fail("content", "btree.Int tree: ReplaceOrInsert(%d) returned %v, the key was present: %v", x, got, set[x])
				return
			}
			set[x] = true
		}
		if y := draw(); t.Has(btree.Int(y)) != set[y] {
			k.Fail("content", "btree.Int tree: Has(%d) = %v, the sorted set says %v", y, !set[y], set[y])
			return
		}
	}
	want := make([]int, 0, len(set))
	for x := range set {
		want = append(want, x)
	}
	sort.Ints(want)
	var asc, desc []int
	t.Ascend(func(i btree.Item) bool { asc = append(asc, int(i.(btree.Int))); return true })
	t.Descend(func(i btree.Item) bool { desc = append(desc, int(i.(btree.Int))); return true })
	k.Evals(int64(n))
	k.Count("int_key_trees", 1)
	k.Logf("btree.Int tree of %d keys, smallest %v largest %v", len(want), first(want), last(want))
	if t.Len() != len(want) {
		k.Fail("content", "btree.Int tree: Len() = %d, the sorted set holds %d keys", t.Len(), len(want))
		return
	}
	if len(asc) != len(want) || len(desc) != len(want) {
		k.Fail("scan", "btree.Int tree of %d keys: ascending scan returned %d, descending %d", len(want), len(asc), len(desc))
		return
	}
	for i := range want {
		if asc[i] != want[i] || desc[len(want)-1-i] != want[i] {
			k.Fail("scan", "btree.Int tree: scans are not the sorted set; position %d of %d: ascending %d, descending (mirrored) %d, sorted set %d", i, len(want), asc[i], desc[len(want)-1-i], want[i])
			return
		}
	}
	if len(want) > 0 {
		if mn, mx := t.Min(), t.Max(); mn == nil || mx == nil || int(mn.(btree.Int)) != want[0] || int(mx.(btree.Int)) != want[len(want)-1] {
			k.Fail("content", "btree.Int tree: Min/Max = %v/%v, sorted set %d/%d", mn, mx, want[0], want[len(want)-1])
			return
		}
	}
	if err := t.VerifCheck(); err != nil {
		k.Fail("structure", "btree.Int tree: %v", err)
	}
}

func first(a []int) any {
	if len(a) == 0 {
		return "-"
	}
	return a[0]
}

func last(a []int) any {
	if len(a) == 0 {
		return "-"
	}
	return a[len(a)-1]
}

package c03

import (
	"fmt"
	"math/rand"

	"verifh/engine"

	"github.com/pinealctx/neptune/ds/tree/btree"
)

// actor drives one btree.BTree in lock step with its model. An actor is used by one
// goroutine only; several read-only actors may share a frozen tree and its model.
type actor struct {
	k     *engine.Case
	name  string
	t     *btree.BTree
	m     *model
	r     *rand.Rand
	U     int // keys are drawn from [0,U)
	deg   int
	owner uint32
	seq   uint32
	trace bool // every operation goes to the case trace (single-goroutine kinds)
	ro    bool // read-only actor (frozen tree)
	rec   ring
	cnt   map[string]int64

	failed        bool
	steps         int
	prevH, prevR  int
	maxH          int
	deletes       int
	nonEmptyScans int
	lastKey       int
	depth         int // clone generation
}

func newActor(k *engine.Case, name string, t *btree.BTree, m *model, r *rand.Rand, U, deg int, owner uint32) *actor {
	return &actor{k: k, name: name, t: t, m: m, r: r, U: U, deg: deg, owner: owner, cnt: map[string]int64{}}
}

func (a *actor) count(name string) { a.cnt[name]++ }

// flush moves the actor's local counters into the merged coverage counters.
func (a *actor) flush() {
	for n, v := range a.cnt {
		a.k.Count(n, v)
	}
	a.cnt = map[string]int64{}
	a.k.C.Max("tree_height", int64(a.maxH))
}

func (a *actor) note(format string, args ...any) {
	s := fmt.Sprintf(format, args...)
	a.rec.add(s)
	if a.trace {
		a.k.Logf("%s: %s", a.name, s)
	}
}

func (a *actor) fail(class, format string, args ...any) {
	a.failed = true
	a.k.Fail(class, "%s (degree %d): %s | recent ops: %s", a.name, a.deg, fmt.Sprintf(format, args...), a.rec.String())
}

func (a *actor) newItem(key int) it {
	a.seq++
	return it{k: key, p: a.owner<<24 | a.seq&0xffffff}
}

// probe is a key-only item: its payload never matches a stored one, so a result that
// hands the probe back instead of the stored item is detected.
func probe(key int) it { return it{k: key, p: 0xffffffff} }

// conv converts a returned item and fails on a foreign dynamic type.
func (a *actor) conv(op string, x btree.Item) (it, bool) {
	v, ok, foreign := asIt(x)
	if foreign {
		a.fail("retval:"+op, "%s returned an item of foreign type %T", op, x)
	}
	return v, ok
}

// ---------------------------------------------------------------- key choice

func (a *actor) bounds() (lo, hi int) {
	if mn, ok := a.m.min(); ok {
		mx, _ := a.m.max()
		return mn.k, mx.k
	}
	return 0, a.U - 1
}

func (a *actor) presentKey() (int, bool) {
	if a.m.len() == 0 {
		return 0, false
	}
	return a.m.s[a.r.Intn(a.m.len())].k, true
}

func (a *actor) clampKey(k int) int {
	if k < 0 {
		return 0
	}
	if k >= a.U {
		return a.U - 1
	}
	return k
}

// insertKey: mostly uniform, sometimes an existing key (replace), the neighbourhood of
// the last touched key (same leaf) or just outside the current extremes.
func (a *actor) insertKey() int {
	c := a.r.Intn(100)
	switch {
	case c < 60:
		return a.r.Intn(a.U)
	case c < 72:
		if k, ok := a.presentKey(); ok {
			return k
		}
		return a.r.Intn(a.U)
	case c < 88:
		return a.clampKey(a.lastKey + a.r.Intn(5) - 2)
	default:
		lo, hi := a.bounds()
		if a.r.Intn(2) == 0 {
			return a.clampKey(lo - 1 - a.r.Intn(2))
		}
		return a.clampKey(hi + 1 + a.r.Intn(2))
	}
}

// deleteKey: mostly a present key, sometimes near the last touched key, sometimes any.
func (a *actor) deleteKey() int {
	c := a.r.Intn(100)
	switch {
	case c < 60:
		if k, ok := a.presentKey(); ok {
			return k
		}
		return a.r.Intn(a.U)
	case c < 80:
		return a.clampKey(a.lastKey + a.r.Intn(5) - 2)
	default:
		return a.r.Intn(a.U)
	}
}

// pivot draws a scan pivot from [min-2, max+2] with the boundary bias of the design.
func (a *actor) pivot() int {
	lo, hi := a.bounds()
	c := a.r.Intn(100)
	switch {
	case c < 30:
		if k, ok := a.presentKey(); ok {
			return k
		}
		return lo + a.r.Intn(hi-lo+1)
	case c < 50:
		for i := 0; i < 6; i++ {
			p := lo + a.r.Intn(hi-lo+1)
			if _, ok := a.m.get(p); !ok {
				return p
			}
		}
		return lo - 1
	case c < 60:
		return lo - 1 - a.r.Intn(2)
	case c < 70:
		return hi + 1 + a.r.Intn(2)
	case c < 76:
		return lo
	case c < 82:
		return hi
	default:
		return lo - 2 + a.r.Intn(hi-lo+5)
	}
}

func (a *actor) classifyPivot(p int) {
	if a.m.len() == 0 {
		a.count("pivot_on_empty_tree")
		return
	}
	lo, hi := a.bounds()
	switch {
	case p < lo:
		a.count("pivot_below_min")
	case p > hi:
		a.count("pivot_above_max")
	default:
		if _, ok := a.m.get(p); ok {
			a.count("pivot_present")
			if p == lo || p == hi {
				a.count("pivot_is_extreme_key")
			}
		} else {
			a.count("pivot_absent_inside")
		}
	}
}

// ---------------------------------------------------------------- mutating steps

func (a *actor) afterWrite() {
	a.steps++
	a.count("structure_walks")
	if err := a.t.VerifCheck(); err != nil {
		a.fail("structure", "VerifCheck after step %d: %v", a.steps, err)
		return
	}
	if n := a.t.Len(); n != a.m.len() {
		a.fail("len", "Len()=%d, sorted set holds %d", n, a.m.len())
		return
	}
	a.shape()
}

// pow returns b^e, saturating far above any item count used here.
func pow(b, e int) int {
	r := 1
	for i := 0; i < e && r < 1<<40; i++ {
		r *= b
	}
	return r
}

// shape records the (height, root fan-out) shape and checks the consequences of the
// balance clause that can be computed from the degree the harness asked for (VerifCheck
// itself takes the bounds from the tree's own maxItems/minItems): the root holds at most
// 2d-1 items, and a tree of height h whose nodes respect the bounds and whose leaves are
// all at depth h holds between 2*d^(h-1)-1 and (2d)^h-1 items.
func (a *actor) shape() {
	h, ri := a.t.VerifShape()
	n, d := a.m.len(), a.deg
	switch {
	case ri > 2*d-1:
		a.fail("structure", "root holds %d items, more than 2*%d-1", ri, d)
	case h >= 2 && ri < 1:
		a.fail("structure", "root of a tree of height %d holds no item", h)
	case h == 0 && n != 0:
		a.fail("structure", "no root but %d items", n)
	case h >= 1 && n > pow(2*d, h)-1:
		a.fail("structure", "%d items cannot fit a tree of height %d and degree %d (at most %d)", n, h, d, pow(2*d, h)-1)
	case h >= 2 && n < 2*pow(d, h-1)-1:
		a.fail("structure", "height %d with only %d items: some node is below degree-1 items (degree %d needs at least %d)", h, n, d, 2*pow(d, h-1)-1)
	}
	if a.failed {
		return
	}
	a.count("shape_bound_checks")
	if h == a.prevH && ri == a.prevR {
		return
	}
	if h > a.prevH && a.prevH >= 1 {
		a.count("height_grew") // the root was split
	} else if h < a.prevH && h >= 1 {
		a.count("height_shrank") // the root's last two children were merged
	}
	a.prevH, a.prevR = h, ri
	if h > a.maxH {
		a.maxH = h
	}
	f := ri + 1
	if h <= 1 {
		a.count(fmt.Sprintf("shape_h%d_leafroot", h))
	} else if f <= 8 {
		a.count(fmt.Sprintf("shape_h%d_fanout%d", h, f))
	} else {
		a.count(fmt.Sprintf("shape_h%d_fanout9plus", h))
	}
}

func (a *actor) opInsert(key int) {
	x := a.newItem(key)
	wantOld, had := a.m.put(x)
	got, gotOk := a.conv("ReplaceOrInsert", a.t.ReplaceOrInsert(x))
	a.lastKey = key
	a.note("ReplaceOrInsert(%v) -> %s", x, fmtOpt(got, gotOk))
	if had {
		a.count("replace_existing")
	} else {
		a.count("insert_new")
	}
	if gotOk != had || got != wantOld {
		a.fail("retval:ReplaceOrInsert", "ReplaceOrInsert(%v) returned %s, sorted set had %s", x, fmtOpt(got, gotOk), fmtOpt(wantOld, had))
		return
	}
	a.afterWrite()
}

func (a *actor) opDelete(key int) {
	wantOld, had := a.m.del(key)
	got, gotOk := a.conv("Delete", a.t.Delete(probe(key)))
	a.lastKey = key
	a.note("Delete(%d) -> %s", key, fmtOpt(got, gotOk))
	if had {
		a.count("delete_present")
		a.deletes++
	} else {
		a.count("delete_absent")
	}
	if gotOk != had || got != wantOld {
		a.fail("retval:Delete", "Delete(%d) returned %s, sorted set had %s", key, fmtOpt(got, gotOk), fmtOpt(wantOld, had))
		return
	}
	a.afterWrite()
}

func (a *actor) opDeleteMin() {
	want, had := a.m.min()
	if had {
		a.m.del(want.k)
		a.deletes++
		a.lastKey = want.k
	} else {
		a.count("delete_extreme_on_empty")
	}
	got, gotOk := a.conv("DeleteMin", a.t.DeleteMin())
	a.note("DeleteMin() -> %s", fmtOpt(got, gotOk))
	a.count("delete_min")
	if gotOk != had || got != want {
		a.fail("retval:DeleteMin", "DeleteMin() returned %s, sorted set minimum was %s", fmtOpt(got, gotOk), fmtOpt(want, had))
		return
	}
	a.afterWrite()
}

func (a *actor) opDeleteMax() {
	want, had := a.m.max()
	if had {
		a.m.del(want.k)
		a.deletes++
		a.lastKey = want.k
	} else {
		a.count("delete_extreme_on_empty")
	}
	got, gotOk := a.conv("DeleteMax", a.t.DeleteMax())
	a.note("DeleteMax() -> %s", fmtOpt(got, gotOk))
	a.count("delete_max")
	if gotOk != had || got != want {
		a.fail("retval:DeleteMax", "DeleteMax() returned %s, sorted set maximum was %s", fmtOpt(got, gotOk), fmtOpt(want, had))
		return
	}
	a.afterWrite()
}

func (a *actor) opClear(toFreelist bool) {
	a.m.s = nil
	a.t.Clear(toFreelist)
	a.note("Clear(%v)", toFreelist)
	a.count("clear")
	a.afterWrite()
}

// ---------------------------------------------------------------- reads

func (a *actor) opGet(key int) {
	want, had := a.m.get(key)
	got, gotOk := a.conv("Get", a.t.Get(probe(key)))
	a.note("Get(%d) -> %s", key, fmtOpt(got, gotOk))
	a.count("get")
	if gotOk != had || got != want {
		a.fail("retval:Get", "Get(%d) returned %s, sorted set holds %s", key, fmtOpt(got, gotOk), fmtOpt(want, had))
	}
	if has := a.t.Has(probe(key)); has != had {
		a.fail("retval:Has", "Has(%d)=%v, sorted set: %v", key, has, had)
	}
}

func (a *actor) opMinMaxLen() {
	wmin, hmin := a.m.min()
	wmax, hmax := a.m.max()
	gmin, okmin := a.conv("Min", a.t.Min())
	gmax, okmax := a.conv("Max", a.t.Max())
	n := a.t.Len()
	a.note("Min/Max/Len -> %s %s %d", fmtOpt(gmin, okmin), fmtOpt(gmax, okmax), n)
	a.count("min_max_len")
	if okmin != hmin || gmin != wmin {
		a.fail("retval:Min", "Min() returned %s, sorted set minimum %s", fmtOpt(gmin, okmin), fmtOpt(wmin, hmin))
	}
	if okmax != hmax || gmax != wmax {
		a.fail("retval:Max", "Max() returned %s, sorted set maximum %s", fmtOpt(gmax, okmax), fmtOpt(wmax, hmax))
	}
	if n != a.m.len() {
		a.fail("len", "Len()=%d, sorted set holds %d", n, a.m.len())
	}
}

// ---------------------------------------------------------------- scans

const (
	sAscend = iota
	sAscendRange
	sAscendLessThan
	sAscendGE
	sAscendGT
	sDescend
	sDescendRange
	sDescendLE
	sDescendGreaterThan
	sDescendLT
)

var scanNames = [...]string{"Ascend", "AscendRange", "AscendLessThan", "AscendGreaterOrEqual", "AscendGreater",
	"Descend", "DescendRange", "DescendLessOrEqual", "DescendGreaterThan", "DescendLess"}

// wantScan is the sorted-set answer for scan typ with arguments (x, y).
func (a *actor) wantScan(typ, x, y int) []it {
	switch typ {
	case sAscend:
		return a.m.scan(+1, false, 0, false, false, 0)
	case sAscendRange:
		return a.m.scan(+1, true, x, true, true, y)
	case sAscendLessThan:
		return a.m.scan(+1, false, 0, false, true, x)
	case sAscendGE:
		return a.m.scan(+1, true, x, true, false, 0)
	case sAscendGT:
		return a.m.scan(+1, true, x, false, false, 0)
	case sDescend:
		return a.m.scan(-1, false, 0, false, false, 0)
	case sDescendRange:
		return a.m.scan(-1, true, x, true, true, y)
	case sDescendLE:
		return a.m.scan(-1, true, x, true, false, 0)
	case sDescendGreaterThan:
		return a.m.scan(-1, false, 0, false, true, x)
	default:
		return a.m.scan(-1, true, x, false, false, 0)
	}
}

// checkScan runs scan typ and compares with the model. stopAfter > 0 makes the iterator
// return false on its stopAfter-th call (the package's way of expressing a limit);
// stopAfter == 0 never stops.
func (a *actor) checkScan(typ, x, y, stopAfter int, quiet bool) {
	var got []it
	stopped := false
	extra := 0
	iter := func(v btree.Item) bool {
		if stopped {
			extra++
			return false
		}
		got = append(got, v.(it))
		if stopAfter > 0 && len(got) >= stopAfter {
			stopped = true
			return false
		}
		return true
	}
	switch typ {
	case sAscend:
		a.t.Ascend(iter)
	case sAscendRange:
		a.t.AscendRange(probe(x), probe(y), iter)
	case sAscendLessThan:
		a.t.AscendLessThan(probe(x), iter)
	case sAscendGE:
		a.t.AscendGreaterOrEqual(probe(x), iter)
	case sAscendGT:
		a.t.AscendGreater(probe(x), iter)
	case sDescend:
		a.t.Descend(iter)
	case sDescendRange:
		a.t.DescendRange(probe(x), probe(y), iter)
	case sDescendLE:
		a.t.DescendLessOrEqual(probe(x), iter)
	case sDescendGreaterThan:
		a.t.DescendGreaterThan(probe(x), iter)
	default:
		a.t.DescendLess(probe(x), iter)
	}
	name := scanNames[typ]
	want := a.wantScan(typ, x, y)
	if stopAfter > 0 {
		if len(want) >= stopAfter {
			want = want[:stopAfter]
			a.count("iter_stopped_early")
		} else {
			a.count("iter_stop_beyond_end")
		}
	}
	a.count("scan_checks:" + name)
	if typ != sAscend && typ != sDescend {
		a.classifyPivot(x)
	}
	if len(want) > 0 {
		a.nonEmptyScans++
	} else {
		a.count("scan_expected_empty")
	}
	if !quiet {
		a.note("%s(%d,%d stop=%d) -> %s", name, x, y, stopAfter, fmtItems(got))
	}
	if !sameItems(got, want) {
		if quiet {
			a.note("%s(%d,%d stop=%d) -> %s", name, x, y, stopAfter, fmtItems(got))
		}
		a.fail("scan:"+name, "%s(pivot=%d, bound=%d, stop after %d) delivered %s, sorted set gives %s (set=%s)",
			name, x, y, stopAfter, fmtItems(got), fmtItems(want), fmtItems(a.m.s))
		return
	}
	if extra > 0 {
		a.fail("iter-after-stop:"+name, "%s(pivot=%d) called the iterator %d more time(s) after it returned false", name, x, extra)
	}
}

func (a *actor) stopChoice(wantLen int) int {
	switch a.r.Intn(5) {
	case 0:
		return 0
	case 1:
		return 1
	case 2:
		return 2
	case 3:
		if wantLen > 0 {
			return wantLen
		}
		return 1
	default:
		return wantLen + 3
	}
}

// spotScan checks one randomly chosen scan.
func (a *actor) spotScan() {
	var typ int
	if a.r.Intn(100) < 60 {
		typ = []int{sAscendGT, sDescendLT, sAscendGE, sDescendLE}[a.r.Intn(4)]
	} else {
		typ = a.r.Intn(10)
	}
	x := a.pivot()
	y := 0
	switch typ {
	case sAscendRange:
		y = a.pivot()
		if y < x {
			x, y = y, x
		}
	case sDescendRange:
		y = a.pivot()
		if y > x {
			x, y = y, x
		}
	}
	stop := a.stopChoice(len(a.wantScan(typ, x, y)))
	a.checkScan(typ, x, y, stop, false)
}

// fullCompare reads the whole tree through Ascend and compares it with the model.
func (a *actor) fullCompare(class string) bool {
	var got []it
	a.t.Ascend(func(v btree.Item) bool { got = append(got, v.(it)); return true })
	if !sameItems(got, a.m.s) {
		a.fail(class, "tree holds %s, its sorted set holds %s", fmtItems(got), fmtItems(a.m.s))
		return false
	}
	if n := a.t.Len(); n != a.m.len() {
		a.fail("len", "Len()=%d, sorted set holds %d", n, a.m.len())
		return false
	}
	return true
}

// sweep checks every pivot in [min-2, max+2] (a sample of at most ~70 when the key
// span is larger) for all pivot scans, plus ranges, whole scans and point reads.
func (a *actor) sweep() {
	if a.failed {
		return
	}
	a.count("pivot_sweeps")
	if a.m.len() == 0 {
		a.count("sweeps_on_empty_tree")
	}
	if !a.fullCompare("content") {
		return
	}
	lo, hi := a.bounds()
	if a.m.len() == 0 {
		lo, hi = 0, 3
	}
	var pivots []int
	if hi-lo+5 <= 72 {
		for p := lo - 2; p <= hi+2; p++ {
			pivots = append(pivots, p)
		}
	} else {
		for d := -2; d <= 2; d++ {
			pivots = append(pivots, lo+d, hi+d)
		}
		for i := 0; i < 60; i++ {
			pivots = append(pivots, lo+a.r.Intn(hi-lo+1))
		}
	}
	for _, p := range pivots {
		for _, typ := range []int{sAscendGE, sAscendGT, sDescendLE, sDescendLT, sAscendLessThan, sDescendGreaterThan} {
			a.checkScan(typ, p, 0, 0, true)
			if a.failed {
				return
			}
			if a.r.Intn(3) == 0 {
				st := a.stopChoice(len(a.wantScan(typ, p, 0)))
				if st > 0 {
					a.checkScan(typ, p, 0, st, true)
					if a.failed {
						return
					}
				}
			}
		}
	}
	for i := 0; i < 6; i++ {
		x, y := a.pivot(), a.pivot()
		if x > y {
			x, y = y, x
		}
		a.checkScan(sAscendRange, x, y, 0, true)
		a.checkScan(sDescendRange, y, x, 0, true)
		if a.failed {
			return
		}
	}
	a.checkScan(sAscend, 0, 0, a.stopChoice(a.m.len()), true)
	a.checkScan(sDescend, 0, 0, a.stopChoice(a.m.len()), true)
	if a.failed {
		return
	}
	// point reads over the whole universe and just outside
	for key := -1; key <= a.U; key++ {
		want, had := a.m.get(key)
		got, gotOk := a.conv("Get", a.t.Get(probe(key)))
		if gotOk != had || got != want {
			a.note("Get(%d) -> %s", key, fmtOpt(got, gotOk))
			a.fail("retval:Get", "Get(%d) returned %s, sorted set holds %s", key, fmtOpt(got, gotOk), fmtOpt(want, had))
			return
		}
	}
	a.count("get_sweep_keys")
	a.opMinMaxLen()
	a.note("sweep: %d pivots ok, len=%d height=%d", len(pivots), a.m.len(), a.prevH)
}

// ---------------------------------------------------------------- step mix

const (
	modeGrow = iota
	modeShrink
	modeEven
)

// randomStep performs one operation chosen for the given mode.
func (a *actor) randomStep(mode int) {
	if a.failed {
		return
	}
	if a.ro {
		a.readStep()
		return
	}
	var wIns, wDel, wExt int
	switch mode {
	case modeGrow:
		wIns, wDel, wExt = 66, 10, 4
	case modeShrink:
		wIns, wDel, wExt = 10, 58, 12
	default:
		wIns, wDel, wExt = 38, 36, 6
	}
	c := a.r.Intn(100)
	switch {
	case c < wIns:
		a.opInsert(a.insertKey())
	case c < wIns+wDel:
		a.opDelete(a.deleteKey())
	case c < wIns+wDel+wExt:
		if a.r.Intn(2) == 0 {
			a.opDeleteMin()
		} else {
			a.opDeleteMax()
		}
	default:
		a.readStep()
	}
}

func (a *actor) readStep() {
	switch c := a.r.Intn(10); {
	case c < 2:
		a.opGet(a.pivot())
	case c < 3:
		a.opMinMaxLen()
	default:
		a.spotScan()
	}
}

package c03

import (
	"verifh/engine"

	"github.com/pinealctx/neptune/ds/tree"
)

// ---------------------------------------------------------------- filters, limits, scans of the wrapper

var filterNames = [...]string{"always-true", "even-key", "always-false", "odd-payload", "key%3==0"}

func filterOf(id int) func(it) bool {
	switch id {
	case 0:
		return func(it) bool { return true }
	case 1:
		return func(x it) bool { return x.k%2 == 0 }
	case 2:
		return func(it) bool { return false }
	case 3:
		return func(x it) bool { return x.p%2 == 1 }
	default:
		return func(x it) bool { return ((x.k%3)+3)%3 == 0 }
	}
}

const (
	wAscGte = iota
	wAscGt
	wDescLte
	wDescLt
)

var wScanNames = [...]string{"AscendGte", "AscendGt", "DescendLte", "DescendLt"}

// wScanCall issues wrapper scan typ; the filter sees the stored item.
func wScanCall(w *tree.BTree, typ, pivot int, f func(it) bool, n int) (out []it, foreign bool) {
	ff := func(x tree.Node) bool { return f(x.(it)) }
	var res []tree.Node
	switch typ {
	case wAscGte:
		res = w.AscendGte(probe(pivot), ff, n)
	case wAscGt:
		res = w.AscendGt(probe(pivot), ff, n)
	case wDescLte:
		res = w.DescendLte(probe(pivot), ff, n)
	default:
		res = w.DescendLt(probe(pivot), ff, n)
	}
	for _, x := range res {
		v, ok := x.(it)
		if !ok {
			return out, true
		}
		out = append(out, v)
	}
	return out, false
}

// wScanCandidates is the scan-ordered candidate list of the sorted set.
func wScanCandidates(m *model, typ, pivot int) []it {
	switch typ {
	case wAscGte:
		return m.scan(+1, true, pivot, true, false, 0)
	case wAscGt:
		return m.scan(+1, true, pivot, false, false, 0)
	case wDescLte:
		return m.scan(-1, true, pivot, true, false, 0)
	default:
		return m.scan(-1, true, pivot, false, false, 0)
	}
}

// ---------------------------------------------------------------- lock-step actor for the wrapper

type wactor struct {
	*actor
	w *tree.BTree
}

func (a *wactor) limitChoice() int {
	switch a.r.Intn(6) {
	case 0:
		return 0
	case 1:
		return 1
	case 2:
		return 2
	case 3:
		return a.m.len()
	case 4:
		// around sizes an implementation might pre-allocate or cap at
		return []int{15, 16, 17, 63, 64, 65, 127, 128, 129, 255, 256, 257, 511, 512, 513, 1000, 1025, 5000}[a.r.Intn(18)]
	default:
		return a.m.len() + 3
	}
}

func (a *wactor) wCheckScan(typ, pivot, fid, n int, quiet bool) {
	got, foreign := wScanCall(a.w, typ, pivot, filterOf(fid), n)
	name := wScanNames[typ]
	if foreign {
		a.fail("scan:"+name, "%s returned a node of foreign type", name)
		return
	}
	cand := wScanCandidates(a.m, typ, pivot)
	want := firstN(cand, filterOf(fid), n)
	a.count("scan_checks:" + name)
	a.classifyPivot(pivot)
	switch {
	case n == 0:
		a.count("limit_0")
	case len(want) == n:
		a.count("limit_reached")
	}
	if n > a.m.len() {
		a.count("limit_beyond_len")
	}
	switch fid {
	case 2:
		a.count("filter_always_false")
	case 0:
		a.count("filter_always_true")
	default:
		a.count("filter_selective")
	}
	if len(want) > 0 {
		a.nonEmptyScans++
	} else {
		a.count("scan_expected_empty")
	}
	if !quiet {
		a.note("%s(%d, %s, n=%d) -> %s", name, pivot, filterNames[fid], n, fmtItems(got))
	}
	if !sameItems(got, want) {
		if quiet {
			a.note("%s(%d, %s, n=%d) -> %s", name, pivot, filterNames[fid], n, fmtItems(got))
		}
		a.fail("scan:"+name, "%s(pivot=%d, filter=%s, n=%d) returned %s, the first n matching items of the sorted set are %s (set=%s)",
			name, pivot, filterNames[fid], n, fmtItems(got), fmtItems(want), fmtItems(a.m.s))
	}
}

func (a *wactor) wSpotScan() {
	a.wCheckScan(a.r.Intn(4), a.pivot(), a.r.Intn(len(filterNames)), a.limitChoice(), false)
}

func (a *wactor) wAfterWrite() {
	a.steps++
	a.count("structure_walks")
	if err := a.w.VerifCheck(); err != nil {
		a.fail("structure", "VerifCheck after step %d: %v", a.steps, err)
		return
	}
	if n := a.t.Len(); n != a.m.len() {
		a.fail("len", "length %d, sorted set holds %d", n, a.m.len())
		return
	}
	a.shape()
}

func (a *wactor) wGet(key int) {
	want, had := a.m.get(key)
	got, gotOk := a.conv("Get", a.w.Get(probe(key)))
	a.note("Get(%d) -> %s", key, fmtOpt(got, gotOk))
	a.count("get")
	if gotOk != had || got != want {
		a.fail("retval:Get", "Get(%d) returned %s, sorted set holds %s", key, fmtOpt(got, gotOk), fmtOpt(want, had))
	}
}

func (a *wactor) wInsert(key int) {
	x := a.newItem(key)
	_, had := a.m.put(x)
	a.w.Insert(x)
	a.lastKey = key
	a.note("Insert(%v)", x)
	if had {
		a.count("replace_existing")
	} else {
		a.count("insert_new")
	}
	a.wAfterWrite()
	if a.failed {
		return
	}
	got, gotOk := a.conv("Get", a.w.Get(probe(key)))
	if !gotOk || got != x {
		a.fail("retval:Get", "Get(%d) right after Insert(%v) returned %s", key, x, fmtOpt(got, gotOk))
	}
}

func (a *wactor) wDelete(key int) {
	_, had := a.m.del(key)
	got := a.w.Delete(probe(key))
	a.lastKey = key
	a.note("Delete(%d) -> %v", key, got)
	if had {
		a.count("delete_present")
		a.deletes++
	} else {
		a.count("delete_absent")
	}
	if got != had {
		a.fail("retval:Delete", "Delete(%d) returned %v, the sorted set contained the key: %v", key, got, had)
		return
	}
	a.wAfterWrite()
}

func (a *wactor) wUpdate(oldKey, newKey int, orInsert bool) {
	x := a.newItem(newKey)
	_, hadOld := a.m.get(oldKey)
	_, hadNew := a.m.get(newKey)
	op := "Update"
	if orInsert {
		op = "UpdateOrInsert"
	}
	var got bool
	if orInsert {
		got = a.w.UpdateOrInsert(probe(oldKey), x)
	} else {
		got = a.w.Update(probe(oldKey), x)
	}
	if hadOld {
		a.m.del(oldKey)
		a.m.put(x)
		a.deletes++
		switch {
		case oldKey == newKey:
			a.count("update_same_key")
		case hadNew:
			a.count("update_moved_onto_existing")
		default:
			a.count("update_moved_to_free_key")
		}
	} else if orInsert {
		a.m.put(x)
		a.count("update_or_insert_absent")
		if hadNew {
			a.count("update_or_insert_absent_replaced")
		}
	} else {
		a.count("update_absent_old")
	}
	a.lastKey = newKey
	a.note("%s(%d -> %v) -> %v", op, oldKey, x, got)
	if got != hadOld {
		a.fail("retval:"+op, "%s(old=%d, new=%v) returned %v, the sorted set contained the old key: %v", op, oldKey, x, got, hadOld)
		return
	}
	a.wAfterWrite()
	if a.failed {
		return
	}
	// the two keys involved, read back
	for _, key := range []int{oldKey, newKey} {
		want, had := a.m.get(key)
		g, ok := a.conv("Get", a.w.Get(probe(key)))
		if ok != had || g != want {
			a.fail("retval:Get", "Get(%d) right after %s(old=%d, new=%v) returned %s, sorted set holds %s", key, op, oldKey, x, fmtOpt(g, ok), fmtOpt(want, had))
			return
		}
	}
}

// wSweep: every pivot in [min-2, max+2] for the four wrapper scans with random
// (filter, limit), two pivots with every (filter, limit) combination, whole content.
func (a *wactor) wSweep() {
	if a.failed {
		return
	}
	a.count("pivot_sweeps")
	if a.m.len() == 0 {
		a.count("sweeps_on_empty_tree")
	}
	if !a.fullCompare("content") {
		return
	}
	lo, hi := a.bounds()
	if a.m.len() == 0 {
		lo, hi = 0, 3
	}
	limits := []int{0, 1, 2, a.m.len(), a.m.len() + 3}
	np := 0
	for p := lo - 2; p <= hi+2; p++ {
		np++
		for typ := 0; typ < 4; typ++ {
			a.wCheckScan(typ, p, a.r.Intn(len(filterNames)), a.limitChoice(), true)
			if a.failed {
				return
			}
			if a.r.Intn(4) == 0 {
				a.wCheckScan(typ, p, 0, a.m.len()+3, true) // unfiltered, unlimited: the whole tail
				if a.failed {
					return
				}
			}
		}
	}
	for i := 0; i < 2; i++ {
		p := a.pivot()
		for typ := 0; typ < 4; typ++ {
			for fid := range filterNames {
				for _, n := range limits {
					a.wCheckScan(typ, p, fid, n, true)
					if a.failed {
						return
					}
				}
			}
		}
	}
	for key := -1; key <= a.U; key++ {
		want, had := a.m.get(key)
		got, gotOk := a.conv("Get", a.w.Get(probe(key)))
		if gotOk != had || got != want {
			a.note("Get(%d) -> %s", key, fmtOpt(got, gotOk))
			a.fail("retval:Get", "Get(%d) returned %s, sorted set holds %s", key, fmtOpt(got, gotOk), fmtOpt(want, had))
			return
		}
	}
	a.note("sweep: %d pivots ok, len=%d height=%d", np, a.m.len(), a.prevH)
}

func (a *wactor) wStep(mode int) {
	if a.failed {
		return
	}
	var wIns, wDel, wUpd, wUoi int
	switch mode {
	case modeGrow:
		wIns, wDel, wUpd, wUoi = 40, 8, 12, 22
	case modeShrink:
		wIns, wDel, wUpd, wUoi = 6, 46, 26, 6
	default:
		wIns, wDel, wUpd, wUoi = 22, 24, 22, 14
	}
	c := a.r.Intn(100)
	switch {
	case c < wIns:
		a.wInsert(a.insertKey())
	case c < wIns+wDel:
		a.wDelete(a.deleteKey())
	case c < wIns+wDel+wUpd:
		oldKey := a.deleteKey()
		a.wUpdate(oldKey, a.updateTarget(oldKey, mode), false)
	case c < wIns+wDel+wUpd+wUoi:
		oldKey := a.deleteKey()
		if a.r.Intn(3) == 0 {
			oldKey = a.r.Intn(a.U) // more often absent
		}
		a.wUpdate(oldKey, a.updateTarget(oldKey, mode), true)
	default:
		if a.r.Intn(5) == 0 {
			a.wGet(a.pivot())
		} else {
			a.wSpotScan()
		}
	}
}

// updateTarget picks the new key of an update: the same key, a neighbour, an existing
// other key (the two entries collapse into one) or any key.
func (a *wactor) updateTarget(oldKey, mode int) int {
	c := a.r.Intn(100)
	onto := 20
	if mode == modeShrink {
		onto = 45
	}
	switch {
	case c < 25:
		return oldKey
	case c < 25+onto:
		if k, ok := a.presentKey(); ok {
			return k
		}
		return a.r.Intn(a.U)
	case c < 80:
		return a.clampKey(oldKey + a.r.Intn(7) - 3)
	default:
		return a.r.Intn(a.U)
	}
}

// wrapperCase: one history on tree.BTree (degree 2) in lock step.
func wrapperCase(k *engine.Case) { solo(k, wrapperHistory) }

func wrapperHistory(k *engine.Case) {
	r := k.R
	U := []int{6, 12, 24, 40, 64}[r.Intn(5)]
	if r.Intn(40) == 0 {
		// large trees: limits beyond a few hundred items must still be exact
		U = []int{300, 420}[r.Intn(2)]
		k.Count("wrapper_large_histories", 1)
	}
	w := tree.NewBTree()
	a := &wactor{actor: newActor(k, "w", w.VerifInner(), &model{}, r, U, 2, 0), w: w}
	a.trace = true
	k.Logf("tree.NewBTree(), keys from [0,%d)", U)
	k.Count("wrapper_histories", 1)
	a.wSweep()
	nph := 2 + r.Intn(4)
	for ph := 0; ph < nph && !a.failed && a.steps < maxStepsPerHistory; ph++ {
		switch c := r.Intn(8); c {
		case 0, 1: // fill by permutation through Insert / UpdateOrInsert with an absent old key
			perm := r.Perm(U)
			n := 1 + r.Intn(U)
			if r.Intn(2) == 0 {
				n = U
			}
			a.note("phase fill-permutation x%d", n)
			for i := 0; i < n && !a.failed; i++ {
				if r.Intn(3) == 0 {
					a.wUpdate(-1-r.Intn(2), perm[i], true)
				} else {
					a.wInsert(perm[i])
				}
				if r.Intn(8) == 0 {
					a.wSpotScan()
				}
			}
		case 2: // ascending / descending fill
			asc := r.Intn(2) == 0
			n := 1 + r.Intn(U)
			a.note("phase fill-run asc=%v x%d", asc, n)
			for i := 0; i < n && !a.failed; i++ {
				if asc {
					a.wInsert(i)
				} else {
					a.wInsert(U - 1 - i)
				}
				if r.Intn(8) == 0 {
					a.wSpotScan()
				}
			}
		case 3: // drain: Delete, or Update of a key onto its successor (two entries become one)
			n := 1 + r.Intn(a.m.len()+1)
			if r.Intn(2) == 0 {
				n = a.m.len() + 1
			}
			a.note("phase drain x%d", n)
			for i := 0; i < n && !a.failed && a.m.len() > 0; i++ {
				j := r.Intn(a.m.len())
				switch r.Intn(3) {
				case 0:
					if j+1 < a.m.len() {
						a.wUpdate(a.m.s[j].k, a.m.s[j+1].k, false)
					} else {
						a.wDelete(a.m.s[j].k)
					}
				case 1:
					if r.Intn(2) == 0 {
						j = 0
					} else {
						j = a.m.len() - 1
					}
					a.wDelete(a.m.s[j].k)
				default:
					a.wDelete(a.m.s[j].k)
				}
				if r.Intn(8) == 0 {
					a.wSpotScan()
				}
			}
		default:
			mode := r.Intn(3)
			n := 20 + r.Intn(2*U+40)
			a.note("phase churn mode=%d x%d", mode, n)
			for i := 0; i < n && !a.failed; i++ {
				a.wStep(mode)
				if i%32 == 31 {
					a.wSweep()
				}
			}
		}
		a.wSweep()
	}
	finishHistory(k, a.actor)
}

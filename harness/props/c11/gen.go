package c11

import (
	"fmt"
	"math"
	"math/rand"
	"reflect"
	"unicode/utf8"

	"verifh/engine"

	"github.com/pinealctx/neptune/tex"
)

const maxInt = int(^uint(0) >> 1)

// lenCeiling bounds the unread length of a program's buffer (memory stays modest).
const lenCeiling = 24 << 10

// maxOpSize bounds a single payload.
const maxOpSize = 4200

// peek is what reflection shows of a tex.Buffer (used for aiming sizes and for
// coverage counters only).
type peek struct {
	ok     bool
	nilbuf bool
	off    int
	blen   int
	bcap   int
}

func peekTex(b *tex.Buffer) (p peek) {
	defer func() {
		if recover() != nil {
			p = peek{}
		}
	}()
	if b == nil {
		return peek{}
	}
	v := reflect.ValueOf(b).Elem()
	f := v.FieldByName("buf")
	o := v.FieldByName("off")
	if !f.IsValid() || !o.IsValid() || f.Kind() != reflect.Slice || !o.CanInt() {
		return peek{}
	}
	return peek{ok: true, nilbuf: f.IsNil(), off: int(o.Int()), blen: f.Len(), bcap: f.Cap()}
}

// m is the unread length, free the room behind len(buf).
func (p peek) m() int    { return p.blen - p.off }
func (p peek) free() int { return p.bcap - p.blen }

var sizeTable = []int{0, 1, 2, 3, 4, 7, 8, 15, 16, 31, 32, 33, 60, 63, 64, 65, 66, 100, 127, 128, 129, 191, 192, 193,
	255, 256, 257, 300, 448, 511, 512, 513, 576, 600, 1023, 1024, 1025, 1500, 2047, 2048, 2049, 3000, 4096}

// sizeGen draws operation sizes.
type sizeGen struct {
	r    *rand.Rand
	prof *profile
	k    *engine.Case
}

// boundaryCandidates lists sizes that sit exactly on / next to a branch condition of
// tex.Buffer.grow for the current state: n <= cap-len (reslice), n <= cap/2-m (slide
// down), n <= 64 on a nil buffer (small allocation).
func boundaryCandidates(pk peek, extra int) (free []int, slide []int) {
	if !pk.ok {
		return nil, nil
	}
	add := func(dst []int, v int) []int {
		v -= extra
		if v >= 0 && v <= maxOpSize {
			dst = append(dst, v)
		}
		return dst
	}
	fr := pk.free()
	free = add(free, fr)
	free = add(free, fr+1)
	free = add(free, fr-1)
	free = add(free, fr+2)
	s := pk.bcap/2 - pk.m()
	if pk.off > 0 && s > fr {
		slide = add(slide, s)
		slide = add(slide, s+1)
		slide = add(slide, s-1)
		// all that fits after sliding (m+n == cap) and one more
		slide = add(slide, pk.bcap-pk.m())
		slide = add(slide, pk.bcap-pk.m()+1)
	}
	return free, slide
}

// size draws a payload size for a growing operation. extra is what the operation adds
// on its own (ReadFrom asks for MinRead more than it stores).
func (g *sizeGen) size(pk peek, curLen int, extra int) int {
	lim := maxOpSize
	if curLen > lenCeiling {
		lim = 48
	}
	x := g.r.Intn(100)
	var n int
	switch {
	case x < g.prof.pBoundary:
		free, slide := boundaryCandidates(pk, extra)
		switch {
		case len(slide) > 0 && (len(free) == 0 || g.r.Intn(2) == 0):
			n = slide[g.r.Intn(len(slide))]
			if n <= lim {
				g.k.Count("size_at_slide_boundary", 1)
			}
		case len(free) > 0:
			n = free[g.r.Intn(len(free))]
			if n <= lim {
				g.k.Count("size_at_free_space_boundary", 1)
			}
		default:
			n = sizeTable[g.r.Intn(len(sizeTable))]
		}
	case x < g.prof.pBoundary+g.prof.pSmall:
		n = g.r.Intn(41)
		if g.r.Intn(3) == 0 {
			n = g.r.Intn(5)
		}
	default:
		n = sizeTable[g.r.Intn(len(sizeTable))]
		if g.r.Intn(4) == 0 {
			n += g.r.Intn(7) - 3
			if n < 0 {
				n = 0
			}
		}
	}
	if n > lim {
		n = g.r.Intn(lim + 1)
	}
	return n
}

// readSize draws a size for Read / Next relative to the unread length L.
func (g *sizeGen) readSize(L int) int {
	switch g.r.Intn(14) {
	case 12, 13:
		// leave a short tail: with a large read offset and little unread data the next
		// write can slide the data down instead of reallocating
		if L > 1 {
			return L - 1 - g.r.Intn(min(L-1, 40))
		}
		return L
	case 0:
		return 0
	case 1:
		return 1
	case 2:
		return L
	case 3:
		return L + 1
	case 4:
		if L > 0 {
			return L - 1
		}
		return 0
	case 5:
		return L + 1 + g.r.Intn(100)
	case 6:
		return L / 2
	case 7, 8:
		return g.r.Intn(L + 1)
	case 9:
		return sizeTable[g.r.Intn(len(sizeTable))]
	default:
		return 1 + g.r.Intn(9)
	}
}

var multiRunes = []rune{0x80, 0xe9, 0x7ff, 0x800, 0x4e16, 0xfffd, 0xffff, 0x10000, 0x1f600, 0x10ffff, 0x20ac, 0x3b1}

// payload styles
const (
	styRandom = iota
	styASCII
	styUTF8
	styCounter
)

// payload builds n bytes; the style text goes into the trace.
func payload(r *rand.Rand, n int, utf8Bias int) ([]byte, string) {
	sty := styRandom
	x := r.Intn(100)
	switch {
	case x < utf8Bias:
		sty = styUTF8
	case x < utf8Bias+(100-utf8Bias)/3:
		sty = styASCII
	case x < utf8Bias+2*(100-utf8Bias)/3:
		sty = styCounter
	}
	b := make([]byte, 0, n+4)
	switch sty {
	case styRandom:
		b = b[:n]
		r.Read(b)
		return b, "rnd"
	case styASCII:
		for len(b) < n {
			b = append(b, byte('a'+r.Intn(26)))
		}
		return b, "asc"
	case styCounter:
		start, stride := r.Intn(256), 1+2*r.Intn(4)
		for i := 0; i < n; i++ {
			b = append(b, byte(start+i*stride))
		}
		return b, "cnt"
	default:
		// UTF-8 text with ASCII, multi-byte runes and broken pieces; cutting at n may
		// split the last rune, which is wanted (truncated sequence at the end).
		for len(b) < n {
			switch y := r.Intn(20); {
			case y < 7:
				b = append(b, byte(' '+r.Intn(95)))
			case y < 16:
				b = utf8.AppendRune(b, multiRunes[r.Intn(len(multiRunes))])
			case y < 17:
				b = append(b, byte(0x80+r.Intn(0x40))) // lone continuation byte
			case y < 18:
				b = append(b, 0xff)
			case y < 19:
				b = append(b, 0xe4, 0xb8) // 3-byte rune without its tail
			default:
				b = append(b, 0xed, 0xa0, 0x80) // encoded surrogate (invalid)
			}
		}
		return b[:n], "utf"
	}
}

// pickRune draws a rune with the boundary bias of the design; class goes to a counter.
func pickRune(r *rand.Rand) (rune, string) {
	switch x := r.Intn(100); {
	case x < 18:
		return rune(r.Intn(0x80)), "rune_ascii"
	case x < 24:
		return []rune{0, 0x7f, 0x80, 0x7ff, 0x800, 0xffff, 0x10000, utf8.MaxRune, utf8.RuneError}[r.Intn(9)], "rune_boundary"
	case x < 50:
		return multiRunes[r.Intn(len(multiRunes))], "rune_multibyte"
	case x < 62:
		return rune(0x80 + r.Intn(0x10ffff-0x80)), "rune_random"
	case x < 74:
		return rune(0xd800 + r.Intn(0x800)), "rune_surrogate"
	case x < 86:
		switch r.Intn(4) {
		case 0:
			return utf8.MaxRune + 1, "rune_above_max"
		case 1:
			return math.MaxInt32, "rune_above_max"
		default:
			return utf8.MaxRune + 1 + rune(r.Intn(math.MaxInt32-utf8.MaxRune-1)), "rune_above_max"
		}
	default:
		switch r.Intn(6) {
		case 0:
			return -1, "rune_negative"
		case 1:
			return math.MinInt32, "rune_negative"
		case 2:
			return -128, "rune_negative"
		case 3:
			return -129, "rune_negative"
		case 4:
			return -rune(r.Intn(256)) - 1, "rune_negative"
		default:
			return -rune(r.Int31()) - 1, "rune_negative"
		}
	}
}

// fmtBytes renders data for the trace: short data completely, long data as length,
// both ends and a hash.
func fmtBytes(b []byte) string {
	if len(b) <= 20 {
		return fmt.Sprintf("[%d]%x", len(b), b)
	}
	return fmt.Sprintf("[%d]%x..%x#%08x", len(b), b[:6], b[len(b)-6:], uint32(engine.Hash64(b)))
}

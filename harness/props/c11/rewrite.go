package c11

import (
	"bytes"
	"fmt"
	"unicode/utf8"

	"verifh/engine"

	"github.com/pinealctx/neptune/tex"
)

// rewriteCase: ReWrite(pos, p) overwrites exactly the addressed bytes. The buffer is
// only ever written to (never read from), so position pos of the buffer is position
// pos of the unread contents; the model is a plain byte slice.
func rewriteCase(k *engine.Case) {
	r := k.R
	prof := &profGrowth
	g := &sizeGen{r: r, prof: prof, k: k}
	var b *tex.Buffer
	var model []byte
	switch r.Intn(4) {
	case 0:
		n := sizeTable[r.Intn(len(sizeTable))]
		b = tex.NewSizedBuffer(n)
		k.Logf("start: NewSizedBuffer(%d)", n)
	case 1:
		n := r.Intn(300)
		data, sty := payload(r, n, 20)
		b = tex.NewBuffer(append([]byte(nil), data...))
		model = append(model, data...)
		k.Logf("start: NewBuffer(%s %s)", sty, fmtBytes(data))
	default:
		b = new(tex.Buffer)
		k.Logf("start: zero value")
	}
	k.Count("programs", 1)
	k.Count("programs_rewrite", 1)
	changed := false
	grown := false
	nsteps := 2 + r.Intn(40)
	for i := 0; i < nsteps; i++ {
		pk0 := peekTex(b)
		L := len(model)
		var desc string
		isRewrite := false
		x := r.Intn(100)
		if L == 0 && x >= 45 && x < 90 {
			x = r.Intn(20) // nothing to overwrite yet: write first
		}
		switch {
		case x < 20:
			n := g.size(pk0, L, 0)
			data, sty := payload(r, n, 20)
			desc = fmt.Sprintf("Write(%s %s)", sty, fmtBytes(data))
			writeOwn(b, data)
			model = append(model, data...)
		case x < 28:
			n := g.size(pk0, L, 0)
			data, sty := payload(r, n, 20)
			desc = fmt.Sprintf("WriteString(%s %s)", sty, fmtBytes(data))
			b.WriteString(string(data))
			model = append(model, data...)
		case x < 33:
			c := byte(r.Intn(256))
			desc = fmt.Sprintf("WriteByte(0x%02x)", c)
			b.WriteByte(c)
			model = append(model, c)
		case x < 38:
			// valid runes only: WriteRune itself is judged by the differential kinds
			ru := multiRunes[r.Intn(len(multiRunes))]
			if r.Intn(3) == 0 {
				ru = rune(r.Intn(0x80))
			}
			desc = fmt.Sprintf("WriteRune(%U)", ru)
			b.WriteRune(ru)
			model = utf8.AppendRune(model, ru)
		case x < 42:
			n := g.size(pk0, L, 0)
			desc = fmt.Sprintf("Grow(%d)", n)
			b.Grow(n)
		case x < 45:
			n := r.Intn(L + 1)
			if r.Intn(8) == 0 {
				n = 0
			}
			desc = fmt.Sprintf("Truncate(%d)", n)
			b.Truncate(n)
			model = model[:n]
		case x < 90:
			isRewrite = true
			var pos, n int
			class := ""
			switch y := r.Intn(20); {
			case y < 11: // strictly inside
				pos = r.Intn(L + 1)
				n = r.Intn(L - pos + 1)
				if n > 0 && r.Intn(3) > 0 {
					n = 1 + r.Intn(min(n, 16))
				}
				class = "rewrite_inside"
				if pos+n == L {
					class = "rewrite_to_end"
				}
			case y < 14: // up to the last byte
				pos = r.Intn(L + 1)
				n = L - pos
				class = "rewrite_to_end"
			case y < 15: // pos == Len: nothing is addressed
				pos = L
				n = r.Intn(2) * (1 + r.Intn(8))
				class = "rewrite_at_len"
			case y < 16: // empty payload
				pos = r.Intn(L + 1)
				n = 0
				class = "rewrite_empty_payload"
			case y < 17: // first bytes (the length-prefix use in mpb)
				pos = 0
				n = min(L, 1+r.Intn(8))
				class = "rewrite_inside"
				if n == L {
					class = "rewrite_to_end"
				}
			default: // payload reaches beyond Len: only the bytes of the buffer are overwritten
				pos = r.Intn(L + 1)
				n = L - pos + 1 + r.Intn(40)
				class = "rewrite_overhang"
			}
			data, sty := payload(r, n, 10)
			desc = fmt.Sprintf("ReWrite(%d, %s %s)", pos, sty, fmtBytes(data))
			before := append([]byte(nil), model...)
			keep := append([]byte(nil), data...)
			b.ReWrite(pos, data)
			copy(model[pos:], keep)
			k.Count(class, 1)
			k.Count("rewrites", 1)
			if !bytes.Equal(before, model) {
				changed = true
				k.Count("rewrite_changed", 1)
			}
			if grown {
				k.Count("rewrite_after_growth", 1)
			}
			payloadIntact := bytes.Equal(keep, data)
			fill(data, 0x5A) // the caller reuses its slice: ReWrite must have copied
			if !payloadIntact {
				k.Logf("%02d %s", i, desc)
				k.Fail("rewrite-modified-argument", "step %d %s: ReWrite changed the caller's slice", i, desc)
				return
			}
		case x < 95:
			desc = "Reset()"
			b.Reset()
			model = model[:0]
		default:
			n := g.size(pk0, L, 0)
			if n > 1500 {
				n = r.Intn(1500)
			}
			data, _ := payload(r, n, 20)
			sp := &srcSpec{data: data, failAt: -1, zeroAt: -1, negAt: -1, chunk: []int{0, 0, 1, 100}[r.Intn(4)]}
			desc = "ReadFrom(" + sp.String() + ")"
			b.ReadFrom(sp.reader())
			model = append(model, data...)
		}
		k.Count("steps", 1)
		k.Logf("%02d %s | len=%d", i, desc, b.Len())
		if pk1 := peekTex(b); pk0.ok && pk1.ok && pk1.bcap != pk0.bcap && pk0.bcap > 0 {
			grown = true
		}
		cl := "state-mismatch:rewrite-program"
		if isRewrite {
			cl = "rewrite-mismatch"
		}
		got := b.Bytes()
		if b.Len() != len(model) || len(got) != len(model) {
			k.Fail(cl, "after step %d %s: Len()=%d len(Bytes())=%d, expected %d", i, desc, b.Len(), len(got), len(model))
			return
		}
		if !bytes.Equal(got, model) {
			d := firstDiff(got, model)
			k.Fail(cl, "after step %d %s: contents differ at index %d of %d: tex.Buffer %s ; expected %s", i, desc, d, len(model), window(got, d), window(model, d))
			return
		}
		if s := b.String(); s != string(model) {
			k.Fail(cl, "after step %d %s: String() differs from Bytes()", i, desc)
			return
		}
	}
	if changed {
		k.Nontrivial()
		k.Count("programs_nontrivial", 1)
	}
}

package c11

import (
	"bytes"
	"fmt"
	"io"

	"verifh/engine"

	"github.com/pinealctx/neptune/tex"
)

// sizedCase: NewSizedBuffer(n) yields an empty buffer of at least the requested
// capacity. "Empty" is checked directly (Len, Bytes, String, reads report EOF) and by
// using the buffer: a differential program started on it has to behave like one
// started on an empty bytes.Buffer.
func sizedCase(k *engine.Case) {
	r := k.R
	var n int
	switch r.Intn(5) {
	case 0:
		n = r.Intn(1 << 16)
	case 1:
		n = r.Intn(130)
	case 4:
		// room for whole files
		n = []int{65535, 65536, 65537, 70000, 1 << 17, 1<<17 + 1, 1 << 20, 1<<20 + 1, 65536 + r.Intn(1<<20)}[r.Intn(9)]
		k.Count("sized_beyond_64k", 1)
	default:
		n = sizeTable[r.Intn(len(sizeTable))]
	}
	k.Count("programs", 1)
	k.Count("programs_sized", 1)
	b := tex.NewSizedBuffer(n)
	k.Logf("NewSizedBuffer(%d) -> Len=%d Cap>=n:%v", n, b.Len(), b.Cap() >= n)
	k.Count("sized_buffers", 1)
	if n == 0 {
		k.Count("sized_zero", 1)
	}
	if b.Len() != 0 || len(b.Bytes()) != 0 || b.String() != "" {
		k.Fail("sized-not-empty", "NewSizedBuffer(%d): Len()=%d len(Bytes())=%d String()=%s, expected an empty buffer", n, b.Len(), len(b.Bytes()), fmtBytes([]byte(b.String())))
		return
	}
	k.Count("sized_cap_checked", 1)
	if b.Cap() < n {
		k.Fail("sized-capacity", "NewSizedBuffer(%d): Cap()=%d is less than requested", n, b.Cap())
		return
	}
	// an empty buffer has nothing to read
	probe := tex.NewSizedBuffer(n)
	switch r.Intn(3) {
	case 0:
		if _, err := probe.ReadByte(); err != io.EOF {
			k.Fail("sized-not-empty", "NewSizedBuffer(%d).ReadByte() err=%v, expected io.EOF", n, err)
			return
		}
	case 1:
		if m, err := probe.Read(make([]byte, 8)); m != 0 || err != io.EOF {
			k.Fail("sized-not-empty", "NewSizedBuffer(%d).Read(p[8]) = %d, %v, expected 0, io.EOF", n, m, err)
			return
		}
	default:
		if d := probe.Next(4); len(d) != 0 {
			k.Fail("sized-not-empty", "NewSizedBuffer(%d).Next(4) returned %d bytes", n, len(d))
			return
		}
	}
	// a nil *Buffer prints as "<nil>" in both implementations (String clause)
	if r.Intn(16) == 0 {
		var tn *tex.Buffer
		var sn *bytes.Buffer
		k.Count("nil_string", 1)
		if tn.String() != sn.String() {
			k.Fail("result-mismatch:String", "(*tex.Buffer)(nil).String()=%q, bytes.Buffer gives %q", tn.String(), sn.String())
			return
		}
	}
	// use it: writes land at the first position
	p := &prog{k: k, prof: &profMixed, prevOp: -1}
	p.g = &sizeGen{r: r, prof: &profMixed, k: k}
	p.t, p.s = b, bytes.NewBuffer(make([]byte, 0, n))
	steps := 1 + r.Intn(12)
	for i := 0; i < steps; i++ {
		st := p.gen()
		if i == 0 && r.Intn(2) == 0 {
			// first a write around the requested size
			sz := n + r.Intn(3) - 1
			if sz < 0 {
				sz = 0
			}
			if sz > 2*maxOpSize {
				sz = r.Intn(2 * maxOpSize)
			}
			data, sty := payload(r, sz, 20)
			st = &step{op: opWrite, need: sz, desc: "Write(" + sty + " " + fmtBytes(data) + ")",
				run: func(b buffer) (string, []byte) {
					m, err := writeOwn(b, data)
					return fmt.Sprintf("n=%d err=%s", m, errText(err)), nil
				}}
			k.Count("sized_write_around_n", 1)
		}
		if !p.apply(i, st) {
			return
		}
	}
	if n > 0 {
		k.Nontrivial()
		k.Count("programs_nontrivial", 1)
	}
}

// Package c11 monitors tex.Buffer against the standard bytes.Buffer of the building
// toolchain: every generated operation sequence is executed on both, and after every
// step the results, errors, panics and the unread contents have to agree. ReWrite is
// checked against a byte-slice model, NewSizedBuffer against its two-line contract.
package c11

import (
	"runtime/debug"

	"verifh/engine"
)

// Prop is the C11 check.
var Prop = &engine.Prop{
	ID:    "C11",
	Level: "exploration",
	Rule: "an input is one seed-generated operation program (1-60 steps over Write, WriteString, WriteByte, WriteRune, Read, ReadByte, ReadRune, " +
		"UnreadByte, UnreadRune, Next, Truncate, Reset, Grow, ReadFrom, WriteTo, Len, Bytes, String; start state zero value / NewBuffer / NewBufferString / NewSizedBuffer) " +
		"executed step by step on tex.Buffer and on bytes.Buffer, comparing per-step results, error text and identity of io sentinels, panicked-or-not (+ text of explicit panics), Len, Bytes, String; " +
		"payload sizes are biased to the boundaries of tex.Buffer's own growth paths (free space +-1, slide-down limit +-1, 64, 512), runes include negative, surrogate and > MaxRune, " +
		"arguments include negative/oversized Grow, Truncate, Next, misbehaving readers and writers. " +
		"kinds rewrite / sized check ReWrite on never-read buffers against a byte slice and NewSizedBuffer(n) for Len()==0, Cap()>=n and empty-buffer behaviour. " +
		"a program is non-trivial when some step appended bytes and some step consumed bytes (rewrite: a ReWrite changed a byte; sized: n>0); " +
		"distinct = distinct program texts including observed outcomes; evaluations = programs executed",
	Assumptions: []string{
		"bytes.Buffer of the building toolchain (go1.23) is the specification of the 18 compared operations",
		"UnreadByte/UnreadRune are not issued while the last state-changing operation was Grow (capacity policy, excluded by the property); Cap() is never compared",
		"text of run-time (slice bounds) panics is not compared, only that both sides panic; explicit panic values are compared by text",
		"ReadFrom sources deliver a byte stream that does not depend on the size of the slice they are handed (errors at fixed byte offsets); WriteTo sinks fail after a fixed number of bytes",
		"ReWrite is exercised with 0 <= pos <= Len() on buffers that were never read from; a payload overhanging Len() is expected to be cut at Len() (the only reading under which it 'overwrites bytes of the buffer')",
		"internal fields of tex.Buffer are read by reflection only to aim generated sizes at growth-path boundaries and to count which growth path was taken; no verdict uses them",
	},
	ShardsQuick: 4, ShardsThorough: 16,
	// the cases allocate many short-lived payloads and keep almost nothing alive
	Setup: func(c *engine.Ctx) { debug.SetGCPercent(400) },
	Kinds: []engine.Kind{
		{Name: "mixed", Quick: 18000, Thorough: 900000, Fn: func(k *engine.Case) { programCase(k, &profMixed) }},
		{Name: "growth", Quick: 12000, Thorough: 600000, Fn: func(k *engine.Case) { programCase(k, &profGrowth) }},
		{Name: "unread", Quick: 15000, Thorough: 750000, Fn: func(k *engine.Case) { programCase(k, &profUnread) }},
		{Name: "io", Quick: 8000, Thorough: 400000, Fn: func(k *engine.Case) { programCase(k, &profIO) }},
		{Name: "invalid", Quick: 8000, Thorough: 400000, Fn: func(k *engine.Case) { programCase(k, &profInvalid) }},
		{Name: "rewrite", Quick: 7000, Thorough: 350000, Fn: rewriteCase},
		{Name: "sized", Quick: 4000, Thorough: 200000, Fn: sizedCase},
	},
	Floors: map[string]int64{
		"programs":                    1000,
		"steps":                       20000,
		"grow_path_small_alloc":       50,
		"grow_path_reslice":           200,
		"grow_path_slide_down":        50,
		"grow_path_realloc":           50,
		"grow_path_reset_empty":       20,
		"realloc_with_read_offset":    20,
		"size_at_free_space_boundary": 50,
		"size_at_slide_boundary":      20,
		"rune_negative":               20,
		"rune_surrogate":              20,
		"rune_above_max":              20,
		"rune_multibyte":              100,
		"readrune_multibyte":          100,
		"readrune_invalid_utf8":       50,
		"unreadbyte_ok":               100,
		"unreadbyte_err":              100,
		"unreadrune_ok":               100,
		"unreadrune_err":              100,
		"unread_after_write":          50,
		"unread_after_truncate":       10,
		"unread_after_zero_read":      10,
		"unread_skipped_after_grow":   10,
		"read_eof":                    50,
		"read_zero_len_p":             20,
		"next_beyond_len":             20,
		"panic_both_explicit":         50,
		"panic_both_runtime":          20,
		"truncate_beyond_len":         20,
		"truncate_negative":           10,
		"grow_negative":               10,
		"grow_too_large":              10,
		"readfrom_ok":                 50,
		"readfrom_error_at_offset":    20,
		"readfrom_data_with_eof":      20,
		"readfrom_negative_count":     5,
		"writeto_ok":                  50,
		"writeto_error":               20,
		"writeto_short_write":         10,
		"writeto_overcount":           5,
		"rewrite_inside":              100,
		"rewrite_to_end":              20,
		"rewrite_overhang":            20,
		"rewrite_changed":             100,
		"rewrite_after_growth":        20,
		"sized_buffers":               100,
		"sized_cap_checked":           100,
	},
}

// Operation indices (the 18 operations of the statement).
const (
	opWrite = iota
	opWriteString
	opWriteByte
	opWriteRune
	opRead
	opReadByte
	opReadRune
	opUnreadByte
	opUnreadRune
	opNext
	opTruncate
	opReset
	opGrow
	opReadFrom
	opWriteTo
	opLen
	opBytes
	opString
	nOps
)

var opNames = [nOps]string{"Write", "WriteString", "WriteByte", "WriteRune", "Read", "ReadByte", "ReadRune",
	"UnreadByte", "UnreadRune", "Next", "Truncate", "Reset", "Grow", "ReadFrom", "WriteTo", "Len", "Bytes", "String"}

// profile steers one kind of program.
type profile struct {
	name      string
	weights   [nOps]int
	pInvalid  int // percent of steps (of operations that have one) issued with an invalid argument
	pBoundary int // percent of sizes aimed at tex.Buffer's growth boundaries
	pSmall    int // percent of sizes drawn small (0..40)
	utf8Bias  int // percent of payloads that are UTF-8 text with multi-byte / broken sequences
	maxSteps  int
	total     int
}

var profMixed = profile{name: "mixed", pInvalid: 5, pBoundary: 30, pSmall: 35, utf8Bias: 35, maxSteps: 60,
	weights: [nOps]int{8, 6, 5, 7, 8, 6, 7, 7, 7, 6, 4, 2, 5, 4, 3, 1, 1, 1}}

var profGrowth = profile{name: "growth", pInvalid: 2, pBoundary: 55, pSmall: 10, utf8Bias: 10, maxSteps: 60,
	weights: [nOps]int{14, 8, 3, 3, 10, 3, 2, 2, 1, 8, 2, 1, 10, 6, 1, 1, 1, 1}}

var profUnread = profile{name: "unread", pInvalid: 3, pBoundary: 10, pSmall: 75, utf8Bias: 85, maxSteps: 60,
	weights: [nOps]int{4, 4, 3, 8, 6, 8, 12, 12, 12, 6, 4, 1, 3, 1, 1, 1, 1, 1}}

var profIO = profile{name: "io", pInvalid: 6, pBoundary: 35, pSmall: 25, utf8Bias: 20, maxSteps: 40,
	weights: [nOps]int{6, 3, 2, 2, 6, 2, 2, 3, 3, 3, 2, 1, 3, 14, 10, 1, 1, 1}}

var profInvalid = profile{name: "invalid", pInvalid: 35, pBoundary: 25, pSmall: 40, utf8Bias: 30, maxSteps: 40,
	weights: [nOps]int{7, 4, 3, 4, 6, 4, 4, 5, 5, 8, 10, 2, 10, 5, 5, 1, 1, 1}}

func init() {
	for _, p := range []*profile{&profMixed, &profGrowth, &profUnread, &profIO, &profInvalid} {
		for _, w := range p.weights {
			p.total += w
		}
	}
}

package c11

import (
	"bytes"
	"fmt"
	"io"
	"math"
	"runtime"

	"verifh/engine"

	"github.com/pinealctx/neptune/tex"
)

// buffer is the compared surface; *tex.Buffer and *bytes.Buffer both implement it.
type buffer interface {
	Write(p []byte) (int, error)
	WriteString(s string) (int, error)
	WriteByte(c byte) error
	WriteRune(r rune) (int, error)
	Read(p []byte) (int, error)
	ReadByte() (byte, error)
	ReadRune() (rune, int, error)
	UnreadByte() error
	UnreadRune() error
	Next(n int) []byte
	Truncate(n int)
	Reset()
	Grow(n int)
	ReadFrom(r io.Reader) (int64, error)
	WriteTo(w io.Writer) (int64, error)
	Len() int
	Bytes() []byte
	String() string
}

var _ buffer = (*tex.Buffer)(nil)
var _ buffer = (*bytes.Buffer)(nil)

// errText renders an error so that the io sentinels are compared by identity and
// everything else by text.
func errText(err error) string {
	switch {
	case err == nil:
		return "<nil>"
	case err == io.EOF:
		return "io.EOF"
	case err == io.ErrShortWrite:
		return "io.ErrShortWrite"
	case err == errSrc:
		return "errSrc"
	case err == errSink:
		return "errSink"
	}
	return fmt.Sprintf("%q", err.Error())
}

// step is one generated operation; run executes it on either implementation and
// renders everything it returned (data is returned separately and compared bytewise).
type step struct {
	op       int
	desc     string
	run      func(b buffer) (string, []byte)
	need     int // bytes a growing operation asks for (-1: not a growing operation)
	invalid  bool
	observer bool
}

type outcome struct {
	res      string
	data     []byte
	panicked bool
	runtime  bool   // the panic value is a runtime.Error (text not compared)
	ptext    string // text of the panic value
}

func (o outcome) String() string {
	if o.panicked {
		if o.runtime {
			return "PANIC(runtime: " + o.ptext + ")"
		}
		return "PANIC(" + o.ptext + ")"
	}
	return o.res
}

func exec(b buffer, s *step) (o outcome) {
	defer func() {
		if p := recover(); p != nil {
			o.panicked = true
			_, o.runtime = p.(runtime.Error)
			o.ptext = fmt.Sprint(p)
		}
	}()
	o.res, o.data = s.run(b)
	return o
}

// prog is the state of one differential program.
type prog struct {
	k    *engine.Case
	prof *profile
	g    *sizeGen
	t    *tex.Buffer
	s    *bytes.Buffer

	afterGrow bool // the last state-changing operation was Grow: Unread* is outside the property
	// what the previous state-changing operation was, for coverage of the lastRead machine
	prevOp       int
	prevZeroRead bool // previous op was a Read/Next that returned no bytes from a non-empty buffer
	appended     bool
	consumed     bool
	everRead     bool
	heldStr      []heldString // strings returned by String() earlier, with a private copy
}

type heldString struct {
	s, clone string
	at       int
}

// programCase runs one differential program of the given profile.
func programCase(k *engine.Case, prof *profile) {
	p := &prog{k: k, prof: prof, prevOp: -1}
	p.g = &sizeGen{r: k.R, prof: prof, k: k}
	// buffers are independent values: other sized buffers are alive while the program runs
	// (created before and after the buffer under test, written up to and beyond their requested
	// size) and must read at the end what was written into them
	type sibling struct {
		b    *tex.Buffer
		want []byte
	}
	var sibs []sibling
	mkSib := func() {
		n := []int{0, 1, 8, 16, 64, 300, 512}[k.R.Intn(7)]
		sb := tex.NewSizedBuffer(n)
		m := []int{0, n / 2, n, n + 1, n + 9, 2*n + 3}[k.R.Intn(6)]
		data := make([]byte, m)
		fill(data, byte('a'+len(sibs)))
		writeOwn(sb, data)
		sibs = append(sibs, sibling{sb, data})
		k.Logf("(another buffer: NewSizedBuffer(%d) with %d bytes %q written)", n, m, byte('a'+len(sibs)-1))
	}
	withSibs := k.R.Intn(3) == 0
	if withSibs {
		for i, n := 0, 1+k.R.Intn(2); i < n; i++ {
			mkSib()
		}
	}
	defer func() {
		for i, sb := range sibs {
			k.Evals(1)
			k.Count("sibling_buffers_checked", 1)
			if got := sb.b.Bytes(); !bytes.Equal(got, sb.want) {
				k.Fail("other-buffer-changed", "another tex.Buffer (sibling #%d, NewSizedBuffer, %d bytes of %q written) reads %s after the program ran on the buffer under test", i, len(sb.want), sb.want[:min(1, len(sb.want))], fmtBytes(got))
				return
			}
		}
	}()
	p.start()
	if withSibs {
		mkSib()
		if !p.compareState(-1, "after another sized buffer was created and written") {
			return
		}
	}
	k.Count("programs", 1)
	k.Count("programs_"+prof.name, 1)
	if !p.compareState(-1, "start") {
		return
	}
	nsteps := 1 + k.R.Intn(prof.maxSteps)
	for i := 0; i < nsteps; i++ {
		st := p.gen()
		if st == nil {
			continue
		}
		if !p.apply(i, st) {
			return
		}
	}
	if p.appended && p.consumed {
		k.Nontrivial()
		k.Count("programs_nontrivial", 1)
	}
}

// start chooses the initial pair of buffers.
func (p *prog) start() {
	r := p.k.R
	switch x := r.Intn(20); {
	case x < 9:
		p.t, p.s = new(tex.Buffer), new(bytes.Buffer)
		p.k.Logf("start: zero value")
		p.k.Count("start_zero", 1)
	case x < 13:
		n := p.g.size(peek{}, 0, 0)
		if n > 1500 {
			n = r.Intn(1500)
		}
		extra := []int{0, 0, 1, 7, 64, 512}[r.Intn(6)]
		data, sty := payload(r, n, p.prof.utf8Bias)
		a := make([]byte, n, n+extra)
		b := make([]byte, n, n+extra)
		copy(a, data)
		copy(b, data)
		// spare capacity carries a recognisable filler: it must never become visible
		fill(a[n:n+extra], 0xEE)
		fill(b[n:n+extra], 0xEE)
		p.t, p.s = tex.NewBuffer(a), bytes.NewBuffer(b)
		p.k.Logf("start: NewBuffer(%s %s cap=%d)", sty, fmtBytes(data), n+extra)
		p.k.Count("start_newbuffer", 1)
		if n > 0 {
			p.appended = true
		}
	case x < 17:
		n := p.g.size(peek{}, 0, 0)
		if n > 1500 {
			n = r.Intn(1500)
		}
		data, sty := payload(r, n, p.prof.utf8Bias)
		p.t, p.s = tex.NewBufferString(string(data)), bytes.NewBufferString(string(data))
		p.k.Logf("start: NewBufferString(%s %s)", sty, fmtBytes(data))
		p.k.Count("start_newbufferstring", 1)
		if n > 0 {
			p.appended = true
		}
	default:
		n := sizeTable[r.Intn(len(sizeTable))]
		p.t, p.s = tex.NewSizedBuffer(n), bytes.NewBuffer(make([]byte, 0, n))
		p.k.Logf("start: NewSizedBuffer(%d)", n)
		p.k.Count("start_sized", 1)
	}
}

// writeOwn hands Write a slice of the caller's own and then reuses that slice for
// something else, as callers do: Write must have copied what it was given.
func writeOwn(b buffer, data []byte) (int, error) {
	c := append([]byte(nil), data...)
	n, err := b.Write(c)
	fill(c, 0x5A)
	return n, err
}

func fill(b []byte, c byte) {
	for i := range b {
		b[i] = c
	}
}

// gen draws the next step; generation looks only at the PRNG and at the (deterministic)
// state of the two buffers.
func (p *prog) gen() *step {
	r := p.k.R
	L := p.s.Len()
	// choose the operation
	var op int
	for {
		x := r.Intn(p.prof.total)
		for op = 0; op < nOps; op++ {
			if x < p.prof.weights[op] {
				break
			}
			x -= p.prof.weights[op]
		}
		if (op == opUnreadByte || op == opUnreadRune) && p.afterGrow {
			// excluded by the property: bytes.Buffer's own answer depends on whether
			// Grow moved the data
			p.k.Count("unread_skipped_after_grow", 1)
			continue
		}
		break
	}
	// a long buffer is steered back down
	if L > lenCeiling && (op == opWrite || op == opWriteString || op == opReadFrom) && r.Intn(2) == 0 {
		op = []int{opRead, opNext, opTruncate, opWriteTo}[r.Intn(4)]
	}
	invalid := r.Intn(100) < p.prof.pInvalid
	pk := peekTex(p.t)
	st := &step{op: op, need: -1}
	switch op {
	case opWrite:
		n := p.g.size(pk, L, 0)
		data, sty := payload(r, n, p.prof.utf8Bias)
		st.need = n
		st.desc = fmt.Sprintf("Write(%s %s)", sty, fmtBytes(data))
		st.run = func(b buffer) (string, []byte) {
			n, err := writeOwn(b, data)
			return fmt.Sprintf("n=%d err=%s", n, errText(err)), nil
		}
	case opWriteString:
		n := p.g.size(pk, L, 0)
		data, sty := payload(r, n, p.prof.utf8Bias)
		s := string(data)
		st.need = n
		st.desc = fmt.Sprintf("WriteString(%s %s)", sty, fmtBytes(data))
		st.run = func(b buffer) (string, []byte) {
			n, err := b.WriteString(s)
			return fmt.Sprintf("n=%d err=%s", n, errText(err)), nil
		}
	case opWriteByte:
		c := byte(r.Intn(256))
		st.need = 1
		st.desc = fmt.Sprintf("WriteByte(0x%02x)", c)
		st.run = func(b buffer) (string, []byte) {
			return "err=" + errText(b.WriteByte(c)), nil
		}
	case opWriteRune:
		ru, class := pickRune(r)
		p.k.Count(class, 1)
		st.need = 4
		if uint32(ru) < 0x80 {
			st.need = 1
		}
		st.desc = fmt.Sprintf("WriteRune(%U)", ru)
		if ru < 0 || ru > 0x10ffff {
			st.desc = fmt.Sprintf("WriteRune(%d)", ru)
		}
		st.run = func(b buffer) (string, []byte) {
			n, err := b.WriteRune(ru)
			return fmt.Sprintf("n=%d err=%s", n, errText(err)), nil
		}
	case opRead:
		n := p.g.readSize(L)
		if n > L+600 {
			n = L + 600
		}
		st.desc = fmt.Sprintf("Read(p[%d])", n)
		st.run = func(b buffer) (string, []byte) {
			buf := make([]byte, n)
			fill(buf, 0xAA)
			m, err := b.Read(buf)
			// the whole of p is compared: bytes behind m must be left alone
			return fmt.Sprintf("n=%d err=%s p=%s", m, errText(err), fmtBytes(buf)), buf
		}
	case opReadByte:
		st.desc = "ReadByte()"
		st.run = func(b buffer) (string, []byte) {
			c, err := b.ReadByte()
			return fmt.Sprintf("c=0x%02x err=%s", c, errText(err)), nil
		}
	case opReadRune:
		st.desc = "ReadRune()"
		st.run = func(b buffer) (string, []byte) {
			ru, size, err := b.ReadRune()
			return fmt.Sprintf("r=%U size=%d err=%s", ru, size, errText(err)), nil
		}
	case opUnreadByte:
		st.desc = "UnreadByte()"
		st.run = func(b buffer) (string, []byte) { return "err=" + errText(b.UnreadByte()), nil }
	case opUnreadRune:
		st.desc = "UnreadRune()"
		st.run = func(b buffer) (string, []byte) { return "err=" + errText(b.UnreadRune()), nil }
	case opNext:
		n := p.g.readSize(L)
		if r.Intn(12) == 0 {
			// "take the rest" idioms: n far beyond Len must clamp, not overflow
			n = []int{math.MaxInt, math.MaxInt - 1, math.MaxInt - L, math.MaxInt / 2, math.MaxInt32}[r.Intn(5)]
		}
		if invalid {
			n = []int{-1, -1, -2, -1 - r.Intn(1000), math.MinInt64}[r.Intn(5)]
			st.invalid = true
		}
		st.desc = fmt.Sprintf("Next(%d)", n)
		st.run = func(b buffer) (string, []byte) {
			d := append([]byte(nil), b.Next(n)...)
			return "data=" + fmtBytes(d), d
		}
	case opTruncate:
		var n int
		if invalid {
			st.invalid = true
			switch r.Intn(6) {
			case 0:
				n = -1
			case 1:
				n = -1 - r.Intn(5000)
			case 2:
				n = L + 1
			case 3:
				n = L + 1 + r.Intn(64)
			case 4:
				// beyond Len but still inside the allocation: stale bytes live there
				n = L + 1
				if room := min(pk.free(), pk.off); pk.ok && room > 1 {
					n = L + 1 + r.Intn(room)
				}
			default:
				n = L + 1 + r.Intn(100000)
			}
		} else {
			switch r.Intn(6) {
			case 0:
				n = 0
			case 1:
				n = L
			case 2:
				if L > 0 {
					n = L - 1
				}
			case 3:
				if L > 0 {
					n = 1
				}
			default:
				n = r.Intn(L + 1)
			}
		}
		st.desc = fmt.Sprintf("Truncate(%d)", n)
		st.run = func(b buffer) (string, []byte) { b.Truncate(n); return "ok", nil }
	case opReset:
		st.desc = "Reset()"
		st.run = func(b buffer) (string, []byte) { b.Reset(); return "ok", nil }
	case opGrow:
		n := p.g.size(pk, L, 0)
		st.need = n
		if invalid {
			st.invalid = true
			st.need = -1
			switch r.Intn(5) {
			case 0:
				n = -1
			case 1:
				n = -1 - r.Intn(100000)
			case 2:
				n = math.MinInt64
			case 3:
				n = maxInt
			default:
				// larger than any allocation the runtime will attempt: ErrTooLarge, no memory touched
				n = maxInt - r.Intn(4096)
			}
		}
		st.desc = fmt.Sprintf("Grow(%d)", n)
		st.run = func(b buffer) (string, []byte) { b.Grow(n); return "ok", nil }
	case opReadFrom:
		sp := p.genSrc(pk, L, invalid)
		st.invalid = sp.negAt >= 0
		st.desc = "ReadFrom(" + sp.String() + ")"
		st.run = func(b buffer) (res string, _ []byte) {
			rd := sp.readerFor(b)
			var from io.Reader = rd
			var wt *srcWT
			if sp.withWriterTo {
				wt = &srcWT{src: rd}
				from = wt
			}
			n, err := b.ReadFrom(from)
			sib := ""
			if wt != nil {
				sib = fmt.Sprintf(" WriteTo-calls=%d", wt.wtCalls)
			}
			if rd.sib != nil {
				sib += " sibling=" + fmtBytes(rd.sib.Bytes())
			}
			return fmt.Sprintf("n=%d err=%s srcpos=%d%s", n, errText(err), rd.pos, sib), nil
		}
	case opWriteTo:
		sp := p.genSink(L, invalid)
		st.invalid = sp.over
		st.desc = "WriteTo(" + sp.String() + ")"
		st.run = func(b buffer) (string, []byte) {
			w := sp.writer()
			var to io.Writer = w
			rfCalls := 0
			if sp.withReaderFrom {
				rf := &sinkRF{sink: w}
				to = rf
			}
			n, err := b.WriteTo(to)
			if rf, ok := to.(*sinkRF); ok {
				rfCalls = rf.rfCalls
			}
			return fmt.Sprintf("n=%d err=%s sinkcalls=%d readfrom-calls=%d got=%s", n, errText(err), w.calls, rfCalls, fmtBytes(w.got)), w.got
		}
	case opLen:
		st.observer = true
		st.desc = "Len()"
		st.run = func(b buffer) (string, []byte) { return fmt.Sprintf("%d", b.Len()), nil }
	case opBytes:
		st.observer = true
		st.desc = "Bytes()"
		st.run = func(b buffer) (string, []byte) {
			d := append([]byte(nil), b.Bytes()...)
			return fmtBytes(d), d
		}
	case opString:
		st.observer = true
		st.desc = "String()"
		st.run = func(b buffer) (string, []byte) {
			s := b.String()
			return fmtBytes([]byte(s)), []byte(s)
		}
	}
	return st
}

func (p *prog) genSrc(pk peek, L int, invalid bool) *srcSpec {
	r := p.k.R
	var n int
	switch r.Intn(4) {
	case 0:
		// lengths around what ReadFrom can take without growing again (free space and
		// free space after its first grow(MinRead))
		c := []int{0, 1, 511, 512, 513, 1023, 1024, 1025}
		if pk.ok {
			c = append(c, pk.free(), pk.free()+1, pk.free()-1, pk.free()-512, pk.free()-511)
		}
		n = c[r.Intn(len(c))]
		if n < 0 {
			n = 0
		}
		if n > maxOpSize {
			n = r.Intn(maxOpSize)
		}
	default:
		n = p.g.size(pk, L, 0)
	}
	data, _ := payload(r, n, p.prof.utf8Bias)
	sp := &srcSpec{data: data, failAt: -1, zeroAt: -1, negAt: -1}
	switch r.Intn(6) {
	case 0:
		sp.chunk = 1
		if n > 700 {
			sp.data = sp.data[:700]
			n = 700
		}
	case 1:
		sp.chunk = 1 + r.Intn(600)
	}
	sp.together = r.Intn(3) == 0
	if r.Intn(3) == 0 {
		sp.failAt = r.Intn(n + 1)
	}
	if r.Intn(8) == 0 {
		sp.zeroAt = r.Intn(n + 1)
		sp.zeros = 1 + r.Intn(3)
		if r.Intn(3) == 0 {
			// a source that stays silent for a long stretch before it goes on
			sp.zeros = 90 + r.Intn(200)
		}
	}
	if invalid {
		sp.negAt = r.Intn(n + 1)
		if r.Intn(2) == 0 {
			sp.negAt = 0
		}
	}
	if r.Intn(5) == 0 {
		sp.endKind = 1 + r.Intn(3)
	}
	if r.Intn(6) == 0 {
		sp.nested = true
	}
	sp.withWriterTo = r.Intn(6) == 0
	return sp
}

func (p *prog) genSink(L int, invalid bool) *sinkSpec {
	r := p.k.R
	sp := &sinkSpec{limit: -1}
	if invalid {
		sp.over = true
		return sp
	}
	switch r.Intn(10) {
	case 0, 1, 2:
		sp.limit = r.Intn(L + 1)
		if r.Intn(4) == 0 {
			sp.limit = []int{0, L - 1, L, 1}[r.Intn(4)]
			if sp.limit < 0 {
				sp.limit = 0
			}
		}
	case 3, 4:
		sp.limit = r.Intn(L + 1)
		sp.short = true
	case 5:
		sp.errFull = true
	}
	sp.withReaderFrom = r.Intn(6) == 0
	return sp
}

// apply executes one step on both buffers and judges it. It returns false when the
// program cannot go on (the two buffers have diverged).
func (p *prog) apply(i int, st *step) bool {
	k := p.k
	name := opNames[st.op]
	pk0 := peekTex(p.t)
	len0 := p.s.Len()
	ot := exec(p.t, st)
	os := exec(p.s, st)
	k.Count("steps", 1)
	k.Count("op_"+name, 1)
	k.Logf("%02d %s -> %s | len=%d", i, st.desc, ot.String(), p.t.Len())

	switch {
	case ot.panicked != os.panicked:
		k.Fail("panic-mismatch:"+name, "step %d %s: tex.Buffer -> %s ; bytes.Buffer -> %s", i, st.desc, ot, os)
		return false
	case ot.panicked:
		if ot.runtime != os.runtime {
			// one side raises an explicit (documented) panic value, the other a run-time error
			k.Fail("panic-kind:"+name, "step %d %s: tex.Buffer -> %s ; bytes.Buffer -> %s", i, st.desc, ot, os)
			return false
		}
		if !ot.runtime {
			k.Count("panic_both_explicit", 1)
			if ot.ptext != os.ptext {
				k.Fail("panic-text:"+name, "step %d %s: tex.Buffer panics with %q, bytes.Buffer with %q", i, st.desc, ot.ptext, os.ptext)
				return false
			}
		} else {
			// run-time slice panics carry internal offsets: only "both panic" is demanded
			k.Count("panic_both_runtime", 1)
		}
	default:
		if ot.res != os.res || !bytes.Equal(ot.data, os.data) {
			k.Fail("result-mismatch:"+name, "step %d %s: tex.Buffer -> %s ; bytes.Buffer -> %s", i, st.desc, ot.res, os.res)
			return false
		}
	}
	if !p.compareState(i, st.desc) {
		return false
	}
	p.cover(st, ot, pk0, len0)
	if !st.observer {
		p.afterGrow = st.op == opGrow
		p.prevOp = st.op
	}
	return true
}

// compareState compares what both buffers expose: Len, Bytes, String.
func (p *prog) compareState(i int, desc string) bool {
	k := p.k
	k.Count("state_compares", 1)
	tl, sl := p.t.Len(), p.s.Len()
	tb, sb := p.t.Bytes(), p.s.Bytes()
	ts, ss := p.t.String(), p.s.String()
	name := "start"
	if i >= 0 {
		name = desc
		if j := indexByte(desc, '('); j > 0 {
			name = desc[:j]
		}
	}
	if tl != sl || len(tb) != tl {
		k.Fail("state-mismatch:"+name, "after step %d %s: tex.Buffer Len()=%d len(Bytes())=%d ; bytes.Buffer Len()=%d", i, desc, tl, len(tb), sl)
		return false
	}
	if !bytes.Equal(tb, sb) {
		d := firstDiff(tb, sb)
		k.Fail("state-mismatch:"+name, "after step %d %s: Bytes() differ at index %d of %d: tex.Buffer %s ; bytes.Buffer %s", i, desc, d, tl, window(tb, d), window(sb, d))
		return false
	}
	if ts != ss || ts != string(tb) {
		k.Fail("state-mismatch:"+name, "after step %d %s: String() differs: tex.Buffer %s ; bytes.Buffer %s", i, desc, fmtBytes([]byte(ts)), fmtBytes([]byte(ss)))
		return false
	}
	// a string returned by String() is an immutable value: strings handed out earlier must still
	// read what they read then, whatever happened to the buffer since (bytes.Buffer copies)
	for _, h := range p.heldStr {
		k.Count("retained_strings_checked", 1)
		if h.s != h.clone {
			k.Fail("retained-string-changed", "after step %d %s: the string returned by String() after step %d read %s then and reads %s now", i, desc, h.at, fmtBytes([]byte(h.clone)), fmtBytes([]byte(h.s)))
			return false
		}
	}
	if len(ts) > 0 && len(p.heldStr) < 4 && (i < 0 || i%3 == 0) {
		p.heldStr = append(p.heldStr, heldString{s: ts, clone: string(append([]byte(nil), ts...)), at: i})
	}
	k.C.Max("unread_len", int64(tl))
	return true
}

func indexByte(s string, c byte) int {
	for i := 0; i < len(s); i++ {
		if s[i] == c {
			return i
		}
	}
	return -1
}

func firstDiff(a, b []byte) int {
	n := len(a)
	if len(b) < n {
		n = len(b)
	}
	for i := 0; i < n; i++ {
		if a[i] != b[i] {
			return i
		}
	}
	return n
}

func window(b []byte, at int) string {
	lo, hi := at-4, at+8
	if lo < 0 {
		lo = 0
	}
	if hi > len(b) {
		hi = len(b)
	}
	return fmt.Sprintf("[%d:%d]=%x", lo, hi, b[lo:hi])
}

// cover counts which clause / branch the step reached. Nothing here is a verdict.
func (p *prog) cover(st *step, o outcome, pk0 peek, len0 int) {
	k := p.k
	len1 := p.s.Len()
	if len1 > len0 {
		p.appended = true
	}
	switch st.op {
	case opRead, opReadByte, opReadRune, opNext, opWriteTo:
		if len1 < len0 {
			p.consumed = true
			p.everRead = true
		}
	}
	// growth path actually taken by tex.Buffer (observed through reflection)
	if st.need >= 0 && !o.panicked && pk0.ok {
		pk1 := peekTex(p.t)
		if pk1.ok {
			switch {
			case pk0.bcap == 0 && pk1.bcap > 0 && pk1.bcap == 64:
				k.Count("grow_path_small_alloc", 1)
			case pk1.bcap != pk0.bcap:
				k.Count("grow_path_realloc", 1)
				if pk0.off > 0 && pk0.m() > 0 {
					k.Count("realloc_with_read_offset", 1)
				}
			case pk0.off > 0 && pk1.off == 0 && pk0.m() == 0:
				k.Count("grow_path_reset_empty", 1)
			case pk0.off > 0 && pk1.off == 0:
				k.Count("grow_path_slide_down", 1)
			default:
				k.Count("grow_path_reslice", 1)
			}
			k.C.Max("capacity", int64(pk1.bcap))
		}
	}
	if st.op == opReadFrom && !o.panicked && pk0.ok {
		if pk1 := peekTex(p.t); pk1.ok && pk1.bcap != pk0.bcap {
			k.Count("readfrom_reallocated", 1)
		}
	}
	has := func(sub string) bool { return bytes.Contains([]byte(o.res), []byte(sub)) }
	switch st.op {
	case opUnreadByte, opUnreadRune:
		n := "unreadbyte"
		if st.op == opUnreadRune {
			n = "unreadrune"
		}
		if has("err=<nil>") {
			k.Count(n+"_ok", 1)
		} else {
			k.Count(n+"_err", 1)
		}
		switch p.prevOp {
		case opWrite, opWriteString, opWriteByte, opWriteRune, opReadFrom:
			k.Count("unread_after_write", 1)
		case opTruncate, opReset:
			k.Count("unread_after_truncate", 1)
		case opUnreadByte, opUnreadRune:
			k.Count("unread_after_unread", 1)
		case opReadRune:
			k.Count("unread_after_readrune", 1)
		case opRead, opNext, opReadByte:
			k.Count("unread_after_read", 1)
			if p.prevZeroRead {
				k.Count("unread_after_zero_read", 1)
			}
		case opWriteTo:
			k.Count("unread_after_writeto", 1)
		}
	case opRead:
		if has("io.EOF") {
			k.Count("read_eof", 1)
		}
		if has("p=[0]") {
			k.Count("read_zero_len_p", 1)
		}
	case opReadByte:
		if has("io.EOF") {
			k.Count("read_eof", 1)
		}
	case opReadRune:
		switch {
		case has("io.EOF"):
			k.Count("read_eof", 1)
		case has("r=U+FFFD size=1"):
			k.Count("readrune_invalid_utf8", 1)
		case has("size=1"):
			k.Count("readrune_ascii", 1)
		default:
			k.Count("readrune_multibyte", 1)
		}
	case opNext:
		if o.panicked {
			k.Count("next_negative", 1)
		} else if len(o.data) < nextArg(st.desc) {
			k.Count("next_beyond_len", 1)
		}
	case opTruncate:
		if o.panicked {
			if bytes.Contains([]byte(st.desc), []byte("(-")) {
				k.Count("truncate_negative", 1)
			} else {
				k.Count("truncate_beyond_len", 1)
			}
		} else if len1 < len0 {
			k.Count("truncate_shortened", 1)
		}
	case opGrow:
		if o.panicked {
			if bytes.Contains([]byte(st.desc), []byte("(-")) {
				k.Count("grow_negative", 1)
			} else {
				k.Count("grow_too_large", 1)
			}
		}
	case opReadFrom:
		switch {
		case o.panicked:
			k.Count("readfrom_negative_count", 1)
		case has("errSrc"):
			k.Count("readfrom_error_at_offset", 1)
		default:
			k.Count("readfrom_ok", 1)
		}
		if !o.panicked && !has("errSrc") && !has("n=0 ") && bytes.Contains([]byte(st.desc), []byte("together")) {
			k.Count("readfrom_data_with_eof", 1)
		}
		if bytes.Contains([]byte(st.desc), []byte("chunk=1}")) || bytes.Contains([]byte(st.desc), []byte("chunk=1 ")) {
			k.Count("readfrom_byte_at_a_time", 1)
		}
		if bytes.Contains([]byte(st.desc), []byte("zeroReads")) {
			k.Count("readfrom_zero_reads", 1)
		}
	case opWriteTo:
		switch {
		case o.panicked:
			k.Count("writeto_overcount", 1)
		case has("io.ErrShortWrite"):
			k.Count("writeto_short_write", 1)
		case has("errSink"):
			k.Count("writeto_error", 1)
		case len0 == 0:
			k.Count("writeto_empty", 1)
		default:
			k.Count("writeto_ok", 1)
		}
	}
	if !st.observer {
		p.prevZeroRead = (st.op == opRead || st.op == opNext) && !o.panicked && len0 > 0 && len1 == len0
	}
}

func nextArg(desc string) int {
	var n int
	fmt.Sscanf(desc, "Next(%d)", &n)
	return n
}

package c11

import (
	"errors"
	"fmt"
	"io"
)

var errSrc = errors.New("c11: source failed")
var errSink = errors.New("c11: sink failed")

// srcSpec describes a ReadFrom source. What it delivers is a fixed byte stream: the
// bytes data[:end] followed by EOF or by an error, where end = failAt (if >= 0) or
// len(data). The size of the slice it is handed only limits how much of that stream
// one call returns, never what the stream is.
type srcSpec struct {
	data     []byte
	chunk    int  // > 0: at most chunk bytes per call (1 = byte at a time)
	failAt   int  // >= 0: errSrc once this many bytes were delivered
	together bool // the final bytes and the EOF / error come in the same call
	zeroAt   int  // >= 0: at this stream position, zeros calls return (0, nil) first
	zeros    int
	negAt    int // >= 0: at this stream position Read returns a negative count
}

func (s *srcSpec) String() string {
	t := fmt.Sprintf("src{data=%s", fmtBytes(s.data))
	if s.chunk > 0 {
		t += fmt.Sprintf(" chunk=%d", s.chunk)
	}
	if s.failAt >= 0 {
		t += fmt.Sprintf(" failAt=%d", s.failAt)
	}
	if s.together {
		t += " together"
	}
	if s.zeroAt >= 0 && s.zeros > 0 {
		t += fmt.Sprintf(" zeroReads=%dx@%d", s.zeros, s.zeroAt)
	}
	if s.negAt >= 0 {
		t += fmt.Sprintf(" negativeCountAt=%d", s.negAt)
	}
	return t + "}"
}

type src struct {
	spec  *srcSpec
	pos   int
	zeros int
	calls int
}

func (s *srcSpec) reader() *src { return &src{spec: s, zeros: s.zeros} }

func (r *src) Read(p []byte) (int, error) {
	sp := r.spec
	r.calls++
	if sp.negAt >= 0 && r.pos >= sp.negAt {
		return -1, nil
	}
	if sp.zeroAt >= 0 && r.pos == sp.zeroAt && r.zeros > 0 {
		r.zeros--
		return 0, nil
	}
	end := len(sp.data)
	var endErr error = io.EOF
	if sp.failAt >= 0 && sp.failAt <= end {
		end = sp.failAt
		endErr = errSrc
	}
	if r.pos >= end {
		return 0, endErr
	}
	n := end - r.pos
	if sp.chunk > 0 && n > sp.chunk {
		n = sp.chunk
	}
	if sp.negAt > r.pos && n > sp.negAt-r.pos {
		n = sp.negAt - r.pos
	}
	if sp.zeroAt > r.pos && r.zeros > 0 && n > sp.zeroAt-r.pos {
		n = sp.zeroAt - r.pos
	}
	if n > len(p) {
		n = len(p)
	}
	copy(p, sp.data[r.pos:r.pos+n])
	r.pos += n
	if r.pos == end && sp.together {
		return n, endErr
	}
	return n, nil
}

// sinkSpec describes a WriteTo sink: it accepts limit bytes in total and then fails
// (or reports a short write without error), or claims more than it was given.
type sinkSpec struct {
	limit   int  // >= 0: accepts this many bytes, < 0: unlimited
	short   bool // on hitting the limit: short count, nil error
	over    bool // returns len(p)+1
	errFull bool // accepts everything and still returns errSink
}

func (s *sinkSpec) String() string {
	switch {
	case s.over:
		return "sink{overcount}"
	case s.errFull:
		return "sink{all+err}"
	case s.limit < 0:
		return "sink{ok}"
	case s.short:
		return fmt.Sprintf("sink{limit=%d short}", s.limit)
	}
	return fmt.Sprintf("sink{limit=%d err}", s.limit)
}

type sink struct {
	spec  *sinkSpec
	got   []byte
	calls int
}

func (s *sinkSpec) writer() *sink { return &sink{spec: s} }

func (w *sink) Write(p []byte) (int, error) {
	sp := w.spec
	w.calls++
	if sp.over {
		return len(p) + 1, nil
	}
	n := len(p)
	if sp.limit >= 0 && len(w.got)+n > sp.limit {
		n = sp.limit - len(w.got)
		w.got = append(w.got, p[:n]...)
		if sp.short {
			return n, nil
		}
		return n, errSink
	}
	w.got = append(w.got, p...)
	if sp.errFull {
		return n, errSink
	}
	return n, nil
}

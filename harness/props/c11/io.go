package c11

import (
	"bytes"
	"errors"
	"fmt"
	"github.com/pinealctx/neptune/tex"
	"io"
)

var errSrc = errors.New("c11: source failed")
var errSink = errors.New("c11: sink failed")

// srcSpec describes a ReadFrom source. What it delivers is a fixed byte stream: the
// bytes data[:end] followed by EOF or by an error, where end = failAt (if >= 0) or
// len(data). The size of the slice it is handed only limits how much of that stream
// one call returns, never what the stream is.
type srcSpec struct {
	data     []byte
	chunk    int  // > 0: at most chunk bytes per call (1 = byte at a time)
	failAt   int  // >= 0: errSrc once this many bytes were delivered
	together bool // the final bytes and the EOF / error come in the same call
	zeroAt   int  // >= 0: at this stream position, zeros calls return (0, nil) first
	zeros    int
	negAt    int // >= 0: at this stream position Read returns a negative count
	endKind  int // how the end of the data is reported: 0 io.EOF, 1 an error wrapping io.EOF, 2 io.ErrUnexpectedEOF, 3 an error whose Is(io.EOF) is true
	// nested: after every delivery the reader (as a real source might) feeds nestedData into
	// another, small buffer of the same implementation through that buffer's ReadFrom - while
	// the outer ReadFrom is still in progress
	nested bool
	// withWriterTo: the source also offers io.WriterTo - with different content. ReadFrom is
	// defined in terms of Read; a buffer that delegates to the source's WriteTo shows here
	withWriterTo bool
}

// srcWT is a source that is an io.WriterTo as well (like a reader wrapping a *bytes.Reader and
// overriding Read): its WriteTo delivers other bytes than its Read.
type srcWT struct {
	*src
	wtCalls int
}

var writerToData = []byte("<<bytes that only WriteTo delivers>>")

func (s *srcWT) WriteTo(w io.Writer) (int64, error) {
	s.wtCalls++
	n, err := w.Write(writerToData)
	return int64(n), err
}

// sinkRF is a sink that is an io.ReaderFrom as well: WriteTo is defined in terms of Write.
type sinkRF struct {
	*sink
	rfCalls int
}

func (s *sinkRF) ReadFrom(r io.Reader) (int64, error) {
	s.rfCalls++
	var b [7]byte
	n, _ := r.Read(b[:])
	s.got = append(s.got, "<<taken by ReadFrom>>"...)
	return int64(n), nil
}

var (
	errWrappedEOF = fmt.Errorf("src: stream ended early: %w", io.EOF)
	errIsEOF      = isEOFError{}
)

type isEOFError struct{}

func (isEOFError) Error() string        { return "src: custom end marker" }
func (isEOFError) Is(target error) bool { return target == io.EOF }

var nestedData = []byte("NESTED-nested-NESTED-nested-0123456789-NESTED-nested")

func (s *srcSpec) String() string {
	t := fmt.Sprintf("src{data=%s", fmtBytes(s.data))
	if s.chunk > 0 {
		t += fmt.Sprintf(" chunk=%d", s.chunk)
	}
	if s.failAt >= 0 {
		t += fmt.Sprintf(" failAt=%d", s.failAt)
	}
	if s.together {
		t += " together"
	}
	if s.zeroAt >= 0 && s.zeros > 0 {
		t += fmt.Sprintf(" zeroReads=%dx@%d", s.zeros, s.zeroAt)
	}
	if s.negAt >= 0 {
		t += fmt.Sprintf(" negativeCountAt=%d", s.negAt)
	}
	if s.endKind > 0 {
		t += " end=" + []string{"EOF", "wrapped-EOF", "ErrUnexpectedEOF", "Is(EOF)-error"}[s.endKind]
	}
	if s.nested {
		t += " nested-ReadFrom-into-sibling"
	}
	if s.withWriterTo {
		t += " also-an-io.WriterTo"
	}
	return t + "}"
}

type src struct {
	spec       *srcSpec
	pos        int
	zeros      int
	calls      int
	sib        buffer // nested mode: the other buffer fed from inside Read
	nestedDone bool
}

func (s *srcSpec) reader() *src { return &src{spec: s, zeros: s.zeros} }

// readerFor: like reader, with a sibling buffer of the same implementation as b for the nested mode.
func (s *srcSpec) readerFor(b buffer) *src {
	r := s.reader()
	if s.nested {
		if _, isTex := b.(*tex.Buffer); isTex {
			r.sib = tex.NewSizedBuffer(8)
		} else {
			r.sib = bytes.NewBuffer(make([]byte, 0, 8))
		}
	}
	return r
}

func (r *src) Read(p []byte) (int, error) {
	sp := r.spec
	r.calls++
	if sp.negAt >= 0 && r.pos >= sp.negAt {
		return -1, nil
	}
	if sp.zeroAt >= 0 && r.pos == sp.zeroAt && r.zeros > 0 {
		r.zeros--
		return 0, nil
	}
	end := len(sp.data)
	var endErr error = []error{io.EOF, errWrappedEOF, io.ErrUnexpectedEOF, errIsEOF}[sp.endKind]
	if sp.failAt >= 0 && sp.failAt <= end {
		end = sp.failAt
		endErr = errSrc
	}
	if r.pos >= end {
		return 0, endErr
	}
	n := end - r.pos
	if sp.chunk > 0 && n > sp.chunk {
		n = sp.chunk
	}
	if sp.negAt > r.pos && n > sp.negAt-r.pos {
		n = sp.negAt - r.pos
	}
	if sp.zeroAt > r.pos && r.zeros > 0 && n > sp.zeroAt-r.pos {
		n = sp.zeroAt - r.pos
	}
	if n > len(p) {
		n = len(p)
	}
	copy(p, sp.data[r.pos:r.pos+n])
	r.pos += n
	if r.sib != nil && !r.nestedDone {
		// once, right after the first delivery (how often a ReadFrom calls Read is up to it)
		r.nestedDone = true
		r.sib.ReadFrom(bytes.NewReader(nestedData))
	}
	if r.pos == end && sp.together {
		return n, endErr
	}
	return n, nil
}

// sinkSpec describes a WriteTo sink: it accepts limit bytes in total and then fails
// (or reports a short write without error), or claims more than it was given.
type sinkSpec struct {
	limit          int  // >= 0: accepts this many bytes, < 0: unlimited
	short          bool // on hitting the limit: short count, nil error
	over           bool // returns len(p)+1
	errFull        bool // accepts everything and still returns errSink
	withReaderFrom bool // the sink is an io.ReaderFrom as well
}

func (s *sinkSpec) String() string {
	if s.withReaderFrom {
		t := *s
		t.withReaderFrom = false
		return t.String() + "+io.ReaderFrom"
	}
	switch {
	case s.over:
		return "sink{overcount}"
	case s.errFull:
		return "sink{all+err}"
	case s.limit < 0:
		return "sink{ok}"
	case s.short:
		return fmt.Sprintf("sink{limit=%d short}", s.limit)
	}
	return fmt.Sprintf("sink{limit=%d err}", s.limit)
}

type sink struct {
	spec  *sinkSpec
	got   []byte
	calls int
}

func (s *sinkSpec) writer() *sink { return &sink{spec: s} }

func (w *sink) Write(p []byte) (int, error) {
	sp := w.spec
	w.calls++
	if sp.over {
		return len(p) + 1, nil
	}
	n := len(p)
	if sp.limit >= 0 && len(w.got)+n > sp.limit {
		n = sp.limit - len(w.got)
		w.got = append(w.got, p[:n]...)
		if sp.short {
			return n, nil
		}
		return n, errSink
	}
	w.got = append(w.got, p...)
	if sp.errFull {
		return n, errSink
	}
	return n, nil
}

package c10

import "io"

// The wire format as stated by the property's anchors, written out independently of
// the code under test (no encoding/binary): fixed widths little-endian, bool = one
// byte (0 / 1; other bytes are not judged), varints base-128 least-significant group first (signed
// ones zig-zag), strings = u32 length + bytes.

const (
	mustOK   = 1
	mustFail = -1
	either   = 0
)

// expect is what the property allows a reader to do on given bytes.
type expect struct {
	must   int  // mustOK / mustFail / either
	hasVal bool // if the read succeeds: value and consumed length are determined
	u      uint64
	b      []byte
	n      int    // bytes consumed on success
	why    string // reason (for counters / witnesses)
}

func le(data []byte, w int) uint64 {
	var v uint64
	for i := 0; i < w; i++ {
		v |= uint64(data[i]) << (8 * uint(i))
	}
	return v
}

const (
	vOK = iota
	vTruncated
	vOverflow
)

// modelUvarint parses a base-128 varint from the front of data.
func modelUvarint(data []byte) (st int, v uint64, n int, canonical bool) {
	for i := 0; i < len(data); i++ {
		if i == 10 {
			return vOverflow, 0, 0, false
		}
		c := data[i]
		if c < 0x80 {
			if i == 9 && c > 1 {
				return vOverflow, 0, 0, false
			}
			return vOK, v | uint64(c)<<(7*uint(i)), i + 1, c != 0 || i == 0
		}
		v |= uint64(c&0x7f) << (7 * uint(i))
	}
	if len(data) >= 10 {
		return vOverflow, 0, 0, false
	}
	return vTruncated, 0, 0, false
}

// modelRead says what reading op from the front of data may produce.
func modelRead(data []byte, op rop) expect {
	if w := op.k.fixedWidth(); w > 0 {
		if len(data) < w {
			return expect{must: mustFail, why: "truncated_fixed"}
		}
		v := le(data, w)
		switch op.k {
		case oBool:
			if v > 1 {
				// the writer only produces 0 and 1; what another byte means is not stated
				return expect{must: either, why: "bool_other_byte"}
			}
		case oI16:
			v = sext(v, 16)
		case oI32:
			v = sext(v, 32)
		}
		return expect{must: mustOK, hasVal: true, u: v, n: w, why: "fixed"}
	}
	switch op.k {
	case oStr, oLimStr:
		if len(data) < 4 {
			return expect{must: mustFail, why: "truncated_length_prefix"}
		}
		n := le(data, 4)
		if op.k == oLimStr && n > uint64(op.limit) {
			// a size-limited read must not hand out a string longer than its limit
			return expect{must: mustFail, why: "over_limit"}
		}
		if uint64(len(data)-4) < n {
			return expect{must: mustFail, why: "truncated_string_body"}
		}
		return expect{must: mustOK, hasVal: true, b: data[4 : 4+int(n)], n: 4 + int(n), why: "string"}
	case oRaw, oRawN, oRawZ:
		if op.n < 0 {
			return expect{must: either, why: "negative_n"} // refused by contract; only "no panic" is asked
		}
		if op.n == 0 {
			// empty raw reads: the statement names the empty string, not empty raw
			// bytes (ReadN refuses 0 by contract) - a success has to be empty, though
			return expect{must: either, hasVal: true, b: nil, n: 0, why: "zero_n"}
		}
		if len(data) < op.n {
			return expect{must: mustFail, why: "truncated_raw"}
		}
		return expect{must: mustOK, hasVal: true, b: data[:op.n], n: op.n, why: "raw"}
	case oVarU64, oVarI64, oVarU32, oVarI32:
		st, v, n, canon := modelUvarint(data)
		switch st {
		case vTruncated:
			return expect{must: mustFail, why: "truncated_varint"}
		case vOverflow:
			return expect{must: either, why: "varint_overflow"} // over-wide input: not judged
		}
		e := expect{must: mustOK, hasVal: true, n: n, why: "varint"}
		if !canon {
			// padded encodings are never produced by the writers; a strict decoder may refuse them
			e.must, e.why = either, "varint_noncanonical"
		}
		switch op.k {
		case oVarU64:
			e.u = v
		case oVarI64:
			e.u = unzigzag(v)
		case oVarU32:
			if v > 0xffffffff {
				return expect{must: either, why: "varint_narrowing"} // over-wide for the 32-bit reader: not judged
			}
			e.u = v
		case oVarI32:
			s := int64(unzigzag(v))
			if s > 0x7fffffff || s < -0x80000000 {
				return expect{must: either, why: "varint_narrowing"}
			}
			e.u = uint64(s)
		}
		return e
	}
	panic("harness: unknown kind")
}

// ---------------------------------------------------------------- fragmenting readers

const (
	chOne = iota
	chTwo
	chRandom
	chHalf
	chAll
	chDataEOF
	nChunkings
)

var chunkName = [nChunkings]string{"1-byte", "2-byte", "random", "half", "all-at-once", "data+EOF"}

// chunkReader is an io.Reader over data that fragments it in a fixed way. It follows
// the io.Reader contract: 0 < n <= len(p) bytes per call until the data is used up,
// then (0, io.EOF); the data+EOF mode returns the final bytes together with io.EOF.
type chunkReader struct {
	data  []byte
	pos   int
	mode  int
	sizes []int // chRandom / chDataEOF: cyclic chunk sizes (0 = unlimited)
	si    int
	half  int
	calls int  // Read calls with len(p) > 0
	dEOF  bool // the last call returned data together with io.EOF
}

func (c *chunkReader) Read(p []byte) (int, error) {
	if len(p) == 0 {
		return 0, nil
	}
	c.calls++
	c.dEOF = false
	rem := len(c.data) - c.pos
	if rem == 0 {
		return 0, io.EOF
	}
	n := len(p)
	if n > rem {
		n = rem
	}
	lim := 0
	switch c.mode {
	case chOne:
		lim = 1
	case chTwo:
		lim = 2
	case chRandom, chDataEOF:
		if len(c.sizes) > 0 {
			lim = c.sizes[c.si%len(c.sizes)]
			c.si++
		}
	case chHalf:
		if c.pos < c.half {
			lim = c.half - c.pos
		}
	}
	if lim > 0 && n > lim {
		n = lim
	}
	copy(p, c.data[c.pos:c.pos+n])
	c.pos += n
	if c.mode == chDataEOF && c.pos == len(c.data) {
		c.dEOF = true
		return n, io.EOF
	}
	return n, nil
}

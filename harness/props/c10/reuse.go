package c10

import (
	"fmt"
	"strings"

	"verifh/engine"
)

// reuseCase: one buffer used for several messages in a row, as a connection does: write a
// sequence, read it back (fully, partly or not at all), Reset, next message. Some messages
// carry one bulk payload (4 KiB .. 200 KiB) so that the buffer grows far beyond its initial
// storage before it is reset; the slices handed to Write are the caller's own and are
// overwritten right after the call. Every message must read back exactly as written, an
// emptied or reset buffer must report Len()==0 and no bytes.
func reuseCase(k *engine.Case) {
	r := k.R
	b, ctor := newBuffer(r)
	rounds := 2 + r.Intn(4)
	k.Nontrivial()
	var hist []string
	describe := func() string { return ctor + "; " + strings.Join(hist, "; ") }
	guarded(k, describe, func() {
		for round := 0; round < rounds; round++ {
			n := 1 + r.Intn(6)
			bulkAt := -1
			switch r.Intn(4) {
			case 0, 1:
				bulkAt = 0
			case 2:
				bulkAt = r.Intn(n)
			}
			var items []item
			for i := 0; i < n; i++ {
				if i == bulkAt {
					sz := []int{1024, 1025, 4095, 4096, 4097, 5000, 65535, 65536, 65537, 70000, 200000}[r.Intn(11)]
					it := item{k: []opKind{oRaw, oRawN, oRawZ, oStr}[r.Intn(4)], b: make([]byte, sz)}
					r.Read(it.b)
					items = append(items, it)
					k.Count("reuse_bulk_items", 1)
					continue
				}
				it, _ := genItem(r, genOpts{small: true})
				items = append(items, it)
			}
			markDistinct(k, streamKey('U', items, []byte{byte(round)}))
			for i := range items {
				if err := execWrite(b, &items[i]); err != nil {
					k.Fail("limit-write-refused", "round %d: %s refused: %v; %s", round, items[i].String(), err, describe())
					return
				}
			}
			hist = append(hist, fmt.Sprintf("message %d: write %s", round, itemsString(items)))
			mode := r.Intn(4) // 0,1: read everything back; 2: read a prefix, then Reset; 3: Reset at once
			nread := len(items)
			switch mode {
			case 2:
				nread = r.Intn(len(items))
			case 3:
				nread = 0
			}
			k.Evals(1)
			for i := 0; i < nread; i++ {
				it := &items[i]
				op := it.readOp()
				res := execBuf(b, op)
				if it.k.isRaw() && len(it.b) == 0 {
					continue
				}
				if !res.ok {
					k.Fail("roundtrip-error", "message %d read #%d %s failed with %v, written %s; %s", round, i, op, res.err, it.String(), describe())
					return
				}
				if !sameValue(it.k, it.u, it.b, res) {
					k.Fail("roundtrip-mismatch", "message %d read #%d %s returned %s, written %s; %s", round, i, op, res.str(it.k), it.String(), describe())
					return
				}
			}
			if nread == len(items) {
				hist = append(hist, "read all back")
				if b.Len() != 0 {
					k.Fail("roundtrip-not-empty", "message %d: after reading back all %d items Len()=%d; %s", round, len(items), b.Len(), describe())
					return
				}
				k.Count("reuse_messages_read_back", 1)
			} else {
				hist = append(hist, fmt.Sprintf("read %d items back", nread))
			}
			if nread < len(items) || r.Intn(2) == 0 {
				b.Reset()
				hist = append(hist, "Reset()")
				k.Count("reuse_resets", 1)
				if b.Len() != 0 || len(b.Bytes()) != 0 {
					k.Fail("reset-residue", "after Reset() Len()=%d and Bytes() has %d bytes; %s", b.Len(), len(b.Bytes()), describe())
					return
				}
			}
		}
		// the buffer is empty: a read that needs a byte reports an error
		op := rop{k: needsByte[r.Intn(len(needsByte))]}
		if res := execBuf(b, op); res.ok {
			k.Fail("empty-read-no-error", "%s on the emptied buffer returned %s instead of an error; %s", op, res.str(op.k), describe())
			return
		}
	})
	if !k.Failed() {
		k.Logf("%s: every message read back as written", describe())
	}
	k.Count("reuse_cases", 1)
}

package c10

import (
	"bytes"
	"fmt"
	"io"
	"math/rand"
	"runtime"
	"sync"

	"verifh/engine"

	"github.com/pinealctx/neptune/bytex"
)

// concCase: encoders and decoders are values. Several goroutines, each with buffers of its
// own that no other goroutine touches, write their own sequence of typed values and read it
// back (through BufferX and through ReaderX) at the same time; each must get back exactly
// what it wrote. Expected values are fixed before the goroutines start. (A codec that keeps
// intermediate bytes in package-level scratch space mixes the callers' values.)
func concCase(k *engine.Case) {
	r := k.R
	old := runtime.GOMAXPROCS([]int{2, 4, 8, 16}[r.Intn(4)])
	defer runtime.GOMAXPROCS(old)
	workers := 4 + r.Intn(9)
	rounds := 120
	type job struct {
		items []item
		seed  int64
	}
	jobs := make([]job, workers)
	varKinds := []opKind{oVarU64, oVarI64, oVarU32, oVarI32}
	for w := range jobs {
		n := 8 + r.Intn(25)
		for i := 0; i < n; i++ {
			it, _ := genItem(r, genOpts{streamOnly: true, small: true})
			if w%2 == 1 && r.Intn(3) > 0 {
				// odd goroutines: mostly varints (several bytes built per call; BufferX only, the
				// stream reader has no varint calls)
				it = item{k: varKinds[r.Intn(4)]}
				switch it.k {
				case oVarU64:
					it.u, _ = genVarBits(r, 64)
				case oVarI64:
					it.u, _ = genVarBits(r, 64)
				case oVarU32:
					it.u, _ = genVarBits(r, 32)
				default:
					it.u, _ = genVarBits(r, 32)
					it.u = sext(it.u, 32)
				}
			}
			jobs[w].items = append(jobs[w].items, it)
		}
		jobs[w].seed = r.Int63()
	}
	k.Logf("%d goroutines write and read back their own value sequences on their own buffers, %d rounds each; first sequence: %s", workers, rounds, itemsString(jobs[0].items))
	k.Nontrivial()
	var mu sync.Mutex
	bad, first := 0, ""
	report := func(f string, a ...any) {
		mu.Lock()
		bad++
		if first == "" {
			first = fmt.Sprintf(f, a...)
		}
		mu.Unlock()
	}
	start := make(chan struct{})
	var wg sync.WaitGroup
	for w := range jobs {
		j := &jobs[w]
		w := w
		wg.Add(1)
		go func() {
			defer wg.Done()
			defer func() {
				if p := recover(); p != nil {
					report("goroutine %d panicked: %v", w, p)
				}
			}()
			lr := rand.New(rand.NewSource(j.seed))
			<-start
			for n := 0; n < rounds; n++ {
				b, _ := newBuffer(lr)
				for i := range j.items {
					if err := execWrite(b, &j.items[i]); err != nil {
						report("goroutine %d round %d: write of %s failed: %v", w, n, &j.items[i], err)
						return
					}
				}
				data := append([]byte(nil), b.Bytes()...)
				for i := range j.items {
					it := &j.items[i]
					res := execBuf(b, it.readOp())
					if !res.ok || !sameValue(it.k, it.u, it.b, res) {
						report("goroutine %d round %d: wrote %s (value %d of its own sequence %s), BufferX read back %s (err %v)", w, n, it, i, itemsString(j.items), res.str(it.k), res.err)
						return
					}
				}
				if b.Len() != 0 {
					report("goroutine %d round %d: %d bytes left in the buffer after reading everything back", w, n, b.Len())
					return
				}
				if w%2 == 1 {
					continue
				}
				rx := bytex.NewReaderX(bytes.NewReader(data))
				for i := range j.items {
					it := &j.items[i]
					res := execStream(rx, it.readOp())
					if !res.ok || !sameValue(it.k, it.u, it.b, res) {
						report("goroutine %d round %d: wrote %s (value %d of its own sequence %s), ReaderX read back %s (err %v)", w, n, it, i, itemsString(j.items), res.str(it.k), res.err)
						return
					}
				}
			}
		}()
	}
	close(start)
	wg.Wait()
	k.Evals(int64(workers * rounds))
	k.Count("conc_roundtrips", int64(workers*rounds))
	if bad > 0 {
		k.Fail("concurrent-roundtrip", "%d of %d goroutines working on their own buffers did not get back what they wrote; first: %s", bad, workers, first)
	}
}

// bigStringCase: length-prefixed strings far beyond the usual sizes (around 1 MiB, 2 MiB,
// 16 MiB): written once, read back by the buffer reader and by the stream reader over a
// fragmenting source; both must return the string (and a limited read with a limit at or above
// the length too).
func bigStringCase(k *engine.Case) {
	r := k.R
	base := []int{1 << 20, 1<<20 + 1, 1<<20 - 1, 2 << 20, 3<<20 + 5, 1 << 24}[r.Intn(6)]
	n := base + []int{0, 0, 1, 7}[r.Intn(4)]
	body := make([]byte, n)
	r.Read(body)
	want := string(body)
	k.Logf("one string of %d bytes, then the byte 0x7f", n)
	k.Nontrivial()
	markDistinct(k, []byte(fmt.Sprintf("bigstring-%d-%d", n, r.Int63())))
	b := bytex.NewBufferX()
	b.WriteString(want)
	b.WriteU8(0x7f)
	data := append([]byte(nil), b.Bytes()...)
	if len(data) != 4+n+1 {
		k.Fail("roundtrip-mismatch", "WriteString of %d bytes followed by WriteU8 produced %d bytes, expected %d", n, len(data), 4+n+1)
		return
	}
	k.Evals(1)
	got, err := b.ReadString()
	if err != nil || got != want {
		k.Fail("roundtrip-mismatch", "BufferX.ReadString of a %d-byte string returned %d bytes, err=%v", n, len(got), err)
		return
	}
	if v, err := b.ReadU8(); err != nil || v != 0x7f || b.Len() != 0 {
		k.Fail("roundtrip-mismatch", "after the %d-byte string BufferX read the next byte as (%#x, %v), %d bytes left", n, v, err, b.Len())
		return
	}
	for mode := 0; mode < 3; mode++ {
		var src io.Reader = bytes.NewReader(data)
		name := "whole"
		switch mode {
		case 1:
			src, name = &fixedChunks{data: data, n: 4096}, "4 KiB at a time"
		case 2:
			src, name = &fixedChunks{data: data, n: 1 + r.Intn(100000)}, "odd chunks"
		}
		rx := bytex.NewReaderX(src)
		k.Evals(1)
		var s string
		var err error
		limited := r.Intn(2) == 0
		if limited {
			s, err = rx.ReadLimitString(uint32(n + r.Intn(3)))
		} else {
			s, err = rx.ReadString()
		}
		if err != nil || s != want {
			k.Fail("stream-mismatch/big-string", "ReaderX (%s, limited read: %v) returned %d bytes, err=%v for a string of %d bytes that BufferX reads back", name, limited, len(s), err, n)
			return
		}
		if v, err := rx.ReadByte(); err != nil || v != 0x7f {
			k.Fail("stream-mismatch/big-string", "ReaderX (%s): the byte after the %d-byte string read as (%#x, %v)", name, n, v, err)
			return
		}
	}
	k.Count("big_strings", 1)
}

type fixedChunks struct {
	data []byte
	n    int
	pos  int
}

func (f *fixedChunks) Read(p []byte) (int, error) {
	if f.pos >= len(f.data) {
		return 0, io.EOF
	}
	n := f.n
	if n > len(p) {
		n = len(p)
	}
	if n > len(f.data)-f.pos {
		n = len(f.data) - f.pos
	}
	copy(p, f.data[f.pos:f.pos+n])
	f.pos += n
	return n, nil
}

// Package c10 monitors the bytex typed stream codec: write/read round trips and
// in-place rewrites on BufferX, decoder robustness on truncated and arbitrary bytes,
// and agreement of the stream reader (ReaderX) with the buffer reader under every
// fragmentation of the source io.Reader.
package c10

import (
	"bytes"
	"encoding/binary"
	"fmt"
	"math/rand"
	"runtime/debug"
	"strings"

	"verifh/engine"

	"github.com/pinealctx/neptune/bytex"
)

// Prop is the C10 check.
var Prop = &engine.Prop{
	ID:    "C10",
	Level: "exploration",
	Rule: "inputs are seed-generated: (roundtrip) a sequence of typed writes with values biased to the extremes of each width, varint length boundaries, NaN payloads, " +
		"empty/long strings and limits equal to / one below the length, interleaved with in-place rewrites, read back with the matching readers; " +
		"(truncate) every prefix of a valid stream read with the matching readers; (garbage) random, token-soup and mutated-valid byte strings read with an adaptive random reader program " +
		"and judged by an independent model of the wire format; (stream) valid, truncated, mutated and random byte strings decoded by ReaderX over six fragmentations and compared with BufferX. " +
		"evaluations = write sequences + truncation-swept streams (all prefixes of one stream count once; see tr_prefixes) + garbage inputs + stream inputs (the six fragmentations of one input count once; see st_chunk_runs); " +
		"non-trivial = a sequence of >= 2 writes, a non-empty swept stream, a non-empty garbage input, a stream input with a multi-byte read; distinct = distinct (bytes, reader program) pairs",
	Assumptions: []string{
		"the wire format of the anchors (little-endian fixed widths, base-128 varints with zig-zag, u32 length prefix) is the reference for decoding arbitrary bytes; round trips and truncation sweeps use no format knowledge",
		"ReWrite/ReWriteU32 are judged at valid positions only (pos+len <= Len(), before any read); out-of-range positions are misuse",
		"empty raw reads (Read(p[0]), ReadN(0), ZReadN(0)) and negative lengths are not judged on BufferX (ReadN refuses n <= 0 by contract); ReaderX is only required to succeed/fail like BufferX on them",
		"over-wide varints (more than 64 bits, or more than 32 bits for the 32-bit readers) and zero-padded varints are not judged",
		"stream path: inputs whose next announced string length exceeds 2^20 are not sent through ReaderX (it must allocate what the prefix announces)",
		"a bool byte other than 0/1 is not judged on BufferX (the writer never produces it); ReaderX still has to agree with BufferX on it",
		"size-limited means: WriteLimitString refuses exactly the strings longer than the limit and then writes nothing; ReadLimitString reports an error when the announced length exceeds the limit",
		"after the first failed read of a program nothing further is compared (the position after a failure is unspecified)",
		"float64 values pass through registers without NaN quieting (amd64/arm64)",
	},
	ShardsQuick: 4, ShardsThorough: 16,
	Kinds: []engine.Kind{
		{Name: "roundtrip", Quick: 6400, Thorough: 768000, Fn: roundtripCase},
		{Name: "truncate", Quick: 4800, Thorough: 576000, Fn: truncateCase},
		{Name: "garbage", Quick: 6400, Thorough: 768000, Fn: garbageCase},
		{Name: "stream", Quick: 6400, Thorough: 768000, Fn: streamCase},
		{Name: "conc", Quick: 80, Thorough: 4000, Fn: concCase},
		{Name: "big-string", Quick: 16, Thorough: 400, Fn: bigStringCase},
		{Name: "reuse", Quick: 1600, Thorough: 96000, Fn: reuseCase},
	},
	Floors: map[string]int64{
		"rt_sequences":           2000,
		"rt_empty_string":        200,
		"rt_nan_payload":         100,
		"rt_limit_eq_len":        100,
		"rt_limit_write_refused": 50,
		"rt_rewrite_checked":     500,
		"tr_prefixes":            20000,
		"tr_cut_inside_value":    5000,
		"gb_must_fail":           1000,
		"gb_must_ok":             5000,
		"gb_over_limit":          50,
		"st_inputs":              2000,
		"st_split_reads":         2000,
		"st_empty_string":        100,
		"st_data_with_eof":       100,
		"st_both_fail":           500,
		"st_chunk_runs":          10000,
		"reuse_resets":           500,
		"reuse_bulk_items":       500,
	},
}

const logPerCase = 10

// markDistinct registers one non-trivial input (and makes the case eligible as a sample).
func markDistinct(k *engine.Case, key []byte) {
	k.Nontrivial()
	k.DistinctBytes(key)
}

func init() {
	// every writer, every buffer reader and every stream reader has to be exercised
	for o := opKind(0); o < nOps; o++ {
		Prop.Floors["rt_w_"+opName[o]] = 50
		Prop.Floors["gb_r_"+opName[o]] = 50
		if o < nStreamOps {
			Prop.Floors["st_r_"+opName[o]] = 50
		}
	}
}

// guarded runs fn; a panic escaping neptune code on an in-domain input is the
// violation class "panic", reported with the input that caused it.
func guarded(k *engine.Case, what func() string, fn func()) {
	defer func() {
		if r := recover(); r != nil {
			st := string(debug.Stack())
			if len(st) > 2500 {
				st = st[:2500]
			}
			k.Fail("panic", "panic: %v\ninput: %s\n%s", r, what(), st)
		}
	}()
	fn()
}

func newBuffer(r *rand.Rand) (*bytex.BufferX, string) {
	switch r.Intn(4) {
	case 0:
		return bytex.NewBufferX(), "NewBufferX()"
	case 1:
		return bytex.NewSizedBufferX(0), "NewSizedBufferX(0)"
	case 2:
		n := 1 + r.Intn(8)
		return bytex.NewSizedBufferX(n), fmt.Sprintf("NewSizedBufferX(%d)", n)
	}
	n := 16 << uint(r.Intn(6))
	return bytex.NewSizedBufferX(n), fmt.Sprintf("NewSizedBufferX(%d)", n)
}

// stream is a sequence of accepted writes and what the buffer looked like.
type stream struct {
	ctor   string
	b      *bytex.BufferX
	items  []item
	ends   []int // Len() after each accepted item
	notes  []string
	failed bool
}

func (s *stream) start(i int) int {
	if i == 0 {
		return 0
	}
	return s.ends[i-1]
}

func (s *stream) describe() string {
	d := s.ctor + ": " + itemsString(s.items)
	if len(s.notes) > 0 {
		n := s.notes
		if len(n) > 12 {
			n = n[len(n)-12:]
		}
		d += " | " + strings.Join(n, "; ")
	}
	return d
}

// countItem records which writer / which special value was exercised.
func countItem(k *engine.Case, pfx string, it *item, extreme bool) {
	k.Count(pfx+"_w_"+opName[it.k], 1)
	if extreme {
		k.Count(pfx+"_extreme_value", 1)
	}
	switch it.k {
	case oStr, oLimStr:
		if len(it.b) == 0 {
			k.Count(pfx+"_empty_string", 1)
		}
		if len(it.b) >= 255 {
			k.Count(pfx+"_long_string", 1)
		}
		if it.k == oLimStr && int(it.limit) == len(it.b) {
			k.Count(pfx+"_limit_eq_len", 1)
		}
	case oRaw, oRawZ:
		if len(it.b) == 0 {
			k.Count(pfx+"_empty_raw", 1)
		}
	}
}

// writeItems performs n generated writes on a fresh buffer, checking what the
// statement says about the write side (a limited string write is refused exactly when
// the string is longer than the limit, and then writes nothing). rewrites adds in-place
// rewrites between the writes.
func writeItems(k *engine.Case, pfx string, n int, o genOpts, rewrites bool) *stream {
	r := k.R
	s := &stream{}
	s.b, s.ctor = newBuffer(r)
	for i := 0; i < n; i++ {
		it, extreme := genItem(r, o)
		if it.k == oF64 && extreme {
			k.Count(pfx+"_nan_payload", 1)
			extreme = false
		}
		var before []byte
		if it.reject {
			before = append([]byte(nil), s.b.Bytes()...)
		}
		err := execWrite(s.b, &it)
		if it.reject {
			k.Count(pfx+"_limit_write_refused", 1)
			if int(it.limit) == len(it.b)-1 {
				k.Count(pfx+"_limit_one_below_len", 1)
			}
			if err == nil {
				s.failed = true
				k.Fail("limit-write-accepted", "WriteLimitString(limit=%d) accepted a string of length %d; after %s", it.limit, len(it.b), s.describe())
				return s
			}
			if !bytes.Equal(before, s.b.Bytes()) {
				s.failed = true
				k.Fail("limit-write-residue", "refused WriteLimitString(limit=%d, %s) changed the buffer from %s to %s; after %s",
					it.limit, short(it.b), short(before), short(s.b.Bytes()), s.describe())
				return s
			}
			s.notes = append(s.notes, fmt.Sprintf("after #%d %s -> %v", len(s.items), it.String(), err))
			continue
		}
		if err != nil {
			s.failed = true
			k.Fail("limit-write-refused", "WriteLimitString(limit=%d) refused a string of length %d: %v; after %s", it.limit, len(it.b), err, s.describe())
			return s
		}
		countItem(k, pfx, &it, extreme)
		s.items = append(s.items, it)
		s.ends = append(s.ends, s.b.Len())
		if rewrites && r.Intn(100) < 14 {
			if !rewriteStep(k, s) {
				s.failed = true
				return s
			}
		}
	}
	return s
}

// encodeAlone returns the bytes the code under test writes for one item (used to
// build slot rewrites without assuming a byte order).
func encodeAlone(it *item) []byte {
	sb := bytex.NewSizedBufferX(16)
	_ = execWrite(sb, it)
	return append([]byte(nil), sb.Bytes()...)
}

// checkedRewrite performs ReWrite / ReWriteU32 and verifies that exactly the addressed
// bytes changed. want are the bytes expected at pos.
func checkedRewrite(k *engine.Case, s *stream, what string, pos int, want []byte, do func()) bool {
	before := append([]byte(nil), s.b.Bytes()...)
	do()
	after := s.b.Bytes()
	k.Count("rt_rewrite_checked", 1)
	model := append([]byte(nil), before...)
	copy(model[pos:], want)
	if !bytes.Equal(after, model) {
		d := -1
		for i := range model {
			if i >= len(after) || after[i] != model[i] {
				d = i
				break
			}
		}
		k.Fail("rewrite-mismatch", "%s at pos %d (buffer of %d bytes): buffer is not the old content with bytes [%d,%d) replaced by %s; first difference at offset %d, len after=%d; %s",
			what, pos, len(before), pos, pos+len(want), short(want), d, len(after), s.describe())
		return false
	}
	return true
}

func rewriteStep(k *engine.Case, s *stream) bool {
	r := k.R
	l := s.b.Len()
	switch r.Intn(4) {
	case 0: // ReWriteU32 on the slot of an earlier 32-bit value (the "patch the header" use)
		var cand []int
		for i := range s.items {
			if s.items[i].k == oU32 || s.items[i].k == oI32 {
				cand = append(cand, i)
			}
		}
		if len(cand) == 0 {
			return true
		}
		i := cand[r.Intn(len(cand))]
		v, _ := genBits(r, 32)
		pos := s.start(i)
		want := encodeAlone(&item{k: oU32, u: v})
		k.Count("rt_rewriteu32_slot", 1)
		s.notes = append(s.notes, fmt.Sprintf("ReWriteU32(%d,%#x) on item #%d", pos, v, i))
		if !checkedRewrite(k, s, fmt.Sprintf("ReWriteU32(%d,%#x)", pos, v), pos, want, func() { s.b.ReWriteU32(pos, uint32(v)) }) {
			return false
		}
		if s.items[i].k == oI32 {
			v = sext(v, 32)
		}
		s.items[i].u = v
	case 1: // ReWrite of the whole encoding of an earlier item with a new value of the same length
		var cand []int
		for i := range s.items {
			if !s.items[i].k.isVarint() {
				cand = append(cand, i)
			}
		}
		if len(cand) == 0 {
			return true
		}
		i := cand[r.Intn(len(cand))]
		old := &s.items[i]
		nw := *old
		switch {
		case old.k == oBool:
			nw.u = uint64(r.Intn(2))
		case old.k == oF64:
			nw.u, _ = genF64Bits(r)
		case old.k.fixedWidth() > 0:
			w := uint(8 * old.k.fixedWidth())
			nw.u, _ = genBits(r, w)
			if old.k == oI16 || old.k == oI32 {
				nw.u = sext(nw.u, w)
			}
		default:
			nw.b = make([]byte, len(old.b))
			r.Read(nw.b)
		}
		enc := encodeAlone(&nw)
		pos := s.start(i)
		if len(enc) != s.ends[i]-pos {
			return true // cannot happen for these kinds; do not judge
		}
		k.Count("rt_rewrite_slot", 1)
		s.notes = append(s.notes, fmt.Sprintf("ReWrite(%d,%s) = item #%d := %s", pos, short(enc), i, nw.String()))
		if !checkedRewrite(k, s, fmt.Sprintf("ReWrite(%d,%s)", pos, short(enc)), pos, enc, func() { s.b.ReWrite(pos, enc) }) {
			return false
		}
		s.items[i] = nw
	case 2: // ReWrite of an arbitrary valid range, then put the old bytes back
		pos := r.Intn(l + 1)
		n := l - pos
		if n > 0 {
			switch r.Intn(3) {
			case 0:
				n = r.Intn(n + 1)
			case 1:
				if n > 9 {
					n = 1 + r.Intn(9)
				}
			}
		}
		p := make([]byte, n)
		r.Read(p)
		orig := append([]byte(nil), s.b.Bytes()[pos:pos+n]...)
		k.Count("rt_rewrite_arbitrary", 1)
		if n == 0 {
			k.Count("rt_rewrite_empty", 1)
		}
		if pos+n == l {
			k.Count("rt_rewrite_to_end", 1)
		}
		s.notes = append(s.notes, fmt.Sprintf("ReWrite(%d,%s) and back", pos, short(p)))
		if !checkedRewrite(k, s, fmt.Sprintf("ReWrite(%d,%s)", pos, short(p)), pos, p, func() { s.b.ReWrite(pos, p) }) {
			return false
		}
		if !checkedRewrite(k, s, fmt.Sprintf("restoring ReWrite(%d,%s)", pos, short(orig)), pos, orig, func() { s.b.ReWrite(pos, orig) }) {
			return false
		}
	case 3: // ReWriteU32 at an arbitrary valid position, then put the old bytes back
		if l < 4 {
			return true
		}
		pos := r.Intn(l - 3)
		if r.Intn(4) == 0 {
			pos = l - 4
		}
		v, _ := genBits(r, 32)
		want := encodeAlone(&item{k: oU32, u: v})
		orig := append([]byte(nil), s.b.Bytes()[pos:pos+4]...)
		k.Count("rt_rewriteu32_arbitrary", 1)
		s.notes = append(s.notes, fmt.Sprintf("ReWriteU32(%d,%#x) and back", pos, v))
		if !checkedRewrite(k, s, fmt.Sprintf("ReWriteU32(%d,%#x)", pos, v), pos, want, func() { s.b.ReWriteU32(pos, uint32(v)) }) {
			return false
		}
		if !checkedRewrite(k, s, fmt.Sprintf("restoring ReWrite(%d,%s)", pos, short(orig)), pos, orig, func() { s.b.ReWrite(pos, orig) }) {
			return false
		}
	}
	return true
}

// needsByte lists kinds whose read needs at least one byte (used to probe an empty buffer).
var needsByte = []opKind{oBool, oU8, oU16, oI16, oU32, oI32, oU64, oI64, oF64, oStr, oLimStr, oVarU64, oVarI64, oVarU32, oVarI32}

func streamKey(tag byte, items []item, data []byte) []byte {
	key := make([]byte, 0, 2+5*len(items)+len(data))
	key = append(key, tag)
	for i := range items {
		key = append(key, byte(items[i].k))
		if items[i].k == oLimStr {
			key = binary.LittleEndian.AppendUint32(key, items[i].limit)
		}
	}
	key = append(key, 0xfe)
	return append(key, data...)
}

func progKey(tag byte, prog []rop, data []byte) []byte {
	key := make([]byte, 0, 2+9*len(prog)+len(data))
	key = append(key, tag)
	for _, op := range prog {
		key = append(key, byte(op.k))
		key = binary.LittleEndian.AppendUint32(key, uint32(op.n))
		key = binary.LittleEndian.AppendUint32(key, op.limit)
	}
	key = append(key, 0xfe)
	return append(key, data...)
}

// ---------------------------------------------------------------- (1) round trip

func seqLen(r *rand.Rand) int {
	switch p := r.Intn(10); {
	case p == 0:
		return 1
	case p < 7:
		return 2 + r.Intn(10)
	}
	return 12 + r.Intn(20)
}

func roundtripCase(k *engine.Case) {
	const batch = 25
	for i := 0; i < batch; i++ {
		var s *stream
		guarded(k, func() string {
			if s == nil {
				return "(while generating)"
			}
			return s.describe()
		}, func() { s = oneRoundtrip(k, i) })
	}
}

func oneRoundtrip(k *engine.Case, idx int) *stream {
	r := k.R
	s := writeItems(k, "rt", seqLen(r), genOpts{allowReject: true}, true)
	k.Evals(1)
	k.Count("rt_sequences", 1)
	k.Count("rt_items", int64(len(s.items)))
	if s.failed {
		return s
	}
	data := append([]byte(nil), s.b.Bytes()...)
	if len(s.items) >= 2 {
		markDistinct(k, streamKey('R', s.items, data))
	}
	if len(data) > 1024 {
		k.Count("rt_stream_over_1k", 1)
	}
	rb := s.b
	src := "same buffer"
	if r.Intn(3) == 0 {
		rb = bytex.NewReadableBufferX(append([]byte(nil), data...))
		src = "NewReadableBufferX(copy of Bytes())"
		k.Count("rt_read_from_readable_copy", 1)
	} else {
		k.Count("rt_read_from_same_buffer", 1)
	}
	if rb.Len() != len(data) {
		k.Fail("len-mismatch", "%s: Len()=%d but Bytes() has %d bytes; %s", src, rb.Len(), len(data), s.describe())
		return s
	}
	for i := range s.items {
		it := &s.items[i]
		op := it.readOp()
		res := execBuf(rb, op)
		if it.k.isRaw() && len(it.b) == 0 {
			// empty raw read: not judged beyond "a success is empty"
			if res.ok && len(res.b) != 0 {
				k.Fail("roundtrip-mismatch", "%s returned %s for an empty write; %s", op, res.str(it.k), s.describe())
				return s
			}
			continue
		}
		if !res.ok {
			k.Fail("roundtrip-error", "read #%d %s (from %s) failed with %v, written %s; sequence %s", i, op, src, res.err, it.String(), s.describe())
			return s
		}
		if !sameValue(it.k, it.u, it.b, res) {
			k.Fail("roundtrip-mismatch", "read #%d %s (from %s) returned %s, written %s; sequence %s", i, op, src, res.str(it.k), it.String(), s.describe())
			return s
		}
	}
	if rb.Len() != 0 {
		k.Fail("roundtrip-not-empty", "after reading back all %d items Len()=%d (from %s); sequence %s", len(s.items), rb.Len(), src, s.describe())
		return s
	}
	// the buffer is empty now: a further read that needs bytes must report an error
	op := rop{k: needsByte[r.Intn(len(needsByte))], limit: uint32(r.Intn(3))}
	if r.Intn(6) == 0 {
		op = rop{k: oRaw + opKind(r.Intn(3)), n: 1 + r.Intn(4)}
	}
	if res := execBuf(rb, op); res.ok {
		k.Fail("empty-read-no-error", "%s on the emptied buffer returned %s instead of an error; sequence %s", op, res.str(op.k), s.describe())
		return s
	}
	k.Count("rt_empty_buffer_read_refused", 1)
	if idx < logPerCase {
		k.Logf("roundtrip %s -> %d bytes, read back from %s: all %d values equal, Len()=0, then %s -> error", s.describe(), len(data), src, len(s.items), op)
	}
	return s
}

// ---------------------------------------------------------------- (2a) truncation

func truncateCase(k *engine.Case) {
	const batch = 8
	for i := 0; i < batch; i++ {
		var s *stream
		cut := -1
		guarded(k, func() string {
			if s == nil {
				return "(while generating)"
			}
			return fmt.Sprintf("cut=%d of %s", cut, s.describe())
		}, func() {
			s = writeItems(k, "tr", 1+k.R.Intn(10), genOpts{small: true}, false)
			if s.failed {
				return
			}
			data := append([]byte(nil), s.b.Bytes()...)
			k.Count("tr_streams", 1)
			k.Evals(1)
			if len(data) > 0 {
				markDistinct(k, streamKey('T', s.items, data))
			}
			nerr := 0
			for cut = 0; cut <= len(data); cut++ {
				k.Count("tr_prefixes", 1)
				if !truncOne(k, s, data, cut) {
					return
				}
				nerr++
			}
			if i < logPerCase {
				k.Logf("truncate %s -> %d bytes; all %d prefixes: values before the cut equal, the cut value reports an error", s.describe(), len(data), nerr)
			}
		})
	}
}

// truncOne reads data[:cut] with the matching readers: every value that lies wholly
// before the cut must come back, the first one that does not must be an error.
func truncOne(k *engine.Case, s *stream, data []byte, cut int) bool {
	rb := bytex.NewReadableBufferX(data[:cut:cut])
	for i := range s.items {
		it := &s.items[i]
		op := it.readOp()
		st, end := s.start(i), s.ends[i]
		res := execBuf(rb, op)
		if it.k.isRaw() && len(it.b) == 0 {
			if res.ok && len(res.b) != 0 {
				k.Fail("truncated-prefix-mismatch", "cut=%d: %s returned %s for an empty write; %s", cut, op, res.str(it.k), s.describe())
				return false
			}
			if !res.ok {
				return true // unjudged failure ends the program
			}
			continue
		}
		if end <= cut {
			if !res.ok {
				k.Fail("truncated-prefix-error", "stream of %d bytes cut at %d: read #%d %s covering [%d,%d) failed with %v; %s", len(data), cut, i, op, st, end, res.err, s.describe())
				return false
			}
			if !sameValue(it.k, it.u, it.b, res) {
				k.Fail("truncated-prefix-mismatch", "stream of %d bytes cut at %d: read #%d %s covering [%d,%d) returned %s, written %s; %s", len(data), cut, i, op, st, end, res.str(it.k), it.String(), s.describe())
				return false
			}
			continue
		}
		// this value is cut
		if res.ok {
			k.Fail("truncated-no-error", "stream of %d bytes cut at %d: read #%d %s needs bytes [%d,%d) but returned %s instead of an error; %s", len(data), cut, i, op, st, end, res.str(it.k), s.describe())
			return false
		}
		if cut == st {
			k.Count("tr_cut_at_boundary", 1)
		} else {
			k.Count("tr_cut_inside_value", 1)
			switch {
			case it.k.isVarint():
				k.Count("tr_cut_inside_varint", 1)
			case it.k == oStr || it.k == oLimStr:
				if cut < st+4 {
					k.Count("tr_cut_inside_length_prefix", 1)
				} else {
					k.Count("tr_cut_inside_string_body", 1)
				}
			case it.k.isRaw():
				k.Count("tr_cut_inside_raw", 1)
			default:
				k.Count("tr_cut_inside_fixed", 1)
			}
		}
		return true
	}
	if rb.Len() != 0 {
		k.Fail("roundtrip-not-empty", "uncut stream: Len()=%d after reading all items; %s", rb.Len(), s.describe())
		return false
	}
	k.Count("tr_uncut", 1)
	return true
}

// ---------------------------------------------------------------- garbage generation

func soup(r *rand.Rand, max int) []byte {
	var out []byte
	for len(out) < max && (len(out) == 0 || r.Intn(6) != 0) {
		switch r.Intn(7) {
		case 0, 1: // length prefix with a small count and a body that may be too short
			n := r.Intn(13)
			out = append(out, byte(n), 0, 0, 0)
			m := n
			if r.Intn(3) == 0 && n > 0 {
				m = r.Intn(n)
			}
			for j := 0; j < m; j++ {
				out = append(out, byte(r.Intn(256)))
			}
		case 2: // varint-like run: continuation bytes, maybe a terminator
			c := r.Intn(12)
			for j := 0; j < c; j++ {
				out = append(out, 0x80|byte(r.Intn(128)))
			}
			if r.Intn(4) != 0 {
				out = append(out, byte(r.Intn(128)))
			}
		case 3:
			c := 1 + r.Intn(9)
			for j := 0; j < c; j++ {
				out = append(out, 0xff)
			}
		case 4:
			c := 1 + r.Intn(9)
			for j := 0; j < c; j++ {
				out = append(out, 0)
			}
		case 5: // prefix that announces far more than there is
			out = binary.LittleEndian.AppendUint32(out, uint32(r.Intn(1<<uint(1+r.Intn(31)))))
		default:
			c := 1 + r.Intn(10)
			for j := 0; j < c; j++ {
				out = append(out, byte(r.Intn(256)))
			}
		}
	}
	return out
}

func mutate(r *rand.Rand, data []byte) []byte {
	out := append([]byte(nil), data...)
	for e := 1 + r.Intn(3); e > 0; e-- {
		switch r.Intn(4) {
		case 0:
			if len(out) > 0 {
				out[r.Intn(len(out))] ^= 1 << uint(r.Intn(8))
			}
		case 1:
			if len(out) > 0 {
				i := r.Intn(len(out))
				out = append(out[:i], out[i+1:]...)
			}
		case 2:
			i := r.Intn(len(out) + 1)
			out = append(out[:i], append([]byte{byte(r.Intn(256))}, out[i:]...)...)
		case 3:
			if len(out) > 0 {
				out = out[:r.Intn(len(out))]
			}
		}
	}
	return out
}

// input is a byte string to decode plus, when it stems from a valid stream, the
// items at their offsets (so that the matching reader can be preferred there).
type input struct {
	mode  string
	data  []byte
	items []item
	at    map[int]int // start offset -> item index (only while the bytes are the valid ones)
}

func genInput(k *engine.Case, pfx string, streamOnly bool) *input {
	r := k.R
	in := &input{}
	switch p := r.Intn(10); {
	case p < 2:
		in.mode = "random"
		in.data = make([]byte, r.Intn(49))
		r.Read(in.data)
	case p < 4:
		in.mode = "soup"
		in.data = soup(r, 60)
	default:
		s := writeItems(k, pfx, 1+r.Intn(10), genOpts{small: r.Intn(4) != 0, streamOnly: streamOnly}, false)
		if s.failed {
			return nil
		}
		in.data = append([]byte(nil), s.b.Bytes()...)
		in.items = s.items
		in.at = map[int]int{}
		for i := range s.items {
			if _, dup := in.at[s.start(i)]; !dup { // zero-length items share an offset: the first one wins
				in.at[s.start(i)] = i
			}
		}
		switch {
		case p < 6:
			in.mode = "valid"
		case p < 8:
			in.mode = "valid-cut"
			// cut near an item boundary
			i := r.Intn(len(s.items))
			c := s.start(i) + r.Intn(3) - 1
			if r.Intn(3) == 0 {
				c = r.Intn(len(in.data) + 1)
			}
			if c < 0 {
				c = 0
			}
			if c > len(in.data) {
				c = len(in.data)
			}
			in.data = in.data[:c]
		default:
			in.mode = "valid-mutated"
			in.data = mutate(r, in.data)
		}
	}
	k.Count(pfx+"_in_"+in.mode, 1)
	return in
}

func peekU32(rest []byte) (uint32, bool) {
	if len(rest) < 4 {
		return 0, false
	}
	return uint32(le(rest, 4)), true
}

// nextOp chooses the next read of an adaptive program. off is the number of bytes
// consumed so far, rest what the buffer reader still holds.
func nextOp(r *rand.Rand, in *input, off int, rest []byte, streamOnly bool) rop {
	if i, ok := in.at[off]; ok && r.Intn(10) < 7 {
		it := &in.items[i]
		op := it.readOp()
		if it.k == oLimStr && r.Intn(4) == 0 && len(it.b) > 0 {
			op.limit = uint32(len(it.b) - 1) // one below what was written
		}
		return op
	}
	max := int(nOps)
	if streamOnly {
		max = int(nStreamOps)
	}
	op := rop{k: opKind(r.Intn(max))}
	switch {
	case op.k == oLimStr:
		n, ok := peekU32(rest)
		switch p := r.Intn(10); {
		case !ok || p < 2:
			op.limit = uint32(r.Intn(40))
		case p < 5:
			op.limit = n
		case p < 7:
			op.limit = n - 1 // wraps to MaxUint32 for n = 0: fine
		case p < 8:
			op.limit = n + 1
		case p < 9:
			op.limit = ^uint32(0)
		default:
			op.limit = 0
		}
	case op.k.isRaw():
		rem := len(rest)
		switch p := r.Intn(20); {
		case p < 2:
			op.n = 0
		case p < 3:
			op.n = -1 - r.Intn(3)
		case p < 6:
			op.n = rem
		case p < 8:
			op.n = rem + 1 + r.Intn(3)
		case p < 10 && rem > 0:
			op.n = rem - 1
		default:
			op.n = 1 + r.Intn(9)
		}
		if op.k == oRaw && op.n < 0 {
			op.n = 0 // Read(p) has no negative length
		}
	}
	return op
}

// ---------------------------------------------------------------- (2b) arbitrary bytes

func garbageCase(k *engine.Case) {
	const batch = 40
	for i := 0; i < batch; i++ {
		var in *input
		var tr []string
		guarded(k, func() string {
			if in == nil {
				return "(while generating)"
			}
			return fmt.Sprintf("%s data=%s reads so far: %s", in.mode, short(in.data), strings.Join(tr, " "))
		}, func() {
			in = genInput(k, "gb", false)
			if in == nil {
				return
			}
			tr = oneGarbage(k, in)
			if i < logPerCase {
				k.Logf("garbage[%s] %s: %s", in.mode, short(in.data), strings.Join(tr, " "))
			}
		})
	}
}

func oneGarbage(k *engine.Case, in *input) (tr []string) {
	r := k.R
	k.Evals(1)
	k.Count("gb_inputs", 1)
	data := in.data
	rb := bytex.NewReadableBufferX(data[:len(data):len(data)])
	var prog []rop
	defer func() {
		if len(data) > 0 {
			markDistinct(k, progKey('G', prog, data))
		}
	}()
	off := 0
	for step := 0; step < 14; step++ {
		rest := data[off:]
		op := nextOp(r, in, off, rest, false)
		prog = append(prog, op)
		exp := modelRead(rest, op)
		before := rb.Len()
		res := execBuf(rb, op)
		used := before - rb.Len()
		tr = append(tr, fmt.Sprintf("@%d %s->%s", off, op, res.str(op.k)))
		k.Count("gb_reads", 1)
		k.Count("gb_r_"+opName[op.k], 1)
		k.Count("gb_"+exp.why, 1)
		switch exp.must {
		case mustOK:
			k.Count("gb_must_ok", 1)
		case mustFail:
			k.Count("gb_must_fail", 1)
		default:
			k.Count("gb_not_judged", 1)
		}
		ctx := func() string {
			return fmt.Sprintf("input[%s] %s, at offset %d (rest %s): %s; reads: %s", in.mode, short(data), off, short(rest), op, strings.Join(tr, " "))
		}
		if exp.must == mustOK && !res.ok {
			k.Fail("decode-rejected-valid", "a complete %s encoding was refused with %v; %s", opName[op.k], res.err, ctx())
			return
		}
		if exp.must == mustFail && res.ok {
			k.Fail("decode-no-error/"+exp.why, "%s returned %s instead of an error (%s); %s", op, res.str(op.k), exp.why, ctx())
			return
		}
		if !res.ok {
			k.Count("gb_read_errors", 1)
			return
		}
		if exp.hasVal {
			if !sameValue(op.k, exp.u, exp.b, res) {
				want := result{ok: true, u: exp.u, b: exp.b}
				k.Fail("decode-mismatch", "%s returned %s, the bytes say %s; %s", op, res.str(op.k), want.str(op.k), ctx())
				return
			}
			if used != exp.n {
				k.Fail("decode-consumed-mismatch", "%s consumed %d bytes, its encoding has %d; %s", op, used, exp.n, ctx())
				return
			}
		}
		if used < 0 || used > len(rest) {
			k.Fail("decode-consumed-mismatch", "%s changed Len() by %d with %d bytes left; %s", op, used, len(rest), ctx())
			return
		}
		off += used
	}
	return
}

// ---------------------------------------------------------------- (3) stream = buffer

const bigAlloc = 1 << 20

type step struct {
	op    rop
	res   result
	used  int
	empty bool // a successful read of a zero-length payload
}

func streamCase(k *engine.Case) {
	const batch = 16
	for i := 0; i < batch; i++ {
		var in *input
		var prog []step
		chunk := ""
		guarded(k, func() string {
			if in == nil {
				return "(while generating)"
			}
			return fmt.Sprintf("%s data=%s chunking=%s program: %s", in.mode, short(in.data), chunk, progString(prog))
		}, func() {
			in = genInput(k, "st", true)
			if in == nil {
				return
			}
			prog = bufferProgram(k, in)
			k.Evals(1)
			k.Count("st_inputs", 1)
			multi := false
			var ops []rop
			for _, s := range prog {
				ops = append(ops, s.op)
				if s.res.ok && s.used >= 2 {
					multi = true
				}
			}
			if multi {
				markDistinct(k, progKey('S', ops, in.data))
			}
			okAll := true
			for mode := 0; mode < nChunkings; mode++ {
				chunk = chunkName[mode]
				if !streamRun(k, in, prog, mode) {
					okAll = false
				}
			}
			if okAll && i < logPerCase {
				k.Logf("stream[%s] %s: %s; ReaderX agrees over %s", in.mode, short(in.data), progString(prog), strings.Join(chunkName[:], ", "))
			}
		})
	}
}

func progString(prog []step) string {
	var sb strings.Builder
	for i, s := range prog {
		if i > 0 {
			sb.WriteByte(' ')
		}
		if i >= 24 {
			fmt.Fprintf(&sb, "...(+%d)", len(prog)-i)
			break
		}
		fmt.Fprintf(&sb, "%s->%s", s.op, s.res.str(s.op.k))
	}
	return sb.String()
}

// bufferProgram runs an adaptive read program on the buffer reader and records what
// it returned: this is the reference for the stream reader. It stops at the first error.
func bufferProgram(k *engine.Case, in *input) []step {
	r := k.R
	data := in.data
	rb := bytex.NewReadableBufferX(data[:len(data):len(data)])
	var prog []step
	off := 0
	for n := 0; n < 16; n++ {
		rest := rb.Bytes()
		op := nextOp(r, in, off, rest, true)
		if op.k == oStr || op.k == oLimStr {
			// what the stream reader would have to allocate: peeked from the buffer reader
			// (also when the limit is below it: a reader that enforces the limit late would allocate)
			if ann, ok := peekU32(rest); ok && ann > bigAlloc {
				k.Count("st_skipped_big_alloc", 1)
				op = rop{k: opKind(r.Intn(int(oStr)))} // a fixed-width read instead
			}
		}
		before := rb.Len()
		res := execBuf(rb, op)
		used := before - rb.Len()
		st := step{op: op, res: res, used: used}
		if res.ok && op.k.isBytes() && len(res.b) == 0 {
			st.empty = true
		}
		prog = append(prog, st)
		if !res.ok {
			// a refused over-limit string is an answer, not the end of the stream: both readers
			// have consumed the length prefix and go on with what follows
			if res.err == bytex.ErrSizeLimit && op.k == oLimStr {
				k.Count("st_reads_after_size_limit_error", 1)
				off += used
				continue
			}
			break
		}
		off += used
	}
	return prog
}

func newChunker(r *rand.Rand, data []byte, mode int) *chunkReader {
	c := &chunkReader{data: data, mode: mode, half: len(data) / 2}
	if mode == chRandom || (mode == chDataEOF && r.Intn(2) == 0) {
		c.sizes = make([]int, 1+r.Intn(8))
		for i := range c.sizes {
			if r.Intn(5) == 0 {
				c.sizes[i] = 1 + r.Intn(64)
			} else {
				c.sizes[i] = 1 + r.Intn(5)
			}
		}
	}
	return c
}

// streamRun decodes in.data through ReaderX over one fragmentation and compares every
// read with what the buffer reader returned (success/failure and value; not the error).
func streamRun(k *engine.Case, in *input, prog []step, mode int) bool {
	cr := newChunker(k.R, in.data, mode)
	rx := bytex.NewReaderX(cr)
	k.Count("st_chunk_runs", 1)
	k.Count("st_chunking_"+chunkName[mode], 1)
	type kept struct {
		i    int
		held []byte
		was  string
	}
	var keep []kept
	defer func() {
		// raw bytes handed out earlier must still read the same after the later reads
		for _, h := range keep {
			k.Count("st_retained_raw_checked", 1)
			if string(h.held) != h.was {
				k.Fail("stream-retained-bytes-changed/"+chunkName[mode], "input[%s] %s, chunking %s: the %d raw bytes returned by read #%d (%s) were %s when returned, but read %s after the following reads of the same ReaderX; program: %s",
					in.mode, short(in.data), chunkName[mode], len(h.held), h.i, prog[h.i].op, short([]byte(h.was)), short(h.held), progString(prog))
				return
			}
		}
	}()
	for i, s := range prog {
		calls := cr.calls
		res := execStream(rx, s.op)
		if res.ok && len(res.held) > 0 {
			keep = append(keep, kept{i, res.held, string(res.b)})
		}
		k.Count("st_reads_compared", 1)
		if mode == 0 {
			k.Count("st_r_"+opName[s.op.k], 1)
		}
		if cr.calls-calls > 1 {
			k.Count("st_split_reads", 1)
		}
		if cr.dEOF && res.ok {
			k.Count("st_data_with_eof", 1)
		}
		what := func() string {
			sz := ""
			if cr.sizes != nil {
				sz = fmt.Sprintf(" sizes=%v", cr.sizes)
			}
			return fmt.Sprintf("input[%s] %s, chunking %s%s, read #%d %s: BufferX %s, ReaderX %s; whole program on BufferX: %s",
				in.mode, short(in.data), chunkName[mode], sz, i, s.op, s.res.str(s.op.k), res.str(s.op.k), progString(prog))
		}
		if res.ok != s.res.ok {
			cls := "stream-mismatch/" + chunkName[mode]
			if s.empty || (res.ok && s.op.k.isBytes() && len(res.b) == 0) {
				cls += "/zero-length"
			}
			k.Fail(cls, "%s", what())
			return false
		}
		if !res.ok {
			k.Count("st_both_fail", 1)
			if s.res.err == bytex.ErrSizeLimit && s.op.k == oLimStr && i+1 < len(prog) {
				continue // the program goes on after a refused over-limit string
			}
			return true
		}
		if !sameValue(s.op.k, s.res.u, s.res.b, res) {
			k.Fail("stream-value-mismatch/"+chunkName[mode], "%s", what())
			return false
		}
		k.Count("st_both_ok", 1)
		if s.empty {
			k.Count("st_zero_length_payload", 1)
			if s.op.k == oStr || s.op.k == oLimStr {
				k.Count("st_empty_string", 1)
			}
		}
	}
	return true
}

package c10

import (
	"encoding/hex"
	"fmt"
	"math"
	"math/rand"
	"strings"

	"github.com/pinealctx/neptune/bytex"
)

// opKind names one typed value of the codec: the writer that produces it and the
// reader that consumes it.
type opKind uint8

const (
	oBool opKind = iota
	oU8
	oU16
	oI16
	oU32
	oI32
	oU64
	oI64
	oF64
	oStr    // WriteString / ReadString
	oLimStr // WriteLimitString / ReadLimitString
	oRaw    // Write(p) / Read(p)
	oRawN   // Write(p) / ReadN(n)
	oRawZ   // Write(p) / ZReadN(n)
	// the four varint pairs exist on BufferX only (ReaderX has no varint reader)
	oVarU64
	oVarI64
	oVarU32
	oVarI32
	nOps
)

const nStreamOps = oVarU64 // kinds below this exist on ReaderX too

var opName = [nOps]string{"Bool", "U8", "U16", "I16", "U32", "I32", "U64", "I64", "F64",
	"String", "LimitString", "Raw", "RawN", "RawZ", "VarU64", "VarI64", "VarU32", "VarI32"}

func (o opKind) isBytes() bool  { return o >= oStr && o <= oRawZ }
func (o opKind) isRaw() bool    { return o >= oRaw && o <= oRawZ }
func (o opKind) isVarint() bool { return o >= oVarU64 }

// fixedWidth is the encoded width of fixed-width kinds (0 otherwise).
func (o opKind) fixedWidth() int {
	switch o {
	case oBool, oU8:
		return 1
	case oU16, oI16:
		return 2
	case oU32, oI32:
		return 4
	case oU64, oI64, oF64:
		return 8
	}
	return 0
}

// item is one value to write. Numeric values are kept as canonical 64-bit patterns:
// unsigned kinds zero-extended, signed kinds sign-extended, bool 0/1, float64 as its
// IEEE bits (so that NaN payloads are compared bit-wise).
type item struct {
	k      opKind
	u      uint64
	b      []byte
	limit  uint32
	reject bool // len(b) > limit: WriteLimitString has to refuse
}

// rop is one read request.
type rop struct {
	k     opKind
	n     int    // raw kinds: requested length
	limit uint32 // oLimStr
}

// result is what a reader returned, normalised like item.
type result struct {
	ok   bool
	u    uint64
	b    []byte
	held []byte // the slice exactly as the reader returned it (ReadN / ZReadN), not copied
	err  error
}

func (it *item) readOp() rop { return rop{k: it.k, n: len(it.b), limit: it.limit} }

func short(b []byte) string {
	if len(b) <= 24 {
		return fmt.Sprintf("%dB:%s", len(b), hex.EncodeToString(b))
	}
	return fmt.Sprintf("%dB:%s..%s", len(b), hex.EncodeToString(b[:12]), hex.EncodeToString(b[len(b)-4:]))
}

func (it *item) String() string {
	switch {
	case it.k == oLimStr:
		s := fmt.Sprintf("LimitString(limit=%d,%s)", it.limit, short(it.b))
		if it.reject {
			s += "[must be refused]"
		}
		return s
	case it.k.isBytes():
		return fmt.Sprintf("%s(%s)", opName[it.k], short(it.b))
	case it.k == oF64:
		return fmt.Sprintf("F64(bits=%#016x)", it.u)
	case it.k == oI16 || it.k == oI32 || it.k == oI64 || it.k == oVarI32 || it.k == oVarI64:
		return fmt.Sprintf("%s(%d)", opName[it.k], int64(it.u))
	}
	return fmt.Sprintf("%s(%#x)", opName[it.k], it.u)
}

func (op rop) String() string {
	switch {
	case op.k == oLimStr:
		return fmt.Sprintf("ReadLimitString(%d)", op.limit)
	case op.k == oRaw:
		return fmt.Sprintf("Read(p[%d])", op.n)
	case op.k == oRawN:
		return fmt.Sprintf("ReadN(%d)", op.n)
	case op.k == oRawZ:
		return fmt.Sprintf("ZReadN(%d)", op.n)
	}
	return "Read" + opName[op.k] + "()"
}

func (r result) str(k opKind) string {
	if !r.ok {
		return fmt.Sprintf("err(%v)", r.err)
	}
	if k.isBytes() {
		return "ok(" + short(r.b) + ")"
	}
	return fmt.Sprintf("ok(%#x)", r.u)
}

func itemsString(items []item) string {
	var sb strings.Builder
	for i := range items {
		if i > 0 {
			sb.WriteByte(' ')
		}
		if i >= 30 {
			fmt.Fprintf(&sb, "...(+%d)", len(items)-i)
			break
		}
		sb.WriteString(items[i].String())
	}
	return sb.String()
}

// ---------------------------------------------------------------- calling neptune

// execWrite performs the typed write of it on b.
func execWrite(b *bytex.BufferX, it *item) error {
	switch it.k {
	case oBool:
		b.WriteBool(it.u != 0)
	case oU8:
		b.WriteU8(byte(it.u))
	case oU16:
		b.WriteU16(uint16(it.u))
	case oI16:
		b.WriteI16(int16(it.u))
	case oU32:
		b.WriteU32(uint32(it.u))
	case oI32:
		b.WriteI32(int32(it.u))
	case oU64:
		b.WriteU64(it.u)
	case oI64:
		b.WriteI64(int64(it.u))
	case oF64:
		b.WriteF64(math.Float64frombits(it.u))
	case oStr:
		b.WriteString(string(it.b))
	case oLimStr:
		return b.WriteLimitString(it.limit, string(it.b))
	case oRaw, oRawN, oRawZ:
		// the slice handed over is the caller's own and is reused right after the call
		own := append([]byte(nil), it.b...)
		b.Write(own)
		for i := range own {
			own[i] = 0x5A
		}
	case oVarU64:
		b.WriteVarU64(it.u)
	case oVarI64:
		b.WriteVarI64(int64(it.u))
	case oVarU32:
		b.WriteVarU32(uint32(it.u))
	case oVarI32:
		b.WriteVarI32(int32(it.u))
	}
	return nil
}

func b2u(v bool) uint64 {
	if v {
		return 1
	}
	return 0
}

// execBuf performs one typed read on the buffer reader.
func execBuf(b *bytex.BufferX, op rop) (r result) {
	var err error
	switch op.k {
	case oBool:
		var v bool
		v, err = b.ReadBool()
		r.u = b2u(v)
	case oU8:
		var v byte
		v, err = b.ReadU8()
		r.u = uint64(v)
	case oU16:
		var v uint16
		v, err = b.ReadU16()
		r.u = uint64(v)
	case oI16:
		var v int16
		v, err = b.ReadI16()
		r.u = uint64(int64(v))
	case oU32:
		var v uint32
		v, err = b.ReadU32()
		r.u = uint64(v)
	case oI32:
		var v int32
		v, err = b.ReadI32()
		r.u = uint64(int64(v))
	case oU64:
		r.u, err = b.ReadU64()
	case oI64:
		var v int64
		v, err = b.ReadI64()
		r.u = uint64(v)
	case oF64:
		var v float64
		v, err = b.ReadF64()
		r.u = math.Float64bits(v)
	case oStr:
		var s string
		s, err = b.ReadString()
		r.b = []byte(s)
	case oLimStr:
		var s string
		s, err = b.ReadLimitString(op.limit)
		r.b = []byte(s)
	case oRaw:
		p := make([]byte, op.n)
		err = b.Read(p)
		r.b = p
	case oRawN:
		r.b, err = b.ReadN(op.n)
	case oRawZ:
		var p []byte
		p, err = b.ZReadN(op.n)
		r.b = append([]byte(nil), p...) // the returned slice aliases the buffer
	case oVarU64:
		r.u, err = b.ReadVarU64()
	case oVarI64:
		var v int64
		v, err = b.ReadVarI64()
		r.u = uint64(v)
	case oVarU32:
		var v uint32
		v, err = b.ReadVarU32()
		r.u = uint64(v)
	case oVarI32:
		var v int32
		v, err = b.ReadVarI32()
		r.u = uint64(int64(v))
	}
	r.ok, r.err = err == nil, err
	return
}

// execStream performs one typed read on the stream reader (kinds < nStreamOps).
func execStream(b *bytex.ReaderX, op rop) (r result) {
	var err error
	switch op.k {
	case oBool:
		var v bool
		v, err = b.ReadBool()
		r.u = b2u(v)
	case oU8:
		var v byte
		v, err = b.ReadByte()
		r.u = uint64(v)
	case oU16:
		var v uint16
		v, err = b.ReadU16()
		r.u = uint64(v)
	case oI16:
		var v int16
		v, err = b.ReadI16()
		r.u = uint64(int64(v))
	case oU32:
		var v uint32
		v, err = b.ReadU32()
		r.u = uint64(v)
	case oI32:
		var v int32
		v, err = b.ReadI32()
		r.u = uint64(int64(v))
	case oU64:
		r.u, err = b.ReadU64()
	case oI64:
		var v int64
		v, err = b.ReadI64()
		r.u = uint64(v)
	case oF64:
		var v float64
		v, err = b.ReadF64()
		r.u = math.Float64bits(v)
	case oStr:
		var s string
		s, err = b.ReadString()
		r.b = []byte(s)
	case oLimStr:
		var s string
		s, err = b.ReadLimitString(op.limit)
		r.b = []byte(s)
	case oRaw:
		p := make([]byte, op.n)
		err = b.Read(p)
		r.b = p
	case oRawN:
		var p []byte
		p, err = b.ReadN(op.n)
		r.b, r.held = append([]byte(nil), p...), p
	case oRawZ:
		var p []byte
		p, err = b.ZReadN(op.n)
		r.b, r.held = append([]byte(nil), p...), p
	default:
		panic("harness: kind has no stream reader")
	}
	r.ok, r.err = err == nil, err
	return
}

// sameValue compares two successful results of kind k.
func sameValue(k opKind, au uint64, ab []byte, r result) bool {
	if k.isBytes() {
		return string(ab) == string(r.b)
	}
	return au == r.u
}

// ---------------------------------------------------------------- generators

func sext(v uint64, bits uint) uint64 {
	s := 64 - bits
	return uint64(int64(v<<s) >> s)
}

// genBits draws a w-bit pattern biased to the extremes of both the unsigned and the
// signed reading of the width. extreme reports whether a boundary value was chosen.
func genBits(r *rand.Rand, w uint) (v uint64, extreme bool) {
	mask := ^uint64(0) >> (64 - w)
	switch r.Intn(13) {
	case 0:
		return 0, true
	case 1:
		return 1, true
	case 2:
		return mask, true // max unsigned / -1
	case 3:
		return mask - 1, true
	case 4:
		return uint64(1) << (w - 1), true // min signed
	case 5:
		return uint64(1)<<(w-1) - 1, true // max signed
	case 6:
		return (uint64(1)<<(w-1) + 1) & mask, true
	case 7:
		return (uint64(1)<<uint(r.Intn(int(w))) + uint64(r.Intn(3)) - 1) & mask, true
	case 8:
		return uint64(r.Intn(300)) & mask, false
	case 9:
		return 0x0807060504030201 & mask, false // every byte different: byte order shows
	case 10:
		return 0xf1e2d3c4b5a69788 & mask, false
	}
	return r.Uint64() & mask, false
}

// genVarBits draws a w-bit pattern biased to the places where the varint length
// changes (2^(7k) and neighbours).
func genVarBits(r *rand.Rand, w uint) (uint64, bool) {
	if r.Intn(2) == 0 {
		mask := ^uint64(0) >> (64 - w)
		k := uint(1 + r.Intn(int((w+6)/7)))
		var v uint64
		if 7*k < 64 {
			v = uint64(1) << (7 * k)
		}
		v += uint64(r.Intn(3)) - 1
		return v & mask, true
	}
	return genBits(r, w)
}

func unzigzag(u uint64) uint64 { return (u >> 1) ^ -(u & 1) }

func genF64Bits(r *rand.Rand) (bits uint64, nan bool) {
	sign := uint64(r.Intn(2)) << 63
	switch r.Intn(11) {
	case 0, 1: // quiet NaN, arbitrary payload
		return sign | 0x7ff8000000000000 | r.Uint64()&0x0007ffffffffffff, true
	case 2: // signalling NaN, non-zero payload
		return sign | 0x7ff0000000000000 | (r.Uint64()&0x0007ffffffffffff | 1), true
	case 3:
		return sign | 0x7ff0000000000000, false // Inf
	case 4:
		return sign, false // +-0
	case 5:
		return sign | (r.Uint64()&0x000fffffffffffff | 1), false // denormal
	case 6:
		return sign | math.Float64bits(math.MaxFloat64), false
	case 7:
		return sign | math.Float64bits(1.0), false
	}
	return r.Uint64(), false
}

// genPayload draws a string / raw payload. small keeps it short (truncation sweeps).
// collidingWords are short strings that collide under common 32-bit string hashes (FNV-1a,
// FNV-1, CRC32, Java's 31-multiplier hash, DJB2): different texts that a cache or intern table
// keyed by such a hash alone would confuse.
var collidingWords = []string{
	"costarring", "liquid", "declinate", "macallums", "altarage", "zinke", // FNV-1a/32
	"plumless", "buckeroo", // CRC32
	"Aa", "BB", "AaAa", "BBBB", "AaBB", "BBAa", // s[0]*31^(n-1)+...
	"hetairas", "mentioner", "heliotropes", "neurospora", // DJB2
}

func genPayload(r *rand.Rand, small bool) []byte {
	if r.Intn(25) == 0 {
		return []byte(collidingWords[r.Intn(len(collidingWords))])
	}
	var n int
	p := r.Intn(1000)
	if small {
		switch {
		case p < 160:
			n = 0
		case p < 300:
			n = 1
		default:
			n = 2 + r.Intn(14)
		}
	} else {
		switch {
		case p < 140:
			n = 0
		case p < 240:
			n = 1
		case p < 800:
			n = 2 + r.Intn(30)
		case p < 930:
			n = 32 + r.Intn(70)
		case p < 960:
			n = 255 + r.Intn(3)
		case p < 996:
			n = 300 + r.Intn(3000)
		default:
			n = 65534 + r.Intn(4)
		}
	}
	b := make([]byte, n)
	switch r.Intn(5) {
	case 0: // printable
		for i := range b {
			b[i] = byte(' ' + r.Intn(95))
		}
	case 1:
		for i := range b {
			b[i] = 0xff
		}
	case 2: // zero bytes
	default:
		r.Read(b)
	}
	return b
}

// genLimit draws a limit for a string of length l. ok=false means the write has to
// be refused (limit below the length).
func genLimit(r *rand.Rand, l int, allowReject bool) (limit uint32, ok bool) {
	p := r.Intn(100)
	switch {
	case p < 35:
		return uint32(l), true // limit equal to the length
	case p < 50:
		return uint32(l + 1), true
	case p < 60:
		return math.MaxUint32, true
	case p < 75:
		return uint32(l + 2 + r.Intn(200)), true
	}
	if !allowReject || l == 0 {
		return uint32(l), true
	}
	if p < 90 {
		return uint32(l - 1), false // one below the length
	}
	return uint32(r.Intn(l)), false
}

type genOpts struct {
	streamOnly  bool // only kinds that ReaderX can read
	small       bool // short payloads
	allowReject bool // may generate WriteLimitString calls that must be refused
}

func genItem(r *rand.Rand, o genOpts) (it item, extreme bool) {
	max := int(nOps)
	if o.streamOnly {
		max = int(nStreamOps)
	}
	// strings get extra weight
	x := r.Intn(max + 3)
	if x >= max {
		x = int(oStr) + (x-max)%2
	}
	it.k = opKind(x)
	switch it.k {
	case oBool:
		it.u = uint64(r.Intn(2))
	case oU8:
		it.u, extreme = genBits(r, 8)
	case oU16:
		it.u, extreme = genBits(r, 16)
	case oI16:
		it.u, extreme = genBits(r, 16)
		it.u = sext(it.u, 16)
	case oU32:
		it.u, extreme = genBits(r, 32)
	case oI32:
		it.u, extreme = genBits(r, 32)
		it.u = sext(it.u, 32)
	case oU64, oI64:
		it.u, extreme = genBits(r, 64)
	case oF64:
		it.u, extreme = genF64Bits(r)
	case oStr:
		it.b = genPayload(r, o.small)
	case oLimStr:
		it.b = genPayload(r, o.small)
		var ok bool
		it.limit, ok = genLimit(r, len(it.b), o.allowReject)
		it.reject = !ok
	case oRaw, oRawZ:
		it.b = genPayload(r, o.small)
	case oRawN:
		it.b = genPayload(r, o.small)
		if len(it.b) == 0 { // ReadN(0) is refused by contract; an empty raw write is read back by Read/ZReadN
			it.b = []byte{byte(r.Intn(256))}
		}
	case oVarU64:
		it.u, extreme = genVarBits(r, 64)
	case oVarI64:
		it.u, extreme = genVarBits(r, 64)
		it.u = unzigzag(it.u)
	case oVarU32:
		it.u, extreme = genVarBits(r, 32)
	case oVarI32:
		it.u, extreme = genVarBits(r, 32)
		it.u = sext(unzigzag(it.u)&0xffffffff, 32)
	}
	return
}

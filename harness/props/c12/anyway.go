package c12

import (
	"fmt"
	"sync"
	"time"

	"verifh/engine"

	"github.com/pinealctx/neptune/syncx/pipe/async"
	"github.com/pinealctx/neptune/syncx/pipe/mq"
	"github.com/pinealctx/neptune/syncx/pipe/mux"
	pq "github.com/pinealctx/neptune/syncx/pipe/q"
)

// waitingAdd adapts the five "add anyway" entry points of the bounded pipe queues (when the
// queue is full: sleep ts, try again).
type waitingAdd struct {
	short     string // class suffix
	name      string
	add       func(v int) error
	addAnyway func(v int, ts time.Duration) error
	popAnyway func() (interface{}, error)
	close     func()
}

func newWaitingAdd(r interface{ Intn(int) int }, size int) waitingAdd {
	switch r.Intn(5) {
	case 0:
		x := pq.NewQ(pq.WithSize(size))
		return waitingAdd{"q.AddReqAnyway", fmt.Sprintf("pipe/q.Q(size %d).AddReqAnyway", size), func(v int) error { return x.AddReq(v) },
			func(v int, ts time.Duration) error { return x.AddReqAnyway(v, ts) }, x.PopAnyway, x.Close}
	case 1:
		x := async.NewQ(size)
		return waitingAdd{"async.AddAnyway", fmt.Sprintf("pipe/async.Q(size %d).AddAnyway", size), func(v int) error { return x.Add(v) },
			func(v int, ts time.Duration) error { return x.AddAnyway(v, ts) }, x.PopAnyway, x.Close}
	case 2:
		x := mux.NewQ(size)
		return waitingAdd{"mux.AddReqAnyway", fmt.Sprintf("pipe/mux.Q(size %d).AddReqAnyway", size), func(v int) error { return x.AddReq(v) },
			func(v int, ts time.Duration) error { return x.AddReqAnyway(v, ts) }, x.PopAnyway, x.Close}
	case 3:
		x := mq.NewMQ(mq.WithQReqSize(size), mq.WithQCtrlSize(size+5))
		return waitingAdd{"mq.AddReqAnyway", fmt.Sprintf("pipe/mq.MQ(request size %d).AddReqAnyway", size), func(v int) error { return x.AddReq(v) },
			func(v int, ts time.Duration) error { return x.AddReqAnyway(v, ts) }, x.PopAnyway, x.Close}
	default:
		x := mq.NewMQ(mq.WithQCtrlSize(size), mq.WithQReqSize(size+5))
		return waitingAdd{"mq.AddCtrlAnyway", fmt.Sprintf("pipe/mq.MQ(control size %d).AddCtrlAnyway", size), func(v int) error { return x.AddCtrl(v) },
			func(v int, ts time.Duration) error { return x.AddCtrlAnyway(v, ts) }, x.PopAnyway, x.Close}
	}
}

// anywayCloseCase: "a closed queue refuses every add" for the waiting adds. The queue is full
// and nobody pops, so a waiting add cannot get in before the queue is closed; then the queue is
// closed and drained with PopAnyway (which makes room). The waiting add must come back with an
// error and its item must never be handed out; the items added before come out in order.
// Variant without Close: one PopAnyway makes room and the waiting add must get in, behind the
// items already queued.
func anywayCloseCase(k *engine.Case) {
	r := k.R
	size := 1 + r.Intn(4)
	w := newWaitingAdd(r, size)
	withClose := r.Intn(3) > 0
	np := 1 + r.Intn(2)
	k.Logf("%s: queue filled (%d), %d producer(s) in the waiting add, close=%v, then drained with PopAnyway", w.name, size, np, withClose)
	k.Nontrivial()
	for i := 0; i < size; i++ {
		if err := w.add(i); err != nil {
			k.Fail("mismatch:"+w.short, w.name+": "+"ordinary add #%d of %d below the capacity was refused: %v", i, size, err)
			return
		}
	}
	var mu sync.Mutex
	errs := map[int]error{}
	var wg sync.WaitGroup
	for j := 0; j < np; j++ {
		j := j
		wg.Add(1)
		go func() {
			defer wg.Done()
			err := w.addAnyway(100+j, 100*time.Microsecond)
			mu.Lock()
			errs[j] = err
			mu.Unlock()
		}()
	}
	time.Sleep(time.Duration(300+r.Intn(900)) * time.Microsecond) // let them reach their retry loop (not part of the verdict)
	if withClose {
		w.close()
	}
	// drain: with Close until PopAnyway reports the closed queue; without: size+np items
	var out []int
	for i := 0; i < size+np+2; i++ {
		if !withClose && len(out) == size+np {
			break
		}
		type pr struct {
			v   interface{}
			err error
		}
		ch := make(chan pr, 1)
		go func() { v, err := w.popAnyway(); ch <- pr{v, err} }()
		var p pr
		select {
		case p = <-ch:
		case <-time.After(20 * time.Second):
			k.Inconclusive(w.name + ": PopAnyway did not return within 20 s while draining")
			go w.close()
			return
		}
		if p.err != nil {
			break
		}
		out = append(out, p.v.(int))
	}
	done := make(chan struct{})
	go func() { wg.Wait(); close(done) }()
	select {
	case <-done:
	case <-time.After(20 * time.Second):
		k.Fail("mismatch:"+w.short, w.name+": "+"the waiting add did not return although the queue was %s and drained (items handed out: %v)", map[bool]string{true: "closed", false: "given room"}[withClose], out)
		go w.close()
		return
	}
	k.Evals(1)
	mu.Lock()
	defer mu.Unlock()
	k.Logf("handed out %v; waiting adds returned %v", out, errs)
	for i := 0; i < size && i < len(out); i++ {
		if out[i] != i {
			k.Fail("mismatch:"+w.short, w.name+": "+"items 0..%d were queued first but PopAnyway handed out %v", size-1, out)
			return
		}
	}
	if withClose {
		for j := 0; j < np; j++ {
			if errs[j] == nil {
				k.Fail("add-after-close-accepted:"+w.short, w.name+": "+"the queue was full until it was closed, so the waiting add of item %d can only have been applied after Close - it returned nil (items handed out afterwards: %v)", 100+j, out)
				return
			}
		}
		if len(out) != size {
			k.Fail("add-after-close-accepted:"+w.short, w.name+": "+"the closed queue held %d items; PopAnyway handed out %v", size, out)
			return
		}
		k.Count("clause:waiting_add_refused_after_close", int64(np))
		return
	}
	for j := 0; j < np; j++ {
		if errs[j] != nil {
			k.Fail("mismatch:"+w.short, w.name+": "+"room was made but the waiting add of item %d returned %v", 100+j, errs[j])
			return
		}
	}
	if len(out) != size+np {
		k.Fail("mismatch:"+w.short, w.name+": "+"%d items were added (%d by waiting adds), PopAnyway handed out %v", size+np, np, out)
		return
	}
	w.close()
	k.Count("clause:waiting_add_accepted_when_room", int64(np))
}

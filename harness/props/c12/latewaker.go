package c12

import (
	"runtime"

	"github.com/pinealctx/neptune/syncx/pipe/mq"

	"verifh/engine"
)

// lateWakerCase: "after close the pipe queues' Pop fails even if items remain" for a consumer
// that was already waiting. One processor; a consumer parks in Pop on the empty queue; the
// driver then - without yielding - adds items 1 and 2, closes the queue and takes the front
// item with PopAnyway; only then does the woken consumer get to run. Whatever the consumer
// returns must have a place in a sequential order: an item can only have been taken while the
// queue was still open, i.e. before the driver's PopAnyway, when item 1 was at the front. So
// the consumer returns the closed error or item 1 (if it did run between the two adds) -
// never item 2, and no item at all once the driver's PopAnyway has received item 1.
func lateWakerCase(k *engine.Case) {
	r := k.R
	f := []family{famQ, famAsync, famMux, famMQ}[r.Intn(4)]
	old := runtime.GOMAXPROCS(1)
	defer runtime.GOMAXPROCS(old)
	q := newQueue(f, 0, 0)
	d := engine.NewDriver(Q, k)
	nCons := 1 + r.Intn(2)
	k.Logf("%s, %d consumer(s) parked in Pop; then Add(1), Add(2), Close, PopAnyway without yielding", describeQueue(f, 0, 0), nCons)
	k.Nontrivial()
	var cons []*engine.Op
	for i := 0; i < nCons; i++ {
		cons = append(cons, d.Spawn("Pop", func() any { return q.do(op{code: opPop}) }))
	}
	if !d.Quiesce() {
		q.do(op{code: opClose})
		return
	}
	for _, c := range cons {
		if c.Done() {
			k.Fail("mismatch:"+f.short()+".Pop", "Pop on an empty open queue returned %v", c.Result())
			q.do(op{code: opClose})
			return
		}
	}
	a1 := q.do(op{code: opAdd, val: 1})
	a2 := q.do(op{code: opAdd, val: 2})
	q.do(op{code: opClose})
	front := q.do(op{code: opPopAnyway})
	if !d.Quiesce() {
		return
	}
	k.Evals(1)
	k.Count("late_waker_cases:"+f.short(), 1)
	if a1.kind != rOK || a2.kind != rOK {
		k.Fail("mismatch:"+f.short()+".Add", "adds on the open unbounded queue returned %v, %v", a1, a2)
		return
	}
	items := 0
	for _, c := range cons {
		if !c.Done() {
			k.Fail("stuck-consumer:"+f.short(), "a consumer is still parked in Pop after the queue was closed: %v", Q.Describe())
			return
		}
		rs := c.Result().(res)
		k.Logf("  consumer Pop -> %v; driver's PopAnyway after Close -> %v", rs, front)
		if rs.kind == rVal {
			items++
			// the consumer took an item: that happened while the queue was open, so it was the front item 1
			if rs.v != 1 || (front.kind == rVal && front.v == 1) {
				k.Fail("pop-after-close-returned-item:"+f.short(), "a consumer waiting in Pop since before the adds returned item %d, while the driver's PopAnyway issued after Close returned %v: the item was handed to Pop after the queue had been closed", rs.v, front)
				return
			}
			k.Count("late_waker_consumer_ran_early", 1)
		} else {
			k.Count("late_waker_consumer_got_closed", 1)
		}
	}
	if items > 1 {
		k.Fail("pop-after-close-returned-item:"+f.short(), "%d waiting consumers received items although only one item can have been taken before the queue was closed", items)
	}
}

// mqReuseCase: queues are independent instances. A two-level queue is used, closed, drained
// and cleared (try-clear succeeds: closed and empty); then a second queue is created and
// filled. The first queue stays closed and empty (PopAnyway reports closed, nothing from the
// second queue shows up in it), and the second queue hands out exactly its own items in order.
func mqReuseCase(k *engine.Case) {
	r := k.R
	a := mq.NewMQ()
	na := 1 + r.Intn(6)
	for i := 0; i < na; i++ {
		if r.Intn(2) == 0 {
			a.AddCtrl(1000 + i)
		} else {
			a.AddReq(1000 + i)
		}
	}
	a.Close()
	for i := 0; i < na; i++ {
		if _, err := a.PopAnyway(); err != nil {
			k.Fail("mismatch:mq.PopAnyway", "first queue: PopAnyway #%d of %d items after Close returned %v", i, na, err)
			return
		}
	}
	if !a.TryClear() {
		k.Fail("mismatch:mq.TryClear", "first queue: closed and drained, TryClear returned false")
		return
	}
	b := mq.NewMQ()
	var wantCtrl, wantReq []int
	nb := 1 + r.Intn(8)
	for i := 0; i < nb; i++ {
		if r.Intn(2) == 0 {
			b.AddCtrl(2000 + i)
			wantCtrl = append(wantCtrl, 2000+i)
		} else {
			b.AddReq(2000 + i)
			wantReq = append(wantReq, 2000+i)
		}
	}
	k.Logf("first queue: %d items, closed, drained, cleared; second queue: %d control + %d request items", na, len(wantCtrl), len(wantReq))
	k.Nontrivial()
	k.Evals(1)
	k.Count("mq_reuse_cases", 1)
	// the first queue again (it is closed: no call on it blocks)
	for i := 0; i < 2; i++ {
		if v, err := a.PopAnyway(); err == nil {
			k.Fail("mismatch:mq.PopAnyway", "first queue (closed, drained and cleared before the second queue was created): PopAnyway returned item %v", v)
			return
		}
	}
	if err := a.AddReq(77); err == nil {
		k.Fail("mismatch:mq.Add", "first queue (closed and cleared): AddReq was accepted")
		return
	}
	b.Close()
	want := append(append([]int(nil), wantCtrl...), wantReq...)
	for i, w := range want {
		v, err := b.PopAnyway()
		if err != nil || v != w {
			k.Fail("mismatch:mq.PopAnyway", "second queue: item #%d handed out is (%v, %v), its own items in order are %v", i, v, err, want)
			return
		}
	}
	if v, err := b.PopAnyway(); err == nil {
		k.Fail("mismatch:mq.PopAnyway", "second queue: after its %d items PopAnyway returned one more: %v", len(want), v)
	}
}

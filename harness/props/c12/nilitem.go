package c12

import (
	"fmt"

	"verifh/engine"

	"github.com/pinealctx/neptune/queue/syncq"
)

// syncqNilCase: the untyped nil is a value like any other for SyncQueue.Push (Pop reports it
// as nil, which only *reads* like the closed marker). On an open queue it must neither be
// lost nor make the queue skip or lose another item: every Pop/TryPop removes exactly one
// item, in FIFO order. Pop is issued from its own goroutine and the quiescence detector is
// consulted, so a Pop that sleeps beside a non-empty queue is reported instead of hanging.
func syncqNilCase(k *engine.Case) {
	r := k.R
	q := syncq.NewSyncQueue()
	n := 2 + r.Intn(6)
	nilAt := r.Intn(n)
	var want []interface{}
	for i := 0; i < n; i++ {
		if i == nilAt {
			q.Push(nil)
			want = append(want, nil)
		} else {
			q.Push(100 + i)
			want = append(want, 100+i)
		}
	}
	k.Logf("SyncQueue: %d items pushed, the untyped nil at position %d", n, nilAt)
	k.Nontrivial()
	if l := q.Len(); l != n {
		k.Fail("mismatch:syncq.Len", "after %d pushes (one of them nil) Len() = %d", n, l)
		return
	}
	d := engine.NewDriver(Q, k)
	for i := 0; i < n; i++ {
		var got interface{}
		usePop := r.Intn(2) == 0
		if usePop {
			op := d.Spawn("Pop", func() any { return q.Pop() })
			if !d.Quiesce() {
				q.Close()
				return
			}
			if !op.Done() {
				k.Fail("stuck-consumer:syncq", "Pop #%d sleeps although the open queue still holds %d item(s) (Len()=%d); items pushed: %v", i, n-i, q.Len(), want)
				q.Close()
				return
			}
			got = op.Result()
		} else {
			v, ok := q.TryPop()
			if !ok {
				k.Fail("mismatch:syncq.TryPop", "TryPop #%d reported nothing although %d item(s) remain; items pushed: %v", i, n-i, want)
				return
			}
			got = v
		}
		k.Logf("  %s -> %v", map[bool]string{true: "Pop", false: "TryPop"}[usePop], got)
		if got != want[i] {
			k.Fail("mismatch:syncq.Pop", "item #%d handed out is %v, FIFO order says %v; items pushed: %v", i, got, want[i], want)
			return
		}
		if l := q.Len(); l != n-i-1 {
			k.Fail("mismatch:syncq.Len", "after handing out %d of %d items Len() = %d; items pushed: %v", i+1, n, l, want)
			return
		}
	}
	k.Count("clause:syncq_nil_item_roundtrip", 1)
	_ = fmt.Sprint
}

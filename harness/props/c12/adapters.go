package c12

import (
	"errors"
	"fmt"

	"github.com/pinealctx/neptune/queue/priq"
	"github.com/pinealctx/neptune/queue/syncq"
	"github.com/pinealctx/neptune/syncx/pipe/async"
	"github.com/pinealctx/neptune/syncx/pipe/mq"
	"github.com/pinealctx/neptune/syncx/pipe/mux"
	pq "github.com/pinealctx/neptune/syncx/pipe/q"
)

// queue is the uniform face of the six queue types: one call in, its observable
// outcome out. Adapters keep no state of their own (safe for concurrent clients).
type queue interface {
	do(o op) res
}

func errRes(err error, closed, full, ctrlFull error) res {
	switch {
	case err == nil:
		return res{kind: rOK}
	case errors.Is(err, closed):
		return res{kind: rClosed}
	case full != nil && errors.Is(err, full):
		return res{kind: rFull}
	case ctrlFull != nil && errors.Is(err, ctrlFull):
		return res{kind: rCtrlFull}
	}
	return res{kind: rOther, txt: "error " + err.Error()}
}

func popRes(v interface{}, err error, closed error) res {
	if err != nil {
		r := errRes(err, closed, nil, nil)
		if v != nil {
			return res{kind: rOther, txt: fmt.Sprintf("value %v together with error %v", v, err)}
		}
		return r
	}
	if i, ok := v.(int); ok {
		return res{kind: rVal, v: i}
	}
	return res{kind: rOther, txt: fmt.Sprintf("value %#v that nobody added", v)}
}

func bad(f family, o op) res {
	panic(fmt.Sprintf("harness: %v has no operation %v", f, o.code))
}

type qAdapter struct{ q *pq.Q }

func (a qAdapter) do(o op) res {
	switch o.code {
	case opAdd:
		return errRes(a.q.AddReq(o.val), pq.ErrClosed, pq.ErrReqQFull, nil)
	case opPrior:
		return errRes(a.q.AddPriorReq(o.val), pq.ErrClosed, pq.ErrReqQFull, nil)
	case opPop:
		v, err := a.q.Pop()
		return popRes(v, err, pq.ErrClosed)
	case opPopAnyway:
		v, err := a.q.PopAnyway()
		return popRes(v, err, pq.ErrClosed)
	case opClose:
		a.q.Close()
		return res{kind: rOK}
	}
	return bad(famQ, o)
}

type asyncAdapter struct{ q *async.Q }

func (a asyncAdapter) do(o op) res {
	switch o.code {
	case opAdd:
		return errRes(a.q.Add(o.val), async.ErrClosed, async.ErrFull, nil)
	case opPrior:
		return errRes(a.q.AddPrior(o.val), async.ErrClosed, async.ErrFull, nil)
	case opPop:
		v, err := a.q.Pop()
		return popRes(v, err, async.ErrClosed)
	case opPopAnyway:
		v, err := a.q.PopAnyway()
		return popRes(v, err, async.ErrClosed)
	case opClose:
		a.q.Close()
		return res{kind: rOK}
	case opIsClosed:
		return rb(a.q.IsClosed())
	}
	return bad(famAsync, o)
}

type muxAdapter struct{ q *mux.Q }

func (a muxAdapter) do(o op) res {
	switch o.code {
	case opAdd:
		return errRes(a.q.AddReq(o.val), mux.ErrClosed, mux.ErrQFull, nil)
	case opPrior:
		return errRes(a.q.AddPriorReq(o.val), mux.ErrClosed, mux.ErrQFull, nil)
	case opPop:
		v, err := a.q.Pop()
		return popRes(v, err, mux.ErrClosed)
	case opPopAnyway:
		v, err := a.q.PopAnyway()
		return popRes(v, err, mux.ErrClosed)
	case opClose:
		a.q.Close()
		return res{kind: rOK}
	case opIsClosed:
		return rb(a.q.IsClosed())
	}
	return bad(famMux, o)
}

type mqAdapter struct{ q *mq.MQ }

func (a mqAdapter) do(o op) res {
	switch o.code {
	case opAdd:
		return errRes(a.q.AddReq(o.val), mq.ErrClosed, mq.ErrReqQFull, mq.ErrCtrlQFull)
	case opPrior:
		return errRes(a.q.AddPriorReq(o.val), mq.ErrClosed, mq.ErrReqQFull, mq.ErrCtrlQFull)
	case opAddCtrl:
		return errRes(a.q.AddCtrl(o.val), mq.ErrClosed, mq.ErrReqQFull, mq.ErrCtrlQFull)
	case opPriorCtrl:
		return errRes(a.q.AddPriorCtrl(o.val), mq.ErrClosed, mq.ErrReqQFull, mq.ErrCtrlQFull)
	case opPop:
		v, err := a.q.Pop()
		return popRes(v, err, mq.ErrClosed)
	case opPopAnyway:
		v, err := a.q.PopAnyway()
		return popRes(v, err, mq.ErrClosed)
	case opClose:
		a.q.Close()
		return res{kind: rOK}
	case opTryClose:
		return rb(a.q.TryClose())
	case opTryClear:
		return rb(a.q.TryClear())
	case opIsClosed:
		return rb(a.q.IsClosed())
	case opIsCleared:
		return rb(a.q.IsCleared())
	}
	return bad(famMQ, o)
}

type syncAdapter struct{ q *syncq.SyncQueue }

func (a syncAdapter) do(o op) res {
	switch o.code {
	case opAdd:
		a.q.Push(o.val)
		return res{kind: rOK}
	case opPop:
		v := a.q.Pop()
		if v == nil {
			return res{kind: rNilClosed}
		}
		return popRes(v, nil, nil)
	case opTryPop:
		v, ok := a.q.TryPop()
		switch {
		case v == nil && ok:
			return res{kind: rNilClosed}
		case v == nil:
			return res{kind: rEmpty}
		case !ok:
			return res{kind: rOther, txt: fmt.Sprintf("TryPop returned (%v,false)", v)}
		}
		return popRes(v, nil, nil)
	case opLen:
		return res{kind: rInt, v: a.q.Len()}
	case opClose:
		a.q.Close()
		return res{kind: rOK}
	}
	return bad(famSync, o)
}

type pentry struct{ val, prio int }

func (e *pentry) GetPriority() int { return e.prio }

type priAdapter struct{ q *priq.PriQueue }

func (a priAdapter) do(o op) res {
	switch o.code {
	case opAdd:
		err := a.q.Push(&pentry{val: o.val, prio: o.prio})
		if err == nil {
			return res{kind: rOK}
		}
		if errors.Is(err, priq.ErrQueueIsFull) {
			return res{kind: rFull}
		}
		return res{kind: rOther, txt: "error " + err.Error()}
	case opPop:
		e := a.q.Pop()
		if e == nil {
			return res{kind: rEmpty}
		}
		if p, ok := e.(*pentry); ok && p != nil {
			return res{kind: rVal, v: p.val}
		}
		return res{kind: rOther, txt: fmt.Sprintf("entry %#v that nobody pushed", e)}
	case opLen:
		return res{kind: rInt, v: a.q.Len()}
	}
	return bad(famPri, o)
}

// newQueue builds a fresh queue of the family with the given capacities.
func newQueue(f family, capReq, capCtrl int) queue {
	switch f {
	case famQ:
		if capReq == 0 {
			return qAdapter{pq.NewQ()}
		}
		return qAdapter{pq.NewQ(pq.WithSize(capReq))}
	case famAsync:
		return asyncAdapter{async.NewQ(capReq)}
	case famMux:
		return muxAdapter{mux.NewQ(capReq)}
	case famMQ:
		var opts []mq.Option
		if capReq != 0 {
			opts = append(opts, mq.WithQReqSize(capReq))
		}
		if capCtrl != 0 {
			opts = append(opts, mq.WithQCtrlSize(capCtrl))
		}
		return mqAdapter{mq.NewMQ(opts...)}
	case famSync:
		return syncAdapter{syncq.NewSyncQueue()}
	case famPri:
		return priAdapter{priq.NewPriQueue(capReq)}
	}
	panic("family")
}

func describeQueue(f family, capReq, capCtrl int) string {
	switch f {
	case famMQ:
		return fmt.Sprintf("%v reqSize=%d ctrlSize=%d", f, capReq, capCtrl)
	case famSync:
		return f.String()
	case famPri:
		return fmt.Sprintf("%v capacity=%d", f, capReq)
	}
	return fmt.Sprintf("%v size=%d", f, capReq)
}

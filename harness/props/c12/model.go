package c12

import (
	"fmt"
	"math"
	"strconv"
	"strings"
)

// family of queue under test
type family int

const (
	famQ     family = iota // syncx/pipe/q.Q
	famAsync               // syncx/pipe/async.Q
	famMux                 // syncx/pipe/mux.Q
	famMQ                  // syncx/pipe/mq.MQ
	famSync                // queue/syncq.SyncQueue
	famPri                 // queue/priq.PriQueue
)

func (f family) String() string {
	return [...]string{"q.Q", "async.Q", "mux.Q", "mq.MQ", "syncq.SyncQueue", "priq.PriQueue"}[f]
}

// short name used in violation classes
func (f family) short() string {
	return [...]string{"q", "async", "mux", "mq", "syncq", "priq"}[f]
}

type opc int

const (
	opAdd       opc = iota // ordinary add to the request list (Push for syncq / priq)
	opPrior                // prior add to the request list
	opAddCtrl              // mq: ordinary add to the control list
	opPriorCtrl            // mq: prior add to the control list
	opPop
	opPopAnyway
	opTryPop // syncq
	opClose
	opTryClose
	opTryClear
	opIsClosed
	opIsCleared
	opLen
	nOpc
)

var opNames = [...]string{"Add", "AddPrior", "AddCtrl", "AddPriorCtrl", "Pop", "PopAnyway", "TryPop", "Close", "TryClose", "TryClear", "IsClosed", "IsCleared", "Len"}

func (o opc) String() string { return opNames[o] }

// op is one call; val is the (unique) item of an add, prio its priority (priq only).
type op struct {
	code opc
	val  int
	prio int
}

func (o op) String() string {
	switch o.code {
	case opAdd, opPrior, opAddCtrl, opPriorCtrl:
		return fmt.Sprintf("%s(%d)", o.code, o.val)
	}
	return o.code.String()
}

func (o op) render(f family) string {
	if !isAdd(o.code) {
		return opNames[o.code]
	}
	if f == famPri {
		return "Push(" + strconv.Itoa(o.val) + ",prio=" + strconv.Itoa(o.prio) + ")"
	}
	if f == famSync {
		return "Push(" + strconv.Itoa(o.val) + ")"
	}
	return opNames[o.code] + "(" + strconv.Itoa(o.val) + ")"
}

type resKind int

const (
	rOK        resKind = iota // add accepted / call without result returned
	rVal                      // an item was handed out (v = item)
	rClosed                   // the package's closed error
	rFull                     // the package's request-queue-full error
	rCtrlFull                 // mq: control-queue-full error
	rEmpty                    // "nothing there" without blocking (syncq TryPop ok=false, priq Pop nil)
	rNilClosed                // syncq: Pop -> nil / TryPop -> (nil,true): closed and drained
	rBool                     // v = 0/1
	rInt                      // v = n
	rOther                    // anything the specification has no name for (txt says what)
)

// res is the observable outcome of a call (comparable).
type res struct {
	kind resKind
	v    int
	txt  string
}

func (r res) String() string {
	switch r.kind {
	case rOK:
		return "ok"
	case rVal:
		return "item " + strconv.Itoa(r.v)
	case rClosed:
		return "ErrClosed"
	case rFull:
		return "ErrFull"
	case rCtrlFull:
		return "ErrCtrlFull"
	case rEmpty:
		return "empty"
	case rNilClosed:
		return "closed(nil)"
	case rBool:
		if r.v != 0 {
			return "true"
		}
		return "false"
	case rInt:
		return strconv.Itoa(r.v)
	}
	return "unexpected{" + r.txt + "}"
}

func rb(b bool) res {
	if b {
		return res{kind: rBool, v: 1}
	}
	return res{kind: rBool}
}

type item struct {
	val, prio int
	seq       int64
	prior     bool
}

// model is the sequential specification (a pair of lists with flags).
type model struct {
	fam             family
	capReq, capCtrl int // 0 = unbounded (pipe queues); priq: capacity
	req, ctrl       []item
	closed, cleared bool
	seq             int64
}

func newModel(f family, capReq, capCtrl int) *model {
	return &model{fam: f, capReq: capReq, capCtrl: capCtrl}
}

func (m *model) clone() *model {
	n := *m
	n.req = append([]item(nil), m.req...)
	n.ctrl = append([]item(nil), m.ctrl...)
	return &n
}

func (m *model) key() string {
	var sb strings.Builder
	fmt.Fprintf(&sb, "%v/%v/%d|", m.closed, m.cleared, m.seq)
	for _, it := range m.ctrl {
		fmt.Fprintf(&sb, "%d,", it.val)
	}
	sb.WriteByte('|')
	for _, it := range m.req {
		fmt.Fprintf(&sb, "%d.%d.%d,", it.val, it.prio, it.seq)
	}
	return sb.String()
}

func (m *model) held() int { return len(m.req) + len(m.ctrl) }

func (m *model) heldVals() []int {
	var out []int
	for _, it := range m.ctrl {
		out = append(out, it.val)
	}
	for _, it := range m.req {
		out = append(out, it.val)
	}
	return out
}

// appendState renders the model state into b (hot path of the sequential kinds: no fmt).
func (m *model) appendState(b []byte) []byte {
	list := func(b []byte, l []item, withPrio bool) []byte {
		b = append(b, '[')
		for i, it := range l {
			if i > 0 {
				b = append(b, ' ')
			}
			b = strconv.AppendInt(b, int64(it.val), 10)
			if withPrio {
				b = append(b, ":p"...)
				b = strconv.AppendInt(b, int64(it.prio), 10)
			}
		}
		return append(b, ']')
	}
	if m.fam == famMQ {
		b = append(b, "ctrl="...)
		b = list(b, m.ctrl, false)
		b = append(b, ' ')
	}
	if m.fam == famPri {
		b = append(b, "held="...)
		b = list(b, m.req, true)
	} else {
		b = append(b, "req="...)
		b = list(b, m.req, false)
	}
	if m.closed {
		b = append(b, " closed"...)
	}
	if m.cleared {
		b = append(b, " cleared"...)
	}
	return b
}

func (m *model) String() string { return string(m.appendState(nil)) }

func vals(l []item) []int {
	out := make([]int, len(l))
	for i, it := range l {
		out[i] = it.val
	}
	return out
}

// priTop returns the index of the entry the priority queue must hand out next.
func (m *model) priTop() int {
	best := 0
	for i := 1; i < len(m.req); i++ {
		a, b := m.req[i], m.req[best]
		if a.prio > b.prio || (a.prio == b.prio && a.seq < b.seq) {
			best = i
		}
	}
	return best
}

// wouldBlock reports whether the call would block in the current state.
func (m *model) wouldBlock(o op) bool {
	switch o.code {
	case opPop, opPopAnyway:
		if m.fam == famPri {
			return false
		}
		return m.held() == 0 && !m.closed
	}
	return false
}

// apply executes one call on the model. blocks = the call would not return in this
// state (nothing is changed then). alt, when non-nil, is a second outcome the statement
// allows as well (same successor state).
func (m *model) apply(o op) (r res, alt *res, blocks bool) {
	if m.wouldBlock(o) {
		return res{}, nil, true
	}
	popFront := func() res {
		if len(m.ctrl) > 0 {
			it := m.ctrl[0]
			m.ctrl = m.ctrl[1:]
			return res{kind: rVal, v: it.val}
		}
		it := m.req[0]
		m.req = m.req[1:]
		return res{kind: rVal, v: it.val}
	}
	switch m.fam {
	case famSync:
		switch o.code {
		case opAdd:
			if !m.closed {
				m.req = append(m.req, item{val: o.val})
			}
			return res{kind: rOK}, nil, false
		case opPop:
			if len(m.req) > 0 {
				return popFront(), nil, false
			}
			return res{kind: rNilClosed}, nil, false // closed (else it would block)
		case opTryPop:
			if len(m.req) > 0 {
				return popFront(), nil, false
			}
			if m.closed {
				return res{kind: rNilClosed}, nil, false
			}
			return res{kind: rEmpty}, nil, false
		case opLen:
			return res{kind: rInt, v: len(m.req)}, nil, false
		case opClose:
			m.closed = true
			return res{kind: rOK}, nil, false
		}
	case famPri:
		switch o.code {
		case opAdd:
			if len(m.req) >= m.capReq {
				return res{kind: rFull}, nil, false
			}
			m.seq++
			m.req = append(m.req, item{val: o.val, prio: o.prio, seq: m.seq})
			return res{kind: rOK}, nil, false
		case opPop:
			if len(m.req) == 0 {
				return res{kind: rEmpty}, nil, false
			}
			i := m.priTop()
			it := m.req[i]
			m.req = append(append([]item(nil), m.req[:i]...), m.req[i+1:]...)
			return res{kind: rVal, v: it.val}, nil, false
		case opLen:
			return res{kind: rInt, v: len(m.req)}, nil, false
		}
	default: // the four pipe queues
		switch o.code {
		case opAdd, opAddCtrl:
			lst, cp, full := &m.req, m.capReq, rFull
			if o.code == opAddCtrl {
				lst, cp, full = &m.ctrl, m.capCtrl, rCtrlFull
			}
			isFull := cp > 0 && len(*lst) >= cp
			if m.closed {
				if isFull {
					// closed AND full: the statement demands a refusal, not which of the two reasons is named
					a := res{kind: full}
					return res{kind: rClosed}, &a, false
				}
				return res{kind: rClosed}, nil, false
			}
			if isFull {
				return res{kind: full}, nil, false
			}
			*lst = append(*lst, item{val: o.val})
			return res{kind: rOK}, nil, false
		case opPrior, opPriorCtrl:
			if m.closed {
				return res{kind: rClosed}, nil, false
			}
			lst := &m.req
			if o.code == opPriorCtrl {
				lst = &m.ctrl
			}
			*lst = append([]item{{val: o.val, prior: true}}, *lst...)
			return res{kind: rOK}, nil, false
		case opPop:
			if m.closed {
				return res{kind: rClosed}, nil, false
			}
			return popFront(), nil, false
		case opPopAnyway:
			if m.held() == 0 {
				return res{kind: rClosed}, nil, false // closed (else it would block)
			}
			return popFront(), nil, false
		case opClose:
			m.closed = true
			return res{kind: rOK}, nil, false
		case opTryClose:
			// interpretation fixed by the design: on an already closed queue TryClose reports true
			if !m.closed && m.held() == 0 {
				m.closed = true
			}
			return rb(m.closed), nil, false
		case opTryClear:
			if !m.cleared && m.closed && m.held() == 0 {
				m.cleared = true
			}
			return rb(m.cleared), nil, false
		case opIsClosed:
			return rb(m.closed), nil, false
		case opIsCleared:
			return rb(m.cleared), nil, false
		}
	}
	panic(fmt.Sprintf("model: %v has no operation %v", m.fam, o.code))
}

// opsOf lists the operations a family offers.
func opsOf(f family) []opc {
	switch f {
	case famQ:
		return []opc{opAdd, opPrior, opPop, opPopAnyway, opClose}
	case famAsync, famMux:
		return []opc{opAdd, opPrior, opPop, opPopAnyway, opClose, opIsClosed}
	case famMQ:
		return []opc{opAdd, opPrior, opAddCtrl, opPriorCtrl, opPop, opPopAnyway, opClose, opTryClose, opTryClear, opIsClosed, opIsCleared}
	case famSync:
		return []opc{opAdd, opPop, opTryPop, opLen, opClose}
	case famPri:
		return []opc{opAdd, opPop, opLen}
	}
	return nil
}

func isAdd(c opc) bool { return c == opAdd || c == opPrior || c == opAddCtrl || c == opPriorCtrl }

// clauses names the clauses of the property statement that the call o exercises in
// state m (evaluated before the call is applied).
func (m *model) clauses(o op) []string {
	var out []string
	add := func(s string) { out = append(out, s) }
	switch m.fam {
	case famSync:
		switch o.code {
		case opAdd:
			if m.closed {
				add("clause:syncq_push_dropped_after_close")
			}
		case opPop, opTryPop:
			switch {
			case len(m.req) > 1:
				add("clause:fifo_pop_among_several")
				if m.closed {
					add("clause:syncq_residue_after_close_in_order")
				}
			case len(m.req) == 1 && m.closed:
				add("clause:syncq_residue_after_close_in_order")
			case len(m.req) == 0 && m.closed:
				add("clause:syncq_closed_reported_after_drain")
			case len(m.req) == 0:
				add("clause:syncq_trypop_empty_open")
			}
		}
	case famPri:
		switch o.code {
		case opAdd:
			if len(m.req) >= m.capReq {
				add("clause:add_refused_at_capacity")
			} else if len(m.req) == m.capReq-1 {
				add("clause:add_accepted_one_below_capacity")
			}
		case opPop:
			if len(m.req) == 0 {
				add("clause:priq_pop_empty")
				break
			}
			t := m.req[m.priTop()]
			ties, lower, laterHigher := 0, 0, false
			for _, it := range m.req {
				if it.prio == t.prio {
					ties++
				} else {
					lower++
					if it.seq < t.seq {
						laterHigher = true
					}
				}
			}
			if ties > 1 {
				add("clause:priq_fifo_among_equal_priorities")
			}
			if ties > 2 {
				add("clause:priq_three_way_tie")
			}
			if lower > 0 {
				add("clause:priq_highest_priority_first")
			}
			if laterHigher {
				add("clause:priq_later_push_overtakes")
			}
		}
	default:
		switch o.code {
		case opAdd, opAddCtrl:
			lst, cp := m.req, m.capReq
			if o.code == opAddCtrl {
				lst, cp = m.ctrl, m.capCtrl
			}
			switch {
			case m.closed:
				add("clause:add_refused_closed")
			case cp > 0 && len(lst) >= cp:
				add("clause:add_refused_at_capacity")
				if len(lst) > cp {
					add("clause:add_refused_above_capacity")
				}
			case cp > 0 && len(lst) == cp-1:
				add("clause:add_accepted_one_below_capacity")
			case cp == 0 && len(lst) >= 3:
				add("clause:add_unbounded_beyond_3")
			}
		case opPrior, opPriorCtrl:
			lst, cp := m.req, m.capReq
			if o.code == opPriorCtrl {
				lst, cp = m.ctrl, m.capCtrl
			}
			switch {
			case m.closed:
				add("clause:prior_add_refused_closed")
			case cp > 0 && len(lst) >= cp:
				add("clause:prior_add_bypasses_full_bound")
			case len(lst) > 0:
				add("clause:prior_add_in_front_of_others")
			}
		case opPop, opPopAnyway:
			switch {
			case m.closed && m.held() > 0 && o.code == opPop:
				add("clause:pop_fails_closed_with_residue")
			case m.closed && m.held() > 0:
				add("clause:popanyway_hands_out_residue")
				if m.held() > 1 {
					add("clause:popanyway_residue_order")
				}
			case m.closed:
				add("clause:pop_closed_empty")
			}
			if m.held() > 0 && !(m.closed && o.code == opPop) {
				if m.held() > 1 {
					add("clause:fifo_pop_among_several")
				}
				var front item
				if len(m.ctrl) > 0 {
					front = m.ctrl[0]
				} else {
					front = m.req[0]
				}
				if front.prior && m.held() > 1 {
					add("clause:prior_item_popped_first")
				}
				if len(m.ctrl) > 0 && len(m.req) > 0 {
					add("clause:mq_ctrl_before_req")
				}
			}
		case opTryClose:
			switch {
			case m.closed:
				add("clause:tryclose_on_closed")
			case m.held() == 0:
				add("clause:tryclose_true_on_empty")
			default:
				add("clause:tryclose_false_on_nonempty")
				if len(m.ctrl) == 0 || len(m.req) == 0 {
					add("clause:tryclose_false_one_list_empty")
				}
			}
		case opTryClear:
			switch {
			case m.cleared:
				add("clause:tryclear_on_cleared")
			case !m.closed && m.held() == 0:
				add("clause:tryclear_false_open_empty")
			case !m.closed:
				add("clause:tryclear_false_open_nonempty")
			case m.held() > 0:
				add("clause:tryclear_false_closed_residue")
			default:
				add("clause:tryclear_true_closed_empty")
			}
		}
	}
	return out
}

// drawPrio draws a priority: mostly 0..2 (so that equal priorities are common), sometimes
// negative values and the extremes of int (a comparison by subtraction overflows there).
func drawPrio(r interface{ Intn(int) int }) int {
	if r.Intn(5) != 0 {
		return r.Intn(3)
	}
	ext := []int{math.MaxInt, math.MinInt, math.MaxInt - 1, math.MinInt + 1, -1, -2, 1 << 40, -(1 << 40), math.MaxInt32, math.MinInt32}
	return ext[r.Intn(len(ext))]
}

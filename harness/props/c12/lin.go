package c12

import (
	"fmt"
	"runtime"
	"sort"
	"strings"
	"sync/atomic"
	"time"

	"github.com/anishathalye/porcupine"

	"verifh/engine"
)

// Q is the per-child quiescence detector (baseline taken in Setup).
var Q *engine.Quiescer

// rec is one completed call of a recorded history.
type rec struct {
	client    int
	o         op
	r         res
	call, ret int64
}

// parked lists the wait reasons that are fixed points for this package's goroutines.
// "semacquire" (which engine.Quiescer accepts because go1.23 shows WaitGroup.Wait that
// way) is left out on purpose: a goroutine whose allocation starts a GC cycle waits on
// the runtime's world semaphore in exactly that state while our own runtime.Stack
// snapshot holds it - a transient wait, not a parked client. No goroutine started by
// this package waits on a WaitGroup.
var parked = map[string]bool{
	"chan receive":       true,
	"chan send":          true,
	"select":             true,
	"sync.Cond.Wait":     true,
	"sync.Mutex.Lock":    true,
	"sync.RWMutex.RLock": true,
	"sync.RWMutex.Lock":  true,
}

func isQuiet() bool {
	for _, g := range Q.Snapshot() {
		if !parked[g.State] {
			return false
		}
	}
	return true
}

// confirmStuck re-examines a "quiet but not done" finding before it becomes a verdict:
// the same ops must still be pending at three further quiescent snapshots.
func confirmStuck(ops []*engine.Op) bool {
	for i := 0; i < 3; i++ {
		time.Sleep(2 * time.Millisecond)
		for j := 0; j < 4; j++ {
			runtime.Gosched()
		}
		if allDone(ops) || !isQuiet() {
			return false
		}
	}
	return !allDone(ops)
}

func allDone(ops []*engine.Op) bool {
	for _, o := range ops {
		if !o.Done() {
			return false
		}
	}
	return true
}

// settleOps waits until every op has returned or the process is at a quiescent fixed
// point (every goroutine started since the baseline is parked or gone). conclusive=false
// only when the generous guard expired (the case is then inconclusive, never a verdict).
func settleOps(k *engine.Case, ops []*engine.Op) (done, conclusive bool) {
	deadline := time.Now().Add(90 * time.Second)
	for i := 0; ; i++ {
		if allDone(ops) {
			return true, true
		}
		runtime.Gosched()
		if i >= 6 && i%3 == 0 {
			k.Count("quiescence_polls", 1)
			if isQuiet() {
				return allDone(ops), true
			}
		}
		if i > 300 {
			time.Sleep(20 * time.Microsecond)
		}
		if i > 3000 {
			time.Sleep(200 * time.Microsecond)
			if time.Now().After(deadline) {
				k.Inconclusive("quiescence not reached")
				return false, false
			}
		}
	}
}

// settleOrStuck is settleOps with the "quiet but pending" outcome confirmed.
func settleOrStuck(k *engine.Case, ops []*engine.Op) (done, conclusive bool) {
	for try := 0; try < 50; try++ {
		done, ok := settleOps(k, ops)
		if !ok || done {
			return done, ok
		}
		if confirmStuck(ops) {
			return false, true
		}
		k.Count("quiescence_not_confirmed", 1)
	}
	k.Inconclusive("quiescent snapshot never confirmed")
	return false, false
}

func porcupineModel(f family, capReq, capCtrl int) porcupine.Model {
	return porcupine.Model{
		Init: func() interface{} { return newModel(f, capReq, capCtrl) },
		Step: func(st, in, out interface{}) (bool, interface{}) {
			m := st.(*model).clone()
			want, alt, blocks := m.apply(in.(op))
			if blocks {
				return false, st // a call that returned cannot take effect where it would block
			}
			got := out.(res)
			if got == want || (alt != nil && got == *alt) {
				return true, m
			}
			return false, st
		},
		Equal: func(a, b interface{}) bool { return a.(*model).key() == b.(*model).key() },
		DescribeOperation: func(in, out interface{}) string {
			return fmt.Sprintf("%v -> %v", in.(op), out.(res))
		},
	}
}

type clientProg struct {
	role string
	ops  []op
}

// genPrograms draws the client programs of one history.
func genPrograms(k *engine.Case, f family) []clientProg {
	r := k.R
	nc := 3 + r.Intn(2)
	roles := make([]string, nc)
	roles[0], roles[1] = "producer", "consumer"
	for i := 2; i < nc; i++ {
		roles[i] = []string{"producer", "consumer", "mixed", "mixed"}[r.Intn(4)]
	}
	r.Shuffle(nc, func(i, j int) { roles[i], roles[j] = roles[j], roles[i] })
	// syncq: Close wakes a single blocked Pop (C13, repaired separately), so only one
	// client may use the blocking Pop; the others use TryPop
	syncBlocker := -1
	closer := -1
	if f != famPri && r.Intn(100) < 45 {
		closer = r.Intn(nc)
	}
	next := 1
	progs := make([]clientProg, nc)
	for c := 0; c < nc; c++ {
		n := 4 + r.Intn(4)
		closeAt := -1
		if c == closer {
			closeAt = r.Intn(n)
		}
		p := clientProg{role: roles[c]}
		for i := 0; i < n; i++ {
			var o op
			if i == closeAt {
				o.code = opClose
				if f == famMQ {
					o.code = []opc{opClose, opTryClose, opTryClose, opTryClear}[r.Intn(4)]
				}
				p.ops = append(p.ops, o)
				continue
			}
			produce := roles[c] == "producer" || (roles[c] == "mixed" && r.Intn(2) == 0)
			x := r.Intn(100)
			if produce {
				switch {
				case x < 8 && (f == famSync || f == famPri):
					o.code = opLen
				case x < 6 && f != famQ:
					o.code = opIsClosed
				case x < 9 && f == famMQ:
					o.code = []opc{opTryClose, opTryClear, opIsCleared}[r.Intn(3)]
				case x < 30 && f != famSync && f != famPri:
					o.code = opPrior
					if f == famMQ && r.Intn(2) == 0 {
						o.code = opPriorCtrl
					}
				default:
					o.code = opAdd
					if f == famMQ && r.Intn(5) < 2 {
						o.code = opAddCtrl
					}
				}
			} else {
				switch f {
				case famPri:
					o.code = opPop
					if x < 10 {
						o.code = opLen
					}
				case famSync:
					if syncBlocker == -1 {
						syncBlocker = c
					}
					o.code = opTryPop
					if c == syncBlocker && x < 60 {
						o.code = opPop
					} else if x >= 92 {
						o.code = opLen
					}
				default:
					o.code = opPop
					if x < 45 {
						o.code = opPopAnyway
					}
				}
			}
			if isAdd(o.code) {
				o.val = next
				next++
				if f == famPri {
					o.prio = drawPrio(r)
				}
			}
			p.ops = append(p.ops, o)
		}
		progs[c] = p
	}
	return progs
}

func progText(f family, progs []clientProg) string {
	var sb strings.Builder
	for c, p := range progs {
		fmt.Fprintf(&sb, "c%d(%s):", c, p.role)
		for _, o := range p.ops {
			sb.WriteByte(' ')
			sb.WriteString(o.render(f))
		}
		sb.WriteString("; ")
	}
	return sb.String()
}

func linCase(fams ...family) func(k *engine.Case) {
	return func(k *engine.Case) {
		r := k.R
		f := fams[r.Intn(len(fams))]
		capReq, capCtrl := pickCaps(r, f)
		if f != famSync && f != famPri && r.Intn(3) == 0 {
			capReq = 1 // the bound is where producers race
		}
		progs := genPrograms(k, f)
		procs := []int{2, 4, 8}[r.Intn(3)]
		mainAdds := r.Intn(3) // how many blocked consumers are released by an add before Close is used
		text := progText(f, progs)
		k.Logf("%s gomaxprocs=%d", describeQueue(f, capReq, capCtrl), procs)
		for c, p := range progs {
			var parts []string
			for _, o := range p.ops {
				parts = append(parts, o.render(f))
			}
			k.Logf("client %d (%s): %s", c, p.role, strings.Join(parts, ", "))
		}
		k.Distinct(engine.HashStr(describeQueue(f, capReq, capCtrl) + "|" + text))

		old := runtime.GOMAXPROCS(procs)
		defer runtime.GOMAXPROCS(old)

		q := newQueue(f, capReq, capCtrl)
		d := engine.NewDriver(Q, k)
		gate := make(chan struct{})
		var arrived atomic.Int32
		var cops []*engine.Op
		for c := range progs {
			c := c
			prog := progs[c].ops
			cops = append(cops, d.Spawn(fmt.Sprintf("client%d", c), func() any {
				recs := make([]rec, 0, len(prog))
				arrived.Add(1)
				<-gate
				for _, o := range prog {
					call := d.Tick()
					res := q.do(o)
					ret := d.Tick()
					recs = append(recs, rec{client: c, o: o, r: res, call: call, ret: ret})
					runtime.Gosched()
				}
				return recs
			}))
		}
		for arrived.Load() < int32(len(progs)) {
			runtime.Gosched()
		}
		close(gate)

		mainClient := len(progs)
		var mrecs []rec
		mdo := func(o op) res {
			call := d.Tick()
			res := q.do(o)
			ret := d.Tick()
			mrecs = append(mrecs, rec{client: mainClient, o: o, r: res, call: call, ret: ret})
			return res
		}
		mval := 900

		// let the clients run; whoever parks in a blocking Pop on an empty open queue is
		// released by the driver: a few adds first, then Close
		closedByMain := false
		for round := 0; ; round++ {
			done, ok := settleOps(k, cops)
			if !ok {
				return
			}
			if done {
				break
			}
			k.Count("lin_blocked_consumers_at_quiescence", 1)
			if closedByMain || f == famPri {
				// after Close nobody may stay parked (and PriQueue has no blocking call at all)
				if !confirmStuck(cops) {
					k.Count("quiescence_not_confirmed", 1)
					continue
				}
				var recsSoFar []rec
				for _, o := range cops {
					if o.Done() {
						recsSoFar = append(recsSoFar, o.Result().([]rec)...)
					}
				}
				logHistory(k, f, append(recsSoFar, mrecs...))
				k.Fail("stuck-consumer:"+f.short(), "%s: after Close a client is still parked at the final quiescent point: pending %s; %v",
					describeQueue(f, capReq, capCtrl), d.PendingNames(), Q.Describe())
				return
			}
			if round < mainAdds && f != famPri {
				mval++
				o := op{code: opAdd, val: mval}
				if f == famMQ && r.Intn(2) == 0 {
					o.code = opAddCtrl
				}
				rs := mdo(o)
				k.Count("lin_release_by_add", 1)
				if rs.kind == rOK {
					continue
				}
			}
			mdo(op{code: opClose})
			closedByMain = true
			k.Count("lin_release_by_close", 1)
		}
		d.Join()

		// final sequential part: close, drain to the end marker, probes
		if f != famPri {
			mdo(op{code: opClose})
		}
		drainOp := opPopAnyway
		switch f {
		case famSync:
			drainOp = opTryPop
		case famPri:
			drainOp = opPop
		}
		totalAdds := 0
		for _, p := range progs {
			totalAdds += len(p.ops)
		}
		drainedOK := false
		for i := 0; i < totalAdds+8; i++ {
			if rs := mdo(op{code: drainOp}); rs.kind != rVal {
				drainedOK = true
				break
			}
		}
		switch f {
		case famMQ:
			mdo(op{code: opTryClear})
			mdo(op{code: opIsCleared})
		case famSync, famPri:
			mdo(op{code: opLen})
		}

		var hist []rec
		for _, o := range cops {
			hist = append(hist, o.Result().([]rec)...)
		}
		hist = append(hist, mrecs...)
		sort.Slice(hist, func(i, j int) bool { return hist[i].call < hist[j].call })
		logHistory(k, f, hist)
		k.Count("lin_histories", 1)
		k.Count("lin_histories:"+f.short(), 1)
		k.Count("lin_calls", int64(len(hist)))

		// overlap accounting (never a floor: it depends on the scheduler)
		overlap := 0
		for i := range hist {
			for j := i + 1; j < len(hist) && hist[j].call < hist[i].ret; j++ {
				if hist[j].client != hist[i].client {
					overlap++
				}
			}
		}
		if overlap > 0 {
			k.Count("lin_histories_with_overlap", 1)
			k.Count("lin_overlapping_call_pairs", int64(overlap))
			k.Nontrivial()
		}
		closeOverlap := false
		for i := range hist {
			if hist[i].o.code != opClose && hist[i].o.code != opTryClose {
				continue
			}
			for j := range hist {
				if hist[j].client != hist[i].client && hist[j].call < hist[i].ret && hist[i].call < hist[j].ret {
					closeOverlap = true
				}
			}
		}
		if closeOverlap {
			k.Count("lin_close_overlapping_other_calls", 1)
		}

		if !drainedOK {
			k.Fail("invented-item:"+f.short(), "%s: the drain after Close handed out more items than calls were ever made", describeQueue(f, capReq, capCtrl))
			return
		}
		// conservation, independent of the linearizability search
		led := newLedger()
		// syncq: Push has no result; a push that had not returned before the first Close was
		// called may legitimately have been dropped, so it only counts as accepted if it shows up
		firstCloseCall := int64(-1)
		if f == famSync {
			for _, h := range hist {
				if h.o.code == opClose && (firstCloseCall == -1 || h.call < firstCloseCall) {
					firstCloseCall = h.call
				}
			}
		}
		for _, h := range hist {
			led.note(h.o, h.r, f, false)
		}
		if firstCloseCall != -1 {
			for _, h := range hist {
				if isAdd(h.o.code) && h.ret > firstCloseCall && led.popped[h.o.val] == 0 {
					delete(led.accepted, h.o.val)
				}
			}
		}
		if !led.settle(k, f) {
			return
		}

		ops := make([]porcupine.Operation, len(hist))
		for i, h := range hist {
			ops[i] = porcupine.Operation{ClientId: h.client, Input: h.o, Call: h.call, Output: h.r, Return: h.ret}
		}
		switch porcupine.CheckOperationsTimeout(porcupineModel(f, capReq, capCtrl), ops, 60*time.Second) {
		case porcupine.Ok:
			k.Count("lin_linearizable", 1)
		case porcupine.Unknown:
			k.Inconclusive("linearizability search timed out")
		case porcupine.Illegal:
			k.Fail("not-linearizable:"+f.short(), "%s: the recorded history (%d calls, %d clients) has no sequential explanation by the %v specification",
				describeQueue(f, capReq, capCtrl), len(hist), len(progs)+1, f)
		}
	}
}

func logHistory(k *engine.Case, f family, hist []rec) {
	k.Logf("recorded history [call,return] by logical clock:")
	for _, h := range hist {
		who := fmt.Sprintf("c%d", h.client)
		k.Logf("  [%3d,%3d] %-4s %-20s -> %s", h.call, h.ret, who, h.o.render(f), h.r)
	}
}

package c12

import (
	"verifh/engine"

	"github.com/pinealctx/neptune/syncx/pipe/mq"
)

// mqLongRunCase: "control messages before requests" must not depend on how many control
// messages were handed out in a row. A few requests and a long run (hundreds to thousands) of
// control messages are queued on one MQ in a seed-chosen interleaving; then everything is
// popped (Pop on the open queue; for some cases the queue is closed part-way and the rest is
// taken with PopAnyway). Every pop is only issued while the model says the queue is non-empty,
// so none of them can block. Expected: every control message in its add order (priority adds
// at the front), then every request in its add order.
func mqLongRunCase(k *engine.Case) {
	r := k.R
	q := mq.NewMQ()
	nreq := 1 + r.Intn(4)
	nctrl := []int{40, 200, 300, 520, 700, 1100, 2100, 4200}[r.Intn(8)]
	type it struct {
		ctrl bool
		id   int
	}
	var ctrl, req []it
	reqLeft, ctrlLeft := nreq, nctrl
	for id := 0; reqLeft+ctrlLeft > 0; id++ {
		addReq := reqLeft > 0 && (ctrlLeft == 0 || r.Intn(nctrl+nreq) < nreq*8)
		if addReq {
			reqLeft--
			v := it{false, id}
			var err error
			if r.Intn(4) == 0 {
				err = q.AddPriorReq(v)
				req = append([]it{v}, req...)
			} else {
				err = q.AddReq(v)
				req = append(req, v)
			}
			if err != nil {
				k.Fail("mismatch:mq.AddReq", "add of request %d on an open unbounded queue -> %v", id, err)
				return
			}
		} else {
			ctrlLeft--
			v := it{true, id}
			var err error
			if r.Intn(16) == 0 {
				err = q.AddPriorCtrl(v)
				ctrl = append([]it{v}, ctrl...)
			} else {
				err = q.AddCtrl(v)
				ctrl = append(ctrl, v)
			}
			if err != nil {
				k.Fail("mismatch:mq.AddCtrl", "add of control message %d on an open unbounded queue -> %v", id, err)
				return
			}
		}
	}
	want := append(append([]it{}, ctrl...), req...)
	closeAt := -1
	if r.Intn(2) == 0 {
		closeAt = r.Intn(len(want))
	}
	k.Logf("MQ: %d control messages and %d requests queued; closed after %d pops (-1: never), the rest taken with PopAnyway", nctrl, nreq, closeAt)
	k.Nontrivial()
	run := 0
	for i, w := range want {
		if i == closeAt {
			q.Close()
		}
		var v interface{}
		var err error
		name := "Pop"
		if closeAt >= 0 && i >= closeAt {
			name = "PopAnyway"
			v, err = q.PopAnyway()
		} else {
			v, err = q.Pop()
		}
		if err != nil {
			k.Fail("mismatch:mq."+name, "%s #%d -> error %v although %d item(s) are queued", name, i, err, len(want)-i)
			return
		}
		g, ok := v.(it)
		if !ok || g != w {
			k.Fail("order:mq-long-run", "%s #%d handed out %+v, the specified order (control messages first, each list in add order) says %+v; %d control messages had been handed out in a row before it, %d control / %d request were queued in all", name, i, v, w, run, nctrl, nreq)
			return
		}
		if g.ctrl {
			run++
		}
	}
	k.Count("clause:mq_long_control_run_in_order", 1)
	k.Count("mq_long_run_items", int64(len(want)))
}

// Package c12 monitors the queues of pinealctx/neptune (pipe/q.Q, pipe/async.Q,
// pipe/mux.Q, pipe/mq.MQ, queue/syncq.SyncQueue, queue/priq.PriQueue): hand-out order,
// conservation of items, the capacity bound, and the close / try-close / try-clear
// semantics - sequentially against a list model in lock-step, and concurrently by
// linearizability checking of recorded histories against the same model.
package c12

import "verifh/engine"

// Prop is the C12 check.
var Prop = &engine.Prop{
	ID:    "C12",
	Level: "exploration",
	Rule: "seq-* kinds: a case is one seed-generated program of 6-35 calls (two weighted phases out of fill / churn / drain / closing, capacities 0-3, unique items, " +
		"a Pop that would block in the model is never issued) run in lock-step against a list model, then closed and drained to the end marker; " +
		"non-trivial = at least one item handed out and at least one clause of the statement exercised (refusal at the bound, prior add, call after close, two-level or priority choice, try-close / try-clear); " +
		"distinct = distinct program text including outcomes. " +
		"lin-* kinds: a case is one recorded history of 3-4 concurrent clients x 4-7 calls (blocking and non-blocking) plus the driver's release / close / drain calls, " +
		"checked for conservation and, with porcupine, for linearizability against the same model; non-trivial = calls of different clients overlapped; distinct = distinct client programs. " +
		"stress: a parallel fill race at the bound (exactly `capacity` adds accepted) and a producer/consumer throughput round judged by conservation and per-producer order per consumer. " +
		"bound-race: producers hammer the ordinary add of a bounded queue while a single consumer frees one slot at a time; accepted-adds-returned minus pops-made is a lower bound of the content and must never exceed the capacity",
	Assumptions: []string{
		"the list model in props/c12/model.go (about 150 lines) is the specification: FIFO lists, prior adds to the front without bound, control list before request list, (priority desc, arrival asc) for PriQueue",
		"TryClose on an already closed queue reports true (the 'exactly when empty' clause is evaluated on open queues)",
		"an ordinary add on a queue that is closed AND full may name either reason; only the refusal is demanded",
		"PriQueue capacity 0 ('nothing fits' in the code, 'unbounded' in the quantifier text) is not generated; negative capacities are not generated",
		"items are ints, never nil (SyncQueue uses nil as its closed marker)",
		"blocking calls: the sequential kinds never issue a call that blocks in the model; in recorded histories the driver releases parked consumers by an add or Close at a quiescent cut " +
			"(runtime.Stack wait reasons, timer-free workload) and at most one client uses SyncQueue's blocking Pop (Close waking a single waiter is C13's subject)",
		"the linearizability checker (porcupine v1.3.0) is trusted; a search time-out is inconclusive, never a verdict",
		"the Go race detector reports races only on executed interleavings",
		"a 'quiet but pending' snapshot becomes a stuck verdict only after three further quiescent snapshots; the wait reason 'semacquire' is not taken as parked (a goroutine starting a GC cycle waits that way while the snapshot holds the world semaphore)",
	},
	ShardsQuick: 8, ShardsThorough: 16,
	Setup: func(c *engine.Ctx) { Q = engine.NewQuiescer() },
	Kinds: []engine.Kind{
		{Name: "seq-pipe", Quick: 30000, Thorough: 1200000, Fn: seqCase(famQ, famAsync, famMux)},
		{Name: "seq-mq", Quick: 20000, Thorough: 800000, Fn: seqCase(famMQ)},
		{Name: "seq-syncq", Quick: 10000, Thorough: 400000, Fn: seqCase(famSync)},
		{Name: "syncq-nil", Quick: 400, Thorough: 16000, Fn: syncqNilCase},
		{Name: "syncq-burst", Quick: 60, Thorough: 2400, Fn: syncqBurstCase},
		{Name: "anyway-close", Quick: 400, Thorough: 16000, Fn: anywayCloseCase},
		{Name: "late-waker", Quick: 1200, Thorough: 48000, Fn: lateWakerCase},
		{Name: "mq-reuse", Quick: 600, Thorough: 24000, Fn: mqReuseCase},
		{Name: "mq-long-run", Quick: 400, Thorough: 16000, Fn: mqLongRunCase},
		{Name: "seq-priq", Quick: 12000, Thorough: 500000, Fn: seqCase(famPri)},
		{Name: "lin-pipe", Quick: 3000, Thorough: 90000, Repeat: 20, Fn: linCase(famQ, famAsync, famMux)},
		{Name: "lin-mq", Quick: 2000, Thorough: 60000, Repeat: 20, Fn: linCase(famMQ)},
		{Name: "lin-syncq", Quick: 1500, Thorough: 45000, Repeat: 20, Fn: linCase(famSync)},
		{Name: "lin-priq", Quick: 1500, Thorough: 45000, Repeat: 20, Fn: linCase(famPri)},
		{Name: "stress", Quick: 48, Thorough: 1440, Repeat: 20, Fn: stressCase},
		{Name: "bound-race", Quick: 240, Thorough: 12000, Repeat: 20, Fn: boundRaceCase},
	},
	Floors: map[string]int64{
		// every clause of the statement must have been exercised (seed-determined counts, far above these)
		"clause:fifo_pop_among_several":             500,
		"clause:prior_item_popped_first":            100,
		"clause:prior_add_bypasses_full_bound":      100,
		"clause:add_refused_at_capacity":            200,
		"clause:add_accepted_one_below_capacity":    200,
		"clause:add_refused_closed":                 200,
		"clause:prior_add_refused_closed":           50,
		"clause:pop_fails_closed_with_residue":      100,
		"clause:popanyway_residue_order":            50,
		"clause:pop_closed_empty":                   100,
		"clause:mq_ctrl_before_req":                 100,
		"clause:mq_long_control_run_in_order":       100,
		"clause:tryclose_true_on_empty":             30,
		"clause:tryclose_false_on_nonempty":         50,
		"clause:tryclose_false_one_list_empty":      20,
		"clause:tryclear_true_closed_empty":         30,
		"clause:tryclear_false_open_empty":          20,
		"clause:tryclear_false_closed_residue":      20,
		"clause:syncq_push_dropped_after_close":     50,
		"clause:syncq_residue_after_close_in_order": 50,
		"clause:syncq_closed_reported_after_drain":  50,
		"clause:syncq_trypop_empty_open":            50,
		"clause:priq_fifo_among_equal_priorities":   100,
		"clause:priq_three_way_tie":                 20,
		"clause:priq_highest_priority_first":        100,
		"clause:priq_later_push_overtakes":          50,
		"lin_histories":                             500,
		"lin_linearizable":                          500,
		"stress_rounds":                             10,
		"fill_race_rounds":                          5,
		"bound_race_rounds":                         20,
	},
}

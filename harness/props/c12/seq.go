package c12

import (
	"fmt"
	"math"
	"math/rand"
	"sort"
	"strconv"

	"verifh/engine"
)

// weights of one generation phase, per operation code
type profile struct {
	name string
	w    [nOpc]int
}

func mkProfile(name string, pairs ...int) profile {
	p := profile{name: name}
	for i := 0; i+1 < len(pairs); i += 2 {
		p.w[pairs[i]] = pairs[i+1]
	}
	return p
}

var profiles = []profile{
	// fill: drive the queue to (and past, with prior adds) its bound
	mkProfile("fill", int(opAdd), 50, int(opAddCtrl), 25, int(opPrior), 12, int(opPriorCtrl), 8, int(opPop), 6, int(opPopAnyway), 4, int(opTryPop), 5,
		int(opTryClose), 3, int(opTryClear), 2, int(opIsClosed), 2, int(opIsCleared), 1, int(opLen), 5),
	// churn: adds and pops alternate around the empty / one-item boundary
	mkProfile("churn", int(opAdd), 28, int(opAddCtrl), 14, int(opPrior), 10, int(opPriorCtrl), 6, int(opPop), 24, int(opPopAnyway), 14, int(opTryPop), 14,
		int(opTryClose), 4, int(opTryClear), 3, int(opIsClosed), 2, int(opIsCleared), 2, int(opLen), 5),
	// drain: pops dominate
	mkProfile("drain", int(opAdd), 8, int(opAddCtrl), 4, int(opPrior), 3, int(opPriorCtrl), 2, int(opPop), 35, int(opPopAnyway), 30, int(opTryPop), 30,
		int(opTryClose), 8, int(opTryClear), 8, int(opIsClosed), 3, int(opIsCleared), 3, int(opLen), 6),
	// closing: close / try-close / try-clear and what follows them
	mkProfile("closing", int(opAdd), 14, int(opAddCtrl), 8, int(opPrior), 8, int(opPriorCtrl), 5, int(opPop), 14, int(opPopAnyway), 18, int(opTryPop), 16,
		int(opClose), 12, int(opTryClose), 12, int(opTryClear), 14, int(opIsClosed), 4, int(opIsCleared), 4, int(opLen), 5),
}

func pickOp(r *rand.Rand, p *profile, allowed []opc) opc {
	tot := 0
	for _, c := range allowed {
		tot += p.w[c]
	}
	if tot == 0 {
		return allowed[r.Intn(len(allowed))]
	}
	x := r.Intn(tot)
	for _, c := range allowed {
		x -= p.w[c]
		if x < 0 {
			return c
		}
	}
	return allowed[0]
}

// pickCaps draws the capacities of a case (0 = unbounded for the pipe queues).
func pickCaps(r *rand.Rand, f family) (capReq, capCtrl int) {
	switch f {
	case famSync:
		return 0, 0
	case famPri:
		// capacity 0 is left out: for PriQueue it means "nothing fits", which the quantifier
		// text ("0 = unbounded") and the code read differently
		if r.Intn(5) == 0 {
			return 4 + r.Intn(5), 0
		}
		return 1 + r.Intn(3), 0
	case famMQ:
		if r.Intn(12) == 0 {
			return hugeCap(r), hugeCap(r)
		}
		return r.Intn(4), r.Intn(4)
	}
	if r.Intn(12) == 0 {
		return hugeCap(r), 0
	}
	return r.Intn(4), 0
}

// hugeCap: "all capacities" includes bounds beyond 32 bits; such a queue is bounded but never
// full in a test (a capacity kept in a narrower integer turns into a small or an absent bound).
func hugeCap(r *rand.Rand) int {
	return []int{1<<32 + 1, 1<<32 + 2, 1<<32 + 3, 1 << 31, 1<<31 + 2, 1<<40 + 1, 1<<33 + 1, math.MaxInt, math.MaxInt - 1}[r.Intn(9)]
}

// conservation bookkeeping that does not go through the model: what the queue itself
// accepted and what it handed out
type ledger struct {
	accepted map[int]bool
	popped   map[int]int
	order    []int
}

func newLedger() *ledger { return &ledger{accepted: map[int]bool{}, popped: map[int]int{}} }

func (l *ledger) note(o op, r res, f family, closedBefore bool) {
	if isAdd(o.code) && r.kind == rOK {
		if f == famSync && closedBefore {
			return // silently dropped by specification
		}
		l.accepted[o.val] = true
	}
	if r.kind == rVal {
		l.popped[r.v]++
		l.order = append(l.order, r.v)
	}
}

// settle compares accepted with handed-out after the queue has been drained.
func (l *ledger) settle(k *engine.Case, f family) bool {
	var lost, dup, inv []int
	for v := range l.accepted {
		if l.popped[v] == 0 {
			lost = append(lost, v)
		}
	}
	for v, n := range l.popped {
		if !l.accepted[v] {
			inv = append(inv, v)
		} else if n > 1 {
			dup = append(dup, v)
		}
	}
	sort.Ints(lost)
	sort.Ints(dup)
	sort.Ints(inv)
	ok := true
	if len(lost) > 0 {
		k.Fail("lost-item:"+f.short(), "%v accepted item(s) %v and never handed them out although the queue was drained to its end", f, lost)
		ok = false
	}
	if len(dup) > 0 {
		k.Fail("duplicated-item:"+f.short(), "%v handed out item(s) %v more than once", f, dup)
		ok = false
	}
	if len(inv) > 0 {
		k.Fail("invented-item:"+f.short(), "%v handed out item(s) %v that it never accepted (refused, dropped or never added)", f, inv)
		ok = false
	}
	return ok
}

func seqCase(fams ...family) func(k *engine.Case) {
	return func(k *engine.Case) {
		r := k.R
		f := fams[r.Intn(len(fams))]
		capReq, capCtrl := pickCaps(r, f)
		q := newQueue(f, capReq, capCtrl)
		m := newModel(f, capReq, capCtrl)
		allowed := opsOf(f)
		n := 6 + r.Intn(30)
		pa := &profiles[r.Intn(len(profiles))]
		pb := &profiles[r.Intn(len(profiles))]
		split := r.Intn(n + 1)
		forcedClose := -1
		if f != famPri && r.Intn(3) == 0 {
			forcedClose = r.Intn(n)
		}
		k.Logf("%s; %d calls, profile %s then %s from call %d", describeQueue(f, capReq, capCtrl), n, pa.name, pb.name, split)
		led := newLedger()
		next := 1
		clauseSeen := 0
		handed := 0

		// counters are collected per case and flushed once (the engine's counters take a lock)
		cnt := map[string]int64{}
		defer func() {
			for name, v := range cnt {
				k.Count(name, v)
			}
		}()
		callsKey := "seq_calls:" + f.short()
		var line []byte

		// one lock-step call: model first (it also says whether the call would block), then the queue
		step := func(i int, o op, tag string) bool {
			for _, c := range m.clauses(o) {
				cnt[c]++
				clauseSeen++
			}
			closedBefore := m.closed
			prev := m.clone()
			want, alt, blocks := m.apply(o)
			if blocks {
				panic("harness: generator issued a call that blocks in the model")
			}
			got := q.do(o)
			cnt["seq_calls"]++
			cnt[callsKey]++
			led.note(o, got, f, closedBefore)
			if got.kind == rVal {
				handed++
			}
			line = append(line[:0], tag...)
			if i < 10 {
				line = append(line, ' ')
			}
			line = strconv.AppendInt(line, int64(i), 10)
			line = append(line, ' ')
			line = appendPadded(line, o.render(f), 22)
			line = append(line, " -> "...)
			line = appendPadded(line, got.String(), 12)
			line = append(line, " | "...)
			line = m.appendState(line)
			k.Logf("%s", line)
			if got != want && (alt == nil || got != *alt) {
				exp := want.String()
				if alt != nil {
					exp += " or " + alt.String()
				}
				k.Fail(fmt.Sprintf("mismatch:%s.%s", f.short(), o.code),
					"%s: call %d %s in state {%s} returned %s, the specification says %s", describeQueue(f, capReq, capCtrl), i, o.render(f), prev, got, exp)
				return false
			}
			return true
		}

		for i := 0; i < n; i++ {
			p := pa
			if i >= split {
				p = pb
			}
			var o op
			if i == forcedClose {
				o.code = opClose
			} else {
				o.code = pickOp(r, p, allowed)
			}
			if m.wouldBlock(o) {
				// a Pop that would block is not issued (blocked consumers are C13's subject)
				cnt["would_block_not_issued"]++
				if f == famSync && r.Intn(2) == 0 {
					o.code = opTryPop
				} else {
					o.code = opAdd
				}
			}
			if isAdd(o.code) {
				o.val = next
				next++
				if f == famPri {
					o.prio = drawPrio(r)
				}
			}
			if !step(i, o, "") {
				return
			}
		}

		// drain to the end so that conservation can be judged: close (where there is a
		// close), then take everything that is left
		i := n
		if f != famPri && !m.closed {
			if !step(i, op{code: opClose}, "drain ") {
				return
			}
			i++
		}
		residue := m.held()
		if residue > 0 {
			cnt["drain_with_residue"]++
		}
		drainOp := opPopAnyway
		if f == famSync {
			drainOp = opTryPop
			if r.Intn(2) == 0 {
				drainOp = opPop // closed: cannot block
			}
		} else if f == famPri {
			drainOp = opPop
		}
		for j := 0; j <= residue; j++ { // one more than held: the end marker
			if !step(i, op{code: drainOp}, "drain ") {
				return
			}
			i++
		}
		if f == famMQ {
			if !step(i, op{code: opTryClear}, "drain ") {
				return
			}
			i++
		}
		if f == famSync || f == famPri {
			if !step(i, op{code: opLen}, "drain ") {
				return
			}
		}
		if !led.settle(k, f) {
			return
		}
		cnt["seq_programs:"+f.short()]++
		cnt["items_handed_out"] += int64(handed)
		if handed > 0 && clauseSeen > 0 {
			k.Nontrivial()
		}
	}
}

func appendPadded(b []byte, s string, w int) []byte {
	b = append(b, s...)
	for i := len(s); i < w; i++ {
		b = append(b, ' ')
	}
	return b
}

package c12

import (
	"sync"

	"verifh/engine"

	"github.com/pinealctx/neptune/queue/syncq"
)

// syncqBurstCase: a consumer loops on the blocking Pop while the driver pushes bursts of more
// than a thousand items and helps draining them with TryPop (so the looping consumer is mostly
// still waking up when the burst is gone). Whatever the queue does with its storage after a
// large burst, no item may be lost: every pushed item is handed out exactly once, each
// consumer sees increasing sequence numbers (FIFO), and an item pushed when the queue is empty
// and the consumer is parked in Pop reaches that consumer.
func syncqBurstCase(k *engine.Case) {
	r := k.R
	q := syncq.NewSyncQueue()
	d := engine.NewDriver(Q, k)
	type stop struct{}
	var mu sync.Mutex // the detector of parked goroutines is no synchronisation the race detector knows
	var consumed []int
	taken := func() int { mu.Lock(); defer mu.Unlock(); return len(consumed) }
	loop := d.Spawn("consumer loop: Pop until the stop marker", func() any {
		for {
			v := q.Pop()
			if _, ok := v.(stop); ok {
				return nil
			}
			if v == nil {
				return "Pop returned nil on an open queue"
			}
			mu.Lock()
			consumed = append(consumed, v.(int))
			mu.Unlock()
		}
	})
	if !d.Quiesce() {
		q.Close()
		return
	}
	rounds := 4 + r.Intn(9)
	next := 0
	var drained []int
	k.Nontrivial()
	for round := 0; round < rounds; round++ {
		n := 1025 + r.Intn(2000)
		if r.Intn(4) == 0 {
			n = 1 + r.Intn(1100)
		}
		for i := 0; i < n; i++ {
			q.Push(next)
			next++
		}
		got := 0
		for q.Len() > 0 {
			if v, ok := q.TryPop(); ok {
				if v == nil {
					k.Fail("mismatch:syncq.TryPop", "TryPop handed out nil on an open queue in round %d", round)
					q.Close()
					return
				}
				drained = append(drained, v.(int))
				got++
			}
		}
		k.Count("syncq_burst_rounds", 1)
		if !d.Quiesce() {
			q.Close()
			return
		}
		if loop.Done() {
			k.Fail("mismatch:syncq.Pop", "the consumer stopped in round %d: %v", round, loop.Result())
			q.Close()
			return
		}
		k.Logf("round %d: %d pushed, %d drained by TryPop, %d taken by the looping consumer so far, Len()=%d", round, n, got, taken(), q.Len())
		k.Evals(1)
	}
	// the queue is empty, the consumer is parked in Pop: one more item must reach it
	q.Push(stop{})
	if !d.Quiesce() {
		q.Close()
		return
	}
	if !loop.Done() {
		k.Fail("stuck-consumer:syncq", "after %d bursts (largest > 1024 items) were drained, an item pushed to the open, empty queue never reached the consumer parked in Pop (Len()=%d)", rounds, q.Len())
		q.Close()
		return
	}
	if res := loop.Result(); res != nil {
		k.Fail("mismatch:syncq.Pop", "the consumer stopped early: %v", res)
		return
	}
	// exactly-once and per-consumer FIFO
	mu.Lock()
	defer mu.Unlock()
	seen := make([]uint8, next)
	for _, part := range [][]int{consumed, drained} {
		last := -1
		for _, v := range part {
			if v < 0 || v >= next {
				k.Fail("mismatch:syncq.Pop", "item %d was never pushed", v)
				return
			}
			if v <= last {
				k.Fail("mismatch:syncq.Pop", "one consumer received item %d after item %d (FIFO order broken)", v, last)
				return
			}
			last = v
			seen[v]++
		}
	}
	for v, c := range seen {
		if c != 1 {
			k.Fail("mismatch:syncq.Pop", "item %d of %d was handed out %d times (lost or duplicated); consumer took %d, TryPop took %d", v, next, c, len(consumed), len(drained))
			return
		}
	}
	k.Evals(int64(next))
	k.Count("clause:syncq_burst_no_loss", 1)
	k.Count("syncq_burst_items", int64(next))
	k.Count("syncq_burst_items_taken_by_parked_consumer", int64(len(consumed)))
}

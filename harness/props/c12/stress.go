package c12

import (
	"fmt"
	"runtime"
	"sync/atomic"

	"verifh/engine"
)

const (
	prodBase  = 100000 // item = (producer+1)*prodBase + index
	priorProd = 8      // pseudo producer number of the prior-add producer
	maxSpin   = 4 << 20
)

type got struct {
	items []int
	note  string // first outcome the specification has no room for
}

func itemOf(p, i int) int { return (p+1)*prodBase + i }

// stressCase runs producers and consumers in parallel on one queue: a fill race at the
// bound, then a throughput round; judged by conservation, per-producer order per
// consumer, the bound, and (by the parent) the race detector.
func stressCase(k *engine.Case) {
	r := k.R
	f := family(r.Intn(6))
	capReq, capCtrl := 0, 0
	switch f {
	case famSync:
	case famPri:
		capReq = []int{1, 2, 3, 8, 64}[r.Intn(5)]
	case famMQ:
		capReq = []int{0, 1, 2, 3, 8}[r.Intn(5)]
		capCtrl = []int{0, 1, 2, 3, 8}[r.Intn(5)]
	default:
		capReq = []int{0, 1, 2, 3, 8}[r.Intn(5)]
	}
	procs := []int{2, 4, 8}[r.Intn(3)]
	nItems := 200 + r.Intn(200)
	withPrior := f != famSync && f != famPri && r.Intn(2) == 0
	secondPop := opPopAnyway
	if r.Intn(2) == 0 {
		secondPop = opPop
	}
	k.Logf("stress %s gomaxprocs=%d items/producer=%d prior-producer=%v consumer1=%v", describeQueue(f, capReq, capCtrl), procs, nItems, withPrior, secondPop)
	k.Nontrivial()
	old := runtime.GOMAXPROCS(procs)
	defer runtime.GOMAXPROCS(old)

	if capReq > 0 && !fillRace(k, f, capReq, capCtrl) {
		return
	}

	q := newQueue(f, capReq, capCtrl)
	d := engine.NewDriver(Q, k)
	gate := make(chan struct{})
	var stop atomic.Bool
	var maxLen atomic.Int64
	var retries atomic.Int64

	addCode := func(p int) opc {
		if f == famMQ && p%2 == 1 {
			return opAddCtrl
		}
		return opAdd
	}
	var prodOps, consOps []*engine.Op
	for p := 0; p < 2; p++ {
		p := p
		prodOps = append(prodOps, d.Spawn(fmt.Sprintf("producer%d", p), func() any {
			<-gate
			for i := 0; i < nItems; i++ {
				o := op{code: addCode(p), val: itemOf(p, i), prio: i % 3}
				for spin := 0; ; spin++ {
					rs := q.do(o)
					if rs.kind == rOK {
						break
					}
					if (rs.kind == rFull || rs.kind == rCtrlFull) && (capReq > 0 || capCtrl > 0) {
						if spin > maxSpin {
							return "gave up: queue stayed full"
						}
						retries.Add(1)
						runtime.Gosched()
						continue
					}
					return fmt.Sprintf("%s returned %s on an open queue", o.render(f), rs)
				}
			}
			return ""
		}))
	}
	if withPrior {
		prodOps = append(prodOps, d.Spawn("prior-producer", func() any {
			<-gate
			for i := 0; i < nItems/4; i++ {
				o := op{code: opPrior, val: itemOf(priorProd, i)}
				if f == famMQ && i%2 == 1 {
					o.code = opPriorCtrl
				}
				if rs := q.do(o); rs.kind != rOK {
					return fmt.Sprintf("%s returned %s on an open queue (prior adds are not bounded)", o.render(f), rs)
				}
				runtime.Gosched()
			}
			return ""
		}))
	}
	// prober: read-only calls in parallel (race detector; PriQueue.Len never above capacity)
	prodOps = append(prodOps, d.Spawn("prober", func() any {
		<-gate
		for i := 0; i < 300; i++ {
			switch f {
			case famSync, famPri:
				n := q.do(op{code: opLen}).v
				if int64(n) > maxLen.Load() {
					maxLen.Store(int64(n))
				}
				if n < 0 || (f == famPri && n > capReq) {
					return fmt.Sprintf("Len() = %d with capacity %d", n, capReq)
				}
			case famQ:
			default:
				if q.do(op{code: opIsClosed}).v != 0 {
					return "IsClosed() = true before anybody closed"
				}
				if f == famMQ && q.do(op{code: opIsCleared}).v != 0 {
					return "IsCleared() = true before anybody closed"
				}
			}
			runtime.Gosched()
		}
		return ""
	}))
	for c := 0; c < 2; c++ {
		c := c
		consOps = append(consOps, d.Spawn(fmt.Sprintf("consumer%d", c), func() any {
			<-gate
			g := &got{}
			for {
				var o op
				switch f {
				case famPri:
					o.code = opPop
				case famSync:
					o.code = opPop // the single blocking consumer (C13: Close wakes one)
					if c == 1 {
						o.code = opTryPop
					}
				default:
					o.code = opPopAnyway
					if c == 1 {
						o.code = secondPop
					}
				}
				stopping := stop.Load()
				rs := q.do(o)
				switch rs.kind {
				case rVal:
					g.items = append(g.items, rs.v)
				case rClosed, rNilClosed:
					if !stop.Load() {
						g.note = fmt.Sprintf("%s reported closed before anybody closed", o.render(f))
					}
					return g
				case rEmpty:
					if f == famPri && stopping {
						return g
					}
					runtime.Gosched()
				default:
					g.note = fmt.Sprintf("%s returned %s", o.render(f), rs)
					return g
				}
			}
		}))
	}
	close(gate)

	done, ok := settleOrStuck(k, prodOps)
	if !ok {
		return
	}
	if !done {
		k.Fail("stuck-producer:"+f.short(), "stress %s: a non-blocking call never returned: pending %s; %v", describeQueue(f, capReq, capCtrl), d.PendingNames(), Q.Describe())
		return
	}
	for _, o := range prodOps {
		if s := o.Result().(string); s != "" {
			if len(s) > 7 && s[:7] == "gave up" {
				k.Inconclusive("stress producer gave up on a full queue")
				stop.Store(true)
				if f != famPri {
					q.do(op{code: opClose})
				}
				return
			}
			stop.Store(true)
			if f != famPri {
				q.do(op{code: opClose})
			}
			k.Fail("mismatch-under-load:"+f.short(), "stress %s: %s: %s", describeQueue(f, capReq, capCtrl), o.Name, s)
			return
		}
	}
	stop.Store(true)
	if f != famPri {
		q.do(op{code: opClose})
	}
	done, ok = settleOrStuck(k, consOps)
	if !ok {
		return
	}
	if !done {
		k.Fail("stuck-consumer:"+f.short(), "stress %s: after Close a consumer is still parked at a quiescent fixed point: pending %s; %v",
			describeQueue(f, capReq, capCtrl), d.PendingNames(), Q.Describe())
		return
	}
	d.Join()

	// what is left (a Pop consumer leaves at Close; PopAnyway consumers drain)
	var rest got
	drainOp := opPopAnyway
	if f == famSync {
		drainOp = opTryPop
	} else if f == famPri {
		drainOp = opPop
	}
	for i := 0; i < 3*nItems+8; i++ {
		rs := q.do(op{code: drainOp})
		if rs.kind != rVal {
			break
		}
		rest.items = append(rest.items, rs.v)
	}
	lists := []*got{consOps[0].Result().(*got), consOps[1].Result().(*got), &rest}
	names := []string{"consumer0", "consumer1", "final drain"}
	for i, g := range lists {
		if g.note != "" {
			k.Fail("mismatch-under-load:"+f.short(), "stress %s: %s: %s", describeQueue(f, capReq, capCtrl), names[i], g.note)
			return
		}
	}
	nprod := 2
	expect := map[int]bool{}
	for p := 0; p < nprod; p++ {
		for i := 0; i < nItems; i++ {
			expect[itemOf(p, i)] = true
		}
	}
	if withPrior {
		for i := 0; i < nItems/4; i++ {
			expect[itemOf(priorProd, i)] = true
		}
	}
	seen := map[int]int{}
	total := 0
	for ci, g := range lists {
		last := map[[2]int]int{} // (producer, priority class) -> last index seen by this consumer
		for _, v := range g.items {
			seen[v]++
			total++
			if !expect[v] {
				k.Fail("invented-item:"+f.short(), "stress %s: %s received %d which nobody added", describeQueue(f, capReq, capCtrl), names[ci], v)
				return
			}
			p, idx := v/prodBase-1, v%prodBase
			if p == priorProd {
				continue // prior adds jump the queue: conservation only
			}
			key := [2]int{p, 0}
			if f == famPri {
				key[1] = idx % 3
			}
			if l, ok := last[key]; ok && idx < l {
				k.Fail("order:"+f.short(), "stress %s: %s received item %d of producer %d after item %d of the same producer (same list, same priority)",
					describeQueue(f, capReq, capCtrl), names[ci], idx, p, l)
				return
			}
			last[key] = idx
		}
	}
	for v := range expect {
		if seen[v] == 0 {
			k.Fail("lost-item:"+f.short(), "stress %s: accepted item %d (producer %d index %d) never came out; %d of %d items received",
				describeQueue(f, capReq, capCtrl), v, v/prodBase-1, v%prodBase, total, len(expect))
			return
		}
		if seen[v] > 1 {
			k.Fail("duplicated-item:"+f.short(), "stress %s: item %d came out %d times", describeQueue(f, capReq, capCtrl), v, seen[v])
			return
		}
	}
	k.Count("stress_rounds", 1)
	k.Count("stress_rounds:"+f.short(), 1)
	k.Count("stress_items_delivered", int64(total))
	k.Count("stress_full_retries", retries.Load())
	k.Count("stress_left_for_final_drain", int64(len(rest.items)))
	k.C.Max("stress_observed_len", maxLen.Load())
	k.Logf("delivered %d items: consumer0=%d consumer1=%d final drain=%d; full-retries=%d", total, len(lists[0].items), len(lists[1].items), len(rest.items), retries.Load())
}

// fillRace: producers add in parallel, nobody pops, each stops at its first refusal.
// Whatever the interleaving, exactly `capacity` adds must have been accepted, and a
// single consumer must then receive them in per-producer order.
func fillRace(k *engine.Case, f family, capReq, capCtrl int) bool {
	q := newQueue(f, capReq, capCtrl)
	d := engine.NewDriver(Q, k)
	gate := make(chan struct{})
	np := 2 + k.R.Intn(2)
	var ops []*engine.Op
	for p := 0; p < np; p++ {
		p := p
		ops = append(ops, d.Spawn(fmt.Sprintf("filler%d", p), func() any {
			<-gate
			n := 0
			for i := 0; i < capReq+4; i++ {
				rs := q.do(op{code: opAdd, val: itemOf(p, i), prio: 1})
				if rs.kind == rFull {
					return n
				}
				if rs.kind != rOK {
					return -1 - i
				}
				n++
			}
			return n
		}))
	}
	close(gate)
	done, ok := settleOrStuck(k, ops)
	if !ok {
		return false
	}
	if !done {
		k.Fail("stuck-producer:"+f.short(), "fill race %s: a non-blocking add never returned: pending %s", describeQueue(f, capReq, capCtrl), d.PendingNames())
		return false
	}
	d.Join()
	acc := 0
	for _, o := range ops {
		n := o.Result().(int)
		if n < 0 {
			k.Fail("mismatch-under-load:"+f.short(), "fill race %s: %s got an outcome other than accepted / full on its add #%d", describeQueue(f, capReq, capCtrl), o.Name, -1-n)
			return false
		}
		acc += n
	}
	k.Count("fill_race_rounds", 1)
	k.Logf("fill race: %d producers, capacity %d, accepted %d", np, capReq, acc)
	if acc != capReq {
		k.Fail("capacity-under-race:"+f.short(), "fill race %s: %d producers added in parallel until refused, nobody popped: %d adds were accepted, capacity is %d",
			describeQueue(f, capReq, capCtrl), np, acc, capReq)
		return false
	}
	popOp := opPopAnyway
	if f == famPri {
		popOp = opPop
	} else {
		q.do(op{code: opClose}) // PopAnyway on a closed queue cannot block, whatever is inside
	}
	last := map[int]int{}
	for i := 0; i < acc; i++ {
		rs := q.do(op{code: popOp})
		if rs.kind != rVal {
			k.Fail("lost-item:"+f.short(), "fill race %s: %d adds accepted but pop #%d returned %s", describeQueue(f, capReq, capCtrl), acc, i, rs)
			return false
		}
		p, idx := rs.v/prodBase-1, rs.v%prodBase
		if l, ok := last[p]; ok && idx < l {
			k.Fail("order:"+f.short(), "fill race %s: item %d of producer %d came out after item %d", describeQueue(f, capReq, capCtrl), idx, p, l)
			return false
		}
		last[p] = idx
	}
	return true
}

// boundRaceCase: producers hammer an ordinary add on a bounded queue while a single
// consumer frees one slot at a time. The number of adds that have returned "accepted"
// minus the number of pops the (only) consumer has made is a lower bound of what the
// queue holds; it must never exceed the capacity, whatever the interleaving.
func boundRaceCase(k *engine.Case) {
	r := k.R
	f := []family{famQ, famAsync, famMux, famMQ, famPri}[r.Intn(5)]
	bound := []int{1, 1, 2, 3}[r.Intn(4)]
	capReq, capCtrl, addCode := bound, 0, opAdd
	if f == famMQ && r.Intn(2) == 0 {
		capReq, capCtrl, addCode = 0, bound, opAddCtrl
	}
	np := 2 + r.Intn(2)
	procs := []int{2, 4, 8}[r.Intn(3)]
	rounds := 120 + r.Intn(80)
	k.Logf("bound race %s add=%v producers=%d gomaxprocs=%d slots freed one at a time=%d", describeQueue(f, capReq, capCtrl), addCode, np, procs, rounds)
	k.Nontrivial()
	old := runtime.GOMAXPROCS(procs)
	defer runtime.GOMAXPROCS(old)

	q := newQueue(f, capReq, capCtrl)
	d := engine.NewDriver(Q, k)
	gate := make(chan struct{})
	var accepted atomic.Int64
	var stop atomic.Bool
	var ops []*engine.Op
	for p := 0; p < np; p++ {
		p := p
		ops = append(ops, d.Spawn(fmt.Sprintf("producer%d", p), func() any {
			<-gate
			i := 0
			for spin := 0; !stop.Load() && spin < maxSpin; {
				rs := q.do(op{code: addCode, val: itemOf(p, i), prio: 1})
				switch rs.kind {
				case rOK:
					accepted.Add(1)
					i++
					spin = 0 // give up only when the queue stays full for maxSpin consecutive attempts
				case rFull, rCtrlFull:
					spin++
					runtime.Gosched()
				default:
					return fmt.Sprintf("%v returned %s on an open queue", addCode, rs)
				}
			}
			return ""
		}))
	}
	popOp := opPopAnyway
	if f == famPri {
		popOp = opPop
	}
	type popped struct {
		items []int
		note  string
		class string
	}
	popper := d.Spawn("consumer", func() any {
		<-gate
		out := &popped{}
		defer stop.Store(true)
		for n := int64(0); n < int64(rounds); n++ {
			for spin := 0; ; spin++ {
				h := accepted.Load() - n
				if h > int64(bound) {
					out.class, out.note = "capacity-under-race", fmt.Sprintf("%d adds have been accepted and only %d items popped: the queue holds at least %d, capacity is %d", h+n, n, h, bound)
					return out
				}
				if h == int64(bound) {
					break
				}
				if spin > maxSpin {
					out.class, out.note = "gave-up", "producers did not refill the queue"
					return out
				}
				runtime.Gosched()
			}
			for j := 0; j < 2; j++ { // a second, late accept would show up here
				runtime.Gosched()
				if h := accepted.Load() - n; h > int64(bound) {
					out.class, out.note = "capacity-under-race", fmt.Sprintf("%d adds have been accepted and only %d items popped: the queue holds at least %d, capacity is %d", h+n, n, h, bound)
					return out
				}
			}
			rs := q.do(op{code: popOp}) // at least `bound` >= 1 items inside: cannot block
			if rs.kind != rVal {
				out.class, out.note = "mismatch-under-load", fmt.Sprintf("%v returned %s although at least %d accepted items were inside", popOp, rs, bound)
				return out
			}
			out.items = append(out.items, rs.v)
		}
		return out
	})
	ops = append(ops, popper)
	close(gate)
	done, ok := settleOrStuck(k, ops)
	if !ok {
		return
	}
	if !done {
		k.Fail("stuck-consumer:"+f.short(), "bound race %s: a call never returned although items were inside: pending %s; %v", describeQueue(f, capReq, capCtrl), d.PendingNames(), Q.Describe())
		return
	}
	d.Join()
	for _, o := range ops[:np] {
		if s := o.Result().(string); s != "" {
			k.Fail("mismatch-under-load:"+f.short(), "bound race %s: %s: %s", describeQueue(f, capReq, capCtrl), o.Name, s)
			return
		}
	}
	res := popper.Result().(*popped)
	if res.class == "gave-up" {
		k.Inconclusive("bound race: " + res.note)
		return
	}
	if res.class != "" {
		k.Fail(res.class+":"+f.short(), "bound race %s, %d producers: %s", describeQueue(f, capReq, capCtrl), np, res.note)
		return
	}
	acc := accepted.Load()
	held := acc - int64(len(res.items))
	if held > int64(bound) {
		k.Fail("capacity-under-race:"+f.short(), "bound race %s, %d producers: at the end %d adds were accepted and %d items popped: the queue holds %d, capacity is %d",
			describeQueue(f, capReq, capCtrl), np, acc, len(res.items), held, bound)
		return
	}
	if f != famPri {
		q.do(op{code: opClose})
	}
	all := append([]int(nil), res.items...)
	for i := int64(0); i <= held+2; i++ {
		rs := q.do(op{code: popOp})
		if rs.kind != rVal {
			break
		}
		all = append(all, rs.v)
	}
	if int64(len(all)) != acc {
		cls := "lost-item:"
		if int64(len(all)) > acc {
			cls = "invented-item:"
		}
		k.Fail(cls+f.short(), "bound race %s: %d adds were accepted, %d items came out in total", describeQueue(f, capReq, capCtrl), acc, len(all))
		return
	}
	last := map[int]int{}
	for _, v := range all {
		p, idx := v/prodBase-1, v%prodBase
		if l, ok := last[p]; ok && idx <= l {
			k.Fail("order:"+f.short(), "bound race %s: the single consumer received item %d of producer %d after item %d", describeQueue(f, capReq, capCtrl), idx, p, l)
			return
		}
		last[p] = idx
	}
	k.Count("bound_race_rounds", 1)
	k.Count("bound_race_rounds:"+f.short(), 1)
	k.Count("bound_race_slots_contended", int64(len(res.items)))
	k.Logf("accepted %d, popped %d one at a time, %d left at the end (capacity %d)", acc, len(res.items), held, bound)
}

package c05

import (
	"context"
	"errors"
	"fmt"
	"runtime"
	"sort"
	"strings"
	"sync"
	"time"

	"github.com/redis/go-redis/v9"
)

// fakeRedis is an in-memory stand-in for the handful of redis commands cache/ttlrds.go
// issues. It embeds a nil redis.Cmdable: any command that is not overridden panics with
// a nil dereference (which the engine reports), so the fake cannot silently accept a
// command it does not model.
//
// Deadlines are kept in nanoseconds of the same virtual clock the in-memory cache reads
// (seconds * 1e9). The argument formatting of go-redis v9.0.4 is reproduced:
//   - expiration > 0: PX formatMs(d) when d < 1s or d is not a whole number of seconds,
//     else EX formatSec(d); formatMs rounds 0 < d < 1ms up to 1 ms, formatSec rounds
//     0 < d < 1s up to 1 s
//   - expiration == redis.KeepTTL (-1): KEEPTTL
//   - any other expiration <= 0: no expiry option (the key loses its ttl)
//
// and redis' own rules: a key is gone once now >= its deadline; SET without KEEPTTL
// discards the old ttl; SET KEEPTTL on a missing key creates it without ttl; EXPIRE
// with a non-positive number of seconds deletes the key; GETDEL is atomic.
type fakeRedis struct {
	redis.Cmdable

	mu    sync.Mutex
	nowNs func() int64
	data  map[string]*fent
	log   []string
	cmds  map[string]int64
	keep  bool // keep a command log
	yield bool // runtime.Gosched() before every command (concurrent kinds)

	scanCursors map[uint64]string // open SCAN cursors: last key handed out
	nextCursor  uint64

	// fault injection (kind rds): when failIn > 0 it counts data commands down; the command that
	// brings it to zero fails with errConn before it has any effect
	failIn  int
	faulted bool
}

// errConn is what a command returns when the connection to the server broke.
var errConn = errors.New("fakeredis: connection reset by peer")

// faulty is called by every data command with the lock held.
func (f *fakeRedis) faulty(cmd string) bool {
	if f.failIn <= 0 {
		return false
	}
	f.failIn--
	if f.failIn > 0 {
		return false
	}
	f.faulted = true
	f.logf("%s -> (injected) connection error, the command has no effect", cmd)
	f.count("injected_error")
	return true
}

type fent struct {
	val string
	dl  int64 // 0 = no expiry
}

func newFakeRedis(nowNs func() int64) *fakeRedis {
	return &fakeRedis{nowNs: nowNs, data: map[string]*fent{}, keep: true}
}

func usePrecise(d time.Duration) bool { return d < time.Second || d%time.Second != 0 }

func formatMs(d time.Duration) int64 {
	if d > 0 && d < time.Millisecond {
		return 1
	}
	return int64(d / time.Millisecond)
}

func formatSec(d time.Duration) int64 {
	if d > 0 && d < time.Second {
		return 1
	}
	return int64(d / time.Second)
}

func toStr(v interface{}) string {
	switch x := v.(type) {
	case []byte:
		return string(x)
	case string:
		return x
	}
	return fmt.Sprint(v)
}

// enter locks the fake and returns the current time; expired keys are purged lazily
// per key by live().
func (f *fakeRedis) enter() int64 {
	if f.yield {
		runtime.Gosched()
	}
	f.mu.Lock()
	return f.nowNs()
}

func (f *fakeRedis) live(key string, now int64) *fent {
	e := f.data[key]
	if e == nil {
		return nil
	}
	if e.dl != 0 && now >= e.dl {
		delete(f.data, key)
		return nil
	}
	return e
}

func (f *fakeRedis) logf(format string, a ...any) {
	if f.keep && len(f.log) < 4096 {
		f.log = append(f.log, fmt.Sprintf(format, a...))
	}
}

// drain returns and clears the command log.
func (f *fakeRedis) drain() []string {
	f.mu.Lock()
	defer f.mu.Unlock()
	l := f.log
	f.log = nil
	return l
}

// expiryOpt renders the expiry option go-redis would send and the relative deadline.
func expiryOpt(d time.Duration) (opt string, relNs int64, keepTTL bool) {
	switch {
	case d > 0 && usePrecise(d):
		ms := formatMs(d)
		return fmt.Sprintf(" PX %d", ms), ms * int64(time.Millisecond), false
	case d > 0:
		s := formatSec(d)
		return fmt.Sprintf(" EX %d", s), s * int64(time.Second), false
	case d == redis.KeepTTL:
		return " KEEPTTL", 0, true
	}
	return "", 0, false
}

func (f *fakeRedis) Set(ctx context.Context, key string, value interface{}, expiration time.Duration) *redis.StatusCmd {
	now := f.enter()
	defer f.mu.Unlock()
	if f.faulty("SET") {
		return redis.NewStatusResult("", errConn)
	}
	opt, rel, keep := expiryOpt(expiration)
	f.logf("SET %s %s%s   (expiration argument %v)", key, toStr(value), opt, expiration)
	if keep {
		f.count("set-keepttl")
	} else {
		f.count("set")
	}
	old := f.live(key, now)
	e := &fent{val: toStr(value)}
	switch {
	case keep:
		if old != nil {
			e.dl = old.dl
		}
	case rel > 0:
		e.dl = now + rel
	}
	f.data[key] = e
	return redis.NewStatusResult("OK", nil)
}

func (f *fakeRedis) SetNX(ctx context.Context, key string, value interface{}, expiration time.Duration) *redis.BoolCmd {
	now := f.enter()
	defer f.mu.Unlock()
	if f.faulty("SETNX") {
		return redis.NewBoolResult(false, errConn)
	}
	var rel int64
	switch expiration {
	case 0:
		f.logf("SETNX %s %s   (expiration argument %v)", key, toStr(value), expiration)
	case redis.KeepTTL:
		f.logf("SET %s %s KEEPTTL NX", key, toStr(value))
	default:
		var opt string
		if usePrecise(expiration) {
			ms := formatMs(expiration)
			opt, rel = fmt.Sprintf("PX %d", ms), ms*int64(time.Millisecond)
		} else {
			s := formatSec(expiration)
			opt, rel = fmt.Sprintf("EX %d", s), s*int64(time.Second)
		}
		f.logf("SET %s %s %s NX   (expiration argument %v)", key, toStr(value), opt, expiration)
		if rel <= 0 {
			return redis.NewBoolResult(false, errors.New("ERR invalid expire time in 'set' command"))
		}
	}
	f.count("setnx")
	if f.live(key, now) != nil {
		return redis.NewBoolResult(false, nil)
	}
	e := &fent{val: toStr(value)}
	if rel > 0 {
		e.dl = now + rel
	}
	f.data[key] = e
	return redis.NewBoolResult(true, nil)
}

func (f *fakeRedis) Get(ctx context.Context, key string) *redis.StringCmd {
	now := f.enter()
	defer f.mu.Unlock()
	if f.faulty("GET") {
		return redis.NewStringResult("", errConn)
	}
	f.logf("GET %s", key)
	f.count("get")
	e := f.live(key, now)
	if e == nil {
		return redis.NewStringResult("", redis.Nil)
	}
	return redis.NewStringResult(e.val, nil)
}

func (f *fakeRedis) GetDel(ctx context.Context, key string) *redis.StringCmd {
	now := f.enter()
	defer f.mu.Unlock()
	if f.faulty("GETDEL") {
		return redis.NewStringResult("", errConn)
	}
	f.logf("GETDEL %s", key)
	f.count("getdel")
	e := f.live(key, now)
	if e == nil {
		return redis.NewStringResult("", redis.Nil)
	}
	delete(f.data, key)
	return redis.NewStringResult(e.val, nil)
}

func (f *fakeRedis) Expire(ctx context.Context, key string, expiration time.Duration) *redis.BoolCmd {
	now := f.enter()
	defer f.mu.Unlock()
	if f.faulty("EXPIRE") {
		return redis.NewBoolResult(false, errConn)
	}
	sec := formatSec(expiration)
	f.logf("EXPIRE %s %d   (expiration argument %v)", key, sec, expiration)
	f.count("expire")
	e := f.live(key, now)
	if e == nil {
		return redis.NewBoolResult(false, nil)
	}
	if sec <= 0 {
		delete(f.data, key)
		return redis.NewBoolResult(true, nil)
	}
	e.dl = now + sec*int64(time.Second)
	return redis.NewBoolResult(true, nil)
}

func (f *fakeRedis) Del(ctx context.Context, keys ...string) *redis.IntCmd {
	now := f.enter()
	defer f.mu.Unlock()
	if f.faulty("DEL") {
		return redis.NewIntResult(0, errConn)
	}
	f.logf("DEL %s", strings.Join(keys, " "))
	f.count("del")
	var n int64
	for _, key := range keys {
		if f.live(key, now) != nil {
			delete(f.data, key)
			n++
		}
	}
	return redis.NewIntResult(n, nil)
}

// Scan returns every live key matching a "prefix*" pattern in one page (cursor 0), in
// sorted order; the iterator of such a result never asks for another page.
// Scan pages like a real server: at most COUNT (default 10) keys per reply and a cursor for
// the rest. Cursors are stable under deletion of keys already returned (a cursor remembers
// the last key handed out and continues with the keys after it in sorted order), which is
// what SCAN guarantees for elements present during the whole iteration. The command carries
// a process function, so go-redis' ScanIterator fetches the following pages through it.
func (f *fakeRedis) Scan(ctx context.Context, cursor uint64, match string, count int64) *redis.ScanCmd {
	cmd := redis.NewScanCmd(ctx, f.processScan, "scan", cursor, "match", match, "count", count)
	_ = f.processScan(ctx, cmd)
	return cmd
}

func (f *fakeRedis) processScan(ctx context.Context, c redis.Cmder) error {
	cmd, ok := c.(*redis.ScanCmd)
	if !ok {
		return fmt.Errorf("fakeRedis: unexpected command %T", c)
	}
	args := cmd.Args()
	var cursor uint64
	var match string
	var count int64
	switch v := args[1].(type) {
	case uint64:
		cursor = v
	case int64:
		cursor = uint64(v)
	case int:
		cursor = uint64(v)
	}
	for i := 2; i+1 < len(args); i += 2 {
		switch fmt.Sprint(args[i]) {
		case "match":
			match = fmt.Sprint(args[i+1])
		case "count":
			switch v := args[i+1].(type) {
			case int64:
				count = v
			case int:
				count = int64(v)
			}
		}
	}
	now := f.enter()
	defer f.mu.Unlock()
	f.logf("SCAN %d MATCH %s COUNT %d", cursor, match, count)
	f.count("scan")
	if !strings.HasSuffix(match, "*") || strings.ContainsAny(strings.TrimSuffix(match, "*"), "*?[\\") {
		err := fmt.Errorf("fakeRedis: unsupported pattern %q", match)
		cmd.SetErr(err)
		return err
	}
	prefix := strings.TrimSuffix(match, "*")
	after := ""
	if cursor != 0 {
		last, ok := f.scanCursors[cursor]
		if !ok {
			cmd.SetVal(nil, 0)
			return nil
		}
		after = last
		delete(f.scanCursors, cursor)
	}
	var keys []string
	for key := range f.data {
		if strings.HasPrefix(key, prefix) && f.live(key, now) != nil && (cursor == 0 || key > after) {
			keys = append(keys, key)
		}
	}
	sort.Strings(keys)
	page := count
	if page <= 0 {
		page = 10
	}
	next := uint64(0)
	if int64(len(keys)) > page {
		keys = keys[:page]
		if f.scanCursors == nil {
			f.scanCursors = map[uint64]string{}
		}
		f.nextCursor++
		next = f.nextCursor
		f.scanCursors[next] = keys[len(keys)-1]
		f.count("scan_paged")
	}
	cmd.SetVal(keys, next)
	return nil
}

// command counters (read by the case after the program, under the mutex)
func (f *fakeRedis) count(name string) {
	if f.cmds == nil {
		f.cmds = map[string]int64{}
	}
	f.cmds[name]++
}

package c05

import (
	"fmt"
	"math/rand"

	"verifh/engine"

	"github.com/pinealctx/neptune/cache"
)

// ---------------------------------------------------------------- kind "rds"
//
// The same kind of program, restricted to the domain on which the property demands
// agreement, runs against the in-memory cache and against NewTTLRdsCache(fakeRedis).
// The generator carries a plain shadow (key -> live?, deadline) to apply the
// restrictions; the shadow is exact because the in-memory cache is large enough never
// to evict and every ttl is positive.

type shadowKey struct {
	set  bool
	live bool
	dl   int64
}

type shadow struct {
	now    int64
	defTTL int64
	keys   []shadowKey
}

func (s *shadow) tie(i int) bool { return s.keys[i].live && s.keys[i].dl == s.now }

func (s *shadow) tick(dt int64) {
	s.now += dt
	for i := range s.keys {
		if s.keys[i].live && s.now > s.keys[i].dl {
			s.keys[i].live = false
		}
	}
}

func (s *shadow) apply(o *op) {
	if o.fault > 0 {
		// the call fails before anything changed (or is a miss that changes nothing)
		return
	}
	switch o.kind {
	case oSet:
		k := &s.keys[o.key]
		if o.mne && k.live {
			return
		}
		if !(o.keep && k.live) {
			ttl := s.defTTL
			if o.hasTTL {
				ttl = o.ttl
			}
			k.dl = s.now + ttl
		}
		k.set, k.live = true, true
	case oGet:
		k := &s.keys[o.key]
		if !k.live {
			return
		}
		if o.rag {
			k.live = false
			return
		}
		if o.upd {
			ttl := s.defTTL
			if o.updTTL != 0 {
				ttl = o.updTTL
			}
			k.dl = s.now + ttl
		}
	case oRemove:
		s.keys[o.key].live = false
	case oClear:
		for i := range s.keys {
			s.keys[i].live = false
		}
	}
}

// inDomain reports whether issuing o now stays inside the comparison domain.
func (s *shadow) inDomain(o *op) bool {
	switch o.kind {
	case oSet:
		if o.keep && !(s.keys[o.key].live && s.now < s.keys[o.key].dl) {
			return false // keep-ttl only on live keys
		}
		if o.mne && s.tie(o.key) {
			return false
		}
	case oGet:
		if s.tie(o.key) {
			return false
		}
	}
	return true
}

// genRdsOp draws a step; the caller redraws when it falls outside the domain.
func genRdsOp(r *rand.Rand, nkeys int) (o op) {
	key := r.Intn(nkeys)
	if r.Intn(3) == 0 {
		key = 0
	}
	switch x := r.Intn(100); {
	case x < 38:
		o = op{kind: oSet, key: key}
		if r.Intn(2) == 0 {
			o.hasTTL, o.ttl = true, 1+int64(r.Intn(4))
		}
		o.mne = r.Intn(4) == 0
		o.keep = r.Intn(3) == 0
		if r.Intn(10) == 0 {
			o.fault = 1
		}
		return o
	case x < 72:
		o = op{kind: oGet, key: key}
		switch y := r.Intn(20); {
		case y < 9:
		case y < 13:
			o.rag = true
		case y < 16:
			o.upd, o.updTTL = true, 0
		case y < 19:
			o.upd, o.updTTL = true, 1+int64(r.Intn(3))
		default:
			o.rag, o.upd, o.updTTL = true, true, int64(r.Intn(3))
		}
		if r.Intn(8) == 0 {
			o.fault = 1
			if o.upd && !o.rag {
				o.fault = 1 + r.Intn(2) // the read or the ttl refresh after it
			}
		}
		return o
	case x < 77:
		if r.Intn(8) == 0 {
			return op{kind: oRemove, key: key, fault: 1}
		}
		return op{kind: oRemove, key: key}
	case x < 80:
		return op{kind: oClear}
	case x < 98:
		return op{kind: oTick, dt: []int64{0, 1, 1, 1, 2, 2, 3}[r.Intn(7)]}
	default:
		return op{kind: oProbe}
	}
}

type rdsCfg struct {
	nkeys, size int
	defTTL      int64
	start       int64
	prefix      string
}

func (cfg rdsCfg) newShadow() *shadow {
	return &shadow{now: cfg.start, defTTL: cfg.defTTL, keys: make([]shadowKey, cfg.nkeys)}
}

// validRds replays the shadow over a candidate program (used while shrinking).
func validRds(cfg rdsCfg, ops []op) bool {
	sh := cfg.newShadow()
	for i := range ops {
		o := &ops[i]
		if !sh.inDomain(o) {
			return false
		}
		if o.kind == oTick {
			sh.tick(o.dt)
		} else if o.kind != oProbe {
			sh.apply(o)
		}
	}
	return true
}

// runRds executes a program against both back-ends.
func runRds(cfg rdsCfg, ops []op, cnt counters, lg *runLog) (v verdict, nontrivial bool) {
	clock.Store(cfg.start)
	fr := newFakeRedis(func() int64 { return clock.Load() * 1e9 })
	// a neighbour outside the prefix: Clear must be able to scan past it
	fr.data["other:"+keyName(0)] = &fent{val: "foreign"}
	mem := cache.NewTTLMemCache(cfg.size, cfg.defTTL)
	rds := cache.NewTTLRdsCache(fr, cfg.prefix, cfg.defTTL)
	lg.Logf("NewTTLMemCache(size=%d, ttl=%d) vs NewTTLRdsCache(fakeRedis, %q, ttl=%d), %d keys, clock %d", cfg.size, cfg.defTTL, cfg.prefix, cfg.defTTL, cfg.nkeys, cfg.start)

	fail := func(class, format string, a ...any) {
		if v.class == "" {
			v = verdict{class, fmt.Sprintf(format, a...)}
		}
	}
	m := newModel(cfg.nkeys, cfg.size, cfg.defTTL, cfg.start, cnt, fail)
	sh := cfg.newShadow()
	var agreedHit, agreedDeadStory int64
	// both runs one call on each back-end; the in-memory outcome is judged by the model,
	// then the two outcomes are compared
	both := func(o *op, label string) {
		expired := o.kind != oClear && sh.keys[o.key].set && !sh.keys[o.key].live && sh.keys[o.key].dl < sh.now
		var om, or outcome
		if o.fault > 0 {
			// a redis command of this call fails: the redis-backed cache goes first; a call that
			// reports the failure is not acknowledged - it changed nothing and is not part of the
			// common history. A call that is acknowledged all the same is part of it.
			fr.mu.Lock()
			fr.failIn, fr.faulted = o.fault, false
			fr.mu.Unlock()
			or = apply(rds, o)
			fr.mu.Lock()
			fired := fr.faulted
			fr.failIn, fr.faulted = 0, false
			fr.mu.Unlock()
			if fired {
				cnt["rds_injected_command_errors"]++
			}
			if fired && or.ec == ecOther {
				lg.Logf("%s %s -> rds %s (not acknowledged: not issued to the in-memory cache)", label, o, or)
				for _, l := range fr.drain() {
					lg.Logf("      redis: %s", l)
				}
				cnt["rds_unacknowledged_calls"]++
				return
			}
			plain := *o
			plain.fault = 0
			o = &plain
			om = apply(mem, o)
		} else {
			om = apply(mem, o)
			or = apply(rds, o)
		}
		lg.Logf("%s %s -> mem %s | rds %s", label, o, om, or)
		for _, l := range fr.drain() {
			lg.Logf("      redis: %s", l)
		}
		if !m.step(o, om) {
			return
		}
		sh.apply(o)
		if o.kind == oClear {
			return
		}
		cnt["rds_outcomes_compared"]++
		if om.ec != or.ec || om.val != or.val {
			cls := "rds-disagree:"
			switch {
			case o.kind == oSet && o.mne:
				cls += "set-if-absent"
			case o.kind == oSet:
				cls += "set"
			case o.kind == oGet:
				cls += "get"
			default:
				cls += "remove"
			}
			fail(cls, "%s: in-memory cache %s, redis-backed cache %s (clock %d)", o, om, or, sh.now)
			return
		}
		switch {
		case o.kind == oGet && om.ec == ecOK:
			cnt["rds_agree_hit"]++
			agreedHit++
		case o.kind == oGet && expired:
			cnt["rds_agree_expired_miss"]++
			agreedDeadStory++
		case o.kind == oGet:
			cnt["rds_agree_miss"]++
		case om.ec == ecExists:
			cnt["rds_agree_exists"]++
			agreedDeadStory++
		case o.kind == oSet && o.mne && expired:
			cnt["rds_agree_setnx_on_expired"]++
			agreedDeadStory++
		}
	}
	probe := func() {
		for i := 0; i < cfg.nkeys && v.class == ""; i++ {
			if sh.tie(i) {
				lg.Logf("   Get(k%d) skipped (clock on its deadline)", i)
				cnt["rds_tie_probe_skipped"]++
				continue
			}
			o := op{kind: oGet, key: i}
			both(&o, "  ")
		}
	}
	for i := range ops {
		if v.class != "" {
			break
		}
		o := &ops[i]
		label := fmt.Sprintf("%02d", i)
		switch o.kind {
		case oTick:
			clock.Add(o.dt)
			m.tick(o.dt)
			sh.tick(o.dt)
			lg.Logf("%s %s -> clock %d", label, o, sh.now)
		case oProbe:
			lg.Logf("%s probe-all", label)
			probe()
		default:
			both(o, label)
		}
	}
	if v.class == "" {
		lg.Logf("final probe-all")
		probe()
	}
	fr.mu.Lock()
	for n, c := range fr.cmds {
		cnt["rds_cmd:"+n] += c
	}
	fr.mu.Unlock()
	return v, agreedHit > 0 && agreedDeadStory > 0
}

func rdsCase(k *engine.Case) {
	r := k.R
	var cfg rdsCfg
	cfg.nkeys = 1 + r.Intn(5)
	cfg.size = cfg.nkeys + r.Intn(3)
	cfg.defTTL = 1 + int64(r.Intn(3))
	cfg.start = 1000 + int64(r.Intn(1000))
	steps := 8 + r.Intn(33)
	cfg.prefix = []string{"p:", "c05/", "ttl."}[r.Intn(3)]
	// one case in eight works on a population larger than one SCAN page (10 keys by default):
	// every key is set first, with a long default ttl so that they stay alive together
	large := r.Intn(8) == 0
	if large {
		cfg.nkeys = 12 + r.Intn(14)
		cfg.size = cfg.nkeys + r.Intn(3)
		cfg.defTTL = 40 + int64(r.Intn(20))
		steps = cfg.nkeys + 10 + r.Intn(30)
	}

	restore := installClock(cfg.start)
	defer restore()
	cnt := counters{}
	defer cnt.flush(k)

	// generate inside the domain with the help of the shadow
	sh := cfg.newShadow()
	nextVal := 1
	ops := make([]op, 0, steps)
	for len(ops) < steps {
		var o op
		ok := false
		for try := 0; try < 6 && !ok; try++ {
			o = genRdsOp(r, cfg.nkeys)
			if large && len(ops) < cfg.nkeys {
				o = op{kind: oSet, key: len(ops)} // populate
			} else if large && r.Intn(6) == 0 {
				o = op{kind: oClear}
			}
			ok = sh.inDomain(&o)
			if !ok {
				cnt["rds_restricted_redraws"]++
			}
		}
		if !ok {
			o = op{kind: oTick, dt: 1}
		}
		if o.kind == oSet {
			o.val = nextVal
			nextVal++
		}
		if o.kind == oTick {
			sh.tick(o.dt)
		} else if o.kind != oProbe {
			sh.apply(&o)
		}
		ops = append(ops, o)
	}

	if large {
		cnt["rds_large_population_cases"]++
	}
	lg := &runLog{}
	defer flushOnPanic(k, lg)
	v, nontrivial := runRds(cfg, ops, cnt, lg)
	if v.class != "" {
		min := shrink(ops, v.class, func(c []op) bool { return validRds(cfg, c) },
			func(c []op) verdict { w, _ := runRds(cfg, c, counters{}, &runLog{}); return w })
		mlg := &runLog{}
		w, _ := runRds(cfg, min, counters{}, mlg)
		k.Logf("minimised from %d to %d steps (same violation class, still inside the comparison domain):", len(ops), len(min))
		mlg.flush(k)
		k.Fail(w.class, "%s", w.detail)
		return
	}
	lg.flush(k)
	if nontrivial {
		k.Nontrivial()
	}
}

package c05

import (
	"context"
	"errors"
	"fmt"
	"strings"

	"github.com/pinealctx/neptune/cache"
)

// ---------------------------------------------------------------- programs

type opKind uint8

const (
	oSet opKind = iota
	oGet
	oRemove
	oClear
	oTick
	oProbe // plain Get of every key of the pool, in index order
)

// op is one step of a sequential program. A program is a pure function of the case PRNG.
type op struct {
	kind opKind
	key  int
	// Set
	val    int  // unique per program
	hasTTL bool // WithTTL(ttl) given
	ttl    int64
	mne    bool // WithMustNotExist
	keep   bool // WithKeepTTL
	// Get
	rag    bool // WithRemoveAfterGet
	upd    bool // WithUpdateTTL(updTTL)
	updTTL int64
	// Tick
	dt int64
	// kind rds only: fault > 0 makes the fault-th redis command this call issues fail with a
	// connection error before it has any effect (the call is then not acknowledged)
	fault int
}

func (o *op) String() string {
	if o.fault > 0 {
		c := *o
		c.fault = 0
		return fmt.Sprintf("%s [redis command #%d of this call fails]", c.String(), o.fault)
	}
	switch o.kind {
	case oSet:
		var sb strings.Builder
		fmt.Fprintf(&sb, "Set(k%d,v%d", o.key, o.val)
		if o.hasTTL {
			fmt.Fprintf(&sb, ",ttl=%d", o.ttl)
		}
		if o.mne {
			sb.WriteString(",must-not-exist")
		}
		if o.keep {
			sb.WriteString(",keep-ttl")
		}
		sb.WriteString(")")
		return sb.String()
	case oGet:
		var sb strings.Builder
		fmt.Fprintf(&sb, "Get(k%d", o.key)
		if o.rag {
			sb.WriteString(",remove-after-get")
		}
		if o.upd {
			fmt.Fprintf(&sb, ",update-ttl=%d", o.updTTL)
		}
		sb.WriteString(")")
		return sb.String()
	case oRemove:
		return fmt.Sprintf("Remove(k%d)", o.key)
	case oClear:
		return "Clear()"
	case oTick:
		return fmt.Sprintf("tick(+%ds)", o.dt)
	case oProbe:
		return "probe-all"
	}
	return "?"
}

const (
	ecOK = iota
	ecExists
	ecNotFound
	ecOther
)

// outcome is what a call returned, reduced to what the property talks about.
type outcome struct {
	ec  int
	val string // only meaningful for a successful Get
	err error
}

func (o outcome) String() string {
	switch o.ec {
	case ecOK:
		if o.val != "" {
			return "hit " + o.val
		}
		return "ok"
	case ecExists:
		return "already-exists"
	case ecNotFound:
		return "not-found"
	}
	return fmt.Sprintf("error %v", o.err)
}

func classify(err error) int {
	switch {
	case err == nil:
		return ecOK
	case errors.Is(err, cache.ErrTTLKeyExists):
		return ecExists
	case errors.Is(err, cache.ErrTTLKeyNotFound):
		return ecNotFound
	}
	return ecOther
}

func keyName(i int) string { return fmt.Sprintf("k%d", i) }
// valName is the stored value of value number i; every 13th value is the empty byte string
// (a value like any other: a hit that returns nothing but still is a hit).
func valName(i int) string {
	if i%13 == 5 {
		return ""
	}
	return fmt.Sprintf("v%d", i)
}

var bg = context.Background()

// apply issues one Set/Get/Remove/Clear against a cache.
func apply(c cache.TTLCache, o *op) outcome {
	switch o.kind {
	case oSet:
		var fns []cache.SetOptFn
		if o.hasTTL {
			fns = append(fns, cache.WithTTL(o.ttl))
		}
		if o.mne {
			fns = append(fns, cache.WithMustNotExist())
		}
		if o.keep {
			fns = append(fns, cache.WithKeepTTL())
		}
		err := c.Set(bg, keyName(o.key), []byte(valName(o.val)), fns...)
		return outcome{ec: classify(err), err: err}
	case oGet:
		var fns []cache.GetOptFn
		if o.rag {
			fns = append(fns, cache.WithRemoveAfterGet())
		}
		if o.upd {
			fns = append(fns, cache.WithUpdateTTL(o.updTTL))
		}
		v, err := c.Get(bg, keyName(o.key), fns...)
		out := outcome{ec: classify(err), err: err}
		if err == nil {
			out.val = string(v)
		}
		return out
	case oRemove:
		err := c.Remove(bg, keyName(o.key))
		return outcome{ec: classify(err), err: err}
	case oClear:
		c.Clear(bg)
		return outcome{}
	}
	panic("apply: not a cache call")
}

// Package c05 monitors the TTL caches of neptune/cache: no expired / removed / consumed
// data is ever served, an expired key is a key that was never set, the size bound, the
// recency guarantee, agreement of the redis-backed implementation with the in-memory
// one, and one-shot reads under concurrency.
package c05

import (
	"fmt"
	"math/rand"
	"sort"
	"sync/atomic"

	"verifh/engine"

	"github.com/pinealctx/neptune/cache"
)

// Q is the per-child quiescence detector (used by the concurrent kinds only).
var Q *engine.Quiescer

// Prop is the C05 check.
var Prop = &engine.Prop{
	ID:    "C05",
	Level: "exploration",
	Rule: "mem: seed-generated sequential programs (8-40 steps of Set x {default ttl, ttl>0, ttl<=0} x {must-not-exist} x {keep-ttl}, Get x {plain, remove-after-get, update-ttl 0|>0}, " +
		"Remove, Clear, probe-all, tick 0-3 s) over 1-6 keys, size 0-6, default ttl in {-1,0,1,2} on a virtual clock, judged step by step against a map with eager expiry and permissive eviction, final probe of all keys; " +
		"rds: programs restricted as the property says run against the in-memory cache and against NewTTLRdsCache over an in-memory fake redis on the same virtual clock, every outcome compared; " +
		"oneshot: n goroutines race one-shot reads / set-if-absent on one key; linz: 2-4 clients x 4-7 ops on 1-2 keys checked for linearizability (porcupine). " +
		"A program is non-trivial when it contains a hit and a call naming a dead (expired/removed/consumed/cleared/evicted) key; distinct = distinct program texts including outcomes " +
		"(oneshot: distinct round configurations, linz: distinct client programs)",
	Assumptions: []string{
		"the clock is only observed through cache.VerifSetNow (build tag verif); no wall clock enters any verdict",
		"ttl <= 0 means no expiry (cache/ttlmem.go deadline()); a ttl of n seconds given at clock reading T keeps the key through reading T+n inclusive (unix-second granularity)",
		"eviction is judged permissively: only 'a key touched more recently than size other distinct keys is never evicted' and 'at most size keys retrievable' are demanded",
		"fakeRedis (props/c05/fakeredis.go, ~270 lines) implements SET [EX|PX|KEEPTTL] [NX], SETNX, GET, GETDEL, EXPIRE, DEL, SCAN with go-redis v9.0.4's argument rounding (formatMs/formatSec/usePrecise) and redis' expiry rule now >= deadline",
		"redis comparison domain: positive ttls, keep-ttl only on live keys, no liveness-dependent call on a key whose deadline equals the clock reading, mem size >= number of keys",
		"a quiescent goroutine snapshot of a timer-free execution is a fixed point (used only to tell a stuck racer from a finished one)",
		"the Go race detector reports races only on executed interleavings",
	},
	ShardsQuick: 8, ShardsThorough: 16,
	Setup: func(c *engine.Ctx) { Q = engine.NewQuiescer() },
	Kinds: []engine.Kind{
		{Name: "mem", Quick: 24000, Thorough: 1200000, Fn: memCase},
		{Name: "rds", Quick: 8000, Thorough: 400000, Fn: rdsCase},
		{Name: "oneshot", Quick: 600, Thorough: 24000, Repeat: 20, Fn: oneshotCase},
		{Name: "linz", Quick: 1600, Thorough: 64000, Repeat: 20, Fn: linzCase},
		{Name: "evict-race", Quick: 40, Thorough: 1600, Fn: evictRaceCase},
		{Name: "big-size", Quick: 16, Thorough: 320, Fn: bigSizeCase},
		{Name: "siblings", Quick: 4000, Thorough: 200000, Fn: siblingsCase},
	},
	Floors: map[string]int64{
		"hit":                       5000,
		"miss_dead:expired":         300,
		"miss_dead:removed":         50,
		"miss_dead:consumed":        50,
		"miss_dead:cleared":         20,
		"set_mne_ok:expired":        50,
		"set_mne_exists":            100,
		"set_keep_on_live":          100,
		"set_keep_on_dead:expired":  20,
		"hit_at_deadline":           50,
		"hit_at_eviction_edge":      100,
		"hit_remove_after_get":      100,
		"hit_update_ttl_default":    50,
		"hit_update_ttl_explicit":   50,
		"maybe_resolved_absent":     100,
		"maybe_resolved_present":    100,
		"size0_programs":            50,
		"probe_full_cache":          50,
		"rds_outcomes_compared":     20000,
		"rds_agree_expired_miss":    200,
		"rds_agree_exists":          100,
		"rds_cmd:expire":            100,
		"rds_cmd:getdel":            100,
		"rds_cmd:set-keepttl":       50,
		"rds_cmd:scan":              20,
		"oneshot_rounds_live_read":  50,
		"oneshot_rounds_dead_read":  50,
		"oneshot_rounds_dead_setnx": 50,
		"oneshot_rounds_live_setnx": 20,
		"linz_histories_checked":    200,
		"big_size_cases":            8,
		"sibling_cases":             1000,
		"rds_unacknowledged_calls":  200,
		"sibling_replacements":      200,
	},
}

// clock is the virtual clock of the child process (unix seconds); cases run one at a
// time, concurrent kinds only read it while racers are running.
var clock atomic.Int64

func installClock(start int64) (restore func()) {
	clock.Store(start)
	return cache.VerifSetNow(func() int64 { return clock.Load() })
}

type counters map[string]int64

func (c counters) flush(k *engine.Case) {
	names := make([]string, 0, len(c))
	for n := range c {
		names = append(names, n)
	}
	sort.Strings(names)
	for _, n := range names {
		k.Count(n, c[n])
	}
}

// ---------------------------------------------------------------- kind "mem"

type memCfg struct {
	nkeys  int
	size   int
	defTTL int64
	start  int64
	steps  int
}

func genMemCfg(r *rand.Rand) memCfg {
	var c memCfg
	if r.Intn(10) < 4 {
		c.nkeys = 6
	} else {
		c.nkeys = 1 + r.Intn(5)
	}
	switch x := r.Intn(100); {
	case x < 12:
		c.size = 0
	case x < 85:
		c.size = 1 + r.Intn(4)
	default:
		c.size = 6 // no eviction possible: pure ttl semantics
	}
	c.defTTL = []int64{-1, 0, 1, 2}[r.Intn(4)]
	c.start = 1000 + int64(r.Intn(1000))
	c.steps = 8 + r.Intn(33)
	return c
}

// hugeTTL: "forever" lifetimes of a century or two, in seconds (beyond 32 bits, still inside
// what a time.Duration can express).
func hugeTTL(r *rand.Rand) int64 {
	return []int64{1 << 32, 1<<32 + 5, 3153600000, 1 << 33, 1<<32 - 1}[r.Intn(5)]
}

// genMemOp draws one step; nextVal hands out unique values.
func genMemOp(r *rand.Rand, nkeys int, nextVal *int) op {
	// a program leans on a hot key so that multi-step stories about ONE key are common
	key := r.Intn(nkeys)
	if r.Intn(3) == 0 {
		key = 0
	}
	switch x := r.Intn(100); {
	case x < 38:
		o := op{kind: oSet, key: key, val: *nextVal}
		*nextVal++
		switch y := r.Intn(10); {
		case y < 4:
		case y < 8:
			o.hasTTL, o.ttl = true, 1+int64(r.Intn(3))
			if r.Intn(10) == 0 {
				o.ttl = hugeTTL(r)
			}
		default:
			o.hasTTL, o.ttl = true, -int64(r.Intn(2))
		}
		o.mne = r.Intn(4) == 0
		o.keep = r.Intn(4) == 0
		return o
	case x < 70:
		o := op{kind: oGet, key: key}
		switch y := r.Intn(20); {
		case y < 10:
		case y < 14:
			o.rag = true
		case y < 16:
			o.upd, o.updTTL = true, 0
		case y < 19:
			o.upd, o.updTTL = true, 1+int64(r.Intn(3))
			if r.Intn(10) == 0 {
				o.updTTL = hugeTTL(r)
			}
		default:
			o.rag, o.upd, o.updTTL = true, true, int64(r.Intn(3))
		}
		return o
	case x < 75:
		return op{kind: oRemove, key: key}
	case x < 77:
		return op{kind: oClear}
	case x < 97:
		return op{kind: oTick, dt: []int64{0, 1, 1, 1, 2, 2, 3}[r.Intn(7)]}
	default:
		return op{kind: oProbe}
	}
}

// verdict is the first violation of a run (class == "" when there is none).
type verdict struct {
	class, detail string
}

// runLog collects the trace of one run.
type runLog struct{ lines []string }

func (l *runLog) Logf(format string, a ...any) { l.lines = append(l.lines, fmt.Sprintf(format, a...)) }

// runMem executes a program against a fresh in-memory cache and the model.
func runMem(cfg memCfg, ops []op, cnt counters, lg *runLog) (v verdict, nontrivial bool) {
	clock.Store(cfg.start)
	lg.Logf("NewTTLMemCache(size=%d, ttl=%d), %d keys, clock %d", cfg.size, cfg.defTTL, cfg.nkeys, cfg.start)
	c := cache.NewTTLMemCache(cfg.size, cfg.defTTL)
	m := newModel(cfg.nkeys, cfg.size, cfg.defTTL, cfg.start, cnt, func(class, format string, a ...any) {
		if v.class == "" {
			v = verdict{class, fmt.Sprintf(format, a...)}
		}
	})
	if cfg.size == 0 {
		cnt["size0_programs"]++
	}
	deadNamed := false
	for i := range ops {
		if v.class != "" {
			break
		}
		o := &ops[i]
		switch o.kind {
		case oTick:
			clock.Add(o.dt)
			m.tick(o.dt)
			lg.Logf("%02d %s -> clock %d", i, o, m.now)
		case oProbe:
			lg.Logf("%02d probe-all", i)
			probeAll(lg, c, m)
		default:
			if o.kind != oClear && !m.keys[o.key].has && m.keys[o.key].why != "never-set" {
				deadNamed = true
			}
			if o.kind != oClear && m.status(o.key) == stMaybe {
				deadNamed = true
			}
			out := apply(c, o)
			lg.Logf("%02d %s -> %s", i, o, out)
			m.step(o, out)
		}
	}
	if v.class == "" {
		lg.Logf("final probe-all")
		probeAll(lg, c, m)
	}
	return v, cnt["hit"] > 0 && deadNamed
}

// shrink greedily deletes steps while the run still ends in the same violation class;
// valid reports whether a candidate program is still inside the generator's domain.
func shrink(ops []op, class string, valid func([]op) bool, run func([]op) verdict) []op {
	cur := append([]op(nil), ops...)
	for pass := 0; pass < 4; pass++ {
		changed := false
		for i := len(cur) - 1; i >= 0; i-- {
			cand := append(append([]op(nil), cur[:i]...), cur[i+1:]...)
			if valid != nil && !valid(cand) {
				continue
			}
			if run(cand).class == class {
				cur = cand
				changed = true
			}
		}
		if !changed {
			break
		}
	}
	return cur
}

func memCase(k *engine.Case) {
	cfg := genMemCfg(k.R)
	restore := installClock(cfg.start)
	defer restore()
	cnt := counters{}
	defer cnt.flush(k)
	nextVal := 1
	ops := make([]op, cfg.steps)
	for i := range ops {
		ops[i] = genMemOp(k.R, cfg.nkeys, &nextVal)
	}
	lg := &runLog{}
	defer flushOnPanic(k, lg)
	v, nontrivial := runMem(cfg, ops, cnt, lg)
	if v.class != "" {
		// report the minimised program; the full one is reproducible from the case seed
		min := shrink(ops, v.class, nil, func(c []op) verdict { w, _ := runMem(cfg, c, counters{}, &runLog{}); return w })
		mlg := &runLog{}
		w, _ := runMem(cfg, min, counters{}, mlg)
		k.Logf("minimised from %d to %d steps (same violation class):", len(ops), len(min))
		mlg.flush(k)
		k.Fail(w.class, "%s", w.detail)
		return
	}
	lg.flush(k)
	if nontrivial {
		k.Nontrivial()
	}
}

func (l *runLog) flush(k *engine.Case) {
	for _, s := range l.lines {
		k.Logf("%s", s)
	}
	l.lines = nil
}

// flushOnPanic keeps the trace of a run that died in a panic (the engine reports the
// panic itself as a violation).
func flushOnPanic(k *engine.Case, lg *runLog) {
	if r := recover(); r != nil {
		lg.flush(k)
		panic(r)
	}
}

// probeAll issues a plain Get for every key and checks the size bound: the hits are
// keys retrievable at the same time (plain Gets insert nothing).
func probeAll(lg *runLog, c cache.TTLCache, m *model) (hits int) {
	m.cnt["probe_all"]++
	for i := range m.keys {
		o := op{kind: oGet, key: i}
		out := apply(c, &o)
		lg.Logf("   %s -> %s", &o, out)
		if !m.step(&o, out) {
			return hits
		}
		if out.ec == ecOK {
			hits++
		}
	}
	if hits > m.size {
		m.fail("bound-exceeded", "%d keys were retrievable at the same time from a cache of size %d", hits, m.size)
	}
	if hits == m.size && m.size > 0 {
		m.cnt["probe_full_cache"]++
	}
	return hits
}

// ---------------------------------------------------------------- kind "siblings"

// siblingsCase: caches are independent of one another. Two in-memory caches with their own
// sizes and default lifetimes, the same key names and one clock run interleaved programs, each
// against its own model; at some point one of them is cleared, dropped and replaced by a new
// one (whose model starts empty). Values are unique over both, so anything that travels
// between instances - pooled entries, a shared table, a package-level default - shows as a
// wrong hit, a wrong value or a wrong eviction.
func siblingsCase(k *engine.Case) {
	r := k.R
	cfg := [2]memCfg{genMemCfg(r), genMemCfg(r)}
	cfg[1].start = cfg[0].start
	restore := installClock(cfg[0].start)
	defer restore()
	clock.Store(cfg[0].start)
	cnt := counters{}
	defer cnt.flush(k)
	lg := &runLog{}
	defer flushOnPanic(k, lg)
	var v verdict
	var c [2]cache.TTLCache
	var m [2]*model
	mk := func(t int, now int64) {
		c[t] = cache.NewTTLMemCache(cfg[t].size, cfg[t].defTTL)
		m[t] = newModel(cfg[t].nkeys, cfg[t].size, cfg[t].defTTL, now, cnt, func(class, format string, a ...any) {
			if v.class == "" {
				v = verdict{class, fmt.Sprintf("cache %c: ", 'A'+t) + fmt.Sprintf(format, a...)}
			}
		})
		lg.Logf("cache %c = NewTTLMemCache(size=%d, ttl=%d), %d keys", 'A'+t, cfg[t].size, cfg[t].defTTL, cfg[t].nkeys)
	}
	mk(0, cfg[0].start)
	mk(1, cfg[0].start)
	steps := 20 + r.Intn(70)
	replaceAt := -1
	if r.Intn(2) == 0 {
		replaceAt = r.Intn(steps)
	}
	nextVal := 1
	for i := 0; i < steps && v.class == ""; i++ {
		t := r.Intn(2)
		if i == replaceAt {
			// the cache is emptied and given up; a new one takes its place
			o := op{kind: oClear}
			out := apply(c[t], &o)
			m[t].step(&o, out)
			lg.Logf("%02d %c %s -> %s; cache %c is dropped and replaced", i, 'A'+t, &o, out, 'A'+t)
			mk(t, m[1-t].now)
			cnt["sibling_replacements"]++
			continue
		}
		o := genMemOp(r, cfg[t].nkeys, &nextVal)
		switch o.kind {
		case oTick:
			clock.Add(o.dt)
			m[0].tick(o.dt)
			m[1].tick(o.dt)
			lg.Logf("%02d %s -> clock %d", i, &o, m[0].now)
		case oProbe:
			lg.Logf("%02d %c probe-all", i, 'A'+t)
			probeAll(lg, c[t], m[t])
		default:
			out := apply(c[t], &o)
			lg.Logf("%02d %c %s -> %s", i, 'A'+t, &o, out)
			m[t].step(&o, out)
		}
	}
	for t := 0; t < 2 && v.class == ""; t++ {
		lg.Logf("final probe-all of cache %c", 'A'+t)
		probeAll(lg, c[t], m[t])
	}
	lg.flush(k)
	k.Evals(1)
	cnt["sibling_cases"]++
	if v.class != "" {
		k.Fail(v.class, "two caches side by side: %s", v.detail)
		return
	}
	if cnt["hit"] > 0 {
		k.Nontrivial()
	}
}

package c05

import (
	"fmt"
	"math"
)

// ---------------------------------------------------------------- the reference model
//
// A map with EAGER expiry: before each step every key whose deadline lies strictly
// before the clock reading is erased, so an expired key is literally a key that was
// never set. What the statement leaves open is kept open:
//
//   * eviction: the model only knows which keys MUST still be there (fewer than `size`
//     other distinct keys named by any call since the key's own last successful Set /
//     non-removing hit). For every other key that has a value both a hit (with that
//     value) and a miss are accepted and the model adopts what it saw.
//   * keep-ttl on a key that may or may not have been evicted: the deadline is either
//     the kept one or a fresh one; both candidates are carried until an observation
//     decides.

const never = int64(math.MaxInt64)

type status int

const (
	stAbsent  status = iota // definitely behaves like never set
	stPresent               // definitely retrievable (with val)
	stMaybe                 // evicted-or-not / expired-or-not is open
)

type mkey struct {
	has     bool    // there is a latest Set whose value may be retrievable
	val     int     // that value
	cands   []int64 // possible deadlines of the entry (never = no expiry)
	stale   bool    // a candidate deadline has passed while another has not
	strictT int64   // logical time of the key's last successful Set / non-removing hit
	genT    int64   // logical time of the last call naming the key at all
	why     string  // when !has: why the key is dead
}

type model struct {
	size   int
	defTTL int64
	now    int64
	t      int64 // logical step counter
	keys   []mkey
	cnt    map[string]int64
	fail   func(class, format string, a ...any)
}

func newModel(nkeys, size int, defTTL, now int64, cnt map[string]int64, fail func(class, format string, a ...any)) *model {
	m := &model{size: size, defTTL: defTTL, now: now, cnt: cnt, fail: fail, keys: make([]mkey, nkeys)}
	for i := range m.keys {
		m.keys[i] = mkey{strictT: -1, genT: -1, why: "never-set"}
	}
	return m
}

func (m *model) deadline(ttl int64) int64 {
	if ttl <= 0 {
		return never
	}
	return m.now + ttl
}

// expire is the eager expiry: drop every deadline candidate that has passed.
func (m *model) expire() {
	for i := range m.keys {
		k := &m.keys[i]
		if !k.has {
			continue
		}
		kept := k.cands[:0]
		for _, d := range k.cands {
			if m.now > d {
				continue
			}
			kept = append(kept, d)
		}
		if len(kept) == 0 {
			k.has, k.cands, k.stale, k.why = false, nil, false, "expired"
			continue
		}
		if len(kept) < len(k.cands) {
			k.stale = true
		}
		k.cands = kept
	}
}

// othersSince counts the distinct other keys named by any call since key i's strict
// last touch.
func (m *model) othersSince(i int) int {
	n := 0
	for j := range m.keys {
		if j != i && m.keys[j].genT > m.keys[i].strictT {
			n++
		}
	}
	return n
}

func (m *model) status(i int) status {
	k := &m.keys[i]
	if !k.has {
		return stAbsent
	}
	if k.stale || m.othersSince(i) >= m.size {
		return stMaybe
	}
	return stPresent
}

func (m *model) atDeadline(i int) bool {
	k := &m.keys[i]
	if !k.has {
		return false
	}
	for _, d := range k.cands {
		if d == m.now {
			return true
		}
	}
	return false
}

func addCand(c []int64, d int64) []int64 {
	for _, x := range c {
		if x == d {
			return c
		}
	}
	return append(c, d)
}

func (m *model) describe(i int) string {
	k := &m.keys[i]
	if !k.has {
		return fmt.Sprintf("k%d is dead (%s)", i, k.why)
	}
	dl := ""
	for _, d := range k.cands {
		if d == never {
			dl += " never"
		} else {
			dl += fmt.Sprintf(" %d", d)
		}
	}
	return fmt.Sprintf("k%d holds v%d, deadline%s, clock %d, %d other key(s) named since its last touch, size %d", i, k.val, dl, m.now, m.othersSince(i), m.size)
}

// tick advances the clock.
func (m *model) tick(dt int64) {
	m.now += dt
	m.expire()
	m.cnt["ticks"]++
	if dt == 0 {
		m.cnt["tick_zero"]++
	}
}

// step judges the outcome of one Set/Get/Remove/Clear and updates the model.
// It returns false when a violation was raised (the model is then out of sync).
func (m *model) step(o *op, out outcome) bool {
	m.t++
	if out.ec == ecOther {
		m.fail("unexpected-error", "%s returned %v", o, out.err)
		return false
	}
	switch o.kind {
	case oSet:
		return m.stepSet(o, out)
	case oGet:
		return m.stepGet(o, out)
	case oRemove:
		k := &m.keys[o.key]
		if out.ec != ecOK {
			m.fail("unexpected-error", "%s returned %v", o, out.err)
			return false
		}
		if k.has {
			m.cnt["remove_live"]++
		} else {
			m.cnt["remove_dead"]++
		}
		k.has, k.cands, k.stale, k.why = false, nil, false, "removed"
		k.genT = m.t
	case oClear:
		m.cnt["clear"]++
		for i := range m.keys {
			k := &m.keys[i]
			k.has, k.cands, k.stale, k.why = false, nil, false, "cleared"
		}
	}
	return true
}

func (m *model) stepSet(o *op, out outcome) bool {
	k := &m.keys[o.key]
	st := m.status(o.key)
	ttl := m.defTTL
	if o.hasTTL {
		ttl = o.ttl
		if ttl > 0 {
			m.cnt["set_ttl_positive"]++
		} else {
			m.cnt["set_ttl_nonpositive"]++
		}
	} else {
		m.cnt["set_ttl_default"]++
	}
	fresh := m.deadline(ttl)
	defer func() { k.genT = m.t }()
	if o.mne {
		switch out.ec {
		case ecExists:
			if st == stAbsent {
				m.fail("must-not-exist-failed:"+k.why, "%s reported already-exists although %s", o, m.describe(o.key))
				return false
			}
			if st == stMaybe {
				m.cnt["maybe_resolved_present"]++
			}
			m.cnt["set_mne_exists"]++
			k.stale = false // it is there; its recency is unchanged
			return true
		case ecOK:
			if st == stPresent {
				m.fail("must-not-exist-overwrote", "%s succeeded although %s", o, m.describe(o.key))
				return false
			}
			if st == stMaybe {
				m.cnt["maybe_resolved_absent"]++
			}
			if st == stAbsent {
				m.cnt["set_mne_ok:"+k.why]++
			}
			m.cnt["set_mne_ok"]++
			k.has, k.val, k.cands, k.stale, k.strictT = true, o.val, []int64{fresh}, false, m.t
			return true
		}
		m.fail("unexpected-error", "%s returned %v", o, out.err)
		return false
	}
	if out.ec != ecOK {
		m.fail("unexpected-error", "%s returned %v", o, out.err)
		return false
	}
	m.cnt["set_ok"]++
	if o.keep {
		switch st {
		case stPresent:
			m.cnt["set_keep_on_live"]++
			// deadline(s) kept
		case stAbsent:
			m.cnt["set_keep_on_dead:"+k.why]++
			k.cands = []int64{fresh}
		case stMaybe:
			m.cnt["set_keep_on_maybe"]++
			k.cands = addCand(append([]int64(nil), k.cands...), fresh)
		}
	} else {
		k.cands = []int64{fresh}
	}
	k.has, k.val, k.stale, k.strictT = true, o.val, false, m.t
	return true
}

func (m *model) stepGet(o *op, out outcome) bool {
	k := &m.keys[o.key]
	st := m.status(o.key)
	defer func() { k.genT = m.t }()
	m.cnt["gets"]++
	switch out.ec {
	case ecOK:
		if st == stAbsent {
			m.fail("hit-on-dead-key:"+k.why, "%s returned %q although %s", o, out.val, m.describe(o.key))
			return false
		}
		if out.val != valName(k.val) {
			m.fail("wrong-value", "%s returned %q but the latest Set stored %q (%s)", o, out.val, valName(k.val), m.describe(o.key))
			return false
		}
		if m.size == 0 {
			m.fail("bound-exceeded", "%s hit on a cache of size 0", o)
			return false
		}
		m.cnt["hit"]++
		if st == stMaybe {
			m.cnt["maybe_resolved_present"]++
		} else {
			if m.othersSince(o.key) == m.size-1 {
				m.cnt["hit_at_eviction_edge"]++ // one more distinct key and it would have been evictable
			}
			if m.atDeadline(o.key) {
				m.cnt["hit_at_deadline"]++
			}
		}
		k.stale = false
		switch {
		case o.rag:
			m.cnt["hit_remove_after_get"]++
			k.has, k.cands, k.why = false, nil, "consumed"
		default:
			if o.upd {
				ttl := m.defTTL
				if o.updTTL != 0 {
					ttl = o.updTTL
					m.cnt["hit_update_ttl_explicit"]++
				} else {
					m.cnt["hit_update_ttl_default"]++
				}
				k.cands = []int64{m.deadline(ttl)}
			}
			k.strictT = m.t
		}
		return true
	case ecNotFound:
		if st == stPresent {
			cls := "miss-on-live-key"
			if m.atDeadline(o.key) {
				cls = "miss-on-live-key:at-deadline"
			}
			m.fail(cls, "%s reported not-found although %s", o, m.describe(o.key))
			return false
		}
		m.cnt["miss"]++
		if st == stMaybe {
			m.cnt["maybe_resolved_absent"]++
			k.has, k.cands, k.stale, k.why = false, nil, false, "missed"
		} else {
			m.cnt["miss_dead:"+k.why]++
		}
		return true
	}
	m.fail("unexpected-error", "%s returned %v", o, out.err)
	return false
}

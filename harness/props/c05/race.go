package c05

import (
	"bytes"
	"fmt"
	"runtime"
	"strings"
	"sync"
	"sync/atomic"
	"time"

	"verifh/engine"

	"github.com/anishathalye/porcupine"
	"github.com/pinealctx/neptune/cache"
)

// ---------------------------------------------------------------- concurrent kinds
//
// The virtual clock stands still while goroutines race, so nothing depends on when a
// racer runs. Racers start behind a barrier; after the barrier opens the driver waits
// for a quiescent goroutine snapshot: a racer that has not finished by then is parked
// for good inside the cache (reported as "stuck"), everything else is joined through a
// WaitGroup before any result is read.

// parkedStates are the goroutine wait reasons that only another goroutine of the case
// can end. "semacquire" is deliberately NOT among them: besides sync primitives it is
// the wait reason of runtime-internal semaphores (a goroutine whose allocation starts a
// GC cycle waits on worldsema, which the snapshot itself holds), so a goroutine seen in
// it may be about to run.
var parkedStates = map[string]bool{
	"chan receive": true, "chan send": true, "select": true, "sync.Cond.Wait": true,
	"sync.Mutex.Lock": true, "sync.RWMutex.RLock": true, "sync.RWMutex.Lock": true, "sync.WaitGroup.Wait": true,
}

func allParked() bool {
	for _, g := range Q.Snapshot() {
		if !parkedStates[g.State] {
			return false
		}
	}
	return true
}

// runRacers runs fns concurrently behind a barrier and waits until all have returned.
// A round whose unfinished racers are all parked for good (several consecutive
// snapshots, no progress in between) is reported as "stuck". It returns false when the
// round cannot be judged (already reported). Wall-clock time only bounds the wait
// (inconclusive), it never decides a verdict.
func runRacers(k *engine.Case, what string, fns []func()) bool {
	var wg sync.WaitGroup
	var finished atomic.Int64
	start := make(chan struct{})
	for _, f := range fns {
		f := f
		wg.Add(1)
		go func() {
			defer wg.Done()
			<-start
			f()
			finished.Add(1)
		}()
	}
	close(start)
	n := int64(len(fns))
	t0 := time.Now()
	for i := 0; finished.Load() != n; i++ {
		for j := 0; j < 3; j++ {
			runtime.Gosched()
		}
		if i < 64 || i%16 != 0 {
			continue
		}
		if i > 4096 {
			time.Sleep(100 * time.Microsecond)
			if time.Since(t0) > 60*time.Second {
				k.Inconclusive("racers neither finished nor parked within the guard time")
				return false
			}
		}
		if !allParked() {
			continue
		}
		// candidate fixed point: confirm it
		before := finished.Load()
		stable := true
		for c := 0; c < 5 && stable; c++ {
			time.Sleep(200 * time.Microsecond)
			for j := 0; j < 3; j++ {
				runtime.Gosched()
			}
			stable = allParked() && finished.Load() == before
		}
		if stable && before != n {
			k.Fail("stuck", "%s: %d of %d racers never returned; parked goroutines: %s", what, n-before, n, strings.Join(Q.Describe(), "; "))
			return false
		}
	}
	wg.Wait()
	return true
}

// backend builds the cache under test for a concurrent round.
func backend(rdsBacked bool, size int, defTTL int64) (cache.TTLCache, string) {
	if rdsBacked {
		fr := newFakeRedis(func() int64 { return clock.Load() * 1e9 })
		fr.keep = false
		fr.yield = true
		return cache.NewTTLRdsCache(fr, "r:", defTTL), "rds"
	}
	return cache.NewTTLMemCache(size, defTTL), "mem"
}

// ---------------------------------------------------------------- kind "oneshot"

var preStates = []string{"live", "live-ttl", "at-deadline", "expired", "never-set", "removed", "consumed", "cleared"}

func oneshotCase(k *engine.Case) {
	r := k.R
	restore := installClock(5000)
	defer restore()
	cnt := counters{}
	defer cnt.flush(k)
	const rounds = 8
	k.Evals(rounds)
	for round := 0; round < rounds && !k.Failed(); round++ {
		rdsBacked := r.Intn(4) == 0
		pre := preStates[r.Intn(len(preStates))]
		if rdsBacked && pre == "at-deadline" {
			pre = "expired" // outside the comparison domain of the redis back-end
		}
		setnx := r.Intn(5) < 2 // racers do Set(must-not-exist) instead of Get(remove-after-get)
		n := 2 + r.Intn(6)
		noise := r.Intn(3)
		defTTL := int64(r.Intn(3)) // 0 = never
		if rdsBacked {
			defTTL = 1 + int64(r.Intn(3))
		}
		c, bname := backend(rdsBacked, 8, defTTL)
		cfg := fmt.Sprintf("%s pre=%s racers=%d x %s noise=%d default-ttl=%d", bname, pre, n, map[bool]string{false: "Get(remove-after-get)", true: "Set(must-not-exist)"}[setnx], noise, defTTL)
		k.Logf("round %d: %s", round, cfg)
		k.Distinct(engine.HashStr(cfg))
		key := "r"
		orig := []byte("orig")
		live := false
		must := func(err error) {
			if err != nil {
				k.Fail("unexpected-error", "setup of round %d: %v", round, err)
			}
		}
		switch pre {
		case "live":
			ttl := int64(9)
			if !rdsBacked {
				ttl = -int64(r.Intn(2)) // 0 or -1: no expiry
			}
			must(c.Set(bg, key, orig, cache.WithTTL(ttl)))
			live = true
		case "live-ttl":
			must(c.Set(bg, key, orig, cache.WithTTL(2)))
			clock.Add(1)
			live = true
		case "at-deadline":
			must(c.Set(bg, key, orig, cache.WithTTL(2)))
			clock.Add(2)
			live = true
		case "expired":
			must(c.Set(bg, key, orig, cache.WithTTL(1)))
			clock.Add(2 + int64(r.Intn(2)))
		case "removed":
			must(c.Set(bg, key, orig))
			must(c.Remove(bg, key))
		case "consumed":
			must(c.Set(bg, key, orig))
			if _, err := c.Get(bg, key, cache.WithRemoveAfterGet()); err != nil {
				k.Fail("miss-on-live-key", "setup of round %d: Get(remove-after-get) right after Set: %v", round, err)
			}
		case "cleared":
			must(c.Set(bg, key, orig))
			c.Clear(bg)
		}
		if k.Failed() {
			return
		}
		type res struct {
			ok  bool
			val string
			err error
		}
		results := make([]res, n)
		var fns []func()
		for i := 0; i < n; i++ {
			i := i
			if setnx {
				fns = append(fns, func() {
					runtime.Gosched()
					err := c.Set(bg, key, []byte(fmt.Sprintf("w%d", i)), cache.WithMustNotExist())
					results[i] = res{ok: err == nil, err: err}
				})
			} else {
				fns = append(fns, func() {
					runtime.Gosched()
					v, err := c.Get(bg, key, cache.WithRemoveAfterGet())
					results[i] = res{ok: err == nil, val: string(v), err: err}
				})
			}
		}
		for j := 0; j < noise; j++ {
			j := j
			fns = append(fns, func() {
				nk := fmt.Sprintf("n%d", j)
				for s := 0; s < 3; s++ {
					_ = c.Set(bg, nk, []byte("x"))
					runtime.Gosched()
					_, _ = c.Get(bg, nk, cache.WithUpdateTTL(0))
					_ = c.Remove(bg, nk)
				}
			})
		}
		if !runRacers(k, fmt.Sprintf("round %d (%s)", round, cfg), fns) {
			return
		}
		winners := 0
		winner := -1
		for i, rs := range results {
			if rs.ok {
				winners++
				winner = i
				if !setnx && rs.val != "orig" {
					k.Fail("wrong-value", "round %d: racer %d read %q, the only value ever set is \"orig\"", round, i, rs.val)
					return
				}
				continue
			}
			want := ecNotFound
			if setnx {
				want = ecExists
			}
			if classify(rs.err) != want {
				k.Fail("unexpected-error", "round %d: racer %d got %v", round, i, rs.err)
				return
			}
		}
		k.Logf("   winners=%d", winners)
		after, aerr := c.Get(bg, key)
		switch {
		case !setnx && live:
			cnt["oneshot_rounds_live_read"]++
			if winners > 1 {
				k.Fail("one-shot-read-twice", "round %d (%s): %d racers read the value with remove-after-get; at most one may", round, cfg, winners)
				return
			}
			if winners == 0 {
				k.Fail("miss-on-live-key", "round %d (%s): the key was live, yet none of the %d remove-after-get readers got it", round, cfg, n)
				return
			}
			if aerr == nil {
				k.Fail("hit-on-dead-key:consumed", "round %d (%s): Get after the one-shot read returned %q", round, cfg, after)
				return
			}
		case !setnx:
			cnt["oneshot_rounds_dead_read"]++
			if winners > 0 {
				k.Fail("hit-on-dead-key:"+pre, "round %d (%s): %d racers read a value from a dead key", round, cfg, winners)
				return
			}
			if aerr == nil {
				k.Fail("hit-on-dead-key:"+pre, "round %d (%s): Get afterwards returned %q", round, cfg, after)
				return
			}
		case setnx && live:
			cnt["oneshot_rounds_live_setnx"]++
			if winners > 0 {
				k.Fail("must-not-exist-overwrote", "round %d (%s): %d set-if-absent calls succeeded on a live key", round, cfg, winners)
				return
			}
			if aerr != nil || string(after) != "orig" {
				k.Fail("wrong-value", "round %d (%s): Get afterwards returned (%q, %v), want \"orig\"", round, cfg, after, aerr)
				return
			}
		default:
			cnt["oneshot_rounds_dead_setnx"]++
			if winners > 1 {
				k.Fail("set-if-absent-twice", "round %d (%s): %d racing set-if-absent calls succeeded on one absent key", round, cfg, winners)
				return
			}
			if winners == 0 {
				k.Fail("must-not-exist-failed:"+pre, "round %d (%s): no set-if-absent succeeded although the key was dead", round, cfg)
				return
			}
			if want := fmt.Sprintf("w%d", winner); aerr != nil || string(after) != want {
				k.Fail("wrong-value", "round %d (%s): the set-if-absent winner stored %q, Get afterwards returned (%q, %v)", round, cfg, want, after, aerr)
				return
			}
		}
	}
}

// ---------------------------------------------------------------- kind "linz"

type linIn struct {
	op  string // set, setnx, get, getdel, getupd, remove, clear
	key int
	val int32
}

type linOut struct {
	ok  bool
	val int32
}

type linState [2]int32 // value id per key, 0 = absent

var linModel = porcupine.Model{
	Init: func() interface{} { return linState{} },
	Step: func(state, input, output interface{}) (bool, interface{}) {
		s := state.(linState)
		in := input.(linIn)
		out := output.(linOut)
		switch in.op {
		case "set":
			s[in.key] = in.val
			return out.ok, s
		case "setnx":
			if s[in.key] != 0 {
				return !out.ok, s
			}
			s[in.key] = in.val
			return out.ok, s
		case "get", "getupd":
			if s[in.key] == 0 {
				return !out.ok, s
			}
			return out.ok && out.val == s[in.key], s
		case "getdel":
			if s[in.key] == 0 {
				return !out.ok, s
			}
			v := s[in.key]
			s[in.key] = 0
			return out.ok && out.val == v, s
		case "remove":
			s[in.key] = 0
			return out.ok, s
		case "clear":
			return out.ok, linState{}
		}
		return false, s
	},
	DescribeOperation: func(input, output interface{}) string {
		in := input.(linIn)
		out := output.(linOut)
		return fmt.Sprintf("%s(k%d,%d)->(%v,%d)", in.op, in.key, in.val, out.ok, out.val)
	},
}

func linValName(v int32) string { return fmt.Sprintf("%d", v) }

func linApply(c cache.TTLCache, in linIn) linOut {
	key := keyName(in.key)
	parse := func(b []byte) int32 {
		var v int32
		fmt.Sscanf(string(b), "%d", &v)
		return v
	}
	switch in.op {
	case "set":
		return linOut{ok: c.Set(bg, key, []byte(linValName(in.val))) == nil}
	case "setnx":
		err := c.Set(bg, key, []byte(linValName(in.val)), cache.WithMustNotExist())
		if err != nil && classify(err) != ecExists {
			return linOut{ok: false, val: -1}
		}
		return linOut{ok: err == nil}
	case "get", "getupd", "getdel":
		var fns []cache.GetOptFn
		if in.op == "getupd" {
			fns = append(fns, cache.WithUpdateTTL(3))
		}
		if in.op == "getdel" {
			fns = append(fns, cache.WithRemoveAfterGet())
		}
		v, err := c.Get(bg, key, fns...)
		if err != nil {
			if classify(err) != ecNotFound {
				return linOut{ok: false, val: -1}
			}
			return linOut{}
		}
		return linOut{ok: true, val: parse(v)}
	case "remove":
		return linOut{ok: c.Remove(bg, key) == nil}
	case "clear":
		c.Clear(bg)
		return linOut{ok: true}
	}
	panic("linApply")
}

func linzCase(k *engine.Case) {
	r := k.R
	restore := installClock(7000)
	defer restore()
	cnt := counters{}
	defer cnt.flush(k)

	rdsBacked := r.Intn(5) == 0
	nkeys := 1 + r.Intn(2)
	clients := 2 + r.Intn(3)
	defTTL := int64(r.Intn(3))
	if rdsBacked {
		defTTL = 1 + int64(r.Intn(3))
	}
	c, bname := backend(rdsBacked, 4, defTTL)
	k.Logf("%s cache, %d keys, %d clients, default ttl %d", bname, nkeys, clients, defTTL)

	// sequential prefix: leave some keys live, some expired
	var nextVal int32 = 1
	var hist []porcupine.Operation
	var lclock atomic.Int64
	pre := make([]int, nkeys)
	for key := range pre {
		pre[key] = r.Intn(3)
		if pre[key] == 2 {
			// an entry that expires before the clients start: must behave as absent
			if err := c.Set(bg, keyName(key), []byte("999"), cache.WithTTL(1)); err != nil {
				k.Fail("unexpected-error", "setup Set: %v", err)
				return
			}
			k.Logf("setup: Set(k%d,999,ttl=1) then tick(+2s)", key)
			cnt["linz_expired_prefix"]++
		}
	}
	clock.Add(2) // the clock stands still from here on
	for key := range pre {
		if pre[key] == 1 {
			in := linIn{op: "set", key: key, val: nextVal}
			nextVal++
			call := lclock.Add(1)
			out := linApply(c, in)
			hist = append(hist, porcupine.Operation{ClientId: 0, Input: in, Call: call, Output: out, Return: lclock.Add(1)})
			k.Logf("setup: set(k%d,%d)", key, in.val)
		}
	}

	ops := []string{"set", "set", "setnx", "setnx", "get", "get", "getdel", "getdel", "getupd", "remove"}
	progs := make([][]linIn, clients)
	for ci := range progs {
		n := 4 + r.Intn(4)
		var sb strings.Builder
		for j := 0; j < n; j++ {
			in := linIn{op: ops[r.Intn(len(ops))], key: r.Intn(nkeys)}
			if !rdsBacked && r.Intn(40) == 0 {
				in.op = "clear" // atomic only in the in-memory cache (redis: SCAN + DEL per key)
			}
			if in.op == "set" || in.op == "setnx" {
				in.val = nextVal
				nextVal++
			}
			progs[ci] = append(progs[ci], in)
			fmt.Fprintf(&sb, " %s(k%d", in.op, in.key)
			if in.val != 0 {
				fmt.Fprintf(&sb, ",%d", in.val)
			}
			sb.WriteString(")")
		}
		k.Logf("client %d:%s", ci+1, sb.String())
	}
	k.Nontrivial()

	per := make([][]porcupine.Operation, clients)
	var fns []func()
	for ci := range progs {
		ci := ci
		fns = append(fns, func() {
			for _, in := range progs[ci] {
				runtime.Gosched()
				call := lclock.Add(1)
				out := linApply(c, in)
				ret := lclock.Add(1)
				per[ci] = append(per[ci], porcupine.Operation{ClientId: ci + 1, Input: in, Call: call, Output: out, Return: ret})
			}
		})
	}
	if !runRacers(k, "linearizability history", fns) {
		return
	}
	overlap := false
	for ci := range per {
		for _, o := range per[ci] {
			if o.Output.(linOut).val == -1 {
				k.Fail("unexpected-error", "%s returned an unexpected error", linModel.DescribeOperation(o.Input, o.Output))
				return
			}
			for cj := ci + 1; cj < len(per) && !overlap; cj++ {
				for _, p := range per[cj] {
					if o.Call < p.Return && p.Call < o.Return {
						overlap = true
						break
					}
				}
			}
		}
		hist = append(hist, per[ci]...)
	}
	cnt["linz_histories_checked"]++
	cnt["linz_ops"] += int64(len(hist))
	if overlap {
		cnt["linz_histories_with_overlap"]++
	}
	switch porcupine.CheckOperationsTimeout(linModel, hist, 60*time.Second) {
	case porcupine.Ok:
	case porcupine.Unknown:
		k.Inconclusive("porcupine timeout")
	case porcupine.Illegal:
		for ci := range per {
			var sb strings.Builder
			for _, o := range per[ci] {
				fmt.Fprintf(&sb, " [%d,%d]%s", o.Call, o.Return, linModel.DescribeOperation(o.Input, o.Output))
			}
			k.Logf("observed client %d:%s", ci+1, sb.String())
		}
		k.Fail("not-linearizable", "no sequential order of the recorded Set/Get/Remove calls explains the observed results (%s cache)", bname)
	}
}

// ---------------------------------------------------------------- kind "evict-race"

// evictRaceCase: the size bound under concurrency. A cache of size s holds s keys; one Set of a
// new key races several Gets of the key that this Set has to push out. Whatever the
// interleaving, once all calls have returned the key just set is retrievable ("a key touched
// more recently than size other distinct keys is never evicted": nothing was touched after
// it except, possibly, keys that were already gone) and at most s keys are.
func evictRaceCase(k *engine.Case) {
	r := k.R
	restore := installClock(7000)
	defer restore()
	const rounds = 150
	size := 1 + r.Intn(2)
	readers := 3 + r.Intn(5)
	k.Logf("NewTTLMemCache(size=%d, ttl=0): %d rounds of one Set(new key) racing %d Gets of the least recently used key", size, rounds, readers)
	k.Nontrivial()
	for round := 0; round < rounds && !k.Failed(); round++ {
		c := cache.NewTTLMemCache(size, 0)
		for i := 0; i < size; i++ {
			c.Set(bg, fmt.Sprintf("old-%d", i), []byte{byte(i)})
		}
		// the readers keep reading the least recently used key until the Set has returned
		// (bounded), so that a read lands in whatever gap the Set leaves
		var setDone atomic.Bool
		fns := []func(){func() { c.Set(bg, "new", []byte{99}); setDone.Store(true) }}
		for i := 0; i < readers; i++ {
			fns = append(fns, func() {
				for n := 0; n < 20000 && !setDone.Load(); n++ {
					c.Get(bg, "old-0")
				}
			})
		}
		if !runRacers(k, "evict-race", fns) {
			return
		}
		k.Evals(1)
		if v, err := c.Get(bg, "new"); err != nil || len(v) != 1 || v[0] != 99 {
			k.Fail("recent-key-evicted", "size=%d round %d: Set(\"new\") raced %d Gets of the least recently used key; after all calls returned Get(\"new\") = (%v, %v)", size, round, readers, v, err)
			return
		}
		live := 0
		for i := 0; i < size; i++ {
			if _, err := c.Get(bg, fmt.Sprintf("old-%d", i)); err == nil {
				live++
			}
		}
		if live+1 > size {
			k.Fail("bound-exceeded", "size=%d round %d: %d keys are retrievable after the racing Set", size, round, live+1)
			return
		}
	}
	k.Count("evict_race_rounds", rounds)
}

// ---------------------------------------------------------------- kind "big-size"

// bigSizeCase: the bound is the size the caller asked for, also when that is a large number.
// size keys are set and every one of them must still be retrievable (each was touched more
// recently than at most size-1 other distinct keys); a few more keys push out exactly the
// oldest ones: at most size keys are retrievable and the size most recently touched ones all are.
func bigSizeCase(k *engine.Case) {
	r := k.R
	restore := installClock(9000)
	defer restore()
	size := []int{65535, 65536, 65537, 70001, 100003, 1<<17 + 1, 60000 + r.Intn(140000), 4096 + r.Intn(60000), 1 << 16, 1<<16 + 1 + r.Intn(9)}[r.Intn(10)]
	ttl := []int64{0, 0, 3600, -1}[r.Intn(4)]
	if r.Intn(4) == 0 {
		ttl = hugeTTL(r)
	}
	extra := 1 + r.Intn(50)
	k.Logf("NewTTLMemCache(size=%d, ttl=%d): Set of %d distinct keys, Get of each, %d further keys, Get of all", size, ttl, size, extra)
	k.Nontrivial()
	c := cache.NewTTLMemCache(size, ttl)
	key := func(i int) string { return fmt.Sprintf("big-%d", i) }
	val := func(i int) []byte { return []byte{byte(i), byte(i >> 8), byte(i >> 16)} }
	for i := 0; i < size; i++ {
		c.Set(bg, key(i), val(i))
	}
	k.Evals(1)
	for i := 0; i < size; i++ {
		v, err := c.Get(bg, key(i))
		if err != nil || !bytes.Equal(v, val(i)) {
			k.Fail("recent-key-evicted", "size=%d ttl=%d: after Set of %d distinct keys (no other call) Get(%q) = (%v, %v): only %d other distinct keys were touched after it", size, ttl, size, key(i), v, err, size-1-i)
			return
		}
	}
	for i := size; i < size+extra; i++ {
		c.Set(bg, key(i), val(i))
	}
	live := 0
	for i := 0; i < size+extra; i++ {
		v, err := c.Get(bg, key(i))
		if err == nil {
			live++
			if !bytes.Equal(v, val(i)) {
				k.Fail("wrong-value", "size=%d: Get(%q) = %v, Set stored %v", size, key(i), v, val(i))
				return
			}
		} else if i >= extra {
			k.Fail("recent-key-evicted", "size=%d ttl=%d: %d keys set and read in order, then %d more set: Get(%q) = %v although fewer than size distinct keys were touched after it", size, ttl, size, extra, key(i), err)
			return
		}
	}
	if live > size {
		k.Fail("bound-exceeded", "size=%d: %d keys are retrievable after %d distinct keys were set", size, live, size+extra)
		return
	}
	k.Count("big_size_cases", 1)
	k.Count("big_size_keys", int64(size+extra))
}

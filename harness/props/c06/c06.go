// Package c06 monitors the id generators of neptune/idgen: snowflake.HardNode (wall
// clock, scripted through the verif hook), snowflake.MonoNode (monotonic clock, real
// time only) and nano.UnixNanoID. Every id a generator returns must be strictly greater
// than every id it returned before, whatever the clock does and however many goroutines
// call it; a HardNode restarted with its last id continues strictly above it, never
// stamps an id earlier than the clock reading, and always writes its own node number.
package c06

import (
	"fmt"
	"math"
	"sort"
	"sync/atomic"
	"time"

	"verifh/engine"

	"github.com/pinealctx/neptune/idgen/snowflake"
)

// Prop is the C06 check.
var Prop = &engine.Prop{
	ID:    "C06",
	Level: "exploration",
	Rule: "hard-seq / nano-seq: one case = one seed-generated layout (node bits 8/9/10 x node-at-lowest x epoch), node number, restart seed and clock script " +
		"(stalls incl. >4096 calls in one ms, backward jumps up to 10 min, forward jumps up to decades, exact hits of the last issued millisecond, restarts with the last id) " +
		"whose ids are judged one by one with the previous id and the exact clock reading in hand; non-trivial = at least one call found the clock not past the last issued millisecond " +
		"(resp. ts <= last id); distinct = distinct script texts including the observed ids. " +
		"hard-conc / mono-conc / nano-conc: 8-16 goroutines behind a barrier on one generator, every call stamped call/return from one atomic logical clock, " +
		"judged by the strictly-increasing-counter checker (all ids distinct; A returned before B was invoked => id(A) < id(B)); distinct = distinct round parameters. " +
		"mono-seq: single-goroutine tight loop under the real monotonic clock. evaluations = ids generated and judged",
	Assumptions: []string{
		"ids are decoded with snowflake.IDFields (the property's observation point); seeds for restarts are composed with the layout documented in snowflake.go",
		"domain: clock readings and epochs inside the range of time.Time.UnixNano (1678..2262; UseEpoch cannot express any other epoch), clock - epoch <= 2^(51-nodeBits) - 1 - (number of calls in the case)",
		"domain: nano generator ts and start values <= MaxInt64 - (number of calls)",
		"restart seeds are ids the same node can have issued (same layout, same node number)",
		"mono-wrap puts a MonoNode's step counter (hook snowflake.VerifMonoPresetStep, under the node's mutex, while no call is in flight) a few steps below 4096 right after a call: the state 4000-odd calls inside the current millisecond also reach, which a race-instrumented build (~1 us per call) never produces by itself; if the field does not exist the kind does nothing and says so (mono_step_preset_unavailable)",
		"MonoNode cannot be given a scripted clock (time.Since): it is observed under the machine's monotonic clock only, with epochs >= 1970 that keep time.Time's monotonic reading; step wraps of MonoNode are counted but not required",
		"in concurrent rounds the scripted clock only moves forward and the timestamp clause is judged against the reading taken at the call event (the generator's own reading can only be later)",
		"the Go race detector reports races only on executed interleavings",
	},
	ShardsQuick: 8, ShardsThorough: 16,
	WatchdogQuick: 10 * time.Minute, WatchdogThorough: 90 * time.Minute,
	Kinds: []engine.Kind{
		{Name: "hard-seq", Quick: 1200, Thorough: 54000, Fn: hardSeqCase},
		{Name: "hard-conc", Quick: 144, Thorough: 6400, Repeat: 20, Fn: hardConcCase},
		{Name: "mono-seq", Quick: 24, Thorough: 1000, Repeat: 5, Fn: monoSeqCase},
		{Name: "mono-wrap", Quick: 48, Thorough: 2000, Repeat: 5, Fn: monoWrapCase},
		{Name: "mono-conc", Quick: 48, Thorough: 2000, Repeat: 20, Fn: monoConcCase},
		{Name: "mono-wrap-conc", Quick: 48, Thorough: 2000, Repeat: 5, Fn: monoWrapConcCase},
		{Name: "nano-seq", Quick: 1200, Thorough: 54000, Fn: nanoSeqCase},
		{Name: "nano-conc", Quick: 72, Thorough: 3200, Repeat: 20, Fn: nanoConcCase},
		{Name: "node-bounds", Quick: 120, Thorough: 4800, Fn: nodeBoundsCase},
	},
	// every floor below is reached deterministically by the generators (they depend on
	// the scripts, not on scheduling or timing)
	Floors: map[string]int64{
		"hard_ids":                      100000,
		"hard_clock_reads":              100000,
		"hard_same_ms_increment":        10000,
		"hard_step_wrap_carry":          50,
		"hard_clock_behind_last_ms":     1000,
		"hard_clock_equals_last_ms":     100,
		"hard_clock_past_last_ms":       1000,
		"hard_backward_jumps":           200,
		"hard_backward_jump_over_1min":  20,
		"hard_restarts":                 200,
		"hard_restart_clock_not_past":   50,
		"hard_restart_seed_step_4095":   5,
		"hard_layout_8bit":              10,
		"hard_layout_9bit":              10,
		"hard_layout_10bit":             10,
		"hard_layout_node_at_lowest":    30,
		"hard_layout_node_above_step":   30,
		"hard_conc_rounds":              8,
		"hard_conc_ids":                 20000,
		"hard_conc_frozen_clock_rounds": 2,
		"mono_ids":                      20000,
		"mono_conc_rounds":              4,
		"nano_ids":                      20000,
		"nano_ts_equal_last":            100,
		"nano_ts_below_last":            1000,
		"nano_ts_above_last":            1000,
		"nano_conc_rounds":              4,
		"nano_conc_ids":                 10000,
	},
}

// ---------------------------------------------------------------- layouts

const stepBits = 12
const stepMax = 1<<stepBits - 1

// the range of UnixNano in whole milliseconds, shrunk by a second on each side
const (
	unixMsMin = math.MinInt64/1000000 + 1000
	unixMsMax = math.MaxInt64/1000000 - 1000
)

type layout struct {
	epoch int64 // ms since 1970
	nb    uint8
	low   bool
}

func (l layout) String() string {
	return fmt.Sprintf("epoch=%dms(%s) nodeBits=%d nodeAtLowest=%v", l.epoch, time.UnixMilli(l.epoch).UTC().Format("2006-01-02"), l.nb, l.low)
}

// maxTime is the largest value of the time field that keeps the id positive.
func (l layout) maxTime() int64 { return 1<<(63-stepBits-uint(l.nb)) - 1 }

// compose builds an id from its fields the way snowflake.go documents the layout.
func (l layout) compose(t, node, step int64) int64 {
	if l.low {
		return t<<(uint(l.nb)+stepBits) | step<<uint(l.nb) | node
	}
	return t<<(uint(l.nb)+stepBits) | node<<stepBits | step
}

var epochPool = []int64{
	1609430400000, // the package default (2021-01-01 +08)
	1609430400000,
	0,
	1,
	999,
	1609430400123,
	-1,
	-2208988800000, // 1900-01-01
	-2208988800001,
	-9000000000000, // 1684
	unixMsMin,
	946684800000,  // 2000-01-01
	4102444800000, // 2100-01-01
	8000000000000, // 2223
}

func pickLayout(r randSrc) layout {
	var l layout
	l.nb = []uint8{8, 9, 10}[r.Intn(3)]
	l.low = r.Intn(2) == 0
	if r.Intn(4) == 0 {
		// anywhere in the representable range that leaves at least ~30 years of room
		l.epoch = unixMsMin + r.Int63n(unixMsMax-unixMsMin-1000000000000)
	} else {
		l.epoch = epochPool[r.Intn(len(epochPool))]
	}
	return l
}

func pickNode(r randSrc, l layout) int64 {
	max := int64(1)<<l.nb - 1
	switch r.Intn(6) {
	case 0:
		return 0
	case 1:
		return max
	case 2:
		return 1
	case 3:
		return max - 1
	}
	return r.Int63n(max + 1)
}

type randSrc interface {
	Intn(int) int
	Int63n(int64) int64
	Int63() int64
}

func countLayout(k *engine.Case, prefix string, l layout) {
	k.Count(fmt.Sprintf("%s_layout_%dbit", prefix, l.nb), 1)
	if l.low {
		k.Count(prefix+"_layout_node_at_lowest", 1)
	} else {
		k.Count(prefix+"_layout_node_above_step", 1)
	}
}

// floorDiv is division rounding towards minus infinity (b > 0).
func floorDiv(a, b int64) int64 {
	q := a / b
	if a%b < 0 {
		q--
	}
	return q
}

func fields(id int64) string {
	t, n, s := snowflake.IDFields(id)
	return fmt.Sprintf("%d(time=%d node=%d step=%d)", id, t, n, s)
}

// ---------------------------------------------------------------- concurrent checker

// rec is one completed call of a concurrent round.
type rec struct {
	call, ret int64 // stamps of the round's logical clock, taken before / after the call
	id        int64
	reading   int64 // scripted clock (ns) read at the call event; unused by mono / nano
	g         int32
}

type xorshift uint64

func (x *xorshift) next() uint64 {
	v := uint64(*x)
	v ^= v << 13
	v ^= v >> 7
	v ^= v << 17
	*x = xorshift(v)
	return v
}

// checkCounter is the strictly-increasing-counter checker over one round: all ids are
// distinct, and whenever A returned before B was invoked id(A) < id(B). It returns the
// number of calls that were invoked while another call was in flight.
func checkCounter(k *engine.Case, gen string, show func(int64) string, recs [][]rec, ticks int64) (overlapped int64) {
	var all []rec
	for _, rs := range recs {
		all = append(all, rs...)
	}
	if len(all) == 0 {
		return 0
	}
	// duplicates
	byID := make([]int32, len(all))
	for i := range byID {
		byID[i] = int32(i)
	}
	sort.Slice(byID, func(i, j int) bool { return all[byID[i]].id < all[byID[j]].id })
	for i := 1; i < len(byID); i++ {
		a, b := all[byID[i-1]], all[byID[i]]
		if a.id == b.id {
			k.Fail(gen+"/duplicate-id", "%s: id %s was returned twice: to goroutine %d (call@%d ret@%d) and to goroutine %d (call@%d ret@%d)",
				gen, show(a.id), a.g, a.call, a.ret, b.g, b.call, b.ret)
			break
		}
	}
	// real-time order: sweep over the logical clock
	ev := make([]int32, ticks+2) // stamp -> (index+1), negative for a return event
	for i, r := range all {
		if r.call <= 0 || r.ret <= r.call || r.ret > ticks {
			k.Inconclusive("harness: bad logical stamps")
			return 0
		}
		ev[r.call] = int32(i + 1)
		ev[r.ret] = -int32(i + 1)
	}
	maxRet, have, maxIdx := int64(0), false, 0
	open := 0
	reported := false
	for ts := int64(1); ts <= ticks; ts++ {
		e := ev[ts]
		switch {
		case e > 0:
			b := all[e-1]
			if open > 0 {
				overlapped++
			}
			open++
			if have && b.id <= maxRet && !reported && b.id != maxRet {
				a := all[maxIdx]
				k.Fail(gen+"/order-violation", "%s: goroutine %d got %s (call@%d ret@%d) before goroutine %d invoked its call (call@%d ret@%d) and got the smaller id %s",
					gen, a.g, show(a.id), a.call, a.ret, b.g, b.call, b.ret, show(b.id))
				reported = true
			}
		case e < 0:
			a := all[-e-1]
			open--
			if !have || a.id > maxRet {
				maxRet, have, maxIdx = a.id, true, int(-e-1)
			}
		}
	}
	return overlapped
}

// logicalClock is the per-round atomic event counter.
type logicalClock struct{ v atomic.Int64 }

func (c *logicalClock) tick() int64 { return c.v.Add(1) }

// nodeBoundsCase: "the node field always equals the configured node" - also for node numbers
// at and beyond the edge of the configured width. A constructor may refuse such a number; a
// generator it does return must stamp exactly that number into every id (and, like any
// generator, return strictly increasing ids).
func nodeBoundsCase(k *engine.Case) {
	r := k.R
	l := pickLayout(r)
	restoreCfg := snowflake.VerifSetConfig(l.epoch, l.nb, l.low)
	defer restoreCfg()
	max := int64(1)<<l.nb - 1
	cands := []int64{max + 1, max + 2, 2 * (max + 1), 2*(max+1) + 5, max + 1 + r.Int63n(max+1), -1, -max, -(max + 1), 1 << 20, 1<<31 + 3, math.MaxInt64, math.MinInt64, max, 0}
	k.Logf("%s: node numbers around and beyond the width (largest valid %d)", l, max)
	k.Nontrivial()
	countLayout(k, "bounds", l)
	for _, node := range cands {
		for _, mono := range []bool{false, true} {
			var n snowflake.Node
			var err error
			name := fmt.Sprintf("NewNode(%d, 0)", node)
			if mono {
				name = fmt.Sprintf("NewMonoNode(%d)", node)
				n, err = snowflake.NewMonoNode(node)
			} else {
				n, err = snowflake.NewNode(node, 0)
			}
			k.Evals(1)
			if err != nil || n == nil {
				if node >= 0 && node <= max {
					k.Fail("node-refused", "%s %s refused a node number inside the configured width: %v", l, name, err)
					return
				}
				k.Count("bounds_refused", 1)
				continue
			}
			k.Count("bounds_accepted", 1)
			var prev int64
			for i := 0; i < 3; i++ {
				id := n.Generate()
				_, nf, _ := snowflake.IDFields(id)
				if nf != node {
					k.Fail("node-field", "%s %s returned a generator whose id %d carries node field %d, not the configured node %d", l, name, id, nf, node)
					return
				}
				if i > 0 && id <= prev {
					k.Fail("not-increasing", "%s %s: id %d after %d", l, name, id, prev)
					return
				}
				prev = id
			}
		}
	}
	k.Count("bounds_cases", 1)
}

package c06

import (
	"fmt"
	"runtime"
	"sync"

	"verifh/engine"

	"github.com/pinealctx/neptune/idgen/snowflake"
)

// epochs for MonoNode: after 1970 (so that time.Time keeps its monotonic reading through
// the Add in NewMonoNode) and at most ~56 years before 2026 (fits 41 bits).
var monoEpochs = []int64{1609430400000, 1609430400000, 0, 946684800000, 1609430400123, 1700000000000}

func pickMonoLayout(r randSrc) layout {
	return layout{epoch: monoEpochs[r.Intn(len(monoEpochs))], nb: []uint8{8, 9, 10}[r.Intn(3)], low: r.Intn(2) == 0}
}

// monoSeqCase: one goroutine calls MonoNode.Generate in a tight loop under the real
// monotonic clock. Whether a step wrap (4096 calls inside one millisecond) happens
// depends on the machine; it is counted, never required.
func monoSeqCase(k *engine.Case) {
	r := k.R
	l := pickMonoLayout(r)
	node := pickNode(r, l)
	restoreCfg := snowflake.VerifSetConfig(l.epoch, l.nb, l.low)
	defer restoreCfg()
	total := 30000 + r.Intn(30000)
	desc := fmt.Sprintf("MonoNode tight loop %s node=%d calls=%d", l, node, total)
	k.Logf("%s", desc)
	k.Nontrivial()
	k.Distinct(engine.HashStr(desc))
	countLayout(k, "mono", l)

	n, err := snowflake.NewMonoNode(node)
	if err != nil {
		k.Logf("NewMonoNode(%d) failed: %v", node, err)
		k.Inconclusive("NewMonoNode refused a node number inside the configured width")
		return
	}
	ids := make([]int64, total)
	for i := range ids {
		ids[i] = n.Generate()
	}
	k.Evals(int64(total))
	k.Count("mono_ids", int64(total))
	var wraps, same, adv int64
	for i, id := range ids {
		t, nd, _ := snowflake.IDFields(id)
		if nd != node {
			k.Fail("mono/node-field", "%s node=%d: call %d returned %s whose node field is %d", l, node, i, fields(id), nd)
			return
		}
		if i == 0 {
			continue
		}
		pt, _, ps := snowflake.IDFields(ids[i-1])
		if id <= ids[i-1] {
			k.Logf("  call %d: %s after %s", i, fields(id), fields(ids[i-1]))
			k.Fail("mono/not-increasing", "%s node=%d: call %d returned %s after %s", l, node, i, fields(id), fields(ids[i-1]))
			return
		}
		switch {
		case t == pt:
			same++
		case ps == stepMax:
			wraps++
		default:
			adv++
		}
	}
	k.Count("mono_step_wraps_observed", wraps)
	k.Count("mono_same_ms_increment", same)
	k.Count("mono_ms_advance", adv)
	k.Logf("  %d ids, first %s last %s", total, fields(ids[0]), fields(ids[total-1]))
}

// monoWrapCase: single caller; again and again the step counter is advanced to a few
// steps below 4096 right after a call (the state of a caller that had been that much
// faster) and a short burst follows, so that the wrap falls inside one millisecond
// whenever the machine manages ~10 calls per millisecond. Judged like every other
// sequence: each id strictly above the one before, node field intact.
func monoWrapCase(k *engine.Case) {
	r := k.R
	l := pickMonoLayout(r)
	node := pickNode(r, l)
	restoreCfg := snowflake.VerifSetConfig(l.epoch, l.nb, l.low)
	defer restoreCfg()
	rounds := 60 + r.Intn(60)
	desc := fmt.Sprintf("MonoNode wrap bursts %s node=%d rounds=%d", l, node, rounds)
	k.Logf("%s", desc)
	k.Nontrivial()
	k.Distinct(engine.HashStr(desc))
	countLayout(k, "mono", l)
	n, err := snowflake.NewMonoNode(node)
	if err != nil {
		k.Logf("NewMonoNode(%d) failed: %v", node, err)
		k.Inconclusive("NewMonoNode refused a node number inside the configured width")
		return
	}
	if !snowflake.VerifMonoPresetStep(n, 0) {
		k.Count("mono_step_preset_unavailable", 1)
		return
	}
	var ids [64]int64
	prev, have := int64(0), false
	var total, wraps, spins int64
	for round := 0; round < rounds; round++ {
		left := int64(1 + r.Intn(12)) // calls until the counter is at 4095
		m := int(left) + 2 + r.Intn(6)
		first := n.Generate()
		snowflake.VerifMonoPresetStep(n, stepMax-left)
		for i := 0; i < m; i++ {
			ids[i] = n.Generate()
		}
		total += int64(m) + 1
		seq := append([]int64{first}, ids[:m]...)
		for i, id := range seq {
			t, nd, s := snowflake.IDFields(id)
			if nd != node {
				k.Fail("mono/node-field", "%s node=%d: returned %s whose node field is %d", l, node, fields(id), nd)
				return
			}
			if have && id <= prev {
				k.Logf("  round %d: step counter set to %d after %s; burst of %d calls:", round, stepMax-left, fields(first), m)
				for j := 1; j <= i; j++ {
					k.Logf("    %s", fields(seq[j]))
				}
				k.Fail("mono/not-increasing", "%s node=%d: %s was returned after %s (step counter had been advanced to %d inside the same millisecond)",
					l, node, fields(id), fields(prev), stepMax-left)
				return
			}
			if have {
				pt, _, ps := snowflake.IDFields(prev)
				if ps == stepMax && i > 0 {
					wraps++
					if s == 0 && t == pt+1 {
						spins++
					}
				}
			}
			prev, have = id, true
		}
	}
	k.Evals(total)
	k.Count("mono_ids", total)
	k.Count("mono_step_wraps_observed", wraps)
	k.Count("mono_wrap_into_next_ms", spins)
	k.Count("mono_wrap_rounds", int64(rounds))
	k.Logf("  %d ids in %d rounds, %d step wraps seen", total, rounds, wraps)
}

// monoConcCase: the counter checker over concurrent callers of one MonoNode.
func monoConcCase(k *engine.Case) {
	r := k.R
	l := pickMonoLayout(r)
	node := pickNode(r, l)
	restoreCfg := snowflake.VerifSetConfig(l.epoch, l.nb, l.low)
	defer restoreCfg()
	g := 8 + r.Intn(9)
	per := (6000 + r.Intn(8000)) / g
	procs := []int{2, 4, 8, 16}[r.Intn(4)]
	yield := []uint64{0, 3, 15}[r.Intn(3)] // Gosched when v&yield == 0 (0: never)
	gseeds := make([]uint64, g)
	for i := range gseeds {
		gseeds[i] = uint64(r.Int63()) | 1
	}
	desc := fmt.Sprintf("MonoNode concurrent %s node=%d goroutines=%d calls/goroutine=%d gomaxprocs=%d yieldmask=%d", l, node, g, per, procs, yield)
	k.Logf("%s", desc)
	k.Nontrivial()
	k.Distinct(engine.HashStr(desc))
	countLayout(k, "mono_conc", l)

	n, err := snowflake.NewMonoNode(node)
	if err != nil {
		k.Logf("NewMonoNode(%d) failed: %v", node, err)
		k.Inconclusive("NewMonoNode refused a node number inside the configured width")
		return
	}
	old := runtime.GOMAXPROCS(procs)
	defer runtime.GOMAXPROCS(old)
	var lc logicalClock
	recs := make([][]rec, g)
	start := make(chan struct{})
	var wg sync.WaitGroup
	for w := 0; w < g; w++ {
		w := w
		wg.Add(1)
		go func() {
			defer wg.Done()
			x := xorshift(gseeds[w])
			out := make([]rec, 0, per)
			<-start
			for i := 0; i < per; i++ {
				if yield != 0 && x.next()&yield == 0 {
					runtime.Gosched()
				}
				c := lc.tick()
				id := n.Generate()
				rt := lc.tick()
				out = append(out, rec{call: c, ret: rt, id: id, g: int32(w)})
			}
			recs[w] = out
		}()
	}
	close(start)
	wg.Wait()
	total := int64(g * per)
	k.Evals(total)
	k.Count("mono_ids", total)
	k.Count("mono_conc_rounds", 1)
	var zeroAfterMax int64
	for _, rs := range recs {
		for _, rc := range rs {
			_, nd, _ := snowflake.IDFields(rc.id)
			if nd != node {
				k.Fail("mono/node-field", "%s node=%d: concurrent call returned %s whose node field is %d", l, node, fields(rc.id), nd)
				return
			}
		}
	}
	// step wraps seen in this round: an id with step 4095 exists
	for _, rs := range recs {
		for _, rc := range rs {
			if _, _, s := snowflake.IDFields(rc.id); s == stepMax {
				zeroAfterMax++
			}
		}
	}
	k.Count("mono_step_wraps_observed", zeroAfterMax)
	ov := checkCounter(k, "mono", fields, recs, lc.v.Load())
	k.Count("mono_conc_calls_invoked_during_another", ov)
	k.Logf("  %d ids, %d calls invoked while another was in flight", total, ov)
}

// monoWrapConcCase: the step-counter wrap of a MonoNode (the 4097th id of one millisecond makes
// the generator wait for the next millisecond) while other goroutines keep calling. Rounds with
// a barrier: between rounds no call is in flight and the counter is put a few steps below 4096
// (hook); in a round 3-8 goroutines generate a burst each. Ids must be unique, increasing per
// goroutine, above every id of the rounds before, and carry the node number.
func monoWrapConcCase(k *engine.Case) {
	r := k.R
	l := pickMonoLayout(r)
	node := pickNode(r, l)
	restoreCfg := snowflake.VerifSetConfig(l.epoch, l.nb, l.low)
	defer restoreCfg()
	n, err := snowflake.NewMonoNode(node)
	if err != nil {
		k.Inconclusive("NewMonoNode refused a node number inside the configured width")
		return
	}
	if !snowflake.VerifMonoPresetStep(n, 0) {
		k.Count("mono_step_preset_unavailable", 1)
		return
	}
	g := 3 + r.Intn(6)
	rounds := 30 + r.Intn(30)
	per := 8 + r.Intn(40)
	desc := fmt.Sprintf("MonoNode wrap under concurrency %s node=%d goroutines=%d rounds=%d ids/goroutine/round=%d", l, node, g, rounds, per)
	k.Logf("%s", desc)
	k.Nontrivial()
	k.Distinct(engine.HashStr(desc))
	old := runtime.GOMAXPROCS([]int{2, 4, 8, 16}[r.Intn(4)])
	defer runtime.GOMAXPROCS(old)
	out := make([][]int64, g)
	for i := range out {
		out[i] = make([]int64, per)
	}
	floor := int64(0)
	var total int64
	for round := 0; round < rounds; round++ {
		first := n.Generate()
		if first <= floor {
			k.Fail("mono/not-increasing", "%s node=%d: %s was returned after %s of an earlier round", l, node, fields(first), fields(floor))
			return
		}
		left := int64(1 + r.Intn(20))
		snowflake.VerifMonoPresetStep(n, stepMax-left)
		var wg sync.WaitGroup
		start := make(chan struct{})
		for w := 0; w < g; w++ {
			w := w
			wg.Add(1)
			go func() {
				defer wg.Done()
				<-start
				for i := 0; i < per; i++ {
					out[w][i] = n.Generate()
				}
			}()
		}
		close(start)
		wg.Wait()
		seen := make(map[int64]int, g*per)
		max := first
		for w := 0; w < g; w++ {
			for i, id := range out[w] {
				if _, nd, _ := snowflake.IDFields(id); nd != node {
					k.Fail("mono/node-field", "%s node=%d: returned %s whose node field is %d", l, node, fields(id), nd)
					return
				}
				if id <= first {
					k.Fail("mono/not-increasing", "%s node=%d round %d: goroutine %d got %s, not above %s which was returned before the round began (counter preset to %d)", l, node, round, w, fields(id), fields(first), stepMax-left)
					return
				}
				if i > 0 && id <= out[w][i-1] {
					k.Fail("mono/not-increasing", "%s node=%d round %d: goroutine %d got %s right after %s (counter preset to %d, %d goroutines)", l, node, round, w, fields(id), fields(out[w][i-1]), stepMax-left, g)
					return
				}
				if ow, dup := seen[id]; dup {
					k.Fail("mono/duplicate-id", "%s node=%d round %d: %s was returned twice (goroutines %d and %d) while the step counter wrapped (preset to %d, %d goroutines)", l, node, round, fields(id), ow, w, stepMax-left, g)
					return
				}
				seen[id] = w
				if id > max {
					max = id
				}
			}
		}
		floor = max
		total += int64(g*per) + 1
	}
	k.Evals(total)
	k.Count("mono_wrap_conc_ids", total)
	k.Count("mono_wrap_conc_rounds", int64(rounds))
}

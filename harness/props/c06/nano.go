package c06

import (
	"fmt"
	"math"
	"runtime"
	"sync"
	"sync/atomic"

	"verifh/engine"

	"github.com/pinealctx/neptune/idgen/nano"
)

type tsGen interface{ GenIDByTS(ts int64) int64 }

func plain(id int64) string { return fmt.Sprint(id) }

// nanoSeqCase drives GenIDByTS of one generator (locked or lock-free variant; the
// lock-free one is only ever used from one goroutine) with an arbitrary ts sequence.
func nanoSeqCase(k *engine.Case) {
	r := k.R
	budget := 300 + r.Intn(2500)
	limit := int64(math.MaxInt64) - 2*int64(budget) - 16 // domain: ts and start <= MaxInt64 - calls (the wall-clock calls mixed in count too)
	var start int64
	switch r.Intn(8) {
	case 0:
		start = 0
	case 1:
		start = 1
	case 2:
		start = -1
	case 3:
		start = math.MinInt64
	case 4:
		start = limit - r.Int63n(1000)
		k.Count("nano_start_near_maxint64", 1)
	case 5:
		start = 1700000000000000000 + r.Int63n(1000000000000000)
	default:
		start = r.Int63() - r.Int63()
		if start > limit {
			start = limit
		}
	}
	var g tsGen
	variant := "UnixNanoID"
	if r.Intn(3) == 0 {
		variant = "UnixNanoNoLockID"
		g = nano.NewUnixNanoNoLockID(start)
		k.Count("nano_nolock_cases", 1)
	} else {
		g = nano.NewUnixNanoID(start)
	}
	k.Logf("%s start=%d budget=%d", variant, start, budget)

	last, have := int64(0), false
	cur := start // what the next ts is compared with, as far as the harness can tell
	calls := 0
	nontrivial := false
	one := func(ts int64) bool {
		if ts > limit {
			ts = limit
		}
		if r.Intn(7) == 0 {
			// the wall-clock entry point of the same generator, in between: whatever the
			// machine's clock reads now (usually far below or above the scripted readings),
			// the id has to be above everything returned so far
			id := g.(interface{ GenID() int64 }).GenID()
			calls++
			k.Evals(1)
			k.Count("nano_wallclock_calls", 1)
			if have && id <= last {
				k.Logf("  call %d: GenID() -> %d after %d", calls, id, last)
				k.Fail("nano/not-increasing", "%s start=%d: call %d GenID() (wall clock) returned %d after %d", variant, start, calls, id, last)
				return false
			}
			last, have, cur = id, true, id
		}
		id := g.GenIDByTS(ts)
		calls++
		k.Evals(1)
		switch {
		case ts == cur:
			k.Count("nano_ts_equal_last", 1)
			nontrivial = true
		case ts < cur:
			k.Count("nano_ts_below_last", 1)
			nontrivial = true
		default:
			k.Count("nano_ts_above_last", 1)
		}
		if id == ts {
			k.Count("nano_returned_ts", 1)
		} else {
			k.Count("nano_returned_other", 1)
		}
		if have && id <= last {
			k.Logf("  call %d: GenIDByTS(%d) -> %d after %d", calls, ts, id, last)
			k.Fail("nano/not-increasing", "%s start=%d: call %d GenIDByTS(%d) returned %d after %d", variant, start, calls, ts, id, last)
			return false
		}
		last, have, cur = id, true, id
		return true
	}
	for seg := 0; calls < budget; seg++ {
		n := 1 + r.Intn(30)
		if r.Intn(8) == 0 {
			n = 100 + r.Intn(400)
		}
		if n > budget-calls {
			n = budget - calls
		}
		first := int64(0)
		what := ""
		ok := true
		switch r.Intn(10) {
		case 0, 1: // the same ts again and again
			ts := cur + []int64{0, 0, -1, 1, -1000, 1000}[r.Intn(6)]
			if cur < math.MinInt64+1000 {
				ts = cur
			}
			what = fmt.Sprintf("x%d GenIDByTS(%d)", n, ts)
			for i := 0; i < n && ok; i++ {
				ok = one(ts)
				if i == 0 {
					first = last
				}
			}
		case 2, 3: // ts = the last id exactly (the comparison boundary)
			what = fmt.Sprintf("x%d GenIDByTS(last id)", n)
			for i := 0; i < n && ok; i++ {
				ok = one(cur)
				if i == 0 {
					first = last
				}
			}
		case 4: // a clock running forward by d per call
			d := []int64{1, 2, 1000, 1 + r.Int63n(1000000)}[r.Intn(4)]
			base := cur + r.Int63n(2001) - 1000
			if cur < math.MinInt64+2000 {
				base = cur
			}
			what = fmt.Sprintf("x%d GenIDByTS(%d + i*%d)", n, base, d)
			for i := 0; i < n && ok; i++ {
				ts := base + int64(i)*d
				if ts < base { // overflow guard; cannot happen inside the domain
					ts = limit
				}
				ok = one(ts)
				if i == 0 {
					first = last
				}
			}
		case 5: // a clock running backwards
			d := []int64{1, 1000, 1 + r.Int63n(1000000000)}[r.Intn(3)]
			what = fmt.Sprintf("x%d GenIDByTS(last - (i+1)*%d)", n, d)
			base := cur
			for i := 0; i < n && ok; i++ {
				ts := base - int64(i+1)*d
				if ts > base {
					ts = math.MinInt64
				}
				ok = one(ts)
				if i == 0 {
					first = last
				}
			}
		case 6: // extremes
			ts := []int64{math.MinInt64, 0, -1, limit, math.MinInt64 + 1}[r.Intn(5)]
			if ts == limit && r.Intn(4) != 0 {
				ts = 0 // reaching the top ends all variety, keep it rare
			}
			n = 1 + r.Intn(3)
			what = fmt.Sprintf("x%d GenIDByTS(%d)", n, ts)
			for i := 0; i < n && ok && calls < budget; i++ {
				ok = one(ts)
				if i == 0 {
					first = last
				}
			}
		default: // jitter around the last id
			what = fmt.Sprintf("x%d GenIDByTS(last id + jitter)", n)
			for i := 0; i < n && ok; i++ {
				j := r.Int63n(7) - 3
				if r.Intn(10) == 0 {
					j = r.Int63n(2000001) - 1000000
				}
				ts := cur + j
				if j < 0 && ts > cur {
					ts = math.MinInt64
				}
				if j > 0 && ts < cur {
					ts = limit
				}
				ok = one(ts)
				if i == 0 {
					first = last
				}
			}
		}
		k.Logf("#%d %s -> %d .. %d", seg, what, first, last)
		if !ok {
			return
		}
	}
	k.Count("nano_ids", int64(calls))
	if nontrivial {
		k.Nontrivial()
	}
}

// nanoConcCase: the counter checker over concurrent callers of one UnixNanoID.
func nanoConcCase(k *engine.Case) {
	r := k.R
	g := 8 + r.Intn(9)
	per := (6000 + r.Intn(8000)) / g
	procs := []int{2, 4, 8, 16}[r.Intn(4)]
	mode := []string{"same-ts", "shared-forward-clock", "own-clocks", "with-GenID"}[r.Intn(4)]
	total := int64(g * per)
	var start int64
	switch r.Intn(4) {
	case 0:
		start = 0
	case 1:
		start = math.MaxInt64 - total*4 - 1000000 // room: every call can add at most max(step, 1)
	default:
		start = 1700000000000000000 + r.Int63n(1000000000000)
	}
	if mode == "with-GenID" {
		start = 0
	}
	gseeds := make([]uint64, g)
	for i := range gseeds {
		gseeds[i] = uint64(r.Int63()) | 1
	}
	desc := fmt.Sprintf("UnixNanoID concurrent start=%d goroutines=%d calls/goroutine=%d gomaxprocs=%d ts=%s", start, g, per, procs, mode)
	k.Logf("%s", desc)
	k.Nontrivial()
	k.Distinct(engine.HashStr(desc))

	n := nano.NewUnixNanoID(start)
	old := runtime.GOMAXPROCS(procs)
	defer runtime.GOMAXPROCS(old)
	var lc logicalClock
	var shared atomic.Int64
	shared.Store(start)
	recs := make([][]rec, g)
	begin := make(chan struct{})
	var wg sync.WaitGroup
	for w := 0; w < g; w++ {
		w := w
		wg.Add(1)
		go func() {
			defer wg.Done()
			x := xorshift(gseeds[w])
			out := make([]rec, 0, per)
			own := start
			<-begin
			for i := 0; i < per; i++ {
				v := x.next()
				if v&3 == 0 {
					runtime.Gosched()
				}
				var ts int64
				useNow := false
				switch mode {
				case "same-ts":
					ts = start + 1
				case "shared-forward-clock":
					// at most +3 per call: ts stays <= start + 3*total
					ts = shared.Add(int64((v >> 8) % 4))
				case "own-clocks":
					own += int64((v >> 8) % 4)
					ts = own
				case "with-GenID":
					useNow = (v>>8)%8 == 0
					ts = int64((v >> 16) % 1000)
				}
				c := lc.tick()
				var id int64
				if useNow {
					id = n.GenID()
				} else {
					id = n.GenIDByTS(ts)
				}
				rt := lc.tick()
				out = append(out, rec{call: c, ret: rt, id: id, g: int32(w)})
			}
			recs[w] = out
		}()
	}
	close(begin)
	wg.Wait()
	k.Evals(total)
	k.Count("nano_conc_rounds", 1)
	k.Count("nano_conc_ids", total)
	k.Count("nano_conc_"+mode+"_rounds", 1)
	ov := checkCounter(k, "nano", plain, recs, lc.v.Load())
	k.Count("nano_conc_calls_invoked_during_another", ov)
	k.Logf("  %d ids, %d calls invoked while another was in flight", total, ov)
}

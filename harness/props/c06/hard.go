package c06

import (
	"fmt"
	"runtime"
	"sync"
	"sync/atomic"
	"time"

	"verifh/engine"

	"github.com/pinealctx/neptune/idgen/snowflake"
)

const msNs = 1000000

// ---------------------------------------------------------------- HardNode, scripted clock, one caller

type hardSeq struct {
	k      *engine.Case
	l      layout
	node   int64
	n      snowflake.Node
	clock  int64 // scripted reading, ns since 1970
	reads  int64
	loNs   int64 // lowest / highest reading the domain allows
	hiNs   int64
	hiRel  int64 // highest clock-epoch (ms) and seed time the domain allows
	budget int

	calls       int
	prev        int64 // last id issued (or the seed right after a restart)
	havePrev    bool
	afterSeed   bool // prev is a restart seed, not yet followed by an id
	lastT       int64
	lastS       int64
	flapNs      int64 // > 0: the first reading within a call is this much later than further readings of that call
	inCall      int   // clock readings taken since the current Generate call began
	stalled     bool  // some call found the clock not past the last issued ms
	failed      bool
	segFirst    int64
	segLast     int64
	segN        int
	wrapsInCase int
	what        string // the step being executed (logged before a failure line)
}

func (h *hardSeq) relMs() int64 { return floorDiv(h.clock, msNs) - h.l.epoch }

func (h *hardSeq) clockStr() string {
	ms := floorDiv(h.clock, msNs)
	return fmt.Sprintf("epoch%+dms+%dns", ms-h.l.epoch, h.clock-ms*msNs)
}

func (h *hardSeq) setClock(ns int64) {
	if ns < h.loNs {
		ns = h.loNs
	}
	if ns > h.hiNs {
		ns = h.hiNs
	}
	h.clock = ns
}

// setRel puts the clock at epoch+rel ms plus sub ns.
func (h *hardSeq) setRel(rel, sub int64) {
	if rel > h.hiRel {
		rel = h.hiRel
	}
	h.setClock((h.l.epoch+rel)*msNs + sub)
}

// do issues n ids, moving the clock by dNs after each call, and judges every one.
func (h *hardSeq) do(n int, dNs int64) {
	k := h.k
	h.segN = 0
	for i := 0; i < n && h.calls < h.budget && !h.failed; i++ {
		reading := h.clock
		nowRel := floorDiv(reading, msNs) - h.l.epoch
		before := h.reads
		h.inCall = 0
		id := h.n.Generate()
		h.calls++
		k.Evals(1)
		t, nd, s := snowflake.IDFields(id)
		if h.segN == 0 {
			h.segFirst = id
		}
		h.segLast = id
		h.segN++
		if h.reads == before {
			k.Count("hard_generate_without_clock_read", 1)
		}
		// coverage, from what was observed
		switch {
		case nowRel > h.lastT:
			k.Count("hard_clock_past_last_ms", 1)
		case nowRel == h.lastT:
			k.Count("hard_clock_equals_last_ms", 1)
			h.stalled = true
		default:
			k.Count("hard_clock_behind_last_ms", 1)
			h.stalled = true
		}
		if t == h.lastT && s == h.lastS+1 {
			k.Count("hard_same_ms_increment", 1)
		}
		if s == 0 && h.lastS == stepMax && t == h.lastT+1 && t > nowRel {
			k.Count("hard_step_wrap_carry", 1)
			h.wrapsInCase++
			if nowRel < h.lastT {
				k.Count("hard_step_wrap_carry_while_clock_behind", 1)
			}
		}
		if h.afterSeed && h.lastS == stepMax && nowRel <= h.lastT {
			k.Count("hard_restart_seed_step_4095", 1)
		}
		// the property, clause by clause
		if h.what != "" && (h.havePrev && id <= h.prev || nd != h.node || t < nowRel) {
			k.Logf("%s -> failed at its call %d:", h.what, h.segN)
		}
		if h.havePrev && id <= h.prev {
			if h.afterSeed {
				k.Logf("  call %d: clock=%s -> %s", h.calls, h.clockStr(), fields(id))
				k.Fail("hard/restart-not-above-seed", "%s node=%d: NewNode(node, %s) then Generate() at clock %s returned %s, not above the seed",
					h.l, h.node, fields(h.prev), h.clockStr(), fields(id))
			} else {
				k.Logf("  call %d: clock=%s -> %s after %s", h.calls, h.clockStr(), fields(id), fields(h.prev))
				k.Fail("hard/not-increasing", "%s node=%d: call %d at clock %s returned %s after %s",
					h.l, h.node, h.calls, h.clockStr(), fields(id), fields(h.prev))
			}
			h.failed = true
		}
		if nd != h.node {
			k.Logf("  call %d: clock=%s -> %s", h.calls, h.clockStr(), fields(id))
			k.Fail("hard/node-field", "%s node=%d: call %d returned %s whose node field is %d", h.l, h.node, h.calls, fields(id), nd)
			h.failed = true
		}
		if t < nowRel {
			k.Logf("  call %d: clock=%s -> %s", h.calls, h.clockStr(), fields(id))
			k.Fail("hard/timestamp-behind-clock", "%s node=%d: call %d at clock %s (epoch+%dms) returned %s stamped %d ms earlier than the clock",
				h.l, h.node, h.calls, h.clockStr(), nowRel, fields(id), nowRel-t)
			h.failed = true
		}
		h.prev, h.havePrev, h.afterSeed = id, true, false
		h.lastT, h.lastS = t, s
		if dNs != 0 {
			h.setClock(h.clock + dNs)
		}
	}
}

// run logs the step (program text), executes it and logs what came back.
func (h *hardSeq) run(what string, n int, dNs int64) {
	h.what = what
	h.do(n, dNs)
	h.what = ""
	h.logSeg(what)
}

func (h *hardSeq) logSeg(what string) {
	if h.segN == 0 {
		h.k.Logf("%s -> (no call)", what)
		return
	}
	if h.segN == 1 {
		h.k.Logf("%s -> %s", what, fields(h.segFirst))
		return
	}
	h.k.Logf("%s -> %d ids %s .. %s", what, h.segN, fields(h.segFirst), fields(h.segLast))
}

func (h *hardSeq) restart(seed int64) bool {
	n, err := snowflake.NewNode(h.node, seed)
	if err != nil {
		// the statement is about ids; a constructor refusing a node inside 0..2^bits-1 leaves nothing to judge
		h.k.Logf("NewNode(%d, %d) failed: %v", h.node, seed, err)
		h.k.Inconclusive("NewNode refused a node number inside the configured width")
		h.failed = true
		return false
	}
	h.n = n
	if seed != 0 {
		h.prev, h.havePrev, h.afterSeed = seed, true, true
		h.lastT, _, h.lastS = snowflake.IDFields(seed)
	} else {
		h.havePrev, h.afterSeed = false, false
		h.lastT, h.lastS = 0, 0
	}
	return true
}

func pickSub(r randSrc) int64 {
	switch r.Intn(4) {
	case 0:
		return 0
	case 1:
		return msNs - 1
	}
	return r.Int63n(msNs)
}

func pickBurst(r randSrc) int {
	switch r.Intn(12) {
	case 0, 1, 2, 3:
		return 1 + r.Intn(8)
	case 4:
		return 4090 + r.Intn(12)
	case 5:
		return 4096*(1+r.Intn(3)) - 2 + r.Intn(5)
	case 6:
		return 100 + r.Intn(3000)
	case 7:
		return 8190 + r.Intn(12)
	}
	return 1 + r.Intn(300)
}

func pickBackNs(r randSrc) int64 {
	switch r.Intn(9) {
	case 0:
		return 1 + r.Int63n(msNs) // inside one millisecond
	case 1:
		return msNs
	case 2:
		return 2 * msNs
	case 3:
		return (1 + r.Int63n(1000)) * msNs
	case 4:
		return (1 + r.Int63n(60)) * 1000 * msNs // seconds
	case 5:
		return 60*1000*msNs + r.Int63n(9*60*1000*msNs) // 1..10 minutes
	case 6:
		return 61 * 1000 * msNs
	case 7:
		return 10 * 60 * 1000 * msNs
	}
	return 1 + r.Int63n(5000*msNs)
}

func pickFwdNs(r randSrc) int64 {
	const day = 86400 * 1000 * msNs
	switch r.Intn(8) {
	case 0:
		return msNs
	case 1:
		return 1 + r.Int63n(3*msNs)
	case 2:
		return (1 + r.Int63n(5000)) * msNs
	case 3:
		return 3600 * 1000 * msNs
	case 4:
		return day + r.Int63n(day)
	case 5:
		return 365 * day
	case 6:
		return 30 * 365 * day
	}
	return 1 + r.Int63n(100*msNs)
}

func hardSeqCase(k *engine.Case) {
	r := k.R
	l := pickLayout(r)
	node := pickNode(r, l)
	restoreCfg := snowflake.VerifSetConfig(l.epoch, l.nb, l.low)
	defer restoreCfg()

	h := &hardSeq{k: k, l: l, node: node}
	h.budget = 1200 + r.Intn(9000)
	if r.Intn(3) == 0 {
		h.budget = 9000 + r.Intn(9000)
	}
	margin := int64(h.budget) + 16 + 1100 // + the largest step-back between two readings (1 s)
	h.hiRel = l.maxTime()
	if unixMsMax-l.epoch < h.hiRel {
		h.hiRel = unixMsMax - l.epoch
	}
	h.hiRel -= margin
	h.hiNs = (l.epoch+h.hiRel)*msNs + msNs - 1
	h.loNs = unixMsMin * msNs
	loRel := unixMsMin - l.epoch // <= 0

	// the clock is read by the generator, not handed to it: in one case of six a reading taken
	// first within a Generate call is later than any further reading of the same call (a clock
	// that steps back between two looks). Ids are judged against the lower reading.
	if r.Intn(6) == 0 {
		h.flapNs = []int64{msNs, 2 * msNs, 5*msNs + 17, 1000 * msNs, msNs / 2}[r.Intn(5)]
		k.Count("hard_cases_clock_steps_back_between_readings", 1)
	}
	restoreNow := snowflake.VerifSetNow(func() time.Time {
		h.reads++
		h.inCall++
		if h.flapNs > 0 && h.inCall == 1 {
			return time.Unix(0, h.clock+h.flapNs)
		}
		return time.Unix(0, h.clock)
	})
	defer restoreNow()

	// where the clock starts
	var rel int64
	startKind := ""
	switch r.Intn(9) {
	case 0:
		rel, startKind = int64(r.Intn(6)), "at-epoch"
	case 1:
		if loRel < 0 {
			span := int64(600000)
			if -loRel < span {
				span = -loRel
			}
			rel, startKind = -(1 + r.Int63n(span)), "before-epoch"
			k.Count("hard_start_before_epoch", 1)
		} else {
			rel, startKind = 0, "at-epoch"
		}
	case 2:
		rel, startKind = h.hiRel-r.Int63n(1000), "far-future(limit)"
		k.Count("hard_start_at_width_limit", 1)
	case 3:
		rel, startKind = h.hiRel-r.Int63n(1000000000), "far-future"
		k.Count("hard_start_at_width_limit", 1)
	case 4:
		// around 1970, where UnixNano changes sign
		rel = -l.epoch - 2 + int64(r.Intn(5))
		if rel < loRel || rel > h.hiRel {
			rel = r.Int63n(h.hiRel + 1)
		} else {
			k.Count("hard_start_around_1970", 1)
		}
		startKind = "around-1970"
	case 5:
		rel, startKind = 180000000000+r.Int63n(1000000000), "about-6-years-after-epoch"
		if rel > h.hiRel {
			rel = h.hiRel
		}
	default:
		rel, startKind = r.Int63n(h.hiRel+1), "anywhere"
	}
	h.setRel(rel, pickSub(r))
	if h.clock < 0 {
		k.Count("hard_clock_before_1970", 1)
	}

	// restart seed of the first life
	seed := int64(0)
	if r.Intn(5) >= 2 {
		t0 := h.relMs()
		switch r.Intn(7) {
		case 0:
		case 1:
			t0--
		case 2:
			t0++
		case 3:
			t0 -= r.Int63n(10000)
		case 4:
			t0 += r.Int63n(10000)
		case 5:
			t0 += r.Int63n(600000)
		case 6:
			t0 -= r.Int63n(1000000000)
		}
		if t0 < 0 {
			t0 = 0
		}
		if t0 > h.hiRel {
			t0 = h.hiRel
		}
		s0 := []int64{0, 1, stepMax - 1, stepMax, stepMax, r.Int63n(stepMax + 1)}[r.Intn(6)]
		if t0 == 0 && s0 == 0 {
			s0 = 1
		}
		seed = l.compose(t0, node, s0)
	}
	countLayout(k, "hard", l)
	k.Logf("HardNode %s node=%d budget=%d calls; clock starts %s at %s; NewNode(%d, %s)", l, node, h.budget, startKind, h.clockStr(), node, seedStr(seed))
	if !h.restart(seed) {
		return
	}
	if seed != 0 {
		k.Count("hard_restarts", 1)
		if h.relMs() <= h.lastT {
			k.Count("hard_restart_clock_not_past", 1)
		}
	}

	for step := 0; h.calls < h.budget && !h.failed; step++ {
		tag := fmt.Sprintf("#%d", step)
		switch r.Intn(20) {
		case 0, 1, 2, 3, 4:
			n := pickBurst(r)
			h.run(fmt.Sprintf("%s stall x%d at %s", tag, n, h.clockStr()), n, 0)
		case 5, 6, 7:
			n := 1 + r.Intn(40)
			d := []int64{1, 1000, msNs - 1, msNs, msNs + 1, 2 * msNs, 1 + r.Int63n(5*msNs), msNs / 4}[r.Intn(8)]
			from := h.clockStr()
			h.run(fmt.Sprintf("%s tick x%d from %s by %dns per call", tag, n, from, d), n, d)
		case 8, 9, 10, 11:
			d := pickBackNs(r)
			h.setClock(h.clock - d)
			k.Count("hard_backward_jumps", 1)
			if d > 60*1000*msNs {
				k.Count("hard_backward_jump_over_1min", 1)
			}
			n := 1 + r.Intn(8)
			if r.Intn(6) == 0 {
				n = pickBurst(r)
			}
			h.run(fmt.Sprintf("%s clock back %dns to %s, x%d", tag, d, h.clockStr(), n), n, 0)
		case 12, 13:
			d := pickFwdNs(r)
			h.setClock(h.clock + d)
			k.Count("hard_forward_jumps", 1)
			n := 1 + r.Intn(4)
			h.run(fmt.Sprintf("%s clock forward %dns to %s, x%d", tag, d, h.clockStr(), n), n, 0)
		case 14, 15:
			// exactly at / next to the last issued millisecond
			off := []int64{0, 0, 1, -1, 2}[r.Intn(5)]
			tgt := h.lastT + off
			if tgt < loRel {
				tgt = loRel
			}
			h.setRel(tgt, pickSub(r))
			n := 1 + r.Intn(12)
			d := []int64{0, 0, msNs, 2 * msNs}[r.Intn(4)]
			at := h.clockStr()
			h.run(fmt.Sprintf("%s clock set to last issued ms%+d = %s, x%d moving %dns per call", tag, off, at, n, d), n, d)
		case 16:
			// run the step counter to exactly 4095 with the clock not past the last ms
			if h.relMs() > h.lastT {
				h.setRel(h.lastT-int64(r.Intn(3)), pickSub(r))
				if h.relMs() < loRel {
					h.setRel(loRel, 0)
				}
			}
			n := int(stepMax - h.lastS)
			if h.relMs() > h.lastT || n > h.budget-h.calls-4 {
				continue
			}
			h.run(fmt.Sprintf("%s run step counter to 4095: x%d at %s", tag, n, h.clockStr()), n, 0)
			if h.lastS == stepMax {
				k.Count("hard_step_at_4095", 1)
			}
			if r.Intn(2) == 0 && h.havePrev && !h.failed {
				k.Logf("%s restart: NewNode(%d, %s)", tag, node, fields(h.prev))
				k.Count("hard_restarts", 1)
				k.Count("hard_restart_clock_not_past", 1)
				if !h.restart(h.prev) {
					return
				}
			}
			n = 1 + r.Intn(3)
			h.run(fmt.Sprintf("%s then x%d", tag, n), n, 0)
		default:
			// restart with the last id issued
			if !h.havePrev {
				continue
			}
			move := ""
			switch r.Intn(5) {
			case 0:
				d := pickBackNs(r)
				h.setClock(h.clock - d)
				k.Count("hard_backward_jumps", 1)
				if d > 60*1000*msNs {
					k.Count("hard_backward_jump_over_1min", 1)
				}
				move = fmt.Sprintf(" after clock back %dns to %s", d, h.clockStr())
			case 1:
				d := pickFwdNs(r)
				h.setClock(h.clock + d)
				move = fmt.Sprintf(" after clock forward %dns to %s", d, h.clockStr())
			case 2:
				h.setRel(h.lastT, pickSub(r))
				move = fmt.Sprintf(" with clock at the seed's ms %s", h.clockStr())
			}
			k.Logf("%s restart%s: NewNode(%d, %s)", tag, move, node, fields(h.prev))
			k.Count("hard_restarts", 1)
			if h.relMs() <= h.lastT {
				k.Count("hard_restart_clock_not_past", 1)
			}
			if !h.restart(h.prev) {
				return
			}
			n := 1 + r.Intn(6)
			h.run(fmt.Sprintf("%s x%d at %s", tag, n, h.clockStr()), n, 0)
		}
	}
	k.Count("hard_ids", int64(h.calls))
	k.Count("hard_clock_reads", h.reads)
	k.C.Max("hard_step_wraps_in_one_case", int64(h.wrapsInCase))
	if h.stalled {
		k.Nontrivial()
	}
}

func seedStr(seed int64) string {
	if seed == 0 {
		return "0 (fresh)"
	}
	return fields(seed)
}

// ---------------------------------------------------------------- HardNode, many callers

func hardConcCase(k *engine.Case) {
	r := k.R
	l := pickLayout(r)
	node := pickNode(r, l)
	restoreCfg := snowflake.VerifSetConfig(l.epoch, l.nb, l.low)
	defer restoreCfg()

	g := 8 + r.Intn(9)
	per := (5000 + r.Intn(9000)) / g
	procs := []int{2, 4, 8, 16}[r.Intn(4)]
	mode := []string{"frozen", "slow", "slow", "fast", "jumpy"}[r.Intn(5)]
	total := int64(g * per)
	// the largest advance one call may make, by mode
	var maxAdv int64
	switch mode {
	case "slow":
		maxAdv = msNs
	case "fast":
		maxAdv = 2 * msNs
	case "jumpy":
		maxAdv = 5000 * msNs
	}
	margin := total + 16 + total*maxAdv/msNs
	hiRel := l.maxTime()
	if unixMsMax-l.epoch < hiRel {
		hiRel = unixMsMax - l.epoch
	}
	hiRel -= margin
	var rel int64
	switch r.Intn(4) {
	case 0:
		rel = hiRel - r.Int63n(1000)
	case 1:
		rel = int64(r.Intn(5))
	default:
		rel = r.Int63n(hiRel + 1)
	}
	var clk atomic.Int64
	clk.Store((l.epoch+rel)*msNs + pickSub(r))
	seed := int64(0)
	if r.Intn(2) == 0 {
		t0 := rel + []int64{0, -1, 1, 5, 600000, -1000}[r.Intn(6)]
		if t0 < 0 {
			t0 = 0
		}
		if t0 > hiRel {
			t0 = hiRel
		}
		s0 := []int64{1, stepMax, stepMax - 3, r.Int63n(stepMax + 1)}[r.Intn(4)]
		if t0 == 0 && s0 == 0 {
			s0 = 1
		}
		seed = l.compose(t0, node, s0)
	}
	gseeds := make([]uint64, g)
	for i := range gseeds {
		gseeds[i] = uint64(r.Int63()) | 1
	}
	desc := fmt.Sprintf("HardNode concurrent %s node=%d goroutines=%d calls/goroutine=%d gomaxprocs=%d clock=%s start=epoch+%dms NewNode(%d, %s)",
		l, node, g, per, procs, mode, rel, node, seedStr(seed))
	k.Logf("%s", desc)
	k.Nontrivial()
	k.Distinct(engine.HashStr(desc))
	countLayout(k, "hard_conc", l)

	n, err := snowflake.NewNode(node, seed)
	if err != nil {
		k.Logf("NewNode(%d, %d) failed: %v", node, seed, err)
		k.Inconclusive("NewNode refused a node number inside the configured width")
		return
	}
	restoreNow := snowflake.VerifSetNow(func() time.Time { return time.Unix(0, clk.Load()) })
	defer restoreNow()
	old := runtime.GOMAXPROCS(procs)
	defer runtime.GOMAXPROCS(old)

	var lc logicalClock
	recs := make([][]rec, g)
	start := make(chan struct{})
	var wg sync.WaitGroup
	for w := 0; w < g; w++ {
		w := w
		recs[w] = make([]rec, 0, per)
		wg.Add(1)
		go func() {
			defer wg.Done()
			x := xorshift(gseeds[w])
			out := recs[w]
			<-start
			for i := 0; i < per; i++ {
				v := x.next()
				if v&3 == 0 {
					runtime.Gosched()
				}
				switch mode {
				case "slow":
					if (v>>8)%1500 == 0 {
						clk.Add(int64((v >> 24) % (msNs + 1)))
					}
				case "fast":
					clk.Add(int64((v >> 24) % (2*msNs + 1)))
				case "jumpy":
					if (v>>8)%400 == 0 {
						clk.Add(int64((v >> 24) % (5000*msNs + 1)))
					}
				}
				reading := clk.Load()
				c := lc.tick()
				id := n.Generate()
				rt := lc.tick()
				out = append(out, rec{call: c, ret: rt, id: id, reading: reading, g: int32(w)})
			}
			recs[w] = out
		}()
	}
	close(start)
	wg.Wait()

	k.Evals(total)
	k.Count("hard_conc_rounds", 1)
	k.Count("hard_conc_ids", total)
	k.Count("hard_conc_"+mode+"_clock_rounds", 1)
	var carries int64
	bad := false
	for _, rs := range recs {
		for _, rc := range rs {
			t, nd, s := snowflake.IDFields(rc.id)
			nowRel := floorDiv(rc.reading, msNs) - l.epoch
			if s == 0 && t > nowRel && mode == "frozen" {
				carries++
			}
			if bad {
				continue
			}
			if nd != node {
				k.Fail("hard/node-field", "%s node=%d: concurrent call returned %s whose node field is %d", l, node, fields(rc.id), nd)
				bad = true
			}
			if t < nowRel {
				k.Fail("hard/timestamp-behind-clock", "%s node=%d: goroutine %d read the clock at epoch+%dms before calling and got %s, stamped %d ms earlier",
					l, node, rc.g, nowRel, fields(rc.id), nowRel-t)
				bad = true
			}
			if seed != 0 && rc.id <= seed {
				k.Fail("hard/restart-not-above-seed", "%s node=%d: NewNode(node, %s) later returned %s, not above the seed", l, node, fields(seed), fields(rc.id))
				bad = true
			}
		}
	}
	k.Count("hard_conc_carry_ids_frozen_clock", carries)
	ov := checkCounter(k, "hard", fields, recs, lc.v.Load())
	k.Count("hard_conc_calls_invoked_during_another", ov)
	k.Logf("  %d ids, %d calls invoked while another was in flight, %d carries seen under the frozen clock", total, ov, carries)
}

// Package c07 monitors the snowflake id codec of neptune (idgen/snowflake): field
// split/recombination, id order, the 24-character date form and the id intervals
// computed for time intervals, under every layout (node bits 8/9/10, node position,
// epoch).
//
// The oracle never uses the shifts of the code under test: ids are built and taken
// apart with multiplication / division / math/big, instants with the standard time
// package in a fixed UTC+8 zone.
package c07

import (
	"os"
	"fmt"
	"math"
	"math/big"
	"math/bits"
	"math/rand"
	"strings"
	"sync"
	"time"
	_ "time/tzdata" // zones with daylight saving, whatever the machine has installed

	"verifh/engine"

	"github.com/pinealctx/neptune/idgen/snowflake"
)

// Prop is the C07 check.
var Prop = &engine.Prop{
	ID:    "C07",
	Level: "exploration",
	Rule: "every case fixes one layout (node bits 8/9/10, node lowest or not, epoch 2000..2030 or a late epoch up to 2200; set through the verif hook or through the public Setup options) " +
		"and evaluates a seed-generated batch: ids = (timestamp, low bits) with timestamps uniform over the configured width plus boundary bias (0, 1, 2^k, width end, year and day boundaries of UTC+8, " +
		"millisecond 000/999, the int64-nanosecond limit 2262-04-11) and low bits uniform / all zeros / all ones / single bits / decimal-digit edges; id pairs for the order clause; " +
		"(begin,end) instants with probe ids on and next to the interval ends for the range clause. " +
		"An id is non-trivial when both its timestamp and its low bits are non-zero, a pair when the two ids differ, a range probe when the statement prescribes its membership; " +
		"distinct = distinct (layout, input) tuples",
	Assumptions: []string{
		"Go's time package (time.Unix, time.Date, UnixMilli, fixed zones) and math/big are the trusted base of the oracle",
		"the Asia/Shanghai zone is UTC+8 without DST for every instant from 2000 on",
		"layout as documented in snowflake.go: timestamp above node+step; step lowest unless node-at-lowest is configured, then node lowest; a node field is nodeBits wide, a step field 12 bits wide",
		"epochs from 2000-01-01 up to 2200 (later epochs would need 5-digit years in the date form or overflow UseEpoch's own nanosecond arithmetic)",
		"range clause: only non-negative ids are probed; ids whose timestamp lies strictly inside the last endpoint's second (after its first millisecond) are not judged",
	},
	ShardsQuick: 4, ShardsThorough: 16,
	// the child processes run in a zone with daylight saving, chosen by the run's seed (so that a
	// replay runs in the same zone): nothing the property states depends on the process zone
	Setup: func(c *engine.Ctx) {
		zi := int(uint64(c.Seed) % uint64(len(dstZoneNames)))
		os.Setenv("TZ", dstZoneNames[zi])
		// (the time package reads TZ when the local zone is first used; nothing has used it yet)
		probe := time.Unix(1751328000, 0) // 2025-07-01
		if loc := dstZone(zi); loc != nil {
			_, want := probe.In(loc).Zone()
			if _, got := probe.In(time.Local).Zone(); got == want {
				c.Count("process_zone_"+dstZoneNames[zi], 1)
			} else {
				c.Count("process_zone_not_applied", 1)
			}
		}
	},
	Kinds: []engine.Kind{
		// must stay first: its first case in a process makes the first codec calls of that process
		{Name: "cold-start", Quick: 32, Thorough: 64, Fn: coldStartCase},
		{Name: "fields", Quick: 2000, Thorough: 600000, Fn: fieldsCase},
		{Name: "order", Quick: 800, Thorough: 240000, Fn: orderCase},
		{Name: "datestr", Quick: 2000, Thorough: 600000, Fn: dateCase},
		{Name: "range", Quick: 1600, Thorough: 480000, Fn: rangeCase},
		{Name: "conc", Quick: 60, Thorough: 3000, Fn: concCase},
	},
	Floors: map[string]int64{
		"cases_nodebits_8":             20,
		"cases_nodebits_9":             20,
		"cases_nodebits_10":            20,
		"cases_node_at_lowest":         50,
		"cases_step_at_lowest":         50,
		"cases_config_via_Setup":       50,
		"cases_epoch_late":             10,
		"fields_ids":                   5000,
		"fields_ts_width_end":          10,
		"order_pairs":                  2000,
		"order_pairs_same_ts":          200,
		"order_pairs_adjacent_ts":      200,
		"datestr_ids":                  5000,
		"datestr_ids_after_nano_limit": 200,
		"datestr_ids_year_boundary":    200,
		"datestr_low_7_digits":         500,
		"range_intervals":              1000,
		"range_probe_must_contain":     5000,
		"range_probe_must_exclude":     5000,
		"range_begin_eq_end":           50,
		"single_probe_must_contain":    1000,
		"single_probe_must_exclude":    1000,
	},
}

const (
	stepBits     = 12
	defaultEpoch = int64(1609430400000)
	// last millisecond whose nanosecond count still fits an int64 (2262-04-11T23:47:16.854Z)
	nanoLimitMs = int64(math.MaxInt64 / 1000000)
	dayMs       = int64(86400000)
	firstYear   = 2000
	lastYear    = 2600
)

var (
	zone8    = time.FixedZone("UTC+8", 8*3600)
	zoneM5   = time.FixedZone("UTC-5", -5*3600)
	y2000    = time.Date(2000, 1, 1, 0, 0, 0, 0, time.UTC).UnixMilli()
	y2031    = time.Date(2031, 1, 1, 0, 0, 0, 0, time.UTC).UnixMilli()
	y2200    = time.Date(2200, 1, 1, 0, 0, 0, 0, time.UTC).UnixMilli()
	yearAt8  [lastYear - firstYear + 1]int64
	yearAtZ  [lastYear - firstYear + 1]int64
	tzErr    error
	decEdges = []int64{9, 10, 99999, 100000, 999999, 1000000, 1000001, 1048575, 1048576, 2097151, 2097152, 4194303}
)

func init() {
	for y := firstYear; y <= lastYear; y++ {
		yearAt8[y-firstYear] = time.Date(y, 1, 1, 0, 0, 0, 0, zone8).UnixMilli()
		yearAtZ[y-firstYear] = time.Date(y, 1, 1, 0, 0, 0, 0, time.UTC).UnixMilli()
	}
	_, tzErr = time.LoadLocation("Asia/Shanghai")
}

// ---------------------------------------------------------------- layout model

type cfg struct {
	epoch      int64
	bits       uint // node bits
	low        bool // node at lowest
	shift      uint // bits below the timestamp
	w          uint // timestamp width
	maxTs      int64
	pow        uint64 // 2^shift
	nodePow    uint64 // 2^bits
	via        string
	epochClass string
}

func b2u(b bool) uint64 {
	if b {
		return 1
	}
	return 0
}

func mix(h, v uint64) uint64 {
	h ^= v
	h *= 0x9e3779b97f4a7c15
	h ^= h >> 29
	h *= 0xbf58476d1ce4e5b9
	h ^= h >> 32
	return h
}

func (c *cfg) hash(tag uint64) uint64 {
	return mix(mix(tag, uint64(c.epoch)), uint64(c.bits)<<1|b2u(c.low))
}

// split takes an id apart by division (independent of the shifts under test).
func (c *cfg) split(id int64) (ts, node, step, rest uint64) {
	u := uint64(id)
	ts = u / c.pow
	rest = u % c.pow
	if c.low {
		node = rest % c.nodePow
		step = rest / c.nodePow
	} else {
		step = rest % (1 << stepBits)
		node = rest / (1 << stepBits)
	}
	return
}

// restOf is the integer value of the bits below the timestamp for the given fields.
func (c *cfg) restOf(node, step *big.Int) *big.Int {
	r := new(big.Int)
	if c.low {
		r.Mul(step, new(big.Int).SetUint64(c.nodePow))
		r.Add(r, node)
	} else {
		r.Mul(node, big.NewInt(1<<stepBits))
		r.Add(r, step)
	}
	return r
}

// compose builds the id of (ts, low) by multiplication; ok=false if it leaves [0, 2^63).
func (c *cfg) compose(ts, low int64) (int64, bool) {
	if ts < 0 || low < 0 || uint64(low) >= c.pow {
		return 0, false
	}
	hi, lo := bits.Mul64(uint64(ts), c.pow)
	if hi != 0 {
		return 0, false
	}
	s, carry := bits.Add64(lo, uint64(low), 0)
	if carry != 0 || s > math.MaxInt64 {
		return 0, false
	}
	return int64(s), true
}

func (c *cfg) String() string {
	pos := "step-lowest"
	if c.low {
		pos = "node-lowest"
	}
	return fmt.Sprintf("epoch=%d(%s) nodeBits=%d %s tsWidth=%d set-via=%s",
		c.epoch, time.UnixMilli(c.epoch).UTC().Format("2006-01-02T15:04:05.000Z"), c.bits, pos, c.w, c.via)
}

func genCfg(r *rand.Rand) *cfg {
	c := &cfg{}
	c.bits = uint(8 + r.Intn(3))
	c.low = r.Intn(2) == 0
	switch r.Intn(10) {
	case 0:
		c.epoch, c.epochClass = y2000, "y2000"
	case 1:
		c.epoch, c.epochClass = defaultEpoch, "default"
	case 2:
		c.epoch, c.epochClass = y2031+r.Int63n(y2200-y2031), "late"
	case 3:
		c.epoch, c.epochClass = y2000+r.Int63n((y2031-y2000)/1000)*1000, "second_aligned"
	default:
		c.epoch, c.epochClass = y2000+r.Int63n(y2031-y2000), "uniform_ms"
	}
	c.shift = c.bits + stepBits
	c.w = 63 - c.shift
	c.maxTs = int64(1)<<c.w - 1
	c.pow = uint64(1) << c.shift
	c.nodePow = uint64(1) << c.bits
	if r.Intn(2) == 0 {
		c.via = "Setup"
	} else {
		c.via = "hook"
	}
	return c
}

// apply installs the layout and returns the function that restores the previous one.
func (c *cfg) apply(r *rand.Rand) (restore func()) {
	if c.via == "hook" {
		return snowflake.VerifSetConfig(c.epoch, uint8(c.bits), c.low)
	}
	// public path: Setup cannot clear node-at-lowest, so start from a step-lowest base
	restore = snowflake.VerifSetConfig(defaultEpoch, 10, false)
	et := time.UnixMilli(c.epoch)
	switch r.Intn(3) {
	case 0:
		et = et.UTC()
	case 1:
		et = et.In(zone8)
	}
	opts := []snowflake.Option{snowflake.UseEpoch(et), snowflake.UseNodeMode(snowflake.NodeBitsMode(c.bits))}
	if c.low {
		opts = append(opts, snowflake.NodeAtLowest())
	}
	if r.Intn(2) == 0 { // option order must not matter
		opts[0], opts[len(opts)-1] = opts[len(opts)-1], opts[0]
	}
	snowflake.Setup(opts...)
	return restore
}

// ---------------------------------------------------------------- generators

func smallDelta(r *rand.Rand) int64 {
	switch r.Intn(10) {
	case 0:
		return -1000
	case 1:
		return -2
	case 2, 3:
		return -1
	case 4, 5:
		return 0
	case 6:
		return 1
	case 7:
		return 999
	case 8:
		return 1000
	}
	return r.Int63n(4001) - 2000
}

func yearOf(abs int64) int { return time.UnixMilli(abs).In(zone8).Year() }

// genTs returns a timestamp field value in [0, maxTs] and the class it was drawn from.
func genTs(r *rand.Rand, c *cfg) (int64, string) {
	max := c.maxTs
	in := func(abs int64) (int64, bool) { ts := abs - c.epoch; return ts, ts >= 0 && ts <= max }
	switch r.Intn(16) {
	case 0:
		e := []int64{0, 1, 2, 999, 1000, 1001, max, max - 1, max - 999, max - 1000}
		return e[r.Intn(len(e))], "edge"
	case 1:
		p := uint(r.Intn(int(c.w) + 1))
		v := int64(1)<<p + int64(r.Intn(3)) - 1
		if v < 0 {
			v = 0
		}
		if v > max {
			v = max
		}
		return v, "pow2"
	case 2, 3:
		first, last := yearOf(c.epoch)+1, yearOf(c.epoch+max)
		if last > lastYear {
			last = lastYear
		}
		if last >= first {
			y := first + r.Intn(last-first+1)
			base := yearAt8[y-firstYear]
			if r.Intn(4) == 0 {
				base = yearAtZ[y-firstYear]
			}
			if ts, ok := in(base + smallDelta(r)); ok {
				return ts, "year_boundary"
			}
		}
	case 4, 5:
		var d int64
		switch r.Intn(7) {
		case 0:
			d = -1
		case 1:
			d = 0
		case 2:
			d = 1
		case 3:
			d = r.Int63n(2001) - 1000
		case 4:
			d = r.Int63n(20000001) - 10000000
		case 5:
			d = r.Int63n(dayMs * 366)
		case 6:
			d = -854 + 1000*int64(r.Intn(3)) // the second boundaries next to the limit (…036.000, …037.000, …038.000)
		}
		if ts, ok := in(nanoLimitMs + d); ok {
			return ts, "nano_limit"
		}
	case 6:
		abs := c.epoch + r.Int63n(max+1)
		abs -= abs % 1000
		abs += []int64{0, 1, 500, 999}[r.Intn(4)]
		if ts, ok := in(abs); ok {
			return ts, "ms_edge"
		}
	case 7:
		abs8 := c.epoch + r.Int63n(max+1) + 8*3600*1000
		abs8 -= abs8 % dayMs
		if ts, ok := in(abs8 - 8*3600*1000 + smallDelta(r)); ok {
			return ts, "day_boundary"
		}
	case 8, 9:
		// in or next to the hour that a zone with daylight saving repeats when it sets its clocks
		// back (the process may run in such a zone; neptune's own zone has no such hour)
		zi := r.Intn(len(dstZoneNames))
		y0, y1 := yearOf(c.epoch)+1, yearOf(c.epoch+max)-1
		if y1 > 2100 {
			y1 = 2100
		}
		if y1 >= y0 {
			if fb := fallbackOf(zi, y0+r.Intn(y1-y0+1)); fb != 0 {
				d := r.Int63n(2*3600*1000+1) - 3600*1000
				if ts, ok := in(fb + d); ok {
					return ts, "dst_fall_back_hour"
				}
			}
		}
	}
	return r.Int63n(max + 1), "uniform"
}

// genLow returns a value for the bits below the timestamp.
func genLow(r *rand.Rand, c *cfg) (int64, string) {
	mask := int64(c.pow - 1)
	switch r.Intn(12) {
	case 0:
		return 0, "zero"
	case 1:
		return mask, "ones"
	case 2:
		return int64(1) << uint(r.Intn(int(c.shift))), "single_bit"
	case 3: // node all ones, step zero
		if c.low {
			return int64(c.nodePow - 1), "node_ones"
		}
		return int64(c.nodePow-1) << stepBits, "node_ones"
	case 4: // step all ones, node zero
		if c.low {
			return int64(1<<stepBits-1) << c.bits, "step_ones"
		}
		return 1<<stepBits - 1, "step_ones"
	case 5:
		return decEdges[r.Intn(len(decEdges))] & mask, "decimal_edge"
	}
	return r.Int63n(int64(c.pow)), "uniform"
}

const maxRaisedPerClass = 3

// raised counts the violations handed to the engine per class in this process.
var raised = map[string]int{}

type run struct {
	k      *engine.Case
	c      *cfg
	tally  map[string]int64
	failed map[string]bool
	zone   *time.Location // when set, mkTime presents every instant in this zone
}

func start(k *engine.Case) (*run, func()) {
	if tzErr != nil {
		k.Inconclusive("zone Asia/Shanghai cannot be loaded on this machine (neptune's timeLoc is nil): " + tzErr.Error())
		return nil, func() {}
	}
	c := genCfg(k.R)
	restore := c.apply(k.R)
	u := &run{k: k, c: c, tally: map[string]int64{}, failed: map[string]bool{}}
	k.Logf("layout %s", c)
	u.tally[fmt.Sprintf("cases_nodebits_%d", c.bits)]++
	if c.low {
		u.tally["cases_node_at_lowest"]++
	} else {
		u.tally["cases_step_at_lowest"]++
	}
	u.tally["cases_config_via_"+c.via]++
	u.tally["cases_epoch_"+c.epochClass]++
	return u, func() {
		restore()
		for n, v := range u.tally {
			k.Count(n, v)
		}
	}
}

// fail raises one violation per class and case (further ones are only counted).
func (u *run) fail(class, format string, a ...any) {
	u.tally["bad_"+class]++
	if u.failed[class] {
		return
	}
	u.failed[class] = true
	// The engine keeps at most 40 violations per child; leave room for every class
	// (all occurrences are still counted in bad_<class>). A replay runs in a fresh
	// process, so a recorded case always reproduces.
	if raised[class] >= maxRaisedPerClass {
		return
	}
	raised[class]++
	u.k.Fail(class, "[%s] "+format, append([]any{u.c.String()}, a...)...)
}

func (u *run) genID(prefix string) (id, ts, low int64) {
	var tc, lc string
	ts, tc = genTs(u.k.R, u.c)
	low, lc = genLow(u.k.R, u.c)
	var ok bool
	id, ok = u.c.compose(ts, low)
	if !ok {
		panic(fmt.Sprintf("harness bug: compose(%d,%d) left the id domain", ts, low))
	}
	u.tally[prefix+"_ts_"+tc]++
	u.tally[prefix+"_low_"+lc]++
	if ts == u.c.maxTs {
		u.tally[prefix+"_ts_width_end"]++
	}
	if tc == "year_boundary" {
		u.tally[prefix+"_ids_year_boundary"]++
	}
	if u.c.epoch+ts > nanoLimitMs {
		u.tally[prefix+"_ids_after_nano_limit"]++
	}
	return
}

func utc(ms int64) string { return time.UnixMilli(ms).UTC().Format("2006-01-02T15:04:05.000Z") }

// ---------------------------------------------------------------- kind: fields

const batch = 64

func fieldsCase(k *engine.Case) {
	u, done := start(k)
	defer done()
	if u == nil {
		return
	}
	c := u.c
	bigID, sum, t1 := new(big.Int), new(big.Int), new(big.Int)
	for i := 0; i < batch; i++ {
		id, ts, low := u.genID("fields")
		_, wn, ws, _ := c.split(id)
		tsF, node, step := snowflake.IDFields(id)
		pMs, pNode, pStep := snowflake.IDParse(id)
		xT, xNode, xStep := snowflake.IDParseEx(id)
		k.Logf("id=%d (ts=%d low=%d, %s) IDFields=(%d,%d,%d) IDParse=(%d,%d,%d) IDParseEx=(%s,%d,%d)",
			id, ts, low, utc(c.epoch+ts), tsF, node, step, pMs, pNode, pStep, xT.UTC().Format("2006-01-02T15:04:05.000000000Z"), xNode, xStep)
		k.Evals(1)
		u.tally["fields_ids"]++
		if ts != 0 && low != 0 {
			k.Nontrivial()
			k.Distinct(mix(c.hash(1), uint64(id)))
		}
		// fields are non-negative and fit their configured widths
		if tsF < 0 || node < 0 || step < 0 || uint64(node) >= c.nodePow || step >= 1<<stepBits || tsF > c.maxTs {
			u.fail("field-out-of-width", "IDFields(%d) = (ts %d, node %d, step %d): a field is negative or wider than configured (node < %d, step < 4096)",
				id, tsF, node, step, c.nodePow)
		}
		// recombination (math/big: no overflow, no shifts of the code under test)
		bigID.SetInt64(id)
		sum.Mul(big.NewInt(tsF), t1.SetUint64(c.pow))
		sum.Add(sum, c.restOf(big.NewInt(node), big.NewInt(step)))
		if sum.Cmp(bigID) != 0 {
			u.fail("recombine-mismatch", "IDFields(%d) = (ts %d, node %d, step %d) recombines to %s, expected fields (ts %d, node %d, step %d)",
				id, tsF, node, step, sum.String(), ts, wn, ws)
		} else {
			u.tally["fields_recombine_ok"]++
		}
		// IDParse = same split with the epoch added
		if pMs != c.epoch+ts || uint64(pNode) != wn || uint64(pStep) != ws || pNode < 0 || pStep < 0 {
			u.fail("parse-mismatch", "IDParse(%d) = (ms %d, node %d, step %d), expected (epoch+ts = %d, node %d, step %d)",
				id, pMs, pNode, pStep, c.epoch+ts, wn, ws)
		} else {
			u.tally["fields_parse_ok"]++
		}
		// IDParseEx = the instant epoch+ts
		want := time.UnixMilli(c.epoch + ts)
		if !xT.Equal(want) || uint64(xNode) != wn || uint64(xStep) != ws || xNode < 0 || xStep < 0 {
			u.fail("parseex-mismatch", "IDParseEx(%d) = (%s, node %d, step %d), expected instant %s (epoch+ts = %d ms), node %d, step %d",
				id, xT.UTC().Format(time.RFC3339Nano), xNode, xStep, want.UTC().Format(time.RFC3339Nano), c.epoch+ts, wn, ws)
		} else {
			u.tally["fields_parseex_ok"]++
		}
	}
}

// ---------------------------------------------------------------- kind: order

func cmpI(a, b int64) int {
	switch {
	case a < b:
		return -1
	case a > b:
		return 1
	}
	return 0
}

func orderCase(k *engine.Case) {
	u, done := start(k)
	defer done()
	if u == nil {
		return
	}
	c, r := u.c, k.R
	mask := int64(c.pow - 1)
	for i := 0; i < batch; i++ {
		a, ts, low := u.genID("order")
		var b int64
		var cls string
		mk := func(t, l int64) int64 {
			if t < 0 {
				t = 0
			}
			if t > c.maxTs {
				t = c.maxTs
			}
			v, ok := c.compose(t, l&mask)
			if !ok {
				panic("harness bug: compose")
			}
			return v
		}
		switch r.Intn(9) {
		case 0:
			b, cls = a, "equal"
		case 1:
			l2, _ := genLow(r, c)
			b, cls = mk(ts, l2), "same_ts"
		case 2:
			b, cls = mk(ts, low^(int64(1)<<uint(r.Intn(int(c.shift))))), "same_ts"
		case 3: // node and step pull in opposite directions
			_, n, s, _ := c.split(a)
			n2, s2 := (n+1)%c.nodePow, (s+uint64(1<<stepBits)-1)%(1<<stepBits)
			var l2 uint64
			if c.low {
				l2 = s2*c.nodePow + n2
			} else {
				l2 = n2*(1<<stepBits) + s2
			}
			b, cls = mk(ts, int64(l2)), "same_ts"
		case 4:
			b, cls = mk(ts+1, 0), "adjacent_ts"
			a = mk(ts, mask)
			if ts == c.maxTs {
				cls = "same_ts"
			}
		case 5:
			l2, _ := genLow(r, c)
			d := int64(1)
			if r.Intn(2) == 0 {
				d = -1
			}
			b, cls = mk(ts+d, l2), "adjacent_ts"
			if ts+d < 0 || ts+d > c.maxTs {
				cls = "same_ts"
			}
		case 6:
			b, cls = mk(ts^(int64(1)<<uint(r.Intn(int(c.w)))), low), "ts_one_bit"
		default:
			b, _, _ = u.genID("order")
			cls = "independent"
		}
		if r.Intn(2) == 0 {
			a, b = b, a
		}
		ta, na, sa := snowflake.IDFields(a)
		tb, nb, sb := snowflake.IDFields(b)
		ra := c.restOf(big.NewInt(na), big.NewInt(sa))
		rb := c.restOf(big.NewInt(nb), big.NewInt(sb))
		want := cmpI(ta, tb)
		if want == 0 {
			want = ra.Cmp(rb)
		}
		got := cmpI(a, b)
		k.Logf("a=%d b=%d (%s) IDFields(a)=(%d,%d,%d) rest=%s IDFields(b)=(%d,%d,%d) rest=%s  cmp(a,b)=%d cmp(pairs)=%d",
			a, b, cls, ta, na, sa, ra, tb, nb, sb, rb, got, want)
		k.Evals(1)
		u.tally["order_pairs"]++
		u.tally["order_pairs_"+cls]++
		if a != b {
			k.Nontrivial()
			k.Distinct(mix(mix(c.hash(2), uint64(a)), uint64(b)))
		}
		if got != want {
			u.fail("order-mismatch", "ids %d and %d compare %d but their (timestamp, remaining bits) pairs (%d,%s) and (%d,%s) compare %d",
				a, b, got, ta, ra, tb, rb, want)
		} else {
			u.tally["order_ok"]++
		}
	}
}

// ---------------------------------------------------------------- kind: datestr

func dateCase(k *engine.Case) {
	u, done := start(k)
	defer done()
	if u == nil {
		return
	}
	c := u.c
	// date strings are values: a string returned earlier is kept (not copied) while later
	// calls run and must still read the same and convert back to its own id
	type heldStr struct {
		s, copy string
		id      int64
	}
	var held []heldStr
	defer func() {
		for _, h := range held {
			k.Evals(1)
			u.tally["datestr_retained_checked"]++
			if h.s != h.copy {
				u.fail("datestr-retained-changed", "the string CnStyle(%d) returned read %q when it was returned and reads %q after later CnStyle calls", h.id, h.copy, h.s)
				return
			}
			if back, err := snowflake.FromChStyle(h.s); err != nil || back != h.id {
				u.fail("datestr-retained-changed", "the string %q returned by CnStyle(%d) earlier now converts to (%d, %v)", h.s, h.id, back, err)
				return
			}
		}
	}()
	for i := 0; i < batch; i++ {
		id, ts, low := u.genID("datestr")
		s := snowflake.CnStyle(id)
		if len(held) < 8 {
			held = append(held, heldStr{s: s, copy: strings.Clone(s), id: id})
		}
		back, err := snowflake.FromChStyle(s)
		k.Logf("id=%d (ts=%d low=%d, %s) CnStyle=%q FromChStyle=(%d,%v)", id, ts, low, utc(c.epoch+ts), s, back, err)
		k.Evals(1)
		u.tally["datestr_ids"]++
		if low >= 1000000 {
			u.tally["datestr_low_7_digits"]++
		}
		if ts != 0 && low != 0 {
			k.Nontrivial()
			k.Distinct(mix(c.hash(3), uint64(id)))
		}
		if len(s) != snowflake.TimeStrLen || snowflake.TimeStrLen != 24 {
			u.fail("datestr-length", "CnStyle(%d) = %q has %d characters, not 24", id, s, len(s))
			continue
		}
		// observation only (not part of the statement): is the text the UTC+8 calendar reading?
		t := time.UnixMilli(c.epoch + ts).In(zone8)
		if s == t.Format("20060102150405")+fmt.Sprintf("%03d%07d", t.Nanosecond()/1000000, low) {
			u.tally["datestr_text_is_utc8_calendar_plus_low_bits"]++
		} else {
			u.tally["datestr_text_other_form_not_judged"]++
		}
		if err != nil {
			u.fail("datestr-parse-error", "FromChStyle(CnStyle(%d) = %q) failed: %v", id, s, err)
			continue
		}
		if back != id {
			bt, _, _, bl := c.split(back)
			u.fail("datestr-roundtrip-mismatch", "id %d (ts %d = %s, low %d) prints as %q and parses back to %d (ts %d, low %d)",
				id, ts, utc(c.epoch+ts), low, s, back, bt, bl)
			continue
		}
		u.tally["datestr_roundtrip_ok"]++
	}
}

// ---------------------------------------------------------------- kind: range

type probe struct {
	ts, low int64
	why     string
}

// zones with daylight saving (the repeated hour after the fall-back is where wall-clock
// arithmetic on an instant goes wrong); Lord Howe shifts by 30 minutes.
var dstZoneNames = []string{"America/New_York", "Europe/Berlin", "Australia/Lord_Howe", "America/Santiago", "Europe/London"}

var (
	dstMu    sync.Mutex
	dstZones []*time.Location
	fallback = map[[2]int]int64{} // (zone index, year) -> unix ms of the fall-back instant, 0 = none
)

func dstZone(i int) *time.Location {
	dstMu.Lock()
	defer dstMu.Unlock()
	if dstZones == nil {
		for _, n := range dstZoneNames {
			l, err := time.LoadLocation(n)
			if err != nil {
				l = nil
			}
			dstZones = append(dstZones, l)
		}
	}
	return dstZones[i]
}

// fallbackOf returns the instant (unix ms) at which zone zi sets its clocks back in year y.
func fallbackOf(zi, y int) int64 {
	loc := dstZone(zi)
	if loc == nil {
		return 0
	}
	dstMu.Lock()
	defer dstMu.Unlock()
	if v, ok := fallback[[2]int{zi, y}]; ok {
		return v
	}
	var found int64
	t := time.Date(y, 1, 1, 0, 0, 0, 0, time.UTC)
	_, prev := t.In(loc).Zone()
	for h := 0; h < 366*24; h++ {
		t = t.Add(time.Hour)
		_, off := t.In(loc).Zone()
		if off < prev {
			// the change lies in (t-1h, t]: bisect to the second
			lo, hi := t.Add(-time.Hour), t
			for hi.Sub(lo) > time.Second {
				mid := lo.Add(hi.Sub(lo) / 2).Truncate(time.Second)
				if _, o := mid.In(loc).Zone(); o < prev {
					hi = mid
				} else {
					lo = mid
				}
			}
			found = hi.UnixMilli()
			break
		}
		prev = off
	}
	fallback[[2]int{zi, y}] = found
	return found
}

func (u *run) mkTime(abs, ns int64) time.Time {
	t := time.Unix(abs/1000, (abs%1000)*1000000+ns)
	if u.zone != nil {
		return t.In(u.zone)
	}
	switch u.k.R.Intn(4) {
	case 0:
		return t.UTC()
	case 1:
		return t.In(zone8)
	case 2:
		return t.In(zoneM5)
	}
	return t
}

func genNs(r *rand.Rand) int64 {
	switch r.Intn(4) {
	case 0:
		return 0
	case 1:
		return 999999
	}
	return r.Int63n(1000000)
}

// probes builds ids on, inside, next to and far from the required interval
// [tb, te] (timestamp field values of the second-truncated endpoints; tb may be
// negative when the epoch is not second-aligned and begin lies in the epoch's second).
func (u *run) probes(tb, te int64, full bool) []probe {
	r, c := u.k.R, u.c
	mask := int64(c.pow - 1)
	rl := func() int64 { l, _ := genLow(r, c); return l }
	ps := []probe{
		{tb, 0, "first required id"},
		{te, mask, "last required id"},
		{tb - 1, mask, "last id before begin's second"},
		{te + 1000, 0, "first id of the second after end's second"},
		{tb, rl(), "begin's second, first ms"},
		{te, rl(), "end's second, first ms"},
		{te + 1 + r.Int63n(999), rl(), "inside end's second"},
	}
	if full {
		ps = append(ps,
			probe{tb, mask, "begin's second, first ms, low ones"},
			probe{te, 0, "end's second, first ms, low zero"},
			probe{tb - 1, rl(), "1 ms before begin's second"},
			probe{tb - 1 - r.Int63n(1000), rl(), "second before begin's second"},
			probe{te + 1000, rl(), "1 s after end's second"},
			probe{te + 1000 + r.Int63n(1000), rl(), "second after end's second"},
			probe{te + 1, 0, "end's second, second ms"},
			probe{te + 999, mask, "end's second, last ms"},
			probe{0, 0, "id 0"},
			probe{c.maxTs, mask, "largest id"},
		)
		if lo := maxI(tb, 0); te >= lo {
			ps = append(ps, probe{lo + r.Int63n(te-lo+1), rl(), "random inside"})
			ps = append(ps, probe{lo + r.Int63n(te-lo+1), rl(), "random inside"})
		}
		if tb > 0 {
			ps = append(ps, probe{r.Int63n(tb), rl(), "random before"})
		}
		if te+1000 <= c.maxTs {
			ps = append(ps, probe{te + 1000 + r.Int63n(c.maxTs-te-1000+1), rl(), "random after"})
		}
	}
	out := ps[:0]
	for _, p := range ps {
		if p.ts >= 0 && p.ts <= c.maxTs {
			out = append(out, p)
		}
	}
	return out
}

func maxI(a, b int64) int64 {
	if a > b {
		return a
	}
	return b
}

// judge checks the membership of every probe id in [min, max] against the statement.
func (u *run) judge(tag string, hb, he uint64, min, max, tb, te int64, ps []probe) {
	k, c := u.k, u.c
	for _, p := range ps {
		id, ok := c.compose(p.ts, p.low)
		if !ok {
			panic("harness bug: compose")
		}
		in := min <= id && id <= max
		req := "unspecified"
		switch {
		case p.ts >= tb && p.ts <= te:
			req = "in"
		case p.ts < tb || p.ts >= te+1000:
			req = "out"
		}
		k.Logf("    probe id=%d (ts=%d low=%d; %s) required=%s inside=%v", id, p.ts, p.low, p.why, req, in)
		switch req {
		case "in":
			u.tally[tag+"_probe_must_contain"]++
			if !in {
				u.fail(tag+"-excludes-required-id", "interval [%d,%d] for truncated timestamps [%d,%d] does not contain id %d (ts %d, low %d; %s)",
					min, max, tb, te, id, p.ts, p.low, p.why)
			}
		case "out":
			u.tally[tag+"_probe_must_exclude"]++
			if in {
				u.fail(tag+"-includes-foreign-id", "interval [%d,%d] for truncated timestamps [%d,%d] contains id %d (ts %d, low %d; %s)",
					min, max, tb, te, id, p.ts, p.low, p.why)
			}
		default:
			u.tally[tag+"_probe_unspecified_band_not_judged"]++
			if in {
				u.tally[tag+"_unspecified_band_observed_inside"]++
			} else {
				u.tally[tag+"_unspecified_band_observed_outside"]++
			}
			continue
		}
		k.Evals(1)
		k.Nontrivial()
		k.Distinct(mix(mix(mix(c.hash(4)+b2u(tag == "single"), hb), he), uint64(id)))
	}
}

func rangeCase(k *engine.Case) {
	u, done := start(k)
	defer done()
	if u == nil {
		return
	}
	c, r := u.c, k.R
	for i := 0; i < 5; i++ {
		bTs, bCls := genTs(r, c)
		if r.Intn(12) == 0 {
			bTs, bCls = r.Int63n(1000), "epoch_first_second"
		}
		u.zone = nil
		if r.Intn(5) == 0 {
			// an instant in or next to the repeated hour of a zone that sets its clocks back,
			// presented in that zone
			zi := r.Intn(len(dstZoneNames))
			y0, y1 := yearOf(c.epoch)+1, yearOf(c.epoch+c.maxTs)-1
			if y1 > 2100 {
				y1 = 2100
			}
			if y1 >= y0 {
				if fb := fallbackOf(zi, y0+r.Intn(y1-y0+1)); fb != 0 {
					d := r.Int63n(2*3600*1000+1) - 3600*1000
					if r.Intn(4) == 0 {
						d = []int64{0, -1, 1, -1000, 999, 3600*1000 - 1, 3600 * 1000, -3600 * 1000, 1800 * 1000}[r.Intn(9)]
					}
					if ts := fb + d - c.epoch; ts >= 0 && ts <= c.maxTs {
						bTs, bCls = ts, "dst_fall_back_hour"
						u.zone = dstZone(zi)
						u.tally["range_zone_"+dstZoneNames[zi]]++
					}
				}
			}
		}
		bNs := genNs(r)
		eTs, eNs := bTs, bNs
		var eCls string
		absB := c.epoch + bTs
		switch r.Intn(9) {
		case 0:
			eCls = "same_instant"
		case 1:
			eNs, eCls = bNs+r.Int63n(1000000-bNs), "same_ms"
		case 2:
			eTs, eNs, eCls = bTs+r.Int63n(1000-absB%1000), genNs(r), "same_second"
		case 3:
			eTs, eNs, eCls = bTs+r.Int63n(3001), genNs(r), "few_seconds"
		case 4:
			eTs, eNs, eCls = bTs+r.Int63n(dayMs*40), genNs(r), "days"
		case 5:
			eTs, eNs, eCls = bTs+r.Int63n(c.maxTs-bTs+1), genNs(r), "any"
		case 6:
			eTs, eNs, eCls = c.maxTs, genNs(r), "to_width_end"
		case 7:
			eTs, eNs, eCls = (absB/1000+1)*1000-c.epoch+[]int64{-1, 0, 999}[r.Intn(3)], genNs(r), "second_edge"
		case 8:
			eTs, eCls = bTs+1000*int64(r.Intn(5)), "whole_seconds"
		}
		if eTs > c.maxTs {
			eTs = c.maxTs
		}
		if eTs == bTs && eNs < bNs {
			eNs = bNs
		}
		absE := c.epoch + eTs
		begin, end := u.mkTime(absB, bNs), u.mkTime(absE, eNs)
		if end.Before(begin) {
			panic("harness bug: end before begin")
		}
		// timestamp field values of the second-truncated endpoints (all instants are after 1970)
		tb := absB/1000*1000 - c.epoch
		te := absE/1000*1000 - c.epoch
		u.tally["range_intervals"]++
		u.tally["range_begin_"+bCls]++
		u.tally["range_end_"+eCls]++
		if tb < 0 {
			u.tally["range_begin_second_starts_before_epoch"]++
		}
		if begin.Equal(end) {
			u.tally["range_begin_eq_end"]++
		}
		if absE > nanoLimitMs {
			u.tally["range_end_after_nano_limit"]++
		}
		hb, he := mix(uint64(absB), uint64(bNs)), mix(uint64(absE), uint64(eNs))

		min, max := snowflake.TimeBetweenID(begin, end)
		k.Logf("TimeBetweenID(begin=%s [epoch+%d ms +%d ns], end=%s [epoch+%d ms +%d ns]) = [%d, %d]; truncated ts fields [%d, %d] (%s/%s)",
			begin.Format(time.RFC3339Nano), bTs, bNs, end.Format(time.RFC3339Nano), eTs, eNs, min, max, tb, te, bCls, eCls)
		u.judge("range", hb, he, min, max, tb, te, u.probes(tb, te, true))

		// TimeIDRange(t) is the case begin = end = t
		t, tt, hh, abs, ns := begin, tb, hb, absB, bNs
		if r.Intn(2) == 0 {
			t, tt, hh, abs, ns = end, te, he, absE, eNs
		}
		smin, smax := snowflake.TimeIDRange(t)
		k.Logf("TimeIDRange(%s [epoch+%d ms +%d ns]) = [%d, %d]; truncated ts field %d", t.Format(time.RFC3339Nano), abs-c.epoch, ns, smin, smax, tt)
		u.tally["single_instants"]++
		u.judge("single", hh, hh, smin, smax, tt, tt, u.probes(tt, tt, false))
	}
}

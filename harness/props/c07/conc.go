package c07

import (
	"fmt"
	"runtime"
	"sync"
	"sync/atomic"
	"time"

	"verifh/engine"

	"github.com/pinealctx/neptune/idgen/snowflake"
)

// concCase: the codec functions are pure functions of their arguments (under one fixed
// configuration). Goroutines that convert their own ids at the same time must each get their
// own results: date string and back, fields, and the id range of an instant. Expected values
// are computed before the goroutines start. (A conversion that formats into package-level
// scratch space hands one caller another caller's digits.)
func concCase(k *engine.Case) {
	u, done := start(k)
	defer done()
	if u == nil {
		return
	}
	r := k.R
	old := runtime.GOMAXPROCS([]int{2, 4, 8, 16}[r.Intn(4)])
	defer runtime.GOMAXPROCS(old)
	workers := 4 + r.Intn(9)
	rounds := 300
	type one struct {
		id             int64
		str            string
		ts, node, step int64
		t              time.Time
		min, max       int64
	}
	jobs := make([][]one, workers)
	for w := range jobs {
		for i := 0; i < 6; i++ {
			id, ts, _ := u.genID("conc")
			o := one{id: id}
			// reference results from a single-goroutine call each (the sequential kinds check
			// those against the model; here only "same answer under concurrency" is judged)
			o.str = snowflake.CnStyle(id)
			o.ts, o.node, o.step = snowflake.IDFields(id)
			o.t = time.UnixMilli(u.c.epoch + ts)
			o.min, o.max = snowflake.TimeIDRange(o.t)
			jobs[w] = append(jobs[w], o)
		}
	}
	k.Logf("%d goroutines convert their own ids (CnStyle, FromChStyle, IDFields, TimeIDRange), %d rounds each", workers, rounds)
	k.Nontrivial()
	var mu sync.Mutex
	bad, first := 0, ""
	report := func(f string, a ...any) {
		mu.Lock()
		bad++
		if first == "" {
			first = fmt.Sprintf(f, a...)
		}
		mu.Unlock()
	}
	startCh := make(chan struct{})
	var wg sync.WaitGroup
	for w := range jobs {
		mine := jobs[w]
		wg.Add(1)
		go func() {
			defer wg.Done()
			defer func() {
				if p := recover(); p != nil {
					report("panic: %v", p)
				}
			}()
			<-startCh
			for n := 0; n < rounds; n++ {
				for _, o := range mine {
					if s := snowflake.CnStyle(o.id); s != o.str {
						report("CnStyle(%d) = %q, alone it gives %q", o.id, s, o.str)
						return
					}
					if back, err := snowflake.FromChStyle(o.str); err != nil || back != o.id {
						report("FromChStyle(%q) = (%d, %v), alone it gives %d", o.str, back, err, o.id)
						return
					}
					if ts, node, step := snowflake.IDFields(o.id); ts != o.ts || node != o.node || step != o.step {
						report("IDFields(%d) = (%d,%d,%d), alone it gives (%d,%d,%d)", o.id, ts, node, step, o.ts, o.node, o.step)
						return
					}
					if min, max := snowflake.TimeIDRange(o.t); min != o.min || max != o.max {
						report("TimeIDRange(%v) = [%d,%d], alone it gives [%d,%d]", o.t, min, max, o.min, o.max)
						return
					}
				}
			}
		}()
	}
	close(startCh)
	wg.Wait()
	k.Evals(int64(workers * rounds * 6 * 4))
	u.tally["conc_conversions"] += int64(workers * rounds * 6 * 4)
	if bad > 0 {
		u.fail("concurrent-conversion", "%d of %d goroutines converting their own ids got another answer than the same call gives alone; first: %s", bad, workers, first)
	}
}

var coldStartDone atomic.Bool

// coldStartCase is the first kind: its first case in every child process makes that process's
// first calls of the codec, from several goroutines at the same instant (whatever is set up
// lazily on first use must be ready for every caller); later cases repeat the burst warm.
func coldStartCase(k *engine.Case) {
	u, done := start(k)
	defer done()
	if u == nil {
		return
	}
	cold := coldStartDone.CompareAndSwap(false, true)
	if cold {
		u.tally["cold_start_bursts_in_fresh_process"]++
	} else {
		u.tally["cold_start_bursts_in_warm_process"]++
	}
	const g = 12
	ids := make([][]int64, g)
	for w := range ids {
		for i := 0; i < 4; i++ {
			id, _, _ := u.genID("cold")
			ids[w] = append(ids[w], id)
		}
	}
	k.Logf("first use of the codec in this process: %v; %d goroutines at once", cold, g)
	k.Nontrivial()
	old := runtime.GOMAXPROCS(16)
	defer runtime.GOMAXPROCS(old)
	type res struct {
		id   int64
		s    string
		back int64
		err  error
		p    any
	}
	out := make([][]res, g)
	var ready atomic.Int32
	var wg sync.WaitGroup
	for w := 0; w < g; w++ {
		w := w
		wg.Add(1)
		go func() {
			defer wg.Done()
			ready.Add(1)
			for ready.Load() < g { // spin: all start within the same microsecond
			}
			for _, id := range ids[w] {
				x := res{id: id}
				func() {
					defer func() { x.p = recover() }()
					x.s = snowflake.CnStyle(id)
					x.back, x.err = snowflake.FromChStyle(x.s)
				}()
				out[w] = append(out[w], x)
			}
		}()
	}
	wg.Wait()
	for _, rs := range out {
		for _, x := range rs {
			k.Evals(1)
			switch {
			case x.p != nil:
				u.fail("panic", "CnStyle / FromChStyle of id %d panicked in a burst of first calls: %v", x.id, x.p)
			case len(x.s) != 24:
				u.fail("datestr-length", "CnStyle(%d) = %q has %d characters, not 24 (burst of first calls: %v)", x.id, x.s, len(x.s), cold)
			case x.err != nil || x.back != x.id:
				u.fail("datestr-roundtrip-mismatch", "id %d prints as %q and parses back to (%d, %v) (burst of first calls: %v)", x.id, x.s, x.back, x.err, cold)
			}
		}
	}
}

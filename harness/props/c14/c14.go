// Package c14 monitors the serial executors (line, multi-line, runner queue, proc
// channel): accepted calls run at most once, serially and in acceptance order per
// lane, results are routed to their own callers, hashes route stably into [0,lanes),
// Stop refuses new calls, completes the backlog and ends the lane goroutines.
package c14

import (
	"context"
	"fmt"
	"math"
	"runtime"
	"strings"
	"sync"
	"sync/atomic"
	"time"

	"verifh/engine"

	"github.com/pinealctx/neptune/ulog"
	"go.uber.org/zap/zapcore"

	"github.com/pinealctx/neptune/syncx/pipe"
	"github.com/pinealctx/neptune/syncx/pipe/async"
	"github.com/pinealctx/neptune/syncx/pipe/line"
	"github.com/pinealctx/neptune/syncx/pipe/mline"
)

var Q *engine.Quiescer

// Prop is the C14 check.
var Prop = &engine.Prop{
	ID:    "C14",
	Level: "exploration",
	Rule: "cases are seed-generated gate programs per executor (line, mline with 1/2/3/7 lanes, runner queue in its call/delegate/proc forms, proc channel): callers are submitted one at a time (acceptance order known), " +
		"some callees block on a gate the driver opens, contexts are cancelled before/while queued/while running, Stop is placed anywhere; a quiescent cut after every step is compared with an exact lane model " +
		"(which calls started/ended, in which order, what every caller received); plus parallel stress with in-lane occupancy counters and canaries; non-trivial = a call had to queue behind a running one; distinct = distinct program texts with outcomes",
	Assumptions: []string{
		"a quiescent goroutine snapshot of a timer-free execution is a fixed point",
		"'after Stop no new call is accepted' is read as: a submission that begins after Stop returned is refused and never starts executing",
		"for the proc channel, whether calls accepted before Stop still run after Stop is unspecified (the statement names line, multi-line and runner queue only); only the invariants are judged there after Stop",
		"a caller whose context is already done when its result is also available may receive either (own result or own context error)",
	},
	ShardsQuick: 8, ShardsThorough: 16,
	Setup: func(c *engine.Ctx) {
		// the executors log every shutdown at debug level on stdout: silence the default logger
		lg := ulog.NewSimpleLogger("error")
		lg.SetLevel(zapcore.FatalLevel)
		ulog.SetDefaultLogger(lg)
		Q = engine.NewQuiescer()
	},
	Kinds: []engine.Kind{
		{Name: "gate", Quick: 8000, Thorough: 900000, Fn: gateCase},
		{Name: "stress", Quick: 24, Thorough: 1800, Repeat: 20, Fn: stressCase},
		{Name: "backlog", Quick: 64, Thorough: 2400, Fn: backlogCase},
		{Name: "ctx-reuse", Quick: 400, Thorough: 16000, Fn: ctxReuseCase},
		{Name: "late-run", Quick: 600, Thorough: 30000, Fn: lateRunCase},
		{Name: "double-stop", Quick: 8, Thorough: 160, Fn: doubleStopCase},
		{Name: "multi-exec", Quick: 60, Thorough: 2400, Fn: multiExecCase},
		{Name: "ctx-handoff", Quick: 400, Thorough: 16000, Fn: ctxHandoffCase},
		{Name: "shared-callctx", Quick: 300, Thorough: 12000, Fn: sharedCallCtxCase},
		{Name: "stop-race", Quick: 40, Thorough: 1600, Fn: stopRaceCase},
	},
	Floors: map[string]int64{
		"queued_behind_running":   500,
		"cancel_while_queued":     100,
		"cancel_while_running":    50,
		"stop_with_backlog":       100,
		"submit_after_stop":       200,
		"refused_full":            50,
		"extreme_hash_calls":      50,
		"skipped_cancelled_calls": 20,
		"stress_calls":            2000,
	},
}

// ---------------------------------------------------------------- executors

type calleeFn func(ctx context.Context, laneArg int) (interface{}, error)

type executor interface {
	Name() string
	Lanes() int
	IndexOf(hash int) int // lane the executor says a hash maps to (0 for single-lane executors)
	PassesIndex() bool    // callee receives the lane index
	Skips() bool          // a call whose context is done when its turn comes is skipped
	BacklogAfterStop() bool
	Submit(ctx context.Context, hash int, fn calleeFn) (interface{}, error)
	Stop()
	WaitDone()
}

type lineEx struct {
	l  *line.Line
	wg *sync.WaitGroup
}

func (e *lineEx) Name() string           { return "line.Line" }
func (e *lineEx) Lanes() int             { return 1 }
func (e *lineEx) IndexOf(int) int        { return 0 }
func (e *lineEx) PassesIndex() bool      { return false }
func (e *lineEx) Skips() bool            { return false }
func (e *lineEx) BacklogAfterStop() bool { return true }
func (e *lineEx) Submit(ctx context.Context, hash int, fn calleeFn) (interface{}, error) {
	return e.l.AsyncCall(ctx, line.NewCallCtx(func(c context.Context, req interface{}) (interface{}, error) {
		return fn(c, -1)
	}, hash))
}
func (e *lineEx) Stop()     { e.l.Stop() }
func (e *lineEx) WaitDone() { e.wg.Wait() }

type mlineEx struct {
	m *mline.MultiLine
	n int
}

func (e *mlineEx) Name() string           { return fmt.Sprintf("mline.MultiLine/%d", e.n) }
func (e *mlineEx) Lanes() int             { return e.n }
func (e *mlineEx) IndexOf(h int) int      { return e.m.IndexOf(h) }
func (e *mlineEx) PassesIndex() bool      { return true }
func (e *mlineEx) Skips() bool            { return false }
func (e *mlineEx) BacklogAfterStop() bool { return true }
func (e *mlineEx) Submit(ctx context.Context, hash int, fn calleeFn) (interface{}, error) {
	return e.m.AsyncCall(ctx, mline.NewCallCtx(hash, func(c context.Context, idx int, req interface{}) (interface{}, error) {
		return fn(c, idx)
	}, hash))
}
func (e *mlineEx) Stop()     { e.m.Stop() }
func (e *mlineEx) WaitDone() { e.m.WaitStop(context.Background()) }

type procAdapter struct{ fn calleeFn }

func (p procAdapter) Do(ctx context.Context) (interface{}, error) { return p.fn(ctx, -1) }

type runnerEx struct {
	r    *async.RunnerQ
	form int // 0 call (reflective), 1 delegate, 2 proc
}

func (e *runnerEx) Name() string {
	return "async.RunnerQ/" + []string{"AsyncCall", "AsyncDelegate", "AsyncProc"}[e.form]
}
func (e *runnerEx) Lanes() int             { return 1 }
func (e *runnerEx) IndexOf(int) int        { return 0 }
func (e *runnerEx) PassesIndex() bool      { return false }
func (e *runnerEx) Skips() bool            { return true }
func (e *runnerEx) BacklogAfterStop() bool { return true }
func (e *runnerEx) Submit(ctx context.Context, hash int, fn calleeFn) (interface{}, error) {
	switch e.form {
	case 0:
		return e.r.AsyncCall(func(c context.Context, arg int) (int, error) {
			v, err := fn(c, -1)
			if v == nil {
				return 0, err
			}
			return v.(int), err
		}, ctx, hash)
	case 1:
		return e.r.AsyncDelegate(ctx, func(c context.Context) (interface{}, error) { return fn(c, -1) })
	default:
		return e.r.AsyncProc(ctx, procAdapter{fn})
	}
}
func (e *runnerEx) Stop()     { e.r.Stop() }
func (e *runnerEx) WaitDone() { e.r.WaitStop() }

type procChanEx struct {
	p  *async.ProcChan
	wg *sync.WaitGroup
}

func (e *procChanEx) Name() string           { return "async.ProcChan" }
func (e *procChanEx) Lanes() int             { return 1 }
func (e *procChanEx) IndexOf(int) int        { return 0 }
func (e *procChanEx) PassesIndex() bool      { return false }
func (e *procChanEx) Skips() bool            { return true }
func (e *procChanEx) BacklogAfterStop() bool { return false }
func (e *procChanEx) Submit(ctx context.Context, hash int, fn calleeFn) (interface{}, error) {
	return e.p.AsyncProc(ctx, procAdapter{fn})
}
func (e *procChanEx) Stop()     { e.p.Stop() }
func (e *procChanEx) WaitDone() { e.wg.Wait() }

func newExecutor(r interface{ Intn(int) int }, qsize int) executor {
	switch r.Intn(7) {
	case 0:
		wg := &sync.WaitGroup{}
		l := line.NewLine(wg, line.WithQSize(qsize), line.WithName("verif"))
		l.Run()
		return &lineEx{l, wg}
	case 1, 2:
		n := []int{1, 2, 3, 7}[r.Intn(4)]
		m := mline.NewMultiLine(pipe.WithSlotSize(n), pipe.WithQSize(qsize))
		m.Run()
		return &mlineEx{m, n}
	case 3, 4:
		rq := async.NewRunnerQ(async.WithQSize(qsize), async.WithName("verif"))
		rq.Run()
		return &runnerEx{rq, r.Intn(3)}
	default:
		if qsize == 0 {
			qsize = 1
		}
		wg := &sync.WaitGroup{}
		p := async.NewProcChan(async.WithQSize(qsize), async.WithWaitGroup(wg), async.WithName("verif"))
		p.Run()
		return &procChanEx{p, wg}
	}
}

// ---------------------------------------------------------------- recorder

type event struct {
	typ  byte // 's' start, 'e' end
	id   int
	gid  int64
	lane int // lane index argument (-1 when the executor passes none)
}

type recorder struct {
	mu  sync.Mutex
	evs []event
}

func (r *recorder) add(e event) { r.mu.Lock(); r.evs = append(r.evs, e); r.mu.Unlock() }
func (r *recorder) snapshot() []event {
	r.mu.Lock()
	defer r.mu.Unlock()
	return append([]event(nil), r.evs...)
}

func goid() int64 {
	var buf [64]byte
	n := runtime.Stack(buf[:], false)
	// "goroutine 123 ["
	s := string(buf[:n])
	s = strings.TrimPrefix(s, "goroutine ")
	var id int64
	for i := 0; i < len(s) && s[i] >= '0' && s[i] <= '9'; i++ {
		id = id*10 + int64(s[i]-'0')
	}
	return id
}

// ---------------------------------------------------------------- model

const (
	csWaiting = iota
	csValue
	csCtxErr
	csRefused
	csValueOrCtxErr // context was done before the call was submitted and the call has ended
)

type call struct {
	id       int
	hash     int
	lane     int
	gate     bool
	gateCh   chan struct{}
	pre      bool
	ctx      context.Context
	cancel   context.CancelFunc
	op       *engine.Op
	postStop bool

	// model
	accepted  bool
	cancelled bool
	started   bool
	ended     bool
	skipped   bool
	caller    int
}

type laneM struct {
	queue   []*call
	running *call
	exited  bool
	order   []int // model start order
}

type callRes struct {
	v   interface{}
	err error
}

func gateCase(k *engine.Case) {
	r := k.R
	qsize := []int{0, 1, 1, 2, 3, 4}[r.Intn(6)]
	ex := newExecutor(r, qsize)
	if _, ok := ex.(*procChanEx); ok && qsize == 0 {
		qsize = 1
	}
	nl := ex.Lanes()
	k.Logf("executor=%s lanes=%d qsize=%d", ex.Name(), nl, qsize)
	d := engine.NewDriver(Q, k)
	rec := &recorder{}
	lanes := make([]*laneM, nl)
	for i := range lanes {
		lanes[i] = &laneM{}
	}
	var calls []*call
	stopped := false
	exact := true // exact model applies (proc channel: only until Stop)

	hashPool := []int{0, 1, -1, nl, -nl, math.MaxInt, math.MinInt, math.MinInt + 1, 2, 3, 5, -7, r.Intn(1 << 30), -r.Intn(1 << 30)}

	// startedObs reports whether a start event of the call has been recorded; it resolves the
	// one choice the statement leaves open: a call whose context is already done when its
	// turn comes may be skipped or executed.
	startedObs := func(id int) bool {
		for _, e := range rec.snapshot() {
			if e.typ == 's' && e.id == id {
				return true
			}
		}
		return false
	}
	advance := func(l *laneM) {
		for l.running == nil && len(l.queue) > 0 {
			c := l.queue[0]
			l.queue = l.queue[1:]
			if c.cancelled && !startedObs(c.id) {
				c.skipped = true
				k.Count("skipped_cancelled_calls", 1)
				continue
			}
			if c.cancelled {
				k.Count("executed_cancelled_calls", 1)
			}
			c.started = true
			l.order = append(l.order, c.id)
			if c.gate {
				l.running = c
				break
			}
			c.ended = true
			if c.caller == csWaiting {
				c.caller = csValue
			} else if c.caller == csCtxErr && c.pre {
				c.caller = csValueOrCtxErr
			}
		}
		if stopped && l.running == nil && len(l.queue) == 0 {
			l.exited = true
		}
	}

	openGate := func(l *laneM) {
		c := l.running
		c.ended = true
		if c.caller == csWaiting {
			c.caller = csValue
		} else if c.caller == csCtxErr && c.pre {
			c.caller = csValueOrCtxErr
		}
		l.running = nil
		advance(l)
	}

	callee := func(c *call) calleeFn {
		return func(ctx context.Context, laneArg int) (interface{}, error) {
			rec.add(event{'s', c.id, goid(), laneArg})
			if c.gate {
				<-c.gateCh
			}
			rec.add(event{'e', c.id, 0, laneArg})
			return c.id * 10, nil
		}
	}

	describe := func() string {
		var p []string
		evs := rec.snapshot()
		st, en := map[int]bool{}, map[int]bool{}
		for _, e := range evs {
			if e.typ == 's' {
				st[e.id] = true
			} else {
				en[e.id] = true
			}
		}
		for _, c := range calls {
			s := "queued"
			if st[c.id] {
				s = "running"
			}
			if en[c.id] {
				s = "ended"
			}
			cs := "caller:waiting"
			if c.op.Done() {
				if pv := c.op.Panic(); pv != nil {
					cs = fmt.Sprintf("caller:PANIC(%v)", pv)
				} else {
					cr := c.op.Result().(callRes)
					if cr.err != nil {
						cs = fmt.Sprintf("caller:err(%v)", cr.err)
					} else {
						cs = fmt.Sprintf("caller:%v", cr.v)
					}
				}
			}
			p = append(p, fmt.Sprintf("#%d[%s,%s]", c.id, s, cs))
		}
		return strings.Join(p, " ")
	}

	check := func(what string) bool {
		evs := rec.snapshot()
		starts, ends := map[int]int{}, map[int]int{}
		laneOrder := map[int][]int{} // by model lane
		gidOfLane := map[int]int64{}
		laneOfGid := map[int64]int{}
		open := map[int]int{} // lane -> currently running call id+1
		for _, e := range evs {
			c := calls[e.id]
			if e.typ == 's' {
				starts[e.id]++
				if starts[e.id] > 1 {
					k.Fail("executed-twice", "after %s: call #%d started %d times: %s", what, e.id, starts[e.id], describe())
					return false
				}
				if ex.PassesIndex() {
					if e.lane < 0 || e.lane >= nl {
						k.Fail("lane-index-out-of-range", "after %s: call #%d (hash %d) received lane index %d, lanes=%d", what, e.id, c.hash, e.lane, nl)
						return false
					}
					if e.lane != c.lane {
						k.Fail("routing-mismatch", "after %s: call #%d with hash %d ran with lane index %d but IndexOf says %d", what, e.id, c.hash, e.lane, c.lane)
						return false
					}
				}
				if g, ok := gidOfLane[c.lane]; ok && g != e.gid {
					k.Fail("lane-goroutine-changed", "after %s: lane %d ran calls on goroutines %d and %d", what, c.lane, g, e.gid)
					return false
				}
				gidOfLane[c.lane] = e.gid
				if l, ok := laneOfGid[e.gid]; ok && l != c.lane {
					k.Fail("lanes-share-goroutine", "after %s: goroutine %d served lanes %d and %d", what, e.gid, l, c.lane)
					return false
				}
				laneOfGid[e.gid] = c.lane
				if open[c.lane] != 0 {
					k.Fail("overlap", "after %s: call #%d started on lane %d while call #%d was still running: %s", what, e.id, c.lane, open[c.lane]-1, describe())
					return false
				}
				open[c.lane] = e.id + 1
				laneOrder[c.lane] = append(laneOrder[c.lane], e.id)
				if c.postStop {
					k.Fail("executed-after-stop", "after %s: call #%d was submitted after Stop returned and was executed: %s", what, e.id, describe())
					return false
				}
				if !c.accepted && exact {
					k.Fail("refused-call-executed", "after %s: call #%d must have been refused (queue full) but was executed: %s", what, e.id, describe())
					return false
				}
			} else {
				ends[e.id]++
				if open[c.lane] == e.id+1 {
					open[c.lane] = 0
				}
			}
		}
		// acceptance order per lane (always: started calls form a subsequence of submission order)
		for ln, ord := range laneOrder {
			for i := 1; i < len(ord); i++ {
				if ord[i] < ord[i-1] {
					k.Fail("order", "after %s: lane %d started call #%d before call #%d, which was accepted earlier: %s", what, ln, ord[i-1], ord[i], describe())
					return false
				}
			}
		}
		// callers: own result or own context error
		for _, c := range calls {
			if !c.op.Done() {
				continue
			}
			if pv := c.op.Panic(); pv != nil {
				k.Fail("panic", "after %s: submitting call #%d (hash %d) panicked: %v", what, c.id, c.hash, pv)
				return false
			}
			cr := c.op.Result().(callRes)
			if cr.err == nil {
				if cr.v != c.id*10 {
					k.Fail("foreign-result", "after %s: caller of #%d received %v (own result is %d): %s", what, c.id, cr.v, c.id*10, describe())
					return false
				}
				if ends[c.id] == 0 {
					k.Fail("result-without-execution", "after %s: caller of #%d received a value although its call has not ended: %s", what, c.id, describe())
					return false
				}
			} else if cr.err == context.Canceled && !c.cancelled {
				k.Fail("foreign-context-error", "after %s: caller of #%d received a context error although its own context is live: %s", what, c.id, describe())
				return false
			}
		}
		if !exact {
			return true
		}
		// exact model comparison
		for _, c := range calls {
			st, en := starts[c.id] > 0, ends[c.id] > 0
			if st != c.started || en != c.ended {
				cls := "model-mismatch"
				if !st && c.started {
					cls = "call-not-started"
				}
				k.Fail(cls, "after %s: call #%d observed started=%v ended=%v, model says started=%v ended=%v: %s", what, c.id, st, en, c.started, c.ended, describe())
				return false
			}
			done := c.op.Done()
			var cr callRes
			if done {
				cr = c.op.Result().(callRes)
			}
			bad := false
			switch c.caller {
			case csWaiting:
				bad = done
			case csValue:
				bad = !done || cr.err != nil
			case csCtxErr:
				bad = !done || cr.err == nil
			case csRefused:
				bad = !done || cr.err == nil
			case csValueOrCtxErr:
				bad = !done
			}
			if bad {
				exp := []string{"still waiting", "own value", "own context error", "refusal error", "own value or own context error"}[c.caller]
				k.Fail("caller-outcome", "after %s: caller of #%d: expected %s: %s", what, c.id, exp, describe())
				return false
			}
		}
		for ln, l := range lanes {
			obs := laneOrder[ln]
			if fmt.Sprint(obs) != fmt.Sprint(l.order) && !(len(obs) == 0 && len(l.order) == 0) {
				k.Fail("order", "after %s: lane %d started %v, acceptance order says %v", what, ln, obs, l.order)
				return false
			}
		}
		return true
	}

	var post func() // model transition of the current step, applied after the quiescent cut
	submit := func(s int) {
		c := &call{id: len(calls), gate: r.Intn(100) < 45, gateCh: make(chan struct{}), pre: r.Intn(100) < 8}
		c.hash = hashPool[r.Intn(len(hashPool))]
		if r.Intn(3) == 0 && len(calls) > 0 {
			c.hash = calls[r.Intn(len(calls))].hash // equal hashes
		}
		if c.hash == math.MaxInt || c.hash == math.MinInt || c.hash == math.MinInt+1 {
			k.Count("extreme_hash_calls", 1)
		}
		c.ctx, c.cancel = context.WithCancel(context.Background())
		if c.pre {
			c.cancel()
			c.cancelled = true
		}
		c.postStop = stopped
		calls = append(calls, c)
		// lane by the executor's own IndexOf (checked against what the callee receives)
		laneOK := true
		func() {
			defer func() {
				if x := recover(); x != nil {
					laneOK = false
					k.Fail("panic", "IndexOf(%d) panicked: %v", c.hash, x)
				}
			}()
			c.lane = ex.IndexOf(c.hash)
		}()
		if laneOK && (c.lane < 0 || c.lane >= nl) {
			k.Fail("lane-index-out-of-range", "IndexOf(%d) = %d with %d lanes", c.hash, c.lane, nl)
			laneOK = false
		}
		if !laneOK {
			c.lane = 0
		}
		k.Logf("step %d: submit #%d hash=%d lane=%d gate=%v ctx-already-cancelled=%v", s, c.id, c.hash, c.lane, c.gate, c.pre)
		wasStopped := stopped
		post = func() {
			l := lanes[c.lane]
			switch {
			case wasStopped:
				c.caller = csRefused
				k.Count("submit_after_stop", 1)
			case qsize > 0 && len(l.queue) >= qsize:
				c.caller = csRefused
				k.Count("refused_full", 1)
			default:
				c.accepted = true
				c.caller = csWaiting
				if c.pre {
					c.caller = csCtxErr
				}
				if l.running != nil {
					k.Count("queued_behind_running", 1)
					k.Nontrivial()
				}
				l.queue = append(l.queue, c)
				advance(l)
			}
		}
		fn := callee(c)
		c.op = d.Spawn(fmt.Sprintf("submit#%d", c.id), func() any {
			v, err := ex.Submit(c.ctx, c.hash, fn)
			return callRes{v, err}
		})
	}

	finish := func() {
		// unblock everything so goroutines can end
		for _, c := range calls {
			if c.gate {
				select {
				case <-c.gateCh:
				default:
					close(c.gateCh)
				}
			}
			c.cancel()
		}
		ex.Stop()
		Q.Wait()
	}

	nsteps := 4 + r.Intn(14)
	ok := true
	for s := 0; s < nsteps && ok; s++ {
		var running []*laneM
		for _, l := range lanes {
			if l.running != nil {
				running = append(running, l)
			}
		}
		var cancellable []*call
		for _, c := range calls {
			if c.accepted && !c.cancelled && !c.ended {
				cancellable = append(cancellable, c)
			}
		}
		ch := r.Intn(100)
		switch {
		case ch < 50 || len(calls) == 0:
			submit(s)
		case ch < 70 && len(running) > 0:
			l := running[r.Intn(len(running))]
			c := l.running
			k.Logf("step %d: open gate of #%d", s, c.id)
			post = func() { openGate(l) }
			close(c.gateCh)
		case ch < 85 && len(cancellable) > 0:
			c := cancellable[r.Intn(len(cancellable))]
			k.Logf("step %d: cancel context of #%d", s, c.id)
			if c.started {
				k.Count("cancel_while_running", 1)
			} else {
				k.Count("cancel_while_queued", 1)
			}
			c.cancelled = true
			if c.caller == csWaiting {
				c.caller = csCtxErr
			}
			c.cancel()
		case ch < 95 && !stopped:
			k.Logf("step %d: Stop", s)
			stopped = true
			for _, l := range lanes {
				if len(l.queue) > 0 {
					k.Count("stop_with_backlog", 1)
					break
				}
			}
			post = func() {
				for _, l := range lanes {
					advance(l)
				}
			}
			ex.Stop()
			if !ex.BacklogAfterStop() {
				exact = false
				// every waiting caller of the proc channel is released with the closed error
			}
		default:
			submit(s)
		}
		if !d.Quiesce() {
			finish()
			return
		}
		if post != nil {
			post()
			post = nil
		}
		k.Logf("        -> %s", describe())
		ok = check(fmt.Sprintf("step %d", s))
		k.Count("quiescent_cuts", 1)
		{
			var sb strings.Builder
			fmt.Fprintf(&sb, "%s stopped=%v", ex.Name(), stopped)
			for _, l := range lanes {
				q := 0
				for _, c := range l.queue {
					if c.cancelled {
						q += 10
					} else {
						q++
					}
				}
				fmt.Fprintf(&sb, " [run=%v q=%d]", l.running != nil, q)
			}
			k.C.ObserveStr("abstract_lane_states", sb.String())
		}
	}
	if !ok {
		finish()
		return
	}
	// wind down: open every gate (one at a time), stop, wait for the lanes
	for ok {
		var l *laneM
		for _, x := range lanes {
			if x.running != nil {
				l = x
				break
			}
		}
		if l == nil {
			break
		}
		c := l.running
		k.Logf("wind-down: open gate of #%d", c.id)
		close(c.gateCh)
		if !d.Quiesce() {
			finish()
			return
		}
		openGate(l)
		k.Logf("        -> %s", describe())
		ok = check("wind-down gate #" + fmt.Sprint(c.id))
	}
	if !ok {
		finish()
		return
	}
	if !exact {
		// proc channel after Stop: gates of calls the model did not track may still be closed
		for _, c := range calls {
			if c.gate {
				select {
				case <-c.gateCh:
				default:
					close(c.gateCh)
				}
			}
		}
		if !d.Quiesce() {
			finish()
			return
		}
	}
	if !stopped {
		k.Logf("wind-down: Stop")
		stopped = true
		ex.Stop()
		if !d.Quiesce() {
			finish()
			return
		}
		for _, l := range lanes {
			advance(l)
		}
		k.Logf("        -> %s", describe())
		if !check("final Stop") {
			finish()
			return
		}
	}
	wd := d.Spawn("WaitDone", func() any { ex.WaitDone(); return nil })
	if !d.Quiesce() {
		finish()
		return
	}
	if !wd.Done() {
		k.Fail("lanes-not-terminated", "Stop was called and every call has finished, but waiting for the lane goroutines does not return: %v", Q.Describe())
		return
	}
	if n := Q.CountStacks("popLoop"); n != 0 {
		k.Fail("lanes-not-terminated", "%d lane goroutine(s) still exist after Stop and drain: %v", n, Q.Describe())
		return
	}
	if ps := d.Pending(); len(ps) > 0 {
		k.Fail("caller-stuck", "after Stop and drain %d caller(s) are still blocked: %s", len(ps), d.PendingNames())
		return
	}
	if ex.BacklogAfterStop() {
		for _, c := range calls {
			if c.accepted && !c.started && !c.skipped {
				k.Fail("backlog-lost", "call #%d was accepted before Stop but never ran", c.id)
				return
			}
		}
	}
	d.Join()
}

// ---------------------------------------------------------------- stress

func stressCase(k *engine.Case) {
	r := k.R
	ex := newExecutor(r, 0)
	if _, ok := ex.(*procChanEx); ok {
		wg := &sync.WaitGroup{}
		p := async.NewProcChan(async.WithQSize(4096), async.WithWaitGroup(wg))
		p.Run()
		ex = &procChanEx{p, wg}
	}
	nl := ex.Lanes()
	callers := []int{4, 8, 12}[r.Intn(3)]
	per := 300
	procs := []int{2, 4, 16}[r.Intn(3)]
	old := runtime.GOMAXPROCS(procs)
	defer runtime.GOMAXPROCS(old)
	k.Logf("stress executor=%s callers=%d calls/caller=%d gomaxprocs=%d", ex.Name(), callers, per, procs)
	k.Nontrivial()
	inLane := make([]atomic.Int32, nl)
	canary := make([]int, nl) // plain: ordered only by the lane's seriality
	var overlaps, foreign, okCalls, refused atomic.Int64
	execCount := make([]atomic.Int32, callers*per)
	d := engine.NewDriver(Q, k)
	seeds := make([]int64, callers)
	for i := range seeds {
		seeds[i] = r.Int63()
	}
	for w := 0; w < callers; w++ {
		w := w
		d.Spawn(fmt.Sprintf("caller%d", w), func() any {
			x := uint64(seeds[w]) | 1
			next := func() uint64 { x ^= x << 13; x ^= x >> 7; x ^= x << 17; return x }
			for i := 0; i < per; i++ {
				id := w*per + i
				hash := int(next()%64) - 32
				lane := ex.IndexOf(hash)
				v, err := ex.Submit(context.Background(), hash, func(ctx context.Context, laneArg int) (interface{}, error) {
					if inLane[lane].Add(1) != 1 {
						overlaps.Add(1)
					}
					canary[lane]++
					execCount[id].Add(1)
					if id%5 == 0 {
						runtime.Gosched()
					}
					canary[lane]++
					inLane[lane].Add(-1)
					return id * 10, nil
				})
				if err != nil {
					refused.Add(1)
					runtime.Gosched()
					continue
				}
				if v != id*10 {
					foreign.Add(1)
				}
				okCalls.Add(1)
			}
			return nil
		})
	}
	deadline := time.Now().Add(10 * time.Minute)
	for len(d.Pending()) > 0 {
		if time.Now().After(deadline) {
			k.Inconclusive("stress watchdog")
			ex.Stop()
			return
		}
		time.Sleep(5 * time.Millisecond)
		if Q.IsQuiet() && len(d.Pending()) > 0 {
			time.Sleep(10 * time.Millisecond)
			if Q.IsQuiet() && len(d.Pending()) > 0 {
				k.Fail("caller-stuck", "stress: %d caller(s) blocked forever at a quiescent fixed point: %s", len(d.Pending()), d.PendingNames())
				ex.Stop()
				return
			}
		}
	}
	d.Join()
	ex.Stop()
	wd := d.Spawn("WaitDone", func() any { ex.WaitDone(); return nil })
	if !d.Quiesce() {
		return
	}
	if !wd.Done() {
		k.Fail("lanes-not-terminated", "stress: lane goroutines did not terminate after Stop: %v", Q.Describe())
		return
	}
	k.Count("stress_calls", okCalls.Load())
	k.Count("stress_refused_full", refused.Load())
	k.Logf("ok=%d refused=%d overlaps=%d foreign=%d", okCalls.Load(), refused.Load(), overlaps.Load(), foreign.Load())
	if overlaps.Load() > 0 {
		k.Fail("overlap", "stress: %d calls overlapped another call on the same lane", overlaps.Load())
	}
	if foreign.Load() > 0 {
		k.Fail("foreign-result", "stress: %d callers received another call's result", foreign.Load())
	}
	for id := range execCount {
		if execCount[id].Load() > 1 {
			k.Fail("executed-twice", "stress: call %d executed %d times", id, execCount[id].Load())
			return
		}
	}
}

// ---------------------------------------------------------------- deep backlog behind a busy lane

// backlogCase: a few calls run to completion, then a gate call occupies the lane and 70-260
// further callers are accepted one at a time (unbounded or large queue); when the gate opens
// they must all run, once each, in exactly the order they were accepted.
func backlogCase(k *engine.Case) {
	r := k.R
	qsize := []int{0, 0, 4096}[r.Intn(3)]
	ex := newExecutor(r, qsize)
	if _, ok := ex.(*procChanEx); ok {
		wg := &sync.WaitGroup{}
		p := async.NewProcChan(async.WithQSize(4096), async.WithWaitGroup(wg), async.WithName("verif"))
		p.Run()
		ex = &procChanEx{p, wg}
	}
	warm := 1 + r.Intn(5)
	n := 70 + r.Intn(190)
	hash := []int{0, 3, -3, 7}[r.Intn(4)]
	k.Logf("executor=%s qsize=%d: %d calls run, then a gate call, then %d callers queue behind it (hash %d)", ex.Name(), qsize, warm, n, hash)
	k.Nontrivial()
	d := engine.NewDriver(Q, k)
	var mu sync.Mutex
	var order []int
	counts := map[int]int{}
	mk := func(id int, gate chan struct{}) calleeFn {
		return func(ctx context.Context, laneArg int) (interface{}, error) {
			mu.Lock()
			order = append(order, id)
			counts[id]++
			mu.Unlock()
			if gate != nil {
				<-gate
			}
			return id * 10, nil
		}
	}
	for i := 0; i < warm; i++ {
		id := -1 - i
		op := d.Spawn("warm", func() any { v, err := ex.Submit(context.Background(), hash, mk(id, nil)); return callRes{v, err} })
		if !d.Quiesce() {
			ex.Stop()
			return
		}
		if !op.Done() {
			k.Fail("caller-stuck", "a call on an idle executor did not return")
			ex.Stop()
			return
		}
	}
	gate := make(chan struct{})
	gop := d.Spawn("gate", func() any { v, err := ex.Submit(context.Background(), hash, mk(0, gate)); return callRes{v, err} })
	if !d.Quiesce() {
		close(gate)
		ex.Stop()
		return
	}
	ops := make([]*engine.Op, n)
	for i := 0; i < n; i++ {
		id := i + 1
		ops[i] = d.Spawn(fmt.Sprintf("q%d", id), func() any { v, err := ex.Submit(context.Background(), hash, mk(id, nil)); return callRes{v, err} })
		if i < 3 || i%16 == 0 || i == n-1 {
			if !d.Quiesce() {
				close(gate)
				ex.Stop()
				return
			}
		} else {
			// acceptance order still has to be known: wait until the caller is parked in its
			// result wait (cheap check: the op cannot be done, so wait for quiescence lazily)
			if !d.Quiesce() {
				close(gate)
				ex.Stop()
				return
			}
		}
	}
	k.Count("backlog_calls_queued", int64(n))
	close(gate)
	if !d.Quiesce() {
		ex.Stop()
		return
	}
	_ = gop
	for i, op := range ops {
		if !op.Done() {
			k.Fail("caller-stuck", "after the gate opened, queued caller #%d of %d never returned", i+1, n)
			ex.Stop()
			return
		}
		cr := op.Result().(callRes)
		if cr.err != nil || cr.v != (i+1)*10 {
			k.Fail("foreign-result", "queued caller #%d received (%v, %v), own result is %d", i+1, cr.v, cr.err, (i+1)*10)
			ex.Stop()
			return
		}
	}
	mu.Lock()
	got := append([]int(nil), order...)
	mu.Unlock()
	// expected: warm calls, gate (0), then 1..n
	idx := warm + 1
	for want := 1; want <= n; want++ {
		if idx >= len(got) || got[idx] != want {
			lo := idx - 3
			if lo < 0 {
				lo = 0
			}
			hi := idx + 4
			if hi > len(got) {
				hi = len(got)
			}
			k.Fail("order", "%d callers were accepted in order 1..%d behind a busy lane, but the lane started them as ...%v... (position %d should be call %d)", n, n, got[lo:hi], idx, want)
			ex.Stop()
			return
		}
		idx++
	}
	for id, c := range counts {
		if c != 1 {
			k.Fail("executed-twice", "call %d was executed %d times", id, c)
			ex.Stop()
			return
		}
	}
	ex.Stop()
	wd := d.Spawn("WaitDone", func() any { ex.WaitDone(); return nil })
	if d.Quiesce() && !wd.Done() {
		k.Fail("lanes-not-terminated", "Stop after a drained backlog: lane goroutines did not terminate")
	}
}

// ---------------------------------------------------------------- one call context, several executors

// ctxReuseCase: a multi-line call context (hash, function, parameter) is an immutable
// description of a call; submitting the same object to executors with different lane counts
// (and several times to the same one) must route every submission by the hash and that
// executor's lane count, and hand the callee that lane's index.
func ctxReuseCase(k *engine.Case) {
	r := k.R
	hash := []int{7, -7, 0, 1, 12345, -12345, math.MaxInt, math.MinInt}[r.Intn(8)]
	lanesA := []int{1, 2, 3, 7, 8}[r.Intn(5)]
	lanesB := []int{1, 2, 3, 7, 8, 16}[r.Intn(6)]
	ma := mline.NewMultiLine(pipe.WithSlotSize(lanesA), pipe.WithQSize(8))
	mb := mline.NewMultiLine(pipe.WithSlotSize(lanesB), pipe.WithQSize(8))
	ma.Run()
	mb.Run()
	k.Logf("one mline.CallCtx (hash %d) submitted to MultiLines with %d and %d lanes", hash, lanesA, lanesB)
	k.Nontrivial()
	var got []int
	cc := mline.NewCallCtx(hash, func(ctx context.Context, idx int, req interface{}) (interface{}, error) {
		got = append(got, idx) // serial by construction: one submission at a time
		return idx, nil
	}, nil)
	d := engine.NewDriver(Q, k)
	seq := []*mline.MultiLine{ma, mb, ma, mb, mb, ma}
	if r.Intn(2) == 0 {
		seq = []*mline.MultiLine{mb, ma, mb, ma}
	}
	for i, m := range seq {
		m := m
		op := d.Spawn("AsyncCall", func() any { v, err := m.AsyncCall(context.Background(), cc); return callRes{v, err} })
		if !d.Quiesce() {
			break
		}
		if !op.Done() {
			k.Fail("caller-stuck", "submission %d of a reused call context never returned", i)
			break
		}
		if pv := op.Panic(); pv != nil {
			k.Fail("panic", "submission %d of a reused call context (hash %d) to a MultiLine with %d lanes panicked: %v", i, hash, m.SlotSize(), pv)
			break
		}
		cr := op.Result().(callRes)
		want := m.IndexOf(hash)
		if cr.err != nil || cr.v != want || want < 0 || want >= m.SlotSize() {
			k.Fail("routing-mismatch", "submission %d: call context with hash %d on a MultiLine with %d lanes ran with lane index %v (error %v), IndexOf says %d", i, hash, m.SlotSize(), cr.v, cr.err, want)
			break
		}
	}
	ma.Stop()
	mb.Stop()
	ma.WaitStop(context.Background())
	mb.WaitStop(context.Background())
	k.Count("ctx_reuse_cases", 1)
}

package c14

import (
	"context"
	"fmt"
	"runtime"
	"strings"
	"sync"
	"sync/atomic"
	"time"

	"verifh/engine"

	"github.com/pinealctx/neptune/syncx/pipe"
	"github.com/pinealctx/neptune/syncx/pipe/async"
	"github.com/pinealctx/neptune/syncx/pipe/line"
	"github.com/pinealctx/neptune/syncx/pipe/mline"
)

// newIdleExecutor builds a line / multi-line / runner queue whose lane goroutines have not
// been started yet (the queues exist from construction on, so calls can already be accepted).
func newIdleExecutor(r interface{ Intn(int) int }) (executor, func()) {
	switch r.Intn(4) {
	case 0:
		wg := &sync.WaitGroup{}
		l := line.NewLine(wg, line.WithName("verif"))
		return &lineEx{l, wg}, l.Run
	case 1:
		n := []int{1, 2, 3, 7}[r.Intn(4)]
		m := mline.NewMultiLine(pipe.WithSlotSize(n))
		return &mlineEx{m, n}, m.Run
	default:
		rq := async.NewRunnerQ(async.WithName("verif"))
		return &runnerEx{rq, r.Intn(3)}, rq.Run
	}
}

// lateRunCase: "every call accepted before Stop still completes" and "start in the order they
// were accepted" when the lanes are started late: calls are accepted by an executor that is
// not running yet, then Run and Stop are issued in either order (a start racing a shutdown).
// Every accepted call must run exactly once, in acceptance order on its lane, its caller gets
// its own result, a submission after Stop is refused and never runs, and the lanes terminate.
func lateRunCase(k *engine.Case) {
	r := k.R
	ex, run := newIdleExecutor(r)
	nl := ex.Lanes()
	order := []string{"run,stop", "stop,run", "stop,run,stop", "stop,stop,run"}[r.Intn(4)]
	k.Logf("executor=%s lanes=%d, calls accepted before the lanes are started, then %s", ex.Name(), nl, order)
	k.Nontrivial()
	d := engine.NewDriver(Q, k)
	rec := &recorder{}
	type lcall struct {
		id, hash, lane int
		op             *engine.Op
		runs           int32
	}
	n := 1 + r.Intn(10)
	calls := make([]*lcall, 0, n+1)
	submit := func(c *lcall) {
		fn := func(ctx context.Context, laneArg int) (interface{}, error) {
			atomic.AddInt32(&c.runs, 1)
			rec.add(event{typ: 's', id: c.id, gid: goid(), lane: laneArg})
			rec.add(event{typ: 'e', id: c.id, gid: goid(), lane: laneArg})
			return 7000 + c.id, nil
		}
		c.op = d.Spawn(fmt.Sprintf("call#%d hash=%d", c.id, c.hash), func() any {
			v, err := ex.Submit(context.Background(), c.hash, fn)
			return callRes{v, err}
		})
	}
	for i := 0; i < n; i++ {
		c := &lcall{id: i, hash: []int{0, 1, 2, 3, -1, -5, 11, 1 << 40}[r.Intn(8)]}
		c.lane = ex.IndexOf(c.hash)
		calls = append(calls, c)
		submit(c)
		// one at a time: acceptance order = submission order
		if !d.Quiesce() {
			ex.Stop()
			run()
			return
		}
		if c.op.Done() {
			k.Fail("call-not-accepted", "call #%d submitted to the idle (not yet started, not stopped) %s returned at once: %+v", i, ex.Name(), c.op.Result())
			ex.Stop()
			run()
			return
		}
	}
	k.Count("late_run_calls_accepted_before_run", int64(n))
	for _, step := range splitComma(order) {
		if step == "run" {
			run()
		} else {
			ex.Stop()
		}
		if !d.Quiesce() {
			ex.Stop()
			run()
			return
		}
	}
	k.Count("late_run_order_"+order, 1)
	// after Stop: refused, never runs
	late := &lcall{id: n, hash: 0}
	submit(late)
	wait := d.Spawn("WaitDone", func() any { ex.WaitDone(); return nil })
	if !d.Quiesce() {
		return
	}
	k.Evals(int64(n + 2))
	for _, c := range calls {
		if !c.op.Done() {
			k.Fail("accepted-call-not-completed", "%s, %s: call #%d (accepted before the lanes were started) never returned to its caller; it ran %d time(s)", ex.Name(), order, c.id, atomic.LoadInt32(&c.runs))
			return
		}
		cr, _ := c.op.Result().(callRes)
		if runs := atomic.LoadInt32(&c.runs); runs != 1 {
			k.Fail("accepted-call-not-completed", "%s, %s: call #%d (accepted before the lanes were started) ran %d time(s), its caller got (%v, %v)", ex.Name(), order, c.id, runs, cr.v, cr.err)
			return
		}
		if cr.err != nil || cr.v != 7000+c.id {
			k.Fail("wrong-result", "%s, %s: the caller of call #%d got (%v, %v), its call returned (%d, nil)", ex.Name(), order, c.id, cr.v, cr.err, 7000+c.id)
			return
		}
	}
	if !late.op.Done() {
		k.Fail("submit-after-stop-stuck", "%s, %s: a call submitted after Stop never returned", ex.Name(), order)
		return
	}
	if cr, _ := late.op.Result().(callRes); cr.err == nil || atomic.LoadInt32(&late.runs) != 0 {
		k.Fail("accepted-after-stop", "%s, %s: a call submitted after Stop returned (%v, %v) and ran %d time(s)", ex.Name(), order, cr.v, cr.err, atomic.LoadInt32(&late.runs))
		return
	}
	if !wait.Done() {
		k.Fail("lanes-not-terminated", "%s, %s: the lane goroutines did not terminate after Stop although every accepted call has completed", ex.Name(), order)
		return
	}
	// per lane: start order = acceptance order; the lane argument is the lane's index
	lastOnLane := map[int]int{}
	for _, e := range rec.snapshot() {
		if e.typ != 's' {
			continue
		}
		c := calls[e.id]
		if prev, ok := lastOnLane[c.lane]; ok && prev > e.id {
			k.Fail("start-order", "%s, %s: call #%d started after call #%d on lane %d although it was accepted earlier", ex.Name(), order, e.id, prev, c.lane)
			return
		}
		lastOnLane[c.lane] = e.id
		if ex.PassesIndex() && e.lane != c.lane {
			k.Fail("lane-index", "%s: call #%d (hash %d) ran with lane index %d, IndexOf says %d", ex.Name(), e.id, c.hash, e.lane, c.lane)
			return
		}
	}
	k.Count("late_run_cases_ok", 1)
}

func splitComma(s string) []string {
	var out []string
	cur := ""
	for _, ch := range s {
		if ch == ',' {
			out = append(out, cur)
			cur = ""
		} else {
			cur += string(ch)
		}
	}
	return append(out, cur)
}

// doubleStopCase: "after Stop no new call is accepted" holds for every Stop call that has
// returned, also a second one issued while the first is still shutting the lanes down. A
// multi-line with very many (unstarted) lanes makes that shutdown long enough to overlap: one
// goroutine calls Stop; a second one waits until lane 0 refuses calls, calls Stop itself and,
// as soon as that returns, submits a call to the last lane - which must be refused.
// No goroutine-state detector here (hundreds of thousands of queues, no lane goroutines); the
// verdict does not depend on timing for a correct MultiLine: its second Stop returns only when
// every lane is closed, so the probe is refused at once.
func doubleStopCase(k *engine.Case) {
	r := k.R
	n := []int{60000, 100000, 200000}[r.Intn(3)]
	m := mline.NewMultiLine(pipe.WithSlotSize(n))
	k.Logf("mline.MultiLine with %d unstarted lanes; Stop from two goroutines, then a call to lane %d", n, n-1)
	k.Nontrivial()
	noop := func(c context.Context, idx int, req interface{}) (interface{}, error) { return idx, nil }
	refused := func(hash int, wait time.Duration) (bool, error) {
		ctx, cancel := context.WithTimeout(context.Background(), wait)
		defer cancel()
		_, err := m.AsyncCall(ctx, mline.NewCallCtx(hash, noop, nil))
		return err != nil && err != context.DeadlineExceeded && err != context.Canceled, err
	}
	if m.IndexOf(0) != 0 || m.IndexOf(n-1) != n-1 {
		k.Inconclusive("hash 0 / n-1 do not map to the first / last lane")
		return
	}
	var wg sync.WaitGroup
	wg.Add(1)
	go func() { defer wg.Done(); m.Stop() }()
	// wait until the first Stop has closed lane 0 (bounded; the probes before that are accepted
	// and abandoned by their 1 ms context)
	closed0 := false
	for i := 0; i < 20000 && !closed0; i++ {
		closed0, _ = refused(0, time.Millisecond)
	}
	if !closed0 {
		wg.Wait()
		k.Inconclusive("lane 0 never refused a call after Stop was issued")
		return
	}
	m.Stop() // second Stop: must not return before the shutdown is complete
	ok, err := refused(n-1, 300*time.Millisecond)
	wg.Wait()
	k.Evals(1)
	k.Count("double_stop_cases", 1)
	if !ok {
		k.Fail("accepted-after-stop", "MultiLine with %d lanes: a second Stop() returned while the first was still closing lanes, and a call submitted to lane %d after it had returned was accepted (it ended with %v instead of being refused)", n, n-1, err)
		return
	}
	k.Logf("the call to lane %d after the second Stop was refused: %v", n-1, err)
}

// multiExecCase: executors are independent instances. Several of them (of the same and of
// different types) run at the same time, each with its own callers; every caller must get the
// result of its own call, every call runs exactly once, and calls of one lane do not overlap.
// (State shared between instances - package-level scratch space for call arguments, pooled
// cells - only shows when two executors execute at the same moment.)
func multiExecCase(k *engine.Case) {
	r := k.R
	ne := 2 + r.Intn(6)
	sameType := r.Intn(2) == 0
	var exs []executor
	for i := 0; i < ne; i++ {
		if sameType {
			rq := async.NewRunnerQ(async.WithQSize(0), async.WithName("verif"))
			rq.Run()
			exs = append(exs, &runnerEx{rq, 0}) // the reflective AsyncCall form
		} else {
			exs = append(exs, newExecutor(r, 0))
		}
	}
	callers := 2 + r.Intn(3)
	per := 150
	k.Logf("%d executors running at the same time (all reflective runner queues: %v), %d callers each, %d calls per caller", ne, sameType, callers, per)
	k.Nontrivial()
	var mu sync.Mutex
	bad, first := 0, ""
	report := func(f string, a ...any) {
		mu.Lock()
		bad++
		if first == "" {
			first = fmt.Sprintf(f, a...)
		}
		mu.Unlock()
	}
	var wg sync.WaitGroup
	start := make(chan struct{})
	var executed int64
	for ei, ex := range exs {
		inLane := make([]int32, ex.Lanes())
		for c := 0; c < callers; c++ {
			ei, ex, c := ei, ex, c
			wg.Add(1)
			go func() {
				defer wg.Done()
				<-start
				for n := 0; n < per; n++ {
					want := (ei*100+c)*100000 + n
					hash := want
					lane := ex.IndexOf(hash)
					runs := int32(0)
					// some callees fail: the caller must get exactly its own call's error, and the
					// lane goes on serving the calls behind it
					var calleeErr error
					if n%5 == 2 {
						calleeErr = fmt.Errorf("callee error of call %d", want)
					}
					v, err := ex.Submit(context.Background(), hash, func(ctx context.Context, laneArg int) (interface{}, error) {
						if atomic.AddInt32(&inLane[lane], 1) != 1 {
							report("%s #%d: two calls of lane %d ran at the same time", ex.Name(), ei, lane)
						}
						atomic.AddInt32(&runs, 1)
						atomic.AddInt64(&executed, 1)
						runtime.Gosched()
						atomic.AddInt32(&inLane[lane], -1)
						if calleeErr != nil {
							return nil, calleeErr
						}
						return want, nil
					})
					if err != nil && atomic.LoadInt32(&runs) == 0 && strings.Contains(err.Error(), "full") {
						// a bounded queue (proc channel) may refuse when full: not accepted, try again
						runtime.Gosched()
						n--
						continue
					}
					if calleeErr != nil {
						if err != calleeErr || atomic.LoadInt32(&runs) != 1 {
							report("%s #%d caller %d: call %d, whose callee returned the error %q, came back with (%v, %v) after running %d time(s)", ex.Name(), ei, c, n, calleeErr, v, err, atomic.LoadInt32(&runs))
							return
						}
						continue
					}
					if err != nil || v != want || atomic.LoadInt32(&runs) != 1 {
						report("%s #%d caller %d: call %d returned (%v, %v) and ran %d time(s); its own call returns (%d, nil)", ex.Name(), ei, c, n, v, err, atomic.LoadInt32(&runs), want)
						return
					}
				}
			}()
		}
	}
	close(start)
	done := make(chan struct{})
	go func() { wg.Wait(); close(done) }()
	quiet := 0
wait:
	for {
		select {
		case <-done:
			break wait
		case <-time.After(2 * time.Millisecond):
			// no timers are involved: if every goroutine is parked and callers are still
			// waiting, nothing will ever move again
			if Q.IsQuiet() {
				quiet++
				if quiet >= 3 {
					k.Fail("caller-stuck", "%d executors with %d callers each: every goroutine is parked but callers are still waiting for their calls (first problem reported so far: %q): %v", ne, callers, first, Q.Describe())
					return
				}
			} else {
				quiet = 0
			}
		}
	}
	for _, ex := range exs {
		ex.Stop()
		ex.WaitDone()
	}
	k.Evals(int64(ne * callers * per))
	k.Count("multi_exec_calls", atomic.LoadInt64(&executed))
	if bad > 0 {
		k.Fail("wrong-result", "%d problem(s) with %d executors running at the same time; first: %s", bad, ne, first)
	}
}

// ctxHandoffCase: a callee passes the context it was called with to another goroutine (a
// follow-up it does not wait for), and that goroutine submits a call for the same lane with it
// while the callee is still running. Whatever the context carries, the follow-up is a call
// like any other: it must not start before the running call has ended ("calls on one lane
// never overlap"), and it completes afterwards with its own result.
func ctxHandoffCase(k *engine.Case) {
	r := k.R
	ex := newExecutor(r, []int{0, 4}[r.Intn(2)])
	hash := []int{0, 1, 7, -3}[r.Intn(4)]
	k.Logf("executor=%s: callee hands its context to a goroutine that submits a call for the same lane (hash %d)", ex.Name(), hash)
	k.Nontrivial()
	d := engine.NewDriver(Q, k)
	gate := make(chan struct{})
	var aEnded, bStartedEarly, bRan int32
	var follow *engine.Op
	var fmu sync.Mutex
	opA := d.Spawn("call A", func() any {
		v, err := ex.Submit(context.Background(), hash, func(ctx context.Context, laneArg int) (interface{}, error) {
			fmu.Lock()
			follow = d.Spawn("follow-up call B (callee's context)", func() any {
				v, err := ex.Submit(ctx, hash, func(context.Context, int) (interface{}, error) {
					if atomic.LoadInt32(&aEnded) == 0 {
						atomic.StoreInt32(&bStartedEarly, 1)
					}
					atomic.AddInt32(&bRan, 1)
					return 222, nil
				})
				return callRes{v, err}
			})
			fmu.Unlock()
			<-gate
			atomic.StoreInt32(&aEnded, 1)
			return 111, nil
		})
		return callRes{v, err}
	})
	stop := func() {
		ex.Stop()
		w := d.Spawn("WaitDone", func() any { ex.WaitDone(); return nil })
		d.Quiesce()
		_ = w
	}
	if !d.Quiesce() {
		close(gate)
		return
	}
	k.Evals(1)
	k.Count("ctx_handoff_cases", 1)
	if atomic.LoadInt32(&bStartedEarly) != 0 {
		k.Fail("lane-overlap", "%s: a call submitted (with the running callee's context, from another goroutine) for the lane of a call that is still running was executed before that call ended", ex.Name())
		close(gate)
		d.Quiesce()
		stop()
		return
	}
	close(gate)
	if !d.Quiesce() {
		return
	}
	fmu.Lock()
	f := follow
	fmu.Unlock()
	if !opA.Done() || f == nil || !f.Done() {
		k.Fail("caller-stuck", "%s: after the running call ended, done(A)=%v, follow-up submitted=%v done=%v", ex.Name(), opA.Done(), f != nil, f != nil && f.Done())
		return
	}
	ra, _ := opA.Result().(callRes)
	rb, _ := f.Result().(callRes)
	if ra.err != nil || ra.v != 111 {
		k.Fail("wrong-result", "%s: call A returned (%v, %v), its callee returned (111, nil)", ex.Name(), ra.v, ra.err)
	}
	// the follow-up may be refused (bounded queue) - but if it ran, it ran once, after A, with its own result
	if atomic.LoadInt32(&bRan) > 1 || (rb.err == nil && (rb.v != 222 || atomic.LoadInt32(&bRan) != 1)) {
		k.Fail("wrong-result", "%s: follow-up call returned (%v, %v) and ran %d time(s)", ex.Name(), rb.v, rb.err, atomic.LoadInt32(&bRan))
	}
	stop()
}

type callerKey struct{}

// sharedCallCtxCase: a call object (function + request) is immutable, so two callers may submit
// the same one while an earlier submission of it is still pending. Every submission is a call
// of its own: the function runs once per submission, with the submitting caller's context, and
// each caller gets the result of its own submission.
func sharedCallCtxCase(k *engine.Case) {
	r := k.R
	useMline := r.Intn(2) == 0
	d := engine.NewDriver(Q, k)
	gate := make(chan struct{})
	var runs int32
	fn := func(ctx context.Context) (interface{}, error) {
		atomic.AddInt32(&runs, 1)
		who, _ := ctx.Value(callerKey{}).(string)
		if who == "gate" {
			<-gate
		}
		return "ran for " + who, nil
	}
	var submit func(who string) (interface{}, error)
	var stop func()
	name := "line.Line"
	if useMline {
		name = "mline.MultiLine"
		m := mline.NewMultiLine(pipe.WithSlotSize(1+r.Intn(3)), pipe.WithQSize(0))
		m.Run()
		cc := mline.NewCallCtx(7, func(ctx context.Context, idx int, req interface{}) (interface{}, error) { return fn(ctx) }, nil)
		submit = func(who string) (interface{}, error) {
			return m.AsyncCall(context.WithValue(context.Background(), callerKey{}, who), cc)
		}
		stop = func() { m.Stop(); m.WaitStop(context.Background()) }
	} else {
		wg := &sync.WaitGroup{}
		l := line.NewLine(wg, line.WithName("verif"))
		l.Run()
		cc := line.NewCallCtx(func(ctx context.Context, req interface{}) (interface{}, error) { return fn(ctx) }, nil)
		submit = func(who string) (interface{}, error) {
			return l.AsyncCall(context.WithValue(context.Background(), callerKey{}, who), cc)
		}
		stop = func() { l.Stop(); wg.Wait() }
	}
	k.Logf("%s: one call object submitted by a gate caller (blocks the lane) and by %s while that is pending", name, "alice and bob")
	k.Nontrivial()
	spawn := func(who string) *engine.Op {
		return d.Spawn("submit by "+who, func() any { v, err := submit(who); return callRes{v, err} })
	}
	g := spawn("gate")
	if !d.Quiesce() {
		close(gate)
		return
	}
	a := spawn("alice")
	if !d.Quiesce() {
		close(gate)
		return
	}
	b := spawn("bob")
	if !d.Quiesce() {
		close(gate)
		return
	}
	close(gate)
	if !d.Quiesce() {
		return
	}
	k.Evals(1)
	k.Count("shared_callctx_cases", 1)
	for who, o := range map[string]*engine.Op{"gate": g, "alice": a, "bob": b} {
		if !o.Done() {
			k.Fail("caller-stuck", "%s: the submission by %s of a shared call object never returned (the function ran %d times): %v", name, who, atomic.LoadInt32(&runs), Q.Describe())
			return
		}
		cr, _ := o.Result().(callRes)
		if cr.err != nil || cr.v != "ran for "+who {
			k.Fail("wrong-result", "%s: %s submitted a call object that two other callers also had pending and got (%v, %v); its own call returns (%q, nil); the function ran %d times for 3 submissions", name, who, cr.v, cr.err, "ran for "+who, atomic.LoadInt32(&runs))
			return
		}
	}
	if n := atomic.LoadInt32(&runs); n != 3 {
		k.Fail("wrong-result", "%s: 3 submissions of one call object, the function ran %d times", name, n)
		return
	}
	s := d.Spawn("stop", func() any { stop(); return nil })
	if d.Quiesce() && !s.Done() {
		k.Fail("lanes-not-terminated", "%s: Stop + wait did not return: %v", name, Q.Describe())
	}
}

// stopRaceCase: Stop racing submitters. Callers hammer one executor with calls (no deadline on
// their contexts) until they are refused; Stop arrives at an arbitrary moment. Every call that
// was not refused was accepted "before Stop" and must complete: at the end no caller may be
// left waiting, every returned call ran exactly once with its own result, refused calls never
// ran, and the lanes terminate. Many short trials per case.
func stopRaceCase(k *engine.Case) {
	r := k.R
	old := runtime.GOMAXPROCS([]int{2, 4, 8, 16}[r.Intn(4)])
	defer runtime.GOMAXPROCS(old)
	trials := 25
	callers := 4 + r.Intn(9)
	k.Nontrivial()
	for trial := 0; trial < trials; trial++ {
		var ex executor
		switch r.Intn(4) {
		case 0:
			wg := &sync.WaitGroup{}
			l := line.NewLine(wg, line.WithName("verif"))
			l.Run()
			ex = &lineEx{l, wg}
		case 1:
			n := []int{1, 2, 3}[r.Intn(3)]
			m := mline.NewMultiLine(pipe.WithSlotSize(n))
			m.Run()
			ex = &mlineEx{m, n}
		default:
			rq := async.NewRunnerQ(async.WithName("verif"))
			rq.Run()
			ex = &runnerEx{rq, r.Intn(3)}
		}
		if trial == 0 {
			k.Logf("%d trials: %d callers submit to a fresh executor until refused, Stop at a random moment (first executor: %s)", trials, callers, ex.Name())
		}
		d := engine.NewDriver(Q, k)
		var ranOK, refusedRan int64
		ops := make([]*engine.Op, callers)
		for c := range ops {
			c := c
			ops[c] = d.Spawn(fmt.Sprintf("caller %d", c), func() any {
				for n := 0; n < 100000; n++ {
					want := c*1000000 + n
					var runs int32
					v, err := ex.Submit(context.Background(), want, func(context.Context, int) (interface{}, error) {
						atomic.AddInt32(&runs, 1)
						return want, nil
					})
					if err != nil {
						if atomic.LoadInt32(&runs) != 0 {
							atomic.AddInt64(&refusedRan, 1)
						}
						return nil // refused: the executor has been stopped
					}
					if v != want || atomic.LoadInt32(&runs) != 1 {
						return fmt.Sprintf("call %d returned %v and ran %d time(s)", want, v, atomic.LoadInt32(&runs))
					}
					atomic.AddInt64(&ranOK, 1)
				}
				return nil
			})
		}
		for i, spin := 0, r.Intn(400); i < spin; i++ {
			runtime.Gosched()
		}
		ex.Stop()
		wd := d.Spawn("WaitDone", func() any { ex.WaitDone(); return nil })
		if !d.Quiesce() {
			return
		}
		k.Evals(1)
		k.Count("stop_race_trials", 1)
		k.Count("stop_race_calls_completed", atomic.LoadInt64(&ranOK))
		for c, o := range ops {
			if !o.Done() {
				k.Fail("caller-stuck", "%s, trial %d: Stop raced %d submitting callers; caller %d is still waiting for a call that was accepted (not refused) and will never run: %v", ex.Name(), trial, callers, c, Q.Describe())
				return
			}
			if msg, _ := o.Result().(string); msg != "" {
				k.Fail("wrong-result", "%s, trial %d: %s", ex.Name(), trial, msg)
				return
			}
		}
		if n := atomic.LoadInt64(&refusedRan); n > 0 {
			k.Fail("accepted-after-stop", "%s, trial %d: %d calls that were refused ran nevertheless", ex.Name(), trial, n)
			return
		}
		if !wd.Done() {
			k.Fail("lanes-not-terminated", "%s, trial %d: the lane goroutines did not terminate after Stop: %v", ex.Name(), trial, Q.Describe())
			return
		}
	}
}

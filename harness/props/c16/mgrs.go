package c16

import (
	"time"

	"verifh/engine"

	"github.com/pinealctx/neptune/stcp"
)

// mgrIndependenceCase: session managers are configured independently of one another. Two
// managers are built without any option, and between them a third one with timeouts of its own
// (different in every case). A session is run on each of the two option-less managers over a
// fake connection that records how far ahead each deadline is when it is armed: the two
// managers must arm the same read and write deadlines - whatever the defaults are, they do not
// depend on which other managers exist in the process. (Compared to within 10 s; the third
// manager's timeouts are minutes to hours away from any of them.)
func mgrIndependenceCase(k *engine.Case) {
	r := k.R
	d := engine.NewDriver(Q, k)
	clk := &vclock{}
	type side struct {
		h    *handler
		mgr  *stcp.SessionMgr
		conn *fakeConn
		s    *stcp.Session
	}
	mk := func(id int) *side {
		x := &side{h: newHandler()}
		x.mgr = stcp.NewSessionMgr(x.h)
		x.mgr.SetLogger(quietLogger)
		return x
	}
	a := mk(0)
	ort := time.Duration(10+r.Intn(50))*time.Minute + time.Duration(r.Intn(48))*time.Hour
	owt := time.Duration(10+r.Intn(50))*time.Minute + time.Duration(r.Intn(48))*time.Hour
	if r.Intn(2) == 0 {
		stcp.NewSessionMgr(newHandler(), stcp.WithReadTimeout(ort), stcp.WithWriteTimeout(owt))
	} else {
		stcp.NewEchoMgr(&srvHandler{}, stcp.WithReadTimeout(ort), stcp.WithWriteTimeout(owt))
	}
	b := mk(1)
	k.Logf("NewSessionMgr(h) ; a manager with WithReadTimeout(%v), WithWriteTimeout(%v) ; NewSessionMgr(h): one session on the first and one on the last", ort, owt)
	k.Nontrivial()
	for i, x := range []*side{a, b} {
		x.conn = newFakeConn(900+i, true, clk)
		x.s = stcp.NewSession(x.mgr, x.conn)
		x.s.Start()
	}
	defer func() {
		for _, x := range []*side{a, b} {
			x.s.Close()
			x.conn.peerClose()
		}
		Q.Wait()
	}()
	if !d.Quiesce() {
		return
	}
	for _, x := range []*side{a, b} {
		_ = x.s.Send([]byte("<frame>"))
	}
	if !d.Quiesce() {
		return
	}
	snap := func(x *side) (rd, wd time.Duration, rn, wn int) {
		x.conn.mu.Lock()
		defer x.conn.mu.Unlock()
		return x.conn.rdlIn, x.conn.wdlIn, x.conn.rdlSet, x.conn.wdlSet
	}
	ra, wa, rna, wna := snap(a)
	rb, wb, rnb, wnb := snap(b)
	k.Evals(1)
	k.Logf("first manager: read deadline armed %v ahead (%d times), write deadline %v ahead (%d times); last manager: read %v (%d), write %v (%d)", ra, rna, wa, wna, rb, rnb, wb, wnb)
	if rna == 0 || rnb == 0 || wna == 0 || wnb == 0 {
		k.Inconclusive("a session did not arm its deadlines before the quiescent point")
		return
	}
	near := func(x, y time.Duration) bool { d := x - y; return d > -10*time.Second && d < 10*time.Second }
	if !near(ra, rb) || !near(wa, wb) {
		k.Fail("manager-options-leak", "two managers built without options arm different deadlines: the one built before a manager with WithReadTimeout(%v), WithWriteTimeout(%v) arms read %v / write %v ahead, the one built after it read %v / write %v", ort, owt, ra, wa, rb, wb)
		return
	}
	k.Count("mgr_independence_cases", 1)
}
